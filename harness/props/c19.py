"""C19 — one event loop per pipeline; async pipelines never leave the caller's loop.

Lean: Model/LoopCfg.lean (the four steps of `Stream.__init__`, percolation with the
ValueErrors and the residue a raising percolation leaves, `get_io_loop`),
Proofs/LoopCfg.lean, Props/C19.lean.

Correspondence (this file), three streams of cases:
  cfg      a history of node constructions through the real API (fluent methods,
           every offline-constructible source type, every loop-requiring node type)
           inside a coroutine on the virtual loop; after every construction the
           loop identity class and `asynchronous` of every live node, whether the
           construction raised, `len(_io_loops)` and the threads started are compared
           with the model, and the property statement is evaluated on the
           observations alone (model-free oracle).  Chains / fan-outs / 2-input joins
           of up to 3 nodes are ENUMERATED COMPLETELY over asynchronous x loop x
           {plain, loop-requiring}; concrete node types rotate through that
           enumeration and are additionally enumerated completely on 1- and 2-node
           shapes; seeded random longer histories on top.
  threads  implementation only: pipelines are run (sources started / data emitted)
           and the sink records the thread and current loop of every callback.
  fresh    implementation only: a few configurations in a fresh interpreter
           (`threading.enumerate()` and `_io_loops` before/after, nothing shared).
"""
import asyncio
import itertools
import json
import logging
import os
import queue
import shutil
import subprocess
import sys
import tempfile
import threading

from tornado.ioloop import IOLoop

from .. import common, vloop

SIG_DEFECT = "ensure_io_loop-overrides-declared-async"

# ------------------------------------------------------------------ node types

def _ident(x):
    return x


async def _aident(x):
    return x


# name -> (ensure_io_loop, accepts loop/asynchronous kwargs, arity: 0 source | 1 | 2)
TYPES = {
    "Stream":              (False, True, None),
    "Stream+ensure":       (True, True, None),
    # plain, single upstream
    "map":                 (False, False, 1),
    "filter":              (False, False, 1),
    "starmap":             (False, False, 1),
    "accumulate":          (False, False, 1),
    "slice":               (False, False, 1),
    "sink":                (False, True, 1),
    "sliding_window":      (False, True, 1),
    "partition_unique":    (False, True, 1),
    "unique":              (False, True, 1),
    "pluck":               (False, True, 1),
    "collect":             (False, True, 1),
    "flatten":             (False, True, 1),
    # plain, two upstreams
    "zip":                 (False, True, 2),
    "combine_latest":      (False, True, 2),
    "union":               (False, True, 2),
    "zip_latest":          (False, True, 2),
    # loop-requiring (ensure_io_loop=True), single upstream
    "buffer":              (True, True, 1),
    "delay":               (True, True, 1),
    "rate_limit":          (True, True, 1),
    "timed_window":        (True, True, 1),
    "timed_window_unique": (True, True, 1),
    "partition":           (True, True, 1),
    "latest":              (True, True, 1),
    "map_async":           (True, False, 1),
    "to_websocket":        (True, True, 1),
    "to_mqtt":             (True, True, 1),
    "DaskStream":          (True, True, 1),
    # sources (ensure_io_loop=True via Source.__init__)
    "Source":              (True, True, 0),
    "from_iterable":       (True, True, 0),
    "from_periodic":       (True, True, 0),
    "from_textfile":       (True, True, 0),
    "filenames":           (True, True, 0),
    "from_tcp":            (True, True, 0),
    "from_http_server":    (True, True, 0),
    "from_process":        (True, True, 0),
    "from_kafka":          (True, True, 0),
    "FromKafkaBatched":    (True, True, 0),
    "from_websocket":      (True, True, 0),
    "from_q":              (True, True, 0),
    "from_mqtt":           (True, True, 0),
}
SOURCES = [t for t, v in TYPES.items() if v[2] == 0]
ENSURE1 = [t for t, v in TYPES.items() if v[2] == 1 and v[0] and v[1]]
PLAIN1 = [t for t, v in TYPES.items() if v[2] == 1 and not v[0] and v[1]]
PLAIN1_NOKW = [t for t, v in TYPES.items() if v[2] == 1 and not v[0] and not v[1]]
PLAIN2 = [t for t, v in TYPES.items() if v[2] == 2]


def build(typ, ups, kw, scratch):
    """Construct one node of type `typ` over the node objects `ups` through the public API."""
    import streamz
    from streamz import Stream, Source
    import streamz.sources as ssrc
    u = ups[0] if ups else None
    if typ in ("Stream", "Stream+ensure"):
        if typ == "Stream+ensure":
            kw = dict(kw, ensure_io_loop=True)
        if not ups:
            return Stream(**kw)
        if len(ups) == 1:
            return Stream(upstream=u, **kw)
        return Stream(upstreams=list(ups), **kw)
    if typ == "map":
        return u.map(_ident)
    if typ == "filter":
        return u.filter(_ident)
    if typ == "starmap":
        return u.starmap(_ident)
    if typ == "accumulate":
        return u.accumulate(lambda a, b: b)
    if typ == "slice":
        return u.slice(0, None, 1)
    if typ == "sink":
        return u.sink(_ident, **kw)
    if typ == "sliding_window":
        return u.sliding_window(2, **kw)
    if typ == "partition_unique":
        return u.partition_unique(2, **kw)
    if typ == "unique":
        return u.unique(**kw)
    if typ == "pluck":
        return u.pluck(0, **kw)
    if typ == "collect":
        return u.collect(**kw)
    if typ == "flatten":
        return u.flatten(**kw)
    if typ == "zip":
        return u.zip(*ups[1:], **kw)
    if typ == "combine_latest":
        return u.combine_latest(*ups[1:], **kw)
    if typ == "union":
        return u.union(*ups[1:], **kw)
    if typ == "zip_latest":
        return u.zip_latest(*ups[1:], **kw)
    if typ == "buffer":
        return Stream.buffer(u, 3, **kw)     # from_textfile shadows .buffer with its text buffer
    if typ == "delay":
        return u.delay(0.5, **kw)
    if typ == "rate_limit":
        return u.rate_limit(0.5, **kw)
    if typ == "timed_window":
        return u.timed_window(0.5, **kw)
    if typ == "timed_window_unique":
        return u.timed_window_unique(0.5, **kw)
    if typ == "partition":
        return u.partition(2, timeout=0.5, **kw)
    if typ == "latest":
        return u.latest(**kw)
    if typ == "map_async":
        return u.map_async(_aident)
    if typ == "to_websocket":
        return u.to_websocket("ws://localhost:1", **kw)
    if typ == "to_mqtt":
        return u.to_mqtt("localhost", 1, "t", **kw)
    if typ == "DaskStream":
        from streamz.dask import DaskStream
        return DaskStream(u, **kw)
    if typ == "Source":
        return Source(**kw)
    if typ == "from_iterable":
        return Stream.from_iterable([1, 2, 3], **kw)
    if typ == "from_periodic":
        return Stream.from_periodic(lambda: 1, 0.5, **kw)
    if typ == "from_textfile":
        p = os.path.join(scratch, "t.txt")
        if not os.path.exists(p):
            with open(p, "w") as f:
                f.write("a\nb\n")
        s = Stream.from_textfile(p, poll_interval=0.5, **kw)
        return s
    if typ == "filenames":
        return Stream.filenames(scratch, poll_interval=0.5, **kw)
    if typ == "from_tcp":
        return Stream.from_tcp(1, **kw)
    if typ == "from_http_server":
        return Stream.from_http_server(1, **kw)
    if typ == "from_process":
        return Stream.from_process(["true"], **kw)
    if typ == "from_kafka":
        return Stream.from_kafka(["t"], {"group.id": "g"}, **kw)
    if typ == "FromKafkaBatched":
        return ssrc.FromKafkaBatched("t", {"group.id": "g"}, **kw)
    if typ == "from_websocket":
        return ssrc.from_websocket("localhost", 1, **kw)
    if typ == "from_q":
        return ssrc.from_q(queue.Queue(), **kw)
    if typ == "from_mqtt":
        return ssrc.from_mqtt("localhost", 1, "t", **kw)
    raise ValueError(typ)


# ------------------------------------------------------------------ implementation runner (cfg)

class DaskStub:
    """Stands in for `distributed.client.default_client()`: only `.loop` is read by get_io_loop."""
    def __init__(self, loop):
        self.loop = loop


class Env:
    """Loop objects of one case and the classification of observed loops."""

    def __init__(self, cur, dask):
        self.cur = cur
        self.others = {}
        self.dask_loop = IOLoop(make_current=False) if dask else None

    def loop_obj(self, name):
        if name is None:
            return None
        if name == "current":
            return self.cur
        if name not in self.others:
            self.others[name] = IOLoop(make_current=False)
        return self.others[name]

    def classify(self, l):
        import streamz.core as sc
        if l is None:
            return None
        if l is self.cur:
            return "current"
        for k, v in self.others.items():
            if l is v:
                return k
        if sc._io_loops and l is sc._io_loops[-1]:
            return "background"
        if self.dask_loop is not None and l is self.dask_loop:
            return "dask"
        return "unknown"

    def close(self):
        for l in list(self.others.values()) + ([self.dask_loop] if self.dask_loop else []):
            try:
                l.close(all_fds=True)
            except Exception:
                pass


def stop_background(base_threads):
    """Stop and join whatever get_io_loop started; leaves `_io_loops` empty.  Returns #threads stopped."""
    import streamz.core as sc
    n = 0
    for l in list(sc._io_loops):
        try:
            l.add_callback(l.stop)
        except Exception:
            pass
    for t in threading.enumerate():
        if t not in base_threads and t is not threading.current_thread():
            t.join(10)
            n += 1
    for l in list(sc._io_loops):
        try:
            l.close(all_fds=True)
        except Exception:
            pass
    del sc._io_loops[:]
    return n


def run_cfg_case(case, scratch, cur):
    """Run the constructions of `case` on the real code (inside a coroutine on the loop `cur`).

    Returns one observation per op:
      {"outcome": "ok"|"raised"|"error:<repr>", "bg": len(_io_loops), "threads": new threads alive,
       "nodes": [[loop class, asynchronous] per live node]}
    """
    import streamz.core as sc
    base_threads = set(threading.enumerate())
    assert not sc._io_loops, "background loop left over from a previous case"
    env = Env(cur, case.get("dask", False))
    old_client = sc._dask_default_client
    if case.get("dask", False):
        stub = DaskStub(env.dask_loop)
        sc._dask_default_client = lambda: stub
    else:
        def _no_client():
            raise ValueError("no client")
        sc._dask_default_client = _no_client
    nodes = []          # live node objects, model index = position
    obs = []
    opnode = {}         # op index -> node index
    try:
        for k, op in enumerate(case["ops"]):
            if any(j not in opnode for j in op["ups"]):
                # refers to a construction that raised: there is no such object
                obs.append({"outcome": "skipped", "bg": len(sc._io_loops),
                            "threads": len([t for t in threading.enumerate() if t not in base_threads]),
                            "nodes": [[env.classify(n.loop), n.asynchronous] for n in nodes]})
                continue
            ups = [nodes[opnode[j]] for j in op["ups"]]
            kw = {}
            if op["loop"] is not None:
                kw["loop"] = env.loop_obj(op["loop"])
            if op["asyn"] is not None:
                kw["asynchronous"] = op["asyn"]
            try:
                node = build(op["type"], ups, kw, scratch)
                outcome = "ok"
                opnode[k] = len(nodes)
                nodes.append(node)
            except ValueError as e:
                msg = str(e)
                if "event loops" in msg or "asynchronous and synchronous" in msg:
                    outcome = "raised"
                else:
                    outcome = "error:" + repr(e)
            except Exception as e:   # anything else is not the modelled ValueError
                outcome = "error:" + repr(e)
            new_threads = [t for t in threading.enumerate() if t not in base_threads]
            obs.append({"outcome": outcome, "bg": len(sc._io_loops), "threads": len(new_threads),
                        "nodes": [[env.classify(n.loop), n.asynchronous] for n in nodes]})
    finally:
        sc._dask_default_client = old_client
        for n in nodes:
            f = getattr(n, "file", None)
            if f is not None:
                try:
                    f.close()
                except Exception:
                    pass
        stop_background(base_threads)
        env.close()
    return obs


# ------------------------------------------------------------------ oracle (model-free)

def component(edges, starts):
    """Nodes of the pipeline (connected component over `edges`) the nodes `starts` belong to."""
    seen = set(starts)
    todo = list(starts)
    while todo:
        x = todo.pop()
        for (u, d) in edges:
            for p, q in ((u, d), (d, u)):
                if p == x and q not in seen:
                    seen.add(q)
                    todo.append(q)
    return seen


def oracle_cfg(case, obs):
    """The property statement evaluated on the observations of one history (no model involved).
    Returns list of (signature, description)."""
    fails = []
    prev_nodes = []     # [loop class, asynchronous] per live node before the op
    prev_bg = 0
    prev_threads = 0
    opnode = {}
    clean = True        # no raise and no join over differently bound inputs so far
    edges = []          # (upstream node idx, downstream node idx)
    dask = case.get("dask", False)
    for k, (op, o) in enumerate(zip(case["ops"], obs)):
        if o["outcome"] == "skipped":
            continue
        ens = TYPES[op["type"]][0]
        ups = [opnode[j] for j in op["ups"]]
        up_loops = [prev_nodes[u][0] for u in ups]
        up_asyn = [prev_nodes[u][1] for u in ups]
        bound = [l for l in up_loops if l is not None]
        comp = component(edges, ups)
        comp_loops = {prev_nodes[i][0] for i in comp} - {None}
        comp_asyn = {prev_nodes[i][1] for i in comp} - {None}
        ok = o["outcome"] == "ok"
        raised = o["outcome"] == "raised"
        tag = "%s(loop=%s, asynchronous=%s) over %s" % (op["type"], op["loop"], op["asyn"],
                                                        [list(x) for x in zip(up_loops, up_asyn)])
        if not ok and not raised:
            fails.append(("unexpected-exception", "%s: %s" % (tag, o["outcome"])))
        # --- an explicit loop or mode conflicting with the extended pipeline must raise
        loop_conflict = op["loop"] is not None and any(l != op["loop"] for l in bound)
        mode_conflict = op["asyn"] is not None and any(a is not None and a != op["asyn"] for a in up_asyn)
        if clean:
            loop_conflict = loop_conflict or (op["loop"] is not None and bool(comp_loops - {op["loop"]}))
            mode_conflict = mode_conflict or (op["asyn"] is not None and bool(comp_asyn - {op["asyn"]}))
        if loop_conflict and ok:
            fails.append(("conflict-not-raised:loop", tag + " did not raise"))
        if mode_conflict and ok:
            fails.append(("conflict-not-raised:mode", tag + " did not raise"))
        # --- a node declared asynchronous over a compatible pipeline: caller's loop, no thread
        if op["asyn"] is True and op["loop"] is None and comp_loops <= {"current"} and False not in comp_asyn:
            if raised:
                fails.append((SIG_DEFECT, tag + " raised although nothing in the pipeline conflicts with asynchronous=True"))
            elif ok:
                me = o["nodes"][-1]
                if me[0] != "current" or me[1] is not True:
                    fails.append((SIG_DEFECT, "%s ended with loop=%s asynchronous=%s (declared asynchronous: expected the caller's loop, True)"
                                  % (tag, me[0], me[1])))
                elif o["bg"] != prev_bg or o["threads"] != prev_threads:
                    fails.append(("declared-async-started-thread", tag + " started a background loop thread"))
        if op["asyn"] is True and (o["bg"] != prev_bg or o["threads"] != prev_threads) and \
                not (ok and o["nodes"][-1][1] is not True):
            fails.append(("declared-async-started-thread", tag + " started a background loop thread"))
        if ok:
            me = o["nodes"][-1]
            idx = len(o["nodes"]) - 1
            opnode[k] = idx
            # --- inheritance through the fluent API
            if op["loop"] is None and bound and me[0] not in bound:
                fails.append(("inherit-loop", "%s got loop %s" % (tag, me[0])))
            if op["loop"] is None and bound and len(set(bound)) == 1 and any(o["nodes"][u][0] not in (None, me[0]) for u in ups):
                fails.append(("inherit-loop", "%s: loop %s differs from an upstream's" % (tag, me[0])))
            if op["loop"] is not None and me[0] != op["loop"]:
                fails.append(("explicit-loop-ignored", "%s got loop %s" % (tag, me[0])))
            if op["asyn"] is None and any(a is True for a in up_asyn) and me[1] is not True:
                fails.append(("inherit-mode", "%s got asynchronous=%s" % (tag, me[1])))
            if op["asyn"] is False and me[1] is not False:
                fails.append(("explicit-mode-ignored", "%s got asynchronous=%s" % (tag, me[1])))
            if me[1] is not None and me[0] is None:
                fails.append(("mode-without-loop", "%s ended with asynchronous=%s but no loop" % (tag, me[1])))
            if ens and me[0] is None:
                fails.append(("ensure-without-loop", "%s (loop-requiring) ended without a loop" % (tag,)))
            # a multi-input node joining pipelines bound to different loops / modes is accepted unchecked
            # (Props/C19.lean: unchecked_join_splits_pipeline); nothing is claimed after that
            if len(ups) > 1 and (len(comp_loops) > 1 or (True in comp_asyn and False in comp_asyn)):
                clean = False
            for u in ups:
                edges.append((u, idx))
            # --- undeclared loop-requiring node, nothing to inherit anywhere in the pipeline -> shared background loop
            if ens and op["asyn"] is None and op["loop"] is None and not comp_loops and True not in comp_asyn:
                want = "dask" if dask else "background"
                if me[0] != want or me[1] is not False:
                    fails.append(("undeclared-ensure-not-background", "%s got loop=%s asynchronous=%s, expected %s/False"
                                  % (tag, me[0], me[1], want)))
                if not dask and (o["bg"] != 1 or o["threads"] != 1):
                    fails.append(("background-loop-count", "%s: len(_io_loops)=%d, new threads=%d" % (tag, o["bg"], o["threads"])))
        else:
            clean = False
        # --- the background loop is created at most once, together with its thread, and never without need
        if o["bg"] > 1 or o["threads"] != o["bg"] or o["bg"] < prev_bg:
            fails.append(("background-loop-count", "%s: len(_io_loops)=%d, new threads=%d" % (tag, o["bg"], o["threads"])))
        if o["bg"] > prev_bg and dask:
            fails.append(("background-loop-count", "%s: background loop created although a Dask client exists" % (tag,)))
        # --- existing bindings never change (nothing is silently moved to another loop / mode)
        for i, (pl, pa) in enumerate(prev_nodes):
            nl, na = o["nodes"][i]
            if pl is not None and nl != pl:
                fails.append(("rebound-loop", "%s changed node %d loop %s -> %s" % (tag, i, pl, nl)))
            if pa is not None and na != pa:
                fails.append(("rebound-mode", "%s changed node %d asynchronous %s -> %s" % (tag, i, pa, na)))
        # --- one loop per pipeline: along every edge the loops are equal or one is unset
        if clean:
            for (u, d) in edges:
                lu, ld = o["nodes"][u][0], o["nodes"][d][0]
                if lu is not None and ld is not None and lu != ld:
                    fails.append(("split-edge", "%s: edge %d->%d has loops %s / %s" % (tag, u, d, lu, ld)))
                au, ad = o["nodes"][u][1], o["nodes"][d][1]
                if au is not None and ad is not None and au != ad:
                    fails.append(("split-mode", "%s: edge %d->%d has asynchronous %s / %s" % (tag, u, d, au, ad)))
        prev_nodes = o["nodes"]
        prev_bg = o["bg"]
        prev_threads = o["threads"]
    return fails


# ------------------------------------------------------------------ checking one cfg case

def check_cfg(ctx, case, obs, answers):
    """`answers`: the model's answers for the case's lines (None on replay without model)."""
    nontrivial = len(case["ops"]) >= 2 or any(op["asyn"] is not None or op["loop"] is not None for op in case["ops"])
    ctx.case(case, nontrivial=nontrivial)
    ctx.count("shape:" + case.get("shape", "?"))
    for op, o in zip(case["ops"], obs):
        ctx.count("type:" + op["type"])
        ctx.count("outcome:" + o["outcome"].split(":")[0])
    fails = oracle_cfg(case, obs)
    seen = set()
    for sig, what in fails:
        if sig in seen:
            continue
        seen.add(sig)
        ctx.failure(sig, what, case, observed=obs, oracle="C19 statement evaluated on observed loop/mode/threads")
    if answers is not None:
        good = True
        for k, (o, a) in enumerate(zip(obs, answers)):
            if a is None:
                if o["outcome"] != "skipped":
                    good = False
                continue
            mo = {"ok": "ok", "raised": "raised"}.get(a.get("outcome"), "model:" + str(a))
            if mo != o["outcome"] or a.get("bg") != o["bg"] or a.get("nodes") != o["nodes"]:
                ctx.disagreement("op %d %r: implementation %s bg=%s nodes=%s, model %s bg=%s nodes=%s"
                                 % (k, case["ops"][k], o["outcome"], o["bg"], o["nodes"], mo, a.get("bg"), a.get("nodes")), case)
                good = False
                break
        if good:
            ctx.coverage["traces_validated_against_impl"] += 1


def model_answers(cases, all_obs, legacy=False):
    """Feed every case to the model; returns per case one answer per op (None for skipped ops).
    Node indices handed to the model follow the implementation's outcomes; should model and
    implementation disagree on an outcome that is reported as a disagreement at that op."""
    lines, where = [], []
    for case, obs in zip(cases, all_obs):
        lines.append({"op": "reset", "dask": bool(case.get("dask", False)), "legacy": legacy})
        opnode, n = {}, 0
        slots = []
        for k, (op, o) in enumerate(zip(case["ops"], obs)):
            if o["outcome"] == "skipped":
                slots.append(None)
                continue
            slots.append(len(lines))
            lines.append({"op": "new", "ups": [opnode[j] for j in op["ups"]], "loop": op["loop"],
                          "asyn": op["asyn"], "ensure": TYPES[op["type"]][0]})
            if o["outcome"] == "ok":
                opnode[k] = n
                n += 1
        where.append(slots)
    answers = common.lean_driver("LoopCfg", lines)
    return [[None if i is None else answers[i] for i in slots] for slots in where]


# ------------------------------------------------------------------ generators

ASYN = [None, True, False]
LOOPS = [None, "current", "other0"]
ABSTRACT = [(e, a, l) for e in (False, True) for a in ASYN for l in LOOPS]


class Rot:
    """Deterministic rotation through the concrete types of each class."""
    def __init__(self):
        self.i = {}

    def pick(self, key, lst):
        j = self.i.get(key, 0)
        self.i[key] = j + 1
        return lst[j % len(lst)]

    def concrete(self, ens, asyn, loop, arity):
        plainargs = asyn is None and loop is None
        if arity == 0:
            return self.pick(("s", ens), SOURCES + ["Stream+ensure"]) if ens else "Stream"
        if arity == 1:
            if ens:
                return self.pick(("e1", plainargs), ENSURE1 + ["Stream+ensure"] + (["map_async"] if plainargs else []))
            return self.pick(("p1", plainargs), PLAIN1 + ["Stream"] + (PLAIN1_NOKW if plainargs else []))
        if ens:
            return "Stream+ensure"
        return self.pick(("p2",), PLAIN2 + ["Stream"])


SHAPES = {
    "single": [[]],
    "chain2": [[], [0]],
    "chain3": [[], [0], [1]],
    "fan3": [[], [0], [0]],
    "join3": [[], [], [0, 1]],
    "join4a": [[], [0], [], [1, 2]],
    "join4b": [[], [], [1], [0, 2]],
    "diamond4": [[], [0], [0], [1, 2]],
}


def mk_case(shape, cfg, rot, dask=False):
    ops = []
    for ups, (e, a, l) in zip(SHAPES[shape], cfg):
        ops.append({"type": rot.concrete(e, a, l, len(ups)), "ups": list(ups), "loop": l, "asyn": a})
    return {"kind": "cfg", "shape": shape, "dask": dask, "ops": ops}


def enum_shape(shape, rot, dask=False):
    n = len(SHAPES[shape])
    for cfg in itertools.product(ABSTRACT, repeat=n):
        yield mk_case(shape, cfg, rot, dask)


def enum_types():
    """Every concrete type, completely, on 1-node (sources) and 2-node shapes."""
    for t, (ens, kw, ar) in TYPES.items():
        argsets = [(a, l) for a in ASYN for l in LOOPS] if kw else [(None, None)]
        if ar == 0 or ar is None:
            for a, l in argsets:
                yield {"kind": "cfg", "shape": "type1", "dask": False, "ops": [{"type": t, "ups": [], "loop": l, "asyn": a}]}
        if ar == 1 or ar is None:
            for (ra, rl) in [(a, l) for a in ASYN for l in LOOPS]:
                for a, l in argsets:
                    yield {"kind": "cfg", "shape": "type2", "dask": False,
                           "ops": [{"type": "Stream", "ups": [], "loop": rl, "asyn": ra},
                                   {"type": t, "ups": [0], "loop": l, "asyn": a}]}
        if ar == 2:
            for (ra, rl) in [(a, l) for a in ASYN for l in LOOPS]:
                for a, l in argsets:
                    yield {"kind": "cfg", "shape": "type3", "dask": False,
                           "ops": [{"type": "Stream", "ups": [], "loop": rl, "asyn": ra},
                                   {"type": "Stream", "ups": [], "loop": None, "asyn": None},
                                   {"type": t, "ups": [0, 1], "loop": l, "asyn": a}]}
    # every source type feeding every loop-requiring node type
    for s in SOURCES:
        for sa in ASYN:
            for t in ENSURE1 + ["map_async"]:
                args = [(None, None), (True, None), (False, None)] if TYPES[t][1] else [(None, None)]
                for a, l in args:
                    yield {"kind": "cfg", "shape": "src-ensure", "dask": False,
                           "ops": [{"type": s, "ups": [], "loop": None, "asyn": sa},
                                   {"type": t, "ups": [0], "loop": l, "asyn": a}]}


def gen_random(rng, rot):
    """A longer random history: 4-7 constructions, random upstreams among the nodes built so far
    (failed constructions are simply not referenced), occasionally a second `other` loop / Dask."""
    nops = rng.randint(4, 7)
    dask = rng.random() < 0.15
    loops = [None, None, None, "current", "other0"] + (["other1"] if rng.random() < 0.3 else [])
    ops = []
    live = []   # op indices that MAY be referenced (we do not know yet which succeed: use roots + explicit marking)
    for k in range(nops):
        r = rng.random()
        if not live or r < 0.25:
            ups = []
        elif r < 0.75 or len(live) < 2:
            ups = [rng.choice(live)]
        else:
            ups = rng.sample(live, 2)
        e = rng.random() < 0.4
        a = rng.choice([None, None, True, False])
        l = rng.choice(loops)
        ops.append({"type": rot.concrete(e, a, l, len(ups)), "ups": ups, "loop": l, "asyn": a})
        live.append(k)
    return {"kind": "cfg", "shape": "random", "dask": dask, "ops": ops}


# hand-picked boundary cases (run first)
def corpus():
    S = lambda t, ups=(), loop=None, asyn=None: {"type": t, "ups": list(ups), "loop": loop, "asyn": asyn}
    C = lambda shape, ops, dask=False: {"kind": "cfg", "shape": shape, "dask": dask, "ops": ops}
    return [
        # the known defect, both faces
        C("corpus", [S("from_iterable", asyn=True)]),
        C("corpus", [S("Stream"), S("delay", [0], asyn=True)]),
        C("corpus", [S("from_periodic", asyn=True), S("map", [0]), S("buffer", [1])]),
        # test_percolate_loop_information / test_mixed_async / test_share_common_ioloop
        C("corpus", [S("Stream"), S("timed_window", [0], loop="current")]),
        C("corpus", [S("Stream", asyn=False), S("map", [0]), S("Stream", [1], asyn=True)]),
        C("corpus", [S("Stream"), S("Stream"), S("timed_window", [0], loop="other0"), S("buffer", [1], loop="other0")]),
        # residue of a raising loop percolation (a-z-b)
        C("corpus", [S("Stream"), S("Stream", loop="other0"), S("zip", [0, 1]), S("Stream", [0], loop="current")]),
        # unchecked: join over two loops / two modes
        C("corpus", [S("Stream", loop="current"), S("Stream", loop="other0"), S("zip", [0, 1])]),
        C("corpus", [S("Stream", asyn=True), S("Stream", asyn=False), S("union", [0, 1])]),
        # background loop created once, shared
        C("corpus", [S("from_iterable"), S("from_periodic"), S("Stream"), S("buffer", [2]), S("zip", [0, 3])]),
        # Dask client present
        C("corpus", [S("from_iterable"), S("Stream", asyn=True), S("Stream"), S("rate_limit", [2])], dask=True),
        # same upstream twice
        C("corpus", [S("Stream"), S("zip", [0, 0], asyn=True)]),
        # declared asynchronous over a pipeline bound to another loop: inherits that loop
        C("corpus", [S("Stream", loop="other0"), S("buffer", [0], asyn=True)]),
        # step 4 percolation raising after get_io_loop: a(None)-z(other)-b(other), child of a declared sync
        C("corpus", [S("Stream"), S("Stream", loop="other0"), S("zip", [0, 1]), S("sink", [0], asyn=False)]),
    ]


# ------------------------------------------------------------------ threads stream (implementation only)

def run_thread_case(case, scratch):
    """Run a small pipeline and record on which thread / loop every sink callback ran.
    case: {"kind":"threads","mode":"async"|"sync","head": type, "mid": [types], "n": items}"""
    import streamz.core as sc
    from streamz import Stream
    base_threads = set(threading.enumerate())
    assert not sc._io_loops
    main_ident = threading.get_ident()
    rec = []
    done = threading.Event()
    want = case.get("n", 3)
    state = {"cur": None}

    def sinkf(x):
        try:
            here = IOLoop.current(instance=False)
        except Exception:
            here = None
        rec.append((threading.get_ident(), here is state["cur"] and here is not None))
        if len(rec) >= want:
            done.set()

    def make(kw):
        head = case["head"]
        if head == "from_q":
            q = queue.Queue()
            for i in range(want):
                q.put(i)
            import streamz.sources as ssrc
            src = ssrc.from_q(q, sleep_time=0.1, **kw)
        elif head == "from_periodic":
            src = Stream.from_periodic(lambda: 1, 0.1, **kw)
        elif head == "from_textfile":
            p = os.path.join(scratch, "thr.txt")
            with open(p, "w") as f:
                f.write("".join("l%d\n" % i for i in range(want)))
            src = Stream.from_textfile(p, poll_interval=0.1, **kw)
        elif head == "filenames":
            d = os.path.join(scratch, "thrdir")
            os.makedirs(d, exist_ok=True)
            for i in range(want):
                open(os.path.join(d, "f%d" % i), "w").close()
            src = Stream.filenames(d, poll_interval=0.1, **kw)
        elif head == "from_iterable":
            src = Stream.from_iterable(list(range(want)), **kw)
        else:
            src = Stream(**kw)
        node = src
        for t in case["mid"]:
            if t == "partition":
                node = node.partition(1)
            elif t == "timed_window":
                node = node.timed_window(0.1).flatten()
            elif t == "latest":
                node = node.latest()
            else:
                node = build(t, [node], {}, scratch)
        state["sink"] = node.sink(sinkf)
        return src, node

    out = {}
    if case["mode"] == "async":
        async def main(loop):
            state["cur"] = IOLoop.current()
            src, last = make({"asynchronous": True})
            out["loop"] = "current" if src.loop is state["cur"] else "not-current"
            out["asyn"] = src.asynchronous
            if src.loop is not state["cur"]:
                return      # the pipeline left the caller's loop: reported from loop/asynchronous alone
            if case["head"] == "Stream":
                for i in range(want):
                    await src.emit(i)
                await vloop.advance(2.0, loop)
            else:
                src.start()
                await vloop.advance(2.0, loop)
                src.stop()
                await vloop.advance(0.5, loop)
            f = getattr(src, "file", None)
            if f is not None:
                f.close()
        try:
            vloop.run(main)
        finally:
            out["threads"] = len([t for t in threading.enumerate() if t not in base_threads])
            out["bg"] = len(sc._io_loops)
            stop_background(base_threads)
    else:
        # undeclared: built and driven from a plain thread without any running loop
        try:
            src, last = make({})
            bgt = [t for t in threading.enumerate() if t not in base_threads]
            out["loop"] = "background" if sc._io_loops and src.loop is sc._io_loops[-1] else "other"
            out["asyn"] = src.asynchronous
            out["threads"] = len(bgt)
            out["bg"] = len(sc._io_loops)
            out["bg_ident"] = bgt[0].ident if bgt else None
            try:
                if case.get("start_via") == "sink":
                    # the pipeline is started through its last node, from this (non-loop) thread: start() walks upstream
                    state["sink"].start()
                if case["head"] == "Stream":
                    for i in range(want):
                        src.emit(i)
                elif case.get("start_via") != "sink":
                    src.start()
            except Exception as e:      # noqa: BLE001
                out["raised"] = "%s: %s" % (type(e).__name__, e)
            out["completed"] = (not out.get("raised")) and done.wait(20)
            if case["head"] != "Stream":
                src.stop()
            f = getattr(src, "file", None)
            if f is not None:
                f.close()
        finally:
            stop_background(base_threads)
    out["main_ident"] = main_ident
    out["calls"] = [[ident == main_ident, oncur] for ident, oncur in rec]
    out["idents"] = sorted({ident for ident, _ in rec})
    return out


def kafka_cases(ctx):
    """from_kafka_batched(asynchronous=True) is a source that does work of its own at run time (offset commits from reference
    counters it creates): a few C09 histories on the in-memory broker, observed for background loops / threads."""
    from . import c09
    items = [dict(it) for it in c09.CORPUS[:3]] + [c09.gen_case(ctx.rng) for _ in range(12 if ctx.thorough() else 3)]
    return [{"kind": "kafka-async", "item": it} for it in items]


def check_kafka_case(ctx, case):
    import streamz.core as sc
    from . import c09
    base_threads = set(threading.enumerate())
    assert not sc._io_loops, "background loop left over from a previous case"
    item = case["item"]
    try:
        events, _rops = c09.run_impl(item["case"], list(item["ops"]) + c09.drain_ops(item["case"], item["ops"]))
        bg = len(sc._io_loops)
        new = [t for t in threading.enumerate() if t not in base_threads]
    finally:
        stop_background(base_threads)
    ctx.case(case, nontrivial=any(ev.get("commit") for ev in events))
    ctx.count("threads:kafka-async")
    if any(ev.get("commit") for ev in events):
        ctx.count("kafka-async:offsets-committed")
    if bg or new:
        ctx.failure("declared-async-started-thread", "from_kafka_batched(asynchronous=True) on the caller's loop: after polling, emitting and committing "
                    "%d background loop(s) exist and %d new thread(s) are alive - an asynchronous source must do all its work on the caller's loop"
                    % (bg, len(new)), case, oracle="C19: a source declared asynchronous never starts a background thread")


def check_thread_case(ctx, case, scratch):
    out = run_thread_case(case, scratch)
    ctx.case(case, nontrivial=True)
    ctx.count("threads:" + case["mode"])
    ctx.count("head:" + case["head"])
    want = case.get("n", 3)
    desc = "%s pipeline %s -> %s -> sink" % (case["mode"], case["head"], case["mid"])
    if case["mode"] == "async":
        bad = None
        if out.get("loop") != "current" or out.get("asyn") is not True:
            bad = "source declared asynchronous ended on loop=%s asynchronous=%s" % (out.get("loop"), out.get("asyn"))
        elif out["threads"] or out["bg"]:
            bad = "a background thread was started (threads=%d, len(_io_loops)=%d)" % (out["threads"], out["bg"])
        elif len(out["calls"]) < want:
            bad = "only %d of %d callbacks ran on the caller's loop" % (len(out["calls"]), want)
        elif not all(m and c for m, c in out["calls"]):
            bad = "callbacks ran off the caller's thread/loop: %s" % (out["calls"],)
        if bad:
            sig = SIG_DEFECT if out.get("loop") != "current" else "callback-thread:async"
            ctx.failure(sig, desc + ": " + bad, case, observed=out,
                        oracle="declared-asynchronous pipeline: every callback on the caller's thread and loop, no new thread")
        else:
            ctx.coverage["traces_validated_against_impl"] += 1
    else:
        bad = None
        if out.get("loop") != "background" or out.get("asyn") is not False:
            bad = "undeclared source ended on loop=%s asynchronous=%s" % (out.get("loop"), out.get("asyn"))
        elif out["threads"] != 1 or out["bg"] != 1:
            bad = "expected exactly one background loop thread (threads=%d, len(_io_loops)=%d)" % (out["threads"], out["bg"])
        elif out.get("raised"):
            bad = "starting / feeding the pipeline from the caller's thread raised " + out["raised"]
        elif not out.get("completed"):
            bad = "callbacks did not arrive"
        elif out["idents"] != [out["bg_ident"]]:
            bad = "callbacks ran on threads %s, background loop thread is %s" % (out["idents"], out["bg_ident"])
        if bad:
            ctx.failure("callback-thread:sync", desc + ": " + bad, case, observed=out,
                        oracle="undeclared loop-requiring pipeline: callbacks on the one shared background loop thread")
        else:
            ctx.coverage["traces_validated_against_impl"] += 1


def thread_cases(thorough):
    heads = ["from_iterable", "from_periodic", "from_textfile", "filenames", "from_q", "Stream"]
    mids = [[], ["map"], ["buffer"], ["delay"], ["rate_limit"], ["map", "partition"], ["latest"], ["timed_window"], ["map_async"]]
    cases = []
    for h in heads:
        for m in (mids if thorough else mids[:5]):
            cases.append({"kind": "threads", "mode": "async", "head": h, "mid": m, "n": 1 if "latest" in m else 3})
    for h in ["from_iterable", "Stream", "from_textfile"] + (["filenames", "from_q"] if thorough else []):
        for m in ([[], ["map"], ["buffer"]] if thorough else [[], ["buffer"]]):
            if h == "Stream" and "buffer" not in m:
                continue        # a plain undeclared pipeline has no loop at all
            cases.append({"kind": "threads", "mode": "sync", "head": h, "mid": m, "n": 3})
    # a blocking pipeline started through its sink from the caller's thread: every node's own tasks still live on the background loop
    for h in ["Stream", "from_iterable"] + (["from_textfile", "from_q"] if thorough else []):
        for m in [["map_async"], ["buffer"], ["map_async", "buffer"]] + ([["map", "map_async"], ["rate_limit"]] if thorough else []):
            cases.append({"kind": "threads", "mode": "sync", "head": h, "mid": m, "n": 3, "start_via": "sink"})
    return cases


# ------------------------------------------------------------------ fresh-interpreter stream

FRESH_SRC = r'''
import asyncio, json, sys, threading, queue
import streamz, streamz.core as sc
from streamz import Stream, Source
import streamz.sources as ssrc
from tornado.ioloop import IOLoop
what, asyn = sys.argv[1], {"None": None, "True": True, "False": False}[sys.argv[2]]
kw = {} if asyn is None else {"asynchronous": asyn}
def make():
    if what == "from_iterable": return Stream.from_iterable([1], **kw)
    if what == "from_periodic": return Stream.from_periodic(lambda: 1, 1, **kw)
    if what == "filenames": return Stream.filenames("/nonexistent-dir-c19", **kw)
    if what == "from_tcp": return Stream.from_tcp(1, **kw)
    if what == "from_http_server": return Stream.from_http_server(1, **kw)
    if what == "from_process": return Stream.from_process(["true"], **kw)
    if what == "from_kafka": return Stream.from_kafka(["t"], {"group.id": "g"}, **kw)
    if what == "FromKafkaBatched": return ssrc.FromKafkaBatched("t", {"group.id": "g"}, **kw)
    if what == "from_websocket": return ssrc.from_websocket("localhost", 1, **kw)
    if what == "from_q": return ssrc.from_q(queue.Queue(), **kw)
    if what == "from_mqtt": return ssrc.from_mqtt("localhost", 1, "t", **kw)
    if what == "Source": return Source(**kw)
    if what == "Stream": return Stream(**kw)
    up = Stream()
    return getattr(up, what)(*({"buffer": (3,), "delay": (1,), "rate_limit": (1,), "timed_window": (1,),
                                "timed_window_unique": (1,), "partition": (2,), "latest": ()}[what]), **kw)
async def main():
    before = threading.active_count()
    try:
        n = make()
        res = {"raised": None, "current": n.loop is IOLoop.current(), "loop_none": n.loop is None,
               "background": bool(sc._io_loops) and n.loop is sc._io_loops[-1], "asyn": n.asynchronous}
    except Exception as e:
        res = {"raised": repr(e)}
    res.update(threads_before=before, threads_after=threading.active_count(), io_loops=len(sc._io_loops),
               file=streamz.__file__)
    print(json.dumps(res))
asyncio.run(main())
'''

FRESH_TYPES_QUICK = ["from_iterable", "delay", "Stream"]
FRESH_TYPES_ALL = ["from_iterable", "from_periodic", "filenames", "from_tcp", "from_http_server", "from_process",
                   "from_kafka", "FromKafkaBatched", "from_websocket", "from_q", "from_mqtt", "Source", "Stream",
                   "buffer", "delay", "rate_limit", "timed_window", "timed_window_unique", "partition", "latest"]


def run_fresh(case):
    p = subprocess.run([sys.executable, "-c", FRESH_SRC, case["what"], str(case["asyn"])],
                       capture_output=True, text=True, timeout=120, env=dict(os.environ))
    lines = [l for l in p.stdout.split("\n") if l.startswith("{")]
    if p.returncode != 0 or not lines:
        raise common.HarnessError("fresh interpreter failed: rc=%s\n%s" % (p.returncode, p.stderr[-1500:]))
    return json.loads(lines[-1])


def check_fresh(ctx, case):
    out = run_fresh(case)
    ctx.case(case, nontrivial=True)
    ctx.count("fresh:" + str(case["asyn"]))
    desc = "fresh interpreter: %s(asynchronous=%s)" % (case["what"], case["asyn"])
    ensure = case["what"] != "Stream"
    if case["asyn"] is True:
        if out.get("raised") or not out.get("current") or out.get("asyn") is not True \
                or out["threads_after"] != out["threads_before"] or out["io_loops"]:
            ctx.failure(SIG_DEFECT, desc + ": " + json.dumps(out), case, observed=out,
                        oracle="declared asynchronous: loop is IOLoop.current(), asynchronous stays True, no thread started")
            return
    elif ensure:
        if out.get("raised") or not out.get("background") or out.get("asyn") is not False \
                or out["threads_after"] != out["threads_before"] + 1 or out["io_loops"] != 1:
            ctx.failure("undeclared-ensure-not-background", desc + ": " + json.dumps(out), case, observed=out,
                        oracle="undeclared loop-requiring node: shared background loop, exactly one new thread")
            return
    else:
        if out.get("raised") or not out.get("loop_none") or out["threads_after"] != out["threads_before"] or out["io_loops"]:
            ctx.failure("plain-node-started-loop", desc + ": " + json.dumps(out), case, observed=out,
                        oracle="plain undeclared node: no loop, no thread")
            return
    ctx.coverage["traces_validated_against_impl"] += 1


# ------------------------------------------------------------------ run / replay

def _quiet():
    # node callbacks left running on loops that are torn down log noise (e.g. timed_window emitting () into pluck)
    logging.disable(logging.CRITICAL)


def run_cfg_batch(cases, scratch):
    """All cfg cases of a batch inside one coroutine on a virtual loop (constructions never await)."""
    res = []
    import streamz.dask  # noqa: F401  (imported before the thread snapshots are taken)

    async def main(loop):
        cur = IOLoop.current()
        for c in cases:
            res.append(run_cfg_case(c, scratch, cur))
    vloop.run(main)
    return res


def run(ctx):
    _quiet()
    ctx.audit()
    ctx.assumptions += [
        "all constructions of one history happen on one thread inside one running event loop (IOLoop.current() is one object)",
        "every node of a history stays referenced (downstreams are weak references); connect()/disconnect() are not modelled: they touch neither loop nor mode",
        "node kinds enter the model only as ensure_io_loop yes/no; map/filter/starmap/accumulate/slice/map_async do not accept loop=/asynchronous= and are exercised without them",
        "the Dask default client is replaced by a stub exposing `.loop` (get_io_loop reads nothing else); without it `_dask_default_client` is made to raise ValueError as it does when no client exists",
        "`streamz.core._io_loops` is emptied (its loop stopped, thread joined) between histories so that creation of the background loop is observable in-process; a few configurations are re-run in a fresh interpreter",
        "thread creation is observed (threading.enumerate), the model only counts len(_io_loops)",
    ]
    # The model is the repaired step 3.  Should the defect be recorded as an open known finding instead
    # of being repaired, the implementation is compared with the model of the unchanged step 3
    # (World.legacy) so that every OTHER deviation still shows up as a disagreement.
    legacy = ctx.match_known(SIG_DEFECT) is not None
    if legacy:
        ctx.assumptions.append("known finding %s is open: correspondence is checked against the legacy variant of the model" % SIG_DEFECT)
    rot = Rot()
    rng = ctx.rng
    cases = corpus()
    cases += list(enum_types())
    for sh in ["single", "chain2", "chain3", "fan3", "join3"]:
        cases += list(enum_shape(sh, rot))
    cases += list(enum_shape("chain2", rot, dask=True))
    n_rand, n_four = (1500, 1500) if not ctx.thorough() else (40000, 60000)
    for _ in range(n_rand):
        cases.append(gen_random(rng, rot))
    for _ in range(n_four):
        sh = rng.choice(["join4a", "join4b", "diamond4"])
        cases.append(mk_case(sh, [rng.choice(ABSTRACT) for _ in SHAPES[sh]], rot, dask=rng.random() < 0.1))
    scratch = tempfile.mkdtemp(prefix="verif-c19-", dir=os.environ.get("VERIF_SCRATCH"))
    try:
        B = 2000
        for i in range(0, len(cases), B):
            batch = cases[i:i + B]
            all_obs = run_cfg_batch(batch, scratch)
            answers = model_answers(batch, all_obs, legacy)
            for c, o, a in zip(batch, all_obs, answers):
                check_cfg(ctx, c, o, a)
        for c in thread_cases(ctx.thorough()):
            check_thread_case(ctx, c, scratch)
        for c in kafka_cases(ctx):
            check_kafka_case(ctx, c)
        fresh = FRESH_TYPES_ALL if ctx.thorough() else FRESH_TYPES_QUICK
        for what in fresh:
            for a in ([True, None] if ctx.thorough() else [True]):
                check_fresh(ctx, {"kind": "fresh", "what": what, "asyn": a})
        if not ctx.thorough():
            check_fresh(ctx, {"kind": "fresh", "what": "from_iterable", "asyn": None})
    finally:
        shutil.rmtree(scratch, ignore_errors=True)
    ctx.coverage["rule"] = (
        "corpus of boundary histories; COMPLETE enumeration of asynchronous in {None,True,False} x loop in {None,current,other} x "
        "{plain, loop-requiring} per node over the shapes single, chain of 2, chain of 3, fan-out of 3, 2-input join (18^n histories each), "
        "concrete node types rotating through the enumeration; complete enumeration of every concrete type (%d source types, %d loop-requiring "
        "node types, %d plain ones, Stream with and without ensure_io_loop) on 1- and 2-node shapes and every source x every loop-requiring node; chain of 2 also with a Dask client; "
        "seeded random histories of 4-7 constructions and random 4-node join/diamond shapes; pipelines actually run with thread/loop recorded "
        "per callback; fresh-interpreter runs. Non-trivial: at least two constructions or an explicit loop/mode. Distinct = distinct case JSON."
        % (len(SOURCES), len(ENSURE1) + 1, len(PLAIN1) + len(PLAIN1_NOKW) + len(PLAIN2)))


def replay(ctx, data):
    _quiet()
    ctx.audit()
    case = data["case"]
    scratch = tempfile.mkdtemp(prefix="verif-c19-")
    try:
        if case["kind"] == "cfg":
            obs = run_cfg_batch([case], scratch)
            try:
                answers = model_answers([case], obs, ctx.match_known(SIG_DEFECT) is not None)
            except common.HarnessError:
                answers = [None]
            check_cfg(ctx, case, obs[0], answers[0])
        elif case["kind"] == "threads":
            check_thread_case(ctx, case, scratch)
        elif case["kind"] == "kafka-async":
            check_kafka_case(ctx, case)
        else:
            check_fresh(ctx, case)
    finally:
        shutil.rmtree(scratch, ignore_errors=True)
    ctx.coverage["rule"] = "replay of one recorded case"
