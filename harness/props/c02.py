"""C02 — asynchronous timing never changes what lossless pipelines deliver.

Lean: per-node event-loop models (Model/RateLimit.lean for rate_limit/delay, Model/Async*.lean
for buffer, map_async, timed windows, partition with timeout, zip with maxsize), theorems
"outputs are a prefix of the (mapped / flattened) inputs, equal at quiescence, for every
interleaving"; composition through C01's edge consistency.  Correspondence: the node-group
modules replay the observed behaviour of the real nodes through the models.  Oracle
(model-free, this file): on random pipelines with 1-2 asynchronous nodes, every consumer
flavour (Future, native coroutine, tornado coroutine) and random schedules, each sink receives
exactly what the same pipeline with the timing removed delivers (real synchronous code as
reference; batches compared by concatenation).
"""
from .. import asynccheck as ac
from . import _async_common as A

SIGS = ("delivery-lost", "delivery-duplicated", "delivery-reordered-or-altered")
KINDS = ["buffer", "delay", "rate_limit", "map_async", "timed_window", "partition_timeout"]
EXTRA = ["StreamzVerif.Props.C13"]

CORPUS = [
    # native-coroutine consumers directly below map_async, elements without metadata
    {"mode": "async", "flavour": "coro", "nodes": [{"kind": "source", "ups": []}, {"kind": "map_async", "f": ["inc"], "parallelism": 2, "ups": [0]},
                                                    {"kind": "sink", "mode": "async", "ups": [1]}, {"kind": "sink", "mode": "async", "ups": [1]}],
     "ops": [{"op": "settle"}, {"op": "emit", "node": 0, "val": 1, "md": []}, {"op": "emit", "node": 0, "val": 2, "md": []}, {"op": "jobdone", "job": 0},
             {"op": "sinkdone", "tok": 0}, {"op": "sinkdone", "tok": 1}, {"op": "jobdone", "job": 1}, {"op": "sinkdone", "tok": 2}, {"op": "sinkdone", "tok": 3},
             {"op": "emit", "node": 0, "val": 3, "md": []}, {"op": "jobdone", "job": 2}, {"op": "sinkdone", "tok": 4}, {"op": "sinkdone", "tok": 5}]},
    # repaired 63350ae: start() reaching a running map_async node (here through its sink) replaced the live worker; the old one still
    # took the next task and the two emitted concurrently - [3, 2] when the second job finishes first
    {"mode": "async", "flavour": "future", "nodes": [{"kind": "source", "ups": []}, {"kind": "map_async", "f": ["inc"], "parallelism": 2, "ups": [0]},
                                                      {"kind": "sink", "mode": "sync", "f": ["id"], "ups": [1]}],
     "ops": [{"op": "settle"}, {"op": "emit", "node": 0, "val": 1, "md": []}, {"op": "start", "node": 2}, {"op": "emit", "node": 0, "val": 2, "md": []},
             {"op": "jobdone", "job": 1}, {"op": "jobdone", "job": 0}]},
    # repaired (second fix): stop();start() with a task in flight - the new worker ran next to the old one
    {"mode": "async", "flavour": "future", "nodes": [{"kind": "source", "ups": []}, {"kind": "map_async", "f": ["inc"], "parallelism": 2, "ups": [0]},
                                                      {"kind": "sink", "mode": "sync", "f": ["id"], "ups": [1]}],
     "ops": [{"op": "settle"}, {"op": "emit", "node": 0, "val": 1, "md": []}, {"op": "emit", "node": 0, "val": 2, "md": []}, {"op": "restart", "node": 2},
             {"op": "jobdone", "job": 1}, {"op": "jobdone", "job": 0}]},
    # one producer of a zip far ahead of the other (un-awaited emissions): pairing must stay index-wise
    {"mode": "async", "flavour": "future", "nodes": [{"kind": "source", "ups": []}, {"kind": "source", "ups": []}, {"kind": "zipmax", "ups": [0, 1], "maxsize": 1},
                                                      {"kind": "sink", "mode": "sync", "f": ["id"], "ups": [2]}],
     "ops": [{"op": "settle"}] + [{"op": "emit", "node": 0, "val": v, "md": []} for v in (1, 2, 3, 4, 5)] +
            [{"op": "emit", "node": 1, "val": v, "md": []} for v in (11, 12, 13)] + [{"op": "advance", "dt": 1}]},
    # two producers feeding one zip input through union, each awaiting its emits
    {"mode": "async", "flavour": "coro", "nodes": [{"kind": "source", "ups": []}, {"kind": "source", "ups": []}, {"kind": "zipmax", "ups": [0, 1], "maxsize": 2},
                                                    {"kind": "sink", "mode": "async", "ups": [2]}],
     "ops": [{"op": "settle"}] + [{"op": "emit", "node": 1, "val": v, "md": []} for v in (21, 22, 23, 24, 25, 26)] +
            [{"op": "emit", "node": 0, "val": 1, "md": []}, {"op": "sinkdone", "tok": 0}, {"op": "emit", "node": 0, "val": 2, "md": []}, {"op": "sinkdone", "tok": 1},
             {"op": "emit", "node": 0, "val": 3, "md": []}, {"op": "sinkdone", "tok": 2}, {"op": "advance", "dt": 1}]},
    # map_async(parallelism=1): the third emission waits for a slot; the first job completes in the SAME loop callback in which a
    # fourth emission is made.  Before d0c8660 every waiting insert job polled for the slot and the fourth overtook the third ([1,2,4,3]).
    {"mode": "async", "flavour": "future", "nodes": [{"kind": "source", "ups": []}, {"kind": "map_async", "f": ["id"], "parallelism": 1, "ups": [0]},
                                                      {"kind": "sink", "mode": "sync", "f": ["id"], "ups": [1]}],
     "ops": [{"op": "settle"}] + [{"op": "emit", "node": 0, "val": v, "md": []} for v in (1, 2, 3)] +
            [{"op": "multi", "ops": [{"op": "jobdone", "job": 0}, {"op": "emit", "node": 0, "val": 4, "md": []}]},
             {"op": "jobdone", "job": 1}, {"op": "jobdone", "job": 2}, {"op": "jobdone", "job": 3}]},
    # the same race through an awaitable consumer: the consumer's completion and the emission share a loop callback
    {"mode": "async", "flavour": "coro", "nodes": [{"kind": "source", "ups": []}, {"kind": "map_async", "f": ["inc"], "parallelism": 1, "ups": [0]},
                                                    {"kind": "sink", "mode": "async", "ups": [1]}],
     "ops": [{"op": "settle"}] + [{"op": "emit", "node": 0, "val": v, "md": []} for v in (1, 2, 3)] +
            [{"op": "jobdone", "job": 0}, {"op": "multi", "ops": [{"op": "sinkdone", "tok": 0}, {"op": "emit", "node": 0, "val": 4, "md": []}]},
             {"op": "jobdone", "job": 1}, {"op": "sinkdone", "tok": 1}, {"op": "jobdone", "job": 2}, {"op": "sinkdone", "tok": 2},
             {"op": "jobdone", "job": 3}, {"op": "sinkdone", "tok": 3}]},
]


def saturation_races(thorough):
    """map_async(parallelism=p) saturated by p+2 un-awaited emissions (one insert job is waiting for a slot), then the completion that
    frees a slot and a further emission 0..k loop iterations later: the newcomer must queue behind the waiting job."""
    out = []
    for p in (1, 2, 3):
        for sink in ("sync", "async"):
            for n in range(0, 7 if thorough else 4):
                for extra in ((1, 2) if thorough else (1,)):
                    nodes = [{"kind": "source", "ups": []}, {"kind": "map_async", "f": ["inc"], "parallelism": p, "ups": [0]},
                             {"kind": "sink", "mode": sink, "f": ["id"], "ups": [1]}]

                    def em(v):
                        return {"op": "emit", "node": 0, "val": v, "md": [{"tag": v, "ref": v}]}
                    script = [em(v) for v in range(1, p + 3)]
                    if sink == "async":
                        script.append({"op": "jobdone", "job": 0})
                        first = {"op": "sinkdone", "tok": 0}
                    else:
                        first = {"op": "jobdone", "job": 0}
                    late = []
                    for j in range(extra):
                        if n:
                            late.append({"op": "turns", "n": n})
                        late.append(em(p + 3 + j))
                    script.append({"op": "multi", "ops": [first] + late})
                    out.append((nodes, script))
                    if n == 0:
                        # ... and with an emission BEFORE the completion in the same loop callback: its insert job has been created
                        # but has not run yet when the slot is freed and the next emission arrives
                        pre = list(script[:-1])
                        pre.append({"op": "multi", "ops": [em(p + 3), first] + [em(p + 4 + j) for j in range(extra)]})
                        out.append((nodes, pre))
    # an emission queued BEFORE and one queued AFTER the wake-ups a completion causes, both landing k iterations later: the two
    # arrive in one loop iteration with the worker's slot-freeing handle between them
    for p in (1, 2):
        for k in range(1, 8 if thorough else 7):
            nodes = [{"kind": "source", "ups": []}, {"kind": "map_async", "f": ["inc"], "parallelism": p, "ups": [0]},
                     {"kind": "sink", "mode": "sync", "f": ["id"], "ups": [1]}]

            def em(v):
                return {"op": "emit", "node": 0, "val": v, "md": [{"tag": v, "ref": v}]}
            script = [em(v) for v in range(1, p + 2)]
            script.append({"op": "multi", "ops": [{"op": "after", "n": k, "ops": [em(p + 2)]}, {"op": "jobdone", "job": 0},
                                                  {"op": "after", "n": k, "ops": [em(p + 3)]}]})
            out.append((nodes, script))
    # stop();start() while the worker is idle (waiting for work), then emissions: the stopped worker may still take the element it was
    # waiting for, but the element is delivered (and its reference released) all the same; restart on the node itself or below it
    for p in (1, 2):
        for sink in ("sync", "async"):
            for at in (1, 2):
                for warm in (0, 1):
                    nodes = [{"kind": "source", "ups": []}, {"kind": "map_async", "f": ["inc"], "parallelism": p, "ups": [0]},
                             {"kind": "sink", "mode": sink, "f": ["id"], "ups": [1]}]

                    def em(v):
                        return {"op": "emit", "node": 0, "val": v, "md": [{"tag": v, "ref": v}]}
                    script, j = [], 0
                    for v in range(1, warm + 1):
                        script += [em(v), {"op": "jobdone", "job": j}] + ([{"op": "sinkdone", "tok": j}] if sink == "async" else [])
                        j += 1
                    script.append({"op": "restart", "node": at})
                    for v in range(warm + 1, warm + 3):
                        script += [em(v), {"op": "jobdone", "job": j}] + ([{"op": "sinkdone", "tok": j}] if sink == "async" else [])
                        j += 1
                    out.append((nodes, script))
    return out


def corr_modules():
    mods = []
    for name in ("corr_asyncbuffer", "corr_asyncbufferfine", "corr_mapasyncfine", "corr_asyncwindows", "corr_asynczip"):
        try:
            mods.append(__import__("harness." + name, fromlist=["x"]))
        except ImportError:
            pass
    return mods


def lean_extra(prop="C02"):
    """Extra Props modules audited for `prop`: the node-group modules contribute their `cNN_` theorems."""
    import os
    from .. import common
    pre = prop.lower() + "_"
    out = []
    if prop == "C02":
        out.append("StreamzVerif.Props.C13")            # rate_limit / delay: order, count, nothing lost
    for m in ("AsyncBuffer", "AsyncBufferFine", "MapAsyncFine", "AsyncWindows", "AsyncZip"):
        if os.path.exists(os.path.join(common.LEAN_DIR, "StreamzVerif", "Props", m + ".lean")):
            out.append(("StreamzVerif.Props." + m, pre))
    return out


def run(ctx):
    ctx.audit(extra_modules=lean_extra("C02"))
    n = 150 if not ctx.thorough() else 2000
    A.sweep(ctx, n, KINDS, ["lossless"], SIGS, corpus=CORPUS, p_zip=0.25)
    # completions racing emissions: a completion and one or two emissions in ONE loop callback (no settling in between)
    A.sweep(ctx, n // 3, KINDS, ["lossless"], SIGS, p_zip=0.1, opts={"p_multi": 0.3})
    # ... and emissions placed a chosen number of loop iterations (1-9) after a completion, producers not awaiting
    A.sweep(ctx, n // 3, KINDS, ["lossless"], SIGS, p_zip=0.1, opts={"p_multi": 0.45, "p_turns": 0.8})
    # ... and start() / stop();start() called on nodes of the running pipeline (both walk upstream; data in flight must be unaffected)
    A.sweep(ctx, n // 3, KINDS, ["lossless"], SIGS, p_zip=0.1, opts={"p_start": 0.18, "p_restart": 0.5, "p_multi": 0.2})
    for i, (nodes, script) in enumerate(saturation_races(ctx.thorough())):
        case, obs = ac.run_adaptive(nodes, ctx.rng, len(script), opts={"script": script}, flavour=("future", "coro", "tornado")[i % 3])
        ac.evaluate(ctx, case, obs, ["lossless"], SIGS)
        ctx.count("directed:map_async-saturation-race")
    for m in corr_modules():
        m.run(ctx, "C02", 40 if not ctx.thorough() else 1500)
    ctx.coverage["rule"] = ("random pipelines source -> sync* -> A -> sync* [-> A'] -> sink(s), or two sources joined by zip(maxsize), A in "
                            "buffer/delay/rate_limit/map_async/timed_window/partition(timeout); schedules of 6-16 random operations (emit awaited or not, "
                            "consumer completion, map_async job completion in any order, clock advance) followed by a drain to quiescence; three consumer "
                            "flavours. Non-trivial: >= 2 emissions and >= 8 events.")
    ctx.assumptions += ["wake-up latency is abstracted: observations are taken when the loop has settled at the current virtual instant",
                        "a keyed partition keeps order per key only (compared as multisets across keys)",
                        "union / combine_latest downstream of different timing branches are schedule-dependent by nature and not generated"]


def replay(ctx, data):
    ctx.audit(extra_modules=lean_extra("C02"))
    case = data["case"]
    ac.evaluate(ctx, case, ac.rerun(case), ["lossless"], SIGS)
    ctx.coverage["rule"] = "replay of one recorded case"
