"""Python twins of the Lean function catalogue (lean/StreamzVerif/Model/Val.lean).

Each twin checks its argument type explicitly and raises exactly the exception
class the Lean function returns, so behaviour on ill-typed inputs is comparable.
Specs are JSON lists: ["inc"], ["modk", 3], ["failIf", 3, 1] ...
"""



class FalsyError(Exception):
    """an exception whose instances are falsy (a collection-like error object with no entries)"""
    def __len__(self):
        return 0


EXC_KINDS = {"ValueError": ValueError, "KeyError": KeyError, "StopIteration": StopIteration, "FalsyError": FalsyError,
             "OSError": OSError}
# the exception type the failing catalogue functions raise; a case selects it with case["exc"] (graphlib.Run sets and restores it)
FAIL_EXC = [ValueError]

def _int(x):
    if type(x) is not int:
        raise TypeError("int expected")
    return x


def _seq(x):
    if type(x) not in (tuple, list):
        raise TypeError("tuple/list expected")
    return x


def _sum_ints(l):
    s = 0
    for v in l:
        s += _int(v)
    return s


def make_fn(spec):
    name = spec[0]
    a = spec[1:] + [0, 0]
    k, r = a[0], a[1]
    if name == "id":
        return lambda x: x
    if name == "inc":
        return lambda x: _int(x) + 1
    if name == "dbl":
        return lambda x: 2 * _int(x)
    if name == "neg":
        return lambda x: -_int(x)
    if name == "modk":
        def modk(x):
            _int(x)
            if k == 0:
                raise ValueError("k")
            return x % k
        return modk
    if name == "const":
        return lambda x: k
    if name == "pair":
        return lambda x: (x, x)
    if name == "fst":
        def fst(x):
            _seq(x)
            if len(x) < 1:
                raise IndexError
            return x[0]
        return fst
    if name == "snd":
        def snd(x):
            _seq(x)
            if len(x) < 2:
                raise IndexError
            return x[1]
        return snd
    if name == "sumTup":
        return lambda x: _sum_ints(_seq(x))
    if name == "len":
        def ln(x):
            if type(x) not in (tuple, list, str):
                raise TypeError
            return len(x)
        return ln
    if name == "rep":
        return lambda x: [x] * k
    if name == "failIf":
        def fail_if(x):
            _int(x)
            if k == 0 or x % k == r:
                raise FAIL_EXC[0]("failIf")
            return x
        return fail_if
    if name == "isEven":
        return lambda x: int(_int(x) % 2 == 0)
    if name == "gt":
        return lambda x: int(_int(x) > k)
    if name == "truthy":
        return lambda x: int(bool(x))
    if name == "bucketNone":
        def bucket_none(x):
            if x is None:
                return 0
            _int(x)
            if k == 0:
                raise ValueError("k")
            return x % k
        return bucket_none
    if name == "failPred":
        def fail_pred(x):
            _int(x)
            if k == 0 or x % k == r:
                raise FAIL_EXC[0]("failPred")
            return int(x % 2 == 0)
        return fail_pred
    raise KeyError(name)


def make_fn2(spec):
    name = spec[0]
    a = spec[1:] + [0, 0]
    k, r = a[0], a[1]
    if name == "add":
        return lambda s, x: _int(s) + _int(x)
    if name == "max":
        return lambda s, x: x if _int(s) < _int(x) else s
    if name == "cnt":
        return lambda s, x: _int(s) + 1
    if name == "addRS":
        return lambda s, x: (_int(s) + _int(x), 10 * s + x)
    if name == "failAdd":
        def fail_add(s, x):
            _int(s), _int(x)
            if k == 0 or x % k == r:
                raise FAIL_EXC[0]("failAdd")
            return s + x
        return fail_add
    if name == "snoc":
        def snoc(s, x):
            if type(s) is not tuple:
                raise TypeError
            return s + (x,)
        return snoc
    raise KeyError(name)


def starmap_twin(spec):
    """starmap(func) calls func(*x); the catalogue function takes the tuple."""
    f = make_fn(spec)
    return lambda *args: f(tuple(args))
