"""Virtual-time asyncio event loop used by every schedule-sensitive check.

* `time()` is a virtual clock; when nothing is ready the clock *jumps* to the
  next timer, so `asyncio.sleep(3600)` costs nothing;
* `step_mode`: run exactly ONE ready handle per iteration and call
  `before_handle` / `after_handle` hooks, which lets a harness inject an external
  event (an emit, a consumer completion) between any two handles;
* tornado's `IOLoop.time` and `streamz.core.time` are pointed at the virtual clock
  for the duration of `run()` (rate_limit / delay / gen.sleep read them).

Relies on CPython 3.12's private `_ready` / `_scheduled` attributes of
`asyncio.BaseEventLoop` (listed in the trusted base).
"""
import asyncio
import heapq
import selectors

import tornado.ioloop


class VLoop(asyncio.SelectorEventLoop):
    def __init__(self):
        super().__init__(selectors.SelectSelector())
        self._vtime = 0.0
        self.step_mode = False
        self.before_handle = None
        self.after_handle = None
        self.handles_run = 0
        self.max_handles = 5_000_000
        self.spin = 0               # consecutive iterations without the clock moving while timers are pending
        self.spin_limit = 300       # a busy-waiting coroutine (map_async's slot wait) must not freeze virtual time

    def time(self):
        return self._vtime

    def pending_timers(self):
        return sorted(h._when for h in self._scheduled if not h._cancelled)

    def _run_once(self):
        sched = self._scheduled
        while sched and sched[0]._cancelled:
            h = heapq.heappop(sched)
            h._scheduled = False
            self._timer_cancelled_count = max(0, self._timer_cancelled_count - 1)
        if sched and (not self._ready or self.spin > self.spin_limit):
            when = sched[0]._when
            if when > self._vtime:
                self._vtime = when
                self.spin = 0
        elif sched:
            self.spin += 1
        event_list = self._selector.select(0)
        if event_list:
            self._process_events(event_list)
        while sched and sched[0]._when <= self._vtime:
            h = heapq.heappop(sched)
            h._scheduled = False
            if h._cancelled:
                self._timer_cancelled_count = max(0, self._timer_cancelled_count - 1)
                continue
            self._ready.append(h)
        if not self._ready and not sched:
            # nothing can ever happen again: do not block in select()
            raise RuntimeError("VLoop deadlock: nothing ready, no timers")
        ntodo = 1 if self.step_mode else len(self._ready)
        for _ in range(ntodo):
            if not self._ready:
                break
            handle = self._ready.popleft()
            if handle._cancelled:
                continue
            self.handles_run += 1
            if self.handles_run > self.max_handles:
                raise RuntimeError("VLoop: handle budget exhausted")
            if self.before_handle:
                self.before_handle(handle)
            handle._run()
            if self.after_handle:
                self.after_handle(handle)
        handle = None


async def settle(loop=None, rounds=1, spin_ok=120):
    """Return once nothing else is runnable at the current virtual instant.

    A coroutine that busy-waits with `sleep(0)` (map_async waiting for a work slot) keeps the
    loop non-idle for ever; after `spin_ok` iterations in which nothing but the same number of
    handles keeps being ready the state is taken as settled-but-spinning."""
    loop = loop or asyncio.get_event_loop()
    quiet = 0
    same = 0
    last = None
    for _ in range(100000):
        await asyncio.sleep(0)
        n = len(loop._ready)
        if not n:
            quiet += 1
            if quiet >= rounds:
                return
        else:
            quiet = 0
            same = same + 1 if n == last else 0
            last = n
            if same >= spin_ok:
                loop.spinning = True
                return
    raise RuntimeError("settle: loop never became idle")


async def advance(dt, loop=None):
    """Let `dt` virtual seconds pass (all timers due until then fire), then settle."""
    loop = loop or asyncio.get_event_loop()
    if dt > 0:
        await asyncio.sleep(dt)
    await settle(loop)


def run(main, step_mode=False):
    """Run coroutine function `main(loop)` to completion on a fresh VLoop with clocks patched."""
    import streamz.core as score
    loop = VLoop()
    loop.step_mode = step_mode
    old_time = tornado.ioloop.IOLoop.time
    old_core_time = score.time
    old_loop = None
    try:
        try:
            old_loop = asyncio.get_event_loop_policy().get_event_loop()
        except Exception:
            old_loop = None
        asyncio.set_event_loop(loop)
        tornado.ioloop.IOLoop.time = lambda self: loop.time()
        score.time = loop.time
        return loop.run_until_complete(main(loop))
    finally:
        tornado.ioloop.IOLoop.time = old_time
        score.time = old_core_time
        try:
            # cancel whatever is still pending (polling loops, cb coroutines)
            for t in asyncio.all_tasks(loop):
                t.cancel()
            loop._ready.clear()
            loop._scheduled.clear()
            loop.close()
        except Exception:
            pass
        asyncio.set_event_loop(None)
