"""Structured generator of pipelines over the synchronous node catalogue.

Output types are tracked loosely ("I" int, "T" flat tuple/list of ints, "X" anything else)
so that pipelines are mostly well-typed; a separate `malformed` probability injects
ill-typed functions (for C16) on purpose.
"""

INT_MAPS = [["inc"], ["dbl"], ["neg"], ["modk", 2], ["modk", 3], ["const", 7], ["id"]]
INT_TO_T = [["pair"], ["rep", 2], ["rep", 0], ["rep", 3]]
T_TO_I = [["fst"], ["snd"], ["sumTup"], ["len"]]
INT_PREDS = [["isEven"], ["gt", 1], ["gt", 3], ["truthy"]]
KEYS = [["id"], ["modk", 2], ["modk", 3]]


class G:
    def __init__(self, rng, allow_async_sinks, allow_partition, fail_prob=0.0, malformed=0.0, max_nodes=9):
        self.rng = rng
        self.nodes = []
        self.types = []
        self.allow_async = allow_async_sinks
        self.allow_partition = allow_partition
        self.fail_prob = fail_prob
        self.malformed = malformed
        self.max_nodes = max_nodes

    def add(self, nd, ty):
        self.nodes.append(nd)
        self.types.append(ty)
        return len(self.nodes) - 1

    def pick_up(self, want=None):
        c = [i for i, n in enumerate(self.nodes) if n["kind"] != "sink" and (want is None or self.types[i] in want)]
        if not c:
            return None
        # prefer recent nodes (chains) but allow fan-out from older ones
        return c[-1] if self.rng.random() < 0.55 else self.rng.choice(c)

    def maybe_fail(self, spec_ok):
        r = self.rng
        if r.random() < self.fail_prob:
            return ["failIf", r.choice([2, 3]), r.choice([0, 1])]
        return spec_ok

    def grow(self):
        r = self.rng
        kinds = ["map", "map", "filter", "accumulate", "slice", "partition", "partition_unique", "sliding_window",
                 "unique", "flatten", "pluck", "collect", "union", "zip", "combine_latest", "zip_latest",
                 "starmap", "sink", "sink", "source", "plain"]
        k = r.choice(kinds)
        if k == "partition" and not self.allow_partition:
            k = "sliding_window"
        mal = r.random() < self.malformed
        if k == "source":
            if sum(1 for n in self.nodes if n["kind"] == "source") < 3:
                self.add({"kind": "source", "ups": []}, "I")
            return
        if k == "plain":
            u = self.pick_up()
            self.add({"kind": "plain", "ups": [u]}, self.types[u])
            return
        if k == "map":
            u = self.pick_up()
            t = self.types[u]
            if mal:
                f = r.choice(T_TO_I if t == "I" else INT_MAPS[:3])
                self.add({"kind": "map", "f": f, "ups": [u]}, "X")
            elif t == "I":
                if r.random() < 0.3:
                    f = r.choice(INT_TO_T)
                    self.add({"kind": "map", "f": f, "ups": [u]}, "T")
                else:
                    self.add({"kind": "map", "f": self.maybe_fail(r.choice(INT_MAPS)), "ups": [u]}, "I")
            elif t == "T":
                self.add({"kind": "map", "f": r.choice(T_TO_I), "ups": [u]}, "I" if r.random() < 2 else "I")
            else:
                self.add({"kind": "map", "f": r.choice([["id"], ["len"], ["pair"], ["const", 1]]), "ups": [u]}, "X")
        elif k == "starmap":
            u = self.pick_up(["T"] if not mal else None)
            if u is None:
                return
            self.add({"kind": "starmap", "f": r.choice([["sumTup"], ["len"], ["fst"]]), "ups": [u]}, "I")
        elif k == "filter":
            u = self.pick_up()
            t = self.types[u]
            if t == "I" and not mal:
                p = r.choice(INT_PREDS)
                if r.random() < self.fail_prob:
                    p = ["failPred", r.choice([2, 3]), r.choice([0, 1])]
            else:
                p = r.choice([["truthy"], ["len"]]) if not mal else ["isEven"]
            self.add({"kind": "filter", "f": p, "ups": [u]}, t)
        elif k == "accumulate":
            u = self.pick_up(["I"] if not mal else None)
            if u is None:
                return
            c = r.random()
            nd = {"kind": "accumulate", "ups": [u], "returns_state": False, "with_state": r.random() < 0.3, "has_start": False, "start": None}
            ty = "I"
            if c < 0.3:
                nd["f"] = ["add"]
                if r.random() < 0.5:
                    nd["has_start"], nd["start"] = True, r.choice([0, 10])
            elif c < 0.45:
                nd["f"] = ["max"]
            elif c < 0.6:
                nd["f"], nd["has_start"], nd["start"] = ["cnt"], True, 0
            elif c < 0.75:
                nd["f"], nd["returns_state"], nd["has_start"], nd["start"] = ["addRS"], True, r.random() < 0.7, 1
            elif c < 0.85:
                nd["f"], nd["has_start"], nd["start"] = ["snoc"], True, {"t": []}
                ty = "T"
            else:
                nd["f"] = ["failAdd", r.choice([2, 3]), r.choice([0, 1])] if self.fail_prob > 0 else ["add"]
            if nd["with_state"]:
                ty = "X" if ty == "T" else "T"
            self.add(nd, ty)
        elif k == "slice":
            u = self.pick_up()
            start = r.choice([None, 0, 1, 2, 3])
            step = r.choice([None, 1, 2, 3])
            end = r.choice([None, None, 1, 1, 2, 3, 4, 6])
            self.add({"kind": "slice", "ups": [u], "start": start, "end": end, "step": step}, self.types[u])
        elif k == "partition":
            u = self.pick_up()
            t = self.types[u]
            key = r.choice([None, None, ["modk", 2], ["modk", 3]]) if t == "I" else None
            self.add({"kind": "partition", "ups": [u], "n": r.choice([1, 2, 2, 3]), "key": key}, "T" if t == "I" else "X")
        elif k == "partition_unique":
            u = self.pick_up(["I", "T"])
            if u is None:
                return
            t = self.types[u]
            key = r.choice(KEYS) if t == "I" else r.choice([["id"], ["len"], ["fst"]])
            if t == "T" and key == ["id"]:
                key = ["len"]
            self.add({"kind": "partition_unique", "ups": [u], "n": r.choice([1, 2, 2, 3]), "key": key,
                      "keep": r.choice(["first", "last"])}, "T" if t == "I" else "X")
        elif k == "sliding_window":
            u = self.pick_up()
            t = self.types[u]
            self.add({"kind": "sliding_window", "ups": [u], "n": r.choice([1, 2, 3]), "partial": r.random() < 0.6},
                     "T" if t == "I" else "X")
        elif k == "unique":
            u = self.pick_up(["I"])
            if u is None:
                return
            self.add({"kind": "unique", "ups": [u], "maxsize": r.choice([None, None, 1, 2]), "key": r.choice(KEYS),
                      "hashable": r.random() < 0.7}, "I")
        elif k == "flatten":
            u = self.pick_up(["T"] if not mal else None)
            if u is None:
                return
            self.add({"kind": "flatten", "ups": [u]}, "I" if self.types[u] == "T" else "X")
        elif k == "pluck":
            u = self.pick_up(["T", "X"] if not mal else None)
            if u is None:
                return
            pick = r.choice([0, 1, [0], [1, 0], 2])
            self.add({"kind": "pluck", "ups": [u], "pick": pick}, "X")
        elif k == "collect":
            u = self.pick_up()
            self.add({"kind": "collect", "ups": [u]}, "T" if self.types[u] == "I" else "X")
        elif k in ("union", "zip", "combine_latest", "zip_latest"):
            cands = [i for i, n in enumerate(self.nodes) if n["kind"] != "sink"]
            if len(cands) < 2:
                return
            m = min(len(cands), r.choice([2, 2, 3, 2, 3, 1]))        # (a combining node over a single upstream is legal too)
            ups = r.sample(cands, m)
            if r.random() < 0.5:
                ups.sort()
            tys = {self.types[u] for u in ups}
            if k == "union":
                self.add({"kind": "union", "ups": ups}, tys.pop() if len(tys) == 1 else "X")
            elif k == "zip":
                lits = []
                if r.random() < 0.3:
                    lits = [[r.randint(0, m), r.choice([9, "k"])]]
                    if r.random() < 0.3:
                        lits.append([lits[0][0] + r.randint(1, 2), 8])
                nd = {"kind": "zip", "ups": ups, "literals": lits}
                self.add(nd, "T" if tys == {"I"} and not lits else "X")
            elif k == "combine_latest":
                eo = None
                if r.random() < 0.5:
                    eo = sorted(r.sample(range(m), r.randint(1, m)))
                nd = {"kind": "combine_latest", "ups": ups, "emit_on": eo}
                if eo is not None:
                    nd["emit_on_form"] = r.choice(["list", "int", "stream", "streams", "mixed"] if len(eo) == 1 else ["list", "streams", "mixed"])
                self.add(nd, "X")
            else:
                self.add({"kind": "zip_latest", "ups": ups}, "X")
        elif k == "sink":
            u = self.pick_up()
            if self.allow_async and r.random() < 0.5:
                nd = {"kind": "sink", "mode": "async", "ups": [u]}
                if self.types[u] == "I" and r.random() < self.fail_prob:
                    nd["prefail"] = [r.choice([2, 3]), r.choice([0, 1])]     # consumer failing before its first suspension point
                self.add(nd, None)
            else:
                f = ["id"]
                if self.types[u] == "I" and r.random() < self.fail_prob:
                    f = ["failIf", r.choice([2, 3]), r.choice([0, 1])]
                self.add({"kind": "sink", "mode": "sync", "f": f, "ups": [u]}, None)


def add_call_forms(rng, nodes):
    """map / starmap / filter / accumulate / sink accept extra arguments for the user function: a third of those nodes hand their
    function over together with an extra positional or keyword argument (same meaning), filter(truthy) sometimes as filter(None)"""
    for nd in nodes:
        if nd["kind"] in ("map", "starmap", "filter", "accumulate") or (nd["kind"] == "sink" and nd.get("mode") == "sync"):
            r = rng.random()
            if nd["kind"] == "filter" and nd.get("f") == ["truthy"] and r < 0.4:
                nd["call_form"] = "none"
            elif r < 0.18:
                nd["call_form"] = "args"
            elif r < 0.36:
                nd["call_form"] = "kwargs"
    return nodes


def gen_pipeline(rng, mode, fail_prob=0.0, malformed=0.0, max_nodes=9):
    g = G(rng, allow_async_sinks=(mode == "async"), allow_partition=(mode == "async"),
          fail_prob=fail_prob, malformed=malformed, max_nodes=max_nodes)
    g.add({"kind": "source", "ups": []}, "I")
    target = rng.randint(2, max_nodes)
    guard = 0
    while len(g.nodes) < target and guard < 60:
        g.grow()
        guard += 1
    # every non-sink leaf gets a sink so that everything is observed downstream too
    for i, n in enumerate(list(g.nodes)):
        if n["kind"] != "sink" and not any(i in m.get("ups", []) for m in g.nodes) and rng.random() < 0.7:
            if g.allow_async and rng.random() < 0.4:
                g.add({"kind": "sink", "mode": "async", "ups": [i]}, None)
            else:
                g.add({"kind": "sink", "mode": "sync", "f": ["id"], "ups": [i]}, None)
    return add_call_forms(rng, g.nodes)


def feedback_template(rng):
    """source -> union -> map(modk) -> unique -> sink, with the unique node fed back into the union."""
    k = rng.choice([2, 3, 4])
    nodes = [
        {"kind": "source", "ups": []},
        {"kind": "union", "ups": [0]},
        {"kind": "map", "f": rng.choice([["inc"], ["dbl"]]), "ups": [1]},
        {"kind": "map", "f": ["modk", k], "ups": [2]},
        {"kind": "unique", "ups": [3], "maxsize": None, "key": ["id"], "hashable": True},
        {"kind": "sink", "mode": "sync", "f": ["id"], "ups": [4]},
    ]
    pre_ops = [{"op": "connect", "up": 4, "down": 1}]
    return nodes, pre_ops


def gen_md(rng, state):
    """0, 1 or 2 metadata dictionaries, each with a fresh tag; most carry a fresh reference counter."""
    n = rng.choice([0, 1, 1, 1, 2])
    out = []
    for _ in range(n):
        state["tag"] += 1
        e = {"tag": state["tag"], "ref": None}
        if rng.random() < 0.8:
            state["ref"] += 1
            e["ref"] = state["ref"]
        out.append(e)
    return out
