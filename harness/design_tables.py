"""Regenerates the two generated tables of DESIGN.md (per-property summary 0.2b, seeded changes section 10)."""
import io
import os
import re
import sys
from contextlib import redirect_stdout

from . import seeded_table

ROOT = os.path.dirname(os.path.dirname(os.path.abspath(__file__)))

INFO = {
    'C01': ('Model/Val,Graph; Proofs/NodeSem,Propagate,Compose', 'Props/C01, C01Sem, C01Compose', 'graph family differential (blocking mode + virtual loop)'),
    'C02': ('Model/RateLimit,AsyncWindows,AsyncZip,AsyncBuffer,AsyncBufferFine,MapAsyncFine', 'Props/C13 + c02_* of the node groups (index: Props/C02)', 'node-group correspondences + lossless oracle on random async pipelines'),
    'C03': ('Model/Graph (tokens), AsyncZip, AsyncWindows, AsyncBuffer, AsyncBufferFine, MapAsyncFine; Source (via C18)', 'Props/C03 + c03_* of the node groups', 'emit-status differential, backpressure oracle, threaded sample'),
    'C04': ('Model/Graph (reference table), node groups; Proofs/RefCount', 'Props/C04 (sync_*) + c04_* of the node groups', 'fires/counts differential with failures; holder oracle on async pipelines'),
    'C05': ('Model/Graph; Proofs/RefCount', 'Props/C05 + c05_* of the node groups', 'counts differential after every op; balance oracle'),
    'C06': ('Model/Agg', 'Props/C06', 'Aggregation objects + full API vs model vs pandas'),
    'C07': ('Model/Window', 'Props/C07', 'full API vs model vs pandas on the window'),
    'C08': ('Model/AsyncWindows', 'c08_* of Props/AsyncWindows (index: Props/C08)', 'exact-instant correspondence; window oracle'),
    'C09': ('Model/Kafka', 'Props/C09', 'fake confluent_kafka; crash after every event (thorough)'),
    'C10': ('Model/Graph (metadata); Proofs/Metadata; node groups AsyncWindows/AsyncZip/AsyncBuffer', 'Props/C10, Props/AsyncMetadata (c10_)', 'tag lists at every event; batches/tuples with metadata of the asynchronous node groups; metadata oracle on asynchronous pipelines'),
    'C11': ('Model/Rolling', 'Props/C11', 'API vs model vs pandas one-pass; all compositions (thorough)'),
    'C12': ('Model/Resume (generic step functions) + instantiations; Model/Graph (accumulate adopts its state before the hand-over)', 'Props/C12, C12Agg, C12Window, C12Graph', 'state emitted by pipeline 1 seeds pipeline 2, every cut; also with a consumer rejecting a delivery'),
    'C13': ('Model/RateLimit', 'Props/C13', 'exact delivery instants'),
    'C14': ('Model/Latest', 'Props/C14', 'one-handle step mode; exhaustive interleavings; re-entrant arrivals'),
    'C15': ('Model/Edit; Proofs/EditInv', 'Props/C15', 'links, liveness, deliveries after every edit'),
    'C16': ('Model/Graph (err/carried); Proofs/Failure', 'Props/C16', 'failing functions/sinks/consumers; fresh-node metamorphic oracle; threaded sample'),
    'C17': ('Model/TextFile', 'Props/C17', 'real files, random chunking and polls'),
    'C18': ('Model/Source; Model/SourceFuture', 'Props/C18; Props/SourceFuture', 'start/stop at every suspension point; Future-returning run() atom by atom'),
    'C19': ('Model/LoopCfg', 'Props/C19', 'complete enumeration of small configurations'),
    'C20': ('Model/Dask, Model/DaskFail', 'Props/C20, Props/C20Fail', 'in-process dask cluster vs local pipeline (also with failing tasks / rejecting consumers)'),
}


def main():
    p = os.path.join(ROOT, "DESIGN.md")
    s = open(p).read()
    tab = "| id | model / proofs | property theorems | correspondence |\n|---|---|---|---|\n" + \
          "\n".join("| %s | %s | %s | %s |" % ((k,) + v) for k, v in INFO.items())
    block = "### 0.2b Per-property summary (as built)\n\n" + tab + "\n\n"
    if "### 0.2b" in s:
        s = re.sub(r"### 0\.2b Per-property summary \(as built\)\n\n(.|\n)*?\n\n(?=### 0\.3)", lambda m: block, s)
    else:
        s = s.replace("### 0.3 Defects found", block + "### 0.3 Defects found")
    buf = io.StringIO()
    with redirect_stdout(buf):
        seeded_table.main()
    s = re.sub(r"\(table filled in below as changes are confirmed\)\n(.|\n)*$",
               lambda m: "(table filled in below as changes are confirmed)\n\n" + buf.getvalue() + "\n", s)
    open(p, "w").write(s)


if __name__ == "__main__":
    main()
