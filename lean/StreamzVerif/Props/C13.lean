import StreamzVerif.Proofs.RateLimit
/-!
# C13 — rate_limit spaces emissions by at least the interval and keeps order; delay keeps order and count

Property theorems only (helper lemmas and the invariants live in `Proofs/RateLimit.lean`).

Part A is about the *functional* model `plan I s arrivals` (delivery instant of every element as a
function of the arrival instants).  Nothing is assumed about the arrival list: any length, any
instants (bursts = equal instants, idle gaps, several producers interleaved), any interval `I ≥ 0`,
any initial `next`.

Part B is about the *event-loop* model of `rate_limit`: **every** sequence of `arrive`, `advance`
and `fire` actions (any number of producers, awaiting or not, any choice among due timers).

Part C is `delay`: event-loop model (every sequence of actions, slow or synchronous downstream) and
the functional timing model.
-/
namespace StreamzVerif.RateLimit

variable {α : Type}

/-! ## A. rate_limit, functional model -/

/-- **Spacing**: no two elements (consecutive or not) are delivered less than `I` apart. -/
theorem rate_limit_spacing (I : Time) (s : St) (arrivals : List (Time × α)) :
    ((plan I s arrivals).map Prod.fst).Pairwise (fun a b => a + I ≤ b) := by
  rw [List.pairwise_map]; exact plan_pairwise I s arrivals

/-- **Order and count** in the plan: the k-th planned delivery is the k-th arrival (nothing lost,
nothing duplicated, nothing invented), it is never before its arrival, and for `I > 0` the planned
instants are strictly increasing, so "sorted by time" and "arrival order" are the same order and no
tie-breaking rule of the timer heap matters. -/
theorem rate_limit_plan_in_arrival_order (I : Time) (s : St) (arrivals : List (Time × α)) :
    (plan I s arrivals).map Prod.snd = arrivals.map Prod.snd ∧
    (plan I s arrivals).length = arrivals.length ∧
    (∀ q ∈ arrivals.zip (plan I s arrivals), q.1.1 ≤ q.2.1 ∧ q.2.2 = q.1.2) ∧
    (0 < I → (plan I s arrivals).Pairwise (fun a b => a.1 < b.1)) := by
  refine ⟨plan_map_snd I s arrivals, plan_length I s arrivals, ?_, ?_⟩
  · induction arrivals generalizing s with
    | nil => intro q hq; simp [plan] at hq
    | cons p l ih =>
      obtain ⟨now, x⟩ := p
      intro q hq
      simp only [plan, List.zip_cons_cons, List.mem_cons] at hq
      rcases hq with rfl | hq
      · simp only [reserve_due]; exact ⟨by omega, trivial⟩
      · exact ih _ q hq
  · intro hI
    exact (plan_pairwise I s arrivals).imp (fun h => by omega)

/-- **Exact delivery instant** (recurrence): every element is delivered at
`max (its arrival) (previous delivery + I)`. -/
theorem rate_limit_recurrence (I : Time) (s : St) (l : List (Time × α)) (a now : Time) (y x : α) :
    ∃ d, plan I s (l ++ [(a, y)]) = plan I s l ++ [(d, y)] ∧
      plan I s (l ++ [(a, y), (now, x)]) = plan I s l ++ [(d, y), (max now (d + I), x)] := by
  refine ⟨max a (after I s l).next, plan_snoc I s l a y, ?_⟩
  have : l ++ [(a, y), (now, x)] = (l ++ [(a, y)]) ++ [(now, x)] := by simp
  rw [this, plan_snoc, after_snoc, plan_snoc]; simp

/-- **No delay after an idle interval**: an element that arrives when every earlier delivery lies at
least `I` in the past (and the initial `next`, 0 in the code, is not in the future) is delivered at
its arrival instant. -/
theorem rate_limit_no_delay_after_idle (I : Time) (s : St) (l : List (Time × α)) (now : Time) (x : α)
    (h0 : s.next ≤ now) (hidle : ∀ p ∈ plan I s l, p.1 + I ≤ now) :
    plan I s (l ++ [(now, x)]) = plan I s l ++ [(now, x)] := by
  have := after_next_le I s l now h0 hidle
  rw [plan_snoc]
  have hm : max now (after I s l).next = now := by omega
  rw [hm]

/-- The plan is itself a feasible schedule … -/
theorem rate_limit_plan_feasible (I : Time) (s : St) (l : List (Time × α)) :
    Feasible I s.next l ((plan I s l).map Prod.fst) := by
  induction l generalizing s with
  | nil => simp [plan, Feasible]
  | cons p l ih =>
    obtain ⟨now, x⟩ := p
    simp only [plan, List.map_cons, Feasible, reserve_due]
    refine ⟨by omega, by omega, ?_⟩
    have := ih (reserve I s now).st
    rw [reserve_next] at this; exact this

/-- … and the **earliest** one: rate_limit never holds an element longer than the spacing
requirement forces it to (a mutation that sleeps `interval` instead of `old_next - now`, say,
violates this theorem's conclusion). -/
theorem rate_limit_earliest (I : Time) (s : St) (l : List (Time × α)) (e : List Time)
    (h : Feasible I s.next l e) : NotLater (plan I s l) e := by
  induction l generalizing s e with
  | nil => cases e <;> simp_all [plan, Feasible, NotLater]
  | cons p l ih =>
    obtain ⟨now, x⟩ := p
    cases e with
    | nil => simp [Feasible] at h
    | cons t e =>
      simp only [Feasible] at h
      simp only [plan, NotLater, reserve_due]
      refine ⟨by omega, ih _ _ (h.2.2.mono ?_)⟩
      rw [reserve_next]; omega

/-! ## B. rate_limit, event-loop model: every schedule -/

/-- **The loop follows the plan**: in every reachable state, what has been delivered (with the
instants at which it was delivered) followed by what is still sleeping (with the instants its timers
are due) is exactly the functional plan of what has arrived.  In particular deliveries happen in
arrival order at exactly the planned instants, whatever the loop chose to run first. -/
theorem rate_limit_loop_follows_plan (I c0 : Time) (acts : List (Act α)) (s : Sys α)
    (h : run I (init α c0) acts = some s) :
    s.outs ++ s.timers = plan I { next := 0 } s.ins :=
  (run_inv (inv_init α I c0) h).hist

/-- **Order**: at every instant the delivered elements are a prefix of the arrived elements. -/
theorem rate_limit_loop_order (I c0 : Time) (acts : List (Act α)) (s : Sys α)
    (h : run I (init α c0) acts = some s) :
    s.outs.map Prod.snd <+: s.ins.map Prod.snd := by
  have := rate_limit_loop_follows_plan I c0 acts s h
  rw [← plan_map_snd I { next := 0 } s.ins, ← this, List.map_append]
  exact List.prefix_append _ _

/-- **None lost** (safety half): once no `update` coroutine is sleeping, everything that arrived has
been delivered, in order, exactly once. -/
theorem rate_limit_loop_none_lost (I c0 : Time) (acts : List (Act α)) (s : Sys α)
    (h : run I (init α c0) acts = some s) (hq : s.timers = []) :
    s.outs.map Prod.snd = s.ins.map Prod.snd := by
  have := rate_limit_loop_follows_plan I c0 acts s h
  rw [hq, List.append_nil] at this
  rw [this, plan_map_snd]

/-- **None lost** (liveness half): from every reachable state the loop can, with no further
arrivals, reach a state where nothing is sleeping (and then `rate_limit_loop_none_lost` applies). -/
theorem rate_limit_loop_can_drain (I c0 : Time) (acts : List (Act α)) (s : Sys α)
    (h : run I (init α c0) acts = some s) :
    ∃ more s', run I (init α c0) (acts ++ more) = some s' ∧ s'.timers = [] ∧ s'.ins = s.ins ∧
      s'.outs.map Prod.snd = s.ins.map Prod.snd := by
  obtain ⟨more, s', hrun, hnil, hins, _⟩ := drain I s (run_inv (inv_init α I c0) h)
  have hall : run I (init α c0) (acts ++ more) = some s' := by rw [run_append, h]; exact hrun
  exact ⟨more, s', hall, hnil, hins, by rw [← hins]; exact rate_limit_loop_none_lost I c0 _ s' hall hnil⟩

/-- **Spacing of the actual deliveries** under every schedule. -/
theorem rate_limit_loop_spacing (I c0 : Time) (acts : List (Act α)) (s : Sys α)
    (h : run I (init α c0) acts = some s) :
    (s.outs.map Prod.fst).Pairwise (fun a b => a + I ≤ b) := by
  have hp := plan_pairwise I { next := 0 } s.ins
  rw [← rate_limit_loop_follows_plan I c0 acts s h] at hp
  rw [List.pairwise_map]
  exact (List.pairwise_append.mp hp).1

/-- **No delay after idle**, at the loop level: in a reachable state where nothing is sleeping and
every delivery lies at least `I` in the past, an arriving element is delivered in the same step. -/
theorem rate_limit_loop_idle (I c0 : Time) (acts : List (Act α)) (s : Sys α) (x : α)
    (h : run I (init α c0) acts = some s) (hq : s.timers = [])
    (hidle : ∀ p ∈ s.outs, p.1 + I ≤ s.clock) :
    ∃ s', step I s (.arrive x) = some s' ∧ s'.outs = s.outs ++ [(s.clock, x)] ∧ s'.timers = [] := by
  have inv := run_inv (inv_init α I c0) h
  have hist := inv.hist
  rw [hq, List.append_nil] at hist
  have hnext : s.st.next ≤ s.clock := by
    rw [inv.st_eq]
    exact after_next_le I _ _ _ (Nat.zero_le _) (by rw [← hist]; exact hidle)
  have hsl : (reserve I s.st s.clock).sleep = none := by
    unfold reserve
    have : ¬ s.clock < s.st.next := by omega
    simp [this]
  refine ⟨{ s with st := (reserve I s.st s.clock).st, outs := s.outs ++ [(s.clock, x)], ins := s.ins ++ [(s.clock, x)] },
    ?_, rfl, hq⟩
  simp only [step, hsl]

/-- With `I > 0` a timer that is due is always the oldest one: `fire i` is enabled only for `i = 0`. -/
theorem rate_limit_loop_fire_oldest (I c0 : Time) (hI : 0 < I) (acts : List (Act α)) (s s' : Sys α) (i : Nat)
    (h : run I (init α c0) acts = some s) (hf : step I s (.fire i) = some s') : i = 0 := by
  have inv := run_inv (inv_init α I c0) h
  simp only [step] at hf
  cases hti : s.timers[i]? with
  | none => rw [hti] at hf; exact absurd hf (by simp)
  | some q =>
    obtain ⟨d, x⟩ := q
    rw [hti] at hf
    simp only [] at hf
    split at hf
    · rename_i hdc
      cases i with
      | zero => rfl
      | succ j =>
        exfalso
        obtain ⟨hlen, hget⟩ := List.getElem?_eq_some_iff.mp hti
        have h0len : 0 < s.timers.length := by omega
        have hsp := (List.pairwise_iff_getElem.mp inv.spaced) 0 (j + 1) h0len hlen (by omega)
        rw [hget] at hsp
        have h1 := inv.due_ge _ (List.getElem_mem h0len)
        simp only [] at hsp; omega
    · exact absurd hf (by simp)

/-! ## C. delay -/

/-- **Order and count** for `delay` at every instant, under every schedule and any downstream
(synchronous or slow): the arrivals are exactly the deliveries followed by the queue content. -/
theorem delay_loop_prefix (I c0 : Time) (acts : List (DAct α)) (s : DSys α)
    (h : drun I (dinit α c0) acts = some s) :
    s.ins.map Prod.snd = s.outs.map Prod.snd ++ s.queue ∧ s.outs.map Prod.snd <+: s.ins.map Prod.snd := by
  have := (drun_inv (dinv_init α c0) h).hist
  exact ⟨this, by rw [this]; exact List.prefix_append _ _⟩

/-- At quiescence (empty queue) `delay` has delivered exactly what arrived, in order. -/
theorem delay_loop_none_lost (I c0 : Time) (acts : List (DAct α)) (s : DSys α)
    (h : drun I (dinit α c0) acts = some s) (hq : s.queue = []) :
    s.outs.map Prod.snd = s.ins.map Prod.snd := by
  have := (delay_loop_prefix I c0 acts s h).1
  rw [hq, List.append_nil] at this; exact this.symm

/-- Liveness: from every reachable state, with no further arrivals, the coroutine can empty the queue. -/
theorem delay_loop_can_drain (I c0 : Time) (acts : List (DAct α)) (s : DSys α)
    (h : drun I (dinit α c0) acts = some s) :
    ∃ more s', drun I (dinit α c0) (acts ++ more) = some s' ∧ s'.queue = [] ∧ s'.ins = s.ins ∧
      s'.outs.map Prod.snd = s.ins.map Prod.snd := by
  obtain ⟨more, s', hrun, hnil, _, hins, _⟩ := ddrain I s (drun_inv (dinv_init α c0) h)
  have hall : drun I (dinit α c0) (acts ++ more) = some s' := by rw [drun_append, h]; exact hrun
  exact ⟨more, s', hall, hnil, hins, by rw [← hins]; exact delay_loop_none_lost I c0 _ s' hall hnil⟩

/-- Functional timing model of `delay`: same elements in the same order, none delivered before it
arrived or before the loop iteration that takes it started, and delivery instants never decrease. -/
theorem delay_plan_order_count (I last : Time) (l : List (Time × Time × α)) :
    (delayPlan I last l).map Prod.snd = l.map (fun p => p.2.2) ∧
    (∀ q ∈ l.zip (delayPlan I last l), q.1.1 ≤ q.2.1 ∧ last ≤ q.2.1) ∧
    (delayPlan I last l).Pairwise (fun a b => a.1 ≤ b.1) := by
  refine ⟨delayPlan_map_snd I last l, ?_, ?_⟩
  · induction l generalizing last with
    | nil => intro q hq; simp [delayPlan] at hq
    | cons p l ih =>
      obtain ⟨a, c, x⟩ := p
      intro q hq
      simp only [delayPlan, List.zip_cons_cons, List.mem_cons] at hq
      rcases hq with rfl | hq
      · exact ⟨Nat.le_max_right _ _, Nat.le_max_left _ _⟩
      · have := ih _ q hq
        rw [iterEnd_eq _ _ _ (by omega)] at this
        exact ⟨this.1, by omega⟩
  · induction l generalizing last with
    | nil => simp [delayPlan]
    | cons p l ih =>
      obtain ⟨a, c, x⟩ := p
      simp only [delayPlan, List.pairwise_cons]
      refine ⟨?_, ih _⟩
      intro q hq
      have := delayPlan_ge_last I _ l q hq
      rw [iterEnd_eq _ _ _ (by omega)] at this
      omega

/-! ## Non-vacuity: the hypotheses are satisfied by real runs -/

-- burst of three at 0, one during the backlog, one after an idle gap (I = 10)
example : plan 10 { next := 0 } [(0, 'a'), (0, 'b'), (0, 'c'), (25, 'd'), (90, 'e')]
    = [(0, 'a'), (10, 'b'), (20, 'c'), (30, 'd'), (90, 'e')] := by decide

-- a reachable loop state with two sleeping coroutines, two producers at the same instant
example : (run 10 (init Char 5) [.arrive 'a', .arrive 'b', .arrive 'c', .advance 15, .fire 0]).map
    (fun s => (s.outs, s.timers, s.clock)) = some ([(5, 'a'), (15, 'b')], [(25, 'c')], 15) := by decide

-- the clock cannot pass a pending timer, and a timer that is not due cannot fire
example : run 10 (init Char 0) [.arrive 'a', .arrive 'b', .advance 11] = none := by decide
example : run 10 (init Char 0) [.arrive 'a', .arrive 'b', .advance 9, .fire 0] = none := by decide

-- idle hypothesis of `rate_limit_loop_idle` met: last delivery at 0, clock 10
example : (run 10 (init Char 0) [.arrive 'a', .advance 10, .arrive 'b']).map (fun s => (s.outs, s.timers))
    = some ([(0, 'a'), (10, 'b')], []) := by decide

-- a feasible schedule that is not the plan (hypothesis of `rate_limit_earliest`)
example : Feasible 10 0 [(0, 'a'), (3, 'b')] [1, 12] := by simp [Feasible]

-- delay: an element that finds the coroutine idle passes at once; `interval` separates iteration starts
example : delayPlan 10 0 [(9, 0, 'a'), (10, 0, 'b'), (10, 0, 'c')] = [(9, 'a'), (10, 'b'), (20, 'c')] := by decide
-- slow downstream (cost 15 > interval): no extra sleep
example : delayPlan 10 0 [(0, 15, 'a'), (0, 3, 'b'), (0, 0, 'c')] = [(0, 'a'), (15, 'b'), (25, 'c')] := by decide

example : (drun 10 (dinit Char 0) [.arrive 'a', .arrive 'b', .take, .done, .advance 10, .wake, .take]).map
    (fun s => (s.outs, s.queue)) = some ([(0, 'a'), (10, 'b')], []) := by decide
-- urgency: the clock cannot advance while `queue.get()` can resolve
example : drun 10 (dinit Char 0) [.arrive 'a', .advance 1] = none := by decide

end StreamzVerif.RateLimit
