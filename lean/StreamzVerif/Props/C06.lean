import StreamzVerif.Proofs.Agg
/-!
# C06 — streaming dataframe aggregations equal pandas on everything seen so far

Property theorems only (helper lemmas: `Proofs/Agg.lean`, model: `Model/Agg.lean`).

Reading guide.  `run A bs` is the list of values the aggregation stream emits for the batches
`bs` (one per batch; `A` transcribes an `Aggregation` class, `run` the `accumulator` +
`accumulate(start=None, returns_state=True)` wiring).  `(run A bs)[k]?` is the value emitted after
batch number `k` (0-based), `(bs.take (k+1)).flatten` the concatenation of the first `k+1`
batches (`pd.concat`).  `psum / pcount / psize / pmean / pvar / valueCounts / groupBy red` are the
pandas reductions of ONE frame.  Every theorem quantifies over every list of batches (any
sizes: empty batches, all-NaN batches, NaN keys, keys that vanish and come back) and every `k`.

`Mean` is the class as repaired by fix-1; `mean_unfixed_violates` proves that the unchanged
class does not have the property.  Series-valued results (`value_counts`, groupby) are compared
as finite maps (`GMap.Same`: same index set, same value at every key).
-/
namespace StreamzVerif.Agg

/-! ## whole-column aggregations -/

/-- `sdf.x.sum()` -/
theorem sum_stream_eq_pandas (bs : List Col) (k : Nat) (hk : k < bs.length) :
    (run Sum bs)[k]? = some (psum (bs.take (k + 1)).flatten) := sum_eq bs k hk

/-- `sdf.x.count()` -/
theorem count_stream_eq_pandas (bs : List Col) (k : Nat) (hk : k < bs.length) :
    (run Count bs)[k]? = some (pcount (bs.take (k + 1)).flatten) := count_eq bs k hk

/-- `sdf.x.size` -/
theorem size_stream_eq_pandas (bs : List Col) (k : Nat) (hk : k < bs.length) :
    (run Size bs)[k]? = some (psize (bs.take (k + 1)).flatten) := size_eq bs k hk

/-- `sdf.x.mean()` (fixed class): equal to pandas for EVERY prefix — also after empty or all-NaN
leading batches, and NaN exactly when pandas says NaN (no non-NaN value so far). -/
theorem mean_stream_eq_pandas (bs : List Col) (k : Nat) (hk : k < bs.length) :
    (run Mean bs)[k]? = some (pmean (bs.take (k + 1)).flatten) := mean_eq bs k hk

/-- The unchanged `Mean` violates the property: batches `[]`, `[1,2,3]`; after the second batch
the prefix has three rows, pandas says 2, the stream says 3/2. -/
theorem mean_unfixed_violates :
    ∃ (bs : List Col) (k : Nat), k < bs.length ∧ (bs.take (k + 1)).flatten ≠ [] ∧
      (run MeanOrig bs)[k]? ≠ some (pmean (bs.take (k + 1)).flatten) :=
  ⟨[[], [some 1, some 2, some 3]], 1, by decide, by decide, by decide +kernel⟩

/-- What is provable about the unchanged `Mean`: it agrees with pandas as long as the FIRST batch
already contains a non-NaN value (so the substitute count is never stored). -/
theorem mean_unfixed_partial (b : Col) (bs : List Col) (hb : pcount b ≠ 0) (k : Nat) (hk : k < (b :: bs).length) :
    (run MeanOrig (b :: bs))[k]? = some (pmean ((b :: bs).take (k + 1)).flatten) :=
  meanOrig_eq b bs hb k hk

/-- `Var(ddof)` (`sdf.x.aggregate(Var(ddof))`, `sdf.expanding().x.var(ddof)`), ddof ∈ {0,1}: after
every batch - including a prefix without any row, where the unrepaired code raised `ZeroDivisionError`
(repaired in /repo; the hypothesis `prefix ≠ []` this theorem used to need is gone) - the stream emits
the textbook pandas variance Σ(v - mean)²/(n - ddof) of the prefix (NaN when n ≤ ddof) — the two-moment
formula of the code is proved equal to it. -/
theorem var_stream_eq_pandas (ddof : Nat) (hd : ddof ≤ 1) (bs : List Col) (k : Nat) (hk : k < bs.length) :
    (run (Var ddof) bs)[k]? = some (Res.ok (pvar ddof (bs.take (k + 1)).flatten)) := by
  rw [var_run ddof bs k hk, varSpec, varResult_eq_pvar_of_le_one ddof hd]

/-- any `ddof`: equality with pandas as soon as more than `ddof` values have been counted. -/
theorem var_stream_eq_pandas_any_ddof (ddof : Nat) (bs : List Col) (k : Nat) (hk : k < bs.length)
    (hn : (ddof : Int) < pcount (bs.take (k + 1)).flatten) :
    (run (Var ddof) bs)[k]? = some (Res.ok (pvar ddof (bs.take (k + 1)).flatten)) := by
  rw [var_run ddof bs k hk, varSpec, varResult_eq_pvar_of_lt ddof _ hn]

/-- The formerly excluded case "no row so far": the stream emits NaN (what pandas gives for the variance of
nothing), for every `ddof`; it never raises. -/
theorem var_stream_no_row_is_nan (ddof : Nat) (bs : List Col) (k : Nat) (hk : k < bs.length)
    (h : (bs.take (k + 1)).flatten = []) :
    (run (Var ddof) bs)[k]? = some (Res.ok none) := by
  rw [var_run ddof bs k hk, varSpec, h]
  simp [varResult, odiv, pcount]

/-- `std` is `var ** 0.5` applied to each emission by a downstream `map_partitions`
(core.py:622-624, 864-866): for ANY function `root` put there, the std stream is `root` of the
pandas variance of the prefix. -/
theorem std_stream_eq_pandas {α : Type} (root : Res → α) (ddof : Nat) (hd : ddof ≤ 1) (bs : List Col) (k : Nat)
    (hk : k < bs.length) :
    ((run (Var ddof) bs).map root)[k]? = some (root (Res.ok (pvar ddof (bs.take (k + 1)).flatten))) := by
  rw [List.getElem?_map, var_stream_eq_pandas ddof hd bs k hk]; rfl

/-! ## value_counts and groupby -/

/-- `sdf.x.value_counts()` -/
theorem valueCounts_stream_eq_pandas (bs : List Col) (k : Nat) (hk : k < bs.length) :
    ∃ r, (run ValueCounts bs)[k]? = some r ∧ GMap.Same r (valueCounts (bs.take (k + 1)).flatten) :=
  valueCounts_run bs k hk

/-- `sdf.groupby(g).x.sum()` -/
theorem groupby_sum_stream_eq_pandas (bs : List (List GRow)) (k : Nat) (hk : k < bs.length) :
    ∃ r, (run GroupbySum bs)[k]? = some r ∧ GMap.Same r (groupBy psum (bs.take (k + 1)).flatten) :=
  groupAgg_run (0 : Rat) psum psum_append rfl Rat.add_zero Rat.zero_add bs k hk

/-- `sdf.groupby(g).x.count()` -/
theorem groupby_count_stream_eq_pandas (bs : List (List GRow)) (k : Nat) (hk : k < bs.length) :
    ∃ r, (run GroupbyCount bs)[k]? = some r ∧ GMap.Same r (groupBy pcount (bs.take (k + 1)).flatten) :=
  groupAgg_run (0 : Int) pcount pcount_append rfl Int.add_zero Int.zero_add bs k hk

/-- `sdf.groupby(g).x.size()` -/
theorem groupby_size_stream_eq_pandas (bs : List (List GRow)) (k : Nat) (hk : k < bs.length) :
    ∃ r, (run GroupbySize bs)[k]? = some r ∧ GMap.Same r (groupBy psize (bs.take (k + 1)).flatten) :=
  groupAgg_run (0 : Int) psize psize_append rfl Int.add_zero Int.zero_add bs k hk

/-- `sdf.groupby(g).x.mean()`: per key the pandas mean of the rows with that key (NaN for a key
whose values are all NaN); keys with NaN dropped; a key that stops occurring keeps its value. -/
theorem groupby_mean_stream_eq_pandas (bs : List (List GRow)) (k : Nat) (hk : k < bs.length) :
    ∃ r, (run GroupbyMean bs)[k]? = some r ∧ GMap.Same r (groupBy pmean (bs.take (k + 1)).flatten) :=
  gmean_run bs k hk

/-- `sdf.groupby(g).x.var(ddof)`, ddof ∈ {0,1}: per key the textbook pandas variance.  (No row
hypothesis: the groupby class never raises; with no row so far the result is the empty Series,
as in pandas.) -/
theorem groupby_var_stream_eq_pandas (ddof : Nat) (hd : ddof ≤ 1) (bs : List (List GRow)) (k : Nat)
    (hk : k < bs.length) :
    ∃ r, (run (GroupbyVar ddof) bs)[k]? = some r ∧
      GMap.Same r (groupBy (pvar ddof) (bs.take (k + 1)).flatten) := by
  obtain ⟨r, hr, hs⟩ := gvar_run ddof bs k hk
  refine ⟨r, hr, fun key => ?_⟩
  rw [hs key, get_groupBy, get_groupBy]
  simp only [gvarOf, varResult_eq_pvar_of_le_one ddof hd]

/-- `groupby.std(ddof)`: `root` applied per key to the variance Series. -/
theorem groupby_std_stream_eq_pandas (root : Val → Val) (ddof : Nat) (hd : ddof ≤ 1) (bs : List (List GRow))
    (k : Nat) (hk : k < bs.length) :
    ∃ r, ((run (GroupbyVar ddof) bs).map (fun m => m.map fun p => (p.1, root p.2)))[k]? = some r ∧
      GMap.Same r (groupBy (fun c => root (pvar ddof c)) (bs.take (k + 1)).flatten) := by
  obtain ⟨r, hr, hs⟩ := groupby_var_stream_eq_pandas ddof hd bs k hk
  refine ⟨r.map fun p => (p.1, root p.2), by rw [List.getElem?_map, hr]; rfl, fun key => ?_⟩
  have := hs key
  unfold GMap.get at this ⊢
  rw [lookup_map_val (fun _ v => root v) r key, this]
  change Option.map root ((groupBy (pvar ddof) _).get key) = (groupBy (fun c => root (pvar ddof c)) _).get key
  rw [get_groupBy, get_groupBy]
  split <;> rfl

/-! ## element-wise expressions, filters, selection, assignment: per batch what pandas yields -/

/-- every column expression tree (`sdf.x + sdf.y * 2 - …`): the streaming Series emits, for each
batch, the pandas expression evaluated on that batch — the `zip` nodes of `map_partitions` pair
the k-th with the k-th. -/
theorem expr_stream_eq_pandas_per_batch (e : CExpr) (src : List Frame) :
    e.stream src = src.map e.eval := CExpr.stream_eq e src

/-- boolean masks (`(sdf.x > 0) & ~(sdf.y == sdf.x)`) -/
theorem mask_stream_eq_pandas_per_batch (m : MExpr) (src : List Frame) :
    m.stream src = src.map m.eval := MExpr.stream_eq m src

/-- any chain of filters `sdf[mask]`, assignments `sdf.assign(c=expr)` / `sdf[c] = expr` and column
selections `sdf[[...]]` -/
theorem pipeline_stream_eq_pandas_per_batch (p : List Stage) (src : List Frame) :
    streamPipe p src = src.map (evalPipe p) := streamPipe_eq p src

/-- groupby operands: a streaming-series grouper (`sdf.groupby(sdf.g * 2).x`) hands the aggregation
the same (key, value) rows per batch as pandas `df.groupby(df.g * 2).x`, and so does a column name. -/
theorem groupby_operands_eq_pandas_per_batch (key : CExpr) (g c : String) (src : List Frame) :
    streamGrows key c src = src.map (grows key c) ∧
    streamGrowsCol g c src = src.map (grows (.col g) c) :=
  ⟨streamGrows_eq key c src, streamGrowsCol_eq g c src⟩

/-- The expressions are element-wise, so the concatenation of what reaches an aggregation placed
after a pipeline is the pandas pipeline applied to the concatenation of the source batches
(batches emptied by a filter included). -/
theorem pipeline_prefix_concat (p : List Stage) (e : CExpr) (src : List Frame) (n : Nat) :
    ((e.stream (streamPipe p src)).take n).flatten = e.eval (evalPipe p (src.take n).flatten) := by
  rw [streamPipe_eq, CExpr.stream_eq, ← List.map_take, ← List.map_take, evalPipe_flatten, CExpr.eval_flatten]

theorem groupby_pipeline_prefix_concat (p : List Stage) (key : CExpr) (c : String) (src : List Frame) (n : Nat) :
    ((streamGrows key c (streamPipe p src)).take n).flatten = grows key c (evalPipe p (src.take n).flatten) := by
  rw [streamPipe_eq, streamGrows_eq, ← List.map_take, ← List.map_take, evalPipe_flatten, grows_flatten]

/-- End to end, e.g. `sdf[sdf.x > 0].assign(z=…).z.mean()`: the value after the k-th source batch is
pandas' `pipeline(pd.concat(batches[:k+1])).z.mean()`. -/
theorem mean_of_pipeline_eq_pandas (p : List Stage) (e : CExpr) (src : List Frame) (k : Nat) (hk : k < src.length) :
    (run Mean (e.stream (streamPipe p src)))[k]? = some (pmean (e.eval (evalPipe p (src.take (k + 1)).flatten))) := by
  have hlen : k < (e.stream (streamPipe p src)).length := by
    rw [streamPipe_eq, CExpr.stream_eq]; simpa using hk
  rw [mean_stream_eq_pandas _ k hlen, pipeline_prefix_concat]

/-- End to end with a streaming-series grouper after a pipeline:
`f = sdf[mask]…; f.groupby(key_expr).c.var(ddof)`. -/
theorem groupby_var_of_pipeline_eq_pandas (ddof : Nat) (hd : ddof ≤ 1) (p : List Stage) (key : CExpr) (c : String)
    (src : List Frame) (k : Nat) (hk : k < src.length) :
    ∃ r, (run (GroupbyVar ddof) (streamGrows key c (streamPipe p src)))[k]? = some r ∧
      GMap.Same r (groupBy (pvar ddof) (grows key c (evalPipe p (src.take (k + 1)).flatten))) := by
  have hlen : k < (streamGrows key c (streamPipe p src)).length := by
    rw [streamPipe_eq, streamGrows_eq]; simpa using hk
  have := groupby_var_stream_eq_pandas ddof hd _ k hlen
  rwa [groupby_pipeline_prefix_concat] at this

/-! ## non-vacuity: the hypotheses are satisfiable and the statements talk about real runs -/

-- the defect witness under the fixed class: empty first batch, then [1,2,3] → NaN, then 2
example : run Mean [[], [some 1, some 2, some 3]] = [none, some 2] := by decide +kernel
-- all-NaN batch, empty batch, data: NaN, NaN, 5/2
example : run Mean [[none], [], [some 2, none, some 3]] = [none, none, some ((5 : Rat) / 2)] := by decide +kernel
-- Var: NaN on the row-less prefix (repaired; it used to raise), then NaN (n = 1 ≤ ddof), NaN, then the variance 2 of {1, 3}
example : run (Var 1) [[], [some 1, none], [], [some 3]]
    = [Res.ok none, Res.ok none, Res.ok none, Res.ok (some 2)] := by decide +kernel
example : ∃ (bs : List Col) (k : Nat), k < bs.length ∧ (bs.take (k + 1)).flatten ≠ [] ∧ (1 : Int) < pcount (bs.take (k + 1)).flatten :=
  ⟨[[], [some 1, none], [], [some 3]], 3, by decide, by decide, by decide⟩
-- groupby: NaN key dropped, key 0 vanishes and keeps its value, key 1 has only NaN values
example : (run GroupbyMean [[(some 0, some 4), (none, some 9)], [], [(some 1, none)]]).map
    (fun m => [m.get 0, m.get 1, m.get 9]) =
    [[some (some 4), none, none], [some (some 4), none, none], [some (some 4), some none, none]] := by
  decide +kernel
-- a filter that empties the first batch, followed by a mean
example : run Mean ((CExpr.col "x").stream (streamPipe [Stage.filter (.cmpr .gt (.col "x") 0)]
      [[[("x", some (-1))]], [[("x", some 1)], [("x", some 3)]]])) = [none, some 2] := by
  decide +kernel

end StreamzVerif.Agg
