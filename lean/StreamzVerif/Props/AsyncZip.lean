import StreamzVerif.Proofs.AsyncZip
/-
Property theorems for `zip(*upstreams, maxsize=m)` under asynchronous producers (core.py 1594-1668), about the
event-loop model `Model/AsyncZip.lean`: `run cfg as` is the state after the action list `as` (any interleaving of
`arrive u x md` — the producer of upstream `u` emits — and `sinkDone tok` — a consumer invocation finishes), for
any number `cfg.k` of upstreams, any `cfg.maxsize`, any list `cfg.sinks` of synchronous / asynchronous sinks.
`arrivalsOf cfg u as` is what upstream `u` delivered during `as`.

C02  `c02_zip_transpose`, `c02_zip_interleaving_independent`
C03  `c03_zip_bound_partial` (+ `..._awaiting_partial`), `c03_zip_admits_all_blocked` (recorded finding),
     `c03_zip_no_lost_wakeup`, `c03_zip_wakeup_enabled`, `c03_zip_blocked_is_ahead`, `c03_zip_all_complete`
C04  `c04_zip_holds`, `c04_zip_never_early`
C05  `c05_zip_balance`, `c05_zip_balance_sync`, `c05_zip_unmatched_exactly_one`, `c05_zip_zero_fired`

The bound.  An element is appended to its buffer BEFORE the producer is made to wait, and waiting starts only when
`len(L) > maxsize` (core.py 1654, 1667).  So with a producer that awaits each emission the node holds up to
`maxsize + 1` unmatched elements per upstream, of which at most `maxsize` are *accepted* (their emit awaitable is
done); the last one belongs to the producer that is waiting.  Neither the docstring of `zip` nor docs/source
mentions `maxsize` at all; the only specification is `test_zip_timeout` (maxsize=2: two emits complete, the third
blocks until the other input delivers), which is exactly "at most maxsize accepted".  Without the discipline the
bound fails (`c03_zip_admits_all_blocked`): `notify_all` releases every waiting producer at once.
-/
namespace StreamzVerif.AsyncZip

variable {α : Type} (cfg : Cfg)

/-! ### C02 -/

/-- **The emitted tuples are the transpose of the per-upstream arrival sequences, truncated to the shortest.**
For every interleaving: (1) upstream by upstream, the arrival sequence is, position by position, the `u`-th
components of the emitted tuples followed by what is still buffered — every element is in exactly one place;
(2) component `u` of tuple `j` is the `j`-th arrival of upstream `u`; (3) tuple `j` as a list is the `j`-th
arrivals of upstreams `0..k-1` in upstream order, `k` of them; (4) (5) the number of tuples is the length of the
shortest arrival sequence. -/
theorem c02_zip_transpose (as : List (Act α)) :
    (∀ u, u < cfg.k →
      (arrivalsOf cfg u as).map some = (run cfg as).outs.map (· u) ++ ((run cfg as).bufs u).map some) ∧
    (∀ (j : Nat) (t : Nat → Option (Entry α)), (run cfg as).outs[j]? = some t →
      ∀ u, u < cfg.k → t u = (arrivalsOf cfg u as)[j]?) ∧
    (∀ (j : Nat) (t : Nat → Option (Entry α)), (run cfg as).outs[j]? = some t →
      tupleList cfg.k t = (List.range cfg.k).filterMap (fun u => (arrivalsOf cfg u as)[j]?) ∧
      (tupleList cfg.k t).length = cfg.k) ∧
    (∀ u, u < cfg.k → (run cfg as).outs.length ≤ (arrivalsOf cfg u as).length) ∧
    (0 < cfg.k → ∃ u, u < cfg.k ∧ (run cfg as).outs.length = (arrivalsOf cfg u as).length) := by
  have hI := inv_run cfg as
  have hcomp : ∀ (j : Nat) (t : Nat → Option (Entry α)), (run cfg as).outs[j]? = some t →
      ∀ u, u < cfg.k → t u = (arrivalsOf cfg u as)[j]? := by
    intro j t ht u hu
    rw [← run_arrs]; exact inv_component hI hu ht
  have hlen : ∀ u, u < cfg.k →
      (arrivalsOf cfg u as).length = (run cfg as).outs.length + ((run cfg as).bufs u).length := by
    intro u hu; rw [← run_arrs]; exact inv_lengths hI hu
  refine ⟨fun u hu => ?_, hcomp, fun j t ht => ?_, fun u hu => ?_, fun hk => ?_⟩
  · rw [← run_arrs]; exact hI.decomp u hu
  · have hj : j < (run cfg as).outs.length := by
      rcases Nat.lt_or_ge j (run cfg as).outs.length with hlt | hge
      · exact hlt
      · rw [List.getElem?_eq_none_iff.2 hge] at ht; cases ht
    have heq : tupleList cfg.k t = (List.range cfg.k).filterMap (fun u => (arrivalsOf cfg u as)[j]?) :=
      filterMap_range_congr cfg.k (fun u hu => hcomp j t ht u hu)
    refine ⟨heq, ?_⟩
    rw [heq]
    apply length_filterMap_range
    intro u hu
    have := hlen u hu
    rw [List.getElem?_eq_getElem (by omega)]; rfl
  · have := hlen u hu; omega
  · obtain ⟨u, hu, he⟩ := hI.empty hk
    refine ⟨u, hu, ?_⟩
    have := hlen u hu
    rw [he] at this; simpa using this.symm

/-- **Independent of the interleaving**: two schedules that deliver the same sequence on every upstream (in
whatever relative order, with consumer completions anywhere) make the node emit the same tuples in the same
order. -/
theorem c02_zip_interleaving_independent (as bs : List (Act α))
    (h : ∀ u, u < cfg.k → arrivalsOf cfg u as = arrivalsOf cfg u bs) :
    (run cfg as).outs.map (tupleList cfg.k) = (run cfg bs).outs.map (tupleList cfg.k) := by
  obtain ⟨_, _, ha3, ha4, ha5⟩ := c02_zip_transpose cfg as
  obtain ⟨_, _, hb3, hb4, hb5⟩ := c02_zip_transpose cfg bs
  have hlen : (run cfg as).outs.length = (run cfg bs).outs.length := by
    rcases Nat.eq_zero_or_pos cfg.k with hk | hk
    · rw [(inv_run cfg as).outs0 hk, (inv_run cfg bs).outs0 hk]
    · obtain ⟨ua, hua, hea⟩ := ha5 hk
      obtain ⟨ub, hub, heb⟩ := hb5 hk
      have h1 := hb4 ua hua
      have h2 := ha4 ub hub
      rw [h ua hua] at hea
      rw [h ub hub] at h2
      omega
  apply List.ext_getElem?
  intro j
  rw [List.getElem?_map, List.getElem?_map]
  rcases Nat.lt_or_ge j (run cfg as).outs.length with hlt | hge
  · have hlt' : j < (run cfg bs).outs.length := by omega
    rw [List.getElem?_eq_getElem hlt, List.getElem?_eq_getElem hlt']
    simp only [Option.map_some, Option.some.injEq]
    rw [(ha3 j _ (List.getElem?_eq_getElem hlt)).1, (hb3 j _ (List.getElem?_eq_getElem hlt')).1]
    exact filterMap_range_congr cfg.k (fun u hu => by rw [h u hu])
  · rw [List.getElem?_eq_none_iff.2 hge, List.getElem?_eq_none_iff.2 (by omega)]

/-! ### C03 -/

/-- **The true bound, with its hypothesis.**  If no producer emits again while an earlier emission of its own is
still waiting on the condition (`Disciplined`; implied by awaiting every emission, `Awaits`), then at every point of
every schedule, for every upstream: at most ONE producer is waiting, and the unmatched elements number at most
`maxsize` plus that waiting producer's element — hence at most `maxsize + 1` buffered, at most `maxsize` accepted.
(`partial`: the hypothesis cannot be dropped, see `c03_zip_admits_all_blocked`.) -/
theorem c03_zip_bound_partial (as : List (Act α)) (hd : RunWith Disciplined cfg (init α) as) (u : Nat) :
    blockedCount (run cfg as) u ≤ 1 ∧
    ((run cfg as).bufs u).length ≤ cfg.maxsize + blockedCount (run cfg as) u ∧
    ((run cfg as).bufs u).length ≤ cfg.maxsize + 1 ∧
    ((run cfg as).bufs u).length - blockedCount (run cfg as) u ≤ cfg.maxsize := by
  have := bnd_foldl as (bnd_init cfg) hd u
  change ((run cfg as).bufs u).length ≤ cfg.maxsize + blockedCount (run cfg as) u ∧
    blockedCount (run cfg as) u ≤ 1 at this
  omega

/-- The same for producers that await each emission before the next one (at most one outstanding emission per
upstream), the way `sources.py` drives `_emit`. -/
theorem c03_zip_bound_awaiting_partial (as : List (Act α)) (hd : RunWith Awaits cfg (init α) as) (u : Nat) :
    ((run cfg as).bufs u).length ≤ cfg.maxsize + 1 ∧
    ((run cfg as).bufs u).length - blockedCount (run cfg as) u ≤ cfg.maxsize :=
  let h := c03_zip_bound_partial cfg as (runWith_mono (fun _ _ => awaits_disciplined) hd) u
  ⟨h.2.2.1, h.2.2.2⟩

/-- **Recorded finding `zip-maxsize-admits-all-blocked`** (negation of the unconditional bound, on a witness):
`zip(a, b, maxsize=1)`, four un-awaited emissions on `a` — three producers are waiting — then one on `b`: the one
tuple wakes all three, every emit awaitable is done, and 3 > maxsize + 1 unmatched elements of `a` stay buffered. -/
theorem c03_zip_admits_all_blocked :
    let cfg : Cfg := { k := 2, maxsize := 1, sinks := [false] }
    let as : List (Act Nat) := [.arrive 0 1 [], .arrive 0 2 [], .arrive 0 3 [], .arrive 0 4 [], .arrive 1 9 []]
    blockedCount (run cfg (as.take 4)) 0 = 3 ∧
    (∀ e ∈ (run cfg as).emits, e.2 = .done) ∧
    ((run cfg as).bufs 0).length = 3 ∧
    ¬ ((run cfg as).bufs 0).length ≤ cfg.maxsize + 1 ∧
    ¬ RunWith Disciplined cfg (init Nat) as := by
  decide +kernel

/-- **No lost wake-up.**  Every step that emits a tuple leaves no producer waiting on the condition: whoever was
blocked has been woken (in any state, reachable or not). -/
theorem c03_zip_no_lost_wakeup (as : List (Act α)) (a : Act α)
    (h : (run cfg as).outs.length < (run cfg (as ++ [a])).outs.length) :
    ∀ e ∈ (run cfg (as ++ [a])).emits, e.2 ≠ .blocked := by
  rw [run_snoc] at h ⊢
  rcases step_outs cfg (run cfg as) a with he | ⟨u, x, md, _, _, _, he⟩
  · rw [he] at h; omega
  · rw [he]; exact fireSt_no_blocked cfg _ u _

/-- ... and such a step is always enabled for the other inputs: as soon as the one upstream whose buffer is empty
delivers (all the others having something buffered), a tuple is emitted and nobody is blocked any more.  So
whenever the other upstreams keep delivering, nobody stays blocked. -/
theorem c03_zip_wakeup_enabled (as : List (Act α)) (v : Nat) (x : α) (md : Meta) (hv : v < cfg.k)
    (he : (run cfg as).bufs v = []) (hne : ∀ w, w < cfg.k → w ≠ v → (run cfg as).bufs w ≠ []) :
    (run cfg (as ++ [.arrive v x md])).outs.length = (run cfg as).outs.length + 1 ∧
    ∀ e ∈ (run cfg (as ++ [.arrive v x md])).emits, e.2 ≠ .blocked := by
  rw [run_snoc]
  simp only [step]
  rw [arrive_fire cfg _ x md hv ⟨he, hne⟩]
  exact ⟨by simp [fireSt], fireSt_no_blocked cfg _ v _⟩

/-- **A blocked producer is legitimately blocked**: its upstream is more than `maxsize` elements ahead of the
number of tuples formed, i.e. of the shortest input. -/
theorem c03_zip_blocked_is_ahead (as : List (Act α)) :
    ∀ e ∈ (run cfg as).emits, e.2 = .blocked →
      e.1 < cfg.k ∧ cfg.maxsize < ((run cfg as).bufs e.1).length ∧
      (run cfg as).outs.length + cfg.maxsize < (arrivalsOf cfg e.1 as).length := by
  intro e he hb
  have hI := inv_run cfg as
  have hu := hI.ups e he
  have h1 := hI.ahead e he hb
  have h2 := inv_lengths hI hu
  rw [run_arrs] at h2
  exact ⟨hu, h1, by omega⟩

/-- **No deadlock.**  Once every consumer invocation has finished, every producer's emit awaitable is done, except
those of producers that are (still) more than `maxsize` ahead. -/
theorem c03_zip_all_complete (as : List (Act α)) (hp : (run cfg as).pending = []) :
    ∀ e ∈ (run cfg as).emits, e.2 = .done ∨
      (e.2 = .blocked ∧ (run cfg as).outs.length + cfg.maxsize < (arrivalsOf cfg e.1 as).length) := by
  intro e he
  have hI := inv_run cfg as
  cases hs : e.2 with
  | done => exact Or.inl rfl
  | blocked => exact Or.inr ⟨rfl, (c03_zip_blocked_is_ahead cfg as e he hs).2.2⟩
  | awaiting toks =>
    exfalso
    obtain ⟨h1, h2⟩ := hI.await e he toks hs
    rw [hp] at h2
    cases toks with
    | nil => exact h1 rfl
    | cons t ts => have := h2 t (by simp); simp at this

/-! ### C04 -/

/-- **Buffered elements are held**: every counter attached to an element that sits in a buffer, or that an
unfinished consumer of an emitted tuple carries, has count ≥ 1 — from the arrival until the tuple has been emitted,
consumed and released. -/
theorem c04_zip_holds (as : List (Act α)) :
    (∀ u, u < cfg.k → ∀ e ∈ (run cfg as).bufs u, ∀ r ∈ refsOf e.md, 1 ≤ (run cfg as).count r) ∧
    (∀ p ∈ (run cfg as).pending, ∀ r ∈ refsOf p.2, 1 ≤ (run cfg as).count r) := by
  have hI := inv_run cfg as
  constructor
  · intro u hu e he r hr
    have := count_pos_of_mem (mem_heldRefs_buf (cfg := cfg) hu he hr)
    have hb := hI.balance r
    unfold held at hb; omega
  · intro p hp r hr
    have := count_pos_of_mem (mem_heldRefs_pending (cfg := cfg) hp hr)
    have hb := hI.balance r
    unfold held at hb; omega

/-- **The completion callback is never early**: a callback fired during a step belongs to a counter that, after
the step, no buffered element and no unfinished consumer invocation carries. -/
theorem c04_zip_never_early (as : List (Act α)) (a : Act α) (r : Nat)
    (hr : r ∈ newFired cfg (run cfg as) a) : r ∉ heldRefs cfg (run cfg (as ++ [a])) := by
  rw [run_snoc]
  have := fired_not_held (inv_run cfg as) a hr
  exact List.count_eq_zero.1 this

/-! ### C05 -/

/-- **Balance**: at every settled point of every schedule, every counter equals the number of its holders — the
buffered elements and the unfinished consumer invocations carrying it (with multiplicity); in particular it is
never negative. -/
theorem c05_zip_balance (as : List (Act α)) (r : Nat) :
    (run cfg as).count r = (heldRefs cfg (run cfg as)).count r ∧ 0 ≤ (run cfg as).count r := by
  have := (inv_run cfg as).balance r
  unfold held at this
  exact ⟨this, by omega⟩

/-- With a synchronous downstream nothing is ever pending, and the count is the number of *unmatched buffered*
elements carrying the counter. -/
theorem c05_zip_balance_sync (hs : ∀ b ∈ cfg.sinks, b = false) (as : List (Act α)) (r : Nat) :
    (run cfg as).pending = [] ∧
    (run cfg as).count r = ((List.range cfg.k).flatMap (fun u => bufRefs ((run cfg as).bufs u))).count r := by
  have h0 : asyncN cfg.sinks = 0 := by
    unfold asyncN
    exact List.count_eq_zero.2 (fun hm => by have := hs true hm; cases this)
  have hp : (run cfg as).pending = [] := sync_pending_foldl h0 as rfl
  refine ⟨hp, ?_⟩
  rw [(c05_zip_balance cfg as r).1, heldRefs, hp]
  simp [pendRefs]

/-- **count = 1 exactly for unmatched buffered elements** (synchronous downstream, fresh counters): if the
counter `r` was attached to exactly one arrival (once) and that element is still buffered, its count is exactly 1. -/
theorem c05_zip_unmatched_exactly_one (hs : ∀ b ∈ cfg.sinks, b = false) (as : List (Act α)) (r : Nat)
    (hfresh : ((List.range cfg.k).flatMap (fun u => bufRefs (arrivalsOf cfg u as))).count r = 1)
    {u : Nat} (hu : u < cfg.k) {e : Entry α} (he : e ∈ (run cfg as).bufs u) (hr : r ∈ refsOf e.md) :
    (run cfg as).count r = 1 := by
  have hI := inv_run cfg as
  obtain ⟨hp, hc⟩ := c05_zip_balance_sync cfg hs as r
  rw [hc]
  have hge : 1 ≤ ((List.range cfg.k).flatMap (fun u => bufRefs ((run cfg as).bufs u))).count r :=
    count_pos_of_mem (List.mem_flatMap.2 ⟨u, List.mem_range.2 hu, List.mem_flatMap.2 ⟨e, he, hr⟩⟩)
  have hle : ((List.range cfg.k).flatMap (fun u => bufRefs ((run cfg as).bufs u))).count r ≤
      ((List.range cfg.k).flatMap (fun u => bufRefs (arrivalsOf cfg u as))).count r := by
    rw [count_flatMap_range, count_flatMap_range]
    apply sumR_le
    intro v hv
    obtain ⟨pre, hpre⟩ := bufs_suffix hI hv
    rw [run_arrs] at hpre
    rw [hpre, bufRefs_append, List.count_append]; omega
  have : (((List.range cfg.k).flatMap (fun u => bufRefs ((run cfg as).bufs u))).count r : Int) = 1 := by
    have : ((List.range cfg.k).flatMap (fun u => bufRefs ((run cfg as).bufs u))).count r = 1 := by omega
    rw [this]; rfl
  exact this

/-- **Zero means fired**: a counter that was attached to some arrival and whose count is (back to) zero has had
its completion callback triggered. -/
theorem c05_zip_zero_fired (as : List (Act α)) (r : Nat) {u : Nat} (hu : u < cfg.k)
    (hseen : r ∈ bufRefs (arrivalsOf cfg u as)) (hz : (run cfg as).count r ≤ 0) :
    r ∈ (run cfg as).fired :=
  (inv_run cfg as).zeroFired r ⟨u, hu, by rw [run_arrs]; exact hseen⟩ hz

/-! ### The hypotheses are satisfiable, the statements discriminate -/

/-- zip(a, b, c, maxsize=1) into an asynchronous and a synchronous sink -/
def exCfg : Cfg := { k := 3, maxsize := 1, sinks := [true, false] }
def exActs : List (Act Nat) :=
  [.arrive 0 10 [⟨1, some 1⟩], .arrive 1 20 [⟨2, some 2⟩], .arrive 1 21 [⟨3, some 3⟩], .arrive 2 30 [⟨4, some 4⟩],
   .arrive 0 11 [], .sinkDone 0, .arrive 2 31 [⟨5, some 5⟩]]

/-- two tuples, transposed; the second started a consumer that is still running -/
example : (run exCfg exActs).outs.map (fun t => (tupleList 3 t).map (·.val)) = [[10, 20, 30], [11, 21, 31]] ∧
    (run exCfg exActs).pending.map (·.1) = [1] ∧
    (run exCfg exActs).emits.map (·.2) = [.done, .done, .done, .done, .done, .awaiting [1]] ∧
    (run exCfg exActs).fired = [1, 2, 4] ∧
    (List.range 6).map (run exCfg exActs).count = [0, 0, 0, 1, 0, 1] := by decide +kernel
/-- another interleaving of the same per-upstream sequences gives the same tuples -/
example : (run exCfg [.arrive 2 30 [⟨4, some 4⟩], .arrive 2 31 [⟨5, some 5⟩], .arrive 1 20 [⟨2, some 2⟩],
      .arrive 0 10 [⟨1, some 1⟩], .arrive 0 11 [], .arrive 1 21 [⟨3, some 3⟩]]).outs.map
        (fun t => (tupleList 3 t).map (·.val)) = [[10, 20, 30], [11, 21, 31]] := by decide +kernel
/-- the bound is tight: an awaiting producer gets `maxsize + 1` elements buffered, the last one blocked -/
example : RunWith Awaits { k := 2, maxsize := 2, sinks := [false] } (init Nat)
      [.arrive 0 1 [], .arrive 0 2 [], .arrive 0 3 []] ∧
    ((run { k := 2, maxsize := 2, sinks := [false] } [.arrive 0 1 [], .arrive 0 2 [], .arrive 0 3 []]
      : St Nat).bufs 0).length = 3 ∧
    (run { k := 2, maxsize := 2, sinks := [false] } [.arrive 0 1 [], .arrive 0 2 [], .arrive 0 3 []]
      : St Nat).emits.map (·.2) = [.done, .done, .blocked] := by decide +kernel
/-- the blocked producer is woken by the next tuple (hypothesis of `c03_zip_no_lost_wakeup` is satisfiable) -/
example : ((run { k := 2, maxsize := 2, sinks := [false] }
      [.arrive 0 1 [], .arrive 0 2 [], .arrive 0 3 [], .arrive 1 7 []] : St Nat).emits.map (·.2))
    = [.done, .done, .done, .done] := by decide +kernel
/-- a buffered element with a fresh counter has count exactly 1, and the callback fires when its tuple has left -/
example : (run { k := 2, maxsize := 2, sinks := [false] } [.arrive 0 1 [⟨1, some 7⟩]] : St Nat).count 7 = 1 ∧
    (run { k := 2, maxsize := 2, sinks := [false] } [.arrive 0 1 [⟨1, some 7⟩], .arrive 1 2 []] : St Nat).fired = [7] := by
  decide +kernel

end StreamzVerif.AsyncZip
