import StreamzVerif.Proofs.RefCount
/-
C05 — checkpoint liveness / balance, on the dataflow model `Model/Graph.lean` (reference counting through
`retainMd` = `_retain_refs`, `releaseMd` = `_release_refs`, `Ev.fire r` = the callback of counter `r` being
scheduled because a release left `count r ≤ 0`).

Vocabulary (all defined in `Proofs/RefCount.lean`, namespace `StreamzVerif.Graph.RefCount`)

  `wMd r md`            number of entries of the metadata list `md` whose counter is `r`
  `heldMd k s`          the metadata a node of kind `k` in state `s` is holding: the buffers of `partition`,
                        `partition_unique`, `collect`, the metadata deque of `sliding_window` (`items`); the
                        buffers of `zip` (`bufs`); the `metadata` slots of `combine_latest` (`lastMd`); the
                        lossless buffer of `zip_latest` plus its non-lossless slots (`lossless`, `lastMd.drop 1`);
                        nothing for every other kind
  `holders G nodes S r` the ghost function: how often `r` sits in a node of the finite node list `nodes`, plus in
                        an asynchronous consumer invocation that has not finished (`S.pending`), plus in a
                        suspended `partition._flush` (`S.waiters`)
  `Good G nodes S`      a *quiescent state* (between top-level operations): the topology is a DAG and `nodes` is
                        closed under `downs` (`WF`); every node satisfies its shape invariant `NodeInv` (distinct
                        keys in `partition_unique`, metadata deque shorter than `n` in `sliding_window`, one buffer
                        / slot per upstream in `zip`, `combine_latest`, `zip_latest`); pending tokens are distinct
                        (`PendOK`); and **`∀ r, S.count r = holders G nodes S r`**
  `Op`, `Step`          the top-level operations `emit n v md` (`Stream._emit` at any node), `flush d`
                        (`collect.flush()`), `done tok` (an asynchronous consumer finishes normally), each
                        completing normally (`Run`: no exception, none captured by `partition`'s coroutine, enough
                        fuel); `step_of_emitAt` / `step_of_flushAt` turn successful runs of the executable
                        interpreter into steps; `Steps` is a sequence of them
  `evNet r e`, `logNet r l`   what an event / a log does to the counter of `r`
                        (`retain r k ↦ +k`, `release r ↦ −1`, everything else 0)

Hypotheses, stated once: a finite duplicate-free node list `nodes`, a DAG closed under `downs`, the node
invariants, successful runs.  No hypothesis on the kinds occurring in the graph: `every_update_balanced` covers
all 18 kinds of the model.  Metadata is arbitrary (a reference may occur several times in one metadata list, in
several elements, and may be re-emitted while it is still held).
-/
namespace StreamzVerif.Graph
open RefCount

variable (G : NodeId → Kind)

/-- **Per-kind balance** (the obligation `KindOK`, discharged for *every* kind): for every node state `s`
satisfying the node invariant, every arrival `(who, v, md)` on which `update` returns normally and every
reference `r`, the body of `update` keeps the books — retains minus releases equals what the node holds
afterwards minus what it held before (`BodyOK … (nodeHolds k s r)` ends in `c = nodeHolds k s' r`); no release
takes more than the node's share; at every emission everything still buffered is still counted and the
emitted metadata is still counted; the final state satisfies the node invariant again. -/
theorem every_update_balanced (k : Kind) : KindOK k := kindOK_all k

/-- **`count r = holders r + k` is preserved** by `_emit` at any node, from any well-formed state (balanced or
not), for every reference: what the counter shows beyond the holders does not change. -/
theorem excess_preserved {nodes : List NodeId} (hn : nodes.Nodup) {n : NodeId} {v : Val} {md : Meta}
    {S S' : State} {l : List Ev} {t : List Tok} (hW : WF nodes S) (hI : InvFrom G nodes 0 S) (hin : n ∈ nodes)
    (h : Run G (.emit n v md) S S' l t) (r : Nat) :
    S'.count r - (holders G nodes S' r : Int) = S.count r - (holders G nodes S r : Int) :=
  (run_bal' G hn r h hW hin (hI.mono G (Nat.zero_le _))).1

/-- **`count_eq_holders`**: the invariant of quiescent states — in particular `∀ r, count r = holders r` — is
preserved by every top-level operation: `_emit` of any value with any metadata at any node, `collect.flush()`,
and the completion of an asynchronous consumer. -/
theorem count_eq_holders {nodes : List NodeId} (hn : nodes.Nodup) {S S' : State} {op : Op} {l : List Ev}
    (hG : Good G nodes S) (h : Step G nodes S op S' l) :
    Good G nodes S' ∧ ∀ r, S'.count r = (holders G nodes S' r : Int) :=
  ⟨step_good G hn hG h, (step_good G hn hG h).bal⟩

/-- ... hence at *every* quiescent point of any session (any sequence of operations) started in a quiescent
state — e.g. a freshly built pipeline, `good_init` — every counter equals the number of legitimate holders. -/
theorem count_eq_holders_always {nodes : List NodeId} (hn : nodes.Nodup) {S S' : State} {ops : List Op}
    {l : List Ev} (hG : Good G nodes S) (h : Steps G nodes S ops S' l) (r : Nat) :
    S'.count r = (holders G nodes S' r : Int) :=
  (steps_good G hn h hG).bal r

/-- The same for the executable interpreter: a successful `emitAt` (any fuel) from a quiescent state ends in a
quiescent state. -/
theorem count_eq_holders_emitAt {nodes : List NodeId} (hn : nodes.Nodup) {fuel : Nat} {n : NodeId} {v : Val}
    {md : Meta} {S : State} (hG : Good G nodes S) (hin : n ∈ nodes)
    (he : (emitAt G fuel n v md S).err = none) (hc : (emitAt G fuel n v md S).carried = none) (r : Nat) :
    (emitAt G fuel n v md S).st.count r = (holders G nodes (emitAt G fuel n v md S).st r : Int) :=
  (step_good G hn hG (step_of_emitAt G hin he hc)).bal r

/-- ... and for `flushAt` on a `collect` node. -/
theorem count_eq_holders_flushAt {nodes : List NodeId} (hn : nodes.Nodup) {fuel : Nat} {d : NodeId}
    {S : State} (hG : Good G nodes S) (hin : d ∈ nodes) (hk : G d = .collect)
    (he : (flushAt G fuel d S).err = none) (hc : (flushAt G fuel d S).carried = none) (r : Nat) :
    (flushAt G fuel d S).st.count r = (holders G nodes (flushAt G fuel d S).st r : Int) :=
  (step_good G hn hG (step_of_flushAt G hin hk he hc)).bal r

/-- **The log is the counter's history** (no hypothesis at all): over any completed call of the interpreter
the counter changes by exactly the logged retains and releases.  This is what makes "the count at the moment
after the log prefix `p`" (`S.count r + logNet r p`) meaningful in the theorems below. -/
theorem count_tracks_log {c : Call} {S S' : State} {l : List Ev} {t : List Tok} (h : Run G c S S' l t)
    (r : Nat) : S'.count r = S.count r + logNet r l :=
  (run_log G r h).1

/-- **`nonneg`**: during a top-level operation started in a quiescent state no counter ever becomes negative —
at every moment *inside* the run (after every prefix `p` of the log), not only at the end. -/
theorem nonneg {nodes : List NodeId} (hn : nodes.Nodup) {S S' : State} {op : Op} {l : List Ev}
    (hG : Good G nodes S) (h : Step G nodes S op S' l) (r : Nat) (p q : List Ev) (hl : l = p ++ q) :
    0 ≤ S.count r + logNet r p := by
  have h0 : 0 ≤ S.count r := by rw [hG.bal r]; omega
  exact (step_safeTop G hn r hG h).nonneg h0 p q hl

/-- **The callback is scheduled exactly when the count reaches zero.**
(1) at the moment of every `fire r` the count of `r` is exactly 0 (not negative);
(2) whenever a `release r` brings the count from 1 to 0 the next event is `fire r`. -/
theorem fire_iff_zero {nodes : List NodeId} (hn : nodes.Nodup) {S S' : State} {op : Op} {l : List Ev}
    (hG : Good G nodes S) (h : Step G nodes S op S' l) (r : Nat) :
    (∀ p q, l = p ++ Ev.fire r :: q → S.count r + logNet r p = 0) ∧
    (∀ p q, l = p ++ Ev.release r :: q → S.count r + logNet r p = 1 → ∃ q', q = Ev.fire r :: q') := by
  have h0 : 0 ≤ S.count r := by rw [hG.bal r]; omega
  have hlog := step_logOK G r hG h
  refine ⟨fun p q hl => ((step_safeTop G hn r hG h).fire_dead hlog.2 h0 hl).1, fun p q hl h1 => ?_⟩
  subst hl
  exact hlog.2.release_fires (by omega)

/-- **`count_no_resurrection`** (the clause `no_resurrection` of C05; the plain name is taken by a C15 theorem in
the same namespace): once the count of `r` has reached zero inside an operation (`fire r`), the rest of the
operation neither retains nor releases `r` (every later event is neutral for `r`: no `release r`, no
`retain r k` with `k > 0`), so the count stays 0 at every later moment and at the end of the operation.  No
freshness assumption: the start state is any quiescent state. -/
theorem count_no_resurrection {nodes : List NodeId} (hn : nodes.Nodup) {S S' : State} {op : Op} {l : List Ev}
    (hG : Good G nodes S) (h : Step G nodes S op S' l) (r : Nat) (p q : List Ev)
    (hl : l = p ++ Ev.fire r :: q) :
    (∀ e ∈ q, evNet r e = 0) ∧ (∀ q1 q2, q = q1 ++ q2 → S.count r + logNet r (p ++ Ev.fire r :: q1) = 0) ∧
      S'.count r = 0 := by
  have h0 : 0 ≤ S.count r := by rw [hG.bal r]; omega
  have hlog := step_logOK G r hG h
  obtain ⟨hz, hd⟩ := (step_safeTop G hn r hG h).fire_dead hlog.2 h0 hl
  have hnet : ∀ q1 : List Ev, (∀ e ∈ q1, evNet r e = 0) → logNet r q1 = 0 := by
    intro q1 hq1
    have a := logNet_nonneg (r := r) (l := q1) (fun e he => by rw [hq1 e he]; omega)
    have b := logNet_nonpos (r := r) (l := q1) (fun e he => by rw [hq1 e he]; omega)
    omega
  refine ⟨hd, ?_, ?_⟩
  · intro q1 q2 hq
    have := hnet q1 (fun e he => hd e (by rw [hq]; simp [he]))
    simp only [logNet_append, logNet_cons, evNet_fire]
    omega
  · have := hnet q hd
    rw [hlog.1, hl]
    simp only [logNet_append, logNet_cons, evNet_fire]
    omega

/-- ... and across operations: a reference whose count is 0 at a quiescent point (completed, or never seen) is
never touched by any later operation that does not inject it again — no retain, no release, no second callback,
count still 0, nobody holds it. -/
theorem completed_stays_completed {nodes : List NodeId} (hn : nodes.Nodup) {S S' : State} {ops : List Op}
    {l : List Ev} (hG : Good G nodes S) (h : Steps G nodes S ops S' l) (r : Nat) (h0 : S.count r = 0)
    (hops : ∀ op ∈ ops, ∀ n v md, op = Op.emit n v md → wMd r md = 0) :
    (∀ e ∈ l, evNet r e = 0) ∧ Ev.fire r ∉ l ∧ S'.count r = 0 ∧ holders G nodes S' r = 0 := by
  obtain ⟨a, b, c⟩ := steps_dead G hn r h hG h0 hops
  have := (steps_good G hn h hG).bal r
  exact ⟨a, b, c, by omega⟩

/-- **Reaching zero is signalled**: if at some moment of an operation the count of `r` is positive and at the
end of the operation it is 0, then `fire r` was logged after that moment. -/
theorem fired_when_zero {nodes : List NodeId} {S S' : State} {op : Op} {l : List Ev}
    (hG : Good G nodes S) (h : Step G nodes S op S' l) (r : Nat) (p q : List Ev) (hl : l = p ++ q)
    (hpos : 0 < S.count r + logNet r p) (hend : S'.count r = 0) : Ev.fire r ∈ q :=
  (step_logOK G r hG h).fired hl hpos (by omega)

/-- **`dropped_is_zero`**: after a top-level `_emit`, a reference that no node, no pending consumer and no
suspended flush holds — because the element was dropped by a `filter`, `unique`, `slice` (which never hold
anything, `nonholding_kinds`), was the duplicate dropped or the entry replaced by `partition_unique`, or simply
went all the way through — has count 0; and if it was new (`S.count r = 0`) and the entry node has a
downstream, its completion callback has been scheduled during this very operation. -/
theorem dropped_is_zero {nodes : List NodeId} (hn : nodes.Nodup) {n : NodeId} {v : Val} {md : Meta}
    {S S' : State} {l : List Ev} (hG : Good G nodes S) (h : Step G nodes S (.emit n v md) S' l) (r : Nat)
    (hfree : holders G nodes S' r = 0) :
    S'.count r = 0 ∧ (S.count r = 0 → 0 < wMd r md → S.downs n ≠ [] → Ev.fire r ∈ l) := by
  have hz : S'.count r = 0 := by rw [(step_good G hn hG h).bal r, hfree]; rfl
  refine ⟨hz, fun h0 hw hd => ?_⟩
  cases h with
  | emit hin hr =>
    obtain ⟨l', hl, hcount⟩ := emit_log_head G hr r
    have hlen : 0 < (S.downs n).length := List.length_pos_iff.2 hd
    have hpos : 0 < (S.downs n).length * wMd r md := Nat.mul_pos hlen hw
    have := fired_when_zero G hG (Step.emit hin hr) r _ l' hl (by rw [hcount, h0]; omega) hz
    rw [hl]
    exact List.mem_append_right _ this

/-- the kinds that never hold a reference past `update()`: whatever they drop is not held by them -/
theorem nonholding_kinds (k : Kind)
    (hk : match k with
      | .partition _ _ | .partitionUnique _ _ _ | .slidingWindow _ _ | .collect | .zip _ | .combineLatest _
      | .zipLatest => False
      | _ => True) (s : NState) (r : Nat) : nodeHolds k s r = 0 := by
  cases k <;> first | exact hk.elim | rfl

/-- **Stateless pipelines complete synchronously**: if every node is of a non-holding kind (`source`, `map`,
`filter`, `unique`, `slice`, `flatten`, `pluck`, `accumulate`, `union`, synchronous `sink`, …) and no
asynchronous consumer is running, then after every top-level `_emit` every counter is back to 0, and a new
reference entering at a node with a downstream has had its callback scheduled — whether the element was passed
on, transformed, or dropped on the way. -/
theorem stateless_completes {nodes : List NodeId} (hn : nodes.Nodup) {n : NodeId} {v : Val} {md : Meta}
    {S S' : State} {l : List Ev} (hG : Good G nodes S) (h : Step G nodes S (.emit n v md) S' l)
    (hk : ∀ i ∈ nodes, ∀ s, heldMd (G i) s = []) (hp : S'.pending = []) (hw : S'.waiters = []) (r : Nat) :
    S'.count r = 0 ∧ (S.count r = 0 → 0 < wMd r md → S.downs n ≠ [] → Ev.fire r ∈ l) :=
  dropped_is_zero G hn hG h r (holders_eq_zero G r (fun i hi => hk i hi _) hp hw)

/-! ### Non-vacuity: concrete pipelines, evaluated with the executable interpreter -/

section Examples

/-- the callbacks scheduled by a log, in order -/
def firedRefs (l : List Ev) : List Nat := l.filterMap fun | .fire r => some r | _ => none

/-- source 0 → partition(2) 1 → sink 2 -/
def rcG : NodeId → Kind
  | 0 => .source
  | 1 => .partition 2 none
  | _ => .sink (.sync .id)
def rcS : State := { loc := fun _ => {}, downs := fun i => match i with | 0 => [1] | 1 => [2] | _ => [] }
def rcNodes : List NodeId := [0, 1, 2]

/-- the fresh pipeline is a quiescent state: the hypotheses of all theorems above are satisfiable -/
theorem rcS_good : Good rcG rcNodes rcS := by
  refine good_init rcG ⟨?_, ?_⟩ ?_ ?_ rfl rfl (fun _ => rfl)
  · intro u d hd
    unfold rcS at hd; simp only [] at hd
    split at hd <;> simp at hd <;> subst hd <;> decide
  · intro u hu d hd
    unfold rcS at hd; simp only [] at hd
    split at hd <;> simp at hd <;> simp [rcNodes, hd]
  · intro i hi _
    simp only [rcNodes, List.mem_cons, List.not_mem_nil, or_false] at hi
    rcases hi with rfl | rfl | rfl <;> simp [rcG]
  · intro i hi
    simp only [rcNodes, List.mem_cons, List.not_mem_nil, or_false] at hi
    rcases hi with rfl | rfl | rfl <;> rfl

def rcR1 := emitAt rcG 10 0 (.int 1) [⟨0, some 7⟩] rcS
def rcR2 := emitAt rcG 10 0 (.int 2) [⟨1, some 8⟩] rcR1.st

/-- a `partition(2)` holding one element: its counter is 1 (one legitimate holder), nothing fired -/
example : rcR1.err = none ∧ rcR1.carried = none ∧ rcR1.st.count 7 = 1 ∧ holders rcG rcNodes rcR1.st 7 = 1 ∧
    firedRefs rcR1.log = [] := by decide +kernel
/-- after the second element arrives the tuple is emitted: both counters are 0 and both callbacks scheduled -/
example : rcR2.err = none ∧ rcR2.carried = none ∧ rcR2.st.count 7 = 0 ∧ rcR2.st.count 8 = 0 ∧
    holders rcG rcNodes rcR2.st 7 = 0 ∧ firedRefs rcR2.log = [7, 8] := by decide +kernel
/-- the general theorem applies to these runs -/
example : ∀ r, rcR1.st.count r = (holders rcG rcNodes rcR1.st r : Int) :=
  count_eq_holders_emitAt rcG (by decide) rcS_good (by decide) (by decide +kernel) (by decide +kernel)

/-- source 0 → filter(isEven) 1 → sink 2: the odd element is dropped, its counter is 0 and its callback scheduled -/
def rcGf : NodeId → Kind
  | 0 => .source
  | 1 => .filter .isEven
  | _ => .sink (.sync .id)
example : (emitAt rcGf 10 0 (.int 3) [⟨0, some 7⟩] rcS).err = none ∧
    (emitAt rcGf 10 0 (.int 3) [⟨0, some 7⟩] rcS).st.count 7 = 0 ∧
    firedRefs (emitAt rcGf 10 0 (.int 3) [⟨0, some 7⟩] rcS).log = [7] ∧
    arrivalsAt 2 (emitAt rcGf 10 0 (.int 3) [⟨0, some 7⟩] rcS).log = [] := by decide +kernel

/-- source 0 → partition_unique(2, key = x mod 10, keep = "last") 1 → sink 2: 11 replaces 1 — the replaced
element's counter drops to 0 and fires, the replacing one is held (count 1) -/
def rcGu : NodeId → Kind
  | 0 => .source
  | 1 => .partitionUnique 2 (.modk 10) true
  | _ => .sink (.sync .id)
def rcU1 := emitAt rcGu 10 0 (.int 1) [⟨0, some 7⟩] rcS
def rcU2 := emitAt rcGu 10 0 (.int 11) [⟨1, some 8⟩] rcU1.st
example : rcU1.st.count 7 = 1 ∧ rcU2.err = none ∧ rcU2.st.count 7 = 0 ∧ rcU2.st.count 8 = 1 ∧
    firedRefs rcU2.log = [7] ∧ holders rcGu rcNodes rcU2.st 8 = 1 := by decide +kernel

/-- sources 0, 1 → zip 2 → sliding_window(2) 3 → collect 4 → sink 5 -/
def rcGz : NodeId → Kind
  | 0 => .source
  | 1 => .source
  | 2 => .zip []
  | 3 => .slidingWindow 2 false
  | 4 => .collect
  | _ => .sink (.sync .id)
def rcSz : State :=
  { loc := fun i => match i with | 2 => { ups := [0, 1], bufs := [(0, []), (1, [])] } | _ => {},
    downs := fun i => match i with | 0 => [2] | 1 => [2] | 2 => [3] | 3 => [4] | 4 => [5] | _ => [] }
def rcNz : List NodeId := [0, 1, 2, 3, 4, 5]

theorem rcSz_good : Good rcGz rcNz rcSz := by
  refine good_init rcGz ⟨?_, ?_⟩ ?_ ?_ rfl rfl (fun _ => rfl)
  · intro u d hd
    unfold rcSz at hd; simp only [] at hd
    split at hd <;> simp at hd <;> subst hd <;> decide
  · intro u hu d hd
    unfold rcSz at hd; simp only [] at hd
    split at hd <;> simp at hd <;> simp [rcNz, hd]
  · intro i hi _
    simp only [rcNz, List.mem_cons, List.not_mem_nil, or_false] at hi
    rcases hi with rfl | rfl | rfl | rfl | rfl | rfl <;> simp [rcGz, rcSz, NodeInv]
  · intro i hi
    simp only [rcNz, List.mem_cons, List.not_mem_nil, or_false] at hi
    rcases hi with rfl | rfl | rfl | rfl | rfl | rfl <;> rfl

def rcZ1 := emitAt rcGz 20 0 (.int 1) [⟨0, some 7⟩] rcSz
def rcZ2 := emitAt rcGz 20 1 (.int 2) [⟨0, some 8⟩] rcZ1.st
def rcZ3 := emitAt rcGz 20 0 (.int 3) [⟨0, some 9⟩] rcZ2.st
def rcZ4 := emitAt rcGz 20 1 (.int 4) [⟨0, some 10⟩] rcZ3.st
def rcZ5 := flushAt rcGz 20 4 rcZ4.st

/-- four emissions and a `collect.flush()`: at every quiescent point the counter of each of the four references
equals its number of holders (zip buffer; sliding window and collect cache at the same time; after the flush the
window only), and the flush completes exactly the two references that left the window -/
example : rcZ4.err = none ∧ rcZ4.carried = none ∧ rcZ5.err = none ∧ rcZ5.carried = none := by decide +kernel
example : [7, 8, 9, 10].map (fun r => (rcZ1.st.count r, holders rcGz rcNz rcZ1.st r)) = [(1,1),(0,0),(0,0),(0,0)] := by
  decide +kernel
example : [7, 8, 9, 10].map (fun r => (rcZ2.st.count r, holders rcGz rcNz rcZ2.st r)) = [(1,1),(1,1),(0,0),(0,0)] := by
  decide +kernel
example : [7, 8, 9, 10].map (fun r => (rcZ4.st.count r, holders rcGz rcNz rcZ4.st r)) = [(1,1),(1,1),(2,2),(2,2)] := by
  decide +kernel
example : [7, 8, 9, 10].map (fun r => (rcZ5.st.count r, holders rcGz rcNz rcZ5.st r)) = [(0,0),(0,0),(1,1),(1,1)] ∧
    firedRefs rcZ5.log = [7, 8] := by decide +kernel

end Examples

end StreamzVerif.Graph
