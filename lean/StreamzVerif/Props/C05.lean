import StreamzVerif.Model.Graph
namespace StreamzVerif.Graph
theorem placeholder_C05 : True := trivial
end StreamzVerif.Graph
