import StreamzVerif.Model.DaskFail
/-!
# C20 with failing user functions (model `Model/DaskFail.lean`)

* `safe_push_equiv`, `safe_run_equiv`        for every segment in which the functions of all stages up to the last
  `accumulate` never raise (maps after it may raise on any inputs), for all inputs: every `emit` has the same outcome
  on the Dask-backed segment as locally (same value at the sink, or raises), and the stage states agree;
* `errored_future_stays_errored`             an errored future entering any segment reaches `gather` errored;
* `dask_acc_poisoned`, `dask_acc_failure_is_permanent`
                                             once the state of a Dask `accumulate` is an errored future, every later
                                             `emit` raises, whatever the inputs and the stages below are;
* `local_acc_failure_is_transient`           locally the failing element leaves no trace: the run continues exactly as
                                             if it had not been offered;
* `accumulate_divergence_witness`            the two differ on a concrete input (recorded finding
                                             `dask:accumulate:failed-task-poisons-state`), hence
* `fault_equivalence_fails_with_accumulate`  the unrestricted statement is false of the model of the unchanged code.
-/
namespace StreamzVerif.DaskFail

/-- Every stage up to the last `accumulate` is total: either the head is total and the rest is safe, or only maps
follow. -/
def Safe : List (Stage × Nat) → Prop
  | [] => True
  | p :: rest => (p.1.total ∧ Safe rest) ∨ (∀ q ∈ p :: rest, q.1.isMap = true)

theorem lpush_stages (st : List (Stage × Nat)) (x : Nat) : (lpush st x).1.map (·.1) = st.map (·.1) := by
  induction st generalizing x with
  | nil => rfl
  | cons p rest ih =>
    obtain ⟨k, s⟩ := p
    cases k with
    | map f =>
      simp only [lpush]
      split
      · rfl
      · simp [ih]
    | acc f =>
      simp only [lpush]
      split
      · rfl
      · simp [ih]

theorem safe_of_stages {a b : List (Stage × Nat)} (h : a.map (·.1) = b.map (·.1)) (hs : Safe a) : Safe b := by
  induction a generalizing b with
  | nil =>
    cases b with
    | nil => trivial
    | cons _ _ => simp at h
  | cons p rest ih =>
    cases b with
    | nil => simp at h
    | cons q rest' =>
      simp only [List.map_cons, List.cons.injEq] at h
      obtain ⟨h1, h2⟩ := h
      rcases hs with ⟨ht, hr⟩ | hm
      · exact Or.inl ⟨h1 ▸ ht, ih h2 hr⟩
      · refine Or.inr ?_
        intro z hz
        have hall : ∀ k ∈ (p :: rest).map (·.1), k.isMap = true := by
          intro k hk
          obtain ⟨w, hw, rfl⟩ := List.mem_map.mp hk
          exact hm w hw
        have : z.1 ∈ (q :: rest').map (·.1) := List.mem_map.mpr ⟨z, hz, rfl⟩
        rw [List.map_cons, ← h1, ← h2, ← List.map_cons] at this
        exact hall _ this

/-- An errored future entering any segment arrives at `gather` errored. -/
theorem errored_future_stays_errored (st : List (Stage × Option Nat)) : (dpush st none).2 = none := by
  induction st with
  | nil => rfl
  | cons p rest ih =>
    obtain ⟨k, s⟩ := p
    cases k with
    | map f => simpa [dpush] using ih
    | acc f =>
      simp only [dpush]
      have : (s.bind fun sv => (none : Option Nat).bind fun xv => f sv xv) = none := by cases s <;> rfl
      rw [this]; exact ih

/-- Segments of maps only: one element, any input (finished or errored future of a local failure). -/
theorem maps_push_equiv (st : List (Stage × Nat)) (hm : ∀ q ∈ st, q.1.isMap = true) (x : Nat) :
    dpush (lift st) (some x) = (lift (lpush st x).1, (lpush st x).2) := by
  induction st generalizing x with
  | nil => rfl
  | cons p rest ih =>
    obtain ⟨k, s⟩ := p
    cases k with
    | acc f => have := hm _ (List.mem_cons_self); simp [Stage.isMap] at this
    | map f =>
      have hr : ∀ q ∈ rest, q.1.isMap = true := fun q hq => hm q (List.mem_cons_of_mem _ hq)
      simp only [lift, List.map_cons, dpush, lpush]
      cases hf : f x with
      | none =>
        simp only [Option.bind_some, hf]
        have h1 := errored_future_stays_errored (lift rest)
        -- the stages below a failed map are maps: their (ignored) states are unchanged
        have h2 : (dpush (lift rest) none).1 = lift rest := by
          clear ih hm h1
          induction rest with
          | nil => rfl
          | cons q r ihr =>
            obtain ⟨k', s'⟩ := q
            cases k' with
            | acc g => have := hr _ (List.mem_cons_self); simp [Stage.isMap] at this
            | map g =>
              have := ihr (fun q hq => hr q (List.mem_cons_of_mem _ hq))
              simp only [lift, List.map_cons, dpush, Option.bind_none] at this ⊢
              rw [this]
        simp only [lift] at h1 h2
        rw [h1, h2]
        rfl
      | some y =>
        simp only [Option.bind_some, hf]
        have := ih hr y
        simp only [lift] at this
        rw [this]
        rfl

/-- **Safe segments, one element**: the Dask push is the local push, outcome and states. -/
theorem safe_push_equiv (st : List (Stage × Nat)) (hs : Safe st) (x : Nat) :
    dpush (lift st) (some x) = (lift (lpush st x).1, (lpush st x).2) := by
  induction st generalizing x with
  | nil => rfl
  | cons p rest ih =>
    rcases hs with ⟨ht, hr⟩ | hm
    · obtain ⟨k, s⟩ := p
      cases k with
      | map f =>
        have hx := ht x
        cases hf : f x with
        | none => simp [hf] at hx
        | some y =>
          have := ih hr y
          simp only [lift] at this
          simp only [lift, List.map_cons, dpush, lpush, Option.bind_some, hf, this]
      | acc f =>
        have hx := ht s x
        cases hf : f s x with
        | none => simp [hf] at hx
        | some y =>
          have := ih hr y
          simp only [lift] at this
          simp only [lift, List.map_cons, dpush, lpush, Option.bind_some, hf, this]
    · exact maps_push_equiv _ hm x

/-- **C20 with failures, safe segments**: for every input sequence, the outcome of every `emit` (the value at the
sink, or an exception) on the Dask-backed segment is the local one, and the final states agree. -/
theorem safe_run_equiv (st : List (Stage × Nat)) (hs : Safe st) (xs : List Nat) :
    drun (lift st) xs = (lift (lrun st xs).1, (lrun st xs).2) := by
  induction xs generalizing st with
  | nil => rfl
  | cons x xs ih =>
    simp only [drun, lrun]
    rw [safe_push_equiv st hs x]
    have hs' : Safe (lpush st x).1 := safe_of_stages (lpush_stages st x).symm hs
    rw [ih _ hs']

/-- **Poisoned for ever.**  A Dask `accumulate` whose state is an errored future: every later `emit` raises, for
all inputs and all stages below. -/
theorem dask_acc_poisoned (f : Nat → Nat → Option Nat) (rest : List (Stage × Option Nat)) (xs : List Nat) :
    (drun ((.acc f, none) :: rest) xs).2 = xs.map (fun _ => none) := by
  induction xs generalizing rest with
  | nil => rfl
  | cons x xs ih =>
    simp only [drun, dpush, Option.bind_none, List.map_cons]
    rw [errored_future_stays_errored, ih]

/-- If the user function raises once, the Dask `accumulate` fails on that element and on every later one. -/
theorem dask_acc_failure_is_permanent (f : Nat → Nat → Option Nat) (s x : Nat) (hf : f s x = none)
    (rest : List (Stage × Option Nat)) (xs : List Nat) :
    (drun ((.acc f, some s) :: rest) (x :: xs)).2 = none :: xs.map (fun _ => none) := by
  simp only [drun, dpush, Option.bind_some, hf]
  rw [errored_future_stays_errored, dask_acc_poisoned]

/-- Locally the failing element leaves no trace: the run continues as if it had not been offered. -/
theorem local_acc_failure_is_transient (f : Nat → Nat → Option Nat) (s x : Nat) (hf : f s x = none)
    (rest : List (Stage × Nat)) (xs : List Nat) :
    lrun ((.acc f, s) :: rest) (x :: xs) =
      ((lrun ((.acc f, s) :: rest) xs).1, none :: (lrun ((.acc f, s) :: rest) xs).2) := by
  simp only [lrun, lpush, hf]

/-- `add` failing when `state + x ≡ 3 (mod 5)` — the function of the corpus case in harness/props/c20.py. -/
def addFail (s x : Nat) : Option Nat := if (s + x) % 5 = 3 then none else some (s + x)

/-- **Witness of the recorded finding**: `scatter().accumulate(addFail, start=0).gather()` on 1, 2, 4, 1, 1. -/
theorem accumulate_divergence_witness :
    (lrun [(.acc addFail, 0)] [1, 2, 4, 1, 1]).2 = [some 1, none, some 5, some 6, some 7] ∧
    (drun (lift [(.acc addFail, 0)]) [1, 2, 4, 1, 1]).2 = [some 1, none, none, none, none] := by
  decide

/-- Hence the unrestricted equivalence is false of the unchanged code's model. -/
theorem fault_equivalence_fails_with_accumulate :
    ¬ ∀ (st : List (Stage × Nat)) (xs : List Nat), (drun (lift st) xs).2 = (lrun st xs).2 := by
  intro h
  have := h [(.acc addFail, 0)] [1, 2, 4, 1, 1]
  revert this
  decide

/-- `safe_run_equiv` is not vacuous: a total accumulate followed by a failing map is safe, and failures do occur. -/
example : Safe [(.acc (fun s x => some (s + x)), 0), (.map (fun x => if x % 2 = 0 then none else some x), 0)] ∧
    (lrun [(.acc (fun s x => some (s + x)), 0), (.map (fun x => if x % 2 = 0 then none else some x), 0)] [1, 1, 1]).2
      = [some 1, none, some 3] := by
  refine ⟨Or.inl ⟨fun _ _ => rfl, Or.inr ?_⟩, by decide⟩
  intro q hq
  simp at hq
  subst hq
  rfl

end StreamzVerif.DaskFail
