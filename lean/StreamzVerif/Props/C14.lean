import StreamzVerif.Proofs.Latest
/-!
# C14 — latest delivers an in-order subsequence ending with the newest element

Property theorems only (helper lemmas live in `Proofs/Latest.lean`).

The theorems about `Latest.*` (the code with fix-1 applied) quantify over *every*
action sequence accepted by the step relation — every interleaving of arrivals,
notify callbacks, coroutine resumptions and consumer completions, with any
number of arrivals.  The theorems about `Latest.Orig.*` document what the
unchanged mechanism violates (negations on concrete witnesses) and the part of
the property it does satisfy.
-/
namespace StreamzVerif.Latest

/-- **In-order subsequence.**  The delivery log is a subsequence of the arrivals
`1, 2, …, arrived` taken in their original order. -/
theorem deliveries_subsequence_of_arrivals (acts : List Act) (s : St)
    (hr : run init acts = some s) :
    s.delivered.Sublist (List.range' 1 s.arrived) :=
  inv_delivered_sublist (inv_reachable hr)

/-- The same statement on payloads: whatever value `payload i` the `i`-th arrival
carried, the delivered values are a subsequence of the received values. -/
theorem delivered_values_subsequence {α : Type} (payload : Nat → α) (acts : List Act) (s : St)
    (hr : run init acts = some s) :
    (s.delivered.map payload).Sublist ((List.range' 1 s.arrived).map payload) :=
  List.Sublist.map payload (deliveries_subsequence_of_arrivals acts s hr)

/-- **Nothing twice, nothing out of order.**  Deliveries are strictly increasing
in arrival index. -/
theorem deliveries_strictly_increasing (acts : List Act) (s : St)
    (hr : run init acts = some s) :
    s.delivered.Pairwise (· < ·) :=
  pairwise_lt_of_sublist_range (deliveries_subsequence_of_arrivals acts s hr)

/-- **No lost wake-up.**  In every reachable state: a fresh element in the slot
while the coroutine is suspended in `condition.wait()` implies that a notify
callback is still queued. -/
theorem no_lost_wakeup (acts : List Act) (s : St) (hr : run init acts = some s) :
    s.slot.isSome → s.co = .waiting → 0 < s.pending :=
  (inv_reachable hr).wake

/-- **Newest delivered.**  In every reachable quiescent state (no notify callback
queued, no resumption queued) in which the consumer is free, the most recent
arrival is the last delivery (and the slot is empty). -/
theorem newest_delivered_at_quiescence (acts : List Act) (s : St)
    (hr : run init acts = some s) (hq : Quiescent s) (hf : ConsumerFree s) :
    s.slot = none ∧ (0 < s.arrived → s.delivered.getLast? = some s.arrived) := by
  have hinv := inv_reachable hr
  obtain ⟨hp, hw⟩ := waiting_of_quiescent_free hq hf
  have hslot : s.slot = none := by
    cases hs : s.slot with
    | none => rfl
    | some i =>
      have := hinv.wake (by simp [hs]) hw
      omega
  exact ⟨hslot, (hinv.taken hslot).2⟩

/-- **Input stops ⇒ it settles.**  A run without arrivals from *any* state takes
at most `weight s` steps (no livelock: the loop cannot keep itself busy). -/
theorem arrival_free_runs_are_bounded (s s' : St) (acts : List Act)
    (hn : ∀ a ∈ acts, a ≠ .arrive) (hr : run s acts = some s') :
    acts.length ≤ weight s := by
  have := weight_run hn hr
  omega

/-- **Once input stops and the consumer becomes free, the newest element has been
delivered.**  From any reachable state, follow any arrival-free continuation
until nothing but a new arrival is enabled (by the previous theorem every
continuation gets there): the last delivery is the last arrival. -/
theorem newest_delivered_after_input_stops (pre post : List Act) (s s' : St)
    (hpre : run init pre = some s)
    (hn : ∀ a ∈ post, a ≠ .arrive) (hpost : run s post = some s')
    (hstuck : ∀ a, a ≠ Act.arrive → step s' a = none)
    (hpos : 0 < s.arrived) :
    s'.delivered.getLast? = some s.arrived := by
  have hr : run init (pre ++ post) = some s' := by
    rw [run_append, hpre]; simpa using hpost
  obtain ⟨hq, hf⟩ := (stuck_iff s').mp hstuck
  have ha := arrived_run_noarrive hn hpost
  have := (newest_delivered_at_quiescence _ s' hr hq hf).2 (by omega)
  rw [this, ha]

/-! ## Non-vacuity: the hypotheses are satisfiable by real runs -/

/-- start, arrive 1, notify, resume (deliver 1), arrive 2, arrive 3 (consumer busy),
both notifies find nobody waiting, consumer done, resume (deliver 3), done, resume (wait). -/
def demo : List Act :=
  [.resume, .arrive, .runNotify, .resume, .arrive, .arrive, .runNotify, .runNotify,
   .consumerDone, .resume, .consumerDone, .resume]

example : ∃ s, run init demo = some s ∧ Quiescent s ∧ ConsumerFree s ∧ 0 < s.arrived ∧
    s.delivered = [1, 3] ∧ s.arrived = 3 := by
  refine ⟨_, rfl, ?_⟩; decide

/-- a reachable state where the no-lost-wake-up hypotheses hold (slot full, coroutine waiting) -/
example : ∃ s, run init [.resume, .arrive] = some s ∧ s.slot.isSome ∧ s.co = .waiting ∧ 0 < s.pending := by
  refine ⟨_, rfl, ?_⟩; decide

/-- an arrival-free continuation ending in a stuck state, as in `newest_delivered_after_input_stops` -/
example : ∃ s s', run init [.resume, .arrive, .runNotify, .resume, .arrive] = some s ∧
    run s [.runNotify, .consumerDone, .resume, .consumerDone, .resume] = some s' ∧
    (∀ a, a ≠ Act.arrive → step s' a = none) ∧ s'.delivered = [1, 2] := by
  refine ⟨_, _, rfl, rfl, ?_, rfl⟩
  intro a ha; cases a <;> first | exact absurd rfl ha | rfl

/-- A *re-entrant* arrival — the consumer itself emits into the upstream of `latest` during the
call that hands it an element (a feedback cycle) — is the action `arrive` taken in state
`emitting`: `resume` has already emptied the slot and started the delivery (`[x], self.next =
self.next, []` precedes `self._emit`), so the element written by the nested `update` stays in
the slot and is delivered next.  Here: 1 is delivered, the consumer feeds back 2 and then 3
before completing; 3 supersedes 2 and is delivered. -/
example : ∃ s, run init [.resume, .arrive, .runNotify, .resume, .arrive, .arrive, .consumerDone,
      .resume, .runNotify, .runNotify, .consumerDone, .resume] = some s ∧
    s.delivered = [1, 3] ∧ Quiescent s ∧ ConsumerFree s := by
  refine ⟨_, rfl, ?_⟩; decide

/-! ## The original mechanism (unchanged tree): both clauses fail -/

/-- Witness of the lost wake-up: arrival 2 comes while the consumer is busy with
1; its notify runs while nobody waits; when the consumer finishes the coroutine
goes back to `condition.wait()` unconditionally. -/
def origLostWitness : List Act :=
  [.resume, .arrive, .runNotify, .resume, .arrive, .runNotify, .consumerDone, .resume]

/-- **Negation of the "newest delivered" clause for the original mechanism**: a
reachable quiescent state with the consumer free in which the newest arrival (2)
has not been delivered, and never will be unless new input arrives. -/
theorem orig_lost_wakeup :
    ∃ acts s, Orig.run Orig.init acts = some s ∧ Orig.Quiescent s ∧ Orig.ConsumerFree s ∧
      s.arrived = 2 ∧ s.delivered = [1] ∧ s.delivered.getLast? ≠ some s.arrived := by
  refine ⟨origLostWitness, _, rfl, ?_⟩; decide

/-- Witness of the duplicate: arrival 2 comes between the notify of arrival 1 and
the coroutine's resumption, so the resumption delivers 2 and the notify of 2 is
left over; it wakes the coroutine after the delivery and the unemptied slot is
delivered again. -/
def origDupWitness : List Act :=
  [.resume, .arrive, .runNotify, .arrive, .resume, .consumerDone, .resume, .runNotify, .resume]

/-- **Negation of the "no element twice" clause for the original mechanism.** -/
theorem orig_duplicate :
    ∃ acts s, Orig.run Orig.init acts = some s ∧ s.delivered = [2, 2] ∧
      ¬ s.delivered.Pairwise (· < ·) := by
  refine ⟨origDupWitness, _, rfl, ?_⟩; decide

/-- What the original mechanism does guarantee (partial: *weak* monotonicity only —
"no element twice" and "newest delivered" are false for it, see the two theorems
above; the missing part is exactly what fix-1 supplies): deliveries never go
backwards and are arrivals. -/
theorem orig_deliveries_nondecreasing_partial (acts : List Act) (s : Orig.St)
    (hr : Orig.run Orig.init acts = some s) :
    s.delivered.Pairwise (· ≤ ·) ∧ ∀ d ∈ s.delivered, d ≤ s.arrived :=
  let h := Orig.inv_run Orig.inv_init hr
  ⟨h.mono, h.bound⟩

/-- The fixed mechanism accepts both witness schedules and behaves correctly on them. -/
example : ∃ s, run init origLostWitness = some s ∧ s.delivered = [1, 2] ∧ s.co = .emitting 2 := by
  refine ⟨_, rfl, ?_⟩; decide
example : ∃ s, run init (origLostWitness ++ [.consumerDone, .resume]) = some s ∧
    s.delivered = [1, 2] ∧ Quiescent s ∧ ConsumerFree s := by
  refine ⟨_, rfl, ?_⟩; decide
example : ∃ s, run init origDupWitness = some s ∧ s.delivered = [2] ∧ Quiescent s ∧ ConsumerFree s := by
  refine ⟨_, rfl, ?_⟩; decide

end StreamzVerif.Latest
