import StreamzVerif.Proofs.AsyncBuffer
/-!
# Property theorems for the node group AsyncBuffer = `buffer(n)`, `map_async(func, parallelism=p)`

Models: Model/AsyncBuffer.lean (settled-granularity event-loop models of the two nodes between a producer and a
consumer).  Every theorem quantifies over ALL action sequences (every interleaving of arrivals, consumer
completions, job completions / failures in any order), every bound, both kinds of consumer
(`downAsync = true`: awaitable consumer completed by the action `downDone`; `false`: synchronous consumer).

Prefixes: `c02_` lossless in-order delivery, `c03_` backpressure / bound / no deadlock, `c04_` the completion
callback never fires early, `c05_` balance at quiescence.
-/
namespace StreamzVerif.AsyncBuffer

variable {α β : Type}

/-! ## buffer(n) -/

/-- C02 (buffer): the history invariant `ins = outs ++ queue ++ putters` — what was handed downstream is a
prefix of what arrived, in arrival order, nothing is lost (the rest is still inside), and no element is handed
on twice. -/
theorem c02_buffer_prefix (c : BCfg) (acts : List (BAct α)) :
    let s := brun c (binit α) acts
    s.ins = s.outs ++ keys s.queue ++ keys s.putters ∧ s.outs <+: s.ins ∧ (s.outs.map Prod.fst).Nodup := by
  intro s
  have h : BInv c s := binv_brun c acts _ (binv_init c)
  have h1 : s.ins = s.outs ++ keys s.queue ++ keys s.putters := by rw [h.hist, h.outs]
  refine ⟨h1, ⟨keys s.queue ++ keys s.putters, by rw [h1]; simp⟩, ?_⟩
  have hn : (s.ins.map Prod.fst).Nodup := by rw [h.idx]; exact List.nodup_range
  rw [h1] at hn
  simp only [List.map_append] at hn
  exact (List.nodup_append.mp (List.nodup_append.mp hn).1).1

/-- C02 (buffer): when the node is quiescent (`cb` waits for input) everything that arrived has been handed on,
and every emission has been completed. -/
theorem c02_buffer_complete (c : BCfg) (acts : List (BAct α)) :
    let s := brun c (binit α) acts
    s.cb = .idle → s.outs = s.ins ∧ keys s.fin = s.ins := by
  intro s hidle
  have h : BInv c s := binv_brun c acts _ (binv_init c)
  obtain ⟨hq, hp⟩ := h.idle hidle
  have := h.hist
  have ho := h.outs
  simp [hidle, Cb.items, hq, hp] at this ho
  exact ⟨by rw [ho, this], this.symm⟩

/-- C03 (buffer): the queue never holds more than `n` elements, and the number of elements accepted
(`update` awaitable completed; exactly the arrivals that are not blocked putters) minus the number handed on
never exceeds `n`. -/
theorem c03_buffer_bound (c : BCfg) (hn : 1 ≤ c.n) (acts : List (BAct α)) :
    let s := brun c (binit α) acts
    s.queue.length ≤ c.n ∧ s.accepted.length ≤ s.outs.length + c.n ∧
      s.accepted.length + s.putters.length = s.ins.length := by
  intro s
  have h : BInv c s := binv_brun c acts _ (binv_init c)
  have hb := h.bound (by omega)
  refine ⟨hb, ?_, ?_⟩
  · rw [h.acc, h.outs]; simp; omega
  · rw [h.acc, h.hist]; simp; omega

/-- C03 (buffer), no lost wake-up, safety half: a producer is blocked only when the queue really is full and
`cb` is busy with an unfinished emission — progress then depends on the consumer alone. -/
theorem c03_buffer_no_lost_wakeup (c : BCfg) (acts : List (BAct α)) :
    let s := brun c (binit α) acts
    s.putters ≠ [] → c.n ≠ 0 ∧ s.queue.length = c.n ∧ ∃ it, s.cb = .emitting it := by
  intro s hp
  have h : BInv c s := binv_brun c acts _ (binv_init c)
  have hf := (full_iff c s.queue).mp (h.blocked hp)
  have hb := h.bound hf.1
  refine ⟨hf.1, by omega, ?_⟩
  cases hcb : s.cb with
  | idle => exact absurd (h.idle hcb).2 hp
  | emitting it => exact ⟨it, rfl⟩

/-- C03 (buffer), liveness half: from every reachable state, finitely many consumer completions (and nothing
else) complete every pending `put`, drain the queue and hand on everything that arrived. -/
theorem c03_buffer_drains (c : BCfg) (hc : c.downAsync = true) (acts : List (BAct α)) :
    let s := brun c (binit α) acts
    ∃ k, let s' := brun c s (List.replicate k BAct.downDone)
      s'.cb = .idle ∧ s'.putters = [] ∧ s'.queue = [] ∧ s'.outs = s.ins ∧ s'.accepted = s.ins.map Prod.fst := by
  intro s
  have h : BInv c s := binv_brun c acts _ (binv_init c)
  obtain ⟨k, hk⟩ := bdrain c hc (bmeasure s) s (Nat.le_refl _) h
  refine ⟨k, ?_⟩
  intro s'
  have h' : BInv c s' := binv_brun c _ _ h
  have hk : s'.cb = .idle := hk
  obtain ⟨hq, hp⟩ := h'.idle hk
  have hins : s'.ins = s.ins := brun_replicate_ins c k s
  have hh := h'.hist
  have ho := h'.outs
  have ha := h'.acc
  simp [hk, Cb.items, hq, hp] at hh ho ha
  refine ⟨hk, hp, hq, by rw [ho, ← hins, hh], ?_⟩
  rw [ha, ← hins, hh, ids_eq_keys]

/-- C03 (buffer): with a synchronous consumer nothing ever waits — every settled state is empty and every
`update` awaitable has completed. -/
theorem c03_buffer_sync_transparent (c : BCfg) (hc : c.downAsync = false) (acts : List (BAct α)) :
    let s := brun c (binit α) acts
    s.cb = .idle ∧ s.queue = [] ∧ s.putters = [] ∧ s.outs = s.ins := by
  intro s
  have h : BInv c s := binv_brun c acts _ (binv_init c)
  have hidle : s.cb = .idle := bsync_run c hc acts _ (binv_init c) rfl
  obtain ⟨hq, hp⟩ := h.idle hidle
  have hh := h.hist
  have ho := h.outs
  simp [hidle, Cb.items, hq, hp] at hh ho
  exact ⟨hidle, hq, hp, by rw [ho, hh]⟩

/-- C04 (buffer): every element that is queued, blocked in a `put`, or being handled downstream has a reference
count of at least one, its completion callback has not been scheduled (`fires = 0`) and no `fire` event for it
is in the log: the release happens only after the consumer's completion. -/
theorem c04_buffer_holds (c : BCfg) (acts : List (BAct α)) :
    let s := brun c (binit α) acts
    ∀ it ∈ s.queue ++ s.putters ++ s.cb.items, 1 ≤ it.cnt ∧ it.fires = 0 ∧ Ev.fire it.id ∉ s.log := by
  intro s it hit
  have h : BInv c s := binv_brun c acts _ (binv_init c)
  have hcnt : 1 ≤ it.cnt ∧ it.fires = 0 := by
    rcases List.mem_append.mp hit with hit' | hit'
    · have := h.held it hit'; omega
    · have := h.emitting it hit'
      refine ⟨?_, this.2⟩
      rw [this.1]; split <;> omega
  refine ⟨hcnt.1, hcnt.2, ?_⟩
  intro hfire
  have hmem : it.id ∈ s.log.filterMap fireId := List.mem_filterMap.mpr ⟨_, hfire, rfl⟩
  rw [h.fired] at hmem
  have hnd := binv_ids_nodup c s h
  have hheld : it.id ∈ ids s.cb.items ++ ids s.queue ++ ids s.putters := by
    simp only [List.mem_append] at hit ⊢
    rcases hit with (hit | hit) | hit
    · exact Or.inl (Or.inr (List.mem_map.mpr ⟨it, hit, rfl⟩))
    · exact Or.inr (List.mem_map.mpr ⟨it, hit, rfl⟩)
    · exact Or.inl (Or.inl (List.mem_map.mpr ⟨it, hit, rfl⟩))
  simp only [List.append_assoc] at hnd hheld
  exact (List.nodup_append.mp hnd).2.2 _ hmem _ hheld rfl

/-- C05 (buffer): every element whose emission has completed has count 0 and its callback was scheduled exactly
once (`fire` events in the log = the finished elements, each once); when the node is quiescent that is every
element that ever arrived, in arrival order. -/
theorem c05_buffer_balance (c : BCfg) (acts : List (BAct α)) :
    let s := brun c (binit α) acts
    (∀ it ∈ s.fin, it.cnt = 0 ∧ it.fires = 1) ∧ s.log.filterMap fireId = ids s.fin ∧ (ids s.fin).Nodup ∧
      (s.cb = .idle → keys s.fin = s.ins ∧ s.log.filterMap fireId = s.ins.map Prod.fst) := by
  intro s
  have h : BInv c s := binv_brun c acts _ (binv_init c)
  have hnd := binv_ids_nodup c s h
  simp only [List.append_assoc] at hnd
  refine ⟨h.finished, h.fired, (List.nodup_append.mp hnd).1, ?_⟩
  intro hidle
  obtain ⟨hq, hp⟩ := h.idle hidle
  have hh := h.hist
  simp [hidle, Cb.items, hq, hp] at hh
  exact ⟨hh.symm, by rw [h.fired, hh, ids_eq_keys]⟩

/-- C05 (buffer): a finished element (count 0, callback fired) is never touched again — the count does not rise
after it has reached zero. -/
theorem c05_buffer_final_stable (c : BCfg) (acts more : List (BAct α)) :
    let s := brun c (binit α) acts
    s.fin <+: (brun c s more).fin := by
  intro s
  exact brun_fin_prefix c more s

/-! ### non-vacuity (buffer) -/

/-- buffer(1), awaitable consumer: four arrivals — one is being handled, one queued, two producers blocked;
after one completion the first blocked producer is admitted. -/
example : let s := brun ⟨1, true⟩ (binit Nat) [.arrive 10, .arrive 20, .arrive 30, .arrive 40]
    s.outs = [(0, 10)] ∧ ids s.queue = [1] ∧ ids s.putters = [2, 3] ∧ s.accepted = [0, 1] := by decide
example : let s := brun ⟨1, true⟩ (binit Nat) [.arrive 10, .arrive 20, .arrive 30, .arrive 40, .downDone]
    s.outs = [(0, 10), (1, 20)] ∧ ids s.queue = [2] ∧ ids s.putters = [3] ∧ s.accepted = [0, 1, 2] ∧
      s.log.filterMap fireId = [0] := by decide
/-- ... and the quiescent state of `c02_buffer_complete` / `c05_buffer_balance` is reached. -/
example : let s := brun ⟨1, true⟩ (binit Nat) [.arrive 10, .arrive 20, .arrive 30, .downDone, .downDone, .downDone]
    s.cb = .idle ∧ s.outs = s.ins ∧ s.log.filterMap fireId = [0, 1, 2] := by decide

/-! ## map_async(func, parallelism = p) -/

/-- C02 (map_async): results are delivered in ARRIVAL order, whatever the order in which the user coroutines
complete (`jobDone` actions are arbitrary): as long as no job raises, what has been handed downstream is a
prefix of `ins.map f`; nothing is handed on twice. -/
theorem c02_map_async_order (f : α → β) (c : MCfg) (acts : List (MAct α)) (hnf : ∀ a ∈ acts, a.isFail = false) :
    let s := mrun f c (minit α β) acts
    s.outs <+: s.ins.map (fun e => (e.1, f e.2)) ∧ (s.outs.map Prod.fst).Nodup := by
  intro s
  have h : MInv f c s := minv_mrun f c acts _ (minv_init f c)
  have hn : NoFail s := nofail_mrun f c acts _ hnf ⟨by simp [minit], by simp [minit]⟩
  have hok := okItems_of_all_ok s.fin hn.2
  have houts : s.outs = (keys (finItems s.fin) ++ keys s.worker.emittingItems).map (fun e => (e.1, f e.2)) := by
    rw [h.outs, hok, map_outOf_keys]; simp
  have hpre : s.outs <+: s.ins.map (fun e => (e.1, f e.2)) := by
    rw [houts, h.hist]
    cases hw : s.worker with
    | idle => simp
    | awaiting it => simp
    | emitting it => simp
  refine ⟨hpre, ?_⟩
  have hnd : ((s.ins.map (fun e => (e.1, f e.2))).map Prod.fst).Nodup := by
    simp only [List.map_map]
    have : (Prod.fst ∘ fun e : Nat × α => (e.1, f e.2)) = Prod.fst := rfl
    rw [this, h.idx]; exact List.nodup_range
  exact List.Nodup.sublist (List.Sublist.map _ hpre.sublist) hnd

/-- C02 (map_async): in a quiescent state (the worker waits for work) of a run without failing jobs every
arrival has been mapped and handed on: `outs = ins.map f`. -/
theorem c02_map_async_complete (f : α → β) (c : MCfg) (acts : List (MAct α)) (hnf : ∀ a ∈ acts, a.isFail = false) :
    let s := mrun f c (minit α β) acts
    s.worker = .idle → s.outs = s.ins.map (fun e => (e.1, f e.2)) := by
  intro s hw
  have h : MInv f c s := minv_mrun f c acts _ (minv_init f c)
  have hn : NoFail s := nofail_mrun f c acts _ hnf ⟨by simp [minit], by simp [minit]⟩
  have hset := settled_iff f c s (mrun_settled f c acts _ (minit_settled f c))
  have hq := hset.1 hw
  have hwt : s.waiting = [] := by
    cases hwt : s.waiting with
    | nil => rfl
    | cons w ws => have := hset.2 (by simp [hwt]); simp [hq, MCfg.full] at this
  rw [h.outs, h.hist, okItems_of_all_ok s.fin hn.2, map_outOf_keys]
  simp [hw, hq, hwt]

/-- C02 (map_async) with failing jobs: the ids handed downstream are a sublist of the arrival ids (arrival order,
each at most once), every value handed on is `f` of the element with that id, and in a quiescent state every
arrival was either handed on or lost to a logged exception. -/
theorem c02_map_async_order_with_failures (f : α → β) (c : MCfg) (acts : List (MAct α)) :
    let s := mrun f c (minit α β) acts
    (s.outs.map Prod.fst).Sublist (s.ins.map Prod.fst) ∧ (s.outs.map Prod.fst).Nodup ∧
      (∀ o ∈ s.outs, ∃ x, (o.1, x) ∈ s.ins ∧ o.2 = f x) ∧
      (s.worker = .idle → ∀ e ∈ s.ins, e.1 ∈ s.outs.map Prod.fst ∨ Ev.joblost e.1 ∈ s.log) := by
  intro s
  have h : MInv f c s := minv_mrun f c acts _ (minv_init f c)
  have hsubI : (okItems s.fin ++ s.worker.emittingItems).Sublist
      (finItems s.fin ++ s.worker.items ++ jitems s.queue ++ s.waiting) := by
    apply List.Sublist.trans _ (List.sublist_append_left _ _)
    apply List.Sublist.trans _ (List.sublist_append_left _ _)
    exact List.Sublist.append (okItems_sublist _) (emittingItems_sublist _)
  have houts : s.outs.map Prod.fst = ids (okItems s.fin ++ s.worker.emittingItems) := by
    rw [h.outs]; simp [ids, outOf, Function.comp_def]
  have hins : s.ins.map Prod.fst = ids (finItems s.fin ++ s.worker.items ++ jitems s.queue ++ s.waiting) := by
    rw [h.hist]; simp [ids_eq_keys]
  have hsub : (s.outs.map Prod.fst).Sublist (s.ins.map Prod.fst) := by
    rw [houts, hins]; exact List.Sublist.map _ hsubI
  refine ⟨hsub, ?_, ?_, ?_⟩
  · exact List.Nodup.sublist hsub (by rw [h.idx]; exact List.nodup_range)
  · intro o ho
    rw [h.outs] at ho
    obtain ⟨it, hit, rfl⟩ := List.mem_map.mp ho
    refine ⟨it.val, ?_, rfl⟩
    have : it.key ∈ keys (finItems s.fin ++ s.worker.items ++ jitems s.queue ++ s.waiting) :=
      List.mem_map.mpr ⟨it, hsubI.subset hit, rfl⟩
    rw [h.hist]; simpa [outOf, Item.key] using this
  · intro hw e he
    have hset := settled_iff f c s (mrun_settled f c acts _ (minit_settled f c))
    have hq := hset.1 hw
    have hwt : s.waiting = [] := by
      cases hwt : s.waiting with
      | nil => rfl
      | cons w ws => have := hset.2 (by simp [hwt]); simp [hq, MCfg.full] at this
    rw [h.hist] at he
    simp [hw, hq, hwt] at he
    obtain ⟨it, hit, rfl⟩ := List.mem_map.mp he
    obtain ⟨⟨it', b⟩, hmem, hfst⟩ := List.mem_map.mp hit
    simp at hfst
    subst hfst
    cases b with
    | true =>
      left
      rw [houts]
      simp only [ids_append, List.mem_append]
      left
      exact List.mem_map.mpr ⟨it', List.mem_map.mpr ⟨(it', true), List.mem_filter.mpr ⟨hmem, rfl⟩, rfl⟩, rfl⟩
    | false =>
      right
      have : it'.id ∈ s.log.filterMap lostId := by
        rw [h.losts]
        exact List.mem_map.mpr ⟨it', List.mem_map.mpr ⟨(it', false), List.mem_filter.mpr ⟨hmem, rfl⟩, rfl⟩, rfl⟩
      obtain ⟨ev, hev, hid⟩ := List.mem_filterMap.mp this
      cases ev <;> simp [lostId] at hid
      subst hid
      exact hev

/-- C03 (map_async): the work queue holds at most `p` started jobs, but the worker has REMOVED the job it awaits
from the queue, so up to `p + 1` jobs are started and not yet handed on (recorded finding); accordingly the
number of accepted emissions minus the number handed on (or lost to an exception) never exceeds `p + 1`. -/
theorem c03_map_async_bound (f : α → β) (c : MCfg) (hp : 1 ≤ c.p) (acts : List (MAct α)) :
    let s := mrun f c (minit α β) acts
    s.queue.length ≤ c.p ∧ s.queue.length + s.worker.awaitingItems.length ≤ c.p + 1 ∧
      s.accepted.length ≤ s.outs.length + (s.log.filterMap lostId).length + c.p + 1 := by
  intro s
  have h : MInv f c s := minv_mrun f c acts _ (minv_init f c)
  have hb := h.bound (by omega)
  have hlen := ok_lost_length s.fin
  refine ⟨hb, ?_, ?_⟩
  · cases s.worker <;> simp <;> omega
  · rw [h.acc, h.outs, h.losts]
    simp [finItems]
    cases s.worker <;> simp <;> omega

/-- C03 (map_async), the recorded finding as a theorem: the bound `parallelism` itself is FALSE.  With
`parallelism = 1` two emissions are accepted and both user coroutines run before anything is handed on. -/
theorem c03_map_async_inflight_exceeds_parallelism :
    let s := mrun (fun x : Nat => x) ⟨1, true⟩ (minit Nat Nat) [.arrive 10, .arrive 20]
    s.accepted = [0, 1] ∧ s.outs = [] ∧ s.queue.length + s.worker.awaitingItems.length = 2 ∧
      s.log.filterMap startOf = [(0, 10), (1, 20)] := by decide

/-- C03 (map_async), no deadlock: from every reachable state, finitely many job completions and consumer
completions (and nothing else) let every waiting insert job start and drain the node completely: every `update`
awaitable has completed and the worker is idle with an empty queue. -/
theorem c03_map_async_no_deadlock (f : α → β) (c : MCfg) (acts : List (MAct α)) :
    let s := mrun f c (minit α β) acts
    ∃ more : List (MAct α), (∀ a ∈ more, a.isCompletion = true) ∧
      let s' := mrun f c s more
      s'.worker = .idle ∧ s'.queue = [] ∧ s'.waiting = [] ∧ s'.ins = s.ins ∧ s'.accepted = s.ins.map Prod.fst := by
  intro s
  have hset : settleStep f c s = none := mrun_settled f c acts _ (minit_settled f c)
  obtain ⟨more, hmore, hz⟩ := mdrain f c (mmeasure s) s hset (Nat.le_refl _)
  refine ⟨more, hmore, ?_⟩
  intro s'
  have h' : MInv f c s' := minv_mrun f c more _ (minv_mrun f c acts _ (minv_init f c))
  obtain ⟨hwt, hq, hw⟩ := measure_zero s' hz
  have hins : s'.ins = s.ins := mrun_ins f c more s hmore
  refine ⟨hw, hq, hwt, hins, ?_⟩
  have hh := h'.hist
  have ha := h'.acc
  simp [hw, hq, hwt] at hh ha
  rw [ha, ← hins, hh, ids_eq_keys]

/-- C04 (map_async): from arrival until the consumer has finished with the result, the element's reference count
is at least one and its callback has not been scheduled — while it waits for a slot, while its job runs (queued
or awaited by the worker) and while its result is handled downstream. -/
theorem c04_map_async_holds (f : α → β) (c : MCfg) (acts : List (MAct α)) :
    let s := mrun f c (minit α β) acts
    ∀ it ∈ s.waiting ++ jitems s.queue ++ s.worker.items, 1 ≤ it.cnt ∧ it.fires = 0 ∧ Ev.fire it.id ∉ s.log := by
  intro s it hit
  have h : MInv f c s := minv_mrun f c acts _ (minv_init f c)
  have hcnt : 1 ≤ it.cnt ∧ it.fires = 0 := by
    have hem : ∀ it ∈ s.worker.emittingItems, 1 ≤ it.cnt ∧ it.fires = 0 := by
      intro it' h'
      have := h.emitting it' h'
      refine ⟨?_, this.2⟩
      rw [this.1]; split <;> omega
    have hheld : ∀ it ∈ s.waiting ++ jitems s.queue ++ s.worker.awaitingItems, 1 ≤ it.cnt ∧ it.fires = 0 := by
      intro it' h'
      have := h.held it' h'
      omega
    simp only [List.mem_append] at hit hheld
    rcases hit with (hit | hit) | hit
    · exact hheld it (Or.inl (Or.inl hit))
    · exact hheld it (Or.inl (Or.inr hit))
    · cases hw : s.worker with
      | idle => simp [hw] at hit
      | awaiting a => exact hheld it (Or.inr (by simpa [hw] using hit))
      | emitting a => exact hem it (by simpa [hw] using hit)
  refine ⟨hcnt.1, hcnt.2, ?_⟩
  intro hfire
  have hmem : it.id ∈ s.log.filterMap fireId := List.mem_filterMap.mpr ⟨_, hfire, rfl⟩
  rw [h.fired] at hmem
  have hmem' : it.id ∈ ids (finItems s.fin) := (List.Sublist.map Item.id (okItems_sublist s.fin)).subset hmem
  have hnd := minv_ids_nodup f c s h
  have hheld : it.id ∈ ids s.worker.items ++ ids (jitems s.queue) ++ ids s.waiting := by
    simp only [List.mem_append] at hit ⊢
    rcases hit with (hit | hit) | hit
    · exact Or.inr (List.mem_map.mpr ⟨it, hit, rfl⟩)
    · exact Or.inl (Or.inr (List.mem_map.mpr ⟨it, hit, rfl⟩))
    · exact Or.inl (Or.inl (List.mem_map.mpr ⟨it, hit, rfl⟩))
  simp only [List.append_assoc] at hnd hheld
  exact (List.nodup_append.mp hnd).2.2 _ hmem' _ hheld rfl

/-- C04 (map_async): an element whose job raised is never released: its count stays at one, its callback is
never scheduled — in every reachable state, hence for ever, a `joblost` element has no `fire` event. -/
theorem c04_map_async_failed_never_fires (f : α → β) (c : MCfg) (acts : List (MAct α)) :
    let s := mrun f c (minit α β) acts
    (∀ it ∈ lostItems s.fin, it.cnt = 1 ∧ it.fires = 0) ∧ (∀ i, Ev.joblost i ∈ s.log → Ev.fire i ∉ s.log) := by
  intro s
  have h : MInv f c s := minv_mrun f c acts _ (minv_init f c)
  refine ⟨h.lost, ?_⟩
  intro i hl hf
  have h1 : i ∈ s.log.filterMap lostId := List.mem_filterMap.mpr ⟨_, hl, rfl⟩
  have h2 : i ∈ s.log.filterMap fireId := List.mem_filterMap.mpr ⟨_, hf, rfl⟩
  rw [h.losts] at h1
  rw [h.fired] at h2
  have hnd := minv_ids_nodup f c s h
  simp only [List.append_assoc] at hnd
  exact ok_lost_disjoint s.fin (List.nodup_append.mp hnd).1 i h2 h1

/-- C05 (map_async): every element whose result was handed on and awaited has count 0 and its callback was
scheduled exactly once (`fire` events = those elements, each once, in arrival order); in a quiescent state of a
run without failures that is every element that ever arrived. -/
theorem c05_map_async_balance (f : α → β) (c : MCfg) (acts : List (MAct α)) :
    let s := mrun f c (minit α β) acts
    (∀ it ∈ okItems s.fin, it.cnt = 0 ∧ it.fires = 1) ∧ s.log.filterMap fireId = ids (okItems s.fin) ∧
      (ids (okItems s.fin)).Nodup ∧
      (s.worker = .idle → keys (finItems s.fin) = s.ins ∧
        ((∀ a ∈ acts, a.isFail = false) → s.log.filterMap fireId = s.ins.map Prod.fst)) := by
  intro s
  have h : MInv f c s := minv_mrun f c acts _ (minv_init f c)
  have hnd := minv_ids_nodup f c s h
  simp only [List.append_assoc] at hnd
  refine ⟨h.finished, h.fired, ?_, ?_⟩
  · exact List.Nodup.sublist (List.Sublist.map Item.id (okItems_sublist s.fin)) (List.nodup_append.mp hnd).1
  · intro hw
    have hset := settled_iff f c s (mrun_settled f c acts _ (minit_settled f c))
    have hq := hset.1 hw
    have hwt : s.waiting = [] := by
      cases hwt : s.waiting with
      | nil => rfl
      | cons w ws => have := hset.2 (by simp [hwt]); simp [hq, MCfg.full] at this
    have hh := h.hist
    simp [hw, hq, hwt] at hh
    refine ⟨hh.symm, ?_⟩
    intro hnf
    have hn : NoFail s := nofail_mrun f c acts _ hnf ⟨by simp [minit], by simp [minit]⟩
    rw [h.fired, okItems_of_all_ok s.fin hn.2, hh, ids_eq_keys]

/-! ### the original slot wait (before the repair `fix: map_async admits waiting jobs in arrival order`) -/

/-- With every admission choice FIFO the original model is the repaired one. -/
theorem c02_map_async_original_fifo_case (f : α → β) (c : MCfg) (acts : List (MAct α)) (s : MSt α β) :
    mrunU f c s (acts.map (fun a => (a, []))) = mrun f c s acts := by
  have hstep : ∀ s : MSt α β, settleStepU f c 0 s = settleStep f c s := by
    intro s
    unfold settleStepU settleStep
    split
    · rfl
    · cases s.waiting <;> simp
  have hsettle : ∀ k (s : MSt α β), settleU f c k [] s = settle f c k s := by
    intro k
    induction k with
    | zero => intro s; rfl
    | succ k ih =>
      intro s
      simp only [settleU, settle, List.headD_nil, hstep]
      cases settleStep f c s with
      | none => rfl
      | some s' => simp [ih]
  induction acts generalizing s with
  | nil => rfl
  | cons a t ih =>
    simp only [List.map_cons, mrunU, mrun, List.foldl_cons]
    have : mstepU f c s (a, []) = mstep f c s a := by simp [mstepU, mstep, hsettle]
    rw [this]
    exact ih _

/-- C02 (map_async), the defect of the ORIGINAL slot wait as a theorem: parallelism 1, four emissions, the job of
the first completes in the same loop callback in which the fourth emission is made, so that the fourth insert job
polls right after the worker freed the slot (`pick = 1`): element 3 overtakes element 2 and the consumer receives
`0, 1, 3, 2`.  (Real code before the repair: delivered `[1, 2, 4, 3]` for emissions `1, 2, 3, 4`.) -/
theorem c02_map_async_unfair_slot_wait_reorders :
    let s := mrunU (fun x : Nat => x) ⟨1, false⟩ (minit Nat Nat)
      [(.arrive 10, []), (.arrive 20, []), (.arrive 30, []), (.arrive 40, []), (.jobDone 0, [1]),
       (.jobDone 1, []), (.jobDone 3, []), (.jobDone 2, [])]
    s.outs = [(0, 10), (1, 20), (3, 40), (2, 30)] ∧ ¬ (s.outs <+: s.ins.map (fun e => (e.1, e.2))) := by
  decide

/-! ### non-vacuity (map_async) -/

/-- parallelism 1, awaitable consumer: jobs complete OUT of order (1 before 0), delivery is in arrival order. -/
example : let s := mrun (fun x : Nat => x + 1) ⟨1, true⟩ (minit Nat Nat) [.arrive 10, .arrive 20, .arrive 30, .jobDone 1, .jobDone 0, .downDone]
    s.outs = [(0, 11), (1, 21)] ∧ s.accepted = [0, 1, 2] ∧ s.log.filterMap fireId = [0] := by decide
/-- a failing job: nothing emitted for it, no release, the following element is still delivered. -/
example : let s := mrun (fun x : Nat => x + 1) ⟨2, false⟩ (minit Nat Nat) [.arrive 10, .arrive 20, .jobFail 0, .jobDone 1]
    s.outs = [(1, 21)] ∧ s.worker = .idle ∧ s.log.filterMap fireId = [1] ∧ s.log.filterMap lostId = [0] ∧
      (lostItems s.fin).map (fun it => it.cnt) = [1] := by decide
/-- the quiescent state of `c02_map_async_complete` is reached. -/
example : let s := mrun (fun x : Nat => x + 1) ⟨1, true⟩ (minit Nat Nat) [.arrive 10, .arrive 20, .arrive 30, .jobDone 1, .jobDone 0, .downDone, .downDone, .jobDone 2, .downDone]
    s.worker = .idle ∧ s.outs = [(0, 11), (1, 21), (2, 31)] := by decide

end StreamzVerif.AsyncBuffer
