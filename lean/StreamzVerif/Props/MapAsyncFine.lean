import StreamzVerif.Proofs.MapAsyncFine
import StreamzVerif.Proofs.MapAsyncFineSim
/-!
# Property theorems for the FINE-GRAINED model of `map_async`'s insert path (Model/MapAsyncFine.lean)

One transition = one handle of the asyncio event loop (`tick`: the handle at the FRONT of the explicit ready queue) or
one external action (`arrive x`: an un-awaited `emit`; `jobDone j`: the environment resolves the future user job `j`
awaits; `downDone`: the consumer completes its awaitable; `start` / `stop`: `map_async.start()` / `.stop()`), so every
theorem holds for arrivals, completions and start/stop/restart placed ANYWHERE between two handles, any number of
outstanding un-awaited emissions, job completions in any order, every `parallelism`.  Every theorem quantifies over every action sequence the transition system accepts from the initial
state (`run ⟨p, .locked⟩ (init α) acts = some s`).  There is NO scheduling hypothesis: the ready queue, `asyncio.Lock`
and `asyncio.Queue` are part of the state (what is assumed about asyncio is exactly the equations of the model,
tied to CPython 3.12 by harness/corr_mapasyncfine.py, which compares the whole ready queue after every handle).

This discharges the assumption of the settled model (Model/AsyncBuffer.lean, "map_async"): *insert jobs waiting for a
work slot are admitted in arrival order*.  `c02_` order / refinement of the `waiting` list / refutation of the two
lock-less variants; a single consumer across every stop/start history (repairs 63350ae, 6edff40) and refutation of the
two pre-repair worker life cycles; `c03_` bound `parallelism + 1` and no lost wake-up.
-/
namespace StreamzVerif.MapAsyncFine
open StreamzVerif.AsyncBuffer

variable {α β : Type}

/-- C02 (fine), insert order: after ANY action sequence (start / stop included), for any parallelism (0 = unbounded
included), the order in
which `func` was called / elements entered the work queue (`started`) is the arrival order without gaps
(`0, 1, .., k-1`; ids are arrival indices: `ins.map fst = range`), and everything that has arrived and not started is
still waiting, in arrival order: the lock holder, then the lock's waiter queue, then the insert jobs whose first step
has not run (`waitingIds`). -/
theorem c02_map_async_insert_order (p : Nat) (acts : List (FAct α)) (s : FSt α)
    (hr : run (locked p) (init α) acts = some s) :
    s.started = List.range s.started.length ∧
      s.started ++ waitingIds s = List.range s.ins.length ∧
      s.ins.map Prod.fst = List.range s.ins.length := by
  have h : Inv (locked p) s := inv_run _ rfl rfl acts _ s (inv_init _) hr
  have ho : s.started ++ waitingIds s = List.range s.ins.length := inv_order' _ s h.l
  exact ⟨prefix_range _ _ _ ho, ho, h.l.idx⟩

/-- C02 (fine), emission order, across every stop/start history: tasks are taken off the queue and their results handed
downstream in the order they were started — `started = outs ++ (job taken out of the queue and not emitted yet) ++ work
queue` — hence emissions are in arrival order without gaps, at every intermediate point.  Elements that arrive while
there is no worker (or while the only worker still waits for its predecessor) wait in the work queue or as insert jobs
(`c02_map_async_insert_order`) and are processed in order once a worker runs. -/
theorem c02_map_async_emission_order (p : Nat) (acts : List (FAct α)) (s : FSt α)
    (hr : run (locked p) (init α) acts = some s) :
    s.started = s.outs ++ apre s ++ s.queue ∧ s.outs <+: s.started ∧ s.outs = List.range s.outs.length := by
  have h : Inv (locked p) s := inv_run _ rfl rfl acts _ s (inv_init _) hr
  have hs := (c02_map_async_insert_order p acts s hr).1
  have hf : s.started = s.outs ++ apre s ++ s.queue := h.fifo
  refine ⟨hf, ⟨apre s ++ s.queue, by rw [hf]; simp⟩, ?_⟩
  rw [hs] at hf
  exact prefix_range _ (apre s ++ s.queue) _ (by rw [hf]; simp)

/-- C02 (fine), a single consumer (repairs 63350ae and 6edff40): after ANY action sequence — `start()` reaching the
running node any number of times, `stop(); start()` with data in flight, `stop()` followed by the `update` that creates
the next worker, at any handle boundary — the workers ever created form a chain: every worker that is past its
predecessor wait (active: in `get()`, awaiting a task, or emitting; or finished) has only FINISHED workers before it.
Hence at most one worker is able to take tasks off the queue or holds one; all later workers are still in their first
step or in `asyncio.wait([previous])`. -/
theorem c02_map_async_single_consumer (p : Nat) (acts : List (FAct α)) (s : FSt α)
    (hr : run (locked p) (init α) acts = some s) :
    (∀ w v, (stOf s w).isActive = true → (stOf s v).isActive = true → w = v) ∧
    (∀ w, w < s.workers.length → (stOf s w).isPre = false → ∀ v, v < w → stOf s v = .finished) ∧
    (∀ w, (stOf s w).isActive = true → ∀ v, w < v → v < s.workers.length → (stOf s v).isPre = true) := by
  have h : Inv (locked p) s := inv_run _ rfl rfl acts _ s (inv_init _) hr
  refine ⟨fun w v hw hv => active_unique s h.w w v hw hv, h.w.chain, ?_⟩
  intro w hw v hwv hv
  cases hp : (stOf s v).isPre with
  | true => rfl
  | false =>
    have := h.w.chain v hv hp w hwv
    rw [stOf_def, this] at hw
    simp [W.isActive] at hw

/-- C02 (fine), nothing lost, nothing twice, across every stop/start history: every element that has arrived is in
EXACTLY one place — already emitted, taken out of the queue by the one active worker, in the work queue, or waiting
to be inserted — and these places, in this order, list the arrivals in arrival order (the concatenation is
`0, 1, .., n-1`, which has no duplicates). -/
theorem c02_map_async_lossless (p : Nat) (acts : List (FAct α)) (s : FSt α)
    (hr : run (locked p) (init α) acts = some s) :
    s.outs ++ apre s ++ s.queue ++ waitingIds s = List.range s.ins.length ∧
      (s.outs ++ apre s ++ s.queue ++ waitingIds s).Nodup := by
  have h1 := (c02_map_async_emission_order p acts s hr).1
  have h2 := (c02_map_async_insert_order p acts s hr).2.1
  have : s.outs ++ apre s ++ s.queue ++ waitingIds s = List.range s.ins.length := by rw [← h1]; exact h2
  exact ⟨this, by rw [this]; exact List.nodup_range⟩

/-- C02 (fine), refinement of the settled model's `waiting` list (Model/AsyncBuffer.lean `MSt.waiting`, `arriveM`,
the admission branch of `settleStep`): along every run the abstraction `waitingIds` (lock holder ++ lock waiters ++
insert jobs not yet run) behaves exactly like that FIFO list —
* an arrival (`ins` grows) appends its id at the END and starts nothing;
* a job is started (`func` called, task put into the work queue) only from the HEAD of the list, and only when the
  work queue is not full — the settled model's admission;
* every other transition (lock hand-over, polls, a worker taking a task, job and consumer completions, notifications,
  `start()`, `stop()`, a worker finishing or waiting for its predecessor) leaves the list and `started` unchanged; the work queue is unchanged or loses its head to the worker. -/
theorem c02_map_async_waiting_refines (p : Nat) (acts : List (FAct α)) (s s' : FSt α) (a : FAct α)
    (hr : run (locked p) (init α) acts = some s) (hs : step (locked p) s a = some s') :
    (∃ x, s'.ins = s.ins ++ [(s.ins.length, x)] ∧ waitingIds s' = waitingIds s ++ [s.ins.length] ∧
      s'.started = s.started ∧ s'.queue = s.queue) ∨
    (waitingIds s' = waitingIds s ∧ s'.started = s.started ∧ (s'.queue = s.queue ∨ ∃ j, s.queue = j :: s'.queue)) ∨
    (∃ j, waitingIds s = j :: waitingIds s' ∧ s'.started = s.started ++ [j] ∧ s'.queue = s.queue ++ [j] ∧
      full p s.queue = false) := by
  have hi : Inv (locked p) s := inv_run _ rfl rfl acts _ s (inv_init _) hr
  obtain ⟨hl', _, heff⟩ := step_facts (locked p) rfl rfl s s' a hi.l hi.w hs
  have gn : ∀ q o, GN q o s' → (s'.queue = q ∨ ∃ j, q = j :: s'.queue) := by
    intro q o g
    rcases g with ⟨g1, _, _⟩ | ⟨j, rest, g1, g2, _⟩
    · exact Or.inl g1
    · exact Or.inr ⟨j, by rw [g1, g2]⟩
  cases heff with
  | arrive x h1 h2 h3 h4 h5 =>
    left; exact ⟨x, h1, waiting_arrive _ s s' x hi.l hl' h5 h1, h5, h2⟩
  | silent h1 h2 h3 h4 h5 => right; left; exact ⟨waiting_same _ s s' hi.l hl' h5 h1, h5, Or.inl h2⟩
  | admission j h1 h2 h3 h4 h5 h6 =>
    right; right; exact ⟨j, waiting_admission _ s s' j hi.l hl' h5 h1, h5, h2, h6⟩
  | get h1 h2 h3 h4 => right; left; exact ⟨waiting_same _ s s' hi.l hl' h2 h1, h2, gn _ _ h4⟩
  | emit j h1 h2 h3 h4 h5 h6 => right; left; exact ⟨waiting_same _ s s' hi.l hl' h2 h1, h2, Or.inl h4⟩
  | release j h1 h2 h3 h4 => right; left; exact ⟨waiting_same _ s s' hi.l hl' h2 h1, h2, gn _ _ h4⟩

/-- C02 (fine): the abstraction in closed form — the waiting list is exactly the arrivals that have not started. -/
theorem c02_map_async_waiting_closed_form (p : Nat) (acts : List (FAct α)) (s : FSt α)
    (hr : run (locked p) (init α) acts = some s) :
    waitingIds s = (List.range s.ins.length).drop s.started.length := by
  have ho := (c02_map_async_insert_order p acts s hr).2.1
  rw [← ho]; simp

/-- C02 (fine), simulation by the settled model: every state the fine system can reach (any interleaving of arrivals,
loop handles, job and consumer completions) has a counterpart `m` of the settled model (Model/AsyncBuffer.lean,
consumer with an awaitable) that is reachable by the settled model's PRIMITIVE moves alone (`Reach`: the external actions
`arriveM` / `jobDoneM` / `downDoneM`, and the two branches of `settleStep` — admission of the FIRST job of `waiting`
into a work queue that is not full, the idle worker taking the head of the queue) and that agrees with it on (`Rel`)
* `waiting` (ids) = lock holder ++ lock waiters ++ insert jobs not yet run — the abstraction of the insert path,
* the work queue (ids), the worker (idle / awaits job j / emits job j), arrivals, emissions (ids),
* `accepted` = the order in which `func` was called;
and `m` satisfies the settled model's invariant `MInv` (FIFO history, bound, reference counts, event log).  So the
fine system never starts a job the settled model could not start: the FIFO assumption is a consequence of asyncio's
ready queue and `asyncio.Lock`.  (A job's completion is applied to `m` when the worker consumes the result.) -/
theorem c02_map_async_fine_simulated_by_settled (f : α → β) (p : Nat) (acts : List (FAct α)) (s : FSt α)
    (hr : run (locked p) (init α) acts = some s) :
    ∃ m : MSt α β, Reach f ⟨p, true⟩ m ∧ Rel s m ∧ MInv f ⟨p, true⟩ m := by
  obtain ⟨m, hm, hR⟩ := sim_run f p acts (init α) s (minit α β) (inv_init _) rel_init Reach.init hr
  exact ⟨m, hm, hR, reach_minv f _ m hm⟩

/-- C02: `Reach` is the settled model with the priority of `settleStep` dropped — every internal move of `settleStep` is
one of `Reach`'s two internal moves, and every state of the settled model proper (`mrun`) is `Reach`able. -/
theorem c02_map_async_settled_runs_are_reach (f : α → β) (c : MCfg) (acts : List (MAct α)) :
    Reach f c (mrun f c (minit α β) acts) ∧
    ∀ m m' : MSt α β, settleStep f c m = some m' →
      (∃ j rest, m.worker = .idle ∧ m.queue = j :: rest ∧ m' = takeHead f c m j rest) ∨
      (∃ w ws, m.waiting = w :: ws ∧ c.full m.queue = false ∧ m' = admitJob m w ws) :=
  ⟨reach_mrun f c acts _ Reach.init, fun m m' h => settleStep_is_take_or_admit f c m m' h⟩

/-- C03 (fine), the recorded finding `parallelism + 1`, at EVERY intermediate point: the work queue never holds more
than `p` tasks, the one active worker holds at most one more (taken out of the queue — slot freed — before it is awaited),
so at most `p + 1` started jobs have not been emitted — also across stop/start (a second worker never adds to it). -/
theorem c03_map_async_bound_fine (p : Nat) (hp : 1 ≤ p) (acts : List (FAct α)) (s : FSt α)
    (hr : run (locked p) (init α) acts = some s) :
    s.queue.length ≤ p ∧ (apre s).length ≤ 1 ∧ s.started.length ≤ s.outs.length + p + 1 := by
  have h : Inv (locked p) s := inv_run _ rfl rfl acts _ s (inv_init _) hr
  have hb : s.queue.length ≤ p := h.l.bound (by show p ≠ 0; omega)
  have hw : (apre s).length ≤ 1 := by unfold apre; split <;> simp
  have hf : s.started = s.outs ++ apre s ++ s.queue := h.fifo
  have hl := congrArg List.length hf
  simp at hl
  exact ⟨hb, hw, by omega⟩

/-- C03 (fine): the bound `p + 1` is attained — parallelism 1, two un-awaited arrivals: the worker has taken job 0
out of the queue and awaits it, job 1 found the slot free: two jobs in flight, nothing emitted. -/
theorem c03_map_async_bound_fine_tight :
    ∃ s, run (locked 1) (init Nat) [.arrive 10, .arrive 11, .tick, .tick, .tick, .tick, .tick, .tick, .tick] = some s ∧
      s.started = [0, 1] ∧ s.outs = [] ∧ stOf s 0 = .awaiting 0 ∧ s.queue = [1] := by
  refine ⟨_, rfl, ?_⟩
  decide

/-- C03 (fine), no lost wake-up on the insert path: (1) a free lock with waiters has resolved the future of the FIRST
waiter and that waiter's resumption is in the ready queue; nobody else is ever woken; (2) a held lock means the holder's
poll is in the ready queue (exactly once) — so as long as something waits, some insert handle is runnable. -/
theorem c03_map_async_no_lost_wakeup (p : Nat) (acts : List (FAct α)) (s : FSt α)
    (hr : run (locked p) (init α) acts = some s) :
    (s.holder = none → s.lockq ≠ [] → ∃ k rest, s.lockq = (k, true) :: rest ∧ wakes s.ready = [k] ∧
        ∀ e ∈ rest, e.2 = false) ∧
      (∀ j, s.holder = some j → polls s.ready = [j] ∧ wakes s.ready = [] ∧ ∀ e ∈ s.lockq, e.2 = false) := by
  have h : LInv (locked p) s := (inv_run _ rfl rfl acts _ s (inv_init _) hr).l
  refine ⟨?_, ?_⟩
  · intro hh hne
    obtain ⟨k, rest, hq⟩ := h.freeWoken hh hne
    have hrest : ∀ e ∈ rest, e.2 = false := fun e he => h.tailUnwoken e (by simp [hq, he])
    refine ⟨k, rest, hq, ?_, hrest⟩
    have := h.wk
    rw [hq] at this
    simpa [filter_unwoken _ hrest] using this
  · intro j hj
    have hu := h.heldUnwoken (by simp [hj])
    refine ⟨by simpa [hj] using h.pl, ?_, hu⟩
    have := h.wk
    simpa [filter_unwoken _ hu] using this

/-! ### the two lock-less variants are refuted on a concrete schedule

parallelism 1; elements 0, 1, 2 arrive un-awaited: 0 is taken by the worker, 1 fills the queue, 2 waits for the slot
(polling).  Job 0 completes, is emitted, the consumer completes; element 3 arrives in the turn in which the worker's
wake-up is queued BEHIND the poll of job 2: job 2 polls (still full), the worker takes job 1 out of the queue (slot
free), and the first step of insert job 3 runs before job 2 polls again. -/

def raceSchedule : List (FAct Nat) :=
  [.arrive 10, .arrive 11, .arrive 12, .tick, .tick, .tick, .tick, .tick, .tick, .tick, .tick, .tick, .tick, .tick,
   .jobDone 0, .tick, .tick, .tick, .tick, .downDone, .tick, .tick, .arrive 13, .tick, .tick, .tick]

/-- ... continued until the result of element 3 has been handed downstream -/
def raceScheduleEmit : List (FAct Nat) :=
  raceSchedule ++ [.jobDone 1, .tick, .tick, .tick, .tick, .tick, .tick, .downDone, .tick, .tick, .tick, .tick,
                   .jobDone 3, .tick, .tick, .tick, .tick, .tick]

/-- C02, NEGATION for the "lock-free fast path" (`if self.work_queue.full(): async with lock: wait` — a job that finds
a free slot inserts without the lock; seeded change C02/r1): element 3 is started while element 2, which arrived
earlier, still waits, and its result is emitted before element 2's. -/
theorem c02_map_async_fast_path_breaks_order :
    (∃ s, run { p := 1, variant := .fastPath } (init Nat) raceSchedule = some s ∧ s.started = [0, 1, 3] ∧ waitingIds s = [2]) ∧
    (∃ s, run { p := 1, variant := .fastPath } (init Nat) raceScheduleEmit = some s ∧ s.started = [0, 1, 3, 2] ∧ s.outs = [0, 1, 3]) := by
  refine ⟨⟨_, rfl, ?_⟩, ⟨_, rfl, ?_⟩⟩ <;> decide

/-- C02, NEGATION for the code before the repair (every waiting insert job polls `work_queue.full()` concurrently,
no lock): the same schedule starts element 3 before element 2 (both of them polling or about to). -/
theorem c02_map_async_polling_breaks_order :
    (∃ s, run { p := 1, variant := .polling } (init Nat) raceSchedule = some s ∧ s.started = [0, 1, 3] ∧ polls s.ready = [2]) ∧
    (∃ s, run { p := 1, variant := .polling } (init Nat) raceScheduleEmit = some s ∧ s.started = [0, 1, 3, 2] ∧ s.outs = [0, 1, 3]) := by
  refine ⟨⟨_, rfl, ?_⟩, ⟨_, rfl, ?_⟩⟩ <;> decide

/-- C02: on the SAME schedule the code as it is keeps the order: insert job 3 finds `_waiters` empty but the lock held
by job 2 and queues up on the lock; continued (job 2 gets the slot, then job 3), the emissions are 0, 1, 2. -/
theorem c02_map_async_locked_on_race_schedule :
    (∃ s, run (locked 1) (init Nat) raceSchedule = some s ∧ s.started = [0, 1] ∧ s.holder = some 2 ∧
      s.lockq = [(3, false)]) ∧
    (∃ s, run (locked 1) (init Nat) (raceSchedule ++ [.tick, .jobDone 1, .tick, .tick, .tick, .tick, .tick, .tick,
        .downDone, .tick, .tick, .tick, .tick, .jobDone 2, .tick, .tick, .tick, .tick, .tick]) = some s ∧
      s.started = [0, 1, 2, 3] ∧ s.outs = [0, 1, 2]) := by
  refine ⟨⟨_, rfl, ?_⟩, ⟨_, rfl, ?_⟩⟩ <;> decide

/-! ### the two pre-repair worker life cycles are refuted on concrete schedules

parallelism 1; elements 0 and 1 arrive un-awaited: the worker has taken job 0 out of the queue and awaits it, job 1 sits
in the queue.  Then `start()` reaches the running node (`startSchedule`), or the node is restarted, `stop(); start()`
(`restartSchedule`); element 2 arrives, job 1 completes BEFORE job 0, six handles run. -/

def lifePrefix : List (FAct Nat) :=
  [.arrive 10, .arrive 11, .tick, .tick, .tick, .tick, .tick, .tick, .tick, .tick, .tick]

def startSchedule : List (FAct Nat) :=
  lifePrefix ++ [.start, .arrive 12, .jobDone 1, .tick, .tick, .tick, .tick, .tick, .tick]

def restartSchedule : List (FAct Nat) :=
  lifePrefix ++ [.stop, .start, .arrive 12, .jobDone 1, .tick, .tick, .tick, .tick, .tick, .tick]

/-- C02, NEGATION for `start()` as it was before 63350ae (set the old event, always create a worker): the old worker
still awaits job 0 while the new one has taken job 1 — two consumers — and the result of element 1 is emitted first. -/
theorem c02_map_async_start_replaces_breaks_order :
    ∃ s, run { p := 1, life := .startReplaces } (init Nat) startSchedule = some s ∧
      stOf s 0 = .awaiting 0 ∧ stOf s 1 = .emitting 1 true ∧ s.outs = [1] := by
  refine ⟨_, rfl, ?_⟩; decide

/-- C02, NEGATION for a restarted worker that does not wait for its predecessor (the tree between the two repairs; the
same happens when `stop()` is followed by the `update` that creates the next worker): after `stop(); start()` the
stopped worker still awaits job 0, the new one takes job 1 and emits it first.  (`start()` on a running node is
harmless in that tree: `c02_map_async_current_keeps_order_on_life_schedules`, second part, holds for it too.) -/
theorem c02_map_async_no_predecessor_wait_breaks_order :
    (∃ s, run { p := 1, life := .noPredecessorWait } (init Nat) restartSchedule = some s ∧
      stOf s 0 = .awaiting 0 ∧ stOf s 1 = .emitting 1 true ∧ s.outs = [1]) ∧
    (∃ s, run { p := 1, life := .startReplaces } (init Nat) restartSchedule = some s ∧
      stOf s 0 = .awaiting 0 ∧ stOf s 1 = .emitting 1 true ∧ s.outs = [1]) := by
  refine ⟨⟨_, rfl, ?_⟩, ⟨_, rfl, ?_⟩⟩ <;> decide

/-- C02: on the SAME two schedules the code as it is keeps one consumer and the order: `start()` on the running node
does nothing; after `stop(); start()` the new worker waits for its predecessor (`waitPrev`), job 1 stays in the queue
although it has completed; continued (job 0 completes, the consumer completes) the emissions are 0, 1 — after the
restart by the NEW worker, once the stopped one has returned at the top of its loop. -/
theorem c02_map_async_current_keeps_order_on_life_schedules :
    (∃ s, run (locked 1) (init Nat) startSchedule = some s ∧ s.workers.length = 1 ∧ stOf s 0 = .awaiting 0 ∧
      s.queue = [1] ∧ s.outs = []) ∧
    (∃ s, run (locked 1) (init Nat) restartSchedule = some s ∧ stOf s 0 = .awaiting 0 ∧ stOf s 1 = .waitPrev false ∧
      s.queue = [1] ∧ s.outs = []) ∧
    (∃ s, run (locked 1) (init Nat) (startSchedule ++ [.jobDone 0, .tick, .tick, .tick, .tick, .downDone, .tick, .tick,
        .tick, .tick]) = some s ∧ s.outs = [0, 1]) ∧
    (∃ s, run (locked 1) (init Nat) (restartSchedule ++ [.jobDone 0, .tick, .tick, .tick, .tick, .downDone, .tick, .tick,
        .tick, .tick, .tick, .tick, .tick, .tick]) = some s ∧ s.outs = [0, 1] ∧ stOf s 0 = .finished ∧
        stOf s 1 = .emitting 1 true) := by
  refine ⟨⟨_, rfl, ?_⟩, ⟨_, rfl, ?_⟩, ⟨_, rfl, ?_⟩, ⟨_, rfl, ?_⟩⟩ <;> decide

/-! ### non-vacuity -/

/-- a reachable state of the chain of `c02_map_async_single_consumer`: a finished worker, an active one (stopped, still
awaiting its job), one that waits for it and one that has not run yet. -/
example : ∃ s, run (locked 1) (init Nat) [.arrive 10, .tick, .tick, .tick, .tick, .tick, .jobDone 0, .tick, .tick,
      .downDone, .tick, .stop, .tick, .arrive 11, .tick, .tick, .tick, .tick, .stop, .start, .tick, .tick, .stop,
      .start] = some s ∧
    s.workers.map (fun k => k.st) = [.finished, .awaiting 1, .waitPrev false, .starting] := ⟨_, rfl, by decide⟩

/-- a reachable state with the holder polling, two waiters on the lock and a fresh insert job: the waiting list is
`holder ++ lock waiters ++ fresh`. -/
example : ∃ s, run (locked 1) (init Nat) [.arrive 10, .arrive 11, .arrive 12, .arrive 13, .tick, .tick, .tick, .tick,
      .tick, .arrive 14] = some s ∧
    s.holder = some 1 ∧ s.lockq = [(2, false), (3, false)] ∧ fresh s.ready = [4] ∧ waitingIds s = [1, 2, 3, 4] ∧
    s.started = [0] := ⟨_, rfl, by decide⟩
/-- between a `release` and the woken waiter's resumption the lock is FREE with a non-empty waiter queue; a newcomer
whose first step runs in that window queues up behind the woken waiter (hypotheses of `c03_map_async_no_lost_wakeup`
(1) are satisfiable). -/
example : ∃ s, run (locked 1) (init Nat) [.arrive 10, .arrive 11, .arrive 12, .tick, .tick, .tick, .tick, .tick, .tick,
      .tick, .arrive 13, .tick, .tick, .tick] = some s ∧
    s.holder = none ∧ s.lockq = [(2, true), (3, false)] ∧ wakes s.ready = [2] ∧ s.started = [0, 1] :=
  ⟨_, rfl, by decide⟩
/-- the abstraction relation is inhabited beyond the initial state: the settled counterpart of the state "holder
polling, two waiters on the lock, one fresh insert job" has `waiting` ids `[1, 2, 3, 4]` and `accepted = [0]`. -/
example : ∀ s, run (locked 1) (init Nat) [.arrive 10, .arrive 11, .arrive 12, .arrive 13, .tick, .tick, .tick, .tick,
      .tick, .arrive 14] = some s →
    ∃ m : MSt Nat Nat, Reach id ⟨1, true⟩ m ∧ Rel s m ∧ m.waiting.map (fun it => it.id) = [1, 2, 3, 4] ∧
      m.accepted = [0] := by
  intro s hr
  obtain ⟨m, hm, hR, _⟩ := c02_map_async_fine_simulated_by_settled (id : Nat → Nat) 1 _ s hr
  have h0 : ∃ s0, run (locked 1) (init Nat) [.arrive 10, .arrive 11, .arrive 12, .arrive 13, .tick, .tick, .tick, .tick,
      .tick, .arrive 14] = some s0 ∧ waitingIds s0 = [1, 2, 3, 4] ∧ s0.started = [0] := ⟨_, rfl, by decide⟩
  obtain ⟨s0, h1, h2, h3⟩ := h0
  have hs : s = s0 := by rw [hr] at h1; exact Option.some.inj h1
  exact ⟨m, hm, hR, by rw [hR.waiting, hs, h2], by rw [hR.accepted, hs, h3]⟩
/-- an admission step as in the third alternative of `c02_map_async_waiting_refines`. -/
example : ∃ s s', run (locked 1) (init Nat) [.arrive 10, .arrive 11, .tick] = some s ∧
    step (locked 1) s .tick = some s' ∧ waitingIds s = [0, 1] ∧ waitingIds s' = [1] ∧ s'.started = [0] :=
  ⟨_, _, rfl, rfl, by decide⟩

end StreamzVerif.MapAsyncFine
