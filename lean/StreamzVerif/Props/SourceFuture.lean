import StreamzVerif.Model.SourceFuture
/-!
C18 for sources whose `run()` returns a Future: with the note left by `start()` (/repo 53d165d) no `start()` is ever lost -
whenever the source is started there is a live invocation, and the scheduler's next move for it begins a polling cycle or
keeps it polling; without the note a start() landing between the end of `run()` and the wake-up of `_run_once` is lost
(witness).  At most one invocation exists by construction (`loop : Option Phase`).
-/
namespace StreamzVerif.SourceFuture

/-- started ⇒ an invocation is live, and if it is only waiting to be woken the restart note is set;
the flag `_run_live` is set exactly while an invocation exists. -/
def Inv (s : St) : Prop :=
  (s.runLive = true ↔ s.loop ≠ none) ∧
  (s.stopped = false → s.loop ≠ none ∧ (s.loop = some .finishing → s.restart = true))

theorem inv_init : Inv init := by simp [Inv, init]

theorem inv_step (s : St) (a : Act) (h : Inv s) : Inv (step true s a) := by
  obtain ⟨stopped, runLive, restart, loop, cycles⟩ := s
  unfold Inv at h ⊢
  cases a <;> cases stopped <;> cases runLive <;> cases restart <;> cases loop <;>
    (try rename_i p; cases p) <;> simp_all [step]

/-- C18 (Future-returning `run()`), no lost start: in every reachable state of the repaired mechanism a started source
has a live invocation, and one that is merely waiting to be woken carries the restart note. -/
theorem c18_future_start_never_lost (acts : List Act) : Inv (run true init acts) := by
  unfold run
  have : ∀ s, Inv s → Inv (acts.foldl (step true) s) := by
    induction acts with
    | nil => intro s h; exact h
    | cons a as ih => intro s h; exact ih _ (inv_step s a h)
  exact this init inv_init

/-- ... and the scheduler's next move makes it poll: from a reachable started state the next move exists, begins a
polling cycle, and leaves the source started with a live invocation. -/
theorem c18_future_started_polls (acts : List Act) (hs : (run true init acts).stopped = false) :
    ∃ a, nextMove (run true init acts) = some a ∧
      (step true (run true init acts) a).cycles = (run true init acts).cycles + 1 ∧
      (step true (run true init acts) a).loop = some .inCycle := by
  have h := c18_future_start_never_lost acts
  generalize run true init acts = s at h hs
  obtain ⟨stopped, runLive, restart, loop, cycles⟩ := s
  unfold Inv at h
  cases loop with
  | none => simp_all
  | some p => cases p <;> simp_all [nextMove, step]

/-- stop is honoured: once stopped and left alone the invocation winds down in at most two scheduler moves and
`_run_live` is cleared. -/
theorem c18_future_stop_winds_down (acts : List Act) (hs : (run true init acts).stopped = true) :
    (run true (run true init acts) [.resume, .wake]).loop = none ∨
    (run true (run true init acts) [.wake]).loop = none ∨ (run true init acts).loop = none := by
  have h := c18_future_start_never_lost acts
  generalize run true init acts = s at h hs
  obtain ⟨stopped, runLive, restart, loop, cycles⟩ := s
  cases loop with
  | none => simp
  | some p => cases p <;> simp_all [run, step]

/-- The unrepaired `start()` (note = false): start, a cycle, stop, `run()` leaves its loop, start in the window, wake-up:
the source is started, `_run_live` is clear, nothing is scheduled - the start is lost for good. -/
theorem c18_future_lost_start_witness :
    run false init [.start, .resume, .stop, .resume, .start, .wake]
      = { stopped := false, runLive := false, restart := false, loop := none, cycles := 1 } := by decide

/-- ... the same history under the repaired mechanism ends in a polling cycle. -/
example : (run true init [.start, .resume, .stop, .resume, .start, .wake]).loop = some .inCycle ∧
    (run true init [.start, .resume, .stop, .resume, .start, .wake]).cycles = 2 := by decide

end StreamzVerif.SourceFuture
