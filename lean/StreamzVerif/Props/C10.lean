import StreamzVerif.Model.Graph
namespace StreamzVerif.Graph
theorem placeholder_C10 : True := trivial
end StreamzVerif.Graph
