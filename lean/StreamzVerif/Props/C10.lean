import StreamzVerif.Proofs.Metadata
import StreamzVerif.Props.C01
/-
C10 — metadata travels with exactly the data it describes.

  "The metadata delivered with each element is a flat list of dictionaries consisting of exactly the metadata
   entries of the input elements that contributed to that output: one-to-one nodes pass it unchanged, batching
   and combining nodes pass the concatenation for the members of the batch or tuple in member order, a
   one-to-many node attaches it to the last piece, and elements emitted without metadata contribute nothing."

Shape.  `Meta = List MEntry`: in the model every metadata value is a flat list of entries *by typing*, so the
"flat list of dictionaries" clause holds by construction here; that the *implementation* hands a flat `list` of
`dict` to every downstream is checked by the correspondence harness on every recorded element.

How the theorems fit together.  `Props/C01.lean` proves that in a DAG every node's emissions are exactly what its
node-local `upd` produces on its arrivals (`emits_are_local_outputs` / `run_is_localRun`) and that what arrives
along an edge is what the upstream emitted, metadata included (`edge_consistency`, `arrival_has_cause`).  C10
therefore reduces to per-kind statements about `upd` / `localRun` (sections 1-5, for ALL arrival lists and all
states satisfying the stated buffer invariants) plus graph-level corollaries (section 6), of which
`tags_come_from_input` holds for every graph (cyclic or not), every fuel and every session, failing runs
included.

`packMd ms = (tuple of the members' values, concatenation of the members' metadata in member order)`.
-/
namespace StreamzVerif.Graph

variable (G : NodeId → Kind)

/-! ### 1. One-to-one kinds pass metadata unchanged -/

/-- `source`, `union`, `map`, `starmap`, `filter`, `accumulate`, `slice`, `unique`, `pluck`: one `update` emits
nothing, or exactly one element that carries exactly the metadata of the arrival. -/
theorem oneToOne_passes_metadata {k : Kind} (hk : k.oneToOne = true) (s : NState) (who : NodeId) (x : Val)
    (md : Meta) :
    outsOf (upd k s who x md).effs = [] ∨ ∃ y, outsOf (upd k s who x md).effs = [(y, md)] :=
  upd_oneToOne hk s who x md

/-- Over any arrival list, from any state: the metadata sequence of the outputs is a sub-sequence of the
metadata sequence of the arrivals — unchanged, in order, none duplicated, none invented. -/
theorem oneToOne_run_metadata {k : Kind} (hk : k.oneToOne = true) (s : NState) (as : List Arr) :
    ((localRun k s as).2.map (·.2)).Sublist (as.map (·.2.2)) :=
  localRun_oneToOne_sublist hk s as

/-- `source` / `union` forward the element with its metadata. -/
theorem source_union_metadata (s : NState) (who : NodeId) (x : Val) (md : Meta) :
    outsOf (upd .source s who x md).effs = [(x, md)] ∧ outsOf (upd .union s who x md).effs = [(x, md)] :=
  ⟨rfl, rfl⟩

/-- `map`: the image carries the metadata of its pre-image (nothing is emitted when the function raises). -/
theorem map_metadata (f : Fn) (s : NState) (who : NodeId) (x : Val) (md : Meta) :
    outsOf (upd (.map f) s who x md).effs = match f.eval x with | .ok y => [(y, md)] | .error _ => [] :=
  map_outs f s who x md

theorem starmap_metadata (f : Fn) (s : NState) (who : NodeId) (l : List Val) (md : Meta) :
    outsOf (upd (.starmap f) s who (.tup l) md).effs =
      match f.eval (.tup l) with | .ok y => [(y, md)] | .error _ => [] :=
  starmap_outs f s who l md

/-- `filter`, when it emits: the element with its own metadata. -/
theorem filter_metadata (p : Fn) (s : NState) (who : NodeId) (x : Val) (md : Meta) :
    outsOf (upd (.filter p) s who x md).effs =
      match p.eval x with | .ok b => if b.truthy then [(x, md)] else [] | .error _ => [] :=
  filter_outs p s who x md

/-- `accumulate`, every combination of `start`, `returns_state`, `with_state`: unless the body raises, exactly
one element is emitted and it carries exactly the arrival's metadata. -/
theorem accumulate_metadata (f : Fn2) (start : Option Val) (rs ws : Bool) (s : NState) (who : NodeId) (x : Val)
    (md : Meta) :
    ((upd (.accumulate f start rs ws) s who x md).err ≠ none ∧
        outsOf (upd (.accumulate f start rs ws) s who x md).effs = []) ∨
    ((upd (.accumulate f start rs ws) s who x md).err = none ∧
        ∃ y, outsOf (upd (.accumulate f start rs ws) s who x md).effs = [(y, md)]) :=
  accumulate_outs f start rs ws s who x md

/-- `slice`, when the element is selected. -/
theorem slice_metadata (start : Nat) (stop : Option Nat) (step : Nat) (s : NState) (who : NodeId) (x : Val)
    (md : Meta) :
    outsOf (upd (.slice start stop step) s who x md).effs =
      if s.cnt ≥ start ∧ (s.cnt - start) % step = 0 then [(x, md)] else [] :=
  slice_outs start stop step s who x md

/-- `unique`, when the element is new. -/
theorem unique_metadata (maxsize : Option Nat) (key : Fn) (hashable : Bool) (s : NState) (who : NodeId) (x : Val)
    (md : Meta) :
    outsOf (upd (.unique maxsize key hashable) s who x md).effs =
      match key.eval x with
      | .ok y => if (hashable && !y.hashable) || s.seen.contains y then [] else [(x, md)]
      | .error _ => [] :=
  unique_outs maxsize key hashable s who x md

theorem pluck_metadata (s : NState) (who : NodeId) (x : Val) (md : Meta) :
    (∀ i, outsOf (upd (.pluck (.idx i)) s who x md).effs =
      match pluckOne x i with | .ok v => [(v, md)] | .error _ => []) ∧
    (∀ l, outsOf (upd (.pluck (.idxs l)) s who x md).effs =
      match l.mapM (pluckOne x) with | .ok vs => [(.tup vs, md)] | .error _ => []) :=
  ⟨fun i => pluck_idx_outs i s who x md, fun l => pluck_idxs_outs l s who x md⟩

/-! ### 2. `flatten` (one-to-many): the metadata goes to the last piece -/

/-- Piece number `i` of the iterable `l` carries the arrival's metadata if it is the last piece and no metadata
otherwise; there are exactly `l.length` pieces (so an empty iterable emits nothing at all). -/
theorem flatten_metadata (s : NState) (who : NodeId) (x : Val) (md : Meta) (l : List Val)
    (h : iterVal x = .ok l) :
    (outsOf (upd .flatten s who x md).effs).length = l.length ∧
    ∀ i (hi : i < l.length),
      (outsOf (upd .flatten s who x md).effs)[i]? = some (l[i], if i + 1 = l.length then md else []) := by
  refine ⟨?_, fun i hi => flatten_piece_get s who x md l h i hi⟩
  rw [flatten_outs, h]
  simp [lastOnly_length]

/-- Nothing lost, nothing duplicated: the concatenation of the pieces' metadata is the arrival's metadata. -/
theorem flatten_total_metadata (s : NState) (who : NodeId) (x : Val) (md : Meta) (l : List Val)
    (h : iterVal x = .ok l) (hne : l ≠ []) :
    ((outsOf (upd .flatten s who x md).effs).map (·.2)).flatten = md := by
  rw [flatten_outs, h]
  simp only []
  have : (l.zip (lastOnly l.length md)).map (·.2) = lastOnly l.length md :=
    List.map_snd_zip (by rw [lastOnly_length]; exact Nat.le_refl _)
  rw [this]
  exact lastOnly_flatten _ _ (by intro h0; exact hne (List.length_eq_zero_iff.1 h0))

/-! ### 3. Batching kinds: concatenation over the members, in member order -/

/-- `partition(n, key)`, over any arrival list and from any buffer content: every emitted batch is
`packMd ms` for a list `ms` of exactly `n` (value, metadata) members drawn — in arrival order, each at most
once — from the buffered elements followed by the arrivals.  The tuple and its metadata are built from the
*same* members in the same order; and the buffer (`items`, the state invariant) always holds a sub-sequence, in
arrival order, of what was buffered or arrived. -/
theorem partition_metadata (n : Nat) (key : Option Fn) (s : NState) (as : List Arr) :
    ((localRun (.partition n key) s as).1.items.map (·.2)).Sublist (s.items.map (·.2) ++ as.map (·.2)) ∧
    ∀ o ∈ (localRun (.partition n key) s as).2,
      ∃ ms, ms.Sublist (s.items.map (·.2) ++ as.map (·.2)) ∧ ms.length = n ∧ o = packMd ms :=
  (partition_bufStep n key).localRun s as

/-- One `partition.update`, exactly: the members of the emitted batch are the buffered elements with the
arrival's key, oldest first, then the arrival. -/
theorem partition_update (n : Nat) (key : Option Fn) (s : NState) (who : NodeId) (x : Val) (md : Meta) :
    stepLoc (.partition n key) s (who, x, md) =
      match partKeyOf key x with
      | .error _ => (s, [])
      | .ok ky =>
        if ky.hashable then
          if ((s.items ++ [(ky, x, md)]).filter (fun it => it.1 = ky)).length = n then
            ({ s with items := (s.items ++ [(ky, x, md)]).filter (fun it => it.1 ≠ ky) },
              [packMd (((s.items ++ [(ky, x, md)]).filter (fun it => it.1 = ky)).map (·.2))])
          else ({ s with items := s.items ++ [(ky, x, md)] }, [])
        else (s, []) :=
  partition_step n key s who x md

/-- `partition(n)` without a key: the outputs are exactly the consecutive chunks of `n` arrivals, each carrying
the concatenation of its members' metadata in arrival order. -/
theorem partition_nokey_chunks (n : Nat) (s : NState) (hs : ∀ it ∈ s.items, it.1 = Val.none) (as : List Arr) :
    (localRun (.partition n none) s as).2 = (chunksFrom n (s.items.map (·.2)) (as.map (·.2))).map packMd :=
  partition_nokey_outputs n s hs as

/-- `partition_unique(n, key, keep)`: every emitted batch is `packMd ms` for `n` members drawn in order from
the buffer and the arrivals.  An element that was dropped (`keep = "first"`, key already buffered) or replaced
(`keep = "last"`) is not a member of the tuple and contributes no metadata: tuple and metadata come from the same
member list. -/
theorem partitionUnique_metadata (n : Nat) (key : Fn) (keepLast : Bool) (s : NState) (as : List Arr) :
    ((localRun (.partitionUnique n key keepLast) s as).1.items.map (·.2)).Sublist
      (s.items.map (·.2) ++ as.map (·.2)) ∧
    ∀ o ∈ (localRun (.partitionUnique n key keepLast) s as).2,
      ∃ ms, ms.Sublist (s.items.map (·.2) ++ as.map (·.2)) ∧ ms.length = n ∧ o = packMd ms :=
  (partitionUnique_bufStep n key keepLast).localRun s as

/-- One `partition_unique.update`, exactly (`puBuffer`: the buffer after the arrival — same-key element
replaced and moved to the end with `keep = "last"`, arrival ignored with `keep = "first"`). -/
theorem partitionUnique_update (n : Nat) (key : Fn) (keepLast : Bool) (s : NState) (who : NodeId) (x : Val)
    (md : Meta) :
    stepLoc (.partitionUnique n key keepLast) s (who, x, md) =
      match key.eval x with
      | .error _ => (s, [])
      | .ok ky =>
        if ky.hashable then
          if (puBuffer keepLast s.items ky x md).length = n then
            ({ s with items := [] }, [packMd ((puBuffer keepLast s.items ky x md).map (·.2))])
          else ({ s with items := puBuffer keepLast s.items ky x md }, [])
        else (s, []) :=
  partitionUnique_step n key keepLast s who x md

/-- `collect` caches every arrival with its metadata and emits nothing; `flush()` then emits one batch of
everything cached (before and during the run) whose metadata is the concatenation of the members' metadata in
arrival order, and empties the cache. -/
theorem collect_flush_metadata (s : NState) (as : List Arr) :
    (localRun .collect s as).2 = [] ∧
    outsOf (flushProg (localRun .collect s as).1) = [packMd (s.items.map (·.2) ++ as.map (·.2))] ∧
    (finalLoc (flushProg (localRun .collect s as).1) (localRun .collect s as).1).items = [] := by
  refine ⟨by rw [collect_localRun], collect_flush s as, ?_⟩
  rw [(flush_outs _).2]

/-- `sliding_window(n, return_partial)`, over any arrival list in runs without downstream failures
(`localRun`).  State invariant `SWInv n s L`: the value deque `win` and the metadata deque `items` describe the
same member list `L`, the metadata deque holding the metadata of all members or lagging by the head that is
released after a full window was emitted.  Under it every emitted window is `packMd` of the last `n` elements of
the history: tuple metadata = concatenation of exactly the window members' metadata, oldest first; and the
invariant is re-established. -/
theorem slidingWindow_metadata (n : Nat) (part : Bool) (s : NState) (hist : List (Val × Meta))
    (h : SWInv n s (lastN n hist)) (as : List Arr) :
    SWInv n (localRun (.slidingWindow n part) s as).1 (lastN n (hist ++ as.map (·.2))) ∧
    (localRun (.slidingWindow n part) s as).2 = swSpec n part hist (as.map (·.2)) :=
  slidingWindow_localRun n part s hist h as

/-- ... in particular from a fresh node. -/
theorem slidingWindow_metadata_fresh (n : Nat) (part : Bool) (s : NState) (hw : s.win = []) (hi : s.items = [])
    (as : List Arr) :
    (localRun (.slidingWindow n part) s as).2 = swSpec n part [] (as.map (·.2)) :=
  (slidingWindow_localRun n part s [] (by simpa [lastN] using SWInv.init n s hw hi) as).2

/-- ... and after a downstream failure: if the emission of a window raises, `update` is abandoned after its first
state write (the `popleft` of the metadata deque is skipped); the state left behind still satisfies the invariant,
so by `slidingWindow_metadata` all later windows carry exactly their members' metadata as well. -/
theorem slidingWindow_metadata_after_failure (n : Nat) (part : Bool) (s : NState) (L : List (Val × Meta))
    (h : SWInv n s L) (who : NodeId) (x : Val) (md : Meta) :
    SWInv n (finalLoc ((upd (.slidingWindow n part) s who x md).effs.take 2) s) (lastN n (L ++ [(x, md)])) :=
  slidingWindow_interrupted n part s L h who x md

/-! ### 4. Combining kinds -/

/-- `zip(*upstreams, literals)`, over any arrival list.  Under the buffer invariant `ZipInv` (aligned FIFO
queues: upstream `u`'s buffer is its history `H u` minus the `e` rows already emitted) the outputs are, in order,
rows `e, e+1, …` of the histories: output number `j` is the tuple of the `j`-th element of every upstream (with
the literals spliced in) and its metadata is the concatenation, in upstream order, of those elements' metadata;
literals contribute nothing. -/
theorem zip_metadata (lits : List (Nat × Val)) (s : NState) (H : NodeId → List (Val × Meta)) (e : Nat)
    (h : ZipInv s H e) (as : List Arr) :
    ZipInv (localRun (.zip lits) s as).1 (fun u => H u ++ seqOf u as)
      (e + (localRun (.zip lits) s as).2.length) ∧
    (localRun (.zip lits) s as).2 =
      (List.range' e (localRun (.zip lits) s as).2.length).map
        (zipRowOf lits s.ups (fun u => H u ++ seqOf u as)) :=
  zip_localRun lits s H e h as

/-- ... in particular for a freshly built `zip` node: output `j` is row `j` of what arrived. -/
theorem zip_metadata_fresh (lits : List (Nat × Val)) (s : NState) (h : s.bufs = s.ups.map (fun u => (u, [])))
    (as : List Arr) :
    (localRun (.zip lits) s as).2 =
      (List.range (localRun (.zip lits) s as).2.length).map (zipRowOf lits s.ups (fun u => seqOf u as)) := by
  have := (zip_localRun lits s (fun _ => []) 0 (ZipInv.init s h) as).2
  simpa [List.range_eq_range'] using this

/-- `combine_latest`, over any arrival list: every output is emitted right after some arrival `a` and is
`packMd` of the table of the latest element per upstream at that moment: tuple metadata = concatenation of the
latest metadata per upstream, in upstream order. -/
theorem combineLatest_metadata (eo : Option (List NodeId)) (s : NState) (T : List (Val × Meta)) (h : CLInv s T)
    (as : List Arr) :
    CLInv (localRun (.combineLatest eo) s as).1 (latestTable s.ups T as) ∧
    ∀ o ∈ (localRun (.combineLatest eo) s as).2, ∃ pre a post, as = pre ++ a :: post ∧
      o = packMd (latestTable s.ups T (pre ++ [a])) :=
  combineLatest_localRun eo s T h as

/-- The table really is "latest per upstream": slot `i` (the position of upstream `u`) holds the last element
that arrived from `u`, else its initial content. -/
theorem latestTable_is_latest (ups : List NodeId) (T : List (Val × Meta)) (as : List Arr) (u : NodeId) (i : Nat)
    (hi : idxOf ups u = some i) (hlt : i < T.length) :
    (latestTable ups T as)[i]? = (seqOf u as).getLast?.or T[i]? :=
  latestTable_get ups T as u i hi hlt

/-- One `combine_latest.update`, exactly (when it emits and what). -/
theorem combineLatest_update (eo : Option (List NodeId)) (s : NState) (T : List (Val × Meta)) (h : CLInv s T)
    (a : Arr) :
    (stepLoc (.combineLatest eo) s a).2 =
      match idxOf s.ups a.1 with
      | none => []
      | some _ =>
        if (s.missing.filter (· ≠ a.1)).isEmpty ∧ s.emitOn.contains a.1 then [packMd (tableStep s.ups T a)]
        else [] :=
  (combineLatest_step eo s T h a).2.2

/-- `zip_latest`, over any arrival list: every output is emitted right after some arrival `a` for one element
`q` of the lossless upstream (number 0; buffered before the run or arrived up to `a`) and is `packMd` of the
latest-per-upstream table with slot 0 holding `q`: tuple metadata = `q`'s metadata first, then the latest
metadata of the other upstreams in upstream order.  (`T0` may differ from the node's own table in slot 0.) -/
theorem zipLatest_metadata (s : NState) (T Q T0 : List (Val × Meta)) (h : ZLInv s T Q)
    (ht : T.tail = T0.tail) (hlen : T.length = T0.length) (as : List Arr) :
    ∀ o ∈ (localRun .zipLatest s as).2, ∃ q pre a post, as = pre ++ a :: post ∧
      (q ∈ Q ∨ ∃ b ∈ pre ++ [a], idxOf s.ups b.1 = some 0 ∧ q = b.2) ∧
      o = packMd ((latestTable s.ups T0 (pre ++ [a])).set 0 q) :=
  zipLatest_localRun s T Q T0 h ht hlen as

/-- "first, then the others": with slot 0 set to `q`, the packed metadata is `q`'s followed by the rest. -/
theorem zipLatest_lossless_first (T : List (Val × Meta)) (hT : T ≠ []) (q : Val × Meta) :
    (packMd (T.set 0 q)).2 = q.2 ++ (T.tail.map (·.2)).flatten := by
  cases T with
  | nil => exact absurd rfl hT
  | cons t ts => simp [packMd]

/-! ### 5. Elements emitted without metadata contribute nothing -/

/-- Uniform corollary, every kind, any arrival list: if the node stores no metadata and every arrival comes
without metadata, every output has empty metadata (and the node still stores none). -/
theorem no_metadata_in_no_metadata_out (k : Kind) (s : NState) (as : List Arr)
    (hs : ∀ l ∈ s.storedMds, l = []) (has : ∀ a ∈ as, a.2.2 = []) :
    (∀ o ∈ (localRun k s as).2, o.2 = []) ∧ ∀ l ∈ (localRun k s as).1.storedMds, l = [] := by
  have := localRun_from (P := fun _ => False) k s as ((NState.allP_false_iff s).2 hs)
    (fun a ha => by rw [has a ha]; exact AllMd.nil _)
  exact ⟨fun o ho => allMd_false (this.2 o ho), (NState.allP_false_iff _).1 this.1⟩

/-- A member without metadata adds nothing to the batch's metadata (and its neighbours' entries stay in
member order). -/
theorem empty_member_contributes_nothing (pre post : List (Val × Meta)) (v : Val) :
    (packMd (pre ++ (v, []) :: post)).2 = (packMd (pre ++ post)).2 := by
  simp [packMd]

/-- Whole sessions (any graph, any fuel, emissions / flushes / consumer completions in any order, failing
actions included): if the pipeline starts without stored metadata and every emission comes without metadata,
every metadata list that ever appears in the log — arrivals, emissions, consumer invocations — is empty. -/
theorem no_metadata_session (fuel : Nat) (S : State) (acts : List Action)
    (hS : ∀ j, ∀ l ∈ (S.loc j).storedMds, l = []) (ha : ∀ a ∈ acts, a.md = []) :
    ∀ ev ∈ (runActs G fuel S acts).2,
      match ev with
      | .arrive _ _ _ md => md = []
      | .emit _ _ md => md = []
      | .sinkStart _ _ _ md => md = []
      | _ => True := by
  have h := (runActs_md_closed G (P := fun _ => False) fuel S acts
    (fun j => (NState.allP_false_iff _).2 (hS j)) (fun a h => by rw [ha a h]; exact AllMd.nil _)).1
  intro ev hev
  have := h ev hev
  cases ev <;> first | exact allMd_false this | trivial

/-! ### 6. Graph level: metadata is never invented -/

/-- In any successful run on a DAG, an emission of a one-to-one node other than the injected top-level one
carries the metadata of an arrival at that node, which in turn is exactly what an upstream emitted along an
existing edge. -/
theorem oneToOne_emission_has_arrival {fuel : Nat} {n : NodeId} {v : Val} {md : Meta} {S : State}
    (hA : Acyclic S) (he : (emitAt G fuel n v md S).err = none) (hc : (emitAt G fuel n v md S).carried = none)
    {i : NodeId} {v' : Val} {md' : Meta} (hk : (G i).oneToOne = true)
    (h : Ev.emit i v' md' ∈ (emitAt G fuel n v md S).log) :
    (i = n ∧ v' = v ∧ md' = md) ∨
    ∃ who x, Ev.arrive i who x md' ∈ (emitAt G fuel n v md S).log ∧ i ∈ S.downs who ∧
      Ev.emit who x md' ∈ (emitAt G fuel n v md S).log := by
  have h1 := mem_emitsOf.2 h
  rw [emits_are_local_outputs G hA he hc i, List.mem_append] at h1
  rcases h1 with h1 | h1
  · split at h1
    · next hn =>
      simp only [List.mem_singleton, Prod.mk.injEq] at h1
      exact Or.inl ⟨hn.symm, h1.1, h1.2⟩
    · simp at h1
  · obtain ⟨a, ha, e⟩ := localOuts_oneToOne G i hk _ _ _ h1
    obtain ⟨who, x, m⟩ := a
    simp only [] at e
    subst e
    have harr := mem_arrivalsAt.1 ha
    obtain ⟨c1, c2⟩ := arrival_has_cause G hA he hc harr
    exact Or.inr ⟨who, x, harr, c1, c2⟩

/-- The per-kind theorems apply to every node of a DAG run: the emissions of node `i` in the log are exactly
the outputs of its kind run in isolation over the arrivals the log shows at `i` (C01), so e.g. every emission of
a `partition` node is `packMd` of `n` members drawn in order from its buffer and its arrivals in this run. -/
theorem partition_emission_members {fuel : Nat} {e : NodeId} {v : Val} {md : Meta} {S : State}
    (hA : Acyclic S) (he : (emitAt G fuel e v md S).err = none) (hc : (emitAt G fuel e v md S).carried = none)
    {i : NodeId} {n : Nat} {key : Option Fn} (hk : G i = .partition n key) (hi : i ≠ e)
    {v' : Val} {md' : Meta} (h : Ev.emit i v' md' ∈ (emitAt G fuel e v md S).log) :
    ∃ ms, ms.Sublist ((S.loc i).items.map (·.2) ++ (arrivalsAt i (emitAt G fuel e v md S).log).map (·.2)) ∧
      ms.length = n ∧ (v', md') = packMd ms := by
  have h1 := mem_emitsOf.2 h
  have h2 := congrArg Prod.snd (run_is_localRun G hA he hc i)
  simp only [] at h2
  rw [h2, if_neg (fun h' => hi h'.symm), List.nil_append, hk] at h1
  exact (partition_metadata n key (S.loc i) _).2 _ h1

/-- **No entry from nowhere**, single `_emit`, any graph (cyclic or not), any fuel, failing runs included:
every metadata entry appearing anywhere in the log, or stored in any node afterwards, is an entry of the
top-level emission's metadata or was stored in some node's state before. -/
theorem entries_come_from_input_or_state (fuel : Nat) (n : NodeId) (v : Val) (md : Meta) (S : State) :
    (∀ ev ∈ (emitAt G fuel n v md S).log,
      ev.From (fun m => m ∈ md ∨ ∃ j, ∃ l ∈ (S.loc j).storedMds, m ∈ l)) ∧
    ∀ j, ∀ l ∈ ((emitAt G fuel n v md S).st.loc j).storedMds, ∀ m ∈ l,
      m ∈ md ∨ ∃ j, ∃ l ∈ (S.loc j).storedMds, m ∈ l := by
  have h := interp_md_closed G (P := fun m => m ∈ md ∨ ∃ j, ∃ l ∈ (S.loc j).storedMds, m ∈ l) fuel
    (.emit n v md) S (fun m hm => Or.inl hm)
    (fun j => (NState.allP_iff _ _).2 (fun l hl m hm => Or.inr ⟨j, l, hl, hm⟩))
  exact ⟨h.1, fun j l hl m hm => (NState.allP_iff _ _).1 (h.2 j) l hl m hm⟩

/-- **`tags_come_from_input`**: for every pipeline (any graph), every session on it that starts without stored
metadata (emissions with arbitrary metadata at arbitrary nodes, `collect.flush()`, asynchronous consumers
finishing or failing, in any order; exceptions and fuel exhaustion included) and every event in the log: every
entry — in particular every tag — of the metadata of every arrival, emission or consumer invocation is an entry
of the metadata of one of the top-level emissions.  Nothing is invented, whatever is buffered in between. -/
theorem tags_come_from_input (fuel : Nat) (S : State) (acts : List Action)
    (hS : ∀ j, ∀ l ∈ (S.loc j).storedMds, l = []) :
    ∀ ev ∈ (runActs G fuel S acts).2, ev.From (fun m => ∃ a ∈ acts, m ∈ a.md) :=
  (runActs_md_closed G (P := fun m => ∃ a ∈ acts, m ∈ a.md) fuel S acts
    (fun j => (NState.allP_iff _ _).2 (fun l hl => by rw [hS j l hl]; exact AllMd.nil _))
    (fun a ha m hm => ⟨a, ha, hm⟩)).1

/-- The same, spelled out for emissions and tags. -/
theorem emitted_tags_come_from_input (fuel : Nat) (S : State) (acts : List Action)
    (hS : ∀ j, ∀ l ∈ (S.loc j).storedMds, l = []) {i : NodeId} {v : Val} {md : Meta}
    (h : Ev.emit i v md ∈ (runActs G fuel S acts).2) :
    ∀ m ∈ md, ∃ n v0 md0, Action.emit n v0 md0 ∈ acts ∧ m ∈ md0 ∧ m.tag ∈ md0.map (·.tag) := by
  intro m hm
  obtain ⟨a, ha, hma⟩ := tags_come_from_input G fuel S acts hS _ h m hm
  cases a with
  | emit n v0 md0 => exact ⟨n, v0, md0, ha, hma, List.mem_map.2 ⟨m, hma, rfl⟩⟩
  | flush d => simp [Action.md] at hma
  | done t => simp [Action.md] at hma
  | fail t => simp [Action.md] at hma

/-! ### Non-vacuity: concrete instances -/

/-- metadata entries used below -/
def ma : MEntry := ⟨1, none⟩
def mb : MEntry := ⟨2, some 0⟩
def mc : MEntry := ⟨3, none⟩

/-- `partition(2)` on arrivals with metadata `[a]`, `[b, c]` emits `[a, b, c]` -/
example : (localRun (.partition 2 none) {} [(0, .int 1, [ma]), (0, .int 2, [mb, mc])]).2 =
    [(.tup [.int 1, .int 2], [ma, mb, mc])] := by decide +kernel

/-- ... an element without metadata in the middle contributes nothing -/
example : (localRun (.partition 3 none) {} [(0, .int 1, [ma]), (0, .int 2, []), (0, .int 3, [mc])]).2 =
    [(.tup [.int 1, .int 2, .int 3], [ma, mc])] := by decide +kernel

/-- `flatten` of a 3-list: `[]`, `[]`, `md` -/
example : outsOf (upd .flatten {} 0 (.lst [.int 1, .int 2, .int 3]) [ma, mb]).effs =
    [(.int 1, []), (.int 2, []), (.int 3, [ma, mb])] := by decide +kernel

/-- ... and of an empty list: nothing -/
example : outsOf (upd .flatten {} 0 (.lst []) [ma]).effs = [] := by decide +kernel

/-- one-to-one kinds: `map`, `filter` (drops the odd element together with its metadata), `accumulate` -/
example : (localRun (.map .inc) {} [(0, .int 1, [ma]), (0, .int 2, []), (0, .int 3, [mb, mc])]).2 =
    [(.int 2, [ma]), (.int 3, []), (.int 4, [mb, mc])] := by decide +kernel
example : (localRun (.filter .isEven) {} [(0, .int 1, [ma]), (0, .int 2, [mb]), (0, .int 4, [mc])]).2 =
    [(.int 2, [mb]), (.int 4, [mc])] := by decide +kernel
example : (localRun (.accumulate .add none false false) {} [(0, .int 1, [ma]), (0, .int 2, [mb])]).2 =
    [(.int 1, [ma]), (.int 3, [mb])] := by decide +kernel

/-- `sliding_window(2)`: windows (1,2), (2,3) with metadata `[a, b]`, `[b, c]` -/
example : (localRun (.slidingWindow 2 false) {}
    [(0, .int 1, [ma]), (0, .int 2, [mb]), (0, .int 3, [mc])]).2 =
    [(.tup [.int 1, .int 2], [ma, mb]), (.tup [.int 2, .int 3], [mb, mc])] := by decide +kernel
/-- the hypothesis of `slidingWindow_metadata` holds for the fresh node, and the spec gives the same windows -/
example : SWInv 2 {} (lastN 2 []) := SWInv.init 2 {} rfl rfl
/-- the state a failed emission leaves behind (metadata deque full, head not popped) satisfies it too, and the next
window still gets exactly its members' metadata -/
example : SWInv 2 { win := [.int 1, .int 2], items := [(.none, .none, [ma]), (.none, .none, [mb])] }
    [(.int 1, [ma]), (.int 2, [mb])] := ⟨rfl, Or.inl rfl, Nat.le_refl _⟩
example : (localRun (.slidingWindow 2 false)
    { win := [.int 1, .int 2], items := [(.none, .none, [ma]), (.none, .none, [mb])] } [(0, .int 3, [mc])]).2 =
    [(.tup [.int 2, .int 3], [mb, mc])] := by decide +kernel
example : swSpec 2 false [] [(.int 1, [ma]), (.int 2, [mb]), (.int 3, [mc])] =
    [(.tup [.int 1, .int 2], [ma, mb]), (.tup [.int 2, .int 3], [mb, mc])] := by decide +kernel

/-- `partition_unique(2, keep="last")`: 1 is replaced by 11 (same key mod 10), whose metadata replaces `[a]` -/
example : (localRun (.partitionUnique 2 (.modk 10) true) {}
    [(0, .int 1, [ma]), (0, .int 11, [mb]), (0, .int 2, [mc])]).2 =
    [(.tup [.int 11, .int 2], [mb, mc])] := by decide +kernel
/-- ... with `keep="first"` 11 is dropped and contributes nothing -/
example : (localRun (.partitionUnique 2 (.modk 10) false) {}
    [(0, .int 1, [ma]), (0, .int 11, [mb]), (0, .int 2, [mc])]).2 =
    [(.tup [.int 1, .int 2], [ma, mc])] := by decide +kernel

/-- `collect` then `flush` -/
example : outsOf (flushProg (localRun .collect {} [(0, .int 1, [ma]), (0, .int 2, []), (0, .int 3, [mc])]).1) =
    [(.tup [.int 1, .int 2, .int 3], [ma, mc])] := by decide +kernel

/-- `zip` of upstreams 1 and 2 with a literal in the middle: upstream order, not arrival order -/
def zipS : NState := { ups := [1, 2], bufs := [(1, []), (2, [])] }
example : ZipInv zipS (fun _ => []) 0 := ZipInv.init zipS rfl
example : (localRun (.zip [(1, .str "lit")]) zipS
    [(2, .int 20, [mb]), (1, .int 10, [ma]), (1, .int 11, []), (2, .int 21, [mc])]).2 =
    [(.tup [.int 10, .str "lit", .int 20], [ma, mb]), (.tup [.int 11, .str "lit", .int 21], [mc])] := by
  decide +kernel

/-- `combine_latest` of upstreams 1 and 2 -/
def clS : NState := { ups := [1, 2], last := [.none, .none], lastMd := [[], []], missing := [1, 2], emitOn := [1, 2] }
example : CLInv clS (clS.last.zip clS.lastMd) := CLInv.of_zip clS rfl
example : (localRun (.combineLatest none) clS
    [(1, .int 10, [ma]), (2, .int 20, [mb]), (1, .int 11, [mc]), (2, .int 21, [])]).2 =
    [(.tup [.int 10, .int 20], [ma, mb]), (.tup [.int 11, .int 20], [mc, mb]), (.tup [.int 11, .int 21], [mc])] := by
  decide +kernel

/-- `zip_latest`: lossless upstream 1 first, then the latest of upstream 2 -/
example : ZLInv clS (clS.last.zip clS.lastMd) [] := ⟨CLInv.of_zip clS rfl, rfl⟩
example : (localRun .zipLatest clS
    [(1, .int 10, [ma]), (1, .int 11, [mb]), (2, .int 20, [mc]), (2, .int 21, []), (1, .int 12, [ma])]).2 =
    [(.tup [.int 10, .int 20], [ma, mc]), (.tup [.int 11, .int 20], [mb, mc]), (.tup [.int 12, .int 21], [ma])] := by
  decide +kernel

/-- a whole pipeline with fan-out and fan-in (`exG`/`exS` of `Props/C01.lean`: source 0 → map inc 1, map dbl 2,
zip(1, 2) = 3 → sink 4): the hypotheses of the graph-level theorems hold, and the sink receives the zipped pair
with the source's metadata once per contributing branch, in upstream order -/
example : Acyclic exS ∧ (emitAt exG 100 0 (.int 5) [mb] exS).err = none ∧
    (emitAt exG 100 0 (.int 5) [mb] exS).carried = none :=
  ⟨exS_acyclic, by decide +kernel, by decide +kernel⟩
example : arrivalsAt 4 (emitAt exG 100 0 (.int 5) [mb] exS).log = [(3, .tup [.int 6, .int 10], [mb, mb])] := by
  decide +kernel
example : ∀ j, ∀ l ∈ (exS.loc j).storedMds, l = [] := by
  intro j l hl
  unfold exS at hl
  simp only [] at hl
  split at hl <;> simp [NState.storedMds] at hl <;> simp [hl]
/-- a session on it: two emissions; the second output's metadata comes from the second emission only -/
example : emitsOf 3 (runActs exG 100 exS [.emit 0 (.int 5) [ma], .emit 0 (.int 6) [mc]]).2 =
    [(.tup [.int 6, .int 10], [ma, ma]), (.tup [.int 7, .int 12], [mc, mc])] := by decide +kernel

end StreamzVerif.Graph
