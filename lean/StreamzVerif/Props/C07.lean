import StreamzVerif.Proofs.WindowSpec
/-!
# C07 — windowed aggregations equal pandas on exactly the rows inside the window

Property theorems only.  Model: `Model/Window.lean`; helper lemmas: `Proofs/Window.lean`,
`Proofs/WindowGroupby.lean`, `Proofs/WindowSpec.lean` (the pandas reductions `pdSum`, `pdCount`,
`pdSize`, `pdMean`, `pdVar`, `pdValueCount`, written directly on the list of non-NaN values of a
list of rows).

Every theorem quantifies over *every* window (`Diff.iloc N` = `window(n=N)`, any `N`;
`Diff.loc T` = `window(value=T)`, any `T ≥ 1`), *every* list of batches `bs` of any length and
shape (batches larger than the window, empty batches anywhere), and *every* `k`: the statement
about the `k`-th emission talks about `windowOf d (bs.take (k+1)).flatten`, the window of the
rows seen in the first `k+1` batches:
  `windowOf (iloc N) H = lastN N H`              the last `N` rows seen,
  `windowOf (loc T) H  = within T H`             the rows with `newest - T < idx`.
`Valid d H` is `True` for `iloc`, and `1 ≤ T ∧ Sorted H` (non-decreasing index, ties allowed) for
`loc`.

`Diff.loc` is the repaired `diff_loc` (cut at `mx - T`); for the unrepaired code (`Diff.locOrig`,
cut at `mn = mx - T + 1ns` label-inclusively) the clause is false and the negation is proved on
concrete witnesses at the end of the file.  `Mean.ops` is the repaired `Mean` (C06 fix); the
unrepaired `Mean.opsOrig` gets a witness as well.

`std` is `var ** 0.5` applied by a downstream map node and has no theorem of its own (checked
against pandas in the correspondence run).
-/
namespace StreamzVerif.Window

/-- The results emitted by `sdf.window(..).<agg>()`, one per batch. -/
def results {S R : Type} (d : Diff) (ops : Ops S R) (bs : List Batch) : List R :=
  (run (windowAcc d ops) none bs).2

/-- The window after the first `k+1` batches. -/
def windowAt (d : Diff) (bs : List Batch) (k : Nat) : List Row := windowOf d (bs.take (k + 1)).flatten

/-- What pandas' `groupby('key')[col].agg(stat)` gives on the rows `W`: indexed by exactly the
keys occurring in `W`, each holding `stat` of that key's rows. -/
def GroupbyEquals {R : Type} (stat : List Row → R) (W : List Row) (r : FMap Int R) : Prop :=
  ∀ key, ((∃ row ∈ W, row.key = key) → FMap.find r key = some (stat (groupRows W key))) ∧
         ((¬ ∃ row ∈ W, row.key = key) → FMap.find r key = none)

/-! ## The retained frames are exactly the window -/

/-- `window(n=N)`: for every `N` and every batch sequence, the concatenation of the retained
frames `acc['dfs']` is the last `N` rows seen, and no retained frame is empty. -/
theorem iloc_retained_eq_lastN (N : Nat) (bs : List Batch) :
    (retained (.iloc N) bs).flatten = lastN N bs.flatten ∧ ∀ b ∈ retained (.iloc N) bs, b ≠ [] :=
  retained_inv (.iloc N) bs trivial

/-- `window(value=T)`: for every `T ≥ 1` and every batch sequence with a non-decreasing index, the
concatenation of the retained frames is exactly the rows whose index lies within `T` of the newest
index (`newest - T < idx`), and no retained frame is empty. -/
theorem loc_retained_eq_within (T : Int) (hT : 1 ≤ T) (bs : List Batch) (hs : Sorted bs.flatten) :
    (retained (.loc T) bs).flatten = within T bs.flatten ∧ ∀ b ∈ retained (.loc T) bs, b ≠ [] :=
  retained_inv (.loc T) bs ⟨hT, hs⟩

/-- `retained` is what `window_accumulator` keeps in `acc['dfs']`, whatever the aggregation. -/
theorem acc_dfs_eq_retained {S R : Type} (d : Diff) (ops : Ops S R) (b : Batch) (bs : List Batch) :
    ∃ a, (run (windowAcc d ops) none (b :: bs)).1 = some a ∧ a.dfs = retained d (b :: bs) :=
  run_dfs d ops b bs

/-- No diff function ever loses or invents a row: decayed pieces followed by the retained
frames are the old frames followed by the new batch (also for the unrepaired `diff_loc`). -/
theorem diff_conserves (d : Diff) (dfs : List Batch) (new : Batch) :
    (d.apply dfs new).2.flatten ++ (d.apply dfs new).1.flatten = dfs.flatten ++ new :=
  conserves d dfs new

/-! ## Scalar windowed aggregations -/

theorem results_length {S R : Type} (d : Diff) (ops : Ops S R) (bs : List Batch) :
    (results d ops bs).length = bs.length := run_length _ _ _

/-- Helper shape shared by the scalar theorems: a result that is a function of the moments. -/
theorem scalar_result {S R : Type} {ops : Ops S R} {Rep : Mom → S → Prop} {f : Mom → R}
    (hR : Represents ops mom Rep (fun m r => r = f m)) (d : Diff) (bs : List Batch)
    (hv : Valid d bs.flatten) (k : Nat) (hk : k < bs.length) :
    (results d ops bs)[k]? = some (f (mom (windowAt d bs k))) := by
  have hlen : k < (results d ops bs).length := by rw [results_length]; exact hk
  rw [List.getElem?_eq_getElem hlen]
  congr 1
  exact window_run hR d bs hv k _ (List.getElem?_eq_getElem hlen)

/-- **sum**: the `k`-th emission of `window.x.sum()` is pandas' `sum` (NaN skipped) of the window. -/
theorem window_sum (d : Diff) (bs : List Batch) (hv : Valid d bs.flatten) (k : Nat) (hk : k < bs.length) :
    (results d Sum.ops bs)[k]? = some (pdSum (windowAt d bs k)) := by
  rw [scalar_result Sum.represents d bs hv k hk]
  exact congrArg some (sumV_eq _)

/-- **count**: number of non-NaN values in the window. -/
theorem window_count (d : Diff) (bs : List Batch) (hv : Valid d bs.flatten) (k : Nat) (hk : k < bs.length) :
    (results d Count.ops bs)[k]? = some (pdCount (windowAt d bs k)) := by
  rw [scalar_result Count.represents d bs hv k hk]
  exact congrArg some (cnt_eq _)

/-- **size**: number of rows in the window. -/
theorem window_size (d : Diff) (bs : List Batch) (hv : Valid d bs.flatten) (k : Nat) (hk : k < bs.length) :
    (results d Size.ops bs)[k]? = some (pdSize (windowAt d bs k)) :=
  scalar_result Size.represents d bs hv k hk

/-- **mean** (repaired `Mean`): sum over count of the non-NaN values of the window, NaN when the
window holds no value — however many empty or all-NaN batches or windows came before. -/
theorem window_mean (d : Diff) (bs : List Batch) (hv : Valid d bs.flatten) (k : Nat) (hk : k < bs.length) :
    (results d Mean.ops bs)[k]? = some (pdMean (windowAt d bs k)) := by
  rw [scalar_result Mean.represents d bs hv k hk]
  exact congrArg some (meanRes_eq _)

/-- **var** (`ddof ∈ {0,1}`): the two-pass variance of the non-NaN values of the window
(NaN when `n - ddof ≤ 0`). -/
theorem window_var (ddof : Int) (hd : ddof = 0 ∨ ddof = 1) (d : Diff) (bs : List Batch)
    (hv : Valid d bs.flatten) (k : Nat) (hk : k < bs.length) :
    (results d (Var.ops ddof) bs)[k]? = some (pdVar ddof (windowAt d bs k)) := by
  rw [scalar_result (Var.represents ddof) d bs hv k hk]
  exact congrArg some (varRes_eq ddof hd _)

/-- **value_counts**: for every value `v`, the reported count (0 if `v` is not in the index) is
the number of rows of the window holding `v`; hence every value present in the window is in the
index with its exact count (entries of vanished values stay, with count 0). -/
theorem window_value_counts (d : Diff) (bs : List Batch) (hv : Valid d bs.flatten) (k : Nat) (hk : k < bs.length) :
    ∃ r, (results d ValueCounts.ops bs)[k]? = some r ∧
      (∀ v, get0 0 r v = pdValueCount (windowAt d bs k) v) ∧
      (∀ v, 0 < pdValueCount (windowAt d bs k) v → FMap.find r v = some (pdValueCount (windowAt d bs k) v)) := by
  have hlen : k < (results d ValueCounts.ops bs).length := by rw [results_length]; exact hk
  refine ⟨_, List.getElem?_eq_getElem hlen, ?_⟩
  have h := window_run ValueCounts.represents d bs hv k _ (List.getElem?_eq_getElem hlen)
  have h' : ∀ v, get0 0 ((results d ValueCounts.ops bs)[k]) v = pdValueCount (windowAt d bs k) v := by
    intro v; rw [h v]; exact vc_eq _ v
  refine ⟨h', ?_⟩
  intro v hpos
  have := h' v
  unfold get0 at this
  cases hf : FMap.find ((results d ValueCounts.ops bs)[k]) v with
  | none => rw [hf] at this; simp at this; omega
  | some c => rw [hf] at this; simp at this; rw [this]

/-! ## Windowed group-by aggregations -/

/-- Shared shape of the group-by theorems.  `sg = false`: grouper given as a column name;
`sg = true`: streaming grouper (`acc['groupers']`, `diff_align`).  The run is `some _`: no
assertion of `diff_align` / of the loop fires. -/
theorem groupby_result {S R : Type} {ops : GOps S R} {Rep : (Int → Mom) → (Int → Prop) → S → Prop}
    {res : Mom → R} (hG : GRepresents ops Rep res) (stat : List Row → R)
    (hstat : ∀ X, res (mom X) = stat X) (d : Diff) (sg : Bool) (bs : List Batch) (hv : Valid d bs.flatten) :
    ∃ fin rs, runOpt (groupbyAcc d ops sg) none bs = some (fin, rs) ∧ rs.length = bs.length ∧
      ∀ k r, rs[k]? = some r → GroupbyEquals stat (windowAt d bs k) r := by
  obtain ⟨fin, rs, h1, h2, _, h4⟩ := groupby_run hG d sg bs hv
  refine ⟨fin, rs, h1, h2, ?_⟩
  intro k r hk key
  have := h4 k r hk key
  refine ⟨fun hin => ?_, fun hout => this.2 hout⟩
  rw [this.1 hin]
  exact congrArg some (hstat _)

/-- **groupby-sum**: keys of the result = keys with at least one row in the window (groups with
no row left disappear), each with pandas' sum of its rows. -/
theorem window_groupby_sum (d : Diff) (sg : Bool) (bs : List Batch) (hv : Valid d bs.flatten) :
    ∃ fin rs, runOpt (groupbyAcc d GroupbySum.ops sg) none bs = some (fin, rs) ∧ rs.length = bs.length ∧
      ∀ k r, rs[k]? = some r → GroupbyEquals pdSum (windowAt d bs k) r :=
  groupby_result GroupbySum.represents pdSum (fun X => sumV_eq X) d sg bs hv

/-- **groupby-count** -/
theorem window_groupby_count (d : Diff) (sg : Bool) (bs : List Batch) (hv : Valid d bs.flatten) :
    ∃ fin rs, runOpt (groupbyAcc d GroupbyCount.ops sg) none bs = some (fin, rs) ∧ rs.length = bs.length ∧
      ∀ k r, rs[k]? = some r → GroupbyEquals pdCount (windowAt d bs k) r :=
  groupby_result GroupbyCount.represents pdCount (fun X => cnt_eq X) d sg bs hv

/-- **groupby-size** -/
theorem window_groupby_size (d : Diff) (sg : Bool) (bs : List Batch) (hv : Valid d bs.flatten) :
    ∃ fin rs, runOpt (groupbyAcc d GroupbySize.ops sg) none bs = some (fin, rs) ∧ rs.length = bs.length ∧
      ∀ k r, rs[k]? = some r → GroupbyEquals pdSize (windowAt d bs k) r :=
  groupby_result GroupbySize.represents pdSize (fun _ => rfl) d sg bs hv

/-- **groupby-mean**: NaN for a key whose rows in the window hold no value. -/
theorem window_groupby_mean (d : Diff) (sg : Bool) (bs : List Batch) (hv : Valid d bs.flatten) :
    ∃ fin rs, runOpt (groupbyAcc d GroupbyMean.ops sg) none bs = some (fin, rs) ∧ rs.length = bs.length ∧
      ∀ k r, rs[k]? = some r → GroupbyEquals pdMean (windowAt d bs k) r :=
  groupby_result GroupbyMean.represents pdMean (fun X => meanRes_eq X) d sg bs hv

/-- **groupby-var** (`ddof ∈ {0,1}`) -/
theorem window_groupby_var (ddof : Int) (hd : ddof = 0 ∨ ddof = 1) (d : Diff) (sg : Bool)
    (bs : List Batch) (hv : Valid d bs.flatten) :
    ∃ fin rs, runOpt (groupbyAcc d (GroupbyVar.ops ddof) sg) none bs = some (fin, rs) ∧ rs.length = bs.length ∧
      ∀ k r, rs[k]? = some r → GroupbyEquals (pdVar ddof) (windowAt d bs k) r :=
  groupby_result (GroupbyVar.represents ddof) (pdVar ddof) (fun X => varRes_eq ddof hd X) d sg bs hv

/-- **The grouper history stays aligned** (streaming grouper): after any run, `acc['groupers']`
is, frame by frame, the grouper values of the retained frames, the retained frames are the window,
and size-state is indexed by exactly the keys with a row in the window, holding the number of
their rows.  (That the run is `some _` says `diff_align`'s two assertions and the
`assert len(o) == len(og)` never fire.) -/
theorem groupers_stay_aligned {S R : Type} {ops : GOps S R} {Rep : (Int → Mom) → (Int → Prop) → S → Prop}
    {res : Mom → R} (hG : GRepresents ops Rep res) (d : Diff) (bs : List Batch) (hv : Valid d bs.flatten) :
    ∃ fin rs, runOpt (groupbyAcc d ops true) none bs = some (fin, rs) ∧
      ∀ a, fin = some a →
        a.groupers = some (a.dfs.map (List.map (·.key))) ∧
        a.dfs.flatten = windowOf d bs.flatten ∧
        GroupbyEquals pdSize (windowOf d bs.flatten) a.sizeState := by
  obtain ⟨fin, rs, h1, _, h3, _⟩ := groupby_run hG d true bs hv
  refine ⟨fin, rs, h1, ?_⟩
  intro a ha
  have st := h3 a ha
  refine ⟨by simpa using st.grp, st.dfs.1, ?_⟩
  intro key
  have := st.sz key
  rw [st.dfs.1] at this
  exact this

/-- One step of `diff_align` in isolation: whenever `diff` produced its pieces by popping whole
frames and splitting the front one (which `diff_iloc` always does and the repaired `diff_loc`
does on a non-decreasing index, see `diff_window`), `diff_align` passes its assertions and returns
exactly the groupers of the decayed pieces. -/
theorem diff_align_follows_diff (d : Diff) (dfs : List Batch) (H new : List Row)
    (hv : Valid d (H ++ new)) (h : DfsInv d dfs H) :
    diffAlign ((d.apply dfs new).1.map List.length) ((pushNew dfs new).map (List.map (·.key))) =
      some ((d.apply dfs new).2.map (List.map (·.key)), (d.apply dfs new).1.map (List.map (·.key))) :=
  diffAlign_of_shape (·.key) (diff_window d dfs H new hv h).2

/-! ## The unrepaired code violates the property: concrete witnesses -/

private def r (i : Int) (v : Option Rat) (k : Int) : Row := { idx := i, val := v, key := k }

/-- Unrepaired `diff_loc`, `T = 3ns`, batches `[1,2]` then `[3,4]`: `mn = 2`, the front frame has
`min = 1 < mn`, and `.loc[:mn]` also removes the row at `2`, which lies inside the window
(`4 - 3 < 2`).  The retained rows are not the window, and the emitted sum is 3 instead of 5. -/
theorem diff_loc_unrepaired_drops_boundary_row :
    let bs : List Batch := [[r 1 (some 1) 0, r 2 (some 2) 1], [r 3 (some 3) 0, r 4 none 1]]
    (retained (.locOrig 3) bs).flatten.map (·.idx) = [3, 4] ∧
    (within 3 bs.flatten).map (·.idx) = [2, 3, 4] ∧
    (results (.locOrig 3) Sum.ops bs)[1]? = some 3 ∧ pdSum (within 3 bs.flatten) = 5 := by
  decide +kernel

/-- Unrepaired `diff_loc`, `T = 1ns`: the inclusive cut removes even the newest row; the deque
runs empty (in Python the next loop test raises `IndexError`). -/
theorem diff_loc_unrepaired_empties_deque :
    let bs : List Batch := [[r 4 (some 1) 0, r 5 (some 1) 0, r 6 (some 1) 0]]
    retained (.locOrig 1) bs = [] ∧ (within 1 bs.flatten).map (·.idx) = [6] := by
  decide +kernel

/-- The repaired `diff_loc` on the same inputs. -/
theorem diff_loc_repaired_on_witnesses :
    (retained (.loc 3) [[r 1 (some 1) 0, r 2 (some 2) 1], [r 3 (some 3) 0, r 4 none 1]]).flatten.map (·.idx) = [2, 3, 4] ∧
    (retained (.loc 1) [[r 4 (some 1) 0, r 5 (some 1) 0, r 6 (some 1) 0]]).flatten.map (·.idx) = [6] := by
  decide +kernel

/-- Unrepaired `Mean` (stores the substitute `counts = 1`): `window(n=1)`, batches `[NaN]`, `[5]`
emit `5/2` for the second batch; pandas' mean of the window `[5]` is `5`. -/
theorem mean_unrepaired_persists_substitute :
    let bs : List Batch := [[r 1 none 0], [r 2 (some 5) 0]]
    (results (.iloc 1) Mean.opsOrig bs)[1]? = some (some (5 / 2)) ∧
    pdMean (windowAt (.iloc 1) bs 1) = some 5 ∧
    (results (.iloc 1) Mean.ops bs)[1]? = some (some 5) := by
  decide +kernel

/-! ## Non-vacuity: the hypotheses are met by real runs, and the runs do something -/

private def demo : List Batch :=
  [[], [r 1 (some 1) 0, r 2 (some 2) 1], [r 3 (some 3) 0, r 4 none 1], [],
   [r 5 (some 5) 2, r 5 (some 6) 2, r 6 (some 7) 0, r 8 none 1, r 9 (some 2) 1]]

example : Valid (.loc 3) demo.flatten := by
  refine ⟨by decide, ?_⟩
  unfold Sorted; decide +kernel
example : Valid (.iloc 2) demo.flatten := trivial
-- ties, an empty first batch, an empty batch inside, a batch larger than the window
example : results (.iloc 2) Sum.ops demo = [0, 3, 3, 3, 2] := by decide +kernel
example : results (.loc 3) Sum.ops demo = [0, 3, 5, 5, 2] := by decide +kernel
example : results (.loc 3) Mean.ops demo = [none, some (3 / 2), some (5 / 2), some (5 / 2), some 2] := by
  decide +kernel
example : (retained (.loc 3) demo).map (fun b => b.map (·.idx)) = [[8, 9]] ∧
    (retained (.iloc 4) demo).map (fun b => b.map (·.idx)) = [[5, 6, 8, 9]] := by decide +kernel
-- keys 0 and 2 leave the window, key 1 re-enters; streaming grouper
example : (runOpt (groupbyAcc (.iloc 2) GroupbySum.ops true) none demo).map (·.2) =
    some [[], [(0, 1), (1, 2)], [(0, 3), (1, 0)], [(0, 3), (1, 0)], [(1, 2)]] := by decide +kernel
example : (runOpt (groupbyAcc (.loc 3) GroupbySize.ops false) none demo).map (·.2) =
    some [[], [(0, 1), (1, 1)], [(0, 1), (1, 2)], [(0, 1), (1, 2)], [(1, 2)]] := by decide +kernel

end StreamzVerif.Window
