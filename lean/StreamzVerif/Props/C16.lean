import StreamzVerif.Model.Graph
namespace StreamzVerif.Graph
theorem placeholder_C16 : True := trivial
end StreamzVerif.Graph
