import StreamzVerif.Proofs.Failure
/-
C16 — failures reach the emitter, keep node state intact, are never checkpointed.

Model: `Model/Graph.lean`.  User functions are `Fn.eval` / `Fn2.eval : … → Except Err Val`; the body of each
`update` is `upd k s who v md : UpdRes` (`effs` performed, then `err` raised); the interpreter
`emitAt / deliver / update / runEffs` (= `Stream._emit`, core.py 429-462) aborts the enclosing frames at the
point of a raise, with the state as mutated so far, and logs `Ev.raised d e` at the node `d` whose own code
raised (a node's `update`, or the function of a synchronous `sink`).  `partition.update` is a `gen.coroutine`
(`isCoroutine`): it captures the exception in the awaitable it returns (`Res.carried`).

All theorems are for every graph `G`, every fuel, every state, every input.

  1. the exception reaches the caller of emit
       `failure_reaches_emitter`              no coroutine kind: a raise anywhere is the error `emitAt` returns
       `errors_come_from_nodes`               … and conversely every error returned was raised by some node's
                                              code, as the very last thing the run did (`abort_is_immediate`)
       `failure_reaches_emitter_or_awaitable` any graph: raised, or carried by the returned awaitable
       `carried_was_raised`                   … and what the awaitable carries was raised by some node
  2. the node whose function raised keeps the state it had before the call
       `failing_upd_keeps_state`              every kind: no `.set`, no `.emit`; at most the initial retain
       `failing_upd_effects`, `failing_partition_effects`
       `user_failure_*`                       the user function failing *is* `upd … .err = some e`
       `failing_update_keeps_graph_state`     the `update` call leaves all node states and all edges unchanged
       `failing_node_keeps_call_state`        at the end of a failed `emitAt` the failing node is in the state in
                                              which its code was run (and failed) on the logged arrival
       `failing_run_projects_at_failing_node` on DAGs: that state is the fold of `upd` over the node's earlier
                                              arrivals = the fold over all its arrivals (C01's projection
                                              extended to the failing node of a failed run)
  3. later elements are processed as if the failing element had not been offered to that node
       `later_as_if_absent`, `survivors_never_fail`, `later_as_if_absent_filter`, `later_as_if_absent_map`
  4. the failed element's completion callback is never triggered
       `failed_never_fires_partial`, `failed_never_fires_fresh_partial`   within the failing run
       `failed_never_fires_forever_partial`   nor by anything that happens later
       `sinkFail_keeps_count`                 a failing asynchronous consumer releases nothing, ever
     PARTIAL: the three `…_partial` theorems are proved for graphs all of whose kinds are unbuffered (`Unbuffered`:
     source, union, map, starmap, filter, accumulate, slice, unique, flatten, pluck, sync and async sinks — the
     "directly connected (non-buffered) pipeline" of the property text), with any topology (fan-out, fan-in through
     union, even cycles), any fuel.  Missing: graphs that also contain kinds which store metadata (partition,
     partition_unique, sliding_window, collect, zip, combine_latest, zip_latest); there the statement needs the
     per-node accounting of stored references (count = stored + in flight), which is property C04's invariant.
-/
namespace StreamzVerif.Graph

variable (G : NodeId → Kind)

/-! ### 1. The exception reaches the emitter -/

/-- **Nothing swallows a failure.**  On a pipeline of directly connected nodes (no coroutine kind), if any node's
own code — a user function of `map`/`filter`/`accumulate`/…, a key function, a synchronous sink's function —
raises `e` at any depth below `_emit` at `n`, then `e` is what the top-level `_emit` raises; no awaitable
carries anything. -/
theorem failure_reaches_emitter (hG : NoCoroutine G) (fuel : Nat) (n : NodeId) (v : Val) (md : Meta)
    (S : State) (d : NodeId) (e : Err) (h : Ev.raised d e ∈ (emitAt G fuel n v md S).log) :
    (emitAt G fuel n v md S).err = some e ∧ (emitAt G fuel n v md S).carried = none :=
  ⟨(raised_err_all G hG fuel (.emit n v md) S).2 d e h, (raised_err_all G hG fuel (.emit n v md) S).1⟩

/-- The same for a single `downstream.update(x, who, metadata)` call. -/
theorem failure_reaches_update_caller (hG : NoCoroutine G) (fuel : Nat) (d' who : NodeId) (v : Val) (md : Meta)
    (S : State) (d : NodeId) (e : Err) (h : Ev.raised d e ∈ (update G fuel d' who v md S).log) :
    (update G fuel d' who v md S).err = some e :=
  (raised_err_all G hG fuel (.update d' who v md) S).2 d e h

/-- **Errors come only from node code, never from the plumbing** (any graph): an error returned by `_emit` is
the model's fuel pseudo-error or was raised by some node. -/
theorem errors_come_from_nodes (fuel : Nat) (n : NodeId) (v : Val) (md : Meta) (S : State) (e : Err)
    (h : (emitAt G fuel n v md S).err = some e) :
    e = .outOfFuel ∨ ∃ d, Ev.raised d e ∈ (emitAt G fuel n v md S).log := by
  by_cases he : e = .outOfFuel
  · exact Or.inl he
  · exact Or.inr (failSite_all G fuel (.emit n v md) S e h he).raised_mem

/-- **The abort is immediate** (any graph): when `_emit` raises, the raise is the last thing that happened — no
arrival, emission, release or callback follows it. -/
theorem abort_is_immediate (fuel : Nat) (n : NodeId) (v : Val) (md : Meta) (S : State) (e : Err)
    (h : (emitAt G fuel n v md S).err = some e) (he : e ≠ .outOfFuel) :
    ∃ d l, (emitAt G fuel n v md S).log = l ++ [Ev.raised d e] :=
  (failSite_all G fuel (.emit n v md) S e h he).raised_last

/-- **With coroutine kinds** (`partition`): a raise anywhere below is never lost — `_emit` raises, or the
awaitable it returns carries an exception. -/
theorem failure_reaches_emitter_or_awaitable (fuel : Nat) (n : NodeId) (v : Val) (md : Meta) (S : State)
    (d : NodeId) (e : Err) (h : Ev.raised d e ∈ (emitAt G fuel n v md S).log) :
    (∃ e', (emitAt G fuel n v md S).err = some e') ∨ (∃ e', (emitAt G fuel n v md S).carried = some e') := by
  rcases (raised_err_or_carried_all G fuel (.emit n v md) S).1 d e h with k | k
  · exact Or.inl (Option.ne_none_iff_exists'.1 k)
  · exact Or.inr (Option.ne_none_iff_exists'.1 k)

/-- … and whatever the awaitable carries is a genuine exception raised by some node during this run. -/
theorem carried_was_raised (fuel : Nat) (n : NodeId) (v : Val) (md : Meta) (S : State) (e : Err)
    (h : (emitAt G fuel n v md S).carried = some e) :
    e ≠ .outOfFuel ∧ ∃ d, Ev.raised d e ∈ (emitAt G fuel n v md S).log :=
  (raised_err_or_carried_all G fuel (.emit n v md) S).2 e h

/-! ### 2. The failing node keeps its state -/

/-- **Per kind, every kind.**  If the body of `update` raises on an arrival, it has set no state and emitted
nothing; the only thing it may have done is the initial `_retain_refs(metadata)` of the kinds that start with
one (`retainsFirst`).  So the node's state after the call is the state before it, and it has no outputs. -/
theorem failing_upd_keeps_state (k : Kind) (s : NState) (who : NodeId) (v : Val) (md : Meta) (e : Err)
    (h : (upd k s who v md).err = some e) :
    (upd k s who v md).effs = (if retainsFirst k then [.retain md] else []) ∧
    finalLoc (upd k s who v md).effs s = s ∧ outsOf (upd k s who v md).effs = [] :=
  ⟨upd_err_effs h, upd_err_finalLoc h, upd_err_outsOf h⟩

/-- The kinds with a user function and no buffer: a failing call has no effect at all. -/
theorem failing_upd_effects (k : Kind) (s : NState) (who : NodeId) (v : Val) (md : Meta) (e : Err)
    (hk : (∃ f, k = .map f) ∨ (∃ f, k = .starmap f) ∨ (∃ p, k = .filter p) ∨
          (∃ f st rs ws, k = .accumulate f st rs ws) ∨ (∃ m key hb, k = .unique m key hb) ∨
          k = .flatten ∨ (∃ p, k = .pluck p))
    (h : (upd k s who v md).err = some e) : (upd k s who v md).effs = [] := by
  rw [upd_err_effs h]
  rcases hk with ⟨f, rfl⟩ | ⟨f, rfl⟩ | ⟨f, rfl⟩ | ⟨f, st, rs, ws, rfl⟩ | ⟨m, key, hb, rfl⟩ | rfl | ⟨p, rfl⟩ <;> rfl

/-- `partition` / `partition_unique`: `_retain_refs(metadata)` precedes the key function, so when the key
function (or the dict lookup on an unhashable key) raises, the retain — and nothing else — has happened. -/
theorem failing_partition_effects (k : Kind) (s : NState) (who : NodeId) (v : Val) (md : Meta) (e : Err)
    (hk : (∃ n key, k = .partition n key) ∨ (∃ n key kl, k = .partitionUnique n key kl))
    (h : (upd k s who v md).err = some e) : (upd k s who v md).effs = [.retain md] := by
  rw [upd_err_effs h]
  rcases hk with ⟨n, key, rfl⟩ | ⟨n, key, kl, rfl⟩ <;> rfl

/-! the hypothesis `(upd …).err = some e` is exactly "the user function failed on this arrival" -/

theorem user_failure_map (f : Fn) (s : NState) (who : NodeId) (v : Val) (md : Meta) (e : Err) :
    (upd (.map f) s who v md).err = some e ↔ f.eval v = .error e := by
  simp only [upd, raise]
  cases f.eval v <;> simp

theorem user_failure_filter (p : Fn) (s : NState) (who : NodeId) (v : Val) (md : Meta) (e : Err) :
    (upd (.filter p) s who v md).err = some e ↔ p.eval v = .error e := by
  simp only [upd, raise]
  cases p.eval v with
  | error e' => simp
  | ok b => simp only []; split <;> simp

/-- `accumulate` with a state and a plain (not `returns_state`) function: fails iff `func(state, x)` fails;
the very first element (no state yet) never fails. -/
theorem user_failure_accumulate (f : Fn2) (start : Option Val) (ws : Bool) (s : NState) (st : Val)
    (hs : s.acc = some st) (who : NodeId) (v : Val) (md : Meta) (e : Err) :
    (upd (.accumulate f start false ws) s who v md).err = some e ↔ f.eval st v = .error e := by
  simp only [upd, raise, hs]
  cases f.eval st v <;> simp

theorem user_failure_unique (m : Option Nat) (key : Fn) (hb : Bool) (s : NState) (who : NodeId) (v : Val) (md : Meta)
    (e : Err) (h : key.eval v = .error e) : (upd (.unique m key hb) s who v md).err = some e := by
  simp only [upd, raise, h]

theorem user_failure_partition (n : Nat) (key : Fn) (s : NState) (who : NodeId) (v : Val) (md : Meta)
    (e : Err) (h : key.eval v = .error e) : (upd (.partition n (some key)) s who v md).err = some e := by
  simp only [upd, raise, h]

/-- **Graph level.**  An `update` call in which the node's own code raises leaves *every* node's state and every
edge exactly as they were before the call (for every fuel) … -/
theorem failing_update_keeps_graph_state (fuel : Nat) (d who : NodeId) (v : Val) (md : Meta) (S : State)
    (e : Err) (hs : ∀ m, G d ≠ .sink m) (h : (upd (G d) (S.loc d) who v md).err = some e) :
    (update G fuel d who v md S).st.loc = S.loc ∧ (update G fuel d who v md S).st.downs = S.downs :=
  update_own_failure_frame G fuel d who v md S e hs h

/-- … and a synchronous sink (whether its function raises or not) changes nothing at all. -/
theorem sync_sink_keeps_graph_state (fuel : Nat) (d who : NodeId) (v : Val) (md : Meta) (S : State) (fn : Fn)
    (hs : G d = .sink (.sync fn)) : (update G fuel d who v md S).st = S :=
  update_sync_sink_frame G fuel d who v md S fn hs

/-- **At the end of a failed `_emit`** (any graph, any depth): the log ends with the arrival
`arrive d who v' md'` on which node `d` failed, reference-count events of that frame, and `raised d e`; and `d`
is either a synchronous sink whose function fails on `v'`, or a node whose `update` body fails on that arrival
*when run in the state `d` has at the end of the run* — the state of the failing node at the end is the state in
which its function was called: neither its own aborted call nor the unwinding changed it. -/
theorem failing_node_keeps_call_state (fuel : Nat) (n : NodeId) (v : Val) (md : Meta) (S : State) (e : Err)
    (h : (emitAt G fuel n v md S).err = some e) (he : e ≠ .outOfFuel) :
    ∃ (d who : NodeId) (v' : Val) (md' : Meta) (pre q : List Ev),
      (emitAt G fuel n v md S).log = pre ++ Ev.arrive d who v' md' :: q ++ [Ev.raised d e] ∧
      (∀ ev ∈ q, ev.isRc) ∧
      ((∃ fn, G d = .sink (.sync fn) ∧ fn.eval v' = .error e) ∨
       ((∀ m, G d ≠ .sink m) ∧
        (upd (G d) ((emitAt G fuel n v md S).st.loc d) who v' md').err = some e)) :=
  failSite_all G fuel (.emit n v md) S e h he

/-- **The projection theorem of C01 extends to the failing node of a failed run** (DAG, no coroutine kind).
When `_emit` raises `e`, there is a node `d` that raised it such that: the arrivals at `d` during the run are
`as ++ [a]`; when `d`'s code ran on `a` (and failed), `d` was in the state obtained by folding its `upd` over
the earlier arrivals `as` — and that is the state it has at the end; equivalently, its final state is the fold
over *all* its arrivals, the failing one contributing nothing. -/
theorem failing_run_projects_at_failing_node (hG : NoCoroutine G) (fuel : Nat) (n : NodeId) (v : Val) (md : Meta)
    (S : State) (hA : Acyclic S) (e : Err)
    (h : (emitAt G fuel n v md S).err = some e) (he : e ≠ .outOfFuel) :
    ∃ (d : NodeId) (a : Arr) (as : List Arr),
      Ev.raised d e ∈ (emitAt G fuel n v md S).log ∧
      arrivalsAt d (emitAt G fuel n v md S).log = as ++ [a] ∧
      (emitAt G fuel n v md S).st.loc d = replay G d (S.loc d) as ∧
      (emitAt G fuel n v md S).st.loc d = replay G d (S.loc d) (arrivalsAt d (emitAt G fuel n v md S).log) ∧
      ((∃ fn, G d = .sink (.sync fn) ∧ fn.eval a.2.1 = .error e) ∨
       ((∀ m, G d ≠ .sink m) ∧ failsAt (G d) (replay G d (S.loc d) as) a = true ∧
        (upd (G d) (replay G d (S.loc d) as) a.1 a.2.1 a.2.2).err = some e)) := by
  obtain ⟨d, who, v', md', as, h1, h2, h3, h4⟩ := abort_proj_all G hG fuel (.emit n v md) S e hA h he
  simp only [interp] at h1 h2 h3 h4
  refine ⟨d, (who, v', md'), as, h3, h1, h2, ?_, ?_⟩
  · rw [h1, replay_append, ← h2]
    rcases h4 with ⟨fn, hfn, _⟩ | ⟨_, hu⟩
    · simp [replay, hfn, upd, finalLoc]
    · simp only [replay, List.foldl_cons, List.foldl_nil]
      exact (upd_err_finalLoc hu).symm
  · rcases h4 with h4 | ⟨hs, hu⟩
    · exact Or.inl h4
    · rw [h2] at hu
      exact Or.inr ⟨hs, by simp [failsAt, hu], hu⟩

/-! ### 3. Later elements are processed as if the failing element had not been offered -/

/-- **The node run over an arrival list** (state and everything it emits, `localRun` of C01 — the graph-level
projection theorem says this is what each node of a graph does) **equals the run over the list with the failing
arrivals removed** (`survivors`: the arrivals on which the node's code did not raise, state threaded). -/
theorem later_as_if_absent (k : Kind) (s : NState) (as : List Arr) :
    localRun k s as = localRun k s (survivors k s as) :=
  localRun_survivors k s as

/-- … and in that reduced run nothing fails (so `survivors` really removes all and only the failing arrivals:
it is idempotent and leaves a failure-free list alone). -/
theorem survivors_never_fail (k : Kind) (s : NState) (as : List Arr) :
    NoFail k s (survivors k s as) ∧ survivors k s (survivors k s as) = survivors k s as ∧
    (NoFail k s as → survivors k s as = as) :=
  ⟨survivors_noFail k s as, survivors_of_noFail k s _ (survivors_noFail k s as), survivors_of_noFail k s as⟩

/-- When failing depends on the arrival only (on all states reachable under a node invariant `I`), the reduced
list is the plain `filter`. -/
theorem later_as_if_absent_filter (k : Kind) (I : NState → Prop) (bad : Arr → Bool)
    (hstep : ∀ s a, I s → I (stepLoc k s a).1) (hbad : ∀ s a, I s → failsAt k s a = bad a)
    (s : NState) (hs : I s) (as : List Arr) :
    localRun k s as = localRun k s (as.filter (fun a => !bad a)) := by
  rw [localRun_survivors, survivors_eq_filter k I bad hstep hbad s hs]

/-- `map f`: outputs and state are those for the arrival list without the elements on which `f` raises. -/
theorem later_as_if_absent_map (f : Fn) (s : NState) (as : List Arr) :
    localRun (.map f) s as =
      localRun (.map f) s (as.filter (fun a => match f.eval a.2.1 with | .ok _ => true | .error _ => false)) := by
  have := later_as_if_absent_filter (.map f) (fun _ => True)
    (fun a => match f.eval a.2.1 with | .ok _ => false | .error _ => true)
    (fun _ _ _ => trivial)
    (fun s a _ => by simp only [failsAt, upd, raise]; cases f.eval a.2.1 <;> rfl) s trivial as
  rw [this]
  congr 1
  apply List.filter_congr
  intro a _
  cases f.eval a.2.1 <;> rfl

/-! ### 4. The failed element's completion callback is never triggered -/

/-- **Within the failing run** (partial: unbuffered kinds only, see the header).  On a graph of unbuffered kinds (source, union, map, starmap, filter, accumulate,
slice, unique, flatten, pluck, synchronous and asynchronous sinks), let `_emit` at `n` with metadata `md`
carrying the counter `r` end in an exception.  If before the call the counter was at least what unfinished
asynchronous consumers hold (`0 ≤ held r S`; in particular: fresh), then the callback of `r` was not scheduled
during the run, and afterwards the counter exceeds what the pending consumers hold by at least the number of
times `md` mentions `r`: the retain made by the aborted frame is never released. -/
theorem failed_never_fires_partial (hG : Unbuffered G) (fuel : Nat) (n : NodeId) (v : Val) (md : Meta) (S : State)
    (e : Err) (r : Nat) (hr : 0 < mult r md) (hS : 0 ≤ held r S)
    (h : (emitAt G fuel n v md S).err = some e) (he : e ≠ .outOfFuel) :
    Ev.fire r ∉ (emitAt G fuel n v md S).log ∧
    held r (emitAt G fuel n v md S).st ≥ (mult r md : Nat) ∧
    0 < (emitAt G fuel n v md S).st.count r := by
  obtain ⟨a, b⟩ := emitAt_abort G hG r fuel n v md S e h he
  have hc := held_le_count r (emitAt G fuel n v md S).st
  exact ⟨b (by omega), by omega, by omega⟩

/-- The fresh case as the property states it: the counter of the element is 0 and no pending consumer holds it. -/
theorem failed_never_fires_fresh_partial (hG : Unbuffered G) (fuel : Nat) (n : NodeId) (v : Val) (md : Meta)
    (S : State) (e : Err) (r : Nat) (hr : ∃ m ∈ md, m.ref = some r) (h0 : S.count r = 0)
    (hp : S.pending = []) (h : (emitAt G fuel n v md S).err = some e) (he : e ≠ .outOfFuel) :
    Ev.fire r ∉ (emitAt G fuel n v md S).log ∧ 0 < (emitAt G fuel n v md S).st.count r := by
  have hm : 0 < mult r md := by
    obtain ⟨m, hm, hmr⟩ := hr
    clear h
    induction md with
    | nil => cases hm
    | cons x xs ih =>
      unfold mult
      rcases List.mem_cons.1 hm with rfl | hm'
      · simp [hmr]; omega
      · have := ih hm'; omega
  have := failed_never_fires_partial G hG fuel n v md S e r hm (by simp [held, h0, hp, pendSum]) h he
  exact ⟨this.1, this.2.2⟩

/-- **Forever.**  After the failed run the state is `Safe r` (given that no suspended flush was waiting to
release `r`), and `Safe r` is invariant under everything that can happen later — pushing further elements in
anywhere with any metadata (successfully, failing, or running out of fuel), asynchronous consumers finishing,
asynchronous consumers failing — and none of these ever schedules the callback of `r`; the counter stays
positive. -/
theorem failed_never_fires_forever_partial (hG : Unbuffered G) (fuel : Nat) (n : NodeId) (v : Val) (md : Meta)
    (S : State) (e : Err) (r : Nat) (hr : 0 < mult r md) (hS : 0 ≤ held r S)
    (hw : ∀ w ∈ S.waiters, mult r w.2 = 0)
    (h : (emitAt G fuel n v md S).err = some e) (he : e ≠ .outOfFuel)
    (ops : List Op) (S' : State) (l : List Ev)
    (hops : runOps G ops (emitAt G fuel n v md S).st = some (S', l)) :
    Ev.fire r ∉ l ∧ 0 < S'.count r ∧ Safe r S' := by
  have h1 := failed_never_fires_partial G hG fuel n v md S e r hr hS h he
  have i := mono_all G hG r fuel (.emit n v md) S trivial
  simp only [MonoP, interp] at i
  have hsafe : Safe r (emitAt G fuel n v md S).st := ⟨by omega, by rw [i.1]; exact hw⟩
  obtain ⟨a, b⟩ := runOps_safe G hG r ops _ S' l hsafe hops
  have hc := held_le_count r S'
  exact ⟨b, by have := a.1; omega, a⟩

/-- **Asynchronous consumers.**  When the awaitable of an asynchronous sink fails, nothing is released: every
counter keeps its value, the consumer's entry is gone so that it can never be finished (and released) later,
and a `Safe` counter stays safe — now with the consumer's references added to the never-released ones. -/
theorem sinkFail_keeps_count (tok : Tok) (S S' : State) (h : sinkFail tok S = some S') :
    S'.count = S.count ∧ sinkDone tok S' = none ∧ sinkFail tok S' = none ∧
    ∀ r, held r S ≤ held r S' := by
  unfold sinkFail at h
  cases hf : S.pending.find? (·.1 = tok) with
  | none => rw [hf] at h; cases h
  | some x =>
    rw [hf] at h
    simp only [Option.some.injEq] at h
    subst h
    have hnone : (S.pending.filter (·.1 ≠ tok)).find? (·.1 = tok) = none := by
      rw [List.find?_eq_none]
      intro y hy
      have := (List.mem_filter.1 hy).2
      simpa using this
    refine ⟨rfl, ?_, ?_, fun r => ?_⟩
    · simp only [sinkDone, hnone]
    · simp only [sinkFail, hnone]
    · have := pendSum_filter_le r (·.1 ≠ tok) S.pending
      simp only [held]; omega

/-! ### Non-vacuity -/

/-- `accumulate(failAdd)` over the arrivals 2, 1, 3 where `failAdd 3 1` raises on every `x ≡ 1 (mod 3)`:
the failing `1` leaves the state at 2 … -/
example : (localRun (.accumulate (.failAdd 3 1) none false false) {}
    [(0, .int 2, []), (0, .int 1, [])]).1.acc = some (.int 2) := by decide +kernel
/-- … it does fail there … -/
example : (upd (.accumulate (.failAdd 3 1) none false false) { acc := some (.int 2) } 0 (.int 1) []).err
    = some .valueError := by decide +kernel
/-- … and the outputs are 2, then 5 = 2 + 3: as if the 1 had never been offered. -/
example : (localRun (.accumulate (.failAdd 3 1) none false false) {}
    [(0, .int 2, []), (0, .int 1, []), (0, .int 3, [])]).2 = [(.int 2, []), (.int 5, [])] := by decide +kernel
example : survivors (.accumulate (.failAdd 3 1) none false false) {}
    [(0, .int 2, []), (0, .int 1, []), (0, .int 3, [])] = [(0, .int 2, []), (0, .int 3, [])] := by
  decide +kernel
/-- whether an arrival fails can depend on the state: the first element of an `accumulate` never fails (it
becomes the state), the same value fails later — `survivors` threads the state, a plain filter would not do -/
example : survivors (.accumulate (.failAdd 3 1) none false false) {}
    [(0, .int 1, []), (0, .int 1, []), (0, .int 3, [])] = [(0, .int 1, []), (0, .int 3, [])] := by
  decide +kernel

/-- source 0 → accumulate(failAdd 3 1) 1 → sink 2; source 0 → sink 3 (a sibling after the failing branch) -/
def c16G : NodeId → Kind
  | 0 => .source
  | 1 => .accumulate (.failAdd 3 1) none false false
  | _ => .sink (.sync .id)

def c16S : State :=
  { loc := fun i => if i = 1 then { ups := [0] } else {}
    downs := fun i => match i with | 0 => [1, 3] | 1 => [2] | _ => [] }

theorem c16G_noCoroutine : NoCoroutine c16G := by
  intro i; unfold c16G; split <;> rfl
theorem c16G_unbuffered : Unbuffered c16G := by
  intro i; unfold c16G; split <;> rfl
theorem c16S_acyclic : Acyclic c16S := by
  intro u d h
  unfold c16S at h
  simp only [] at h
  split at h <;> simp at h <;> (unfold NodeId at *; omega)

/-- three elements 2, 1, 3 pushed in one after the other, each with its own reference counter 10, 11, 12:
the second `_emit` raises ValueError, node 1 keeps `acc = 2`, the sibling sink 3 is not served, the callback of
counter 11 is not scheduled and the counter stays at 2 (the aborted frame's two retains, neither released) — while counters 10 and 12 fire; the third `_emit` delivers 5 = 2 + 3 to sink 2. -/
example :
    let r1 := emitAt c16G 20 0 (.int 2) [⟨0, some 10⟩] c16S
    let r2 := emitAt c16G 20 0 (.int 1) [⟨1, some 11⟩] r1.st
    let r3 := emitAt c16G 20 0 (.int 3) [⟨2, some 12⟩] r2.st
    r1.err = none ∧ r2.err = some .valueError ∧ r3.err = none ∧
    (r1.st.loc 1).acc = some (.int 2) ∧ (r2.st.loc 1).acc = some (.int 2) ∧ (r3.st.loc 1).acc = some (.int 5) ∧
    arrivalsAt 2 r3.log = [(1, .int 5, [⟨2, some 12⟩])] ∧
    arrivalsAt 3 r2.log = [] ∧
    hasFire 10 r1.log = true ∧ hasFire 11 r2.log = false ∧ hasFire 11 r3.log = false ∧ hasFire 12 r3.log = true ∧
    r2.st.count 11 = 2 ∧ r3.st.count 11 = 2 ∧ r3.st.count 10 = 0 ∧ r3.st.count 12 = 0 := by
  decide +kernel

/-- the hypothesis of `failure_reaches_emitter` holds of the failing run (node 1 raised ValueError), and so do
those of `failed_never_fires_fresh_partial` for counter 11 -/
example : Ev.raised 1 .valueError ∈ (emitAt c16G 20 0 (.int 1) [⟨1, some 11⟩]
    (emitAt c16G 20 0 (.int 2) [] c16S).st).log :=
  mem_of_any_isRaised (by decide +kernel)
example : Ev.fire 11 ∉ (emitAt c16G 20 0 (.int 1) [⟨1, some 11⟩] (emitAt c16G 20 0 (.int 2) [] c16S).st).log ∧
    0 < (emitAt c16G 20 0 (.int 1) [⟨1, some 11⟩] (emitAt c16G 20 0 (.int 2) [] c16S).st).st.count 11 :=
  failed_never_fires_fresh_partial c16G c16G_unbuffered 20 0 (.int 1) [⟨1, some 11⟩] _ .valueError 11
    ⟨_, List.mem_singleton.2 rfl, rfl⟩ (by decide +kernel) (by decide +kernel) (by decide +kernel)
    (by decide)

/-- … and those of `failing_run_projects_at_failing_node`: -/
example :=
  failing_run_projects_at_failing_node c16G c16G_noCoroutine 20 0 (.int 1) [] _
    ((c16S_acyclic).of_sublist (interp_downs_sublist c16G 20 (.emit 0 (.int 2) []) c16S)) .valueError
    (by decide +kernel) (by decide)

/-- source 0 → map(failIf 2 0) 1 → sink 2, an element with a reference counter: `err = ValueError`, no callback,
counter 1 -/
def c16G2 : NodeId → Kind
  | 0 => .source
  | 1 => .map (.failIf 2 0)
  | _ => .sink (.sync .id)

def c16S2 : State :=
  { loc := fun i => if i = 1 then { ups := [0] } else {}
    downs := fun i => match i with | 0 => [1] | 1 => [2] | _ => [] }

example : (emitAt c16G2 20 0 (.int 4) [⟨0, some 7⟩] c16S2).err = some .valueError ∧
    (emitAt c16G2 20 0 (.int 4) [⟨0, some 7⟩] c16S2).carried = none ∧
    hasFire 7 (emitAt c16G2 20 0 (.int 4) [⟨0, some 7⟩] c16S2).log = false ∧
    (emitAt c16G2 20 0 (.int 4) [⟨0, some 7⟩] c16S2).st.count 7 = 1 ∧
    -- an odd element goes through and its callback fires
    (emitAt c16G2 20 0 (.int 5) [⟨0, some 8⟩] c16S2).err = none ∧
    hasFire 8 (emitAt c16G2 20 0 (.int 5) [⟨0, some 8⟩] c16S2).log = true := by
  decide +kernel

/-- later operations on the state after the failure (the same element offered again and failing again, another
one succeeding): counter 7 only grows, never fires -/
example :
    (runOps c16G2 [.emit 20 0 (.int 4) [⟨0, some 7⟩], .emit 20 0 (.int 5) [⟨1, some 7⟩]]
      (emitAt c16G2 20 0 (.int 4) [⟨0, some 7⟩] c16S2).st).map
      (fun p => (p.1.count 7, hasFire 7 p.2)) = some (2, false) := by
  decide +kernel

/-- with a coroutine kind the exception is carried, not raised:
source 0 → partition(2, key = failIf 2 0) 1 → sink 2; the retain made before the key function stays -/
def c16G3 : NodeId → Kind
  | 0 => .source
  | 1 => .partition 2 (some (.failIf 2 0))
  | _ => .sink (.sync .id)

example : (emitAt c16G3 20 0 (.int 4) [⟨0, some 7⟩] c16S2).err = none ∧
    (emitAt c16G3 20 0 (.int 4) [⟨0, some 7⟩] c16S2).carried = some .valueError ∧
    (upd (c16G3 1) {} 0 (.int 4) [⟨0, some 7⟩]).effs.length = 1 ∧
    ((emitAt c16G3 20 0 (.int 4) [⟨0, some 7⟩] c16S2).st.loc 1).items = [] ∧
    (emitAt c16G3 20 0 (.int 4) [⟨0, some 7⟩] c16S2).st.count 7 = 1 := by
  decide +kernel

/-- an asynchronous consumer that fails: source 0 → sink(async) 1.  The emit succeeds (token 0 pending, counter
at 1 = the consumer's reference); `sinkFail 0` leaves the counter at 1 and the token cannot be finished any
more, whereas `sinkDone 0` would have released it and fired the callback. -/
def c16G4 : NodeId → Kind
  | 0 => .source
  | _ => .sink .async

def c16S4 : State := { loc := fun _ => {}, downs := fun i => match i with | 0 => [1] | _ => [] }

example :
    let r := emitAt c16G4 20 0 (.int 4) [⟨0, some 7⟩] c16S4
    r.err = none ∧ r.toks = [0] ∧ r.st.count 7 = 1 ∧ hasFire 7 r.log = false ∧
    ((sinkFail 0 r.st).map (fun S' => (S'.count 7, (sinkDone 0 S').isNone))) = some (1, true) ∧
    ((sinkDone 0 r.st).map (fun p => (p.1.count 7, hasFire 7 p.2))) = some (0, true) := by
  decide +kernel

end StreamzVerif.Graph
