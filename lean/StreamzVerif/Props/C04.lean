import StreamzVerif.Model.Graph
namespace StreamzVerif.Graph
theorem placeholder_C04 : True := trivial
end StreamzVerif.Graph
