import StreamzVerif.Proofs.RefCount
/-
C04 — checkpoint safety, synchronous half: on the dataflow model (`Model/Graph.lean`) the completion signal of
a reference counter (`Ev.fire r`: `RefCounter.release` found `count ≤ 0` and handed the callback to the event
loop) never precedes completion.  Vocabulary as in `Props/C05.lean` (`holders`, `Good`, `Step`, `Steps`,
`logNet`); the proofs are in `Proofs/RefCount.lean`.

What "the moment of the signal" is.  The log of an operation is also the history of the counter
(`count_tracks_log` in C05): the count of `r` at the moment after the log prefix `p` is
`S.count r + logNet r p`.  `RefCounter.release` does not *run* the callback, it schedules it on the loop
(`self.loop.add_callback(self.cb)`, core.py 107-110); it runs after the current synchronous operation has
returned.  `sync_never_early` therefore states, for every `fire r` in the log of a top-level operation started
in a quiescent state:
  * at that moment the count of `r` is exactly 0 — so by the invariant `count = holders + retains of the
    `_emit` frames on the stack` nothing is in flight and nothing else holds it;
  * the rest of the operation never retains or releases `r` again (no holder appears afterwards);
  * at the end of the operation — the earliest moment the callback can run — `holders r = 0`: no node buffers
    an element carrying `r`, no asynchronous consumer that received it is still running, no `partition` flush
    that emitted it is still waiting for its consumers;
and `sync_never_early_later` extends this to every later quiescent point (unless the environment injects the
same reference again).

A remark on granularity: inside one `update` body the model performs `release old` *before* the assignment
that drops `old` from the node's buffer in four places (`partition_unique` replacing an entry, `combine_latest`
and `zip_latest` replacing a slot, `collect.flush`).  For `combine_latest`, `zip_latest` and `flush` this is the
order of the Python statements (core.py: `_release_refs(self.metadata[idx])` precedes
`self.metadata[idx] = metadata`; `_release_refs(metadata)` precedes `self.metadata_cache.clear()`); in
`partition_unique` Python pops the entry first and the model's two adjacent effects are the other way round.
Between these two adjacent statements of the same body no other code runs, so a state-based "`holders r = 0` in
the instant between them" would be false for the very slot that is being overwritten and says nothing about
safety.  `sync_never_early_moment` therefore excepts the node whose own body performs the release, and
`sync_never_early` covers it at the point where the operation returns.
-/
namespace StreamzVerif.Graph
open RefCount

variable (G : NodeId → Kind)

/-- **`sync_never_early`**: every completion signal given during a top-level operation (emit at any node /
`collect.flush()` / an asynchronous consumer finishing) started in a quiescent state is given at count exactly
0, is final for this operation, and at the end of the operation nobody holds the reference. -/
theorem sync_never_early {nodes : List NodeId} (hn : nodes.Nodup) {S S' : State} {op : Op} {l : List Ev}
    (hG : Good G nodes S) (h : Step G nodes S op S' l) (r : Nat) (p q : List Ev)
    (hl : l = p ++ Ev.fire r :: q) :
    S.count r + logNet r p = 0 ∧ (∀ e ∈ q, evNet r e = 0) ∧ S'.count r = 0 ∧ holders G nodes S' r = 0 := by
  have h0 : 0 ≤ S.count r := by rw [hG.bal r]; omega
  have hlog := step_logOK G r hG h
  obtain ⟨hz, hd⟩ := (step_safeTop G hn r hG h).fire_dead hlog.2 h0 hl
  have hnet : logNet r q = 0 := by
    have a := logNet_nonneg (r := r) (l := q) (fun e he => by rw [hd e he]; omega)
    have b := logNet_nonpos (r := r) (l := q) (fun e he => by rw [hd e he]; omega)
    omega
  have hc : S'.count r = 0 := by
    rw [hlog.1, hl]
    simp only [logNet_append, logNet_cons, evNet_fire]
    omega
  have := (step_good G hn hG h).bal r
  exact ⟨hz, hd, hc, by omega⟩

/-- Contrapositive, the form the property is usually read in: while an element carrying `r` is still buffered
in a node, still being handled by an asynchronous consumer, or still awaited by a `partition` flush at the end
of an operation, that operation has not signalled completion of `r`. -/
theorem sync_held_blocks {nodes : List NodeId} (hn : nodes.Nodup) {S S' : State} {op : Op} {l : List Ev}
    (hG : Good G nodes S) (h : Step G nodes S op S' l) (r : Nat) (hheld : 0 < holders G nodes S' r) :
    Ev.fire r ∉ l := by
  intro hm
  obtain ⟨p, q, hl⟩ := List.append_of_mem hm
  have := (sync_never_early G hn hG h r p q hl).2.2.2
  omega

/-- **Signalled once**: an operation schedules the callback of a reference at most once. -/
theorem sync_fires_once {nodes : List NodeId} (hn : nodes.Nodup) {S S' : State} {op : Op} {l : List Ev}
    (hG : Good G nodes S) (h : Step G nodes S op S' l) (r : Nat) (p q : List Ev)
    (hl : l = p ++ Ev.fire r :: q) : Ev.fire r ∉ q := by
  have hd := (sync_never_early G hn hG h r p q hl).2.1
  have hlog := step_logOK G r hG h
  subst hl
  obtain ⟨e', he'⟩ := hlog.2.drop
  simp only [FireOK, expNext] at he'
  exact he'.2.no_fire hd

/-- **... and never again**: after the operation in which `r` was signalled, in every later quiescent state of
the session nobody holds `r`, its count is 0, and no later operation signals it a second time — provided the
environment does not emit the same counter again (which would start a new life of the counter). -/
theorem sync_never_early_later {nodes : List NodeId} (hn : nodes.Nodup) {S S1 S2 : State} {op : Op}
    {ops : List Op} {l l2 : List Ev} (hG : Good G nodes S) (h : Step G nodes S op S1 l) (r : Nat)
    (hf : Ev.fire r ∈ l) (h2 : Steps G nodes S1 ops S2 l2)
    (hops : ∀ o ∈ ops, ∀ n v md, o = Op.emit n v md → wMd r md = 0) :
    holders G nodes S2 r = 0 ∧ S2.count r = 0 ∧ Ev.fire r ∉ l2 ∧ ∀ e ∈ l2, evNet r e = 0 := by
  obtain ⟨p, q, hl⟩ := List.append_of_mem hf
  have hc := (sync_never_early G hn hG h r p q hl).2.2.1
  have hG1 := step_good G hn hG h
  obtain ⟨a, b, c⟩ := steps_dead G hn r h2 hG1 hc hops
  have := (steps_good G hn h2 hG1).bal r
  exact ⟨by omega, c, b, a⟩

/-- **`sync_never_early_moment`** — the state at the moment of the signal.  `RunA` is the run with an
instrumented log (same rules as `Run`; every event carries the state in which the primitive that logged it
started and, for the retains / releases written in an `update` body, the node executing that body).  For a
top-level `_emit` from a quiescent state: whenever a release schedules the callback of `r`, in the state at
that moment
  * no asynchronous consumer that is still running carries `r`,
  * no suspended `partition` flush is waiting for consumers of an emission carrying `r`,
  * no node buffers an element carrying `r` — with the only possible exception of the node whose own `update`
    body is performing that release (it is replacing or flushing the entry; see the remark on granularity above,
    and `sync_never_early` for the state when the operation returns). -/
theorem sync_never_early_moment {nodes : List NodeId} (hn : nodes.Nodup) {n : NodeId} {v : Val} {md : Meta}
    {S S' : State} {l : List Ev} {t : List Tok} (hG : Good G nodes S) (hin : n ∈ nodes)
    (h : Run G (.emit n v md) S S' l t) :
    ∃ al, RunA G (.emit n v md) S S' al t ∧ al.map (·.1) = l ∧
      ∀ r X w, (Ev.fire r, X, w) ∈ al →
        pendHolds X.pending r = 0 ∧ waitHolds X.waiters r = 0 ∧
          ∀ i ∈ nodes, some i ≠ w → nodeHolds (G i) (X.loc i) r = 0 := by
  obtain ⟨al, ha, hl, hq⟩ := emit_moment G hn hG hin h
  exact ⟨al, ha, hl, fun r X w hm => holdersExcept_zero G (hq r _ hm rfl)⟩

/-- the same for `collect.flush()` -/
theorem sync_never_early_moment_flush {nodes : List NodeId} (hn : nodes.Nodup) {d : NodeId}
    {S S' : State} {l : List Ev} {t : List Tok} (hG : Good G nodes S) (hin : d ∈ nodes) (hk : G d = .collect)
    (h : Run G (.effs d (flushProg (S.loc d))) S S' l t) :
    ∃ al, RunA G (.effs d (flushProg (S.loc d))) S S' al t ∧ al.map (·.1) = l ∧
      ∀ r X w, (Ev.fire r, X, w) ∈ al →
        pendHolds X.pending r = 0 ∧ waitHolds X.waiters r = 0 ∧
          ∀ i ∈ nodes, some i ≠ w → nodeHolds (G i) (X.loc i) r = 0 := by
  obtain ⟨al, ha, hl, hq⟩ := flush_moment G hn hG hin hk h
  exact ⟨al, ha, hl, fun r X w hm => holdersExcept_zero G (hq r _ hm rfl)⟩

/-- **`sync_pending_consumer_blocks`**: a reference carried by an asynchronous consumer invocation that has
not finished (`x ∈ S.pending`) has count `≥ 1`; the end of *another* invocation (`sinkDone tok`, `tok ≠ x.1`)
— including all the `partition` flushes it wakes up — does not signal it, leaves its count `≥ 1` and leaves
the invocation pending. -/
theorem sync_pending_consumer_blocks {nodes : List NodeId} {S : State} (hG : Good G nodes S)
    {x : Tok × NodeId × Meta} (hx : x ∈ S.pending) {r : Nat} (hr : 0 < wMd r x.2.2) :
    1 ≤ S.count r ∧ ∀ tok S' l, sinkDone tok S = some (S', l) → tok ≠ x.1 →
      Ev.fire r ∉ l ∧ 1 ≤ S'.count r ∧ x ∈ S'.pending :=
  pending_blocks G hG hx hr

/-- ... and no other operation signals it either: as long as the invocation is pending at the end of an
operation, that operation did not signal `r`. -/
theorem sync_pending_consumer_blocks_all {nodes : List NodeId} (hn : nodes.Nodup) {S S' : State} {op : Op}
    {l : List Ev} (hG : Good G nodes S) (h : Step G nodes S op S' l) {x : Tok × NodeId × Meta}
    (hx : x ∈ S'.pending) {r : Nat} (hr : 0 < wMd r x.2.2) : Ev.fire r ∉ l := by
  refine sync_held_blocks G hn hG h r ?_
  have := wMd_le_pendHolds (r := r) hx
  simp only [holders]; omega

/-! ### Non-vacuity -/

section Examples

/-- the callbacks scheduled by a log, in order -/
def firedRefs4 (l : List Ev) : List Nat := l.filterMap fun | .fire r => some r | _ => none

/-- source 0 → two asynchronous sinks 1, 2 -/
def rcGa : NodeId → Kind
  | 0 => .source
  | _ => .sink .async
def rcSa : State := { loc := fun _ => {}, downs := fun i => match i with | 0 => [1, 2] | _ => [] }

theorem rcSa_good : Good rcGa [0, 1, 2] rcSa := by
  refine good_init rcGa ⟨?_, ?_⟩ ?_ ?_ rfl rfl (fun _ => rfl)
  · intro u d hd
    unfold rcSa at hd; simp only [] at hd
    split at hd <;> simp at hd
    rcases hd with rfl | rfl <;> decide
  · intro u hu d hd
    unfold rcSa at hd; simp only [] at hd
    split at hd <;> simp at hd
    rcases hd with rfl | rfl <;> simp
  · intro i hi _
    simp only [List.mem_cons, List.not_mem_nil, or_false] at hi
    rcases hi with rfl | rfl | rfl <;> simp [rcGa]
  · intro i hi
    simp only [List.mem_cons, List.not_mem_nil, or_false] at hi
    rcases hi with rfl | rfl | rfl <;> rfl

def rcA1 := emitAt rcGa 10 0 (.int 1) [⟨0, some 7⟩] rcSa

/-- after the emission both consumers are running: count 2 = two holders, nothing signalled -/
example : rcA1.err = none ∧ rcA1.carried = none ∧ rcA1.st.count 7 = 2 ∧ holders rcGa [0, 1, 2] rcA1.st 7 = 2 ∧
    rcA1.st.pending.map (·.1) = [0, 1] ∧ firedRefs4 rcA1.log = [] := by decide +kernel
/-- the first consumer finishes: count 1, still not signalled; the second finishes: count 0, signalled -/
def rcA2 : State := ((sinkDone 0 rcA1.st).map (·.1)).getD rcA1.st
example : (sinkDone 0 rcA1.st).map (fun p => (p.1.count 7, firedRefs4 p.2)) = some (1, []) := by decide +kernel
example : (sinkDone 1 rcA2).map (fun p => (p.1.count 7, firedRefs4 p.2, holders rcGa [0, 1, 2] p.1 7)) =
    some (0, [7], 0) := by decide +kernel
/-- the theorems apply: the state after the emission is quiescent -/
example : Good rcGa [0, 1, 2] rcA1.st :=
  (step_good rcGa (by decide) rcSa_good
    (step_of_emitAt rcGa (nodes := [0, 1, 2]) (by decide) (by decide +kernel) (by decide +kernel)))

end Examples

end StreamzVerif.Graph
