import StreamzVerif.Props.AsyncWindows
/-!
# C08 — time windows conserve elements and honour their deadline (index module)

All C08 theorems live in `Props/AsyncWindows.lean` (prefix `c08_`), over the transition systems `TW`
(timed_window / timed_window_unique) and `PT` (partition with timeout) of `Model/AsyncWindows.lean`,
for every action sequence: `c08_timed_window_conservation`, `c08_timed_window_unique_conservation`,
`c08_timed_window_unique_batch_spec`, `c08_timed_window_deadline(_sync)`,
`c08_timed_window_buffered_not_overdue`, `c08_partition_size`, `c08_partition_timer_iff`,
`c08_partition_no_timer_for_n1`, `c08_partition_deadline`, `c08_partition_buffered_not_overdue`,
`c08_partition_conservation`.
-/
