import StreamzVerif.Model.Graph
namespace StreamzVerif.Graph
theorem placeholder_C08 : True := trivial
end StreamzVerif.Graph
