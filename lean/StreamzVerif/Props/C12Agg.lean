import StreamzVerif.Proofs.ResumeAgg
import StreamzVerif.Props.C12
/-!
# C12 instantiated for the models of C06 (`Model/Agg.lean`): reductions and groupby aggregations

One statement for EVERY `Aggregation` object of the model — `Sum`, `Count`, `Size`, `Mean`,
`MeanOrig`, `Var ddof`, `ValueCounts`, `GroupbySum`, `GroupbyCount`, `GroupbySize`, `GroupbyMean`,
`GroupbyVar ddof` — wired as the code wires them (`accumulator` / `groupby_accumulator` inside the
`accumulate` node, including the node keeping its old state when `on_new` raises).
`acc : Option σ` is the node's `state`: `none` is `start=None`, `some s` a state handed to `start=`.
As everywhere in C12 the proof is immediate because the model is a pure function of that state.
-/
namespace StreamzVerif.Resume
open StreamzVerif.Agg

/-- Reductions and groupby aggregations: a new node started with the state the first node holds
after `k` batches emits (or raises) for the remaining batches exactly what the uninterrupted node
does, and ends in the same state. -/
theorem resume_aggregation {β σ ρ : Type} (A : Aggregation β σ ρ) (acc : Option σ) (bs : List β) (k : Nat) :
    runFrom A (stateFrom A acc (bs.take k)) (bs.drop k) = (runFrom A acc bs).drop k ∧
      stateFrom A (stateFrom A acc (bs.take k)) (bs.drop k) = stateFrom A acc bs := by
  have h := resume (node A) acc bs k
  simp only [resumeAt, stateAfter, agg_run_eq, Prod.mk.injEq] at h
  exact ⟨h.2, h.1⟩

/-- Several restarts: processing the segments one fresh node after the other, each started from
its predecessor's final state, emits what one node emits over the concatenation. -/
theorem resume_aggregation_many {β σ ρ : Type} (A : Aggregation β σ ρ) (acc : Option σ) (segs : List (List β)) :
    chain (node A) acc segs = (stateFrom A acc segs.flatten, runFrom A acc segs.flatten) := by
  rw [resume_many, agg_run_eq]

/-! ### Non-vacuity: concrete aggregations, concrete cuts -/

-- running mean of a column: batches [1,NaN] [] [3] ; resumed after the first batch
example : runFrom Mean (stateFrom Mean none [[some 1, none]]) [[], [some 3]] = [some 1, some 2] := by
  decide +kernel
example : runFrom Mean none [[some 1, none], [], [some 3]] = [some 1, some 1, some 2] := by decide +kernel
-- groupby-sum with a key that only appears after the cut
example : (runFrom GroupbySum (stateFrom GroupbySum none [[(some 1, some 2)]]) [[(some 2, some 5), (some 1, some 1)]]) =
    [[(1, 3), (2, 5)]] := by decide +kernel

end StreamzVerif.Resume
