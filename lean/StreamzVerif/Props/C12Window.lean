import StreamzVerif.Proofs.ResumeWindow
import StreamzVerif.Props.C12
/-!
# C12 instantiated for the models of C07 (`Model/Window.lean`): fixed-size and time windows,
windowed groupby

`windowAcc d ops` is `window_accumulator` for the window kind `d` (`window(n=N)`, `window(value=T)`,
and the unrepaired `diff_loc`) and ANY aggregation `ops` (`Sum.ops`, `Count.ops`, `Size.ops`,
`Mean.ops`, `Mean.opsOrig`, `Var.ops ddof`, `ValueCounts.ops`); the checkpoint is `{dfs, state}`.
`groupbyAcc d ops streamGrouper` is `windowed_groupby_accumulator` for any `GroupbySum/Count/Size/
Mean/Var` and both grouper kinds; the checkpoint is `{dfs, state, size-state[, groupers]}`; it can
fail (the `assert`s of `diff_align`), hence the fallible form.
`acc : Option _` is the node's `state` (`none` = `start=None`).
-/
namespace StreamzVerif.Resume
open StreamzVerif.Window

/-- Fixed-size and time windows, any aggregation: resuming from the accumulator held after `k`
batches gives the same final accumulator and the uninterrupted results without the first `k`. -/
theorem resume_window {S R : Type} (d : Diff) (ops : Ops S R) (acc : Option (Acc S)) (bs : List Batch) (k : Nat) :
    Window.run (windowAcc d ops) (Window.run (windowAcc d ops) acc (bs.take k)).1 (bs.drop k) =
      ((Window.run (windowAcc d ops) acc bs).1, (Window.run (windowAcc d ops) acc bs).2.drop k) := by
  simp only [window_run_eq]
  exact resume (liftW (windowAcc d ops)) acc bs k

/-- The same with several restarts. -/
theorem resume_window_many {S R : Type} (d : Diff) (ops : Ops S R) (acc : Option (Acc S)) (segs : List (List Batch)) :
    chain (liftW (windowAcc d ops)) acc segs = Window.run (windowAcc d ops) acc segs.flatten := by
  rw [resume_many, window_run_eq]

/-- Windowed groupby: the run over all batches is the run over the first `k` followed, from the
accumulator reached, by the run over the rest — it fails (assertion) iff one of the parts fails,
and otherwise the results are the concatenation. -/
theorem resume_windowed_groupby {S R : Type} (d : Diff) (ops : GOps S R) (streamGrouper : Bool)
    (acc : Option (GAcc S)) (bs : List Batch) (k : Nat) :
    Window.runOpt (groupbyAcc d ops streamGrouper) acc bs =
      (Window.runOpt (groupbyAcc d ops streamGrouper) acc (bs.take k)).bind (fun a =>
        (Window.runOpt (groupbyAcc d ops streamGrouper) a.1 (bs.drop k)).map (fun c => (c.1, a.2 ++ c.2))) := by
  simp only [window_runOpt_eq]
  exact resume_fallible (liftWOpt (groupbyAcc d ops streamGrouper)) acc bs k

/-- Windowed groupby, successful uninterrupted run: the resumed run succeeds, ends in the same
accumulator and emits the suffix. -/
theorem resume_windowed_groupby_ok {S R : Type} (d : Diff) (ops : GOps S R) (streamGrouper : Bool)
    (acc : Option (GAcc S)) (bs : List Batch) (k : Nat) (fin : Option (GAcc S)) (out : List (FMap Int R))
    (h : Window.runOpt (groupbyAcc d ops streamGrouper) acc bs = some (fin, out)) :
    ∃ mid pre, Window.runOpt (groupbyAcc d ops streamGrouper) acc (bs.take k) = some (mid, pre) ∧
      Window.runOpt (groupbyAcc d ops streamGrouper) mid (bs.drop k) = some (fin, out.drop pre.length) ∧
      out.take pre.length = pre := by
  simp only [window_runOpt_eq] at h ⊢
  exact resume_fallible_ok (liftWOpt (groupbyAcc d ops streamGrouper)) acc bs k fin out h

/-! ### Non-vacuity -/

-- window(n=2).sum over batches [1,2] [] [3]: resumed after the first batch
example :
    (Window.run (windowAcc (.iloc 2) Sum.ops)
      (Window.run (windowAcc (.iloc 2) Sum.ops) none [[⟨0, some 1, 0⟩, ⟨1, some 2, 0⟩]]).1
      [[], [⟨2, some 3, 0⟩]]).2 = [3, 5] := by decide +kernel
-- a windowed groupby run that succeeds (hypothesis of `resume_windowed_groupby_ok`)
example :
    ((Window.runOpt (groupbyAcc (.iloc 2) GroupbySum.ops true) none
      [[⟨0, some 1, 1⟩, ⟨1, some 2, 2⟩], [⟨2, some 3, 1⟩]]).map (·.2)) = some [[(1, 1), (2, 2)], [(1, 3), (2, 2)]] := by
  decide +kernel

end StreamzVerif.Resume
