import StreamzVerif.Proofs.Kafka
/-!
# C09 — Kafka batches: gap-free offsets, commit after processing, at-least-once

Property theorems about the model `Model/Kafka.lean` of `FromKafkaBatched`
(helper lemmas and invariants live in `Proofs/Kafka.lean`).

Reading guide.  A state `s` holds, per partition, the broker side (watermarks,
committed offset of the group) and the process side (position, batches emitted
by the running incarnation, each with a `done` flag).  `run cfg s acts` applies
an arbitrary sequence of `produce / addPartitions / truncate / poll / complete /
restart` actions.  "One incarnation" is `run cfg (step cfg s .restart) acts`
with `NoRestart acts`; because `acts` is arbitrary, the state it ends in is
*any* instant of the incarnation, in particular any instant at which the process
may crash.  `StWF cfg s` (well-formedness) holds of every reachable state
(`reachable_wf`), so theorems assuming it apply to every history.

All theorems are for every configuration (`max_batch_size`, `refresh_partitions`,
`auto.offset.reset`, `npartitions`), every number of partitions, every action
sequence of any length.
-/
namespace StreamzVerif.Kafka

/-- Every state reachable from an empty topic with `n` partitions is well-formed
(watermarks ordered, committed offset and positions between 0 and the high watermark, …). -/
theorem reachable_wf (cfg : Cfg) (n : Nat) (acts : List Act) : StWF cfg (run cfg (init n) acts) :=
  stwf_run acts (stwf_init cfg n)

/-- Well-formedness is preserved by every action sequence, so the segment theorems below
chain across any number of incarnations. -/
theorem wf_preserved (cfg : Cfg) (s : St) (hs : StWF cfg s) (acts : List Act) : StWF cfg (run cfg s acts) :=
  stwf_run acts hs

/-! ## Clause 1: shape of the emitted ranges -/

/-- Every range emitted by the running incarnation is non-empty, ends strictly below the high
watermark (it *never passes the high watermark*: the state may be the one right after the poll
that emitted it) and holds at most `max_batch_size` offsets. -/
theorem ranges_bounded (cfg : Cfg) (s : St) (hs : StWF cfg s) (j : Nat) (q : Part)
    (hq : s.parts[j]? = some q) (b : Batch) (hb : b ∈ q.batches) :
    0 ≤ b.lo ∧ b.lo ≤ b.hi ∧ b.hi < q.high ∧ b.hi - b.lo + 1 ≤ (cfg.maxBatch : Int) := by
  have := (hs j q hq).bounds (rng b) (List.mem_map_of_mem hb)
  simpa [rng] using this

/-- Ranges of one partition are emitted in increasing order and never overlap
(retention truncation allowed). -/
theorem ranges_ordered_disjoint (cfg : Cfg) (s : St) (hs : StWF cfg s) (j : Nat) (q : Part)
    (hq : s.parts[j]? = some q) (i k : Nat) (b1 b2 : Batch)
    (h1 : q.batches[i]? = some b1) (h2 : q.batches[k]? = some b2) (hik : i < k) : b1.hi < b2.lo := by
  have hw := hs j q hq
  have := chain_lt (i := i) (k := k) (r1 := rng b1) (r2 := rng b2) hw.chain (fun r hr => (hw.bounds r hr).2.1)
    (by simp [Part.ranges, h1]) (by simp [Part.ranges, h2]) hik
  simpa [rng] using this

/-- Consecutive ranges are adjacent, except that the later one may have been pushed up to the
low watermark by retention (`lowest = max(position, low)`, line 570). -/
theorem ranges_gap_only_by_truncation (cfg : Cfg) (s : St) (hs : StWF cfg s) (j : Nat) (q : Part)
    (hq : s.parts[j]? = some q) (i : Nat) (b1 b2 : Batch)
    (h1 : q.batches[i]? = some b1) (h2 : q.batches[i + 1]? = some b2) :
    b2.lo = b1.hi + 1 ∨ (b1.hi + 1 < b2.lo ∧ b2.lo ≤ q.low) := by
  have hw := hs j q hq
  have := chain_get_succ (i := i) (r1 := rng b1) (r2 := rng b2) hw.chain
    (by simp [Part.ranges, h1]) (by simp [Part.ranges, h2])
  simp only [rng] at this
  omega

/-- **Contiguity.**  Within one incarnation, if retention does not delete messages during the
incarnation and the start offset was still retained (`low ≤ position`), the ranges emitted for a
partition are exactly `[l₀,h₀], [h₀+1,h₁], …` with no gap and no overlap. -/
theorem ranges_contiguous (cfg : Cfg) (s : St) (hs : StWF cfg s) (acts : List Act)
    (hnr : NoRestart acts) (hnt : NoTruncate acts) (j : Nat) (q1 q2 : Part)
    (h1 : (step cfg s .restart).parts[j]? = some q1)
    (hret : q1.committed = NONE ∨ q1.low ≤ q1.committed)
    (h2 : (run cfg (step cfg s .restart) acts).parts[j]? = some q2)
    (i : Nat) (b1 b2 : Batch) (hb1 : q2.batches[i]? = some b1) (hb2 : q2.batches[i + 1]? = some b2) :
    b2.lo = b1.hi + 1 := by
  obtain ⟨q2', hq2', _, hseg, _⟩ := segment_notrunc (stwf_step .restart hs) hnr hnt h1 (atStart_restart h1) hret
  rw [h2] at hq2'; cases hq2'
  cases hh : q2.batches.head? with
  | none => simp [List.head?_eq_none_iff] at hh; simp [hh] at hb1
  | some b0 =>
    have ht := hseg.tiles (rng b0) (by simp [Part.ranges, hh])
    have := tiles_get_succ (i := i) (r1 := rng b1) (r2 := rng b2) ht
      (by simp [Part.ranges, hb1]) (by simp [Part.ranges, hb2])
    simpa [rng] using this

/-! ## Clause 2: where an incarnation starts -/

/-- The first range after a (re)start begins at the group's committed offset — or, if retention
has meanwhile deleted that offset, at the low watermark (the clamp of line 570). -/
theorem starts_at_committed (cfg : Cfg) (s : St) (hs : StWF cfg s) (acts : List Act) (hnr : NoRestart acts)
    (j : Nat) (q1 q2 : Part) (h1 : (step cfg s .restart).parts[j]? = some q1) (hc : q1.committed ≠ NONE)
    (h2 : (run cfg (step cfg s .restart) acts).parts[j]? = some q2)
    (b0 : Batch) (hb0 : q2.batches.head? = some b0) :
    b0.lo = q1.committed ∨ (q1.committed < b0.lo ∧ b0.lo ≤ q2.low) := by
  obtain ⟨q2', hq2', _, _, hf⟩ := segment_general (stwf_step .restart hs) hnr h1 (atStart_restart h1)
  rw [h2] at hq2'; cases hq2'
  rcases hf (Or.inl hc) with ⟨_, _, hb, _⟩ | ⟨_, _, hh, _⟩
  · simp [hb] at hb0
  · exact (hh (rng b0) (by simp [Part.ranges, hb0])).1

/-- No committed offset, `auto.offset.reset = earliest`: the first range begins at the low
watermark (a value the low watermark had between the restart and now). -/
theorem reset_position_earliest (cfg : Cfg) (hl : cfg.latest = false) (s : St) (hs : StWF cfg s)
    (acts : List Act) (hnr : NoRestart acts)
    (j : Nat) (q1 q2 : Part) (h1 : (step cfg s .restart).parts[j]? = some q1) (hc : q1.committed = NONE)
    (h2 : (run cfg (step cfg s .restart) acts).parts[j]? = some q2)
    (b0 : Batch) (hb0 : q2.batches.head? = some b0) :
    q1.low ≤ b0.lo ∧ b0.lo ≤ q2.low := by
  obtain ⟨q2', hq2', hw, _, hf⟩ := segment_general (stwf_step .restart hs) hnr h1 (atStart_restart h1)
  rw [h2] at hq2'; cases hq2'
  have hb := (hw.bounds (rng b0) (List.mem_map_of_mem (List.mem_of_mem_head? hb0))).1
  rcases hf (Or.inr (by simp [step, hl])) with ⟨_, _, hb', _⟩ | ⟨_, _, hh, _⟩
  · simp [hb'] at hb0
  · have := hh (rng b0) (by simp [Part.ranges, hb0])
    have hN : NONE = -1001 := rfl
    simp only [rng] at this hb
    omega

/-- No committed offset, `auto.offset.reset = latest` (also the default): `start()` runs the first
loop iteration at once; it moves the position of every partition it knows to the high watermark
of that moment, and the first range begins there (or at the low watermark if retention passed it). -/
theorem reset_position_latest (cfg : Cfg) (hl : cfg.latest = true) (s : St) (hs : StWF cfg s)
    (acts : List Act) (hnr : NoRestart acts)
    (j : Nat) (q1 q2 : Part) (h1 : (step cfg s .restart).parts[j]? = some q1)
    (hk : q1.known = true) (hc : q1.committed = NONE)
    (h2 : (run cfg (step cfg s .restart) (.poll :: acts)).parts[j]? = some q2)
    (b0 : Batch) (hb0 : q2.batches.head? = some b0) :
    b0.lo = q1.high ∨ (q1.high < b0.lo ∧ b0.lo ≤ q2.low) := by
  obtain ⟨q, hq, hq1⟩ := restart_get h1
  have hw1 : WF cfg.maxBatch q1 := stwf_step .restart hs j q1 h1
  -- the first iteration
  let s1 := step cfg s .restart
  have hrl : s1.resetLatest = true := by simp [s1, step, hl]
  have hpos : q1.pos = NONE := by subst hq1; simpa [restartPart] using hc
  have hbat : q1.batches = [] := by subst hq1; rfl
  have hlh := hw1.lowhigh
  have hfirst : localStep cfg s1 j .poll q1 = { q1 with pos := q1.high } := by
    have hd : (if cfg.refresh = true then discoverPart q1 else q1) = q1 := by
      split
      · simp [discoverPart, hk]
      · rfl
    simp only [localStep, hd, hrl]
    rw [pollPart_known _ _ _ hk]
    have hp1 : pos1 true q1 = q1.high := by simp [pos1, hpos]
    have hlo : lowest true q1 = q1.high := by simp only [lowest, hp1]; omega
    have hch : clampHigh cfg.maxBatch true q1 = q1.high := by simp only [clampHigh, hlo]; omega
    simp [hlo, hch, hp1]
  have hget := step_get_some cfg s1 .poll j q1 h1
  rw [hfirst] at hget
  have hs2 : (step cfg s1 .poll).resetLatest = false := by simp [step]
  have := run_rel cfg j (fun _ a => a ≠ .restart)
    (fun _ s' q' => WF cfg.maxBatch q' ∧ s'.resetLatest = false ∧ First q1.high q1.low q')
    (by
      intro k s' a q' hq' ⟨hw, hr, hf⟩ ha
      refine ⟨wf_localStep s' j a hw, ?_, first_localStep s' j a hw (Or.inr hr) ha hf⟩
      rw [step_resetLatest cfg s' a ha]; split; rfl; exact hr)
    acts 0 (step cfg s1 .poll) _ hget
    ⟨by rw [← hfirst]; exact wf_localStep s1 j .poll hw1, hs2,
      Or.inr ⟨hk, fun _ => rfl, by simp [Part.ranges, hbat], Int.le_refl _⟩⟩
    (allowed_of_forall cfg _ acts _ hnr)
  obtain ⟨q2', hq2', _, _, hf⟩ := this
  have h2' : (run cfg (step cfg s1 .poll) acts).parts[j]? = some q2 := h2
  rw [h2'] at hq2'; cases hq2'
  rcases hf with ⟨_, _, hb, _⟩ | ⟨_, _, hh, _⟩
  · simp [hb] at hb0
  · exact (hh (rng b0) (by simp [Part.ranges, hb0])).1

/-! ## Clause 3: an offset is committed only when the batch ending just before it is done -/

/-- Step level: the only action that changes the committed offset of partition `j` is the
completion (reference count reaching zero) of an in-flight, not yet completed batch of `j`;
the new committed offset is that batch's `hi + 1`.  In particular emitting a batch commits nothing,
and neither does a failure below the source (`fail`), nor the "completion" of a batch whose
handling raised (`b.failed = false`). -/
theorem commit_only_on_completion (cfg : Cfg) (s : St) (a : Act) (j : Nat) (q q' : Part)
    (hq : s.parts[j]? = some q) (hq' : (step cfg s a).parts[j]? = some q') (hne : q'.committed ≠ q.committed) :
    ∃ i b, a = .complete j i ∧ q.batches[i]? = some b ∧ b.done = false ∧ b.failed = false ∧
      q'.committed = b.hi + 1 :=
  committed_change cfg s a j q q' hq hq' hne

/-- At every instant of an incarnation the committed offset is either the one found at (re)start
or `hi + 1` of a batch of this incarnation that has been completely processed. -/
theorem commit_after_processing (cfg : Cfg) (s : St) (hs : StWF cfg s) (acts : List Act) (hnr : NoRestart acts)
    (j : Nat) (q1 q2 : Part) (h1 : (step cfg s .restart).parts[j]? = some q1)
    (h2 : (run cfg (step cfg s .restart) acts).parts[j]? = some q2) :
    q2.committed = q1.committed ∨ ∃ b ∈ q2.batches, b.done = true ∧ q2.committed = b.hi + 1 := by
  obtain ⟨q2', hq2', _, hc, _⟩ := segment_general (stwf_step .restart hs) hnr h1 (atStart_restart h1)
  rw [h2] at hq2'; cases hq2'
  exact hc

/-! ## Clause 4: at-least-once -/

/-- **At-least-once, first half.**  If batches of the partition complete in order (and retention
does not interfere), then at every instant of the incarnation every offset from the start of the
first emitted range on that is not in a completely processed batch is at or above the committed
offset (or nothing is committed yet); and while nothing was emitted the committed offset is untouched. -/
theorem at_least_once (cfg : Cfg) (s : St) (hs : StWF cfg s) (acts : List Act)
    (hnr : NoRestart acts) (hnt : NoTruncate acts) (hio : InOrder cfg (step cfg s .restart) acts)
    (j : Nat) (q1 q2 : Part) (h1 : (step cfg s .restart).parts[j]? = some q1)
    (hret : q1.committed = NONE ∨ q1.low ≤ q1.committed)
    (h2 : (run cfg (step cfg s .restart) acts).parts[j]? = some q2) :
    (q2.batches = [] → q2.committed = q1.committed) ∧
    ∀ (b0 : Batch) (o : Int), q2.batches.head? = some b0 → b0.lo ≤ o →
      (¬ ∃ b ∈ q2.batches, b.done = true ∧ b.lo ≤ o ∧ o ≤ b.hi) →
      q2.committed = NONE ∨ q2.committed ≤ o := by
  obtain ⟨q2', hq2', _, hseg, halo⟩ := segment_notrunc (stwf_step .restart hs) hnr hnt h1 (atStart_restart h1) hret
  rw [h2] at hq2'; cases hq2'
  have halo := halo hio
  refine ⟨halo.1, ?_⟩
  intro b0 o hb0 ho hno
  have hc0 : q1.committed = NONE ∨ q1.committed ≤ b0.lo := by
    by_cases hc : q1.committed = NONE
    · exact Or.inl hc
    · have := starts_at_committed cfg s hs acts hnr j q1 q2 h1 hc h2 b0 hb0
      omega
  exact alo_covered hseg halo b0 hb0 hc0 o ho hno

/-- **At-least-once, second half (re-delivery).**  Crash in ANY state `s` and restart with the
same group id.  Let `c` be the resume point: the committed offset if there is one (and it is still
retained), else the low watermark when `auto.offset.reset = earliest`.  Then after `k` polls of the
new incarnation (interleaved with anything but truncation), every offset `o` with
`c ≤ o < high watermark at the crash` and `o < c + k * max_batch_size` is in a range the new
incarnation has emitted.  (The partition must be one the new process reads: inside `npartitions`
or found by `refresh_partitions`.) -/
theorem redelivery (cfg : Cfg) (hmb : 0 < cfg.maxBatch) (s : St) (hs : StWF cfg s) (acts : List Act)
    (hnr : NoRestart acts) (hnt : NoTruncate acts) (j : Nat) (q q4 : Part) (c : Int)
    (hq : s.parts[j]? = some q)
    (hres : (q.committed ≠ NONE ∧ c = q.committed ∧ q.low ≤ c) ∨
            (q.committed = NONE ∧ cfg.latest = false ∧ c = q.low))
    (hknown : j < cfg.npartCfg.getD s.parts.length ∨ cfg.refresh = true)
    (h4 : (run cfg (step cfg s .restart) acts).parts[j]? = some q4)
    (o : Int) (ho1 : c ≤ o) (ho2 : o < q.high) (ho3 : o < c + ((countPolls acts * cfg.maxBatch : Nat) : Int)) :
    ∃ b ∈ q4.batches, b.lo ≤ o ∧ o ≤ b.hi := by
  have h1 := step_get_some cfg s .restart j q hq
  have hw1 : WF cfg.maxBatch _ := stwf_step .restart hs j _ h1
  have hrl : (step cfg s .restart).resetLatest = cfg.latest := by simp [step]
  have hinit : Red cfg c q.low q.high 0 (step cfg s .restart).resetLatest (localStep cfg s j .restart q) := by
    rw [hrl]
    simp only [localStep]
    have hsc : SC c q.low cfg.latest q.committed := by
      rcases hres with ⟨_, h, _⟩ | ⟨h1, h2, h3⟩
      · exact Or.inl h.symm
      · exact Or.inr ⟨h1, h3, h2⟩
    refine ⟨rfl, by rcases hres with ⟨_, _, h⟩ | ⟨_, _, h⟩ <;> omega, Int.le_refl _, ?_, ?_, ?_⟩
    · intro hk
      simp only [restartPart, decide_eq_false_iff_not] at hk
      rcases hknown with h | h
      · exact absurd h hk
      · exact ⟨rfl, h, rfl, hsc⟩
    · intro _ _; exact ⟨hsc, Or.inl rfl⟩
    · intro r0 hr0; simp [Part.ranges, restartPart] at hr0
  have := run_rel cfg j (fun _ a => a ≠ .restart ∧ ∀ p k, a ≠ .truncate p k)
    (fun k s' q' => WF cfg.maxBatch q' ∧ Red cfg c q.low q.high k s'.resetLatest q')
    (by
      intro k s' a q' _ ⟨hw, hr⟩ ⟨ha, ht⟩
      exact ⟨wf_localStep s' j a hw, red_localStep hmb s' j a hw ha ht hr⟩)
    acts 0 (step cfg s .restart) _ h1 ⟨hw1, hinit⟩
    (allowed_of_forall cfg _ acts _ (fun a ha => ⟨hnr a ha, hnt a ha⟩))
  obtain ⟨q4', hq4', _, hred⟩ := this
  rw [h4] at hq4'; cases hq4'
  obtain ⟨r, hr, hr1, hr2⟩ := red_covered hred o ho1 ho2 (by simpa [adv] using ho3)
  obtain ⟨b, hb, hbr⟩ := List.mem_map.mp hr
  subst hbr
  exact ⟨b, hb, hr1, hr2⟩

/-- **At-least-once, combined: crash at any instant, restart, everything unprocessed comes again.**
Incarnation 1 runs `acts1` (any sequence, batches completing in order, no truncation) and crashes
in the state it has reached — since `acts1` is arbitrary this is a crash after *every* event.
Incarnation 2 (same group id) runs `acts2`.  Every offset of every batch that incarnation 1 had
emitted but not completely processed is in a range emitted by incarnation 2 as soon as it has
polled often enough.  The only excluded case is `hresume`: nothing committed for the partition
*and* `auto.offset.reset = latest` (see `latest_uncommitted_restart_skips`). -/
theorem crash_redelivers_unprocessed (cfg : Cfg) (hmb : 0 < cfg.maxBatch) (s : St) (hs : StWF cfg s)
    (acts1 : List Act) (hnr1 : NoRestart acts1) (hnt1 : NoTruncate acts1)
    (hio : InOrder cfg (step cfg s .restart) acts1)
    (acts2 : List Act) (hnr2 : NoRestart acts2) (hnt2 : NoTruncate acts2)
    (j : Nat) (q1 q2 q4 : Part)
    (h1 : (step cfg s .restart).parts[j]? = some q1)
    (hret : q1.committed = NONE ∨ q1.low ≤ q1.committed)
    (h2 : (run cfg (step cfg s .restart) acts1).parts[j]? = some q2)
    (hresume : q2.committed ≠ NONE ∨ cfg.latest = false)
    (hknown : j < cfg.npartCfg.getD (run cfg (step cfg s .restart) acts1).parts.length ∨ cfg.refresh = true)
    (h4 : (run cfg (step cfg (run cfg (step cfg s .restart) acts1) .restart) acts2).parts[j]? = some q4)
    (b : Batch) (hb : b ∈ q2.batches) (hnd : b.done = false) (o : Int) (ho1 : b.lo ≤ o) (ho2 : o ≤ b.hi)
    (hpolls : o < (if q2.committed ≠ NONE then q2.committed else q2.low)
                    + ((countPolls acts2 * cfg.maxBatch : Nat) : Int)) :
    ∃ b' ∈ q4.batches, b'.lo ≤ o ∧ o ≤ b'.hi := by
  have hs2 : StWF cfg (run cfg (step cfg s .restart) acts1) := stwf_run acts1 (stwf_step .restart hs)
  obtain ⟨q2', hq2', hw2, hseg, _⟩ := segment_notrunc (stwf_step .restart hs) hnr1 hnt1 h1 (atStart_restart h1) hret
  rw [h2] at hq2'; cases hq2'
  have halo := at_least_once cfg s hs acts1 hnr1 hnt1 hio j q1 q2 h1 hret h2
  obtain ⟨k, hk⟩ := List.getElem?_of_mem hb
  have hbb := ranges_bounded cfg _ hs2 j q2 h2 b hb
  -- the resume point is at or below `o`
  have hc : (if q2.committed ≠ NONE then q2.committed else q2.low) ≤ o := by
    split
    · rename_i hcn
      obtain ⟨b0, hb0⟩ : ∃ b0, q2.batches.head? = some b0 := by
        cases hbs : q2.batches with
        | nil => rw [hbs] at hb; simp at hb
        | cons x xs => exact ⟨x, rfl⟩
      have h0 : q2.batches[0]? = some b0 := by simpa [List.head?_eq_getElem?] using hb0
      have hb0le : b0.lo ≤ o := by
        cases k with
        | zero => rw [h0] at hk; cases hk; exact ho1
        | succ k' =>
          have := ranges_ordered_disjoint cfg _ hs2 j q2 h2 0 (k' + 1) b0 b h0 hk (by omega)
          have := ranges_bounded cfg _ hs2 j q2 h2 b0 (List.mem_of_getElem? h0)
          omega
      have hno : ¬ ∃ b' ∈ q2.batches, b'.done = true ∧ b'.lo ≤ o ∧ o ≤ b'.hi := by
        rintro ⟨b', hb', hd', hl', hh'⟩
        obtain ⟨k', hk'⟩ := List.getElem?_of_mem hb'
        rcases Nat.lt_trichotomy k k' with hlt | heq | hgt
        · have := ranges_ordered_disjoint cfg _ hs2 j q2 h2 k k' b b' hk hk' hlt; omega
        · subst heq; rw [hk] at hk'; cases hk'; rw [hnd] at hd'; cases hd'
        · have := ranges_ordered_disjoint cfg _ hs2 j q2 h2 k' k b' b hk' hk hgt; omega
      rcases halo.2 b0 o hb0 hb0le hno with h | h
      · exact absurd h hcn
      · exact h
    · have := hseg.ge (rng b) (List.mem_map_of_mem hb)
      have := hseg.low
      simp only [rng] at *
      omega
  have hres : (q2.committed ≠ NONE ∧ (if q2.committed ≠ NONE then q2.committed else q2.low) = q2.committed ∧
        q2.low ≤ (if q2.committed ≠ NONE then q2.committed else q2.low)) ∨
      (q2.committed = NONE ∧ cfg.latest = false ∧ (if q2.committed ≠ NONE then q2.committed else q2.low) = q2.low) := by
    by_cases hcn : q2.committed = NONE
    · right
      rcases hresume with h | h
      · exact absurd hcn h
      · exact ⟨hcn, h, by simp [hcn]⟩
    · left
      have := hseg.comm; have := hseg.low
      refine ⟨hcn, by simp [hcn], ?_⟩
      simp only [hcn, ne_eq, not_false_eq_true, ↓reduceIte]
      omega
  exact redelivery cfg hmb _ hs2 acts2 hnr2 hnt2 j q2 q4 _ h2 hres hknown h4 o hc (by omega) hpolls

/-! ## Failures below the source -/

/-- **A batch whose processing raised is never committed.**  At every instant of an incarnation
(any action sequence: later polls, completions of other batches in any order, more failures,
truncation, …) a batch marked failed is not done, and the committed offset of its partition is not
its `hi + 1` — "an offset is committed only when the batch ending just before it has been
completely processed".  (A LATER batch of the partition completing commits *its* `hi + 1`; that is
out-of-order completion, excluded by the proviso of the property, see
`out_of_order_completion_loses_messages`.) -/
theorem failed_batch_never_committed (cfg : Cfg) (s : St) (hs : StWF cfg s) (acts : List Act) (hnr : NoRestart acts)
    (j : Nat) (q1 q2 : Part) (h1 : (step cfg s .restart).parts[j]? = some q1)
    (h2 : (run cfg (step cfg s .restart) acts).parts[j]? = some q2)
    (i : Nat) (b : Batch) (hb : q2.batches[i]? = some b) (hf : b.failed = true) :
    b.done = false ∧ q2.committed ≠ b.hi + 1 := by
  have hs2 : StWF cfg (run cfg (step cfg s .restart) acts) := stwf_run acts (stwf_step .restart hs)
  have hw2 := hs2 j q2 h2
  have hbm : b ∈ q2.batches := List.mem_of_getElem? hb
  have hnd : b.done = false := hw2.nf b hbm hf
  refine ⟨hnd, ?_⟩
  have hbb := ranges_bounded cfg _ hs2 j q2 h2 b hbm
  rcases commit_after_processing cfg s hs acts hnr j q1 q2 h1 h2 with hc | ⟨b', hb', hd', hc⟩
  · -- still the offset found at (re)start, which is at or below the first range
    by_cases hn : q1.committed = NONE
    · have hN : NONE = -1001 := rfl
      omega
    · obtain ⟨b0, hb0⟩ : ∃ b0, q2.batches.head? = some b0 := by
        cases hbs : q2.batches with
        | nil => rw [hbs] at hbm; simp at hbm
        | cons x xs => exact ⟨x, rfl⟩
      have h0 : q2.batches[0]? = some b0 := by simpa [List.head?_eq_getElem?] using hb0
      have hst := starts_at_committed cfg s hs acts hnr j q1 q2 h1 hn h2 b0 hb0
      have hle : b0.lo ≤ b.lo := by
        cases i with
        | zero => rw [h0] at hb; cases hb; exact Int.le_refl _
        | succ i' =>
          have := ranges_ordered_disjoint cfg _ hs2 j q2 h2 0 (i' + 1) b0 b h0 hb (by omega)
          have := ranges_bounded cfg _ hs2 j q2 h2 b0 (List.mem_of_getElem? h0)
          omega
      omega
  · -- `hi + 1` of a done batch, which is a different batch with a disjoint range
    obtain ⟨k, hk⟩ := List.getElem?_of_mem hb'
    have hbb' := ranges_bounded cfg _ hs2 j q2 h2 b' hb'
    rcases Nat.lt_trichotomy i k with hlt | heq | hgt
    · have := ranges_ordered_disjoint cfg _ hs2 j q2 h2 i k b b' hb hk hlt; omega
    · subst heq; rw [hb] at hk; cases hk; rw [hnd] at hd'; cases hd'
    · have := ranges_ordered_disjoint cfg _ hs2 j q2 h2 k i b' b hk hb hgt; omega

/-- **… and after crash + restart its messages are delivered again** (instance of
`crash_redelivers_unprocessed`: a failed batch is a batch that is not done; "in order" now means
that no later batch of the partition was completed after the failure). -/
theorem failed_batch_redelivered (cfg : Cfg) (hmb : 0 < cfg.maxBatch) (s : St) (hs : StWF cfg s)
    (acts1 : List Act) (hnr1 : NoRestart acts1) (hnt1 : NoTruncate acts1)
    (hio : InOrder cfg (step cfg s .restart) acts1)
    (acts2 : List Act) (hnr2 : NoRestart acts2) (hnt2 : NoTruncate acts2)
    (j : Nat) (q1 q2 q4 : Part)
    (h1 : (step cfg s .restart).parts[j]? = some q1)
    (hret : q1.committed = NONE ∨ q1.low ≤ q1.committed)
    (h2 : (run cfg (step cfg s .restart) acts1).parts[j]? = some q2)
    (hresume : q2.committed ≠ NONE ∨ cfg.latest = false)
    (hknown : j < cfg.npartCfg.getD (run cfg (step cfg s .restart) acts1).parts.length ∨ cfg.refresh = true)
    (h4 : (run cfg (step cfg (run cfg (step cfg s .restart) acts1) .restart) acts2).parts[j]? = some q4)
    (b : Batch) (hb : b ∈ q2.batches) (hfail : b.failed = true) (o : Int) (ho1 : b.lo ≤ o) (ho2 : o ≤ b.hi)
    (hpolls : o < (if q2.committed ≠ NONE then q2.committed else q2.low)
                    + ((countPolls acts2 * cfg.maxBatch : Nat) : Int)) :
    ∃ b' ∈ q4.batches, b'.lo ≤ o ∧ o ≤ b'.hi := by
  have hs2 : StWF cfg (run cfg (step cfg s .restart) acts1) := stwf_run acts1 (stwf_step .restart hs)
  have hnd : b.done = false := (hs2 j q2 h2).nf b hb hfail
  exact crash_redelivers_unprocessed cfg hmb s hs acts1 hnr1 hnt1 hio acts2 hnr2 hnt2 j q1 q2 q4 h1 hret h2
    hresume hknown h4 b hb hnd o ho1 ho2 hpolls

/-! ## Partitions added while the source runs (`refresh_partitions`) -/

/-- A partition created on the broker during an incarnation (after the first loop iteration, i.e.
once `auto.offset.reset` has been switched to `earliest`, line 577) is read from its beginning:
the first range starts at offset 0, the ranges are contiguous, and the at-least-once invariant of
`at_least_once` holds for it as well (its committed offset, once there is one, never passes an
unprocessed offset when its batches complete in order). -/
theorem added_partition_read_from_beginning (cfg : Cfg) (s : St) (hs : StWF cfg s) (hrl : s.resetLatest = false)
    (m : Nat) (acts : List Act) (hnr : NoRestart acts) (hnt : NoTruncate acts) (j : Nat) (q1 q2 : Part)
    (hnew : s.parts[j]? = none) (h1 : (step cfg s (.addPartitions m)).parts[j]? = some q1)
    (h2 : (run cfg (step cfg s (.addPartitions m)) acts).parts[j]? = some q2) :
    (∀ b0, q2.batches.head? = some b0 → b0.lo = 0) ∧
    (∀ (i : Nat) (b1 b2 : Batch), q2.batches[i]? = some b1 → q2.batches[i + 1]? = some b2 → b2.lo = b1.hi + 1) ∧
    (InOrder cfg (step cfg s (.addPartitions m)) acts →
      ∀ (b0 : Batch) (o : Int), q2.batches.head? = some b0 → b0.lo ≤ o →
        (¬ ∃ b ∈ q2.batches, b.done = true ∧ b.lo ≤ o ∧ o ≤ b.hi) → q2.committed = NONE ∨ q2.committed ≤ o) := by
  have hq1 : q1 = freshPart := step_get_none cfg s _ j q1 hnew h1
  subst hq1
  have hs1 : StWF cfg (step cfg s (.addPartitions m)) := stwf_step _ hs
  have hrl1 : (step cfg s (.addPartitions m)).resetLatest = false := by simpa [step] using hrl
  obtain ⟨q2', hq2', hw, _, hf⟩ := segment_general hs1 hnr h1 atStart_fresh
  rw [h2] at hq2'; cases hq2'
  obtain ⟨q2', hq2', _, hseg, halo⟩ := segment_notrunc hs1 hnr hnt h1 atStart_fresh (Or.inl rfl)
  rw [h2] at hq2'; cases hq2'
  have hlow : q2.low = 0 := hseg.low
  refine ⟨?_, ?_, ?_⟩
  · intro b0 hb0
    have hb := (hw.bounds (rng b0) (List.mem_map_of_mem (List.mem_of_mem_head? hb0))).1
    rcases hf (Or.inr hrl1) with ⟨_, _, hb', _⟩ | ⟨_, _, hh, _⟩
    · simp [hb'] at hb0
    · have := hh (rng b0) (by simp [Part.ranges, hb0])
      have hN : NONE = -1001 := rfl
      have hc : freshPart.committed = NONE := rfl
      simp only [rng, hc] at this hb
      omega
  · intro i b1 b2 hb1 hb2
    cases hh : q2.batches.head? with
    | none => simp [List.head?_eq_none_iff] at hh; simp [hh] at hb1
    | some b0 =>
      have ht := hseg.tiles (rng b0) (by simp [Part.ranges, hh])
      have := tiles_get_succ (i := i) (r1 := rng b1) (r2 := rng b2) ht
        (by simp [Part.ranges, hb1]) (by simp [Part.ranges, hb2])
      simpa [rng] using this
  · intro hio b0 o hb0 ho hno
    exact alo_covered hseg (halo hio) b0 hb0 (Or.inl rfl) o ho hno

/-! ## The hypotheses are needed: proved counter-examples -/

def cfgEarliest : Cfg := { maxBatch := 2, refresh := false, latest := false, npartCfg := none }
def cfgLatest : Cfg := { maxBatch := 2, refresh := false, latest := true, npartCfg := none }

/-- **Out-of-order completion loses messages** (so "provided batches of a partition complete in
order" is not decoration).  Four messages, ranges `[0,1]` and `[2,3]` emitted, the SECOND batch
completes first: offset 4 is committed while `[0,1]` is unprocessed; after the crash the restarted
source starts at 4, polls twice and emits nothing — offsets 0 and 1 are never delivered again. -/
theorem out_of_order_completion_loses_messages :
    let crash := run cfgEarliest (init 1) [.produce 0 4, .restart, .poll, .poll, .complete 0 1]
    let after := run cfgEarliest crash [.restart, .poll, .poll]
    crash.parts = [{ low := 0, high := 4, committed := 4, known := true, pos := 4,
                     batches := [⟨0, 1, false, false⟩, ⟨2, 3, true, false⟩] }] ∧
    after.parts = [{ low := 0, high := 4, committed := 4, known := true, pos := 4, batches := [] }] := by
  decide

/-- **`latest` with nothing committed skips unprocessed messages** (the case excluded by
`hresume`; recorded as a known finding of the unchanged code).  The source starts at the high
watermark 0, two messages arrive, range `[0,1]` is emitted and not yet processed, the process
crashes; no offset was ever committed, so the restarted source resolves `latest` again, to the
new high watermark 2, and offsets 0 and 1 are never delivered again. -/
theorem latest_uncommitted_restart_skips :
    let crash := run cfgLatest (init 1) [.restart, .poll, .produce 0 2, .poll]
    let after := run cfgLatest crash [.restart, .poll, .poll, .poll]
    crash.parts = [{ low := 0, high := 2, committed := NONE, known := true, pos := 2,
                     batches := [⟨0, 1, false, false⟩] }] ∧
    after.parts = [{ low := 0, high := 2, committed := NONE, known := true, pos := 2, batches := [] }] := by
  decide

/-- The polling loop survives a failure and a later batch completing then commits past the failed
one (what the unchanged code does; it is out-of-order completion): ranges `[0,1]`, `[2,3]`; the
handling of `[0,1]` raises; `[2,3]` completes and commits 4; the failed batch is still there, not
done, never committed (4 ≠ 1 + 1), and a restart would begin at 4. -/
theorem failure_then_later_completion_commits_past_it :
    (run cfgEarliest (init 1) [.produce 0 4, .restart, .poll, .fail 0 0, .poll, .complete 0 0, .complete 0 1]).parts =
      [{ low := 0, high := 4, committed := 4, known := true, pos := 4,
         batches := [⟨0, 1, false, true⟩, ⟨2, 3, true, false⟩] }] := by
  decide

/-! ## Non-vacuity: the hypotheses are satisfied by real runs -/

/-- A two-partition history with in-order completions, a crash with one batch of partition 0
unprocessed, and a second incarnation: all hypotheses of `crash_redelivers_unprocessed` hold and
offset 3 (in the unprocessed batch `[2,3]`) is delivered again. -/
example :
    let s := run cfgEarliest (init 2) [.produce 0 5, .produce 1 2]
    let acts1 : List Act := [.poll, .poll, .complete 0 0, .produce 0 1, .complete 1 0]
    let acts2 : List Act := [.poll, .poll]
    ∃ q4, (run cfgEarliest (step cfgEarliest (run cfgEarliest (step cfgEarliest s .restart) acts1) .restart) acts2).parts[0]? = some q4 ∧
      ∃ b' ∈ q4.batches, b'.lo ≤ 3 ∧ 3 ≤ b'.hi := by
  intro s acts1 acts2
  have hs : StWF cfgEarliest s := reachable_wf _ _ _
  refine ⟨_, rfl, ?_⟩
  exact crash_redelivers_unprocessed cfgEarliest (by decide) s hs acts1 (noRestart_of_B (by decide))
    (noTruncate_of_B (by decide)) (inOrder_of_B _ _ _ (by decide)) acts2 (noRestart_of_B (by decide))
    (noTruncate_of_B (by decide))
    0 _ _ _ rfl (by decide) rfl (by decide) (by decide) rfl ⟨2, 3, false, false⟩ (by decide) rfl 3 (by decide) (by decide) (by decide)

/-- `starts_at_committed` is not vacuous: a restart with committed offset 2. -/
example :
    let s := run cfgEarliest (init 1) [.produce 0 5, .restart, .poll, .complete 0 0]
    ∃ q1 q2 b0, (step cfgEarliest s .restart).parts[0]? = some q1 ∧ q1.committed = 2 ∧
      (run cfgEarliest (step cfgEarliest s .restart) [.poll]).parts[0]? = some q2 ∧
      q2.batches.head? = some b0 ∧ b0.lo = 2 := by
  intro s
  refine ⟨_, _, _, rfl, ?_, rfl, rfl, ?_⟩ <;> decide

/-- `added_partition_read_from_beginning` is not vacuous: `latest`, `refresh_partitions`; after the
first iteration a partition is created and filled, the next poll emits `[0,1]` for it. -/
example :
    let cfg : Cfg := { maxBatch := 2, refresh := true, latest := true, npartCfg := none }
    let s := run cfg (init 1) [.restart, .poll]
    s.resetLatest = false ∧ s.parts[1]? = none ∧
    ((run cfg (step cfg s (.addPartitions 1)) [.produce 1 3, .poll]).parts[1]?.map (·.batches)) = some [⟨0, 1, false, false⟩] := by
  decide

/-- `failed_batch_never_committed` / `failed_batch_redelivered` are not vacuous: batch `[0,1]` is
processed and committed, the handling of `[2,3]` raises, the process crashes; all hypotheses hold
and offset 3 is delivered again by the restarted source. -/
example :
    let s := run cfgEarliest (init 1) [.produce 0 5]
    let acts1 : List Act := [.poll, .complete 0 0, .poll, .fail 0 1, .complete 0 1, .poll]
    let acts2 : List Act := [.poll, .poll]
    (∃ q2, (run cfgEarliest (step cfgEarliest s .restart) acts1).parts[0]? = some q2 ∧ q2.committed = 2) ∧
    ∃ q4, (run cfgEarliest (step cfgEarliest (run cfgEarliest (step cfgEarliest s .restart) acts1) .restart) acts2).parts[0]? = some q4 ∧
      ∃ b' ∈ q4.batches, b'.lo ≤ 3 ∧ 3 ≤ b'.hi := by
  intro s acts1 acts2
  have hs : StWF cfgEarliest s := reachable_wf _ _ _
  refine ⟨⟨_, rfl, by decide⟩, _, rfl, ?_⟩
  exact failed_batch_redelivered cfgEarliest (by decide) s hs acts1 (noRestart_of_B (by decide))
    (noTruncate_of_B (by decide)) (inOrder_of_B _ _ _ (by decide)) acts2 (noRestart_of_B (by decide))
    (noTruncate_of_B (by decide))
    0 _ _ _ rfl (by decide) rfl (by decide) (by decide) rfl ⟨2, 3, false, true⟩ (by decide) rfl 3 (by decide) (by decide) (by decide)

end StreamzVerif.Kafka
