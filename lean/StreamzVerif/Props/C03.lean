import StreamzVerif.Proofs.EmitWaits
import StreamzVerif.Props.AsyncZip
/-
C03, clause 1, on the dataflow model: *the awaitable returned by an emission does not complete before every
consumer reachable without crossing a buffering node has finished handling that element.*

`Stream._emit` (core.py 429-462) returns the flattened list of what every `downstream.update` returned, and
`Stream.emit` turns that list into one awaitable (`gen.convert_yielded` / `asyncio.gather`, core.py 464-501) that
is done iff every member is done.  In the model the members are the tokens `Res.toks`; a sink whose function
returns an awaitable allocates one token per invocation (`Ev.sinkStart d tok v md`) and the environment finishes
it later (`sinkDone tok` puts it into `State.doneToks`).

For every graph `G`, fuel, start state, entry node, value and metadata, if the run ends normally
(`err = none`, `carried = none`):

  * `kinds_transparent`       every node kind passes on the awaitables of the emissions its `update` makes
                              (`Transparent`; `slice` did not before 50b9d2a);
  * `emit_waits`              the tokens returned by `_emit` are exactly the tokens of ALL consumer invocations
                              the emission started, anywhere downstream, in order (`update_waits`: same for one
                              `downstream.update`);
  * `emit_done_implies_consumers_done`, `emit_pending_while_consumer_runs`, `emit_done_needs_every_sinkDone`
                              hence the emit awaitable is not done when `_emit` returns if any consumer was started,
                              and it cannot become done before `sinkDone` has happened for every one of them;
  * `dropped_emit_completes`  an update that emits nothing (filter false, duplicate in `unique`, unfilled
                              partition/window, `zip` waiting for its other input ...) returns no awaitable: the
                              emit completes at once;
  * `collect_crosses`         a buffering node is a backpressure boundary: elements entering `collect` return no
                              awaitable and start no consumer; the later `flush()` starts consumers but hands no
                              awaitable to anybody.

The bounds of the asynchronous buffering nodes (buffer, map_async, zip(maxsize)) are proved on their own
event-loop models: `Props/AsyncBuffer.lean`, `Props/AsyncZip.lean`; those of `zip(maxsize)` are restated at the end
of this file (`zip_maxsize_bound_partial`, `zip_maxsize_admits_all_blocked`, `zip_no_deadlock`).
-/
namespace StreamzVerif.Graph

variable (G : NodeId → Kind)

/-- Every node kind of the model is transparent: whenever its `update` emits, it returns what the emission
returned. -/
theorem kinds_transparent (k : Kind) : Transparent k := all_kinds_transparent k

/-- **emit waits.**  The awaitables handed back by a successful `_emit` are exactly the tokens of all the
consumer invocations (`sinkStart`) that this emission started, through any depth of transparent nodes, in the
order they were started. -/
theorem emit_waits (hT : ∀ i, Transparent (G i)) {fuel : Nat} {n : NodeId} {v : Val} {md : Meta} {S : State}
    (he : (emitAt G fuel n v md S).err = none) (hc : (emitAt G fuel n v md S).carried = none) :
    (emitAt G fuel n v md S).toks = sinkStartToks (emitAt G fuel n v md S).log :=
  run_toks G hT (run_of_ok G fuel (.emit n v md) S ⟨he, hc⟩)

/-- The same for one `downstream.update(x, who, metadata)` call. -/
theorem update_waits (hT : ∀ i, Transparent (G i)) {fuel : Nat} {d who : NodeId} {v : Val} {md : Meta} {S : State}
    (he : (update G fuel d who v md S).err = none) (hc : (update G fuel d who v md S).carried = none) :
    (update G fuel d who v md S).toks = sinkStartToks (update G fuel d who v md S).log :=
  run_toks G hT (run_of_ok G fuel (.update d who v md) S ⟨he, hc⟩)

/-- With the kinds the model has, no hypothesis on the graph is needed. -/
theorem emit_waits_every_graph {fuel : Nat} {n : NodeId} {v : Val} {md : Meta} {S : State}
    (he : (emitAt G fuel n v md S).err = none) (hc : (emitAt G fuel n v md S).carried = none) :
    (emitAt G fuel n v md S).toks = sinkStartToks (emitAt G fuel n v md S).log :=
  emit_waits G (fun i => all_kinds_transparent (G i)) he hc

/-- Whenever (in whatever later state `S'`) the emit awaitable is done, every consumer invocation started by the
emission has finished. -/
theorem emit_done_implies_consumers_done (hT : ∀ i, Transparent (G i)) {fuel : Nat} {n : NodeId} {v : Val}
    {md : Meta} {S : State}
    (he : (emitAt G fuel n v md S).err = none) (hc : (emitAt G fuel n v md S).carried = none)
    (S' : State) (hd : AwaitDone S' (emitAt G fuel n v md S).toks)
    {d : NodeId} {t : Tok} {v' : Val} {md' : Meta} (hs : Ev.sinkStart d t v' md' ∈ (emitAt G fuel n v md S).log) :
    t ∈ S'.doneToks := by
  apply hd
  rw [emit_waits G hT he hc]
  exact mem_sinkStartToks.2 ⟨d, v', md', hs⟩

/-- When `_emit` returns, none of the consumers it started has finished: if it started any, the awaitable is
pending.  (`hS`: tokens are allocated in increasing order, so a finished one is below `nextTok` — true of every
state the driver reaches.) -/
theorem emit_pending_while_consumer_runs (hT : ∀ i, Transparent (G i)) {fuel : Nat} {n : NodeId} {v : Val}
    {md : Meta} {S : State} (hS : ∀ t ∈ S.doneToks, t < S.nextTok)
    (he : (emitAt G fuel n v md S).err = none) (hc : (emitAt G fuel n v md S).carried = none)
    {d : NodeId} {t : Tok} {v' : Val} {md' : Meta} (hs : Ev.sinkStart d t v' md' ∈ (emitAt G fuel n v md S).log) :
    t ∉ (emitAt G fuel n v md S).st.doneToks ∧
      ¬ AwaitDone (emitAt G fuel n v md S).st (emitAt G fuel n v md S).toks := by
  have hr := run_of_ok G fuel (.emit n v md) S ⟨he, hc⟩
  have ht : t ∈ (emitAt G fuel n v md S).toks := by
    rw [emit_waits G hT he hc]; exact mem_sinkStartToks.2 ⟨d, v', md', hs⟩
  have hfresh := (run_tok_range G hr).2 t ht
  have hdone := run_doneToks G hr
  simp only [interp] at hfresh hdone
  have hnot : t ∉ (emitAt G fuel n v md S).st.doneToks := by
    rw [hdone]; intro hm
    have := hS t hm
    unfold Tok at *; omega
  exact ⟨hnot, fun hd => hnot (hd t ht)⟩

/-- **The emit awaitable cannot complete before every consumer has finished**: if, after the environment has
finished the invocations `ts` (in any order, interleaved with anything that does not finish consumers), the
awaitable of the emission is done, then every consumer invocation the emission started is among `ts`. -/
theorem emit_done_needs_every_sinkDone (hT : ∀ i, Transparent (G i)) {fuel : Nat} {n : NodeId} {v : Val}
    {md : Meta} {S : State} (hS : ∀ t ∈ S.doneToks, t < S.nextTok)
    (he : (emitAt G fuel n v md S).err = none) (hc : (emitAt G fuel n v md S).carried = none)
    {ts : List Tok} {S' : State} (hd : sinkDones ts (emitAt G fuel n v md S).st = some S')
    (hdone : AwaitDone S' (emitAt G fuel n v md S).toks)
    {d : NodeId} {t : Tok} {v' : Val} {md' : Meta} (hs : Ev.sinkStart d t v' md' ∈ (emitAt G fuel n v md S).log) :
    t ∈ ts := by
  have h1 := emit_done_implies_consumers_done G hT he hc S' hdone hs
  have h2 := (emit_pending_while_consumer_runs G hT hS he hc hs).1
  rcases (sinkDones_doneToks hd t).1 h1 with h | h
  · exact h
  · exact absurd h h2

/-- **A dropped element completes the emit at once**: an `update` whose body makes no emission (filter with a
false predicate, a duplicate in `unique`, a partition / window / zip / combine_latest that is still filling)
returns no awaitable. -/
theorem dropped_emit_completes {fuel : Nat} {d who : NodeId} {v : Val} {md : Meta} {S : State}
    (hd : ∀ m, G d ≠ .sink m)
    (he : (update G fuel d who v md S).err = none) (hc : (update G fuel d who v md S).carried = none)
    (hno : hasEmit (upd (G d) (S.loc d) who v md).effs = false) :
    (update G fuel d who v md S).toks = [] ∧ ∀ S', AwaitDone S' (update G fuel d who v md S).toks := by
  have hr := run_of_ok G fuel (.update d who v md) S ⟨he, hc⟩
  have ht : (update G fuel d who v md S).toks = [] := by
    simp only [interp] at hr
    generalize (update G fuel d who v md S).toks = t at hr
    generalize (update G fuel d who v md S).log = l at hr
    generalize (update G fuel d who v md S).st = S1 at hr
    cases hr with
    | sink hm _ => exact absurd hm (hd _)
    | upd _ _ hr' =>
      split
      · exact run_noemit_toks G hr' _ _ rfl hno
      · rfl
  refine ⟨ht, fun S' t hm => ?_⟩
  rw [ht] at hm; simp at hm

/-- `filter`: a value the predicate rejects is dropped, the producer is not made to wait. -/
theorem filter_false_completes {fuel : Nat} {d who : NodeId} {v b : Val} {md : Meta} {S : State} {p : Fn}
    (hk : G d = .filter p) (hp : p.eval v = .ok b) (hb : b.truthy = false)
    (he : (update G fuel d who v md S).err = none) (hc : (update G fuel d who v md S).carried = none) :
    (update G fuel d who v md S).toks = [] := by
  refine (dropped_emit_completes G (fun m hm => by rw [hk] at hm; cases hm) he hc ?_).1
  rw [hk]; simp [upd, hp, hb]

/-- **`collect` is a backpressure boundary.**  (1) An element entering `collect` returns no awaitable and starts
no consumer.  (2) `flush()` — whatever consumers it starts — hands no awaitable to anybody: nobody waits for the
consumers of a flushed batch. -/
theorem collect_crosses {fuel : Nat} {d who : NodeId} {v : Val} {md : Meta} {S : State}
    (hk : G d = .collect) (hT : ∀ i, Transparent (G i))
    (he : (update G fuel d who v md S).err = none) (hc : (update G fuel d who v md S).carried = none) :
    ((update G fuel d who v md S).toks = [] ∧ sinkStartToks (update G fuel d who v md S).log = []) ∧
      ∀ (fuel' : Nat) (S' : State), (flushAt G fuel' d S').toks = [] := by
  have h1 := (dropped_emit_completes G (fun m hm => by rw [hk] at hm; cases hm) he hc
    (by rw [hk]; simp [upd])).1
  refine ⟨⟨h1, ?_⟩, fun fuel' S' => flushAt_toks G fuel' d S'⟩
  rw [← update_waits G hT he hc, h1]

/-! ### The hypotheses are satisfiable and the statements discriminate -/

/-- source 0 → map inc 1 → async sink 2;  0 → filter isEven 3 → async sink 4;  0 → collect 5 → async sink 6 -/
def c03G : NodeId → Kind
  | 0 => .source
  | 1 => .map .inc
  | 3 => .filter .isEven
  | 5 => .collect
  | _ => .sink .async

def c03S : State :=
  { loc := fun i => match i with | 1 => { ups := [0] } | 3 => { ups := [0] } | 5 => { ups := [0] } | _ => {}
    downs := fun i => match i with | 0 => [1, 3, 5] | 1 => [2] | 3 => [4] | 5 => [6] | _ => [] }

/-- an even element reaches both transparent branches: two consumers started, two awaitables returned, none
for the branch behind `collect` -/
example : (emitAt c03G 100 0 (.int 4) [] c03S).err = none ∧ (emitAt c03G 100 0 (.int 4) [] c03S).carried = none ∧
    (emitAt c03G 100 0 (.int 4) [] c03S).toks = [0, 1] ∧
    sinkStartToks (emitAt c03G 100 0 (.int 4) [] c03S).log = [0, 1] := by decide +kernel
/-- an odd element is dropped by the filter: only the `map` branch makes the producer wait -/
example : (emitAt c03G 100 0 (.int 5) [] c03S).toks = [0] := by decide +kernel
/-- ... the awaitable is pending right after the emission and done once the consumer has finished -/
example : ¬ AwaitDone (emitAt c03G 100 0 (.int 5) [] c03S).st (emitAt c03G 100 0 (.int 5) [] c03S).toks := by
  obtain ⟨d, v', md', hs⟩ := mem_sinkStartToks.1
    (show 0 ∈ sinkStartToks (emitAt c03G 100 0 (.int 5) [] c03S).log by decide +kernel)
  exact (emit_pending_while_consumer_runs c03G (fun i => all_kinds_transparent _) (by decide) (by decide +kernel)
    (by decide +kernel) hs).2
example : (sinkDones [0] (emitAt c03G 100 0 (.int 5) [] c03S).st).map (·.doneToks) = some [0] := by
  decide +kernel
/-- the filter's own update returns nothing for the odd element -/
example : (update c03G 100 3 0 (.int 5) [] c03S).toks = [] :=
  filter_false_completes c03G (p := .isEven) (b := .int 0) rfl rfl rfl (by decide +kernel) (by decide +kernel)
/-- flushing the collect node starts a consumer (token 2 after the emission above) but returns no awaitable -/
example : sinkStartToks (flushAt c03G 100 5 (emitAt c03G 100 0 (.int 4) [] c03S).st).log = [2] ∧
    (flushAt c03G 100 5 (emitAt c03G 100 0 (.int 4) [] c03S).st).toks = [] := by decide +kernel

/-! ### C03 clauses 2 and 3 for `zip(maxsize)`: restated from `Props/AsyncZip.lean` -/

/-- Bound: with producers that await each emission, at most `maxsize + 1` unmatched elements per upstream are
buffered and at most `maxsize` of them are accepted (emit awaitable done), for every schedule. -/
theorem zip_maxsize_bound_partial {α : Type} (cfg : AsyncZip.Cfg) (as : List (AsyncZip.Act α))
    (hd : AsyncZip.RunWith AsyncZip.Awaits cfg (AsyncZip.init α) as) (u : Nat) :
    ((AsyncZip.run cfg as).bufs u).length ≤ cfg.maxsize + 1 ∧
    ((AsyncZip.run cfg as).bufs u).length - AsyncZip.blockedCount (AsyncZip.run cfg as) u ≤ cfg.maxsize :=
  AsyncZip.c03_zip_bound_awaiting_partial cfg as hd u

/-- Recorded finding `zip-maxsize-admits-all-blocked`: without that discipline the bound fails (witness). -/
theorem zip_maxsize_admits_all_blocked :
    ∃ (cfg : AsyncZip.Cfg) (as : List (AsyncZip.Act Nat)),
      (∀ e ∈ (AsyncZip.run cfg as).emits, e.2 = .done) ∧
      ¬ ((AsyncZip.run cfg as).bufs 0).length ≤ cfg.maxsize + 1 :=
  ⟨_, _, AsyncZip.c03_zip_admits_all_blocked.2.1, AsyncZip.c03_zip_admits_all_blocked.2.2.2.1⟩

/-- No deadlock: once every consumer has finished, every emit awaitable is done except those of producers that
are more than `maxsize` ahead of the shortest input. -/
theorem zip_no_deadlock {α : Type} (cfg : AsyncZip.Cfg) (as : List (AsyncZip.Act α))
    (hp : (AsyncZip.run cfg as).pending = []) :
    ∀ e ∈ (AsyncZip.run cfg as).emits, e.2 = .done ∨
      (e.2 = .blocked ∧
        (AsyncZip.run cfg as).outs.length + cfg.maxsize < (AsyncZip.arrivalsOf cfg e.1 as).length) :=
  AsyncZip.c03_zip_all_complete cfg as hp

end StreamzVerif.Graph
