import StreamzVerif.Model.Graph
namespace StreamzVerif.Graph
theorem placeholder_C03 : True := trivial
end StreamzVerif.Graph
