import StreamzVerif.Proofs.AsyncBufferFine
/-!
# Property theorems for the FINE-GRAINED model of `buffer(n)` (Model/AsyncBufferFine.lean)

One transition = one handle of the event loop or one external action, so the theorems hold for arrivals placed
ANYWHERE between two handles (in particular between tornado's hand-off of an item to the waiting getter and the
resumption of the `cb` coroutine, between the consumer's completion and `cb`'s release, between the promotion of a
parked producer and the callback that tells it).  Every theorem quantifies over every action sequence the
transition system accepts from the initial state (`run n (init α) acts = some s`), every `n`.

`c02_` lossless FIFO delivery (and the refinement to the settled model of Props/AsyncBuffer.lean), `c03_`
bounds / no lost wake-up / liveness, `c04_` references held while an element is anywhere inside.
-/
namespace StreamzVerif.AsyncBufferFine
open StreamzVerif.AsyncBuffer

variable {α : Type}

/-- C02 (fine): FIFO history invariant `ins = outs ++ inHandOff ++ items ++ putters` at EVERY intermediate point:
what was handed downstream is a prefix of the arrivals, everything else is still inside in arrival order (the element
in the hand-off window first), and ids are pairwise distinct — each element is in exactly one place. -/
theorem c02_fine_history (n : Nat) (acts : List (FAct α)) (s : FSt α) (hr : run n (init α) acts = some s) :
    s.ins = s.outs ++ keys s.cb.handOff ++ keys s.items ++ keys s.putters ∧ s.outs <+: s.ins ∧
      (s.ins.map Prod.fst).Nodup := by
  have h : FInv n s := finv_run n acts _ s (finv_init n) hr
  have h1 : s.ins = s.outs ++ keys s.cb.handOff ++ keys s.items ++ keys s.putters := by
    rw [h.hist, h.outs, cb_items_split]; simp
  refine ⟨h1, ⟨keys s.cb.handOff ++ keys s.items ++ keys s.putters, by rw [h1]; simp⟩, ?_⟩
  rw [h.idx]; exact List.nodup_range

/-- C02 (fine): when nothing but an arrival can happen (no loop handle runnable, consumer idle) everything that
arrived has been handed on, every emission has completed and every producer has been told. -/
theorem c02_fine_complete (n : Nat) (acts : List (FAct α)) (s : FSt α) (hr : run n (init α) acts = some s)
    (hstuck : step n s .resumeCb = none ∧ step n s .downDone = none ∧ step n s .ack = none) :
    s.cb = .waitingGet ∧ s.items = [] ∧ s.putters = [] ∧ s.outs = s.ins ∧ keys s.fin = s.ins ∧
      List.Perm s.acked (s.ins.map Prod.fst) := by
  have h : FInv n s := finv_run n acts _ s (finv_init n) hr
  obtain ⟨hcb, hak⟩ := (stuck_iff n s).mp hstuck
  obtain ⟨hq, hp⟩ := h.waiting hcb
  have hh := h.hist
  have ho := h.outs
  have ha := h.acc
  have hn := h.notified
  simp [hcb, hq, hp, hak] at hh ho ha hn
  refine ⟨hcb, hq, hp, by rw [ho, hh], hh.symm, ?_⟩
  rw [ha] at hn
  rw [hh, ← ids_eq_keys]
  exact hn

/-- C03 (fine): the queue never holds more than `n` items; the number of accepted emissions (put future resolved)
not yet handed downstream is at most `n + 1` at every intermediate point, and at most `n` whenever no element is in
the hand-off window (`cb.handOff = []` — in particular at every settled point). -/
theorem c03_fine_bound (n : Nat) (hn : 1 ≤ n) (acts : List (FAct α)) (s : FSt α) (hr : run n (init α) acts = some s) :
    s.items.length ≤ n ∧ s.accepted.length ≤ s.outs.length + n + 1 ∧
      (s.cb.handOff = [] → s.accepted.length ≤ s.outs.length + n) ∧
      s.accepted.length + s.putters.length = s.ins.length := by
  have h : FInv n s := finv_run n acts _ s (finv_init n) hr
  have hb := h.bound (by omega)
  have hlen : s.accepted.length = s.outs.length + s.cb.handOff.length + s.items.length := by
    rw [h.acc, h.outs, cb_items_split]; simp; omega
  have hho : s.cb.handOff.length ≤ 1 := by
    cases s.cb with
    | running r => cases r <;> simp
    | _ => simp
  refine ⟨hb, by omega, ?_, ?_⟩
  · intro h0; rw [h0] at hlen; simp at hlen; omega
  · rw [h.acc, h.hist]; simp; omega

/-- C03 (fine): the bound `n + 1` of the hand-off window is attained — buffer(1): the first arrival is handed to the
waiting getter, the second one enters the queue before the coroutine has been resumed: two accepted, none handed on. -/
theorem c03_fine_bound_tight :
    ∃ s, run 1 (init Nat) [.resumeCb, .arrive 10, .arrive 20] = some s ∧ s.accepted = [0, 1] ∧ s.outs = [] := by
  refine ⟨_, rfl, ?_⟩
  decide

/-- C03 (fine), no lost wake-up: a producer is parked only while the queue is full and the coroutine is NOT waiting
for input — it is about to run or waits for the consumer, and its next `get` promotes the producer. -/
theorem c03_fine_no_lost_wakeup (n : Nat) (acts : List (FAct α)) (s : FSt α) (hr : run n (init α) acts = some s)
    (hp : s.putters ≠ []) : n ≠ 0 ∧ s.items.length = n ∧ s.cb ≠ .waitingGet := by
  have h : FInv n s := finv_run n acts _ s (finv_init n) hr
  obtain ⟨hf, hcb⟩ := h.parked hp
  rw [ffull_iff] at hf
  have := h.bound hf.1
  exact ⟨hf.1, by omega, hcb⟩

/-- C03 (fine), liveness 1: without arrivals every run is bounded — at most `measure s` transitions (loop handles and
consumer completions together) are possible from `s`. -/
theorem c03_fine_arrival_free_bounded (n : Nat) (s s' : FSt α) (more : List (FAct α))
    (hm : ∀ a ∈ more, a.isArrive = false) (hr : run n s more = some s') : more.length ≤ measure s := by
  have := run_measure n more s s' hm hr
  omega

/-- C03 (fine), liveness 2: from every reachable state, as long as the state is not at rest some non-arrival action
is enabled, and letting the loop run and the consumer complete ends — after finitely many steps, in ANY order —
with everything delivered: there is an arrival-free continuation to a state at rest, and (by `c02_fine_complete`
applied to it) every state at rest has `outs = ins`. -/
theorem c03_fine_drains (n : Nat) (acts : List (FAct α)) (s : FSt α) (hr : run n (init α) acts = some s) :
    ∃ more s', (∀ a ∈ more, a.isArrive = false) ∧ run n s more = some s' ∧
      s'.cb = .waitingGet ∧ s'.items = [] ∧ s'.putters = [] ∧ s'.acks = [] ∧ s'.outs = s.ins ∧
      List.Perm s'.acked (s.ins.map Prod.fst) := by
  obtain ⟨more, s', hm, hrun, hcb, hak⟩ := drain n (measure s) s (Nat.le_refl _)
  have hr' : run n (init α) (acts ++ more) = some s' := by rw [run_append, hr]; simpa using hrun
  have hc := c02_fine_complete n (acts ++ more) s' hr' ((stuck_iff n s').mpr ⟨hcb, hak⟩)
  have hins := run_ins n more s s' hm hrun
  refine ⟨more, s', hm, hrun, hcb, hc.2.1, hc.2.2.1, hak, ?_, ?_⟩
  · rw [hc.2.2.2.1, hins]
  · rw [← hins]; exact hc.2.2.2.2.2

/-- C04 (fine): an element that is anywhere inside the node — in the queue, parked with its producer, in the
hand-off window, being handled by the consumer, or waiting for `cb` to release it after the consumer finished — has a
reference count of at least one, its callback has not been scheduled and the log holds no `fire` event for it. -/
theorem c04_fine_holds (n : Nat) (acts : List (FAct α)) (s : FSt α) (hr : run n (init α) acts = some s) :
    ∀ it ∈ s.items ++ s.putters ++ s.cb.items, 1 ≤ it.cnt ∧ it.fires = 0 ∧ Ev.fire it.id ∉ s.log := by
  intro it hit
  have h : FInv n s := finv_run n acts _ s (finv_init n) hr
  have hcnt : 1 ≤ it.cnt ∧ it.fires = 0 := by
    simp only [List.mem_append] at hit
    rcases hit with (hit | hit) | hit
    · have := h.held it (by simp [hit]); omega
    · have := h.held it (by simp [hit]); omega
    · cases hcb : s.cb with
      | waitingGet => simp [hcb] at hit
      | resumed e => simp [hcb] at hit; have := h.held it (by simp [hcb, hit]); omega
      | emitting e => simp [hcb] at hit; subst hit; have := h.emitting it hcb; omega
      | running r =>
        cases r with
        | none => simp [hcb] at hit
        | some e => simp [hcb] at hit; subst hit; have := h.releasing it hcb; omega
  refine ⟨hcnt.1, hcnt.2, ?_⟩
  intro hfire
  have hmem : it.id ∈ s.log.filterMap fireId := List.mem_filterMap.mpr ⟨_, hfire, rfl⟩
  rw [h.fired] at hmem
  have hnd := finv_ids_nodup n s h
  have hheld : it.id ∈ ids s.cb.items ++ ids s.items ++ ids s.putters := by
    simp only [List.mem_append] at hit ⊢
    rcases hit with (hit | hit) | hit
    · exact Or.inl (Or.inr (List.mem_map.mpr ⟨it, hit, rfl⟩))
    · exact Or.inr (List.mem_map.mpr ⟨it, hit, rfl⟩)
    · exact Or.inl (Or.inl (List.mem_map.mpr ⟨it, hit, rfl⟩))
  simp only [List.append_assoc] at hnd hheld
  exact (List.nodup_append.mp hnd).2.2 _ hmem _ hheld rfl

/-- C04 (fine): the callbacks that have fired are exactly those of the elements `cb` has released after their
consumer finished, each once, in arrival order, each with final count 0. -/
theorem c04_fine_fired_are_finished (n : Nat) (acts : List (FAct α)) (s : FSt α) (hr : run n (init α) acts = some s) :
    s.log.filterMap fireId = ids s.fin ∧ (ids s.fin).Nodup ∧ ∀ it ∈ s.fin, it.cnt = 0 ∧ it.fires = 1 := by
  have h : FInv n s := finv_run n acts _ s (finv_init n) hr
  have hnd := finv_ids_nodup n s h
  simp only [List.append_assoc] at hnd
  exact ⟨h.fired, (List.nodup_append.mp hnd).1, h.finished⟩

/-- C02 (fine), refinement, one step: in a state in which nothing is runnable, an external action (`arrive x` or
`downDone`) followed by everything the loop can then do on its own — the hand-off's resumption; the release, the next
`get`, the promotion of a parked producer and its notification — is exactly one step of the settled model of
Model/AsyncBuffer.lean (`downAsync = true`), including the event log; the result is again settled. -/
theorem c02_fine_refines_settled_step (n : Nat) (acts : List (FAct α)) (s : FSt α) (b : BAct α)
    (hr : run n (init α) acts = some s) (hs : Settled s) :
    abs (qstep n s (ofB b)) = bstep ⟨n, true⟩ (abs s) b ∧ Settled (qstep n s (ofB b)) := by
  have h : FInv n s := finv_run n acts _ s (finv_init n) hr
  exact ⟨refine_qstep n s b h hs, qstep_settled n s _ hs⟩

/-- C02 (fine), refinement, whole runs: driving the fine system with external actions and letting the loop run dry
after each of them reproduces the settled model's run, state by state. -/
theorem c02_fine_refines_settled (n : Nat) (acts : List (BAct α)) :
    abs (qrun n (qinit n α) acts) = brun ⟨n, true⟩ (binit α) acts := by
  have := (refine_qrun n acts (qinit n α) (finv_qinit n) (qinit_settled n)).1
  rw [abs_qinit] at this
  exact this

/-! ### non-vacuity -/

/-- buffer(1): an arrival in the hand-off window is queued, the next one parked; after the consumer completes, one
resumption releases, promotes the parked producer and hands on the queued element; the producer learns one handle later. -/
example : ∃ s, run 1 (init Nat) [.resumeCb, .arrive 10, .arrive 20, .arrive 30, .resumeCb, .downDone, .resumeCb] = some s ∧
    s.outs = [(0, 10), (1, 20)] ∧ ids s.items = [2] ∧ s.putters = [] ∧ s.acks = [2] ∧ s.acked = [0, 1] ∧
    s.log.filterMap fireId = [0] := ⟨_, rfl, by decide⟩
/-- the hypothesis of `c02_fine_complete` is satisfiable: a run that ends at rest. -/
example : ∃ s, run 2 (init Nat) [.arrive 10, .resumeCb, .downDone, .resumeCb] = some s ∧
    step 2 s .resumeCb = none ∧ step 2 s .downDone = none ∧ step 2 s .ack = none ∧ s.outs = [(0, 10)] :=
  ⟨_, rfl, by decide⟩
/-- a settled state as required by the refinement theorem, with a producer parked. -/
example : ∃ s, run 1 (init Nat) [.resumeCb, .arrive 10, .resumeCb, .arrive 20, .arrive 30] = some s ∧
    Settled s ∧ ids s.putters = [2] :=
  ⟨_, rfl, ⟨Or.inr ⟨_, rfl⟩, rfl⟩, by decide⟩

end StreamzVerif.AsyncBufferFine
