import StreamzVerif.Proofs.AccState
import StreamzVerif.Props.C12
/-
C12 on the dataflow model (`Model/Graph.lean`): the state an `accumulate` node EMITS is the state it RETAINS —
also in a run in which a consumer rejected the delivery.

`Props/C12.lean` proves resumption for a pure step function; what ties that to the node is that the pair
`(state, result)` handed downstream with `with_state=True` carries the state the node itself continues from.
In `accumulate.update` (core.py 1005-1026) this rests on one ordering: `self.state = state` comes BEFORE
`self._emit((self.state, result))` — in the model `upd (.accumulate …) = [.set s1, .emit out md]`.  `_emit`
can be left by an exception (a consumer raising anywhere downstream; C16 says it reaches the caller), and a
producer that catches it keeps feeding the node.  Were the state adopted only after `_emit` returned, such a
run would leave the node in the OLD state although the pair with the NEW state has been delivered: a pipeline
restarted from any emitted state would then disagree with the uninterrupted one (seeded change C12-n2,
caught by the harness only; `mutated_order_emitted_state_is_not_retained` below replays it on the model).

All theorems: every graph `G`, every state `S` with `Acyclic S` (every edge goes from a smaller to a larger
node id — the topological numbering all projection theorems of C01/C16 use; it is what excludes re-entry into
`d` while `d` is emitting), every arrival, every fuel that suffices for the node's own frames.  NOTHING is assumed
about the outcome of the run below `d`: `err` may be any exception (raised by a user function, a key function, a
synchronous sink), `carried` may be set (a `partition` coroutine captured one), and the fuel may even run out
further down.

  1. one arrival
       `accumulate_state_adopted_despite_downstream_failure`   fuel sufficed (`err ≠ outOfFuel`)
       `accumulate_state_adopted_any_outcome`                  `4 ≤ fuel` only (covers running out of fuel below)
       `emitted_state_is_retained_state`                       `with_state` form: the pair's state = `acc`
       `emit_never_touches_emitter_or_upstream_state`          the frame lemma behind it, for every node kind
  2. any sequence of arrivals, any failures downstream (`feed`)
       `emitted_states_are_the_fold_despite_downstream_failures`
       `node_state_after_arrival_is_emitted_state`
       `resume_from_emitted_state_despite_downstream_failures`   a fresh node seeded with the k-th emitted state and
                                                                fed the remaining arrivals emits the remaining pairs
       `accumulate_fold_resumes`                               the same on the fold (`Resume.runOpt`)
  3. `mutated_order_emitted_state_is_not_retained`, `mutated_order_three_nodes`: what 1 excludes (by `decide`)
-/
namespace StreamzVerif.Graph

variable (G : NodeId → Kind)

/-! ### 1. One arrival -/

/-- **The new state is adopted before the hand-over, so a failing hand-over cannot lose it.**  `d` is an
accumulate node and its own function does not fail on the arrival `(who, v, md)` in state `S`.  Then the body of
its `update` is `[.set s1, .emit out md]` with `s1` = the old local state with `acc` := the new state `st'`, and
`out` = the pair `(st', res)` when `with_state` (else `res`); and after `update G fuel d who v md S` — WHATEVER
`err` / `carried` say about what happened downstream — node `d` is in state `s1`, and `d` emitted exactly `out`
(the event is in the log: the value was handed over). -/
theorem accumulate_state_adopted_despite_downstream_failure {S : State} (hA : Acyclic S) {d : NodeId} {f : Fn2}
    {start : Option Val} {rs ws : Bool} (hk : G d = .accumulate f start rs ws) (who : NodeId) (v : Val) (md : Meta)
    (hown : (upd (G d) (S.loc d) who v md).err = none) (fuel : Nat)
    (hfuel : (update G fuel d who v md S).err ≠ some .outOfFuel) :
    ∃ (s1 : NState) (out st' res : Val),
      (upd (G d) (S.loc d) who v md).effs = [.set s1, .emit out md] ∧
      accStep f rs (S.loc d).acc v = some (st', res) ∧
      s1 = { S.loc d with acc := some st' } ∧
      out = (if ws then .tup [st', res] else res) ∧
      (update G fuel d who v md S).st.loc d = s1 ∧
      emitsOf d (update G fuel d who v md S).log = [(out, md)] ∧
      Ev.emit d out md ∈ (update G fuel d who v md S).log := by
  rw [hk] at hown
  obtain ⟨p, hp⟩ := accStep_of_no_own_failure hown
  have hf := fuel_of_not_oof G hk hp hfuel
  obtain ⟨u1, u2, _⟩ := update_accumulate G hA hk (who := who) (md := md) hp hf
  refine ⟨_, accOut ws p, p.1, p.2, ?_, hp, rfl, rfl, u1, u2, ?_⟩
  · rw [hk, upd_accumulate_ok hp]
  · exact emit_mem_of_emitsOf (by rw [u2]; simp)

/-- The same with the weakest fuel hypothesis: enough for the node's own frames (`update`, the two effects,
`_emit`'s prologue).  How far the run gets below `d` is irrelevant — running out of fuel further down is just one
more way of not returning normally. -/
theorem accumulate_state_adopted_any_outcome {S : State} (hA : Acyclic S) {d : NodeId} {f : Fn2}
    {start : Option Val} {rs ws : Bool} (hk : G d = .accumulate f start rs ws) (who : NodeId) (v : Val) (md : Meta)
    {st' res : Val} (hown : accStep f rs (S.loc d).acc v = some (st', res)) {fuel : Nat} (hfuel : 4 ≤ fuel) :
    (update G fuel d who v md S).st.loc d = { S.loc d with acc := some st' } ∧
      emitsOf d (update G fuel d who v md S).log = [(if ws then .tup [st', res] else res, md)] ∧
      (∀ i, i < d → (update G fuel d who v md S).st.loc i = S.loc i) :=
  update_accumulate G hA hk hown hfuel

/-- **Emitted state = retained state** (`with_state=True`), stated for the case the seeded change broke: the
`update` call was aborted by an exception from downstream (`err = some e`, not out of fuel) or the returned
awaitable carries one.  The node emitted exactly one pair; its state component is the node's `acc` now. -/
theorem emitted_state_is_retained_state {S : State} (hA : Acyclic S) {d : NodeId} {f : Fn2}
    {start : Option Val} {rs : Bool} (hk : G d = .accumulate f start rs true) (who : NodeId) (v : Val) (md : Meta)
    (hown : (upd (G d) (S.loc d) who v md).err = none) (fuel : Nat) (e : Err)
    (hfail : ((update G fuel d who v md S).err = some e ∧ e ≠ .outOfFuel) ∨
      ((update G fuel d who v md S).err = none ∧ (update G fuel d who v md S).carried = some e)) :
    ∃ st' res, emitsOf d (update G fuel d who v md S).log = [(.tup [st', res], md)] ∧
      ((update G fuel d who v md S).st.loc d).acc = some st' := by
  have hfuel : (update G fuel d who v md S).err ≠ some .outOfFuel := by
    rcases hfail with ⟨h, hne⟩ | ⟨h, _⟩
    · rw [h]; intro hc; cases hc; exact hne rfl
    · rw [h]; simp
  obtain ⟨s1, out, st', res, _, _, h3, h4, h5, h6, _⟩ :=
    accumulate_state_adopted_despite_downstream_failure G hA hk who v md hown fuel hfuel
  refine ⟨st', res, ?_, ?_⟩
  · rw [h6, h4]; rfl
  · rw [h5, h3]

/-- The frame lemma behind 1, for every node kind and every outcome: `_emit` at `n` never changes the local
state of `n` itself or of any node with a smaller id (on a DAG: of anything that is not strictly downstream),
and none of those emits. -/
theorem emit_never_touches_emitter_or_upstream_state {S : State} (hA : Acyclic S) (fuel : Nat) (n : NodeId)
    (v : Val) (md : Meta) :
    (∀ i, i ≤ n → (emitAt G fuel n v md S).st.loc i = S.loc i) ∧
      (∀ i, i < n → emitsOf i (emitAt G fuel n v md S).log = []) := by
  refine ⟨fun i hi => ?_, fun i hi => ?_⟩
  · cases fuel with
    | zero => rw [emitAt.eq_1]; rfl
    | succ g => exact (emitAt_self G hA g n v md).1 i hi
  · exact ((below_all G fuel (.emit n v md) S hA) i hi).2

/-! ### 2. Any sequence of arrivals, arbitrary failures downstream -/

/-- **The emitted states are the fold, the node's state is the last emitted state.**  The arrivals `as` reach the
accumulate node `d` one after the other (`feed`: each `update` starts in the state the previous one left, whether
it returned or was aborted).  The node's own function does not fail on them: the fold of its step function over
the values, from the node's current `acc`, is `some (fin, pairs)`.  Then — no hypothesis on what the consumers
downstream do on any delivery — `d` emitted exactly one value per arrival, the `k`-th being the `k`-th pair of
the fold (`accOut ws`: the tuple `(state, result)` with `with_state`), and `d` ends with `acc = fin`. -/
theorem emitted_states_are_the_fold_despite_downstream_failures {S : State} (hA : Acyclic S) {d : NodeId} {f : Fn2}
    {start : Option Val} {rs ws : Bool} (hk : G d = .accumulate f start rs ws) {fuel : Nat} (hfuel : 4 ≤ fuel)
    (as : List Arr) {fin : Option Val} {pairs : List (Val × Val)}
    (hown : Resume.runOpt (accNode f rs) (S.loc d).acc (valsOf as) = some (fin, pairs)) :
    emitsOf d (feed G fuel d as S).2 = List.zipWith (fun p a => (accOut ws p, a.2.2)) pairs as ∧
      (feed G fuel d as S).1.loc d = { S.loc d with acc := fin } ∧
      pairs.length = as.length := by
  obtain ⟨h1, h2, _⟩ := feed_accumulate G hk hfuel as S hA fin pairs hown
  refine ⟨h2, h1, ?_⟩
  rw [runOpt_accNode_length _ _ _ _ hown, valsOf, List.length_map]

/-- **After arrival `k` the node holds the state it emitted with arrival `k`** — whether or not that delivery,
or any earlier one, was rejected downstream. -/
theorem node_state_after_arrival_is_emitted_state {S : State} (hA : Acyclic S) {d : NodeId} {f : Fn2}
    {start : Option Val} {rs ws : Bool} (hk : G d = .accumulate f start rs ws) {fuel : Nat} (hfuel : 4 ≤ fuel)
    (as : List Arr) {fin : Option Val} {pairs : List (Val × Val)}
    (hown : Resume.runOpt (accNode f rs) (S.loc d).acc (valsOf as) = some (fin, pairs))
    (k : Nat) (hlt : k < as.length) :
    ∃ p a, pairs[k]? = some p ∧ as[k]? = some a ∧
      (emitsOf d (feed G fuel d as S).2)[k]? = some (accOut ws p, a.2.2) ∧
      ((feed G fuel d (as.take (k + 1)) S).1.loc d).acc = some p.1 := by
  obtain ⟨p, hp, hpre, _⟩ := runOpt_accNode_cut (valsOf as) _ fin pairs hown k (by simpa [valsOf] using hlt)
  have hpre' : Resume.runOpt (accNode f rs) (S.loc d).acc (valsOf (as.take (k + 1))) =
      some (some p.1, pairs.take (k + 1)) := by
    rw [valsOf, List.map_take]; exact hpre
  obtain ⟨h1, _, _⟩ := feed_accumulate G hk hfuel (as.take (k + 1)) S hA _ _ hpre'
  obtain ⟨h2, _, _⟩ := emitted_states_are_the_fold_despite_downstream_failures G hA hk hfuel as hown
  refine ⟨p, as[k], hp, List.getElem?_eq_getElem hlt, ?_, by rw [h1]⟩
  rw [h2, List.getElem?_zipWith, hp, List.getElem?_eq_getElem hlt]

/-- **Resuming from an emitted state, with faults on both sides.**  Take the state `p.1` inside the pair the first
node emitted for arrival `k`.  ANY other pipeline `G'`, `S'` whose accumulate node `d'` (same function) is
seeded with it (`start = p.1`, so `acc = some p.1`) and fed the remaining arrivals emits exactly the values the
first node emits for those arrivals, and ends in the same `acc` — whatever the consumers of either pipeline
do on whichever deliveries. -/
theorem resume_from_emitted_state_despite_downstream_failures {S : State} (hA : Acyclic S) {d : NodeId} {f : Fn2}
    {start : Option Val} {rs ws : Bool} (hk : G d = .accumulate f start rs ws) {fuel : Nat} (hfuel : 4 ≤ fuel)
    (as : List Arr) {fin : Option Val} {pairs : List (Val × Val)}
    (hown : Resume.runOpt (accNode f rs) (S.loc d).acc (valsOf as) = some (fin, pairs))
    (k : Nat) (hlt : k < as.length) {p : Val × Val} (hp : pairs[k]? = some p)
    (G' : NodeId → Kind) {S' : State} (hA' : Acyclic S') {d' : NodeId}
    (hk' : G' d' = .accumulate f (some p.1) rs ws) (hseed : (S'.loc d').acc = some p.1)
    {fuel' : Nat} (hfuel' : 4 ≤ fuel') :
    emitsOf d' (feed G' fuel' d' (as.drop (k + 1)) S').2 = (emitsOf d (feed G fuel d as S).2).drop (k + 1) ∧
      ((feed G' fuel' d' (as.drop (k + 1)) S').1.loc d').acc = ((feed G fuel d as S).1.loc d).acc := by
  obtain ⟨q, hq, _, hsuf⟩ := runOpt_accNode_cut (valsOf as) _ fin pairs hown k (by simpa [valsOf] using hlt)
  rw [hp] at hq; cases hq
  have hsuf' : Resume.runOpt (accNode f rs) (S'.loc d').acc (valsOf (as.drop (k + 1))) =
      some (fin, pairs.drop (k + 1)) := by
    rw [hseed, valsOf, List.map_drop]; exact hsuf
  obtain ⟨h1, h2, _⟩ := feed_accumulate G' hk' hfuel' (as.drop (k + 1)) S' hA' _ _ hsuf'
  obtain ⟨g1, g2, _⟩ := feed_accumulate G hk hfuel as S hA _ _ hown
  refine ⟨?_, by rw [h1, g1]⟩
  rw [h2, g2, List.drop_zipWith]

/-- The same on the fold alone (the generic model of `Model/Resume.lean`, step function = the accumulate node):
the fold restarted from the state inside the `k`-th pair over the remaining values yields the remaining pairs
and the same final state. -/
theorem accumulate_fold_resumes (f : Fn2) (rs : Bool) (acc fin : Option Val) (xs : List Val)
    (pairs : List (Val × Val)) (h : Resume.runOpt (accNode f rs) acc xs = some (fin, pairs))
    (k : Nat) (hk : k < xs.length) :
    ∃ p, pairs[k]? = some p ∧
      Resume.runOpt (accNode f rs) acc (xs.take (k + 1)) = some (some p.1, pairs.take (k + 1)) ∧
      Resume.runOpt (accNode f rs) (some p.1) (xs.drop (k + 1)) = some (fin, pairs.drop (k + 1)) :=
  runOpt_accNode_cut xs acc fin pairs h k hk

/-! ### 3. What 1 excludes: the mutated order, on a concrete run -/

/-- source 0 → accumulate(add, with_state) 1 → map(fst) 2 → sink 3 raising ValueError on multiples of 3.
(No unary function of the catalogue tells two pairs of integers apart, so the consumer that rejects the second
delivery is `map(fst)` followed by the failing sink.) -/
def accG : NodeId → Kind
  | 0 => .source
  | 1 => .accumulate .add none false true
  | 2 => .map .fst
  | _ => .sink (.sync (.failIf 3 0))

def accS : State :=
  { loc := fun i => match i with | 0 => {} | n + 1 => { ups := [n] }
    downs := fun i => match i with | 0 => [1] | 1 => [2] | 2 => [3] | _ => [] }

theorem accS_acyclic : Acyclic accS := by
  intro u d h
  unfold accS at h
  simp only [] at h
  split at h <;> simp at h <;> (unfold NodeId at *; omega)

/-- **Hand over first, adopt afterwards: emitted ≠ retained.**  The values 1, 2, 4 arrive at node 1, processed
with the mutated body `[.emit out md, .set s1]` (`updateMut`: same interpreter, same graph).  The second
delivery — the pair (3, 3) — reaches `map(fst)` (it is in the log as an arrival at node 2) and is rejected by the
sink: ValueError.  The node is left with `acc = 1`, the OLD state, although it emitted the state 3; the third
arrival then yields (5, 5), while a pipeline restarted from the emitted state 3 yields (7, 7).  The unchanged
`update` on the very same state and arrival fails with the same exception and retains 3. -/
theorem mutated_order_emitted_state_is_not_retained :
    let r1 := updateMut accG 20 1 0 (.int 1) [] accS
    let r2 := updateMut accG 20 1 0 (.int 2) [] r1.st
    let r3 := updateMut accG 20 1 0 (.int 4) [] r2.st
    let u2 := update accG 20 1 0 (.int 2) [] r1.st
    let u3 := update accG 20 1 0 (.int 4) [] u2.st
    r1.err = none ∧ (r1.st.loc 1).acc = some (.int 1) ∧
    r2.err = some .valueError ∧
    emitsOf 1 r2.log = [(.tup [.int 3, .int 3], [])] ∧
    arrivalsAt 2 r2.log = [(1, .tup [.int 3, .int 3], [])] ∧
    (r2.st.loc 1).acc = some (.int 1) ∧
    emitsOf 1 r3.log = [(.tup [.int 5, .int 5], [])] ∧
    u2.err = some .valueError ∧
    emitsOf 1 u2.log = [(.tup [.int 3, .int 3], [])] ∧
    (u2.st.loc 1).acc = some (.int 3) ∧
    emitsOf 1 u3.log = [(.tup [.int 7, .int 7], [])] := by
  decide +kernel

/-- source 0 → accumulate(add, start = 0, with_state) 1 → sink 2 whose function rejects every pair (TypeError) -/
def accG3 : NodeId → Kind
  | 0 => .source
  | 1 => .accumulate .add (some (.int 0)) false true
  | _ => .sink (.sync (.failIf 3 0))

def accS3 : State :=
  { loc := fun i => match i with | 1 => { ups := [0], acc := some (.int 0) } | _ => {}
    downs := fun i => match i with | 0 => [1] | 1 => [2] | _ => [] }

/-- The three-node form: the sink rejects the delivery of (3, 3); mutated order retains 0, unchanged order 3. -/
theorem mutated_order_three_nodes :
    let r := updateMut accG3 20 1 0 (.int 3) [] accS3
    let u := update accG3 20 1 0 (.int 3) [] accS3
    r.err = some .typeError ∧ emitsOf 1 r.log = [(.tup [.int 3, .int 3], [])] ∧
    arrivalsAt 2 r.log = [(1, .tup [.int 3, .int 3], [])] ∧ (r.st.loc 1).acc = some (.int 0) ∧
    u.err = some .typeError ∧ emitsOf 1 u.log = [(.tup [.int 3, .int 3], [])] ∧
    (u.st.loc 1).acc = some (.int 3) := by
  decide +kernel

/-! ### Non-vacuity -/

/-- the mutated body really is the swapped one on these arrivals -/
example : swapSetEmit (upd (accG 1) { ups := [0], acc := some (.int 1) } 0 (.int 2) []).effs =
    [.emit (.tup [.int 3, .int 3]) [], .set { ups := [0], acc := some (.int 3) }] :=
  swapSetEmit_accumulate (p := (.int 3, .int 3)) (by decide)

/-- hypotheses of theorem 1 on the failing run of the unchanged order: node 1 in state 1, arrival 2, the sink
raises ValueError; the theorem gives `acc = 3` and the emission of (3, 3) -/
example : ∃ st' res, emitsOf 1 (update accG 20 1 0 (.int 2) [] (update accG 20 1 0 (.int 1) [] accS).st).log =
      [(.tup [st', res], [])] ∧
    ((update accG 20 1 0 (.int 2) [] (update accG 20 1 0 (.int 1) [] accS).st).st.loc 1).acc = some st' :=
  emitted_state_is_retained_state accG
    (accS_acyclic.of_sublist (interp_downs_sublist accG 20 (.update 1 0 (.int 1) []) accS)) (f := .add)
    (start := none) (rs := false) rfl 0 (.int 2) [] (by decide +kernel) 20 .valueError
    (Or.inl ⟨by decide +kernel, by decide⟩)

/-- a sequence with a fault in the middle: 1, 2, 4, 5 — the deliveries of (3,3) and (12,12) are rejected
(two failed `update` calls); the fold is defined, the emissions are the fold's pairs, the final state is 12 -/
example : Resume.runOpt (accNode .add false) (accS.loc 1).acc (valsOf [(0, .int 1, []), (0, .int 2, []), (0, .int 4, []), (0, .int 5, [])]) =
    some (some (.int 12), [(.int 1, .int 1), (.int 3, .int 3), (.int 7, .int 7), (.int 12, .int 12)]) := by
  decide +kernel
example : feedFailures accG 20 1 [(0, .int 1, []), (0, .int 2, []), (0, .int 4, []), (0, .int 5, [])] accS = 2 ∧
    emitsOf 1 (feed accG 20 1 [(0, .int 1, []), (0, .int 2, []), (0, .int 4, []), (0, .int 5, [])] accS).2 =
      [(.tup [.int 1, .int 1], []), (.tup [.int 3, .int 3], []), (.tup [.int 7, .int 7], []), (.tup [.int 12, .int 12], [])] ∧
    ((feed accG 20 1 [(0, .int 1, []), (0, .int 2, []), (0, .int 4, []), (0, .int 5, [])] accS).1.loc 1).acc =
      some (.int 12) := by
  decide +kernel

/-- resuming after the rejected delivery (k = 1, emitted state 3) in the three-node pipeline, whose sink rejects
EVERY delivery: same remaining emissions (7,7), (12,12) -/
example : emitsOf 1 (feed accG3 9 1 [(0, .int 4, []), (0, .int 5, [])]
      { accS3 with loc := fun i => match i with | 1 => { ups := [0], acc := some (.int 3) } | _ => {} }).2 =
    [(.tup [.int 7, .int 7], []), (.tup [.int 12, .int 12], [])] := by
  decide +kernel

end StreamzVerif.Graph
