import StreamzVerif.Proofs.Dask
/-!
# C20 — a Dask-backed pipeline is observationally equivalent to the local one

Property theorems only (helper lemmas live in `Proofs/Dask.lean`).  Everything is
quantified over: the value type `V` with its tuple constructor `mk`, every
segment `ks` (list of node kinds with arbitrary user functions and parameters),
every input list `xs` with arbitrary metadata, and every assignment of times:
`p` (when the producer's emits reach `scatter`), `σ` (when the cluster
acknowledges scattered data), `T i k` (when the cluster finishes the k-th task
submitted by node `i`), `g` (when elements reach `gather`).

What holds and what does not, on the unchanged code:
* per kind and per segment, forgetting the future wrapper turns the Dask run
  into the local run (`step_simulation`, `segment_erasure`) — for all times;
* the sequence at the sink equals the local one **provided elements enter the
  asynchronous boundary nodes one at a time** (`dask_equiv_local_partial`);
* without that hypothesis the unchanged `gather` delivers in completion order:
  `unchanged_gather_reorders` (producer that does not await) and
  `unchanged_gather_reorders_union_awaited` (awaiting producer, `union` of two
  branches straight into `gather`) are the concrete counter-examples (negation);
* with `gather` serialised by a FIFO lock (proposed fix) the hypothesis on
  `gather` disappears (`locked_gather_in_arrival_order`,
  `dask_equiv_local_locked_partial`; still partial: it keeps the hypothesis
  that `scatter` acknowledges in call order, which the model cannot derive);
* reference counters: node buffers retain exactly the refs the local buffers
  retain, scatter/gather retain nothing once quiescent
  (`counters_balanced_as_local`).
-/
namespace StreamzVerif.Dask

/-- **Per-kind simulation (`erase`).**  For every kind, state, element and every
completion-time assignment `τ`: one `update` of the DaskStream node, with the
future wrappers forgotten, is the `update` of the local node. -/
theorem step_simulation {V : Type} (mk : List V → V) (τ : Nat → Nat) (k : Kind V) (s : DState V)
    (x : El (DVal V)) :
    eraseSt mk (dstep mk τ k s x).1 = (lstep mk k (eraseSt mk s) (eraseEl mk x)).1 ∧
    (dstep mk τ k s x).2.map (eraseEl mk) = (lstep mk k (eraseSt mk s) (eraseEl mk x)).2 := by
  rw [dstep_erase mk τ k s x]; exact ⟨rfl, rfl⟩

/-- **Segment erasure.**  For every segment, every sequence of (possibly nested,
possibly unfinished) futures entering it and every assignment of completion
times, the elements leaving the Dask segment are futures for exactly the local
outputs (values and metadata), and every node buffer holds futures for exactly
what the local buffer holds. -/
theorem segment_erasure {V : Type} (mk : List V → V) (T : Nat → Nat → Nat) (ks : List (Kind V))
    (xs : List (El (DVal V))) :
    (dseg mk T 0 ks xs).2.map (eraseEl mk) = (lseg mk ks (xs.map (eraseEl mk))).2 ∧
    (dseg mk T 0 ks xs).1.map (eraseSt mk) = (lseg mk ks (xs.map (eraseEl mk))).1 := by
  rw [dseg_erase mk T 0 ks xs]; exact ⟨rfl, rfl⟩

/-- **An asynchronous one-in-one-out node (scatter, gather) entered one at a time
emits in arrival order**, whatever the waiting times are. -/
theorem async_in_arrival_order_of_oneAtATime {β : Type} (arrs : List (Arr β)) (h : OneAtATime arrs) :
    asyncOut arrs = arrs.map (·.x) := by
  unfold asyncOut
  rw [sortBy_of_mono _ _ (oneAtATime_mono arrs h)]

/-- **C20, sink sequence (partial: hypothesis `OneAtATime` explicit).**  For every
segment, input and assignment of times such that elements enter `scatter` and
`gather` one at a time (the producer awaits each emit, or a `buffer` precedes
`gather`), the sequence of results (values and metadata) reaching the sink of
`scatter() … gather()` on the unchanged code is the local sequence.
Missing for the full statement: the case of several `gather.update` in flight,
where the unchanged code fails (`unchanged_gather_reorders`). -/
theorem dask_equiv_local_partial {V : Type} (mk : List V → V) (p σ : Nat → Nat) (T : Nat → Nat → Nat)
    (g : Nat → Nat) (ks : List (Kind V)) (xs : List (El V))
    (hs : OneAtATime (scatterArrs (V := V) p σ 0 xs))
    (hg : OneAtATime (gatherArrs mk g 0 (dseg mk T 0 ks (asyncOut (scatterArrs p σ 0 xs))).2)) :
    daskRun mk false p σ T g ks xs = (lseg mk ks xs).2 := by
  simp only [daskRun, Bool.false_eq_true, ↓reduceIte]
  rw [async_in_arrival_order_of_oneAtATime _ hg, gatherArrs_map_x,
    (segment_erasure mk T ks _).1, async_in_arrival_order_of_oneAtATime _ hs, scatterArrs_map_x]

/-- **Negation on the unchanged code.**  `scatter().map(f).gather()` fed `0, 1`
without awaiting (both reach `gather` at time 0) where the cluster finishes
`f(0)` at 50 and `f(1)` at 10: the sink receives `f(1)` before `f(0)`.  So the
equivalence does not hold for all schedules. -/
theorem unchanged_gather_reorders :
    ¬ ∀ (p σ : Nat → Nat) (T : Nat → Nat → Nat) (g : Nat → Nat),
        (daskRun (V := Nat) List.sum false p σ T g [Kind.map (· + 1)] [⟨0, [0]⟩, ⟨1, [1]⟩]).map (·.v) =
          ((lseg List.sum [Kind.map (· + 1)] [⟨0, [0]⟩, ⟨1, [1]⟩]).2).map (·.v) := by
  intro h
  have := h (fun _ => 0) (fun _ => 0) (fun _ k => if k = 0 then 50 else 10) (fun _ => 0)
  revert this
  decide

/-- **Negation with an awaiting producer.**  `s = source.scatter(); s.union(s.map(f)).gather()`
where the producer awaits every emit (the next input reaches `scatter` long after
everything derived from the previous one is finished, so `scatter` is entered one
at a time): each input sends two elements into `gather` from the same `_emit`
(both `gather.update` are called at the same instant); the plain scattered
future is finished, the task `f(x)` is not — the unchanged code delivers
`x, f(x)` where the local pipeline delivers `f(x), x`.  The locked gather
delivers the local sequence on the same schedule. -/
theorem unchanged_gather_reorders_union_awaited :
    ∃ (p σ : Nat → Nat) (T : Nat → Nat → Nat) (g : Nat → Nat),
      OneAtATime (scatterArrs (V := Nat) p σ 0 [⟨0, [0]⟩, ⟨1, [1]⟩]) ∧
      (daskRun List.sum false p σ T g [Kind.unionMap (· + 100)] [⟨0, [0]⟩, ⟨1, [1]⟩]).map (·.v)
        = [0, 100, 1, 101] ∧
      ((lseg List.sum [Kind.unionMap (· + 100)] [⟨0, [0]⟩, ⟨1, [1]⟩]).2).map (·.v) = [100, 0, 101, 1] ∧
      (daskRun List.sum true p σ T g [Kind.unionMap (· + 100)] [⟨0, [0]⟩, ⟨1, [1]⟩]).map (·.v)
        = [100, 0, 101, 1] :=
  ⟨fun j => 1000 * j, fun j => 1000 * j, fun _ k => 1000 * k + 30, fun j => 1000 * (j / 2),
    by decide, by decide, by decide, by decide⟩

/-- **The locked gather emits in arrival order for every assignment of times**
(no hypothesis): the fix's FIFO lock makes finishing times non-decreasing. -/
theorem locked_gather_in_arrival_order {β : Type} (arrs : List (Arr β)) :
    lockedOut arrs = arrs.map (·.x) := by
  unfold lockedOut
  rw [sortBy_of_mono _ _ (lockedFins_mono 0 arrs).1, lockedFins_map_snd]

/-- **C20 with the order-preserving gather (partial).**  No hypothesis on how
elements reach `gather`, whatever order the cluster finishes tasks in.
Missing: the model leaves the acknowledgement times `σ` of concurrent
`client.scatter` calls arbitrary, so in-order scatter remains a hypothesis
(no reordering of scatter was observed on the in-process cluster). -/
theorem dask_equiv_local_locked_partial {V : Type} (mk : List V → V) (p σ : Nat → Nat)
    (T : Nat → Nat → Nat) (g : Nat → Nat) (ks : List (Kind V)) (xs : List (El V))
    (hs : OneAtATime (scatterArrs (V := V) p σ 0 xs)) :
    daskRun mk true p σ T g ks xs = (lseg mk ks xs).2 := by
  simp only [daskRun, ↓reduceIte]
  rw [locked_gather_in_arrival_order, gatherArrs_map_x,
    (segment_erasure mk T ks _).1, async_in_arrival_order_of_oneAtATime _ hs, scatterArrs_map_x]

/-- **Reference counters are balanced as locally.**  At any time `t` by which all
`scatter.update` / `gather.update` coroutines have finished (`sf`, `gf`: their
call and finishing times, arbitrary), every counter `r` has the same value in
the Dask-backed pipeline (refs retained by node buffers over futures + refs
retained by the waiting coroutines) as in the local pipeline. -/
theorem counters_balanced_as_local {V : Type} (mk : List V → V) (p σ : Nat → Nat)
    (T : Nat → Nat → Nat) (ks : List (Kind V)) (xs : List (El V))
    (hs : OneAtATime (scatterArrs (V := V) p σ 0 xs))
    (sf : List (Nat × Nat × El (DVal V))) (gf : List (Nat × Nat × El V)) (t : Nat)
    (hq : (∀ a ∈ sf, a.2.1 ≤ t) ∧ (∀ a ∈ gf, a.2.1 ≤ t)) (r : Nat) :
    countRef r (((daskStates mk p σ T ks xs).flatMap (fun s => held s.st))
        ++ asyncHeld (·.md) sf t ++ asyncHeld (·.md) gf t) =
      countRef r ((lseg mk ks xs).1.flatMap held) := by
  have quiet : ∀ {β : Type} (md : β → List Nat) (f : List (Nat × Nat × β)),
      (∀ a ∈ f, a.2.1 ≤ t) → asyncHeld md f t = [] := by
    intro β md f hf
    unfold asyncHeld
    have : f.filter (fun a => decide (a.1 ≤ t ∧ t < a.2.1)) = [] := by
      rw [List.filter_eq_nil_iff]
      intro a ha
      have := hf a ha
      simp only [decide_eq_true_eq, not_and, Nat.not_lt]
      intro _; exact this
    rw [this]; rfl
  rw [quiet _ sf hq.1, quiet _ gf hq.2, List.append_nil, List.append_nil]
  congr 1
  have e := (segment_erasure mk T ks (asyncOut (scatterArrs p σ 0 xs))).2
  rw [async_in_arrival_order_of_oneAtATime _ hs, scatterArrs_map_x] at e
  rw [← e, daskStates, async_in_arrival_order_of_oneAtATime _ hs, List.flatMap_map]
  congr 1
  funext s
  exact (held_map (DVal.erase mk) s.st).symm

/-- A coroutine that has been called and has not finished keeps its refs
retained (`_retain_refs` first, `_release_refs` after the downstream emit):
no counter can reach zero while its element waits in scatter/gather. -/
theorem async_retains_while_waiting {β : Type} (md : β → List Nat) (f : List (Nat × Nat × β))
    (a : Nat × Nat × β) (ha : a ∈ f) (t : Nat) (h1 : a.1 ≤ t) (h2 : t < a.2.1) (r : Nat)
    (hr : r ∈ md a.2.2) : 0 < countRef r (asyncHeld md f t) := by
  unfold countRef asyncHeld
  apply List.length_pos_of_mem (a := r)
  rw [List.mem_filter]
  refine ⟨?_, by simp⟩
  rw [List.mem_flatMap]
  exact ⟨a, by rw [List.mem_filter]; exact ⟨ha, by simp [h1, h2]⟩, hr⟩

/-! ## Non-vacuity -/

/-- The hypotheses of `dask_equiv_local_partial` are satisfiable by a real run in
which tasks finish *out of order* (the first task at 50, the second at 10, the
third at 30) and a `buffer` delays the arrivals at `gather` accordingly. -/
example :
    let ks : List (Kind Nat) := [Kind.map (· + 1), Kind.buffer 5]
    let xs : List (El Nat) := [⟨0, [0]⟩, ⟨1, [1]⟩, ⟨2, [2]⟩]
    let T : Nat → Nat → Nat := fun _ k => [50, 10, 30].getD k 0
    let g : Nat → Nat := fun j => [3, 50, 50].getD j 0
    OneAtATime (scatterArrs (V := Nat) (fun j => j) (fun j => j) 0 xs) ∧
    OneAtATime (gatherArrs List.sum g 0
      (dseg List.sum T 0 ks (asyncOut (scatterArrs (fun j => j) (fun j => j) 0 xs))).2) ∧
    (daskRun List.sum false (fun j => j) (fun j => j) T g ks xs).map (·.v) = [1, 2, 3] := by
  refine ⟨?_, ?_, ?_⟩
  · simp [scatterArrs, OneAtATime, Arr.fin]
  · decide
  · decide

/-- The reordering of `unchanged_gather_reorders`, spelled out: values `[2, 1]`
at the sink instead of `[1, 2]`; the locked gather gives `[1, 2]` on the same
schedule. -/
example :
    (daskRun (V := Nat) List.sum false (fun _ => 0) (fun _ => 0) (fun _ k => if k = 0 then 50 else 10)
      (fun _ => 0) [Kind.map (· + 1)] [⟨0, [0]⟩, ⟨1, [1]⟩]).map (·.v) = [2, 1] ∧
    (daskRun (V := Nat) List.sum true (fun _ => 0) (fun _ => 0) (fun _ k => if k = 0 then 50 else 10)
      (fun _ => 0) [Kind.map (· + 1)] [⟨0, [0]⟩, ⟨1, [1]⟩]).map (·.v) = [1, 2] := by
  constructor <;> decide

/-- Counters: `partition(2)` then `sliding_window(2)` over three inputs leaves the
third input retained by the partition buffer and the first two by the window —
in the Dask segment exactly as locally. -/
example :
    let ks : List (Kind Nat) := [Kind.partition 2, Kind.slidingWindow 2 true]
    let xs : List (El Nat) := [⟨5, [0]⟩, ⟨6, [1]⟩, ⟨7, [2]⟩]
    ((lseg List.sum ks xs).1.flatMap held = [2, 0, 1]) ∧
    ((daskStates List.sum (fun j => j) (fun j => j) (fun _ _ => 7) ks xs).flatMap (fun s => held s.st)
      = [2, 0, 1]) := by
  constructor <;> decide

end StreamzVerif.Dask
