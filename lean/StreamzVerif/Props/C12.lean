import StreamzVerif.Proofs.Resume
import StreamzVerif.Proofs.ResumeRolling
/-!
# C12 — aggregation state can be checkpointed and resumed without changing results

Property theorems only (helper lemmas in `Proofs/Resume.lean`).

**Honest statement of what is proved.**  Every theorem below is a statement about a *pure* step
function `step : σ → β → σ × ρ` and is therefore easy: it is `foldl_append` in disguise.  The
generic part quantifies over EVERY step function, every start state, every list of batches
(empty batches are just elements of the list) and every cut; the instantiations then say, model by
model, that the `State` type of that model (`acc` rows of rolling, `(dfs, state)` of expanding,
`(result, old_wt, is_first)` of EWM, …) is all that a resumed pipeline needs.  What can really go
wrong in the Python code is that the accumulation is NOT such a function of the emitted state:

* part of the state lives outside the emitted object (an attribute on the `Aggregation`) —
  `hidden_state_breaks_resume` shows on a concrete witness that the theorem fails for such code;
* the emitted container (the deque of window batches, the carried frame) is aliased between the
  first pipeline and the resumed one and mutated in place by either;
* the emitted state does not contain everything the next step reads.

None of these is expressible as a failure of a pure `step`; they are what the correspondence run
of `harness/props/c12.py` exercises on the real code (no copy of the emitted state, both pipelines
continue from the same object, snapshots of every emitted state are re-checked at the end).

Instantiations for the models of C06 (`Model/Agg.lean`: reductions, groupby) and C07
(`Model/Window.lean`: fixed-size and time windows, windowed groupby) are in `Props/C12Agg.lean`
and `Props/C12Window.lean`.
-/
namespace StreamzVerif.Resume

variable {σ β ρ : Type}

/-! ### generic: any accumulation function, any batches, any cut -/

/-- **Resume.**  For every step function, start state, batch list and cut `k` (any `k`, also `0` and
beyond the end): a fresh pipeline started with the state reached after the first `k` batches and fed
the remaining batches ends in the same final state as the uninterrupted pipeline and emits exactly
the uninterrupted results without the first `k`. -/
theorem resume (step : σ → β → σ × ρ) (s : σ) (bs : List β) (k : Nat) :
    resumeAt step s bs k = ((run step s bs).1, (run step s bs).2.drop k) := by
  have h := run_append step s (bs.take k) (bs.drop k)
  rw [List.take_append_drop] at h
  unfold resumeAt stateAfter
  rw [h]
  have hl : (run step s (bs.take k)).2.length = min k bs.length := by
    rw [run_length, List.length_take]
  by_cases hk : k ≤ bs.length
  · rw [Nat.min_eq_left hk] at hl
    rw [List.drop_left' hl]
  · have hk' : bs.length ≤ k := Nat.le_of_not_le hk
    have hd : bs.drop k = [] := List.drop_eq_nil_of_le hk'
    rw [hd]
    simp only [run, List.append_nil]
    rw [List.drop_eq_nil_of_le]
    rw [Nat.min_eq_right hk'] at hl
    omega

/-- Exposing the state does not change the results: the result components of the `(state, result)`
tuples are what the node emits without `with_state`, and there is one tuple per batch. -/
theorem with_state_same_results (step : σ → β → σ × ρ) (s : σ) (bs : List β) :
    (runWS step s bs).map (·.2) = (run step s bs).2 ∧ (runWS step s bs).length = bs.length :=
  ⟨runWS_map_snd step s bs, runWS_length step s bs⟩

/-- The state emitted with batch number `k` (0-based) IS the node's state after `k + 1` batches. -/
theorem emitted_state_is_node_state (step : σ → β → σ × ρ) (s : σ) (bs : List β) (k : Nat)
    (hk : k < bs.length) :
    ((runWS step s bs)[k]?).map (·.1) = some (stateAfter step s (bs.take (k + 1))) := by
  have hlen : k < (runWS step s bs).length := by rw [runWS_length]; exact hk
  rw [List.getElem?_eq_getElem hlen]
  simp only [Option.map_some, Option.some.injEq]
  exact runWS_getElem? step s bs k _ (runWS step s bs)[k].2 (by rw [List.getElem?_eq_getElem hlen])

/-- **Resume from an emitted state** (`with_state=True` / `start=`): take ANY tuple `(st, r)` that the
first pipeline emitted, say for batch number `k`; a new pipeline built with `start = st` and fed the
batches after `k` emits exactly the same `(state, result)` tuples as the first pipeline does for those
batches — results AND states — and, without `with_state`, exactly the same results. -/
theorem resume_with_state (step : σ → β → σ × ρ) (s : σ) (bs : List β) (k : Nat) (st : σ) (r : ρ)
    (h : (runWS step s bs)[k]? = some (st, r)) :
    runWS step st (bs.drop (k + 1)) = (runWS step s bs).drop (k + 1) ∧
      run step st (bs.drop (k + 1)) = ((run step s bs).1, (run step s bs).2.drop (k + 1)) := by
  have hst := runWS_getElem? step s bs k st r h
  have hk : k < bs.length := by
    have := (List.getElem?_eq_some_iff.mp h).1
    rwa [runWS_length] at this
  constructor
  · have happ := runWS_append step s (bs.take (k + 1)) (bs.drop (k + 1))
    rw [List.take_append_drop] at happ
    rw [happ, hst]
    have hl : (runWS step s (bs.take (k + 1))).length = k + 1 := by
      rw [runWS_length, List.length_take]; omega
    rw [List.drop_left' hl]
  · rw [hst]
    exact resume step s bs (k + 1)

/-- **Several cuts.**  Cutting the batch sequence into any number of segments (empty ones included),
each processed by a fresh pipeline started from the final state of the previous one, gives the final
state and the results of the uninterrupted pipeline over the concatenation. -/
theorem resume_many (step : σ → β → σ × ρ) (s : σ) (segs : List (List β)) :
    chain step s segs = run step s segs.flatten := by
  induction segs generalizing s with
  | nil => simp [chain, run]
  | cons seg segs ih => simp [chain, ih, run_append]

/-- **Several cuts through emitted states only.**  Each fresh pipeline is started with the state
component of the last tuple its predecessor emitted (its own start when the predecessor emitted
nothing); the tuples emitted by all of them, in order, are those of the uninterrupted pipeline. -/
theorem resume_many_with_state (step : σ → β → σ × ρ) (s : σ) (segs : List (List β)) :
    chainWS step s segs = runWS step s segs.flatten := by
  induction segs generalizing s with
  | nil => simp [chainWS, runWS]
  | cons seg segs ih => simp [chainWS, ih, runWS_append, lastState_runWS]

/-- Accumulators that can fail (assertions): cutting at `k` neither hides nor creates a failure —
the run over `bs` is the run over the first `k` batches followed, from the state reached, by the run
over the rest (failing iff one of the two parts fails). -/
theorem resume_fallible (step : σ → β → Option (σ × ρ)) (s : σ) (bs : List β) (k : Nat) :
    runOpt step s bs =
      (runOpt step s (bs.take k)).bind (fun a =>
        (runOpt step a.1 (bs.drop k)).map (fun c => (c.1, a.2 ++ c.2))) := by
  have h := runOpt_append step s (bs.take k) (bs.drop k)
  rwa [List.take_append_drop] at h

/-- For a successful uninterrupted run the resumed run succeeds with the same final state and the
suffix of the results. -/
theorem resume_fallible_ok (step : σ → β → Option (σ × ρ)) (s : σ) (bs : List β) (k : Nat)
    (fin : σ) (out : List ρ) (h : runOpt step s bs = some (fin, out)) :
    ∃ mid pre, runOpt step s (bs.take k) = some (mid, pre) ∧
      runOpt step mid (bs.drop k) = some (fin, out.drop pre.length) ∧ out.take pre.length = pre := by
  rw [resume_fallible step s bs k] at h
  cases h1 : runOpt step s (bs.take k) with
  | none => rw [h1] at h; simp at h
  | some a =>
    rw [h1] at h
    simp only [Option.bind_some] at h
    cases h2 : runOpt step a.1 (bs.drop k) with
    | none => rw [h2] at h; simp at h
    | some c =>
      rw [h2] at h
      simp only [Option.map_some, Option.some.injEq, Prod.mk.injEq] at h
      refine ⟨a.1, a.2, rfl, ?_, ?_⟩
      · rw [← h.2, ← h.1]; simpa using h2
      · rw [← h.2]; simp

/-- Why purity is the whole point: an accumulation that keeps a counter on the aggregation object
(hidden, reset to 0 in a new pipeline) and emits `state + counter` violates the property —
uninterrupted `[1, 3, 5]`, resumed after one batch `[2, 4]` instead of `[3, 5]`. -/
theorem hidden_state_breaks_resume :
    let hstep : Nat × Nat → Unit → (Nat × Nat) × Nat := fun hs _ => ((hs.1 + 1, hs.2 + 1), hs.1 + hs.2 + 1)
    runHidden hstep 0 0 [(), (), ()] = [1, 3, 5] ∧
      resumeHidden hstep 0 0 [(), (), ()] 1 = [2, 4] ∧
      resumeHidden hstep 0 0 [(), (), ()] 1 ≠ (runHidden hstep 0 0 [(), (), ()]).drop 1 := by
  decide

/-! ### instantiation: the models of `Model/Rolling.lean` (C11)

`runAcc` is the C11 name of `run`.  Each statement fixes the model's step function, i.e. says that
the model's state type is a sufficient checkpoint. -/
open StreamzVerif.Rolling

/-- `sdf.rolling(W, with_state=True, start=acc)`, row-count window, any pandas reduction `agg`:
the carried rows `acc` are a sufficient checkpoint. -/
theorem resume_rolling_count {α γ : Type} (W : Nat) (agg : List α → γ) (acc : List α)
    (bs : List (List α)) (k : Nat) :
    runAcc (rollStepCount W agg) (runAcc (rollStepCount W agg) acc (bs.take k)).1 (bs.drop k) =
      ((runAcc (rollStepCount W agg) acc bs).1, (runAcc (rollStepCount W agg) acc bs).2.drop k) := by
  simp only [runAcc_eq_run]
  exact resume (rollStepCount W agg) acc bs k

/-- `sdf.rolling('Ws', with_state=True, start=acc)`, time window. -/
theorem resume_rolling_time {α γ : Type} (time : α → Int) (W : Int) (agg : List α → γ) (acc : List α)
    (bs : List (List α)) (k : Nat) :
    runAcc (rollStepTime time W agg) (runAcc (rollStepTime time W agg) acc (bs.take k)).1 (bs.drop k) =
      ((runAcc (rollStepTime time W agg) acc bs).1, (runAcc (rollStepTime time W agg) acc bs).2.drop k) := by
  simp only [runAcc_eq_run]
  exact resume (rollStepTime time W agg) acc bs k

/-- `sdf.expanding(with_state=True, start=acc)` with any `Aggregation` (`Sum`, `Count`, `Mean`,
`Var(ddof)` are `aggSum`, `aggCount`, `aggMean`, `aggVar ddof`): `{'dfs', 'state'}` is a sufficient
checkpoint; `acc = none` is `start=None`. -/
theorem resume_expanding {α τ γ : Type} (A : Agg α τ γ) (acc : Option (List (List α) × τ))
    (bs : List (List α)) (k : Nat) :
    runAcc (expStep A) (runAcc (expStep A) acc (bs.take k)).1 (bs.drop k) =
      ((runAcc (expStep A) acc bs).1, (runAcc (expStep A) acc bs).2.drop k) := by
  simp only [runAcc_eq_run]
  exact resume (expStep A) acc bs k

/-- `sdf.ewm(com, with_state=True, start=acc).mean()`: `{'dfs', 'state': (result, old_wt, is_first)}`
is a sufficient checkpoint. -/
theorem resume_ewm (q : Rat) (acc : Option (List (List Rat) × EwmSt)) (bs : List (List Rat)) (k : Nat) :
    runAcc (ewmStep q) (runAcc (ewmStep q) acc (bs.take k)).1 (bs.drop k) =
      ((runAcc (ewmStep q) acc bs).1, (runAcc (ewmStep q) acc bs).2.drop k) := by
  simp only [runAcc_eq_run]
  exact resume (ewmStep q) acc bs k

/-- The cumulative aggregations (`cumsum`…; not named by the property, `start` is not exposed by the
API): the one carried row is a sufficient checkpoint all the same. -/
theorem resume_cumulative {α : Type} (f : α → α → α) (st : List (Option α)) (bs : List (List (Option α)))
    (k : Nat) :
    runAcc (cumStep f) (runAcc (cumStep f) st (bs.take k)).1 (bs.drop k) =
      ((runAcc (cumStep f) st bs).1, (runAcc (cumStep f) st bs).2.drop k) := by
  simp only [runAcc_eq_run]
  exact resume (cumStep f) st bs k

/-- Dropping `old_wt` from the EWM checkpoint (restarting it at 1) is NOT harmless: the theorem above
is about the full state.  Witness: `com = 1`, batches `[1,2] | [3]`. -/
theorem ewm_needs_old_wt :
    let full := runAcc (ewmStep (1 / 2)) none [[1, 2], [3]]
    let st := (runAcc (ewmStep (1 / 2)) none [[1, 2]]).1
    let st' := st.map (fun p => (p.1, { p.2 with oldWt := 1 }))
    full.2 = [some (5 / 3), some (17 / 7)] ∧
      (runAcc (ewmStep (1 / 2)) st [[3]]).2 = [some (17 / 7)] ∧
      (runAcc (ewmStep (1 / 2)) st' [[3]]).2 = [some (23 / 9)] := by
  decide +kernel

/-! ### Non-vacuity -/

-- a running sum that emits the state: cut after 2 of 4 batches
example : resumeAt (fun (s : Nat) (b : List Nat) => (s + b.sum, s + b.sum)) 0 [[1], [], [2, 3], [4]] 2
    = (10, [6, 10]) := by decide
example : (run (fun (s : Nat) (b : List Nat) => (s + b.sum, s + b.sum)) 0 [[1], [], [2, 3], [4]]).2
    = [1, 1, 6, 10] := by decide
-- the hypothesis of `resume_with_state` is satisfiable: the tuple emitted for batch 1 is (1, 1)
example : (runWS (fun (s : Nat) (b : List Nat) => (s + b.sum, s + b.sum)) 0 [[1], [], [2, 3], [4]])[1]? = some (1, 1) := by
  decide
-- several cuts, one of them producing an empty segment
example : chainWS (fun (s : Nat) (b : List Nat) => (s + b.sum, b.length)) 0 [[[1]], [], [[], [2, 3]], [[4]]]
    = [(1, 1), (1, 0), (6, 2), (10, 1)] := by decide
-- a fallible step that succeeds
example : runOpt (fun (s : Nat) (b : Nat) => if b = 0 then none else some (s + b, s)) 0 [1, 2, 3] = some (6, [0, 1, 3]) := by
  decide
-- rolling(2) resumed after the first of three batches (`agg = id` shows the windows)
example : (runAcc (rollStepCount 2 (fun w : List Nat => w)) (runAcc (rollStepCount 2 (fun w : List Nat => w)) [] [[1, 2, 3]]).1
    [[], [4]]).2 = [[], [[3, 4]]] := by decide

end StreamzVerif.Resume
