import StreamzVerif.Proofs.TextFile
/-!
# C17 — file-based sources deliver every record exactly once however the data arrives

Property theorems only (helper lemmas live in `Proofs/TextFile.lean`).
All theorems quantify over *every* non-empty delimiter, *every* initial clean
buffer and *every* list of reads (chunks), of any length.
-/
namespace StreamzVerif.TextFile

/-- One-pass specification: the complete records of `t` (each with its delimiter). -/
def records (d t : Text) : List Text := (split d t).dropLast.map (· ++ d)
/-- One-pass specification: the unterminated tail of `t`. -/
def tail (d t : Text) : Text := (split d t).getLast?.getD []

/-- A buffer is *clean* when it contains no delimiter (true of the initial `''`). -/
def Clean (d : Text) (s : St) : Prop := cut d s.buffer = none

theorem tail_clean (d : Text) (hd : d ≠ []) (t : Text) : cut d (tail d t) = none := by
  generalize hn : t.length = n
  induction n using Nat.strongRecOn generalizing t with
  | _ n ih =>
    cases hc : cut d t with
    | none => simp [tail, split_of_cut_none hc, hc]
    | some p =>
      obtain ⟨b, r⟩ := p
      have hlt := cut_length hd hc
      have := ih r.length (by omega) r rfl
      have hne := split_ne_nil d r
      unfold tail at this ⊢
      rw [split_of_cut_some hd hc]
      cases hs : split d r with
      | nil => exact absurd hs hne
      | cons y ys => rw [hs] at this; simpa [List.getLast?_cons_cons] using this

theorem feed_spec (d : Text) (s : St) (chunk : Text) :
    feed d s chunk = ({ buffer := tail d (s.buffer ++ chunk) }, records d (s.buffer ++ chunk)) := by
  unfold feed contains
  cases hc : cut d (s.buffer ++ chunk) with
  | none => simp [tail, records, split_of_cut_none hc]
  | some p => simp [tail, records, hc]

/-- **Chunking independence** (the heart of C17): whatever way the text is cut
into reads — records split across reads, several records per read, a
multi-character delimiter split across reads, empty reads in between — the
emitted records and the held-back tail are those of the one-pass split of the
concatenated text. -/
theorem run_chunking_independent (d : Text) (hd : d ≠ []) (s : St) (hs : Clean d s)
    (chunks : List Text) :
    run d s chunks =
      ({ buffer := tail d (s.buffer ++ chunks.flatten) },
        records d (s.buffer ++ chunks.flatten)) := by
  induction chunks generalizing s with
  | nil =>
    have : cut d s.buffer = none := hs
    simp [run, tail, records, split_of_cut_none this]
  | cons c cs ih =>
    unfold run poll
    by_cases hce : c.isEmpty
    · have : c = [] := by simpa using hce
      subst this
      simp only [List.isEmpty_nil, ↓reduceIte, List.flatten_cons, List.nil_append]
      rw [ih s hs]
    · simp only [hce, Bool.false_eq_true, ↓reduceIte]
      rw [feed_spec]
      have hclean : Clean d { buffer := tail d (s.buffer ++ c) } := tail_clean d hd _
      rw [ih _ hclean]
      simp only [List.flatten_cons]
      have hsa := split_append d hd (s.buffer ++ c) cs.flatten
      simp only [tail, records, Prod.mk.injEq, St.mk.injEq]
      rw [← List.append_assoc, hsa]
      have hne := split_ne_nil d ((split d (s.buffer ++ c)).getLast?.getD [] ++ cs.flatten)
      constructor
      · rw [List.getLast?_append, List.getLast?_eq_some_getLast hne]; simp
      · rw [List.dropLast_append_of_ne_nil hne]; simp

/-- Two different chunkings of the same text give the same emissions and tail. -/
theorem run_same_text (d : Text) (hd : d ≠ []) (cs₁ cs₂ : List Text)
    (h : cs₁.flatten = cs₂.flatten) :
    run d { buffer := [] } cs₁ = run d { buffer := [] } cs₂ := by
  have hc : Clean d { buffer := [] } := by simp [Clean, cut]
  rw [run_chunking_independent d hd _ hc, run_chunking_independent d hd _ hc, h]

/-- Nothing is lost, duplicated, reordered or modified: emitted records followed
by the held-back tail re-concatenate to exactly the text read so far. -/
theorem records_tail_concat (d : Text) (hd : d ≠ []) (t : Text) :
    (records d t).flatten ++ tail d t = t := by
  generalize hn : t.length = n
  induction n using Nat.strongRecOn generalizing t with
  | _ n ih =>
    cases hc : cut d t with
    | none => simp [tail, records, split_of_cut_none hc]
    | some p =>
      obtain ⟨b, r⟩ := p
      have hlt := cut_length hd hc
      have hr := ih r.length (by omega) r rfl
      have hne := split_ne_nil d r
      have hsound := cut_sound hc
      unfold tail records at hr ⊢
      rw [split_of_cut_some hd hc, List.dropLast_cons_of_ne_nil hne]
      cases hs : split d r with
      | nil => exact absurd hs hne
      | cons y ys =>
        rw [hs] at hr
        simp only [List.map_cons, List.flatten_cons, List.getLast?_cons_cons]
        rw [List.append_assoc, hr, hsound]

theorem run_conserves (d : Text) (hd : d ≠ []) (chunks : List Text) :
    let r := run d { buffer := [] } chunks
    r.2.flatten ++ r.1.buffer = chunks.flatten := by
  have hc : Clean d { buffer := [] } := by simp [Clean, cut]
  simp only [run_chunking_independent d hd _ hc, List.nil_append]
  exact records_tail_concat d hd _

/-- The first occurrence of `d` in `b ++ d ++ a` being at `b` implies the same in `b ++ d`. -/
theorem cut_record {d b a : Text} (hd : d ≠ []) (h : cut d (b ++ d ++ a) = some (b, a)) :
    cut d (b ++ d) = some (b, []) := by
  induction b with
  | nil =>
    cases d with
    | nil => exact absurd rfl hd
    | cons c d' =>
      simp only [List.nil_append]
      unfold cut
      have : (c :: d').isPrefixOf (c :: d') = true := List.isPrefixOf_iff_prefix.mpr (List.prefix_refl _)
      simp [this]
  | cons c b' ih =>
    have e1 : c :: b' ++ d ++ a = c :: (b' ++ d ++ a) := by simp
    rw [e1] at h
    unfold cut at h
    split at h
    · simp at h
    · next hnp =>
      split at h
      · simp at h
      · next b2 a2 hc =>
        simp only [Option.some.injEq, Prod.mk.injEq, List.cons.injEq, true_and] at h
        obtain ⟨rfl, rfl⟩ := h
        have hnp' : ¬ d.isPrefixOf (c :: (b2 ++ d)) = true := by
          intro hq
          apply hnp
          have hq' := List.isPrefixOf_iff_prefix.mp hq
          apply List.isPrefixOf_iff_prefix.mpr
          have : c :: (b2 ++ d ++ a2) = (c :: (b2 ++ d)) ++ a2 := by simp
          rw [this]
          exact List.IsPrefix.trans hq' (List.prefix_append _ _)
        show cut d (c :: (b2 ++ d)) = _
        unfold cut
        simp only [hnp', Bool.false_eq_true, ↓reduceIte, ih hc]

/-- Every emitted record is `part ++ delimiter` where the delimiter at the end is
the *first* occurrence in the record: exactly one record per emission, none
merged, none cut short. -/
theorem records_wellformed (d : Text) (hd : d ≠ []) (t : Text) :
    ∀ r ∈ records d t, ∃ p, r = p ++ d ∧ cut d r = some (p, []) := by
  generalize hn : t.length = n
  induction n using Nat.strongRecOn generalizing t with
  | _ n ih =>
    cases hc : cut d t with
    | none => simp [records, split_of_cut_none hc]
    | some p =>
      obtain ⟨b, a⟩ := p
      have hlt := cut_length hd hc
      have hne := split_ne_nil d a
      have hsound := cut_sound hc
      intro r hr
      unfold records at hr
      rw [split_of_cut_some hd hc, List.dropLast_cons_of_ne_nil hne] at hr
      simp only [List.map_cons, List.mem_cons] at hr
      rcases hr with rfl | hr
      · refine ⟨b, rfl, ?_⟩
        rw [hsound] at hc
        exact cut_record hd hc
      · exact ih a.length (by omega) a rfl r hr

/-- The unterminated tail is held back: no record is ever hidden in the buffer. -/
theorem run_buffer_clean (d : Text) (hd : d ≠ []) (chunks : List Text) :
    Clean d (run d { buffer := [] } chunks).1 := by
  have hc : Clean d { buffer := [] } := by simp [Clean, cut]
  rw [run_chunking_independent d hd _ hc]
  exact tail_clean d hd _

/-! ### filenames -/

theorem mem_insertSorted (x y : Nat) (l : List Nat) :
    y ∈ insertSorted x l ↔ y = x ∨ y ∈ l := by
  induction l with
  | nil => simp [insertSorted]
  | cons z zs ih =>
    unfold insertSorted
    split
    · simp
    · split
      · next h => subst h; simp
      · simp [ih]; constructor <;> (intro h; rcases h with h | h | h <;> simp [h])

theorem pairwise_insertSorted (x : Nat) (l : List Nat) (h : l.Pairwise (· < ·)) :
    (insertSorted x l).Pairwise (· < ·) := by
  induction l with
  | nil => simp [insertSorted]
  | cons z zs ih =>
    unfold insertSorted
    have hz := List.pairwise_cons.mp h
    split
    · next hlt =>
      apply List.pairwise_cons.mpr
      refine ⟨?_, h⟩
      intro a ha
      rcases List.mem_cons.mp ha with rfl | ha
      · exact hlt
      · exact Nat.lt_trans hlt (hz.1 a ha)
    · split
      · exact h
      · next h1 h2 =>
        apply List.pairwise_cons.mpr
        refine ⟨?_, ih hz.2⟩
        intro a ha
        rcases (mem_insertSorted x a zs).mp ha with rfl | ha
        · omega
        · exact hz.1 a ha

theorem mem_sortDedup (y : Nat) (l : List Nat) : y ∈ sortDedup l ↔ y ∈ l := by
  induction l with
  | nil => simp [sortDedup]
  | cons z zs ih =>
    unfold sortDedup at ih ⊢
    simp only [List.foldr_cons, mem_insertSorted, ih, List.mem_cons]

theorem pairwise_sortDedup (l : List Nat) : (sortDedup l).Pairwise (· < ·) := by
  induction l with
  | nil => simp [sortDedup]
  | cons z zs ih => exact pairwise_insertSorted z _ ih

/-- Each poll emits exactly the paths of the listing not seen before, in strictly
increasing (hence sorted, duplicate-free) order, and remembers them. -/
theorem fpoll_spec (s : FSt) (listing : List Nat) :
    let r := fpoll s listing
    r.2.Pairwise (· < ·) ∧ (∀ x, x ∈ r.2 ↔ (x ∈ listing ∧ x ∉ s.seen)) ∧
      r.1.seen = s.seen ++ r.2 := by
  simp only [fpoll]
  refine ⟨pairwise_sortDedup _, ?_, trivial⟩
  intro x
  rw [mem_sortDedup]
  simp

/-- Over any sequence of directory listings no path is emitted twice, and
nothing already seen before the run is emitted again. -/
theorem frun_exactly_once (s : FSt) (ls : List (List Nat)) :
    (frun s ls).2.flatten.Nodup ∧ ∀ x ∈ (frun s ls).2.flatten, x ∉ s.seen := by
  induction ls generalizing s with
  | nil => simp [frun]
  | cons l ls ih =>
    unfold frun
    have hp := fpoll_spec s l
    simp only at hp
    obtain ⟨hpw, hmem, hseen⟩ := hp
    have ih' := ih (fpoll s l).1
    simp only [List.flatten_cons]
    constructor
    · apply List.nodup_append.mpr
      refine ⟨?_, ih'.1, ?_⟩
      · exact (List.Pairwise.imp (fun h => Nat.ne_of_lt h) hpw)
      · intro a ha b hb hab
        subst hab
        have := ih'.2 a hb
        rw [hseen] at this
        exact this (List.mem_append_right _ ha)
    · intro x hx
      rcases List.mem_append.mp hx with hx | hx
      · exact ((hmem x).mp hx).2
      · have := ih'.2 x hx
        rw [hseen] at this
        intro hc
        exact this (List.mem_append_left _ hc)

/-- Every path that ever appears in a listing is emitted (at least, hence exactly, once)
unless it was already known before the run. -/
theorem frun_complete (s : FSt) (ls : List (List Nat)) (x : Nat)
    (hx : ∃ l ∈ ls, x ∈ l) (hs : x ∉ s.seen) : x ∈ (frun s ls).2.flatten := by
  induction ls generalizing s with
  | nil => simp at hx
  | cons l ls ih =>
    unfold frun
    have hp := fpoll_spec s l
    simp only at hp
    obtain ⟨_, hmem, hseen⟩ := hp
    simp only [List.flatten_cons, List.mem_append]
    by_cases hxl : x ∈ l
    · exact Or.inl ((hmem x).mpr ⟨hxl, hs⟩)
    · obtain ⟨l', hl', hxl'⟩ := hx
      rcases List.mem_cons.mp hl' with rfl | hl'
      · exact absurd hxl' hxl
      · by_cases hnew : x ∈ (fpoll s l).2
        · exact Or.inl hnew
        · refine Or.inr (ih _ ⟨l', hl', hxl'⟩ ?_)
          rw [hseen]; simp [hs, hnew]

/-- A poll cut short by a raising consumer hands over a prefix of what the full poll would have, marks exactly
that prefix as seen, and therefore loses nothing: the rest is still "new" for the next poll. -/
theorem fpollFail_spec (s : FSt) (listing : List Nat) (bad : Nat) :
    let r := fpollFail s listing bad
    r.2 <+: (fpoll s listing).2 ∧ r.1.seen = s.seen ++ r.2 ∧
      (∀ x, x ∈ (fpoll s listing).2 → x ∉ r.2 → x ∉ r.1.seen) := by
  simp only [fpollFail, fpoll]
  refine ⟨?_, trivial, ?_⟩
  · split
    · exact List.take_prefix _ _
    · exact List.prefix_refl _
  · intro x hx hnot hseen
    rcases List.mem_append.mp hseen with h | h
    · have := (mem_sortDedup x _).mp hx
      simp at this
      exact this.2 h
    · exact hnot h

/-- A read cut short by a raising consumer hands over a prefix of the records of that read, never a record twice,
and leaves the same clean buffer as the complete read (what follows the failing record in that read is lost: the
property makes no exactly-once claim under consumer faults, only "nothing twice, nothing out of order"). -/
theorem feedFail_spec (d : Text) (s : St) (chunk : Text) (k : Nat) :
    (feedFail d s chunk k).2 <+: (feed d s chunk).2 ∧ (feedFail d s chunk k).1 = (feed d s chunk).1 := by
  simp only [feedFail]
  exact ⟨List.take_prefix _ _, trivial⟩

/-! ### Non-vacuity: concrete runs that meet the hypotheses -/

-- multi-character, self-overlapping delimiter "aa" split across three reads
example : (run "aa".toList { buffer := [] } ["xa".toList, "a".toList, "yaaa".toList, [], "az".toList]).2
    = ["xaa".toList, "yaa".toList, "aa".toList] := by
  have hd : "aa".toList ≠ [] := by decide
  have hc : Clean "aa".toList { buffer := [] } := by simp [Clean, cut]
  rw [run_chunking_independent _ hd _ hc]
  decide +kernel
example : Clean "aa".toList { buffer := [] } := by simp [Clean, cut]
example : (frun { seen := [] } [[3, 1], [1, 2, 3], [], [0, 2]]).2 = [[1, 3], [2], [], [0]] := by decide
example : (fpollFail { seen := [] } [3, 1, 2] 2).2 = [1, 2] ∧ (fpoll (fpollFail { seen := [] } [3, 1, 2] 2).1 [3, 1, 2, 4]).2 = [3, 4] := by decide

end StreamzVerif.TextFile
