import StreamzVerif.Proofs.Compose
import StreamzVerif.Props.C01
import StreamzVerif.Props.C01Sem
/-
C01, composition layer: the graph-level theorems of `Props/C01.lean` (each node is handed exactly what its
upstreams emitted) composed with the per-kind list-level theorems of `Props/C01Sem.lean` (what a node run in
isolation outputs), over whole input histories.

`emitMany G fuel ins S` performs the top-level emissions `ins : List (entry node × value × metadata)` one after
the other, threading the state, stopping at the first exception (`Proofs/Compose.lean`).  All theorems are for
every graph `G`, every fuel, every DAG state `S`, every history, under the hypothesis that the whole history
ran normally (`err = none`, `carried = none`).
-/
namespace StreamzVerif.Graph

variable (G : NodeId → Kind)

/-- **Projection over a history.**  After any successful history (emissions interleaved over any entry points)
every node's state is its own `upd` folded over exactly its arrivals in the total log, and its emissions are
its local outputs: exactly those for a node that is not an entry point, exactly the injected elements for a
node nothing arrives at, and an interleaving of the two in general. -/
theorem emits_project {fuel : Nat} {ins : List Inp} {S : State} (hA : Acyclic S)
    (he : (emitMany G fuel ins S).err = none) (hc : (emitMany G fuel ins S).carried = none) (i : NodeId) :
    (emitMany G fuel ins S).st.loc i = replay G i (S.loc i) (arrivalsAt i (emitMany G fuel ins S).log) ∧
    (entriesAt i ins = [] → emitsOf i (emitMany G fuel ins S).log =
        localOuts G i (S.loc i) (arrivalsAt i (emitMany G fuel ins S).log)) ∧
    (arrivalsAt i (emitMany G fuel ins S).log = [] → emitsOf i (emitMany G fuel ins S).log = entriesAt i ins) ∧
    (emitsOf i (emitMany G fuel ins S).log).Perm
      (entriesAt i ins ++ localOuts G i (S.loc i) (arrivalsAt i (emitMany G fuel ins S).log)) := by
  have hr := runSeq_of_ok G fuel ins S ⟨he, hc⟩
  exact ⟨runSeq_proj G hr hA i, runSeq_emits G hr hA i⟩

/-- The same in terms of the graph-free `localRun` (the object of the `*_sem` theorems): a non-entry node
behaves, over the whole history, exactly like the node run in isolation over its arrival list. -/
theorem history_is_localRun {fuel : Nat} {ins : List Inp} {S : State} (hA : Acyclic S)
    (he : (emitMany G fuel ins S).err = none) (hc : (emitMany G fuel ins S).carried = none) (i : NodeId)
    (hi : entriesAt i ins = []) :
    ((emitMany G fuel ins S).st.loc i, emitsOf i (emitMany G fuel ins S).log) =
      localRun (G i) (S.loc i) (arrivalsAt i (emitMany G fuel ins S).log) := by
  obtain ⟨h1, h2, _⟩ := emits_project G hA he hc i
  rw [localRun_eq, h1, h2 hi]

/-- Edge consistency over a history (static topology): every emission of `u`, in order, handed to each
downstream of `u` in attachment order. -/
theorem history_edge_consistency (hG : NoDetach G) {fuel : Nat} {ins : List Inp} {S : State} (hA : Acyclic S)
    (he : (emitMany G fuel ins S).err = none) (hc : (emitMany G fuel ins S).carried = none) (u : NodeId) :
    arrivalsFrom u (emitMany G fuel ins S).log =
      (emitsOf u (emitMany G fuel ins S).log).flatMap (fun e => (S.downs u).map (fun d => (d, e.1, e.2))) :=
  runSeq_edges G hG (runSeq_of_ok G fuel ins S ⟨he, hc⟩) hA u

/-- **One edge.**  If `u` is the only upstream of `d`, the arrival list of `d` over the whole history is the
emission list of `u` (values and metadata, in order). -/
theorem single_upstream (hG : NoDetach G) {fuel : Nat} {ins : List Inp} {S : State} (hA : Acyclic S)
    (he : (emitMany G fuel ins S).err = none) (hc : (emitMany G fuel ins S).carried = none)
    (u d : NodeId) (hd : (S.downs u).count d = 1) (honly : ∀ w, d ∈ S.downs w → w = u) :
    arrivalsAt d (emitMany G fuel ins S).log = tag u (emitsOf u (emitMany G fuel ins S).log) :=
  runSeq_single_upstream G hG (runSeq_of_ok G fuel ins S ⟨he, hc⟩) hA u d hd honly

/-- **Chains.**  For a linear chain `c 0 → c 1 → … → c m` and any successful input history `xs` at `c 0`: node
`c j` emits `chainOut G S c xs j` — the local runs of `c 1 … c j` composed and applied to `xs` — and the
arrivals at `c (k+1)` are exactly the outputs of the local run of `c k`, tagged with their origin. -/
theorem chain_sem (hG : NoDetach G) {fuel : Nat} {c : Nat → NodeId} {m : Nat} {xs : List (Val × Meta)}
    {S : State} (hA : Acyclic S) (hch : IsChain S c m)
    (he : (emitMany G fuel (tag (c 0) xs) S).err = none)
    (hc : (emitMany G fuel (tag (c 0) xs) S).carried = none) :
    (∀ j, j ≤ m → emitsOf (c j) (emitMany G fuel (tag (c 0) xs) S).log = chainOut G S c xs j) ∧
    (∀ k, k < m → arrivalsAt (c (k + 1)) (emitMany G fuel (tag (c 0) xs) S).log
        = tag (c k) (chainOut G S c xs k)) := by
  have hr := runSeq_of_ok G fuel _ S ⟨he, hc⟩
  exact ⟨fun j hj => (runSeq_chain G hG hr hA hch j hj).1,
    fun k hk => (runSeq_chain G hG hr hA hch (k + 1) (by omega)).2 k rfl⟩

/-- plugging a `*_sem` theorem into a chain: a `map f` stage applies `mapSpec f` to what the previous stage
emits, -/
theorem chain_step_map {S : State} {c : Nat → NodeId} {xs : List (Val × Meta)} {j : Nat} {f : Fn}
    (hk : G (c (j + 1)) = .map f) : chainOut G S c xs (j + 1) = mapSpec f (chainOut G S c xs j) := by
  simp only [chainOut, hk, map_sem, pays_tag]
/-- ... a `filter p` stage applies `filterSpec p`. -/
theorem chain_step_filter {S : State} {c : Nat → NodeId} {xs : List (Val × Meta)} {j : Nat} {p : Fn}
    (hk : G (c (j + 1)) = .filter p) : chainOut G S c xs (j + 1) = filterSpec p (chainOut G S c xs j) := by
  simp only [chainOut, hk, filter_sem, pays_tag]

/-- `source → map f → filter p → sink`: the sink's arrival list is the input list mapped then filtered (elements
on which `f` or `p` raise cannot occur in a successful history; the specs skip them). -/
theorem chain_map_filter_sem (hG : NoDetach G) {fuel : Nat} {c : Nat → NodeId} {xs : List (Val × Meta)}
    {S : State} {f p : Fn} (hA : Acyclic S) (hch : IsChain S c 3)
    (h1 : G (c 1) = .map f) (h2 : G (c 2) = .filter p)
    (he : (emitMany G fuel (tag (c 0) xs) S).err = none)
    (hc : (emitMany G fuel (tag (c 0) xs) S).carried = none) :
    arrivalsAt (c 3) (emitMany G fuel (tag (c 0) xs) S).log = tag (c 2) (filterSpec p (mapSpec f xs)) := by
  rw [(chain_sem G hG hA hch he hc).2 2 (by omega), chain_step_filter G h2, chain_step_map G h1]
  rfl

/-- **Fan-out.**  A node `u` with downstreams `[d1, d2]` (each fed by `u` alone): both branches receive the
same sequence — every emission of `u` — and in the global log each emission is delivered to `d1` before it is
delivered to `d2`, and to both before the next emission of `u` is delivered to anyone. -/
theorem tree_fanout (hG : NoDetach G) {fuel : Nat} {ins : List Inp} {S : State} (hA : Acyclic S)
    {u d1 d2 : NodeId} (hne : d1 ≠ d2) (hd : S.downs u = [d1, d2])
    (h1 : ∀ w, d1 ∈ S.downs w → w = u) (h2 : ∀ w, d2 ∈ S.downs w → w = u)
    (he : (emitMany G fuel ins S).err = none) (hc : (emitMany G fuel ins S).carried = none) :
    arrivalsAt d1 (emitMany G fuel ins S).log = tag u (emitsOf u (emitMany G fuel ins S).log) ∧
    arrivalsAt d2 (emitMany G fuel ins S).log = tag u (emitsOf u (emitMany G fuel ins S).log) ∧
    arrivalsFrom u (emitMany G fuel ins S).log =
      (emitsOf u (emitMany G fuel ins S).log).flatMap (fun e => [(d1, e.1, e.2), (d2, e.1, e.2)]) :=
  runSeq_fanout2 G hG (runSeq_of_ok G fuel ins S ⟨he, hc⟩) hA hne hd h1 h2

/-- **The zip diamond** `a → map f = b`, `a → map g = c`, `zip(b, c) = z`: for every successful input history
`xs` at `a` (with `f`, `g` defined on it), `z` emits exactly one pair `(f x, g x)` per input `x`, in input
order, carrying the metadata of both branches — the alignment fact element-wise expressions over two columns
derived from one stream rely on. -/
theorem diamond_zip (hG : NoDetach G) {fuel : Nat} {a b c z : NodeId} {xs : List (Val × Meta)} {S : State}
    {f g : Fn} (f' g' : Val → Val) (hA : Acyclic S) (hD : IsDiamond S a b c z)
    (hb : G b = .map f) (hc : G c = .map g) (hz : G z = .zip [])
    (hups : (S.loc z).ups = [b, c]) (hbufs : (S.loc z).bufs = [(b, []), (c, [])])
    (hf : ∀ x ∈ xs, f.eval x.1 = .ok (f' x.1)) (hg : ∀ x ∈ xs, g.eval x.1 = .ok (g' x.1))
    (he : (emitMany G fuel (tag a xs) S).err = none)
    (hca : (emitMany G fuel (tag a xs) S).carried = none) :
    emitsOf z (emitMany G fuel (tag a xs) S).log =
      xs.map (fun x => (Val.tup [f' x.1, g' x.1], x.2 ++ x.2)) := by
  obtain ⟨_, _, sb, sc, ez⟩ := runSeq_diamond G hG (runSeq_of_ok G fuel _ S ⟨he, hca⟩) hA hD
  rw [ez, hz, (zip2_sem b c hD.ne (S.loc z) hups hbufs _).1, sb, sc, hb, hc,
    map_sem_total f f' _ _ (fun x hx => hf x.2 (tag_mem hx).1),
    map_sem_total g g' _ _ (fun x hx => hg x.2 (tag_mem hx).1), pays_tag, zipWith_map_same]
  rfl

/-- values only -/
theorem diamond_zip_vals (hG : NoDetach G) {fuel : Nat} {a b c z : NodeId} {xs : List (Val × Meta)} {S : State}
    {f g : Fn} (f' g' : Val → Val) (hA : Acyclic S) (hD : IsDiamond S a b c z)
    (hb : G b = .map f) (hc : G c = .map g) (hz : G z = .zip [])
    (hups : (S.loc z).ups = [b, c]) (hbufs : (S.loc z).bufs = [(b, []), (c, [])])
    (hf : ∀ x ∈ xs, f.eval x.1 = .ok (f' x.1)) (hg : ∀ x ∈ xs, g.eval x.1 = .ok (g' x.1))
    (he : (emitMany G fuel (tag a xs) S).err = none)
    (hca : (emitMany G fuel (tag a xs) S).carried = none) :
    (emitsOf z (emitMany G fuel (tag a xs) S).log).map Prod.fst =
      xs.map (fun x => Val.tup [f' x.1, g' x.1]) := by
  rw [diamond_zip G hG f' g' hA hD hb hc hz hups hbufs hf hg he hca, List.map_map]
  rfl


/-! ### Non-vacuity -/

/-- the diamond of `Props/C01.lean` (`exG`, `exS`: source 0 → map inc 1, → map dbl 2, zip(1,2) = 3 → sink 4) and a
two-element history, the second element carrying reference-counted metadata -/
def exXs : List (Val × Meta) := [(.int 5, []), (.int 7, [⟨1, some 0⟩])]

theorem exS_diamond : IsDiamond exS 0 1 2 3 := by
  refine ⟨by decide, rfl, rfl, rfl, ?_, ?_, ?_⟩
  · intro w h; unfold exS at h; simp only [] at h; split at h <;> simp at h
  · intro w h; unfold exS at h; simp only [] at h; split at h <;> simp_all
  · intro w h; unfold exS at h; simp only [] at h; split at h <;> simp_all

example : (emitMany exG 100 (tag 0 exXs) exS).err = none ∧
    (emitMany exG 100 (tag 0 exXs) exS).carried = none := by decide +kernel

def incV : Val → Val | .int i => .int (i + 1) | v => v
def dblV : Val → Val | .int i => .int (2 * i) | v => v

/-- `diamond_zip` applies to it ... -/
example : emitsOf 3 (emitMany exG 100 (tag 0 exXs) exS).log =
    exXs.map (fun x => (Val.tup [incV x.1, dblV x.1], x.2 ++ x.2)) :=
  diamond_zip exG exG_static (xs := exXs) incV dblV exS_acyclic exS_diamond rfl rfl rfl rfl rfl
    (by intro x hx; simp [exXs] at hx; rcases hx with rfl | rfl <;> rfl)
    (by intro x hx; simp [exXs] at hx; rcases hx with rfl | rfl <;> rfl)
    (by decide +kernel) (by decide +kernel)
/-- ... and what it says is what the interpreter computes: the sink receives (6, 10) then (8, 14) -/
example : (arrivalsAt 4 (emitMany exG 100 (tag 0 exXs) exS).log).map (·.2.1) =
    [.tup [.int 6, .int 10], .tup [.int 8, .int 14]] := by decide +kernel
/-- fan-out at node 0: deliveries alternate 1, 2, 1, 2 -/
example : (arrivalsFrom 0 (emitMany exG 100 (tag 0 exXs) exS).log).map (·.1) = [1, 2, 1, 2] := by
  decide +kernel

/-- a chain: source 0 → map inc 1 → filter isEven 2 → sink 3 -/
def exGc : NodeId → Kind
  | 0 => .source
  | 1 => .map .inc
  | 2 => .filter .isEven
  | _ => .sink (.sync .id)

def exSc : State :=
  { loc := fun _ => {}
    downs := fun i => match i with | 0 => [1] | 1 => [2] | 2 => [3] | _ => [] }

theorem exSc_acyclic : Acyclic exSc := by
  intro u d h
  unfold exSc at h
  simp only [] at h
  split at h <;> simp at h <;> (unfold NodeId at *; omega)

theorem exSc_chain : IsChain exSc id 3 := by
  refine ⟨?_, ?_, ?_⟩
  · intro j hj
    match j, hj with
    | 0, _ => rfl
    | 1, _ => rfl
    | 2, _ => rfl
  · intro j w hj h
    unfold exSc at h; simp only [id] at h ⊢
    split at h <;> simp at h <;> (unfold NodeId at *; omega)
  · intro w h; unfold exSc at h; simp only [id] at h; split at h <;> simp at h

theorem exGc_static : NoDetach exGc := by
  apply noDetach_of_slices
  intro i a e c h
  unfold exGc at h
  split at h <;> cases h

def exYs : List (Val × Meta) := [(.int 1, []), (.int 2, [⟨3, none⟩]), (.int 3, [])]

example : arrivalsAt 3 (emitMany exGc 100 (tag 0 exYs) exSc).log =
    tag 2 (filterSpec .isEven (mapSpec .inc exYs)) :=
  chain_map_filter_sem exGc exGc_static (c := id) exSc_acyclic exSc_chain rfl rfl
    (by decide +kernel) (by decide +kernel)
example : tag 2 (filterSpec .isEven (mapSpec .inc exYs)) = [(2, .int 2, []), (2, .int 4, [])] := by decide

end StreamzVerif.Graph
