import StreamzVerif.Proofs.Source
/-!
# C18 — Source lifecycle: one polling loop at a time, nothing emitted after stop

Property theorems only (helper lemmas live in `Proofs/Source.lean`).  Every theorem
quantifies over *every* history `acts : List Act` of `start` / `stop` calls and
scheduler moves `resume i`, of any length, starting from a freshly constructed
source (`init` / `iinit`).  `run true` / `irun true` is the code WITH fix-1.diff;
`run false` / `irun false` is the ORIGINAL mechanism of the pinned commit, for which
the single-loop clause is refuted on concrete histories (section "original").
-/
namespace StreamzVerif.Source

/-! ## Polling sources (from_periodic, from_textfile, filenames, from_q) -/

/-- **At most one polling loop**: whatever the history, at most one invocation of
`run()` is live (scheduled or suspended). -/
theorem poll_at_most_one_loop (acts : List Act) : (run true init acts).loops.length ≤ 1 := by
  have h := inv_run init acts inv_init
  unfold Inv at h
  split at h <;> omega

/-- A `stop(); start()` pair issued while the source is running (the old loop has no
chance to notice) changes nothing at all: the live loop simply carries on. -/
theorem poll_stop_start_is_identity (pre post : List Act) (h : ctlStopped pre = false) :
    run true init (pre ++ Act.stop :: Act.start :: post) = run true init (pre ++ post) := by
  rw [run_append, run_append, run_cons, run_cons]
  have hs : (run true init pre).stopped = false := by rw [stopped_run]; exact h
  have hr : (run true init pre).runLive = true := inv2_run init pre (by simp [Inv2, init]) hs
  congr 1
  generalize run true init pre = s at hs hr
  cases s
  simp_all [step]

/-- **No cycle begins while stopped**: from a point of the history where the last
public call is `stop` (or none at all), no sequence of scheduler moves and further
`stop`s begins a polling cycle or clears the flag — until the next `start`.
(Holds for either mechanism.) -/
theorem poll_no_cycle_while_stopped (f : Bool) (pre mid : List Act) (h : ctlStopped pre = true)
    (hm : ∀ a ∈ mid, a ≠ Act.start) :
    (run f init (pre ++ mid)).cycles = (run f init pre).cycles
      ∧ (run f init (pre ++ mid)).stopped = true := by
  rw [run_append]
  have hs : (run f init pre).stopped = true := by rw [stopped_run]; exact h
  have := stopped_run_quiet f _ mid hs hm
  exact ⟨this.2, this.1⟩

/-- The same, phrased as in the property: between a `stop` and the next `start` no
cycle begins (the cycle in progress may finish: finishing is not a new cycle). -/
theorem poll_no_cycle_between_stop_and_start (f : Bool) (pre mid : List Act)
    (hm : ∀ a ∈ mid, a ≠ Act.start) :
    (run f init (pre ++ Act.stop :: mid)).cycles = (run f init (pre ++ [Act.stop])).cycles := by
  have h : ctlStopped (pre ++ [Act.stop]) = true := by simp [ctlStopped, List.foldl_append]
  have := (poll_no_cycle_while_stopped f (pre ++ [Act.stop]) mid h hm).1
  simpa using this

/-- **`start` on a started source is the identity**, whatever follows. -/
theorem poll_start_on_started_is_identity (f : Bool) (pre post : List Act) (h : ctlStopped pre = false) :
    run f init (pre ++ Act.start :: post) = run f init (pre ++ post) := by
  rw [run_append, run_append, run_cons]
  have hs : (run f init pre).stopped = false := by rw [stopped_run]; exact h
  simp [step, hs]

/-- **`stop` on a stopped source is the identity**, whatever follows. -/
theorem poll_stop_on_stopped_is_identity (f : Bool) (pre post : List Act) (h : ctlStopped pre = true) :
    run f init (pre ++ Act.stop :: post) = run f init (pre ++ post) := by
  rw [run_append, run_append, run_cons]
  have hs : (run f init pre).stopped = true := by rw [stopped_run]; exact h
  simp [step, hs]

/-! ### The original mechanism (pinned commit, before fix-1.diff) -/

/-- NEGATION of the single-loop clause for the original `start()`: start, let the loop
begin its first cycle, then `stop(); start()` while it is suspended — two live loops. -/
theorem orig_two_live_loops :
    (run false init [.start, .resume 0, .stop, .start]).loops.length = 2 := by decide

/-- ... and both keep polling: every round of the scheduler now begins two cycles
(from_periodic observed at twice its rate). -/
theorem orig_double_rate :
    (run false init [.start, .resume 0, .stop, .start, .resume 1, .resume 0, .resume 1, .resume 0]).cycles = 5
      ∧ (run true init [.start, .resume 0, .stop, .start, .resume 1, .resume 0, .resume 1, .resume 0]).cycles = 3 := by
  decide

/-- What the original mechanism does guarantee (excluding hypothesis explicit): if no
`start()` takes effect while an invocation of `run()` is still live, there is at most
one loop.  The hypothesis is exactly what the existing tests arrange by waiting. -/
theorem orig_at_most_one_loop_partial (acts : List Act) (h : CalmFrom init acts) :
    (run false init acts).loops.length ≤ 1 :=
  orig_calm_le_one init acts (by simp [init]) h

/-! ## from_iterable -/

/-- **At most one loop** for from_iterable (which overrides `run()`). -/
theorem iter_at_most_one_loop (c : Cfg) (acts : List Act) : (irun true c iinit acts).loops.length ≤ 1 := by
  have h := (iinv_run c iinit acts (iinv_init c)).live
  split at h <;> omega

/-- **Emission log is a prefix of the iterable, in order** (re-iterable): at every
moment of every history, what has been emitted since the current/most recent
invocation of `run()` began is a prefix of the items. -/
theorem iter_run_emits_prefix (c : Cfg) (hc : c.shared = false) (acts : List Act) :
    curRun (irun true c iinit acts).log <+: c.items :=
  (iinv_run c iinit acts (iinv_init c)).pre hc

/-- **Exactly the items**: when an invocation runs off the end of the iterable, it has
emitted every item (in order, once). -/
theorem iter_exhausted_run_emitted_exactly (c : Cfg) (hc : c.shared = false) (acts : List Act)
    (l : List IEv) (h : (irun true c iinit acts).log = IEv.exhausted :: l) : curRun l = c.items :=
  (iinv_run c iinit acts (iinv_init c)).exh hc l h

/-- Iterator-like iterable (one shared cursor): over the whole history the items
pulled out form a prefix of the iterable and the items emitted are a subsequence of
it — in order, none twice. -/
theorem iter_shared_in_order (c : Cfg) (hc : c.shared = true) (acts : List Act) :
    taken (irun true c iinit acts).log <+: c.items
      ∧ (emitted (irun true c iinit acts).log).Sublist c.items := by
  have h := iinv_run c iinit acts (iinv_init c)
  have h1 := h.tk hc
  have h2 := h.sub hc
  rw [h1] at h2
  exact ⟨h1 ▸ List.take_prefix _ _, h2.trans (List.take_sublist _ _)⟩

/-- **Waits for downstream**: whenever an item is taken from the iterable, every
emit-awaitable handed out before is done (the log is newest-first: `pre` is the past). -/
theorem iter_take_waits_for_downstream (c : Cfg) (acts : List Act) (post pre : List IEv) (x : Nat)
    (h : (irun true c iinit acts).log = post ++ IEv.take x :: pre) : pending pre = 0 :=
  good_split (iinv_run c iinit acts (iinv_init c)).good post pre x h

/-- **Nothing emitted while stopped**: from a state with `stopped` set (after a `stop`,
or after the iterable ran out), nothing is emitted until the next `start`. -/
theorem iter_no_emit_while_stopped (f : Bool) (c : Cfg) (pre mid : List Act)
    (h : (irun f c iinit pre).stopped = true) (hm : ∀ a ∈ mid, a ≠ Act.start) :
    emitted (irun f c iinit (pre ++ mid)).log = emitted (irun f c iinit pre).log := by
  rw [irun_append]
  exact (istopped_run_quiet f c _ mid h hm).2

theorem iter_no_emit_between_stop_and_start (f : Bool) (c : Cfg) (pre mid : List Act)
    (hm : ∀ a ∈ mid, a ≠ Act.start) :
    emitted (irun f c iinit (pre ++ Act.stop :: mid)).log
      = emitted (irun f c iinit (pre ++ [Act.stop])).log := by
  have h : (irun f c iinit (pre ++ [Act.stop])).stopped = true := by
    rw [irun_append]
    generalize irun f c iinit pre = s
    cases hs : s.stopped <;> simp [irun, istep, hs]
  have := iter_no_emit_while_stopped f c (pre ++ [Act.stop]) mid h hm
  simpa using this

/-- `start` on a started / `stop` on a stopped from_iterable is the identity. -/
theorem iter_start_on_started_is_identity (f : Bool) (c : Cfg) (pre post : List Act)
    (h : (irun f c iinit pre).stopped = false) :
    irun f c iinit (pre ++ Act.start :: post) = irun f c iinit (pre ++ post) := by
  rw [irun_append, irun_append, irun_cons]
  simp [istep, h]

theorem iter_stop_on_stopped_is_identity (f : Bool) (c : Cfg) (pre post : List Act)
    (h : (irun f c iinit pre).stopped = true) :
    irun f c iinit (pre ++ Act.stop :: post) = irun f c iinit (pre ++ post) := by
  rw [irun_append, irun_append, irun_cons]
  simp [istep, h]

/-! ### The original mechanism on from_iterable -/

def witnessCfg : Cfg := { items := [0, 1, 2, 3], shared := false }
def witnessActs : List Act :=
  [.start, .resume 0, .stop, .start, .resume 1, .resume 0, .resume 1]

/-- NEGATION (original `start()`): `stop(); start()` during the back-pressured emit of
item 0 gives two interleaved loops: the sink receives `0,0,1,1`, item 0 of the second
loop is taken while the first loop's emit-awaitable is still pending, and the items
emitted since the last `begin` are not a prefix of the iterable. -/
theorem orig_iter_interleaves :
    (irun false witnessCfg iinit witnessActs).loops.length = 2
      ∧ emitted (irun false witnessCfg iinit witnessActs).log = [0, 0, 1, 1]
      ∧ (∃ post pre, (irun false witnessCfg iinit witnessActs).log = post ++ IEv.take 0 :: pre ∧ pending pre = 1)
      ∧ ¬ curRun (irun false witnessCfg iinit witnessActs).log <+: witnessCfg.items := by
  refine ⟨by decide, by decide, ?_, by decide⟩
  exact ⟨[.emit 1, .take 1, .done, .emit 1, .take 1, .done, .emit 0],
    [.begin, .emit 0, .take 0, .begin], by decide, by decide⟩

/-- The same history on the fixed code: one loop, `0,1,2,3` in order. -/
theorem fixed_iter_on_witness :
    (irun true witnessCfg iinit witnessActs).loops.length = 1
      ∧ emitted (irun true witnessCfg iinit (witnessActs ++ [.resume 0, .resume 0])).log = [0, 1, 2, 3] := by
  decide

/-! ## Non-vacuity: the hypotheses above are met by real histories -/

-- a running source (last call `start`) with a suspended loop: stop();start() is invisible
example : ctlStopped [.start, .resume 0] = false ∧ (run true init [.start, .resume 0]).loops = [Phase.inCycle] := by decide
-- a stopped source whose loop is still suspended: resumes finish the cycle, begin none
example : ctlStopped [.start, .resume 0, .stop] = true
    ∧ (run true init [.start, .resume 0, .stop]).loops = [Phase.inCycle]
    ∧ (run true init ([.start, .resume 0, .stop] ++ [.resume 0, .resume 0, .stop])).cycles = 1
    ∧ (run true init ([.start, .resume 0, .stop] ++ [.resume 0, .resume 0, .stop])).loops = [] := by decide
-- after the loop has really exited, start() starts a new one which does poll
example : (run true init [.start, .resume 0, .stop, .resume 0, .start, .resume 0]).cycles = 2
    ∧ (run true init [.start, .resume 0, .stop, .resume 0, .start, .resume 0]).loops = [Phase.inCycle] := by decide
-- calm histories exist for the original mechanism (what the test-suite does)
example : CalmFrom init [.start, .resume 0, .stop, .resume 0, .start, .resume 0] := by
  simp [CalmFrom, step, init]
-- from_iterable: a full run ends in `exhausted` having emitted everything
example : (irun true ⟨[5, 6], false⟩ iinit [.start, .resume 0, .resume 0, .resume 0]).log
    = [.exhausted, .done, .emit 6, .take 6, .done, .emit 5, .take 5, .begin] := by decide
-- from_iterable restarted after exhaustion iterates again from the first item
example : emitted (irun true ⟨[5, 6], false⟩ iinit
    [.start, .resume 0, .resume 0, .resume 0, .start, .resume 0]).log = [5, 6, 5] := by decide
-- iterator-like: stop before the loop has begun costs the item that `for` pulls first
example : taken (irun true ⟨[5, 6], true⟩ iinit [.start, .stop, .resume 0, .start, .resume 0]).log = [5, 6]
    ∧ emitted (irun true ⟨[5, 6], true⟩ iinit [.start, .stop, .resume 0, .start, .resume 0]).log = [6] := by decide
-- stopped from_iterable with a pending emit: the awaitable completes, nothing more is emitted
example : (irun true ⟨[5, 6], false⟩ iinit [.start, .resume 0, .stop]).stopped = true
    ∧ emitted (irun true ⟨[5, 6], false⟩ iinit [.start, .resume 0, .stop, .resume 0, .resume 0]).log = [5] := by decide

end StreamzVerif.Source
