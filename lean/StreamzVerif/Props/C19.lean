import StreamzVerif.Proofs.LoopCfg
/-!
# C19 — one event loop per pipeline; async pipelines never leave the caller's loop

Property theorems only (helper lemmas: `Proofs/LoopCfg.lean`).  `construct w a` is one
`Stream.__init__` in the world `w` (any graph built so far, any labels — including the
residue of earlier raising constructions), the new node has index `w.size`.
Unless said otherwise the theorems hold for every world and every argument tuple;
`w.legacy = false` selects the repaired step 3 (fix-1.diff), the unchanged code is
`legacy = true` and is shown to violate the property at the end of the file.
-/
namespace StreamzVerif.LoopCfg

/-- The upstreams handed to a constructor are existing nodes. -/
def Args.Valid (w : World) (a : Args) : Prop := ∀ u ∈ a.ups, u < w.size

/-- Upstream lists only mention earlier nodes (true of every world built by `construct`). -/
def World.WF (w : World) : Prop := ∀ d u, u ∈ w.upsOf d → u < d ∧ d < w.size

/-- One loop per pipeline: along every edge the two loops are equal or one is unset. -/
def EdgeOK (w : World) : Prop :=
  ∀ d u, u ∈ w.upsOf d → w.loop u = w.loop d ∨ w.loop u = none ∨ w.loop d = none

/-- The inputs of a multi-input node are not already bound to different loops
(`Stream.__init__` does not check this, see `unchecked_join_splits_pipeline`). -/
def JoinOK (w : World) (a : Args) : Prop :=
  ∀ u ∈ a.ups, ∀ u' ∈ a.ups, w.loop u = none ∨ w.loop u' = none ∨ w.loop u = w.loop u'

instance (w : World) (a : Args) : Decidable (a.Valid w) := by unfold Args.Valid; infer_instance
instance (w : World) (a : Args) : Decidable (JoinOK w a) := by unfold JoinOK; infer_instance

/-! ## Totality of the model -/

/-- The fuel handed to the percolations always suffices: a construction returns or raises. -/
theorem construct_total (w : World) (a : Args) :
    (construct w a).2 = .ok ∨ (construct w a).2 = .raised := by
  have key : (construct w a).2 ≠ .outOfFuel := by
    unfold construct
    have t1 := step1_total w a
    have t2 := step2_total w a
    have t3 := step3_total w a
    have t4 := step4_total w a
    split
    · exact t1
    · split
      · exact t2
      · split
        · exact t3
        · split
          · exact t4
          · simp
  cases h : (construct w a).2 with
  | ok => left; rfl
  | raised => right; rfl
  | outOfFuel => exact absurd h key

/-! ## Inheritance through the fluent API -/

/-- A node built without an explicit loop gets the loop of its (first loop-bound) upstream. -/
theorem child_inherits_loop (w : World) (a : Args) (hv : a.Valid w) (hl : a.loop = none) (l : Loop)
    (hup : a.ups.findSome? w.loop = some l) (hok : (construct w a).2 = .ok) :
    (construct w a).1.loop w.size = some l := by
  rw [(construct_ok' hok).2.1]
  have h2 : (step2 w a) = (setAt w.loop w.size (some l), .ok) := by
    unfold step2; rw [hl, setLoop_none _ _ _ _ _ (valid_ne hv), hup]
  simp only [step4, h2, setAt_same]

/-- Whatever the arguments: after a successful construction a single-input node and its
upstream are on the same loop (both unset is possible only for a plain undeclared pipeline). -/
theorem child_shares_loop (w : World) (a : Args) (u : Nat) (hu : a.ups = [u]) (hv : a.Valid w)
    (hok : (construct w a).2 = .ok) :
    (construct w a).1.loop w.size = (construct w a).1.loop u := by
  obtain ⟨_, h2, _, h4, _⟩ := construct_ok hok
  rw [(construct_ok' hok).2.1]
  have hun : u ≠ w.size := valid_ne hv u (by simp [hu])
  have hmem : u ∈ nbDuring w a w.size := by rw [nbDuring_new, hu]; simp
  cases hl : a.loop with
  | some l =>
    have hp : Perc (nbDuring w a) w.size l w.loop (step2 w a).1 := by
      unfold step2 at h2 ⊢; rw [hl, setLoop_some] at h2 ⊢
      exact perc_of_inform _ _ _ _ _ h2
    have e4 : (step4 w a).1.1 = (step2 w a).1 := by simp only [step4, hp.self]
    rw [e4, hp.self, hp.nbrs u hmem]
  | none =>
    have e2 : (step2 w a) = (setAt w.loop w.size (w.loop u), .ok) := by
      unfold step2; rw [hl, setLoop_none _ _ _ _ _ (valid_ne hv), hu]
      cases hwu : w.loop u <;> simp [hwu]
    cases hwu : w.loop u with
    | some l =>
      simp only [step4, e2, setAt_same, hwu]
      rw [setAt_other _ _ hun, hwu]
    | none =>
      cases h3n : (step3 w a).1 w.size with
      | none =>
        simp only [step4, e2, setAt_same, hwu, h3n]
        rw [setAt_other _ _ hun, hwu]
      | some b =>
        have e4 : (step4 w a).1 = setLoop (nbDuring w a) (fuelFor w a) a.ups w.size
            (some (getIoLoop b w.dask w.bg).1) (step2 w a).1 := by
          simp only [step4, e2, setAt_same, hwu, h3n]
        rw [e4, setLoop_some] at h4 ⊢
        have hp := perc_of_inform _ _ _ _ _ h4
        show (inform _ _ _ _ _).1 w.size = (inform _ _ _ _ _).1 u
        rw [hp.self, hp.nbrs u hmem]

/-- A node built without an explicit mode over an asynchronous upstream is asynchronous. -/
theorem child_inherits_async (w : World) (a : Args) (hf : w.legacy = false) (hv : a.Valid w)
    (ha : a.asyn = none) (u : Nat) (hu : u ∈ a.ups) (hup : w.asyn u = some true)
    (hok : (construct w a).2 = .ok) :
    (construct w a).1.asyn w.size = some true := by
  rw [(construct_ok' hok).2.2.1]
  have hany : a.ups.any (fun u => w.asyn u == some true) = true := by
    rw [List.any_eq_true]; exact ⟨u, hu, by simp [hup]⟩
  have e1 : (step1 w a) = (setAt w.asyn w.size (some true), .ok) := by
    unfold step1; rw [ha, setAsyn_none _ _ _ _ _ (valid_ne hv), hany]; simp
  simp [step3, e1, forceSync, hf]

/-- Whatever the arguments: after a successful construction a single-input node is
asynchronous exactly when its upstream is (`False` is percolated or left `None`:
`emit` treats both alike). -/
theorem child_shares_mode (w : World) (a : Args) (hf : w.legacy = false) (u : Nat) (hu : a.ups = [u])
    (hv : a.Valid w) (hok : (construct w a).2 = .ok) :
    ((construct w a).1.asyn w.size = some true ↔ (construct w a).1.asyn u = some true) := by
  obtain ⟨h1, _, h3, _, _⟩ := construct_ok hok
  rw [(construct_ok' hok).2.2.1]
  have hun : u ≠ w.size := valid_ne hv u (by simp [hu])
  have hmem : u ∈ nbDuring w a w.size := by rw [nbDuring_new, hu]; simp
  cases ha : a.asyn with
  | some b =>
    have hp : Perc (nbDuring w a) w.size b w.asyn (step1 w a).1 := by
      unfold step1 at h1 ⊢; rw [ha, setAsyn_some] at h1 ⊢
      exact perc_of_inform _ _ _ _ _ h1
    have e3 : step3 w a = ((step1 w a).1, .ok) := by
      simp [step3, forceSync, hf, hp.self]
    simp only [e3]
    rw [hp.self, hp.nbrs u hmem]
  | none =>
    have e1 : (step1 w a) = (setAt w.asyn w.size (if w.asyn u = some true then some true else none), .ok) := by
      unfold step1; rw [ha, setAsyn_none _ _ _ _ _ (valid_ne hv), hu]; simp
    by_cases hwu : w.asyn u = some true
    · have e3 : step3 w a = ((step1 w a).1, .ok) := by
        simp [step3, forceSync, hf, e1, hwu]
      simp only [e3, e1, hwu, if_true, setAt_same]
      rw [setAt_other _ _ hun, hwu]
      simp
    · by_cases hfs : forceSync w a ((step2 w a).1 w.size) ((step1 w a).1 w.size) = true
      · have e3 : step3 w a = setAsyn (nbDuring w a) (fuelFor w a) a.ups w.size (some false) (step1 w a).1 := by
          simp [step3, hfs]
        rw [e3, setAsyn_some] at h3 ⊢
        have hp := perc_of_inform _ _ _ _ _ h3
        show (inform _ _ _ _ _).1 w.size = some true ↔ (inform _ _ _ _ _).1 u = some true
        rw [hp.self, hp.nbrs u hmem]
      · have e3 : step3 w a = ((step1 w a).1, .ok) := by
          simp [step3, hfs]
        simp only [e3, e1, hwu, if_false, setAt_same]
        rw [setAt_other _ _ hun]
        simp [hwu]

/-! ## Conflicting explicit requests raise -/

/-- An explicit loop different from the loop an upstream is bound to raises
("Two different event loops active"). -/
theorem explicit_loop_conflict_raises (w : World) (a : Args) (hv : a.Valid w) (l l' : Loop)
    (hl : a.loop = some l) (u : Nat) (hu : u ∈ a.ups) (hup : w.loop u = some l') (hne : l ≠ l') :
    (construct w a).2 = .raised := by
  rcases construct_total w a with hok | hr
  · exfalso
    obtain ⟨_, h2, _, _, _⟩ := construct_ok hok
    have hp : Perc (nbDuring w a) w.size l w.loop (step2 w a).1 := by
      unfold step2 at h2 ⊢; rw [hl, setLoop_some] at h2 ⊢
      exact perc_of_inform _ _ _ _ _ h2
    have h1 := hp.nbrs u (by rw [nbDuring_new]; exact hu)
    have h2' := hp.keep u l' (valid_ne hv u hu) hup
    rw [h1] at h2'
    exact hne (Option.some.inj h2')
  · exact hr

/-- An explicit mode different from the mode an upstream has raises
("Stream has both asynchronous and synchronous elements"). -/
theorem explicit_mode_conflict_raises (w : World) (a : Args) (hv : a.Valid w) (b b' : Bool)
    (ha : a.asyn = some b) (u : Nat) (hu : u ∈ a.ups) (hup : w.asyn u = some b') (hne : b ≠ b') :
    (construct w a).2 = .raised := by
  rcases construct_total w a with hok | hr
  · exfalso
    obtain ⟨h1, _, _, _, _⟩ := construct_ok hok
    have hp : Perc (nbDuring w a) w.size b w.asyn (step1 w a).1 := by
      unfold step1 at h1 ⊢; rw [ha, setAsyn_some] at h1 ⊢
      exact perc_of_inform _ _ _ _ _ h1
    have h1' := hp.nbrs u (by rw [nbDuring_new]; exact hu)
    have h2' := hp.keep u b' (valid_ne hv u hu) hup
    rw [h1'] at h2'
    exact hne (Option.some.inj h2')
  · exact hr

/-- Nothing is ever silently moved: a node bound to a loop stays bound to that loop through
every later construction, successful or raising. -/
theorem bound_loop_never_changes (w : World) (a : Args) (i : Nat) (hi : i < w.size) (l : Loop)
    (h : w.loop i = some l) : (construct w a).1.loop i = some l := by
  have hne : i ≠ w.size := Nat.ne_of_lt hi
  have k2 : (step2 w a).1 i = some l := setLoop_keep _ _ _ _ _ _ i l hne h
  have k4 : (step4 w a).1.1 i = some l := step4_keep w a i l hne k2
  rcases (construct_fields w a).1 with e | e | e <;> rw [e] <;> assumption

/-- Likewise a mode once set is never changed. -/
theorem bound_mode_never_changes (w : World) (a : Args) (i : Nat) (hi : i < w.size) (b : Bool)
    (h : w.asyn i = some b) : (construct w a).1.asyn i = some b := by
  have hne : i ≠ w.size := Nat.ne_of_lt hi
  have k1 : (step1 w a).1 i = some b := setAsyn_keep _ _ _ _ _ _ i b hne h
  have k3 : (step3 w a).1 i = some b := step3_keep w a i b hne k1
  rcases (construct_fields w a).2.1 with e | e <;> rw [e] <;> assumption

/-! ## One loop per pipeline -/

/-- A successful construction keeps "along every edge the two loops are equal or one is
unset", provided a multi-input node is not built over inputs already bound to different loops. -/
theorem edges_agree_preserved (w : World) (a : Args) (hwf : w.WF) (hv : a.Valid w) (hj : JoinOK w a)
    (he : EdgeOK w) (hok : (construct w a).2 = .ok) : EdgeOK (construct w a).1 := by
  intro d u hu
  rw [upsOf_new hok] at hu
  rcases construct_loop_cases (valid_ne hv) hok with ⟨l, hp, _⟩ | ⟨_, hset, _, _⟩
  · -- percolation of `l` from the new node
    by_cases hd : d = w.size
    · subst hd
      simp only [if_true] at hu
      left
      rw [hp.self, hp.nbrs u (by rw [nbDuring_new]; exact hu)]
    · simp only [hd, if_false] at hu
      obtain ⟨hud, hds⟩ := hwf d u hu
      have hun : u ≠ w.size := by omega
      cases hlu : w.loop u with
      | some x =>
        cases hld : w.loop d with
        | some y =>
          left
          rw [hp.keep u x hun hlu, hp.keep d y hd hld]
          rcases he d u hu with e | e | e
          · rw [← hlu, ← hld]; exact e
          · rw [hlu] at e; cases e
          · rw [hld] at e; cases e
        | none =>
          rcases hp.fresh d hd hld with e | ⟨e, en⟩
          · right; right; exact e
          · left; rw [e, en u (mem_nbDuring_ups w a hd hu)]
      | none =>
        rcases hp.fresh u hun hlu with e | ⟨e, en⟩
        · right; left; exact e
        · left; rw [e, en d (mem_nbDuring_downs w a (by omega) hds hu)]
  · -- only the new node was labelled
    rw [hset]
    by_cases hd : d = w.size
    · subst hd
      simp only [if_true] at hu
      have hun : u ≠ w.size := valid_ne hv u hu
      rw [setAt_same, setAt_other _ _ hun]
      cases hlu : w.loop u with
      | none => right; left; rfl
      | some x =>
        cases hfs : a.ups.findSome? w.loop with
        | none =>
          have := (List.findSome?_eq_none_iff.mp hfs) u hu
          rw [hlu] at this; cases this
        | some y =>
          obtain ⟨u', hu', hy⟩ := List.exists_of_findSome?_eq_some hfs
          left
          rcases hj u hu u' hu' with e | e | e
          · rw [hlu] at e; cases e
          · rw [hy] at e; cases e
          · rw [← hy, ← e, hlu]
    · simp only [hd, if_false] at hu
      obtain ⟨hud, hds⟩ := hwf d u hu
      have hun : u ≠ w.size := by omega
      rw [setAt_other _ _ hun, setAt_other _ _ hd]
      exact he d u hu

/-- Well-formedness is kept by every construction over existing nodes. -/
theorem wf_preserved (w : World) (a : Args) (hwf : w.WF) (hv : a.Valid w) : (construct w a).1.WF := by
  rcases construct_total w a with hok | hr
  · intro d u hu
    rw [upsOf_new hok] at hu
    have hs : (construct w a).1.size = w.size + 1 := by
      simp [World.size, (construct_ok' hok).1]
    rw [hs]
    by_cases hd : d = w.size
    · subst hd; simp only [if_true] at hu
      exact ⟨hv u hu, by omega⟩
    · simp only [hd, if_false] at hu
      obtain ⟨h1, h2⟩ := hwf d u hu
      exact ⟨h1, by omega⟩
  · have hups : (construct w a).1.ups = w.ups := by
      unfold construct at hr ⊢
      split
      · rfl
      · split
        · rfl
        · split
          · rfl
          · split
            · rfl
            · next h1 h2 h3 h4 => simp [h1, h2, h3, h4] at hr
    intro d u hu
    simp only [World.upsOf, World.size, hups] at hu ⊢
    exact hwf d u hu

/-- A history in which every construction is over existing nodes, respects `JoinOK`, and returns. -/
def GoodRun : World → List Args → Prop
  | _, [] => True
  | w, a :: as => a.Valid w ∧ JoinOK w a ∧ (construct w a).2 = .ok ∧ GoodRun (construct w a).1 as

def decGoodRun : (w : World) → (ops : List Args) → Decidable (GoodRun w ops)
  | _, [] => isTrue trivial
  | w, a :: as =>
    have : Decidable (GoodRun (construct w a).1 as) := decGoodRun (construct w a).1 as
    (inferInstance : Decidable (a.Valid w ∧ JoinOK w a ∧ (construct w a).2 = .ok ∧ GoodRun (construct w a).1 as))

instance (w : World) (ops : List Args) : Decidable (GoodRun w ops) := decGoodRun w ops

/-- **One loop per pipeline**, for every construction history of any length: if no construction
raised and no multi-input node was built over inputs bound to different loops, then along every
edge of the final graph the two loops are equal or one is unset. -/
theorem history_edges_agree (ops : List Args) :
    ∀ (w : World), w.WF → EdgeOK w → GoodRun w ops → EdgeOK (runOps w ops).1 ∧ (runOps w ops).1.WF := by
  induction ops with
  | nil => intro w hwf he _; exact ⟨he, hwf⟩
  | cons a as ih =>
    intro w hwf he hg
    obtain ⟨hv, hj, hok, hrest⟩ := hg
    simp only [runOps]
    exact ih _ (wf_preserved w a hwf hv) (edges_agree_preserved w a hwf hv hj he hok) hrest

theorem history_edges_agree_from_empty (dask legacy : Bool) (ops : List Args)
    (hg : GoodRun (World.empty dask legacy) ops) : EdgeOK (runOps (World.empty dask legacy) ops).1 :=
  (history_edges_agree ops _ (by intro d u hu; simp [World.upsOf, World.empty] at hu)
    (by intro d u hu; simp [World.upsOf, World.empty] at hu) hg).1

/-! ## Declared asynchronous: the caller's loop, no background thread -/

/-- Constructing a node declared `asynchronous=True` never creates the background loop,
whether the construction returns or raises. -/
theorem declared_async_starts_no_thread (w : World) (a : Args) (hf : w.legacy = false)
    (ha : a.asyn = some true) : (construct w a).1.bg = w.bg := by
  rcases (construct_fields w a).2.2.1 with e | ⟨_, h1, e⟩
  · exact e
  · rw [e]
    have hp : Perc (nbDuring w a) w.size true w.asyn (step1 w a).1 := by
      unfold step1 at h1 ⊢; rw [ha, setAsyn_some] at h1 ⊢
      exact perc_of_inform _ _ _ _ _ h1
    have e3 : step3 w a = ((step1 w a).1, .ok) := by
      simp [step3, forceSync, hf, hp.self]
    unfold step4
    rw [e3, hp.self]
    split
    · next b heq => cases heq; simp [getIoLoop]
    · rfl

/-- A node declared `asynchronous=True` without an explicit loop, over upstreams that are
unbound or on the caller's loop, stays asynchronous and is on the caller's current loop. -/
theorem declared_async_on_callers_loop (w : World) (a : Args) (hf : w.legacy = false) (hv : a.Valid w)
    (ha : a.asyn = some true) (hl : a.loop = none)
    (hup : ∀ u ∈ a.ups, w.loop u = none ∨ w.loop u = some .current)
    (hok : (construct w a).2 = .ok) :
    (construct w a).1.loop w.size = some .current ∧ (construct w a).1.asyn w.size = some true := by
  constructor
  · rcases construct_loop_cases (valid_ne hv) hok with ⟨l, hp, h | ⟨_, _, b, hb, hlb, _⟩⟩ | ⟨_, hset, _, hnone⟩
    · rw [hl] at h; cases h
    · rw [hp.self, hlb]
      rcases construct_asyn_cases hf (valid_ne hv) hok with ⟨b', hp', h | ⟨h, _⟩⟩ | ⟨h, _⟩
      · rw [ha] at h; cases h
        rw [hp'.self] at hb; cases hb; simp [getIoLoop]
      · rw [ha] at h; cases h
      · rw [ha] at h; cases h
    · rw [hset, setAt_same]
      cases hfs : a.ups.findSome? w.loop with
      | none =>
        have := hnone hfs
        rcases construct_asyn_cases hf (valid_ne hv) hok with ⟨b', hp', _⟩ | ⟨h, _⟩
        · rw [hp'.self] at this; cases this
        · rw [ha] at h; cases h
      | some y =>
        obtain ⟨u', hu', hy⟩ := List.exists_of_findSome?_eq_some hfs
        rcases hup u' hu' with e | e <;> rw [e] at hy <;> cases hy
        rfl
  · rcases construct_asyn_cases hf (valid_ne hv) hok with ⟨b', hp', h | ⟨h, _⟩⟩ | ⟨h, _⟩
    · rw [ha] at h; cases h; exact hp'.self
    · rw [ha] at h; cases h
    · rw [ha] at h; cases h

/-! ## Undeclared loop-requiring nodes: the shared background loop, created once -/

/-- A loop-requiring node (every source) that was not declared asynchronous, was given no loop
and has nothing to inherit is synchronous on the shared background loop (on the Dask client's
loop when there is one); the background loop is created only if it does not exist yet. -/
theorem undeclared_ensure_gets_background (w : World) (a : Args) (hf : w.legacy = false) (hv : a.Valid w)
    (ha : a.asyn = none) (hl : a.loop = none) (hens : a.ensure = true)
    (hup : ∀ u ∈ a.ups, w.loop u = none ∧ w.asyn u ≠ some true)
    (hok : (construct w a).2 = .ok) :
    (construct w a).1.asyn w.size = some false ∧
    (construct w a).1.loop w.size = some (if w.dask then .dask else .background) ∧
    (construct w a).1.bg = (if w.dask then w.bg else if w.bg = 0 then 1 else w.bg) := by
  have hfs : a.ups.findSome? w.loop = none :=
    List.findSome?_eq_none_iff.mpr (fun u hu => (hup u hu).1)
  have hany : a.ups.any (fun u => w.asyn u == some true) = false := by
    rw [List.any_eq_false]; intro u hu; simp [(hup u hu).2]
  have hasyn : (construct w a).1.asyn w.size = some false := by
    rcases construct_asyn_cases hf (valid_ne hv) hok with ⟨b, hp, h | ⟨_, hb, _⟩⟩ | ⟨_, _, hne⟩
    · rw [ha] at h; cases h
    · rw [hp.self, hb]
    · exfalso
      apply hne hany hens
      have e2 : (step2 w a) = (setAt w.loop w.size (a.ups.findSome? w.loop), .ok) := by
        unfold step2; rw [hl, setLoop_none _ _ _ _ _ (valid_ne hv)]
      rw [e2, hfs]; exact setAt_same _ _ _
  refine ⟨hasyn, ?_⟩
  rcases construct_loop_cases (valid_ne hv) hok with ⟨l, hp, h | ⟨_, _, b, hb, hlb, hbg⟩⟩ | ⟨_, _, _, hnone⟩
  · rw [hl] at h; cases h
  · rw [hasyn] at hb; cases hb
    rw [hp.self, hlb, hbg]
    cases hd : w.dask <;> simp [getIoLoop]
  · rw [hnone hfs] at hasyn; cases hasyn

/-- No construction starts a second background loop: `len(_io_loops)` stays, or goes from 0 to 1. -/
theorem background_created_at_most_once (w : World) (a : Args) :
    (construct w a).1.bg = w.bg ∨ (w.bg = 0 ∧ (construct w a).1.bg = 1) := by
  rcases (construct_fields w a).2.2.1 with e | ⟨_, _, e⟩
  · left; exact e
  · rw [e]
    have key : ∀ b : Bool, (getIoLoop b w.dask w.bg).2 = w.bg ∨ (w.bg = 0 ∧ (getIoLoop b w.dask w.bg).2 = 1) := by
      intro b
      cases b <;> cases hd : w.dask <;> simp [getIoLoop]
      by_cases h0 : w.bg = 0
      · right; simp [h0]
      · left; simp [h0]
    unfold step4
    split
    · exact key _
    · left; rfl

/-- Over any history, of any length and with any mixture of raising constructions, at most
one background loop thread is ever started. -/
theorem history_one_background_loop (ops : List Args) :
    ∀ (w : World), w.bg ≤ 1 → (runOps w ops).1.bg ≤ 1 := by
  induction ops with
  | nil => intro w h; exact h
  | cons a as ih =>
    intro w h
    simp only [runOps]
    apply ih
    rcases background_created_at_most_once w a with e | ⟨_, e⟩ <;> omega

/-! ## What `Stream.__init__` does not check (proved examples, both variants of step 3 alike) -/

/-- `Stream(loop=current)`, `Stream(loop=other)`, `zip` of the two. -/
def exJoin : List Args :=
  [⟨[], some .current, none, false⟩, ⟨[], some (.explicit 0), none, false⟩, ⟨[0, 1], none, none, false⟩]

/-- A multi-input node over inputs bound to different loops is accepted without error and
takes the loop of its first input: the pipeline is split (hence the hypothesis `JoinOK`). -/
theorem unchecked_join_splits_pipeline :
    (runOps (World.empty false false) exJoin).2 = [.ok, .ok, .ok] ∧
    ¬ EdgeOK (runOps (World.empty false false) exJoin).1 := by
  refine ⟨by decide, fun h => ?_⟩
  have := h 2 1 (by decide)
  revert this; decide

/-- `a = Stream()`, `b = Stream(loop=L)`, `z = a.zip(b)`, `d = Stream(loop=M)`, `j = a.zip(d)`. -/
def exBridge : List Args :=
  [⟨[], none, none, false⟩, ⟨[], some (.explicit 0), none, false⟩, ⟨[0, 1], none, none, false⟩,
   ⟨[], some (.explicit 1), none, false⟩, ⟨[0, 3], none, none, false⟩]

/-- Edge-wise agreement is what the code maintains, and it is weaker than "one loop per connected
graph": an unbound node (`a`, which has no loop and runs on its caller's thread) can feed two
joins bound to different loops without any input of a join being bound to different loops. -/
theorem unbound_node_bridges_two_loops :
    GoodRun (World.empty false false) exBridge ∧
    (runOps (World.empty false false) exBridge).1.loop 0 = none ∧
    (runOps (World.empty false false) exBridge).1.loop 2 = some (.explicit 0) ∧
    (runOps (World.empty false false) exBridge).1.loop 4 = some (.explicit 1) := by
  decide

/-- `a = Stream()`, `b = Stream(loop=other)`, `z = a.zip(b)`, then `Stream(upstream=a, loop=current)`. -/
def exResidue : List Args :=
  [⟨[], none, none, false⟩, ⟨[], some (.explicit 0), none, false⟩, ⟨[0, 1], none, none, false⟩,
   ⟨[0], some .current, none, false⟩]

/-- The conflicting request raises, but the percolation has already bound `a` to the requested
loop before it reached `z`: after the `ValueError` the edge `a → z` joins two different loops
(hence "no construction raised" in `history_edges_agree`).  The property only demands the raise. -/
theorem raising_construction_leaves_residue :
    (runOps (World.empty false false) exResidue).2 = [.ok, .ok, .ok, .raised] ∧
    (runOps (World.empty false false) exResidue).1.loop 0 = some .current ∧
    (runOps (World.empty false false) exResidue).1.loop 2 = some (.explicit 0) ∧
    ¬ EdgeOK (runOps (World.empty false false) exResidue).1 := by
  refine ⟨by decide, by decide, by decide, fun h => ?_⟩
  have := h 2 0 (by decide)
  revert this; decide

/-- `Stream(asynchronous=False).map(f)` then `Stream(upstream=that, asynchronous=True)`: raises, and
leaves the `map` node `True` under a `False` parent. -/
theorem raising_mode_conflict_leaves_residue :
    let r := runOps (World.empty false false)
      [⟨[], none, some false, false⟩, ⟨[0], none, none, false⟩, ⟨[1], none, some true, false⟩]
    r.2 = [.ok, .ok, .raised] ∧ r.1.asyn 0 = some false ∧ r.1.asyn 1 = some true := by
  decide

/-! ## The unchanged code (`legacy = true`) violates the property -/

/-- `Stream.from_iterable(..., asynchronous=True)` (any source: `ensure_io_loop=True`, no upstream,
no loop) on the unchanged code: step 3 overrides the declaration, the node ends synchronous on
the background loop and the background thread is started.  Negation of
`declared_async_on_callers_loop` and `declared_async_starts_no_thread` for `legacy = true`. -/
theorem legacy_source_declared_async_leaves_callers_loop :
    let r := construct (World.empty false true) ⟨[], none, some true, true⟩
    r.2 = .ok ∧ r.1.loop 0 = some .background ∧ r.1.asyn 0 = some false ∧ r.1.bg = 1 := by
  decide

/-- `Stream().delay(1, asynchronous=True)` on the unchanged code raises although nothing
conflicts (step 3 percolates `False` into the upstream just set to `True`) ... -/
theorem legacy_declared_async_child_raises :
    (runOps (World.empty false true) [⟨[], none, none, false⟩, ⟨[0], none, some true, true⟩]).2
      = [.ok, .raised] := by
  decide

/-- ... whereas the repaired step 3 puts both nodes on the caller's loop, without a thread. -/
theorem fixed_declared_async_child :
    let r := runOps (World.empty false false) [⟨[], none, none, false⟩, ⟨[0], none, some true, true⟩]
    r.2 = [.ok, .ok] ∧ r.1.loop 0 = some .current ∧ r.1.loop 1 = some .current ∧
    r.1.asyn 0 = some true ∧ r.1.asyn 1 = some true ∧ r.1.bg = 0 := by
  decide

/-! ## Non-vacuity: the hypotheses of the theorems above are met by real histories -/

/-- `Stream(loop=other3)` -/
def w1 : World := (construct (World.empty false false) ⟨[], some (.explicit 3), none, false⟩).1
/-- `Stream(asynchronous=True)` -/
def w2 : World := (construct (World.empty false false) ⟨[], none, some true, false⟩).1
/-- `Stream()` -/
def w3 : World := (construct (World.empty false false) ⟨[], none, none, false⟩).1

-- `Stream(loop=other3).buffer(n)` inherits other3
example : (construct w1 ⟨[0], none, none, true⟩).1.loop 1 = some (.explicit 3) :=
  child_inherits_loop w1 ⟨[0], none, none, true⟩ (by decide) rfl _ (by decide) (by decide)
-- `Stream(asynchronous=True).map(f)` is asynchronous, on the same loop
example : (construct w2 ⟨[0], none, none, false⟩).1.asyn 1 = some true :=
  child_inherits_async w2 _ rfl (by decide) rfl 0 (by decide) (by decide) (by decide)
example : (construct w2 ⟨[0], none, none, false⟩).1.loop 1 = (construct w2 ⟨[0], none, none, false⟩).1.loop 0 :=
  child_shares_loop w2 _ 0 rfl (by decide) (by decide)
-- `Stream(loop=other3).sink(f, loop=current)` raises; so does `Stream(asynchronous=True).sink(f, asynchronous=False)`
example : (construct w1 ⟨[0], some .current, none, false⟩).2 = .raised :=
  explicit_loop_conflict_raises w1 _ (by decide) .current (.explicit 3) rfl 0 (by decide) (by decide) (by decide)
example : (construct w2 ⟨[0], none, some false, false⟩).2 = .raised :=
  explicit_mode_conflict_raises w2 _ (by decide) false true rfl 0 (by decide) (by decide) (by decide)
-- `Stream().delay(1, asynchronous=True)`: caller's loop
example : (construct w3 ⟨[0], none, some true, true⟩).1.loop 1 = some .current :=
  (declared_async_on_callers_loop w3 _ rfl (by decide) rfl rfl (by decide) (by decide)).1
-- `Stream().buffer(n)`: background loop, created
example : (construct w3 ⟨[0], none, none, true⟩).1.loop 1 = some .background ∧ (construct w3 ⟨[0], none, none, true⟩).1.bg = 1 := by
  have h := undeclared_ensure_gets_background w3 ⟨[0], none, none, true⟩ rfl (by decide) rfl rfl rfl (by decide) (by decide)
  exact ⟨h.2.1, h.2.2⟩
-- a good run: source, two fluent children, a second source joined in
example : GoodRun (World.empty false false)
    [⟨[], none, none, true⟩, ⟨[0], none, none, false⟩, ⟨[1], none, none, true⟩, ⟨[], none, none, true⟩, ⟨[2, 3], none, none, false⟩] := by
  decide

end StreamzVerif.LoopCfg
