import StreamzVerif.Model.Graph
namespace StreamzVerif.Graph
theorem placeholder_C02 : True := trivial
end StreamzVerif.Graph
