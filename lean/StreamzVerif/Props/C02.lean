import StreamzVerif.Props.C13
import StreamzVerif.Props.AsyncWindows
import StreamzVerif.Props.AsyncZip
import StreamzVerif.Props.AsyncBuffer
import StreamzVerif.Props.C01Compose
/-!
# C02 — asynchronous timing never changes what lossless pipelines deliver (index module)

C02 is decided per lossless asynchronous node kind, for every interleaving of arrivals, consumer
completions, job completions and timer expirations, and composed through C01's edge consistency
(`Props/C01.lean: edge_consistency`, `Props/C01Compose.lean: chain_sem`): what arrives at a node is
exactly what its upstream emitted, in order, so a pipeline's delivery is the composition of its nodes'.

The audited theorems serving C02 (`./check C02` audits exactly these):
* rate_limit, delay — `Props/C13.lean`: `rate_limit_plan_in_arrival_order`, `rate_limit_loop_order`,
  `rate_limit_loop_none_lost`, `delay_loop_prefix`, `delay_loop_none_lost`, `delay_plan_order_count`;
* timed_window, partition with timeout — `Props/AsyncWindows.lean`: `c02_window_lossless`,
  `c02_window_drains`, `c02_partition_lossless` (batches' concatenation is a prefix of the inputs,
  equal at quiescence; per key for a keyed partition);
* zip (any arity, with maxsize) — `Props/AsyncZip.lean`: `c02_zip_transpose`,
  `c02_zip_interleaving_independent`;
* buffer, map_async (any parallelism, any completion order) — `Props/AsyncBuffer.lean`: `c02_buffer_*`,
  `c02_map_async_order`;
* union and every synchronous kind — C01 (`Props/C01Sem.lean`).

"Native coroutines as well as Tornado futures as consumers" is not a theorem: the models have one
notion of awaitable; that all three flavours behave like it is a correspondence obligation (every
generated pipeline runs with each flavour).
-/
