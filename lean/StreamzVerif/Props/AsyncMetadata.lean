import StreamzVerif.Props.AsyncWindows
import StreamzVerif.Props.AsyncZip
import StreamzVerif.Props.AsyncBuffer
import StreamzVerif.Proofs.AsyncMetadata
/-!
# C10 on the asynchronous node groups — metadata travels with exactly the data it describes

Property theorems only (`c10_*`), about the event-loop models `Model/AsyncWindows.lean` (timed_window,
timed_window_unique, partition with timeout), `Model/AsyncZip.lean` (zip with maxsize) and `Model/AsyncBuffer.lean`
(buffer, map_async).  Every theorem quantifies over EVERY action sequence from the initial state (all interleavings of
arrivals, consumer completions, job completions / failures, timer firings, clock advances) and all parameters.

How the models carry metadata.
* Time windows and zip: an element is a record `(val, md)`; `md` is the list of the element's metadata entries.  The
  node's buffers hold whole elements, an emission records the emitted members (`Out.batch`, `POut.batch`, the tuple),
  and the metadata list `m` the code passes to `_emit` is computed from the buffered elements (`mds` =
  `[m for ml in metadata for m in ml]`).  That list leaves the node in two ways: the reference-count operations on
  it, and — with an awaitable downstream — the list the unfinished consumer holds (`TW.pend`, `PT.flights`,
  `St.pending`).  The `*_link` theorems show that this list is `mds` of exactly the members emitted; the other
  theorems say which arrivals those members are (they are derived from the conservation / lossless theorems of C08 /
  C02, which are about whole elements, value and metadata together).
* buffer / map_async: an element carries its metadata as one unit named by the element's arrival index `id`
  (`Ev.emit id v` = "`_emit(v)` with the metadata of element `id`").  The theorems are stated for an ARBITRARY
  assignment `md : Nat → M` of a metadata object to every arrival (no metadata, one or several dictionaries).
-/
set_option linter.unusedSectionVars false
set_option linter.unusedVariables false

/-! ## timed_window, timed_window_unique, partition(n, timeout) -/
namespace StreamzVerif.AsyncWindows
open StreamzVerif.AsyncMeta

variable {α κ : Type} [DecidableEq κ]

/-- **Link, timed_window / timed_window_unique** (any state, reachable or not).  A step that emits a batch `o`
emits the whole buffer, and the metadata list it hands to `_emit` is the concatenation, in member order, of the
members' metadata: with an awaitable downstream it is what the consumer holds (`pend`); in both cases it is the
list whose counters the emission retains and releases (net effect on every counter `r`: the consumer's extra
reference with an awaitable downstream, the node's own reference given back with a synchronous one). -/
theorem c10_timed_window_emit_link (cfg : Cfg α κ) (s s' : TW α) (a : Act α) (o : Out α)
    (hs : step cfg s a = some s') (ho : s'.outs = s.outs ++ [o]) :
    o.batch = s.buf ∧
    (cfg.syncDown = false → s'.pend = o.batch.flatMap (·.md)) ∧
    (∀ r, s'.rc.cnt r = s.rc.cnt r +
      (if cfg.syncDown then -1 else 1) * (((o.batch.flatMap (·.md)).count r : Nat) : Int)) := by
  have he := step_emits cfg s s' a o hs ho
  subst he
  obtain ⟨h1, h2, h3⟩ := emitBatch_md cfg s
  have : o = { at_ := s.now, blk := s.blocked, batch := s.buf, win := s.win } := by
    rw [h1] at ho; simpa using ho.symm
  subst this
  exact ⟨rfl, h2, h3⟩

/-- **timed_window: every batch carries exactly its members' metadata, nothing is attached to the wrong batch.**
For every reachable state and every emission `j`: the arrivals are, in order, the members of the earlier batches,
then the members of batch `j`, then the members of the later batches and the buffer — each member with the metadata
it arrived with — so the metadata of all arrivals splits accordingly, the middle piece being `mds o.batch`, the
concatenation in member order of the metadata of the members of batch `j`.  While the batch is with an unfinished
consumer, `pend` (what that consumer holds) is this list; otherwise nothing is held. -/
theorem c10_timed_window_batch_metadata (cfg : Cfg α κ) (hm : cfg.mode = .plain) (c0 : Nat)
    (acts : List (Act α)) (s : TW α) (h : run cfg (TW.init α c0) acts = some s) :
    (∀ j o, s.outs[j]? = some o →
      s.ins = (s.outs.take j).flatMap (·.batch) ++ o.batch ++
        ((s.outs.drop (j + 1)).flatMap (·.batch) ++ s.buf) ∧
      mds s.ins = (s.outs.take j).flatMap (fun p => mds p.batch) ++ o.batch.flatMap (·.md) ++
        ((s.outs.drop (j + 1)).flatMap (fun p => mds p.batch) ++ mds s.buf)) ∧
    (s.cb = .emitting → ∃ o, s.outs.getLast? = some o ∧ s.pend = o.batch.flatMap (·.md)) ∧
    (s.cb ≠ .emitting → s.pend = []) := by
  have hc := c08_timed_window_conservation cfg hm c0 acts s h
  have hb := c05_window_balance cfg c0 acts s h
  refine ⟨fun j o hj => ?_, hb.2.1, hb.2.2.1⟩
  have h1 : s.ins = (s.outs.take j).flatMap (·.batch) ++ o.batch ++
      ((s.outs.drop (j + 1)).flatMap (·.batch) ++ s.buf) := by
    rw [← hc, flatMap_split (·.batch) s.outs j o hj]; simp
  refine ⟨h1, ?_⟩
  conv => lhs; rw [h1]
  simp only [mds_append, mds_flatMap]
  rfl

/-- **timed_window: nothing lost, nothing duplicated, order kept.**  At every moment the metadata lists of the
emitted batches, concatenated, followed by the metadata of what is still buffered are the metadata of all arrivals
in arrival order; so the emitted metadata is a prefix of the arrived metadata, and equal to it at quiescence (empty
buffer; reachable from every state by at most three actions, `c02_window_drains`). -/
theorem c10_timed_window_metadata_stream (cfg : Cfg α κ) (hm : cfg.mode = .plain) (c0 : Nat)
    (acts : List (Act α)) (s : TW α) (h : run cfg (TW.init α c0) acts = some s) :
    s.outs.flatMap (fun o => mds o.batch) ++ mds s.buf = mds s.ins ∧
    s.outs.flatMap (fun o => mds o.batch) <+: mds s.ins ∧
    (s.buf = [] → s.outs.flatMap (fun o => mds o.batch) = mds s.ins) := by
  have hc := c08_timed_window_conservation cfg hm c0 acts s h
  have h1 : s.outs.flatMap (fun o => mds o.batch) ++ mds s.buf = mds s.ins := by
    rw [← hc, mds_append, mds_flatMap]
  exact ⟨h1, ⟨mds s.buf, h1⟩, fun hb => by rw [hb] at h1; simpa using h1⟩

/-- **timed_window_unique (keep = first / last): the metadata of a batch is the concatenation over the members that
survived de-duplication, in the batch's member order; dropped / replaced elements contribute nothing.**
The arrivals are cut into consecutive windows, one per emission.  For every emission `o`: its members are the
reduction of its window; they are a subsequence of the window with pairwise distinct keys, one for every key that
arrived — the FIRST arrival of the key with keep = "first", the LAST one with keep = "last"; its metadata `mds o.batch`
is the concatenation over exactly these members (a subsequence of the window's metadata: entries of the other
arrivals do not occur, nothing is reordered or repeated).  Across emissions the emitted metadata is a subsequence
of the arrived metadata. -/
theorem c10_timed_window_unique_batch_metadata (cfg : Cfg α κ) (hm : cfg.mode ≠ .plain) (c0 : Nat)
    (acts : List (Act α)) (s : TW α) (h : run cfg (TW.init α c0) acts = some s) :
    s.outs.flatMap (·.win) ++ s.win = s.ins ∧
    (∀ o ∈ s.outs,
      o.batch = reduce cfg o.win ∧
      o.batch.Sublist o.win ∧ (mds o.batch).Sublist (mds o.win) ∧
      o.batch.Pairwise (fun a b => cfg.key a.val ≠ cfg.key b.val) ∧
      (∀ e ∈ o.win, ∃ b ∈ o.batch, cfg.key b.val = cfg.key e.val) ∧
      (cfg.mode = .first → ∀ b ∈ o.batch, ∃ l1 l2, o.win = l1 ++ b :: l2 ∧ ∀ a ∈ l1, cfg.key a.val ≠ cfg.key b.val) ∧
      (cfg.mode = .last → ∀ b ∈ o.batch, ∃ l1 l2, o.win = l1 ++ b :: l2 ∧ ∀ a ∈ l2, cfg.key a.val ≠ cfg.key b.val)) ∧
    (s.outs.flatMap (fun o => mds o.batch)).Sublist (mds s.ins) ∧
    (s.cb = .emitting → ∃ o, s.outs.getLast? = some o ∧ s.pend = o.batch.flatMap (·.md)) := by
  obtain ⟨h1, h2, h3⟩ := c08_timed_window_unique_conservation cfg c0 acts s h
  have hb := c05_window_balance cfg c0 acts s h
  refine ⟨h1, fun o ho => ?_, ?_, hb.2.1⟩
  · obtain ⟨g1, g2, g3, g4, g5⟩ := c08_timed_window_unique_batch_spec cfg hm o.win
    have e := h2 o ho
    rw [e]
    exact ⟨rfl, g1, mds_sublist g1, g2, g3, g4, g5⟩
  · have hs1 : (s.outs.flatMap (fun o => mds o.batch)).Sublist (s.outs.flatMap (fun o => mds o.win)) :=
      sublist_flatMap_pointwise _ _ _ (fun o ho => by
        rw [h2 o ho]; exact mds_sublist (reduce_sublist cfg o.win))
    refine hs1.trans ?_
    rw [← h1, mds_append, mds_flatMap]
    exact List.sublist_append_left _ _

/-- **Elements emitted without metadata contribute nothing** (all three window variants).  For every emission: its
metadata is the concatenation over those surviving arrivals of its window that carry metadata — arrivals with
`md = []` can be erased without changing it — and if no arrival of the window carried metadata the batch is emitted
with the empty list.  For timed_window the same on the whole stream: the emitted metadata followed by the buffered
metadata is the metadata of the arrivals that carry some. -/
theorem c10_timed_window_no_metadata_contributes_nothing (cfg : Cfg α κ) (c0 : Nat)
    (acts : List (Act α)) (s : TW α) (h : run cfg (TW.init α c0) acts = some s) :
    (∀ o ∈ s.outs,
      mds o.batch = mds ((reduce cfg o.win).filter (fun e => !e.md.isEmpty)) ∧
      ((∀ e ∈ o.win, e.md = []) → mds o.batch = [])) ∧
    (cfg.mode = .plain →
      s.outs.flatMap (fun o => mds o.batch) ++ mds s.buf = mds (s.ins.filter (fun e => !e.md.isEmpty))) := by
  obtain ⟨_, h2, _⟩ := c08_timed_window_unique_conservation cfg c0 acts s h
  refine ⟨fun o ho => ?_, fun hm => ?_⟩
  · rw [h2 o ho]
    exact ⟨mds_filter_nonempty _,
      fun hall => mds_eq_nil_of_all _ (fun e he => hall e ((reduce_sublist cfg o.win).subset he))⟩
  · rw [(c10_timed_window_metadata_stream cfg hm c0 acts s h).1]
    exact mds_filter_nonempty s.ins

/-! ### partition(n, timeout=T, key=...) -/

/-- **Link, partition: what `_flush` hands to `_emit`** (any state).  `_flush(key)` emits the key's buffer as one
partition; the metadata list it passes is `mds` of that partition: with an awaitable downstream it becomes the new
flight (what the unfinished consumer holds), and it is the list whose counters are retained / released. -/
theorem c10_partition_flush_metadata (cfg : PCfg α κ) (s : PT α κ) (k : κ) (b : Bool) :
    (flush cfg s k b).outs = s.outs ++ [{ at_ := s.now, key := k, batch := part cfg k s.buf, byTimer := b }] ∧
    (flush cfg s k b).flights =
      (if cfg.syncDown then s.flights else s.flights ++ [(s.outs.length, (part cfg k s.buf).flatMap (·.md))]) ∧
    (∀ r, (flush cfg s k b).rc.cnt r = s.rc.cnt r +
      (if cfg.syncDown then -1 else 1) * ((((part cfg k s.buf).flatMap (·.md)).count r : Nat) : Int)) :=
  flush_md cfg s k b

/-- **Link, partition, every emitting action** (size flush inside an arrival, or timeout callback; any state): if a
step emits partition `o` as emission number `s.outs.length`, then with an awaitable downstream exactly one flight is
added, carrying that number and the concatenation in member order of the members' metadata; with a synchronous
downstream nothing stays in flight. -/
theorem c10_partition_emit_link (cfg : PCfg α κ) (s s' : PT α κ) (a : PAct α) (o : POut α κ)
    (hs : pstep cfg s a = some s') (ho : s'.outs = s.outs ++ [o]) :
    s'.flights = (if cfg.syncDown then s.flights else s.flights ++ [(s.outs.length, o.batch.flatMap (·.md))]) := by
  rcases pstep_emitStep cfg s s' a hs with ⟨h1, _⟩ | ⟨o', h1, h2⟩
  · rw [h1] at ho; exact absurd ho (list_ne_append_singleton _ _)
  · rw [h1] at ho
    have : o' = o := by simpa using ho
    subst this
    exact h2

/-- **partition: a flush in flight holds exactly the metadata of the partition it emitted** (every reachable state):
the flight of emission `j` carries `mds` of the batch of `outs[j]`. -/
theorem c10_partition_flight_metadata (cfg : PCfg α κ) (c0 : Nat)
    (acts : List (PAct α)) (s : PT α κ) (h : prun cfg (PT.init α κ c0) acts = some s) :
    ∀ f ∈ s.flights, ∃ o, s.outs[f.1]? = some o ∧ f.2 = o.batch.flatMap (·.md) :=
  prun_flightMd cfg _ s acts (FlightMd.init c0) h

/-- **partition with timeout and key: every partition carries exactly its members' metadata.**  For every emission
`j` with key `k = o.key`: all members have key `k`, and the arrivals with key `k` are, in order, the members of the
earlier partitions of that key, the members of partition `j`, then those of the later partitions of the key and the
key's buffer — each member with the metadata it arrived with.  The metadata of the key's arrivals splits accordingly,
the middle piece being `mds o.batch`. -/
theorem c10_partition_batch_metadata (cfg : PCfg α κ) (hn : 1 ≤ cfg.n) (c0 : Nat)
    (acts : List (PAct α)) (s : PT α κ) (h : prun cfg (PT.init α κ c0) acts = some s) :
    ∀ j o, s.outs[j]? = some o →
      (∀ e ∈ o.batch, cfg.key e.val = o.key) ∧
      part cfg o.key s.ins = outsOf o.key (s.outs.take j) ++ o.batch ++
        (outsOf o.key (s.outs.drop (j + 1)) ++ part cfg o.key s.buf) ∧
      mds (part cfg o.key s.ins) = mds (outsOf o.key (s.outs.take j)) ++ o.batch.flatMap (·.md) ++
        (mds (outsOf o.key (s.outs.drop (j + 1))) ++ mds (part cfg o.key s.buf)) := by
  intro j o hj
  have hc := c08_partition_conservation cfg c0 acts s h o.key
  have hmem : o ∈ s.outs := List.mem_of_getElem? hj
  have hk := (c08_partition_size cfg hn c0 acts s h o hmem).2.2.1
  have h1 : part cfg o.key s.ins = outsOf o.key (s.outs.take j) ++ o.batch ++
      (outsOf o.key (s.outs.drop (j + 1)) ++ part cfg o.key s.buf) := by
    rw [← hc, outsOf_split s.outs j o hj]; simp
  refine ⟨hk, h1, ?_⟩
  conv => lhs; rw [h1]
  simp only [mds_append]
  rfl

/-- **partition with key: per key nothing lost, duplicated or reordered.**  For every key the metadata lists of the
partitions emitted for it, concatenated, followed by the metadata of the key's buffer are the metadata of the key's
arrivals in arrival order: a prefix at every moment, equal at quiescence (no live timer). -/
theorem c10_partition_metadata_stream (cfg : PCfg α κ) (hn : 1 ≤ cfg.n) (c0 : Nat)
    (acts : List (PAct α)) (s : PT α κ) (h : prun cfg (PT.init α κ c0) acts = some s) :
    ∀ k,
      (s.outs.filter (fun o => decide (o.key = k))).flatMap (fun o => mds o.batch) ++ mds (part cfg k s.buf) =
        mds (part cfg k s.ins) ∧
      (s.outs.filter (fun o => decide (o.key = k))).flatMap (fun o => mds o.batch) <+: mds (part cfg k s.ins) ∧
      (s.timers = [] →
        (s.outs.filter (fun o => decide (o.key = k))).flatMap (fun o => mds o.batch) = mds (part cfg k s.ins)) := by
  intro k
  have hc := c08_partition_conservation cfg c0 acts s h k
  have h1 : (s.outs.filter (fun o => decide (o.key = k))).flatMap (fun o => mds o.batch) ++ mds (part cfg k s.buf) =
      mds (part cfg k s.ins) := by
    rw [← hc, mds_append, mds_outsOf]
  refine ⟨h1, ⟨_, h1⟩, fun ht => ?_⟩
  have := ((c02_partition_lossless cfg hn c0 acts s h).2 ht).2 k
  rw [← this, mds_outsOf]

/-- **partition with timeout, no key** (`key=` absent: every element falls into the one partition; modelled by a key
type with one value): the metadata lists of the emitted partitions, concatenated, followed by the buffered metadata
are the metadata of all arrivals in order — nothing lost, duplicated or attached to the wrong partition; a prefix at
every moment, equal at quiescence (no live timer, hence empty buffer). -/
theorem c10_partition_unkeyed_metadata_stream (cfg : PCfg α κ) (k0 : κ) (hκ : ∀ a : κ, a = k0) (hn : 1 ≤ cfg.n)
    (c0 : Nat) (acts : List (PAct α)) (s : PT α κ) (h : prun cfg (PT.init α κ c0) acts = some s) :
    s.outs.flatMap (·.batch) ++ s.buf = s.ins ∧
    s.outs.flatMap (fun o => mds o.batch) ++ mds s.buf = mds s.ins ∧
    s.outs.flatMap (fun o => mds o.batch) <+: mds s.ins ∧
    (s.timers = [] → s.buf = [] ∧ s.outs.flatMap (fun o => mds o.batch) = mds s.ins) := by
  have hκ' : ∀ a b : κ, a = b := fun a b => (hκ a).trans (hκ b).symm
  have hc : s.outs.flatMap (·.batch) ++ s.buf = s.ins := by
    have := c08_partition_conservation cfg c0 acts s h k0
    rwa [outsOf_all hκ', part_all cfg hκ', part_all cfg hκ'] at this
  have h1 : s.outs.flatMap (fun o => mds o.batch) ++ mds s.buf = mds s.ins := by
    rw [← hc, mds_append, mds_flatMap]
  refine ⟨hc, h1, ⟨_, h1⟩, fun ht => ?_⟩
  have hb := ((c02_partition_lossless cfg hn c0 acts s h).2 ht).1
  refine ⟨hb, ?_⟩
  rw [hb] at h1; simpa using h1

/-- **Elements emitted without metadata contribute nothing** (partition with timeout).  The members of an emitted
partition are arrivals of its key; its metadata is the concatenation over the members that carry metadata, and if no
arrival of that key carried metadata it is emitted with the empty list.  Per key, on the whole stream: the emitted
metadata followed by the key's buffered metadata is the metadata of those arrivals of the key that carry some. -/
theorem c10_partition_no_metadata_contributes_nothing (cfg : PCfg α κ) (c0 : Nat)
    (acts : List (PAct α)) (s : PT α κ) (h : prun cfg (PT.init α κ c0) acts = some s) :
    (∀ o ∈ s.outs,
      (∀ e ∈ o.batch, e ∈ s.ins ∧ cfg.key e.val = o.key) ∧
      mds o.batch = mds (o.batch.filter (fun e => !e.md.isEmpty)) ∧
      ((∀ e ∈ s.ins, cfg.key e.val = o.key → e.md = []) → mds o.batch = [])) ∧
    (∀ k, (s.outs.filter (fun o => decide (o.key = k))).flatMap (fun o => mds o.batch) ++ mds (part cfg k s.buf) =
      mds ((part cfg k s.ins).filter (fun e => !e.md.isEmpty))) := by
  refine ⟨fun o ho => ?_, fun k => ?_⟩
  · have hc := c08_partition_conservation cfg c0 acts s h o.key
    have hmem : ∀ e ∈ o.batch, e ∈ s.ins ∧ cfg.key e.val = o.key := by
      intro e he
      have h1 : e ∈ outsOf o.key s.outs := by
        unfold outsOf
        exact List.mem_flatMap.mpr ⟨o, List.mem_filter.mpr ⟨ho, by simp⟩, he⟩
      have h2 : e ∈ part cfg o.key s.ins := by rw [← hc]; exact List.mem_append_left _ h1
      exact (mem_part cfg _ _ e).mp h2
    exact ⟨hmem, mds_filter_nonempty o.batch,
      fun hall => mds_eq_nil_of_all _ (fun e he => hall e (hmem e he).1 (hmem e he).2)⟩
  · have hc := c08_partition_conservation cfg c0 acts s h k
    rw [← mds_outsOf, ← mds_append, hc]
    exact mds_filter_nonempty _

end StreamzVerif.AsyncWindows

/-! ## zip(*upstreams, maxsize=m) -/
namespace StreamzVerif.AsyncZip
open StreamzVerif.AsyncMeta

variable {α : Type} (cfg : Cfg)

/-- **zip: the metadata of a tuple is the concatenation of the matched elements' metadata in upstream order.**  For
every interleaving: tuple `j` consists of the `j`-th arrival of every upstream `0..k-1` (each with the metadata it
arrived with), and the list passed to `_emit` with it, `(tupleList k t).flatMap md`, is the concatenation over the
upstreams in upstream order of the metadata of those `j`-th arrivals. -/
theorem c10_zip_tuple_metadata (as : List (Act α)) :
    ∀ (j : Nat) (t : Nat → Option (Entry α)), (run cfg as).outs[j]? = some t →
      (∀ u, u < cfg.k → ∃ e, (arrivalsOf cfg u as)[j]? = some e ∧ t u = some e) ∧
      (tupleList cfg.k t).flatMap (·.md) =
        (List.range cfg.k).flatMap (fun u => (((arrivalsOf cfg u as)[j]?).map (·.md)).getD []) := by
  intro j t ht
  obtain ⟨_, h2, _, h4, _⟩ := c02_zip_transpose cfg as
  have hj : j < (run cfg as).outs.length := by
    rcases Nat.lt_or_ge j (run cfg as).outs.length with hlt | hge
    · exact hlt
    · rw [List.getElem?_eq_none_iff.2 hge] at ht; cases ht
  constructor
  · intro u hu
    have hlen := h4 u hu
    have hget : (arrivalsOf cfg u as)[j]? = some ((arrivalsOf cfg u as)[j]'(by omega)) :=
      List.getElem?_eq_getElem (by omega)
    exact ⟨_, hget, by rw [h2 j t ht u hu, hget]⟩
  · unfold tupleList
    rw [flatMap_filterMap]
    apply flatMap_congr_mem
    intro u hu
    rw [h2 j t ht u (List.mem_range.mp hu)]

/-- **Link, zip: the emitting step** (any prefix `as` of any schedule, any next action `a`): if the step emits tuple
`t`, every asynchronous sink's consumer invocation it starts (fresh tokens `nextTok, nextTok + 1, ...`, one per
asynchronous sink) holds exactly the list `(tupleList k t).flatMap md`. -/
theorem c10_zip_emit_link (as : List (Act α)) (a : Act α) (t : Nat → Option (Entry α))
    (h : (run cfg (as ++ [a])).outs = (run cfg as).outs ++ [t]) :
    (run cfg (as ++ [a])).pending = (run cfg as).pending ++
      (List.range' (run cfg as).nextTok (cfg.sinks.count true)).map
        (fun tk => (tk, (tupleList cfg.k t).flatMap (·.md))) := by
  rw [run_snoc] at h ⊢
  exact step_emit_pending cfg _ a t h

/-- **zip: an unfinished consumer holds exactly the metadata of an emitted tuple** (every reachable state). -/
theorem c10_zip_consumer_holds_tuple_metadata (as : List (Act α)) :
    ∀ p ∈ (run cfg as).pending, ∃ t ∈ (run cfg as).outs, p.2 = (tupleList cfg.k t).flatMap (·.md) :=
  pendMd_run cfg as

/-- **Elements emitted without metadata contribute nothing** (zip): the metadata of tuple `j` is the concatenation,
in upstream order, over those upstreams only whose `j`-th arrival carried metadata; if none of the `j`-th arrivals
carried any, the tuple is emitted with the empty list. -/
theorem c10_zip_no_metadata_contributes_nothing (as : List (Act α)) :
    ∀ (j : Nat) (t : Nat → Option (Entry α)), (run cfg as).outs[j]? = some t →
      (tupleList cfg.k t).flatMap (·.md) =
        ((List.range cfg.k).filter
            (fun u => !((((arrivalsOf cfg u as)[j]?).map (·.md)).getD []).isEmpty)).flatMap
          (fun u => (((arrivalsOf cfg u as)[j]?).map (·.md)).getD []) ∧
      ((∀ u, u < cfg.k → ∀ e, (arrivalsOf cfg u as)[j]? = some e → e.md = []) →
        (tupleList cfg.k t).flatMap (·.md) = []) := by
  intro j t ht
  have hm := (c10_zip_tuple_metadata cfg as j t ht).2
  refine ⟨?_, fun hall => ?_⟩
  · rw [hm]
    exact (flatMap_filter_nonempty (fun u => (((arrivalsOf cfg u as)[j]?).map (·.md)).getD []) _).symm
  · rw [hm]
    apply flatMap_eq_nil_of_all
    intro u hu
    cases hg : (arrivalsOf cfg u as)[j]? with
    | none => rfl
    | some e => simp [hall u (List.mem_range.mp hu) e hg]

end StreamzVerif.AsyncZip

/-! ## buffer(n), map_async(func, parallelism=p) — one-to-one nodes -/
namespace StreamzVerif.AsyncBuffer

variable {α β M : Type}

/-- **buffer passes the metadata unchanged, in arrival order.**  Let `md i` be the metadata the `i`-th arrival
carried (anything: no dictionary, one, several).  The model's arrivals are the producers' emissions numbered in
order; the sequence of `_emit` calls of the node (the `emit` events of its log), each taken with the metadata it
passes, is a prefix of the sequence of arrivals, each taken with the metadata it carried — the `j`-th emission is the
`j`-th arrival's value with the `j`-th arrival's metadata — and equal to it when the node is quiescent. -/
theorem c10_buffer_metadata_unchanged (md : Nat → M) (c : BCfg) (acts : List (BAct α)) :
    let s := brun c (binit α) acts
    let arrived := (numbered (barrivals acts)).map (fun e => (e.2, md e.1))
    let emitted := (s.log.filterMap emitOf).map (fun o => (o.2, md o.1))
    s.ins = numbered (barrivals acts) ∧ emitted <+: arrived ∧ (s.cb = .idle → emitted = arrived) := by
  intro s arrived emitted
  have h : BInv c s := binv_brun c acts _ (binv_init c)
  have hins : s.ins = numbered (barrivals acts) := brun_ins c acts
  have hpre := (c02_buffer_prefix c acts).2.1
  have he : emitted = s.outs.map (fun o => (o.2, md o.1)) := by
    show (s.log.filterMap emitOf).map _ = _
    rw [h.emitted]
  have ha : arrived = s.ins.map (fun e => (e.2, md e.1)) := by
    show (numbered (barrivals acts)).map _ = _
    rw [hins]
  refine ⟨hins, ?_, fun hidle => ?_⟩
  · rw [he, ha]; exact List.IsPrefix.map _ hpre
  · rw [he, ha, (c02_buffer_complete c acts hidle).1]

/-- **map_async passes the metadata unchanged, in arrival order — also when jobs finish out of order; a failed job
emits nothing.**  With `md i` the metadata of the `i`-th arrival: every `_emit` call of the node delivers `f` of an
arrival's value with that same arrival's metadata, the emissions follow arrival order whatever the order of the job
completions and failures (a subsequence of the mapped arrivals); when no job fails they are a prefix of the mapped
arrivals and, at quiescence, all of them. -/
theorem c10_map_async_metadata_unchanged (md : Nat → M) (f : α → β) (c : MCfg) (acts : List (MAct α)) :
    let s := mrun f c (minit α β) acts
    let arrived := (numbered (marrivals acts)).map (fun e => (f e.2, md e.1))
    let emitted := (s.log.filterMap emitOf).map (fun o => (o.2, md o.1))
    s.ins = numbered (marrivals acts) ∧ emitted.Sublist arrived ∧
    ((∀ a ∈ acts, a.isFail = false) → emitted <+: arrived ∧ (s.worker = .idle → emitted = arrived)) := by
  intro s arrived emitted
  have h : MInv f c s := minv_mrun f c acts _ (minv_init f c)
  have hins : s.ins = numbered (marrivals acts) := mrun_ins_numbered f c acts
  have he : emitted = s.outs.map (fun o => (o.2, md o.1)) := by
    show (s.log.filterMap emitOf).map _ = _
    rw [h.emitted]
  have ha : arrived = (s.ins.map (fun e => (e.1, f e.2))).map (fun o => (o.2, md o.1)) := by
    show (numbered (marrivals acts)).map _ = _
    rw [hins]; simp
  refine ⟨hins, ?_, fun hnf => ⟨?_, fun hidle => ?_⟩⟩
  · rw [he, ha]; exact List.Sublist.map _ (mouts_sublist f c s h)
  · rw [he, ha]; exact List.IsPrefix.map _ (c02_map_async_order f c acts hnf).1
  · rw [he, ha, c02_map_async_complete f c acts hnf hidle]

/-- **A failed job emits nothing**: the element of a user coroutine that raised is never passed to `_emit` — neither
its value nor its metadata reaches the downstream, in any continuation of the run. -/
theorem c10_map_async_failed_job_emits_nothing (f : α → β) (c : MCfg) (acts : List (MAct α)) :
    let s := mrun f c (minit α β) acts
    ∀ i, Ev.joblost i ∈ s.log → ∀ v, Ev.emit i v ∉ s.log := by
  intro s i hl v hv
  have h : MInv f c s := minv_mrun f c acts _ (minv_init f c)
  have hm : (i, v) ∈ s.log.filterMap emitOf := List.mem_filterMap.mpr ⟨_, hv, rfl⟩
  rw [h.emitted] at hm
  exact lost_not_emitted f c s h i hl (List.mem_map.mpr ⟨_, hm, rfl⟩)

/-- **Elements emitted without metadata contribute nothing** (one-to-one nodes, metadata = a list of entries per
arrival): the entries the downstream receives, concatenated over the emissions, are a subsequence (buffer, and
map_async without failures: a prefix) of the entries of the arrivals that carry some. -/
theorem c10_one_to_one_no_metadata_contributes_nothing {μ : Type} (md : Nat → List μ) :
    (∀ (c : BCfg) (acts : List (BAct α)),
      let s := brun c (binit α) acts
      (s.log.filterMap emitOf).flatMap (fun o => md o.1) <+:
        ((numbered (barrivals acts)).filter (fun e => !(md e.1).isEmpty)).flatMap (fun e => md e.1)) ∧
    (∀ (f : α → β) (c : MCfg) (acts : List (MAct α)),
      let s := mrun f c (minit α β) acts
      ((s.log.filterMap emitOf).flatMap (fun o => md o.1)).Sublist
        (((numbered (marrivals acts)).filter (fun e => !(md e.1).isEmpty)).flatMap (fun e => md e.1))) := by
  constructor
  · intro c acts s
    rw [StreamzVerif.AsyncMeta.flatMap_filter_nonempty (fun e : Nat × α => md e.1)]
    have h : BInv c s := binv_brun c acts _ (binv_init c)
    obtain ⟨r, hr⟩ := (c02_buffer_prefix c acts).2.1
    rw [h.emitted, ← brun_ins c acts]
    show s.outs.flatMap _ <+: s.ins.flatMap _
    rw [← hr, List.flatMap_append]
    exact List.prefix_append _ _
  · intro f c acts s
    rw [StreamzVerif.AsyncMeta.flatMap_filter_nonempty (fun e : Nat × α => md e.1)]
    have h : MInv f c s := minv_mrun f c acts _ (minv_init f c)
    rw [h.emitted, ← mrun_ins_numbered f c acts]
    have hsub := StreamzVerif.AsyncMeta.sublist_flatMap (fun o : Nat × β => md o.1) (mouts_sublist f c s h)
    have : (s.ins.map (fun e => (e.1, f e.2))).flatMap (fun o : Nat × β => md o.1) =
        s.ins.flatMap (fun e => md e.1) := by
      simp [List.flatMap_map]
    rw [this] at hsub
    exact hsub

end StreamzVerif.AsyncBuffer

/-! ## Non-vacuity: concrete runs -/
namespace StreamzVerif.AsyncWindows

/-- timed_window(1 s), awaitable downstream: 7 (metadata 1), 8 (no metadata), 9 (metadata 2, 3) arrive while the
construction-time empty batch is with its consumer; the next batch `[7, 8, 9]` carries `[1, 2, 3]`, and that is what
the unfinished consumer holds (hypotheses of `c10_timed_window_emit_link` / `_batch_metadata`: `cb = emitting`). -/
example :
    (run { interval := 4, mode := .plain, key := fun x : Int => x, syncDown := false } (TW.init Int 0)
      [.start, .arrive 7 [1], .arrive 8 [], .arrive 9 [2, 3], .downDone, .advance 4, .tick]).map
      (fun s => (s.outs.map (fun o => (o.batch.map (·.val), mds o.batch)), s.pend, decide (s.cb = .emitting), mds s.ins)) =
    some ([([], []), ([7, 8, 9], [1, 2, 3])], [1, 2, 3], true, [1, 2, 3]) := by decide

/-- timed_window_unique (key = x mod 2) on arrivals 1, 3, 2, 5 with metadata 1, 2, 3, 4: keep = first emits `[1, 2]`
with `[1, 3]`, keep = last emits `[2, 5]` with `[3, 4]` — the dropped / replaced elements contribute nothing. -/
example :
    (run { interval := 4, mode := .first, key := fun x : Int => x % 2, syncDown := true } (TW.init Int 0)
      [.start, .arrive 1 [1], .arrive 3 [2], .arrive 2 [3], .arrive 5 [4], .advance 4, .tick]).map
      (fun s => s.outs.map (fun o => (o.batch.map (·.val), mds o.batch, mds o.win))) =
    some [([], [], []), ([1, 2], [1, 3], [1, 2, 3, 4])] := by decide
example :
    (run { interval := 4, mode := .last, key := fun x : Int => x % 2, syncDown := true } (TW.init Int 0)
      [.start, .arrive 1 [1], .arrive 3 [2], .arrive 2 [3], .arrive 5 [4], .advance 4, .tick]).map
      (fun s => s.outs.map (fun o => (o.batch.map (·.val), mds o.batch, mds o.win))) =
    some [([], [], []), ([2, 5], [3, 4], [1, 2, 3, 4])] := by decide

/-- partition(2, timeout = 1 s, key = x mod 2), awaitable downstream: 1, 2, 3 arrive (metadata 1 / none / 5, 6): the
size flush of key 1 emits `(1, 3)` with `[1, 5, 6]`, held by flight 0; the timer of key 0 emits `(2)` with `[]`. -/
example :
    (prun { n := 2, timeout := 4, key := fun x : Int => x % 2, syncDown := false } (PT.init Int Int 0)
      [.arrive 1 [1], .arrive 2 [], .arrive 3 [5, 6], .advance 4, .fire 1]).map
      (fun s => (s.outs.map (fun o => (o.key, o.batch.map (·.val), mds o.batch)), s.flights)) =
    some ([(1, [1, 3], [1, 5, 6]), (0, [2], [])], [(0, [1, 5, 6]), (1, [])]) := by decide

/-- partition without key (`κ = Unit`): the hypothesis of `c10_partition_unkeyed_metadata_stream` is satisfiable and
the run reaches quiescence with every metadata entry delivered once, in order. -/
example :
    (∀ a : Unit, a = ()) ∧
    (prun { n := 2, timeout := 4, key := fun _ : Int => (), syncDown := true } (PT.init Int Unit 0)
      [.arrive 1 [1], .arrive 2 [2, 3], .arrive 3 [4], .advance 4, .fire 1]).map
      (fun s => (s.outs.map (fun o => mds o.batch), s.timers.length, mds s.ins)) =
    some ([[1, 2, 3], [4]], 0, [1, 2, 3, 4]) := ⟨fun _ => rfl, by decide⟩

end StreamzVerif.AsyncWindows

namespace StreamzVerif.AsyncZip

/-- zip(a, b, c, maxsize = 1) into an asynchronous and a synchronous sink (the run of Props/AsyncZip.lean): the two
tuples carry the tags of their components in upstream order (the component without metadata contributes nothing),
and the consumer still running holds the second tuple's list. -/
example :
    (run exCfg exActs).outs.map (fun t => ((tupleList 3 t).map (·.val), ((tupleList 3 t).flatMap (·.md)).map (·.tag))) =
      [([10, 20, 30], [1, 2, 4]), ([11, 21, 31], [3, 5])] ∧
    (run exCfg exActs).pending.map (fun p => (p.1, p.2.map (·.tag))) = [(1, [3, 5])] := by decide +kernel

end StreamzVerif.AsyncZip

namespace StreamzVerif.AsyncBuffer

/-- buffer(1), awaitable consumer, with metadata `md i = [100 + i]`: after one completion two elements have been
handed on, each with its own metadata. -/
example : let s := brun ⟨1, true⟩ (binit Nat) [.arrive 10, .arrive 20, .arrive 30, .downDone]
    (s.log.filterMap emitOf).map (fun o => (o.2, [100 + o.1])) = [(10, [100]), (20, [101])] ∧
    (numbered (barrivals [BAct.arrive 10, .arrive 20, .arrive 30, .downDone])).map (fun e => (e.2, [100 + e.1])) =
      [(10, [100]), (20, [101]), (30, [102])] := by decide

/-- map_async, parallelism 2: the jobs finish OUT of order (1 before 0) and job 2 fails: delivery is in arrival order,
each result with its own metadata, nothing for the failed job. -/
example : let s := mrun (fun x : Nat => x + 1) ⟨2, false⟩ (minit Nat Nat) [.arrive 10, .arrive 20, .arrive 30, .jobDone 1, .jobDone 0, .jobFail 2]
    (s.log.filterMap emitOf).map (fun o => (o.2, [100 + o.1])) = [(11, [100]), (21, [101])] ∧
    s.log.filterMap lostId = [2] ∧ s.worker = .idle := by decide

end StreamzVerif.AsyncBuffer
