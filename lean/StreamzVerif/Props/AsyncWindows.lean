import StreamzVerif.Proofs.AsyncWindows
/-!
# Time windows (`timed_window`, `timed_window_unique`, `partition(n, timeout)`) — property theorems

Serves C08 (time windows conserve elements and honour their deadline), C02 (lossless under asynchronous
timing), C03 (producers' awaitables), C04 (no early completion callback), C05 (balance, dropped duplicates
released).  Property theorems only; the models are in `Model/AsyncWindows.lean`, invariants and helper lemmas
in `Proofs/AsyncWindows.lean`.

Every theorem is about the states reached from the initial state by an ARBITRARY action sequence `acts`
(`run cfg (TW.init α c0) acts = some s`, resp. `prun`): any interleaving of arrivals (any values, any
metadata, bursts), downstream completions, timer firings and clock advances, any construction instant `c0`,
any interval / timeout `≥ 0` (ticks), any size `n ≥ 1`, any key function, synchronous or awaitable
downstream.  The only restriction is the enabling condition of the actions themselves ("timers fire when
due": the clock cannot pass an armed timer; a timer cannot fire before it is due).

Ghost stamps: an element records the instant `at_` it arrived and the time `blk` the node had spent waiting
for its downstream up to then; an emission records the same two readings (`c08_timed_window_stamps`).
-/
namespace StreamzVerif.AsyncWindows

variable {α κ : Type} [DecidableEq κ]

/-! ## C08 — timed_window / timed_window_unique -/

/-- **Conservation, timed_window**: at every moment the emitted batches, concatenated, followed by the buffer
are exactly the arrivals, in arrival order — each element is in exactly one batch and order is kept. -/
theorem c08_timed_window_conservation (cfg : Cfg α κ) (hm : cfg.mode = .plain) (c0 : Nat)
    (acts : List (Act α)) (s : TW α) (h : run cfg (TW.init α c0) acts = some s) :
    s.outs.flatMap (·.batch) ++ s.buf = s.ins := by
  have inv := (run_allInv cfg _ s acts (AllInv.init cfg c0) h).win
  have hb : s.outs.flatMap (·.batch) = s.outs.flatMap (·.win) :=
    flatMap_congr' _ _ _ (fun o ho => by rw [inv.outs o ho, reduce_plain cfg hm])
  rw [hb, inv.buf, reduce_plain cfg hm, inv.hist]

/-- **Conservation, timed_window_unique** (and timed_window): the arrivals are cut into consecutive windows (one
per emission, plus the current one); every emitted batch is the reduction `reduce` of its window and the
buffer is the reduction of the current window. -/
theorem c08_timed_window_unique_conservation (cfg : Cfg α κ) (c0 : Nat)
    (acts : List (Act α)) (s : TW α) (h : run cfg (TW.init α c0) acts = some s) :
    s.outs.flatMap (·.win) ++ s.win = s.ins ∧
    (∀ o ∈ s.outs, o.batch = reduce cfg o.win) ∧
    s.buf = reduce cfg s.win := by
  have inv := (run_allInv cfg _ s acts (AllInv.init cfg c0) h).win
  exact ⟨inv.hist, inv.outs, inv.buf⟩

/-- **What the reduction is** (keep-first / keep-last rule), for every window `w`: a subsequence of `w`
(nothing invented, arrival order kept, dropped elements never appear), with pairwise distinct keys, containing
one element for every key that arrived; with keep = "first" it is the FIRST arrival of that key, with
keep = "last" the LAST one. -/
theorem c08_timed_window_unique_batch_spec (cfg : Cfg α κ) (hm : cfg.mode ≠ .plain) (w : List (Elem α)) :
    (reduce cfg w).Sublist w ∧
    (reduce cfg w).Pairwise (fun a b => cfg.key a.val ≠ cfg.key b.val) ∧
    (∀ e ∈ w, ∃ b ∈ reduce cfg w, cfg.key b.val = cfg.key e.val) ∧
    (cfg.mode = .first → ∀ b ∈ reduce cfg w, ∃ l1 l2, w = l1 ++ b :: l2 ∧ ∀ a ∈ l1, cfg.key a.val ≠ cfg.key b.val) ∧
    (cfg.mode = .last → ∀ b ∈ reduce cfg w, ∃ l1 l2, w = l1 ++ b :: l2 ∧ ∀ a ∈ l2, cfg.key a.val ≠ cfg.key b.val) :=
  ⟨reduce_sublist cfg w, reduce_keys_distinct cfg hm w, reduce_covers cfg w,
   fun h => reduce_first cfg h w, fun h => reduce_last cfg h w⟩

/-- **Deadline**: an element that arrived at `e.at_` and is emitted in a batch at `o.at_` satisfies
`o.at_ ≤ e.at_ + interval + (time the node waited for its downstream between the two instants)`. -/
theorem c08_timed_window_deadline (cfg : Cfg α κ) (c0 : Nat)
    (acts : List (Act α)) (s : TW α) (h : run cfg (TW.init α c0) acts = some s) :
    ∀ o ∈ s.outs, ∀ e ∈ o.batch,
      e.at_ ≤ o.at_ ∧ e.blk ≤ o.blk ∧ o.at_ ≤ e.at_ + cfg.interval + (o.blk - e.blk) := by
  have inv := (run_allInv cfg _ s acts (AllInv.init cfg c0) h).time
  intro o ho e he
  have := (inv.outs o ho).2.2 e he
  omega

/-- With a synchronous downstream there is no backpressure: every element is emitted within one interval. -/
theorem c08_timed_window_deadline_sync (cfg : Cfg α κ) (hsync : cfg.syncDown = true) (c0 : Nat)
    (acts : List (Act α)) (s : TW α) (h : run cfg (TW.init α c0) acts = some s) :
    ∀ o ∈ s.outs, ∀ e ∈ o.batch, e.at_ ≤ o.at_ ∧ o.at_ ≤ e.at_ + cfg.interval := by
  have all := run_allInv cfg _ s acts (AllInv.init cfg c0) h
  intro o ho e he
  have h1 := all.time.outs o ho
  have h2 := h1.2.2 e he
  have h3 := (all.sync hsync).blocked
  omega

/-- No buffered element is ever past its deadline: at every moment, for what is still in the buffer,
`now ≤ arrival + interval + (time blocked since the arrival)`. -/
theorem c08_timed_window_buffered_not_overdue (cfg : Cfg α κ) (c0 : Nat)
    (acts : List (Act α)) (s : TW α) (h : run cfg (TW.init α c0) acts = some s) :
    ∀ e ∈ s.buf, e.at_ ≤ s.now ∧ e.blk ≤ s.blocked ∧ s.now ≤ e.at_ + cfg.interval + (s.blocked - e.blk) := by
  have inv := (run_allInv cfg _ s acts (AllInv.init cfg c0) h).time
  intro e he
  have h1 := inv.past e he
  have h2 := inv.slack e he
  refine ⟨h1.1, h1.2, ?_⟩
  unfold Slack at h2
  cases hc : s.cb with
  | idle => rw [hc] at h2; simp only at h2; omega
  | emitting => rw [hc] at h2; simp only at h2; omega
  | sleeping due => rw [hc] at h2; have := inv.sleep due hc; simp only at h2; omega

/-- Meaning of the ghost stamps: `blocked` grows exactly by the time that passes while `cb` waits for the
downstream of the batch in flight; an arrival is stamped with the current clock and `blocked`; so is an emission. -/
theorem c08_timed_window_stamps (cfg : Cfg α κ) (s s' : TW α) (a : Act α) (h : step cfg s a = some s') :
    (s'.blocked = s.blocked + (match a, s.cb with
      | .advance t, .emitting => t - s.now
      | _, _ => 0)) ∧
    (∀ x md, a = .arrive x md → s'.ins = s.ins ++ [{ val := x, md := md, at_ := s.now, blk := s.blocked }]) ∧
    (∀ o, s'.outs = s.outs ++ [o] → o.at_ = s.now ∧ o.blk = s.blocked ∧ o.batch = s.buf) := by
  have hemit : (emitBatch cfg s).blocked = s.blocked ∧
      ∀ o, (emitBatch cfg s).outs = s.outs ++ [o] → o.at_ = s.now ∧ o.blk = s.blocked ∧ o.batch = s.buf := by
    unfold emitBatch
    split
    · exact ⟨rfl, fun o ho => by simp only [List.append_cancel_left_eq, List.cons.injEq, and_true] at ho; subst ho; simp⟩
    · exact ⟨rfl, fun o ho => by simp only [List.append_cancel_left_eq, List.cons.injEq, and_true] at ho; subst ho; simp⟩
  have hno : ∀ (l : List (Out α)) (o : Out α), l ≠ l ++ [o] := by
    intro l o hl
    have := congrArg List.length hl
    simp at this
  cases a with
  | arrive x md =>
    simp only [step, Option.some.injEq] at h
    subst h
    refine ⟨by simp, (fun x' md' e => by cases e; rfl), fun o ho => absurd ho (hno _ _)⟩
  | start =>
    simp only [step] at h
    split at h
    · cases h; exact ⟨by simp [hemit.1], (fun _ _ e => by cases e), hemit.2⟩
    · cases h
  | tick =>
    simp only [step] at h
    split at h
    · split at h
      · cases h; exact ⟨by simp [hemit.1], (fun _ _ e => by cases e), hemit.2⟩
      · cases h
    · cases h
  | downDone =>
    simp only [step] at h
    split at h
    · cases h; exact ⟨by simp, (fun _ _ e => by cases e), fun o ho => absurd ho (hno _ _)⟩
    · cases h
  | advance t =>
    simp only [step] at h
    split at h
    · split at h
      · cases h
      · rename_i hc; cases h
        exact ⟨by simp [hc], (fun _ _ e => by cases e), fun o ho => absurd ho (hno _ _)⟩
      · split at h
        · rename_i hc _; cases h
          exact ⟨by simp [hc], (fun _ _ e => by cases e), fun o ho => absurd ho (hno _ _)⟩
        · cases h
    · cases h

/-! ## C02 — timed windows are lossless -/

/-- The concatenation of the batches of `timed_window` is a prefix of the inputs at every moment, and equal to
them whenever the buffer is empty. -/
theorem c02_window_lossless (cfg : Cfg α κ) (hm : cfg.mode = .plain) (c0 : Nat)
    (acts : List (Act α)) (s : TW α) (h : run cfg (TW.init α c0) acts = some s) :
    s.outs.flatMap (·.batch) <+: s.ins ∧ (s.buf = [] → s.outs.flatMap (·.batch) = s.ins) := by
  have hc := c08_timed_window_conservation cfg hm c0 acts s h
  exact ⟨⟨s.buf, hc⟩, fun hb => by rw [hb, List.append_nil] at hc; exact hc⟩

/-- Nothing stays in the buffer for ever (no deadlock, every mode): from every reachable state at most three
further actions (the downstream completes, the clock reaches the tick, the tick fires) empty the buffer into
a batch, without any new arrival. -/
theorem c02_window_drains (cfg : Cfg α κ) (c0 : Nat)
    (acts : List (Act α)) (s : TW α) (h : run cfg (TW.init α c0) acts = some s) :
    ∃ more s', more.length ≤ 3 ∧ run cfg s more = some s' ∧ s'.buf = [] ∧ s'.ins = s.ins := by
  have inv := (run_allInv cfg _ s acts (AllInv.init cfg c0) h).time
  have hemit : ∀ t : TW α, (emitBatch cfg t).buf = [] ∧ (emitBatch cfg t).ins = t.ins := by
    intro t; unfold emitBatch; split <;> exact ⟨rfl, rfl⟩
  cases hc : s.cb with
  | idle =>
    exact ⟨[.start], emitBatch cfg s, by simp, by simp [run, step, hc], (hemit s).1, (hemit s).2⟩
  | sleeping due =>
    have hle := (inv.sleep due hc).1
    refine ⟨[.advance due, .tick], emitBatch cfg { s with now := due }, by simp, ?_, (hemit _).1, (hemit _).2⟩
    simp [run, step, hc, hle]
  | emitting =>
    refine ⟨[.downDone, .advance (s.now + cfg.interval), .tick],
      emitBatch cfg { s with rc := (s.rc.release s.pend).release s.pend, pend := [],
                             cb := .sleeping (s.now + cfg.interval), now := s.now + cfg.interval },
      by simp, ?_, (hemit _).1, (hemit _).2⟩
    simp [run, step, hc]

/-! ## C04 / C05 — timed windows and reference counts -/

/-- **Exact balance**: at every settled point the count of every counter is the number of buffered elements
carrying it plus two (the node's and the unfinished consumer's reference) per element of the batch in flight;
`pend` is the metadata of the latest emitted batch while its downstream awaitable is pending, and is empty
otherwise.  In particular every count is zero when the buffer is empty and no emission is in flight. -/
theorem c05_window_balance (cfg : Cfg α κ) (c0 : Nat)
    (acts : List (Act α)) (s : TW α) (h : run cfg (TW.init α c0) acts = some s) :
    (∀ r, s.rc.cnt r = (occ r s.buf : Nat) + 2 * (s.pend.count r : Nat)) ∧
    (s.cb = .emitting → ∃ o, s.outs.getLast? = some o ∧ s.pend = mds o.batch) ∧
    (s.cb ≠ .emitting → s.pend = []) ∧
    (s.buf = [] → s.cb ≠ .emitting → ∀ r, s.rc.cnt r = 0) := by
  have all := run_allInv cfg _ s acts (AllInv.init cfg c0) h
  refine ⟨all.count.cnt, all.wait.pend, all.count.idle, fun hb hc r => ?_⟩
  rw [all.count.cnt r, hb, all.count.idle hc]; simp

/-- **References are held**: from its arrival on, as long as an element is in the buffer its counters are `≥ 1`,
and while the batch containing it is with an unfinished downstream consumer they are `≥ 2`. -/
theorem c04_window_holds (cfg : Cfg α κ) (c0 : Nat)
    (acts : List (Act α)) (s : TW α) (h : run cfg (TW.init α c0) acts = some s) :
    (∀ e ∈ s.buf, ∀ r ∈ e.md, 1 ≤ s.rc.cnt r) ∧ (∀ r ∈ s.pend, 2 ≤ s.rc.cnt r) := by
  have inv := (run_allInv cfg _ s acts (AllInv.init cfg c0) h).count
  constructor
  · intro e he r hr
    have := occ_pos_of_mem r e s.buf he hr
    rw [inv.cnt r]; omega
  · intro r hr
    have := List.count_pos_iff.mpr hr
    rw [inv.cnt r]; omega

/-- **No early callback**: whatever one action makes fire, the counter is at zero afterwards and no element
carrying it is in the buffer or in the batch whose downstream is still running. -/
theorem c04_window_no_early_callback (cfg : Cfg α κ) (c0 : Nat)
    (acts : List (Act α)) (s s' : TW α) (a : Act α)
    (h : run cfg (TW.init α c0) acts = some s) (hs : step cfg s a = some s') :
    ∃ new, s'.rc.fired = s.rc.fired ++ new ∧
      ∀ r ∈ new, s'.rc.cnt r = 0 ∧ (∀ e ∈ s'.buf, r ∉ e.md) ∧ r ∉ s'.pend := by
  have inv := (step_allInv cfg s s' a (run_allInv cfg _ s acts (AllInv.init cfg c0) h) hs).count
  obtain ⟨new, h1, h2⟩ := step_firedLow cfg s s' a hs
  refine ⟨new, h1, fun r hr => ?_⟩
  have hle := h2 r hr
  have hc := inv.cnt r
  refine ⟨by omega, fun e he hmem => ?_, fun hmem => ?_⟩
  · have := occ_pos_of_mem r e s'.buf he hmem; omega
  · have := List.count_pos_iff.mpr hmem; omega

/-- **Dropped duplicates are released at once** (timed_window_unique, keep = "first"): an element whose key is
already in the buffer leaves buffer and every count as they were, and if its counter is thereby (back) at
zero its callback has been scheduled. -/
theorem c05_window_unique_dropped_released (cfg : Cfg α κ) (hm : cfg.mode = .first)
    (s s' : TW α) (x : α) (md : List Nat)
    (hdup : ∃ b ∈ s.buf, cfg.key b.val = cfg.key x)
    (hs : step cfg s (.arrive x md) = some s') :
    s'.buf = s.buf ∧ (∀ r, s'.rc.cnt r = s.rc.cnt r) ∧ (∀ r ∈ md, s'.rc.cnt r ≤ 0 → r ∈ s'.rc.fired) := by
  simp only [step, Option.some.injEq] at hs
  subst hs
  have hany : s.buf.any (fun b => decide (cfg.key b.val = cfg.key x)) = true := by
    simpa using hdup
  have hins : insert cfg s.buf { val := x, md := md, at_ := s.now, blk := s.blocked } = (s.buf, md) := by
    simp [insert, hm, hany]
  refine ⟨by simp [hins], fun r => ?_, fun r hr hz => ?_⟩
  · simp only [hins, RC.release_cnt, RC.retain_cnt]; omega
  · exact arrive_fires s.rc md _ r (Or.inr hr) hz

/-- **Replaced elements are released at once** (keep = "last"): the new element takes the place of the buffered
one with the same key, whose references are given back in the same `update`; a counter that ends at zero has
had its callback scheduled. -/
theorem c05_window_unique_replaced_released (cfg : Cfg α κ) (hm : cfg.mode = .last)
    (s s' : TW α) (x : α) (md : List Nat)
    (hs : step cfg s (.arrive x md) = some s') :
    let same := s.buf.filter (fun b => decide (cfg.key b.val = cfg.key x))
    s'.buf = s.buf.filter (fun b => !decide (cfg.key b.val = cfg.key x)) ++
      [{ val := x, md := md, at_ := s.now, blk := s.blocked }] ∧
    (∀ r, s'.rc.cnt r = s.rc.cnt r + (md.count r : Nat) - ((mds same).count r : Nat)) ∧
    (∀ r ∈ mds same, s'.rc.cnt r ≤ 0 → r ∈ s'.rc.fired) := by
  simp only [step, Option.some.injEq] at hs
  subst hs
  have hins : insert cfg s.buf { val := x, md := md, at_ := s.now, blk := s.blocked } =
      (s.buf.filter (fun b => !decide (cfg.key b.val = cfg.key x)) ++ [{ val := x, md := md, at_ := s.now, blk := s.blocked }],
       mds (s.buf.filter (fun b => decide (cfg.key b.val = cfg.key x)))) := by
    simp [insert, hm]
  refine ⟨by simp [hins], fun r => ?_, fun r hr hz => ?_⟩
  · simp only [hins, RC.release_cnt, RC.retain_cnt]; omega
  · refine arrive_fires s.rc md _ r (Or.inl ?_) hz
    rw [hins]; exact hr

/-! ## C03 — timed windows: the awaitable handed to producers -/

/-- A producer whose element arrives while the previous batch is still with its consumer gets an awaitable
that is pending (backpressure: the shared future of the emission in flight). -/
theorem c03_window_producer_waits (cfg : Cfg α κ) (s s' : TW α) (x : α) (md : List Nat)
    (hc : s.cb = .emitting) (hs : step cfg s (.arrive x md) = some s') :
    ∃ w, s'.waits = s.waits ++ [w] ∧ s'.emitPending w = true := by
  simp only [step, Option.some.injEq] at hs
  subst hs
  exact ⟨s.outs.length, rfl, by simp [TW.emitPending, hc]⟩

/-- Once the awaitable of an arrival is done it stays done, and none is pending unless a batch is with its
consumer: no producer is left waiting for ever once the downstream has completed. -/
theorem c03_window_no_stuck_emit (cfg : Cfg α κ) (c0 : Nat)
    (acts : List (Act α)) (s s' : TW α) (a : Act α)
    (h : run cfg (TW.init α c0) acts = some s) (hs : step cfg s a = some s') :
    (s.cb ≠ .emitting → ∀ w ∈ s.waits, s.emitPending w = false) ∧
    (∀ w ∈ s.waits, s.emitPending w = false → s'.emitPending w = false) := by
  have inv := (run_allInv cfg _ s acts (AllInv.init cfg c0) h).wait
  constructor
  · intro hc w _
    simp [TW.emitPending, hc]
  · intro w hw hp
    have hle := inv.le w hw
    have hemit : (emitBatch cfg s).emitPending w = false := by
      have := emitBatch_outs_length cfg s
      simp only [TW.emitPending, Bool.and_eq_false_iff, decide_eq_false_iff_not]
      right; omega
    simp only [TW.emitPending, Bool.and_eq_false_iff, decide_eq_false_iff_not] at hp
    have hp' : s.cb = .emitting → ¬ w = s.outs.length := fun hc => hp.resolve_left (fun h => h hc)
    cases a with
    | arrive x md =>
      simp only [step, Option.some.injEq] at hs
      subst hs
      simpa [TW.emitPending] using hp'
    | start =>
      simp only [step] at hs
      split at hs
      · cases hs; exact hemit
      · cases hs
    | tick =>
      simp only [step] at hs
      split at hs
      · split at hs
        · cases hs; exact hemit
        · cases hs
      · cases hs
    | downDone =>
      simp only [step] at hs
      split at hs
      · cases hs; simp [TW.emitPending]
      · cases hs
    | advance t =>
      simp only [step] at hs
      split at hs
      · split at hs
        · cases hs
        · cases hs; simpa [TW.emitPending] using hp'
        · split at hs
          · cases hs; simpa [TW.emitPending] using hp'
          · cases hs
      · cases hs

/-! ## C08 — partition(n, timeout=T, key) -/

/-- **Size, no spurious partial or empty partition**: every emitted partition has between 1 and `n` elements, all
of the partition's key; one emitted by the size test has exactly `n`; a shorter one was emitted by the timeout
callback, exactly one timeout after its first element arrived. -/
theorem c08_partition_size (cfg : PCfg α κ) (hn : 1 ≤ cfg.n) (c0 : Nat)
    (acts : List (PAct α)) (s : PT α κ) (h : prun cfg (PT.init α κ c0) acts = some s) :
    ∀ o ∈ s.outs,
      1 ≤ o.batch.length ∧ o.batch.length ≤ cfg.n ∧
      (∀ e ∈ o.batch, cfg.key e.val = o.key) ∧
      (o.byTimer = false → o.batch.length = cfg.n) ∧
      (o.batch.length < cfg.n → o.byTimer = true) ∧
      (o.byTimer = true → ∃ hd, o.batch.head? = some hd ∧ o.at_ = hd.at_ + cfg.timeout) := by
  have inv := (prun_pall cfg hn _ s acts (PAll.init cfg hn c0) h).inv
  intro o ho
  obtain ⟨h1, h2, h3, h4, hd, h5, h6, _, _⟩ := inv.outs o ho
  refine ⟨h1, h2, h4, h3, fun hlt => ?_, fun hb => ⟨hd, h5, h6 hb⟩⟩
  cases hb : o.byTimer with
  | true => rfl
  | false => have := h3 hb; omega

/-- **The timer is cancelled by a size flush** — invariant behind the previous theorem: at every moment a live
timeout handle exists for a key iff that key's buffer is neither empty nor full; there is at most one per key,
it is the one stored in `_callbacks`, it is due one timeout after the first buffered element arrived and is
never overdue; no buffer ever holds `n` elements at a settled point. -/
theorem c08_partition_timer_iff (cfg : PCfg α κ) (hn : 1 ≤ cfg.n) (c0 : Nat)
    (acts : List (PAct α)) (s : PT α κ) (h : prun cfg (PT.init α κ c0) acts = some s) :
    (∀ k, (∃ tm ∈ s.timers, tm.key = k) ↔
      (0 < (part cfg k s.buf).length ∧ (part cfg k s.buf).length < cfg.n)) ∧
    (∀ t1 ∈ s.timers, ∀ t2 ∈ s.timers, t1.key = t2.key → t1 = t2) ∧
    (∀ tm ∈ s.timers, s.callbacks tm.key = some tm.id ∧ s.now ≤ tm.due ∧
      ∃ hd, (part cfg tm.key s.buf).head? = some hd ∧ tm.due = hd.at_ + cfg.timeout) ∧
    (∀ k, (part cfg k s.buf).length < cfg.n) := by
  have inv := (prun_pall cfg hn _ s acts (PAll.init cfg hn c0) h).inv
  refine ⟨inv.armed, fun t1 h1 t2 h2 hk => ?_, fun tm htm => ⟨inv.latest tm htm, inv.due tm htm⟩, inv.small⟩
  have e1 := inv.latest t1 h1
  have e2 := inv.latest t2 h2
  rw [hk, e2] at e1
  exact pairwise_inj (fun t : Timer κ => t.id) s.timers inv.distinct t1 h1 t2 h2 (Option.some.inj e1).symm

/-- For `n = 1` no timer is ever armed (the size test returns first). -/
theorem c08_partition_no_timer_for_n1 (cfg : PCfg α κ) (hn : cfg.n = 1) (c0 : Nat)
    (acts : List (PAct α)) (s : PT α κ) (h : prun cfg (PT.init α κ c0) acts = some s) :
    s.timers = [] ∧ s.buf = [] := by
  have inv := (prun_pall cfg (by omega) _ s acts (PAll.init cfg (by omega) c0) h).inv
  constructor
  · cases ht : s.timers with
    | nil => rfl
    | cons tm l =>
      have := (inv.armed tm.key).mp ⟨tm, by rw [ht]; simp, rfl⟩
      omega
  · cases hb : s.buf with
    | nil => rfl
    | cons e l =>
      have h1 := inv.small (cfg.key e.val)
      have h2 : e ∈ part cfg (cfg.key e.val) s.buf := (mem_part cfg _ _ e).mpr ⟨by rw [hb]; simp, rfl⟩
      have := List.length_pos_of_mem h2
      omega

/-- **Deadline**: every element of an emitted partition arrived no earlier than the partition's first element
and is emitted no later than one timeout after that first arrival — hence no later than one timeout after its
own arrival (a flush in flight never delays the node: no backpressure term). -/
theorem c08_partition_deadline (cfg : PCfg α κ) (hn : 1 ≤ cfg.n) (c0 : Nat)
    (acts : List (PAct α)) (s : PT α κ) (h : prun cfg (PT.init α κ c0) acts = some s) :
    ∀ o ∈ s.outs, ∃ hd, o.batch.head? = some hd ∧ o.at_ ≤ hd.at_ + cfg.timeout ∧
      ∀ e ∈ o.batch, hd.at_ ≤ e.at_ ∧ e.at_ ≤ o.at_ ∧ o.at_ ≤ e.at_ + cfg.timeout := by
  have inv := (prun_pall cfg hn _ s acts (PAll.init cfg hn c0) h).inv
  intro o ho
  obtain ⟨_, _, _, _, hd, h5, _, h7, h8⟩ := inv.outs o ho
  refine ⟨hd, h5, h7, fun e he => ?_⟩
  have := h8 e he
  omega

/-- No buffered element is ever past its deadline: `now ≤ arrival + timeout` for everything in the buffers. -/
theorem c08_partition_buffered_not_overdue (cfg : PCfg α κ) (hn : 1 ≤ cfg.n) (c0 : Nat)
    (acts : List (PAct α)) (s : PT α κ) (h : prun cfg (PT.init α κ c0) acts = some s) :
    ∀ e ∈ s.buf, e.at_ ≤ s.now ∧ s.now ≤ e.at_ + cfg.timeout := by
  have inv := (prun_pall cfg hn _ s acts (PAll.init cfg hn c0) h).inv
  intro e he
  refine ⟨inv.past e he, ?_⟩
  have hmem : e ∈ part cfg (cfg.key e.val) s.buf := (mem_part cfg _ _ e).mpr ⟨he, rfl⟩
  have hpos := List.length_pos_of_mem hmem
  obtain ⟨tm, htm, hk⟩ := (inv.armed (cfg.key e.val)).mpr ⟨hpos, inv.small _⟩
  obtain ⟨hnow, hd, hhd, hdue⟩ := inv.due tm htm
  rw [hk] at hhd
  have hs : (part cfg (cfg.key e.val) s.buf).Pairwise (fun a b => a.at_ ≤ b.at_) :=
    inv.sorted.sublist List.filter_sublist
  cases hp : part cfg (cfg.key e.val) s.buf with
  | nil => rw [hp] at hmem; simp at hmem
  | cons a l =>
    rw [hp] at hhd hs hmem
    simp only [List.head?_cons, Option.some.injEq] at hhd
    subst hhd
    rw [List.pairwise_cons] at hs
    rcases List.mem_cons.mp hmem with rfl | hl
    · omega
    · have := hs.1 e hl; omega

/-- **Conservation per key**: for every key, the partitions emitted for it, concatenated, followed by its
buffer are exactly the arrivals with that key, in arrival order. -/
theorem c08_partition_conservation (cfg : PCfg α κ) (c0 : Nat)
    (acts : List (PAct α)) (s : PT α κ) (h : prun cfg (PT.init α κ c0) acts = some s) :
    ∀ k, outsOf k s.outs ++ part cfg k s.buf = part cfg k s.ins :=
  (prun_phist cfg _ s acts (PHist.init cfg c0) h).hist

/-! ## C02 — partition with timeout is lossless per key -/

/-- Per key the concatenation of the partitions is a prefix of that key's inputs at every moment, and equal to
them at quiescence: once every armed timer has fired (no live timer) the buffers are empty. -/
theorem c02_partition_lossless (cfg : PCfg α κ) (hn : 1 ≤ cfg.n) (c0 : Nat)
    (acts : List (PAct α)) (s : PT α κ) (h : prun cfg (PT.init α κ c0) acts = some s) :
    (∀ k, outsOf k s.outs <+: part cfg k s.ins) ∧
    (s.timers = [] → s.buf = [] ∧ ∀ k, outsOf k s.outs = part cfg k s.ins) := by
  have all := prun_pall cfg hn _ s acts (PAll.init cfg hn c0) h
  refine ⟨fun k => ⟨part cfg k s.buf, all.hist.hist k⟩, fun ht => ?_⟩
  have hempty : ∀ k, part cfg k s.buf = [] := by
    intro k
    have h1 := all.inv.small k
    have h2 := (all.inv.armed k).mpr
    rw [ht] at h2
    cases hp : part cfg k s.buf with
    | nil => rfl
    | cons a l =>
      rw [hp] at h1 h2
      obtain ⟨tm, htm, _⟩ := h2 ⟨by simp, h1⟩
      simp at htm
  have hbuf : s.buf = [] := by
    cases hb : s.buf with
    | nil => rfl
    | cons e l =>
      have : e ∈ part cfg (cfg.key e.val) s.buf := (mem_part cfg _ _ e).mpr ⟨by rw [hb]; simp, rfl⟩
      rw [hempty] at this; simp at this
  refine ⟨hbuf, fun k => ?_⟩
  have := all.hist.hist k
  rw [hempty k, List.append_nil] at this
  exact this

/-! ## C04 / C05 — partition with timeout and reference counts -/

/-- **Exact balance**: the count of every counter is the number of buffered elements carrying it plus two (the
node's and the unfinished consumer's reference) per element of a flush whose downstream awaitable is pending;
zero for everything once the buffers are empty and no flush is in flight. -/
theorem c05_partition_balance (cfg : PCfg α κ) (c0 : Nat)
    (acts : List (PAct α)) (s : PT α κ) (h : prun cfg (PT.init α κ c0) acts = some s) :
    (∀ r, s.rc.cnt r = (occ r s.buf : Nat) + 2 * (flOcc r s.flights : Nat)) ∧
    (s.buf = [] → s.flights = [] → ∀ r, s.rc.cnt r = 0) := by
  have inv := prun_pcount cfg _ s acts (PCount.init c0) h
  have hc : ∀ r, s.rc.cnt r = (occ r s.buf : Nat) + 2 * (flOcc r s.flights : Nat) := by
    intro r; have := inv.cnt r; dsimp only at this; omega
  refine ⟨hc, fun hb hf r => ?_⟩
  rw [hc r, hb, hf]; simp

/-- **References are held** from the arrival until the downstream of the flush has completed. -/
theorem c04_partition_holds (cfg : PCfg α κ) (c0 : Nat)
    (acts : List (PAct α)) (s : PT α κ) (h : prun cfg (PT.init α κ c0) acts = some s) :
    (∀ e ∈ s.buf, ∀ r ∈ e.md, 1 ≤ s.rc.cnt r) ∧ (∀ f ∈ s.flights, ∀ r ∈ f.2, 2 ≤ s.rc.cnt r) := by
  have hc := (c05_partition_balance cfg c0 acts s h).1
  constructor
  · intro e he r hr
    have := occ_pos_of_mem r e s.buf he hr
    rw [hc r]; omega
  · intro f hf r hr
    have : 1 ≤ flOcc r s.flights := by
      unfold flOcc
      apply List.count_pos_iff.mpr
      simp only [List.mem_flatMap]
      exact ⟨f, hf, hr⟩
    rw [hc r]; omega

/-- **No early callback**: whatever one action makes fire, the counter is at zero afterwards and nothing carrying
it is buffered or with an unfinished consumer. -/
theorem c04_partition_no_early_callback (cfg : PCfg α κ) (c0 : Nat)
    (acts : List (PAct α)) (s s' : PT α κ) (a : PAct α)
    (h : prun cfg (PT.init α κ c0) acts = some s) (hs : pstep cfg s a = some s') :
    ∃ new, s'.rc.fired = s.rc.fired ++ new ∧
      ∀ r ∈ new, s'.rc.cnt r = 0 ∧ (∀ e ∈ s'.buf, r ∉ e.md) ∧ (∀ f ∈ s'.flights, r ∉ f.2) := by
  have inv := pstep_pcount cfg s s' a (prun_pcount cfg _ s acts (PCount.init c0) h) hs
  obtain ⟨new, h1, h2⟩ := pstep_firedLow cfg s s' a hs
  refine ⟨new, h1, fun r hr => ?_⟩
  have hle := h2 r hr
  have hc := inv.cnt r
  dsimp only at hc
  refine ⟨by omega, fun e he hmem => ?_, fun f hf hmem => ?_⟩
  · have := occ_pos_of_mem r e s'.buf he hmem; omega
  · have : 1 ≤ flOcc r s'.flights := by
      unfold flOcc
      apply List.count_pos_iff.mpr
      simp only [List.mem_flatMap]
      exact ⟨f, hf, hmem⟩
    omega

/-! ## Non-vacuity: concrete runs (elements are integers, ticks of 1/4 s) -/

/-- timed_window(1 s), awaitable downstream: 7 arrives while the construction-time empty batch is with its
consumer, which finishes at 0.5 s; the next tick is 1 s after THAT (1.5 s) and emits `[7]`: arrival 0, emission 6,
interval 4, blocked 2. -/
example :
    (run { interval := 4, mode := .plain, key := fun x : Int => x, syncDown := false } (TW.init Int 0)
      [.start, .arrive 7 [1], .advance 2, .downDone, .advance 6, .tick]).map
      (fun s => (s.outs.map (fun o => (o.at_, o.blk, o.batch.map (·.val))), s.rc.cnt 1, s.pend)) =
    some ([(0, 0, []), (6, 2, [7])], 2, [1]) := by decide

/-- timed_window_unique(keep = first / last, key = x mod 2) on arrivals 1, 3, 2, 5. -/
example :
    (run { interval := 4, mode := .first, key := fun x : Int => x % 2, syncDown := true } (TW.init Int 0)
      [.start, .arrive 1 [1], .arrive 3 [2], .arrive 2 [3], .arrive 5 [4], .advance 4, .tick]).map
      (fun s => (s.outs.map (fun o => o.batch.map (·.val)), s.rc.fired)) =
    some ([[], [1, 2]], [2, 4, 1, 3]) := by decide

example :
    (run { interval := 4, mode := .last, key := fun x : Int => x % 2, syncDown := true } (TW.init Int 0)
      [.start, .arrive 1 [1], .arrive 3 [2], .arrive 2 [3], .arrive 5 [4], .advance 4, .tick]).map
      (fun s => (s.outs.map (fun o => o.batch.map (·.val)), s.rc.fired)) =
    some ([[], [2, 5]], [1, 2, 3, 4]) := by decide

/-- partition(2, timeout = 1 s): 1 arrives at 0, its timer fires at 1 s (partial partition `(1)`); 2 and 3
arrive together at 1 s: size flush, the timer armed by 2 is cancelled — advancing 2 s more emits nothing. -/
example :
    (prun { n := 2, timeout := 4, key := fun _ : Int => (0 : Int), syncDown := true } (PT.init Int Int 0)
      [.arrive 1 [1], .advance 4, .fire 0, .arrive 2 [2], .arrive 3 [3], .advance 12]).map
      (fun s => (s.outs.map (fun o => (o.at_, o.batch.map (·.val), o.byTimer)), s.timers.length, s.rc.fired)) =
    some ([(4, [1], true), (4, [2, 3], false)], 0, [1, 2, 3]) := by decide

/-- The hypotheses "a key is already buffered" (C05) and "cb is emitting" (C03) are satisfiable by reachable states. -/
example :
    ∃ s, run { interval := 4, mode := .first, key := fun x : Int => x % 2, syncDown := false } (TW.init Int 0)
        [.start, .arrive 1 [1]] = some s ∧ s.cb = .emitting ∧ ∃ b ∈ s.buf, b.val % 2 = (3 : Int) % 2 :=
  ⟨_, rfl, rfl, _, List.mem_cons_self, by decide⟩

end StreamzVerif.AsyncWindows
