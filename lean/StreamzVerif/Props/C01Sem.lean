import StreamzVerif.Proofs.NodeSem
/-
C01, second bullet: per-kind list-level semantics.

For every synchronous node kind, the outputs of the *local run* of the node
(`localRun k s arrivals`, the fold of the node-local `upd` over an arbitrary arrival
list, `Proofs/NodeSem.lean`) equal a specification written without node state, as a
plain list function taken from the docstring of the Python class (core.py).  All
theorems hold for ALL arrival lists.  Error convention: `localRun` is total; an
arrival on which the node's own function raises is skipped (no output, no state
change) and the specifications say so explicitly (`filterMap`, "skipped").
`pays arrivals` is the list of (value, metadata) payloads of the arrivals.
-/
namespace StreamzVerif.Graph

/-! ## 1. map — "Apply a function to every element in the stream" (core.py 680-720) -/

/-- `f` applied to every element, metadata kept; elements on which `f` raises are skipped. -/
def mapSpec (f : Fn) (xs : List (Val × Meta)) : List (Val × Meta) :=
  xs.filterMap (fun p => match f.eval p.1 with | .ok y => some (y, p.2) | .error _ => none)

theorem map_sem (f : Fn) (s : NState) (arrivals : List Arr) :
    localRun (.map f) s arrivals = (s, mapSpec f (pays arrivals)) := by
  rw [localRun_stateless (.map f) _ (fun s a => stepLoc_map f s a)]
  congr 1
  induction arrivals with
  | nil => rfl
  | cons a as ih =>
    simp only [List.flatMap_cons, ih, mapSpec, pays_cons, List.filterMap_cons]
    cases f.eval a.2.1 <;> simp

/-- No failing element: the outputs are literally `List.map`. -/
theorem map_sem_total (f : Fn) (g : Val → Val) (s : NState) (arrivals : List Arr)
    (hg : ∀ a ∈ arrivals, f.eval a.2.1 = .ok (g a.2.1)) :
    (localRun (.map f) s arrivals).2 = (pays arrivals).map (fun p => (g p.1, p.2)) := by
  rw [map_sem]
  simp only [mapSpec]
  induction arrivals with
  | nil => rfl
  | cons a as ih =>
    have h1 := hg a (by simp)
    simp only [pays_cons, List.filterMap_cons, h1, List.map_cons]
    rw [ih (fun b hb => hg b (by simp [hb]))]

/-! ## 1b. starmap — "Apply a function to every element in the stream, splayed out" (core.py 839-886) -/

/-- `f(*x)`: like `map` on the tuple arrivals; a non-tuple arrival raises `TypeError` and is skipped -/
def starmapSpec (f : Fn) (xs : List (Val × Meta)) : List (Val × Meta) :=
  mapSpec f (xs.filter (fun p => isTup p.1))

theorem starmap_sem (f : Fn) (s : NState) (arrivals : List Arr) :
    localRun (.starmap f) s arrivals = (s, starmapSpec f (pays arrivals)) := by
  rw [localRun_stateless (.starmap f) _ (fun s a => stepLoc_starmap f s a)]
  congr 1
  induction arrivals with
  | nil => rfl
  | cons a as ih =>
    simp only [starmapSpec, mapSpec] at ih ⊢
    simp only [List.flatMap_cons, ih, pays_cons, List.filter_cons]
    cases isTup a.2.1 with
    | false => simp
    | true =>
      simp only [if_true, List.filterMap_cons]
      cases f.eval a.2.1 <;> simp

/-! ## 2. filter — "Only pass through elements that satisfy the predicate" (core.py 889-927) -/

/-- the elements whose predicate value is truthy, in order (a raising predicate skips the element) -/
def filterSpec (p : Fn) (xs : List (Val × Meta)) : List (Val × Meta) :=
  xs.filter (fun q => match p.eval q.1 with | .ok b => b.truthy | .error _ => false)

theorem filter_sem (p : Fn) (s : NState) (arrivals : List Arr) :
    localRun (.filter p) s arrivals = (s, filterSpec p (pays arrivals)) := by
  rw [localRun_stateless (.filter p) _ (fun s a => stepLoc_filter p s a)]
  congr 1
  induction arrivals with
  | nil => rfl
  | cons a as ih =>
    simp only [List.flatMap_cons, ih, filterSpec, pays_cons, List.filter_cons]
    cases p.eval a.2.1 with
    | error e => simp
    | ok b => cases hb : b.truthy <;> simp [hb]

/-! ## 8a. union / source — identity (core.py 1861-1878, `Stream.update`) -/

theorem union_sem (s : NState) (arrivals : List Arr) :
    localRun .union s arrivals = (s, pays arrivals) := by
  rw [localRun_stateless .union _ stepLoc_union]
  simp [pays, flatMap_singleton_map]

theorem source_sem (s : NState) (arrivals : List Arr) :
    localRun .source s arrivals = (s, pays arrivals) := by
  rw [localRun_stateless .source _ stepLoc_source]
  simp [pays, flatMap_singleton_map]

/-! ## 8b. flatten — "Flatten streams of lists or iterables into a stream of elements" (core.py 1751-1791) -/

/-- Every element of every arrival, in order (`elemsOf`: the items of a tuple / list, the characters of a
string; a non-iterable arrival raises and is skipped).  The arrival's metadata travels with its last element,
the other elements carry none. -/
def flattenSpec (xs : List (Val × Meta)) : List (Val × Meta) :=
  xs.flatMap (fun p =>
    (elemsOf p.1).dropLast.map (fun v => (v, [])) ++ ((elemsOf p.1).getLast?.map (fun v => (v, p.2))).toList)

theorem flatten_sem (s : NState) (arrivals : List Arr) :
    localRun .flatten s arrivals = (s, flattenSpec (pays arrivals)) := by
  rw [localRun_stateless .flatten _ stepLoc_flatten]
  congr 1
  induction arrivals with
  | nil => rfl
  | cons a as ih =>
    simp only [List.flatMap_cons, ih, flattenSpec, pays_cons]
    congr 1
    rw [← iterVal_elemsOf]
    cases iterVal a.2.1 with
    | error e => rfl
    | ok l => exact outsOf_emitAllButLast l a.2.2

/-- values only: the concatenation of the elements of each arrival -/
theorem flatten_sem_vals (s : NState) (arrivals : List Arr) :
    (localRun .flatten s arrivals).2.map Prod.fst = (pays arrivals).flatMap (fun p => elemsOf p.1) := by
  rw [flatten_sem]
  simp only [flattenSpec]
  induction arrivals with
  | nil => rfl
  | cons a as ih =>
    simp only [pays_cons, List.flatMap_cons, List.map_append, ih]
    congr 1
    have := outsOf_emitAllButLast_vals (elemsOf a.2.1) a.2.2
    rw [outsOf_emitAllButLast] at this
    simpa using this

/-! ## 8c. pluck — "Select elements from elements in the stream" (core.py 1881-1916) -/

/-- `x[i]` of every arrival (`itemAt`); arrivals where indexing raises are skipped -/
def pluckSpec (i : Nat) (xs : List (Val × Meta)) : List (Val × Meta) :=
  xs.filterMap (fun p => (itemAt p.1 i).map (fun v => (v, p.2)))

/-- `tuple(x[i] for i in idxs)` of every arrival -/
def pluckListSpec (idxs : List Nat) (xs : List (Val × Meta)) : List (Val × Meta) :=
  xs.filterMap (fun p => (itemsAt p.1 idxs).map (fun vs => (.tup vs, p.2)))

theorem pluck_sem (i : Nat) (s : NState) (arrivals : List Arr) :
    localRun (.pluck (.idx i)) s arrivals = (s, pluckSpec i (pays arrivals)) := by
  rw [localRun_stateless _ _ (fun s a => stepLoc_pluck_idx i s a)]
  congr 1
  induction arrivals with
  | nil => rfl
  | cons a as ih =>
    simp only [List.flatMap_cons, ih, pluckSpec, pays_cons, List.filterMap_cons, ← pluckOne_itemAt]
    cases pluckOne a.2.1 i <;> simp

theorem pluck_list_sem (idxs : List Nat) (s : NState) (arrivals : List Arr) :
    localRun (.pluck (.idxs idxs)) s arrivals = (s, pluckListSpec idxs (pays arrivals)) := by
  rw [localRun_stateless _ _ (fun s a => stepLoc_pluck_idxs idxs s a)]
  congr 1
  induction arrivals with
  | nil => rfl
  | cons a as ih =>
    simp only [List.flatMap_cons, ih, pluckListSpec, pays_cons, List.filterMap_cons, ← mapM_pluckOne_itemsAt]
    cases List.mapM (pluckOne a.2.1) idxs <;> simp

/-! ## 4. slice — "Get only some events in a stream by position. Works like list[] syntax" (core.py 1030-1077) -/

/-- `xs[start:stop:step]`: the `k`-th element is selected iff `start ≤ k`, `(k - start) % step = 0` and
`k < stop`; `stop = None` and `stop = 0` (falsy in `_check_end`) mean "no end" (`sliceCond`). -/
def sliceSpec (start : Nat) (stop : Option Nat) (step : Nat) (xs : List α) : List α :=
  (xs.zipIdx.filter (fun p => sliceCond start stop step p.2)).map Prod.fst

/-- The body of `slice.update` never looks at `end`: over whatever arrives, the node passes on the positions
`start, start+step, ...`. -/
theorem slice_sem_received (start : Nat) (stop : Option Nat) (step : Nat) (s : NState) (hs : s.cnt = 0)
    (arrivals : List Arr) :
    localRun (.slice start stop step) s arrivals =
      ({ s with cnt := arrivals.length }, sliceSpec start none step (pays arrivals)) := by
  have key : ∀ (xs : List Arr) (t : NState),
      localRun (.slice start stop step) t xs =
        ({ t with cnt := t.cnt + xs.length }, sliceFrom start none step t.cnt (pays xs)) := by
    intro xs
    induction xs with
    | nil => intro t; rfl
    | cons a as ih =>
      intro t
      rw [localRun_cons, stepLoc_slice, ih]
      simp only [pays_cons, sliceFrom, sliceCond, List.length_cons]
      refine Prod.ext ?_ ?_
      · simp only [Nat.add_assoc, Nat.add_comm 1]
      · simp only [Bool.and_true, Bool.and_eq_true, decide_eq_true_eq]
  rw [key, hs, sliceSpec, sliceFrom_eq_zipIdx]
  simp

/-- `_check_end`: the update for the arrival with index `k` (counting from 0) detaches the node from its
upstreams iff `end` is set, non-zero, and `k + 1 ≥ end`. -/
theorem slice_detaches (start : Nat) (stop : Option Nat) (step : Nat) (s : NState) (hs : s.cnt = 0)
    (before : List Arr) (who : NodeId) (x : Val) (md : Meta) :
    Eff.detach ∈ (upd (.slice start stop step) (localRun (.slice start stop step) s before).1 who x md).effs ↔
      ∃ e, stop = some e ∧ e ≠ 0 ∧ e ≤ before.length + 1 := by
  rw [slice_detach_iff, slice_sem_received start stop step s hs]

/-- What can arrive at a slice node that starts with counter 0: everything if there is no end, the first
`end` elements otherwise (the node has detached itself after that, `slice_detaches`). -/
def sliceReceives (stop : Option Nat) (arrivals : List Arr) : List Arr :=
  match stop with
  | none => arrivals
  | some e => if e = 0 then arrivals else arrivals.take e

/-- `slice(start, stop, step)` over a stream = `list[start:stop:step]` of that stream. -/
theorem slice_sem (start : Nat) (stop : Option Nat) (step : Nat) (s : NState) (hs : s.cnt = 0)
    (arrivals : List Arr) :
    (localRun (.slice start stop step) s (sliceReceives stop arrivals)).2 =
      sliceSpec start stop step (pays arrivals) := by
  rw [slice_sem_received start stop step s hs]
  simp only [sliceSpec, ← sliceFrom_eq_zipIdx]
  cases stop with
  | none => rfl
  | some e =>
    by_cases he : e = 0
    · subst he
      simp only [sliceReceives, if_true]
      exact (sliceFrom_stop_zero start step 0 _).symm
    · simp only [sliceReceives, he, if_false]
      have := sliceFrom_take start e step he 0 (by omega) (pays arrivals)
      simpa [pays, List.map_take] using this

/-! ## 3. accumulate — "running or cumulative reductions, applying the function to the previous total and
the new element" (core.py 929-1026) -/

/-- `accumulate(func, start, returns_state, with_state)` as a list function.  With `start` the fold begins
there; without, the first element is emitted as is and becomes the state.  `scanFrom` is the running fold
(`accApply` = one call of `func`, unpacked into (state, result) when `returns_state`). -/
def accSpec (f : Fn2) (start : Option Val) (rs ws : Bool) (xs : List (Val × Meta)) : List (Val × Meta) :=
  match start, xs with
  | some st, xs => scanFrom f rs ws st xs
  | none, [] => []
  | none, (x, md) :: xs => ((if ws then .tup [x, x] else x), md) :: scanFrom f rs ws x xs

/-- All four `returns_state` / `with_state` combinations, with or without `start` (the node's initial
`state` attribute is `start`). -/
theorem accumulate_sem (f : Fn2) (start : Option Val) (rs ws : Bool) (s : NState) (hs : s.acc = start)
    (arrivals : List Arr) :
    (localRun (.accumulate f start rs ws) s arrivals).2 = accSpec f start rs ws (pays arrivals) := by
  cases start with
  | some st => rw [localRun_accumulate_some f _ rs ws arrivals s st hs]; rfl
  | none =>
    cases arrivals with
    | nil => rfl
    | cons a as =>
      obtain ⟨who, x, md⟩ := a
      rw [localRun_cons, stepLoc_accumulate]
      simp only [hs, pays_cons, accSpec]
      rw [localRun_accumulate_some f _ rs ws as _ x rfl]
      rfl

/-- Scan form, with `start`: if on the data the function does not raise — `accApply f rs st x = some (gs st x, gr st x)`
along the run, `P` being any invariant of the state that guarantees it — then the `j`-th output is
`gr S_j x_j` (paired with the new state `gs S_j x_j` when `with_state`), where `S_j = foldl gs start (x_0 .. x_{j-1})`.
For `returns_state = False`, `gs = gr` and the `j`-th output is `foldl g start (x_0 .. x_j)`: a running fold. -/
theorem accumulate_running_fold (f : Fn2) (st0 : Val) (rs ws : Bool) (gs gr : Val → Val → Val) (P : Val → Prop)
    (s : NState) (hs : s.acc = some st0) (arrivals : List Arr) (h0 : P st0)
    (hP : ∀ st x, P st → x ∈ (pays arrivals).map Prod.fst →
            accApply f rs st x = some (gs st x, gr st x) ∧ P (gs st x)) :
    (localRun (.accumulate f (some st0) rs ws) s arrivals).2.map Prod.fst =
        runningFold gs gr ws st0 ((pays arrivals).map Prod.fst) ∧
      (localRun (.accumulate f (some st0) rs ws) s arrivals).1.acc =
        some (((pays arrivals).map Prod.fst).foldl gs st0) := by
  rw [localRun_accumulate_some f _ rs ws arrivals s st0 hs]
  have := scanFrom_pure f rs ws gs gr P (pays arrivals) hP st0 h0
  exact ⟨this.1, by simp [this.2]⟩

/-- Scan form, without `start`: the first element is emitted unchanged and seeds the fold over the rest. -/
theorem accumulate_running_fold_nostart (f : Fn2) (rs ws : Bool) (gs gr : Val → Val → Val) (P : Val → Prop)
    (s : NState) (hs : s.acc = none) (a : Arr) (arrivals : List Arr) (h0 : P a.2.1)
    (hP : ∀ st x, P st → x ∈ (pays arrivals).map Prod.fst →
            accApply f rs st x = some (gs st x, gr st x) ∧ P (gs st x)) :
    (localRun (.accumulate f none rs ws) s (a :: arrivals)).2.map Prod.fst =
      (if ws then .tup [a.2.1, a.2.1] else a.2.1) ::
        runningFold gs gr ws a.2.1 ((pays arrivals).map Prod.fst) := by
  rw [accumulate_sem f none rs ws s hs]
  obtain ⟨who, x, md⟩ := a
  simp only [pays_cons, accSpec, List.map_cons]
  rw [(scanFrom_pure f rs ws gs gr P (pays arrivals) hP x h0).1]

/-! ## 5. partition (no key) — "Partition stream into tuples of equal size" (core.py 1081-1167) -/

/-- Without key the outputs are the consecutive chunks of exactly `n` arrivals, in order
(`chunksSpec`: chunk `j` = `xs[j*n : (j+1)*n]` for `j < len / n`), each emitted as a tuple with the
concatenated metadata (`tupOf`); the fewer than `n` arrivals after the last full chunk (`leftoverSpec`) are
what the node still holds. -/
theorem partition_sem (n : Nat) (s : NState) (hs : s.items = []) (arrivals : List Arr) :
    localRun (.partition n none) s arrivals =
      ({ s with items := noKey (leftoverSpec n (pays arrivals)) },
        (chunksSpec n (pays arrivals)).map tupOf) := by
  by_cases hn : n = 0
  · simpa using localRun_partition_noKey n arrivals [] s (by simpa using hs) (Or.inr hn)
  · simpa using localRun_partition_noKey n arrivals [] s (by simpa using hs) (Or.inl (by simp; omega))

/-- nothing lost, nothing duplicated, nothing reordered: chunks followed by the leftover are the arrivals -/
theorem partition_conserves (n : Nat) (xs : List α) :
    (chunksSpec n xs).flatten ++ leftoverSpec n xs = xs := by
  by_cases hn : n = 0
  · rw [chunksSpec_short n xs (Or.inr hn), leftoverSpec_short n xs (Or.inr hn)]; rfl
  · have key : ∀ m (ys : List α), ys.length ≤ m → (chunksSpec n ys).flatten ++ leftoverSpec n ys = ys := by
      intro m
      induction m with
      | zero =>
        intro ys hy
        rw [chunksSpec_short n ys (Or.inl (by omega)), leftoverSpec_short n ys (Or.inl (by omega))]; rfl
      | succ m ih =>
        intro ys hy
        by_cases hlt : ys.length < n
        · rw [chunksSpec_short n ys (Or.inl hlt), leftoverSpec_short n ys (Or.inl hlt)]; rfl
        · rw [chunksSpec_step n ys (by omega) (by omega), leftoverSpec_step n ys (by omega) (by omega),
            List.flatten_cons, List.append_assoc, ih (ys.drop n) (by simp; omega), List.take_append_drop]
    exact key xs.length xs (Nat.le_refl _)

/-- every chunk has exactly `n` elements and fewer than `n` are held back -/
theorem partition_chunk_sizes (n : Nat) (hn : 0 < n) (xs : List α) :
    (∀ c ∈ chunksSpec n xs, c.length = n) ∧ (leftoverSpec n xs).length < n := by
  constructor
  · intro c hc
    simp only [chunksSpec, List.mem_map, List.mem_range] at hc
    obtain ⟨j, hj, rfl⟩ := hc
    have : (j + 1) * n ≤ xs.length := by
      calc (j + 1) * n ≤ (xs.length / n) * n := Nat.mul_le_mul_right n hj
        _ ≤ xs.length := Nat.div_mul_le_self _ _
    rw [Nat.succ_mul] at this
    simp [List.length_take, List.length_drop]; omega
  · simp only [leftoverSpec, List.length_drop]
    have := Nat.mod_lt xs.length hn
    have h2 := Nat.div_add_mod xs.length n
    rw [Nat.mul_comm] at h2
    omega

/-! ## 5b. partition with a key — "Emit items with the same key together as a separate partition" -/

/-- what a keyed partition still holds for a key whose elements so far are `l`: the last `len % n` -/
def pendingOf (n : Nat) (l : List α) : List α := lastN (l.length % n) l

/-- For the arrival `p` with key `k` after the earlier arrivals `h` (`sameKey kf k l` = the elements of `l`
with key `k`; the theorem uses `kf = partKey key`: the key function's value, which must be hashable): if `p` is the `c`-th element with key `k` and `n` divides `c`, the tuple of the last `n`
elements with that key is emitted (= the `c/n`-th chunk of the key's own subsequence); otherwise nothing.
Chunks therefore come out per key, each of exactly `n`, in the order in which they are completed.  Arrivals
whose key function raises, or returns an unhashable key, are skipped. -/
def partitionKeyedOut (n : Nat) (kf : Val → Option Val) (h : List (Val × Meta)) (p : Val × Meta) : List (Val × Meta) :=
  match kf p.1 with
  | none => []
  | some k =>
    if (sameKey kf k (h ++ [p])).length % n = 0 then [tupOf (lastN n (sameKey kf k (h ++ [p])))] else []

def partitionKeyedSpec (n : Nat) (kf : Val → Option Val) (xs : List (Val × Meta)) : List (Val × Meta) :=
  histRun (partitionKeyedOut n kf) [] xs

theorem partition_keyed_sem (n : Nat) (key : Fn) (s : NState) (hs : s.items = []) (arrivals : List Arr) :
    (localRun (.partition n (some key)) s arrivals).2 = partitionKeyedSpec n (partKey key) (pays arrivals) ∧
    ∀ k, (localRun (.partition n (some key)) s arrivals).1.items.filter (fun it => it.1 = k) =
      (pendingOf n (sameKey (partKey key) k (pays arrivals))).map (fun p => (k, p.1, p.2)) := by
  have h := localRun_hist (.partition n (some key)) id
    (fun h s => ∀ k, s.items.filter (fun it => it.1 = k) =
      (pendingOf n (sameKey (partKey key) k (h.map (fun a : Arr => a.2)))).map (fun p => (k, p.1, p.2)))
    (fun h a => partitionKeyedOut n (partKey key) (h.map (fun a : Arr => a.2)) ((fun a : Arr => a.2) a))
    (by
      intro h s a hinv
      rw [stepLoc_partition_keyed]
      cases hk : partKey key a.2.1 with
      | none =>
        refine ⟨?_, by simp [partitionKeyedOut, hk]⟩
        intro k
        have : sameKey (partKey key) k ((h ++ [a]).map (fun a : Arr => a.2)) = sameKey (partKey key) k (h.map (fun a : Arr => a.2)) := by
          simp [sameKey, List.filter_append, hk]
        rw [this]; exact hinv k
      | some ky =>
        simp only
        have hsame : sameKey (partKey key) ky ((h ++ [a]).map (fun a : Arr => a.2)) =
            sameKey (partKey key) ky (h.map (fun a : Arr => a.2)) ++ [a.2] := by
          simp [sameKey, List.filter_append, hk]
        have hother : ∀ k, k ≠ ky →
            (s.items ++ [(ky, a.2.1, a.2.2)]).filter (fun it => it.1 = k) = s.items.filter (fun it => it.1 = k) ∧
            sameKey (partKey key) k ((h ++ [a]).map (fun a : Arr => a.2)) = sameKey (partKey key) k (h.map (fun a : Arr => a.2)) := by
          intro k hne
          have hne' : ¬ ky = k := fun h => hne h.symm
          simp [sameKey, List.filter_append, hk, hne']
        generalize hso : sameKey (partKey key) ky (h.map (fun a : Arr => a.2)) = sameOld at hsame
        have hsame' : sameKey (partKey key) ky (h.map (fun a : Arr => a.2) ++ [a.2]) = sameOld ++ [a.2] := by
          simpa using hsame
        have hmine : (s.items ++ [(ky, a.2.1, a.2.2)]).filter (fun it => it.1 = ky) =
            (lastN (sameOld.length % n) sameOld ++ [a.2]).map (fun p => (ky, p.1, p.2)) := by
          rw [List.filter_append, hinv ky, hso]
          simp [pendingOf]
        have hlen : ((s.items ++ [(ky, a.2.1, a.2.2)]).filter (fun it => it.1 = ky)).length = sameOld.length % n + 1 := by
          rw [hmine]
          have : sameOld.length % n ≤ sameOld.length := Nat.mod_le _ _
          simp [lastN_length]; omega
        have hle : sameOld.length % n ≤ sameOld.length := Nat.mod_le _ _
        have hsnoc := lastN_snoc_succ (sameOld.length % n) sameOld a.2 hle
        -- the invariant for the other keys, whichever branch is taken
        have hinvOther : ∀ (L : List (Val × Val × Meta)), 
            (∀ k, k ≠ ky → L.filter (fun it => it.1 = k) = (s.items ++ [(ky, a.2.1, a.2.2)]).filter (fun it => it.1 = k)) →
            ∀ k, k ≠ ky → L.filter (fun it => it.1 = k) =
              (pendingOf n (sameKey (partKey key) k ((h ++ [a]).map (fun a : Arr => a.2)))).map (fun p => (k, p.1, p.2)) := by
          intro L hL k hne
          rw [hL k hne, (hother k hne).1, (hother k hne).2]; exact hinv k
        rw [hlen]
        by_cases hn : n = 0
        · subst hn
          have hne : ¬ sameOld.length % 0 + 1 = 0 := by omega
          rw [if_neg hne]
          refine ⟨?_, ?_⟩
          · intro k
            by_cases hkk : k = ky
            · subst hkk
              rw [hmine, hsame, pendingOf, hsnoc]
              simp
            · exact hinvOther _ (fun _ _ => rfl) k hkk
          · simp [partitionKeyedOut, hk, hsame']
        · rcases succ_mod_cases sameOld.length n (by omega) with ⟨h1, h2⟩ | ⟨h1, h2⟩
          · rw [if_pos h1]
            refine ⟨?_, ?_⟩
            · intro k
              by_cases hkk : k = ky
              · subst hkk
                rw [filter_ne_filter_eq_nil, hsame, pendingOf, List.length_append, List.length_singleton, h2,
                  lastN_zero]
                rfl
              · exact hinvOther _ (fun k' hk' => filter_filter_ne_eq _ k' ky hk') k hkk
            · have hl : lastN n (sameOld ++ [a.2]) = lastN (sameOld.length % n) sameOld ++ [a.2] := by
                rw [hsnoc, h1]
              simp only [partitionKeyedOut, hk, hsame', List.length_append, List.length_singleton, h2, if_true,
                List.map_id, hmine, hl, tupOf]
              simp [Function.comp_def]
          · have hne : ¬ sameOld.length % n + 1 = n := by omega
            rw [if_neg hne]
            refine ⟨?_, ?_⟩
            · intro k
              by_cases hkk : k = ky
              · subst hkk
                rw [hmine, hsame, pendingOf, hsnoc]
                simp [h2]
              · exact hinvOther _ (fun _ _ => rfl) k hkk
            · have : ¬ sameOld.length % n + 1 = 0 := by omega
              simp [partitionKeyedOut, hk, hsame', h2])
    [] s arrivals (by intro k; simp [hs, pendingOf, sameKey, lastN])
  rw [List.map_id] at h
  refine ⟨?_, ?_⟩
  · rw [h.2, partitionKeyedSpec]
    exact histRun_map (fun a : Arr => a.2) (partitionKeyedOut n (partKey key)) [] arrivals
  · intro k; simpa [pays] using h.1 k


/-! ## 5c. partition_unique — "Partition stream elements into groups of equal size with unique keys only ...
keep: first / last ... relative ordering of elements is preserved" (core.py 1171-1273) -/

/-- `puSpecFrom n keepLast kf seg xs` (Proofs/NodeSem.lean): `seg` = the arrivals since the last emission;
each arrival is appended to it, and as soon as the group contains `n` distinct keys it is emitted as one tuple
holding one element per key — `firstPerKey` (elements whose key did not occur earlier in the group) for
`keep="first"`, `lastPerKey` (elements whose key does not occur later in the group) for `keep="last"` — in
element order; then a new group starts.  Arrivals whose key raises or is unhashable are skipped. -/
theorem partitionUnique_sem (n : Nat) (key : Fn) (keepLast : Bool) (s : NState) (hs : s.items = [])
    (arrivals : List Arr) :
    (localRun (.partitionUnique n key keepLast) s arrivals).2 =
      puSpecFrom n keepLast (partKey key) [] (pays arrivals) :=
  localRun_partitionUnique n key keepLast arrivals [] s (by simp)
    (by cases keepLast <;> simp [hs, onePerKey, lastPerKey, firstPerKey, histRun])

/-! ## 6. sliding_window — "Produce overlapping tuples of size n" (core.py 1277-1323) -/

/-- For every arrival `x` with earlier arrivals `h`: the window of the last `n` arrivals up to and including
`x` (`lastN n (h ++ [x])`, i.e. `min (j+1) n` elements for the `j`-th arrival), emitted always when
`return_partial`, otherwise only once `n` arrivals have been seen.  (`histRun out [] xs` concatenates
`out (first j elements) (j-th element)` over all `j`, see `histRun_index`.) -/
def windowsSpec (n : Nat) (part : Bool) (xs : List Val) : List Val :=
  histRun (fun h x => if part ∨ n ≤ h.length + 1 then [.tup (lastN n (h ++ [x]))] else []) [] xs

/-- how to read `histRun`: position by position -/
theorem histRun_index {α β : Type} (out : List α → α → List β) (xs : List α) :
    histRun out [] xs =
      (List.range xs.length).flatMap (fun j => (xs[j]?.map (out (xs.take j))).getD []) := by
  rw [histRun_index_aux]
  simp only [List.nil_append]

theorem slidingWindow_sem (n : Nat) (part : Bool) (s : NState) (hs : s.win = []) (arrivals : List Arr) :
    (localRun (.slidingWindow n part) s arrivals).2.map Prod.fst =
      windowsSpec n part ((pays arrivals).map Prod.fst) := by
  have h := (localRun_hist (.slidingWindow n part) Prod.fst
    (fun h s => s.win = lastN n (h.map (·.2.1)))
    (fun h a => (fun (h : List Val) (x : Val) => if part ∨ n ≤ h.length + 1 then [Val.tup (lastN n (h ++ [x]))] else [])
      (h.map (fun a : Arr => a.2.1)) ((fun a : Arr => a.2.1) a))
    (by
      intro h s a hinv
      refine ⟨?_, ?_⟩
      · simp only [stepLoc_slidingWindow_win, hinv, lastN_lastN_snoc, List.map_append, List.map_cons, List.map_nil]
      · rw [stepLoc_slidingWindow_vals, hinv, lastN_lastN_snoc]
        have : (lastN n (h.map (·.2.1) ++ [a.2.1])).length = n ↔ n ≤ (h.map (·.2.1)).length + 1 := by
          rw [lastN_length]; simp; omega
        simp only [this])
    [] s arrivals (by simp [hs, lastN])).2
  have e : (pays arrivals).map Prod.fst = arrivals.map (fun a : Arr => a.2.1) := by simp [pays]
  rw [h, windowsSpec, e]
  exact histRun_map (fun a : Arr => a.2.1)
    (fun h x => if part ∨ n ≤ h.length + 1 then [Val.tup (lastN n (h ++ [x]))] else []) [] arrivals

/-! ## 7. unique (unbounded history) — "Avoid sending through repeated elements" (core.py 1795-1857) -/

/-- An arrival passes iff its key is different from the keys of all earlier arrivals: first occurrence of
each key, in order.  `kf x = none` means the update raises (element skipped); the theorem uses
`kf = uniqKey key hashable`: the key function's value, which in hashable mode must be hashable. -/
def uniqueSpec (kf : Val → Option Val) (xs : List (Val × Meta)) : List (Val × Meta) :=
  histRun (fun h p =>
    if (kf p.1).isSome ∧ kf p.1 ∉ h.map (fun q => kf q.1) then [p] else []) [] xs

/-- `maxsize=None` (and `maxsize=0`, falsy), hashable or not. -/
theorem unique_sem (ms : Option Nat) (hms : effCap ms = none) (key : Fn) (hb : Bool) (s : NState)
    (hs : s.seen = []) (arrivals : List Arr) :
    (localRun (.unique ms key hb) s arrivals).2 = uniqueSpec (uniqKey key hb) (pays arrivals) := by
  have h := (localRun_hist (.unique ms key hb) id
    (fun h s => ∀ y, y ∈ s.seen ↔ some y ∈ h.map (fun a => uniqKey key hb a.2.1))
    (fun h a => (fun (h : List (Val × Meta)) (p : Val × Meta) =>
        if (uniqKey key hb p.1).isSome ∧ uniqKey key hb p.1 ∉ h.map (fun q => uniqKey key hb q.1) then [p] else [])
      (h.map (fun a : Arr => a.2)) ((fun a : Arr => a.2) a))
    (by
      intro h s a hinv
      rw [stepLoc_unique, hms]
      cases hk : uniqKey key hb a.2.1 with
      | none =>
        simp only [List.map_append, List.map_cons, List.map_nil, hk, List.mem_append, List.mem_singleton,
          Option.isSome_none]
        exact ⟨fun y => by simpa using hinv y, by simp⟩
      | some y =>
        simp only [List.map_append, List.map_cons, List.map_nil, hk, List.mem_append, List.mem_singleton,
          Option.isSome_some, List.map_id, List.contains_iff_mem]
        refine ⟨fun z => ?_, ?_⟩
        · rw [mem_lruTouch_none, hinv z]
          simp only [Option.some.injEq]
          exact Or.comm
        · have hiff : some y ∈ List.map (fun q : Val × Meta => uniqKey key hb q.1) (List.map (fun a : Arr => a.2) h) ↔
              y ∈ s.seen := by
            rw [hinv y, List.map_map]; rfl
          simp only [hiff, true_and]
          by_cases hmem : y ∈ s.seen <;> simp [hmem])
    [] s arrivals (by simp [hs])).2
  rw [List.map_id] at h
  rw [h, uniqueSpec]
  exact histRun_map (fun a : Arr => a.2)
    (fun h p => if (uniqKey key hb p.1).isSome ∧ uniqKey key hb p.1 ∉ h.map (fun q => uniqKey key hb q.1) then [p] else [])
    [] arrivals

/-! ## 7b. unique with `maxsize=c` — "You can control how much of a history is stored with maxsize" -/

/- LRU specification.  `mruOf ks` = the distinct keys of the key history `ks`, most recently used first
(every arrival, passed or suppressed, counts as a use of its key); the node remembers the first `c` of them.
An arrival passes iff its key is not among the `c` most recently used distinct keys of the earlier arrivals.
The theorem also shows that the bounded cache of the implementation is exactly the truncation of the
unbounded recency order. -/

/-- the keys of a history (arrivals whose key function raises have none) -/
def keysOf (kf : Val → Option Val) (h : List (Val × Meta)) : List Val := h.filterMap (fun q => kf q.1)

/-- see the comment above: `p` passes iff its key is not among the `c` most recently used ones -/
def uniqueLruOut (c : Nat) (kf : Val → Option Val) (h : List (Val × Meta)) (p : Val × Meta) : List (Val × Meta) :=
  match kf p.1 with
  | none => []
  | some y => if y ∈ (mruOf (keysOf kf h)).take c then [] else [p]

def uniqueLruSpec (c : Nat) (kf : Val → Option Val) (xs : List (Val × Meta)) : List (Val × Meta) :=
  histRun (uniqueLruOut c kf) [] xs

theorem unique_lru_sem (c : Nat) (hc : c ≠ 0) (key : Fn) (hb : Bool) (s : NState) (hs : s.seen = [])
    (arrivals : List Arr) :
    (localRun (.unique (some c) key hb) s arrivals).2 = uniqueLruSpec c (uniqKey key hb) (pays arrivals) ∧
    (localRun (.unique (some c) key hb) s arrivals).1.seen = (mruOf (keysOf (uniqKey key hb) (pays arrivals))).take c := by
  have hcap : effCap (some c) = some c := by
    cases c with
    | zero => exact absurd rfl hc
    | succ c' => rfl
  have h := localRun_hist (.unique (some c) key hb) id
    (fun h s => s.seen = (mruOf (keysOf (uniqKey key hb) (h.map (fun a : Arr => a.2)))).take c)
    (fun h a => uniqueLruOut c (uniqKey key hb) (h.map (fun a : Arr => a.2)) ((fun a : Arr => a.2) a))
    (by
      intro h s a hinv
      rw [stepLoc_unique, hcap]
      cases hk' : uniqKey key hb a.2.1 with
      | none =>
        refine ⟨?_, by simp [uniqueLruOut, hk']⟩
        simp only [hinv, keysOf, List.map_append, List.filterMap_append, List.map_cons, List.map_nil,
          List.filterMap_cons, hk', List.filterMap_nil, List.append_nil]
      | some y =>
        refine ⟨?_, ?_⟩
        · simp only [hinv, keysOf, List.map_append, List.filterMap_append, List.map_cons, List.map_nil,
            List.filterMap_cons, hk', List.filterMap_nil, mruOf_snoc]
          exact lruTouch_take _ (dedupFirst_nodup _) y c
        · simp only [uniqueLruOut, hk', hinv, List.contains_iff_mem, List.map_id])
    [] s arrivals (by simp [hs, keysOf, mruOf, dedupFirst])
  rw [List.map_id] at h
  refine ⟨?_, by simpa [pays] using h.1⟩
  rw [h.2, uniqueLruSpec]
  exact histRun_map (fun a : Arr => a.2) (uniqueLruOut c (uniqKey key hb)) [] arrivals


/-! ## 10. collect — "Hold elements in a cache and emit them as a collection when flushed" (core.py 1920-1963) -/

/-- Events at a collect node are arrivals and external `flush()` calls.  `p` = the arrivals since the last
flush; a flush emits them as one tuple (`tupOf`: values as a tuple, metadata concatenated) and starts over. -/
def collectSpec : List (Val × Meta) → List LEv → List (Val × Meta)
  | _, [] => []
  | p, .arr a :: es => collectSpec (p ++ [a.2]) es
  | p, .flush :: es => tupOf p :: collectSpec [] es

theorem collect_sem (evs : List LEv) (p : List (Val × Meta)) (s : NState) (hs : s.items = noKey p) :
    (localRunEv .collect s evs).2 = collectSpec p evs := by
  induction evs generalizing p s with
  | nil => rfl
  | cons e es ih =>
    cases e with
    | arr a =>
      rw [localRunEv_cons]
      simp only [stepEv, stepLoc_collect, collectSpec, List.nil_append]
      exact ih (p ++ [a.2]) _ (by simp [hs, noKey])
    | flush =>
      rw [localRunEv_cons]
      simp only [stepEv, flushProg_final, flushProg_outs, collectSpec, List.singleton_append]
      rw [ih [] _ rfl, hs, noKey_vals, noKey_mds]
      rfl

/-- arrivals alone emit nothing and are appended to the cache -/
theorem collect_arrivals_held (s : NState) (arrivals : List Arr) :
    localRun .collect s arrivals = ({ s with items := s.items ++ noKey (pays arrivals) }, []) := by
  induction arrivals generalizing s with
  | nil => simp
  | cons a as ih =>
    rw [localRun_cons, stepLoc_collect, ih]
    simp [noKey, pays]

/-- The statement in the form of the property text: whatever happened before (`pre`, ending in a flush or
empty with an empty cache), a flush after the arrivals `mid` emits exactly `mid`, in order, as one tuple. -/
theorem collect_flush_emits_since_previous (s : NState) (hs : s.items = []) (pre : List LEv) (mid : List Arr) :
    (localRunEv .collect s (pre ++ [.flush] ++ mid.map .arr ++ [.flush])).2 =
      (localRunEv .collect s (pre ++ [.flush])).2 ++ [tupOf (pays mid)] ∧
    (localRunEv .collect s (mid.map .arr ++ [.flush])).2 = [tupOf (pays mid)] := by
  have tail : ∀ t : NState, t.items = [] →
      (localRunEv .collect t (mid.map .arr ++ [.flush])).2 = [tupOf (pays mid)] := by
    intro t ht
    rw [localRunEv_append, localRunEv_arrs, collect_arrivals_held]
    simp only [stepEv, flushProg_outs, ht, List.nil_append, noKey_vals, noKey_mds, localRunEv]
    rfl
  refine ⟨?_, tail s hs⟩
  have e : pre ++ [LEv.flush] ++ mid.map LEv.arr ++ [LEv.flush] =
      (pre ++ [LEv.flush]) ++ (mid.map LEv.arr ++ [LEv.flush]) := by simp
  rw [e, localRunEv_append]
  simp only
  rw [tail]
  rw [localRunEv_append]
  simp [stepEv, flushProg_final, localRunEv]

/-! ## 9. zip (two upstreams, no literals) — "Combine streams together into a stream of tuples; we emit a new
tuple once all streams have produced a new tuple" (core.py 1591-1665) -/

/-- `seqOf u arrivals` = what upstream `u` delivered, in order.  The outputs are the pairwise zip of the two
upstream sequences (truncated to the shorter), whatever the interleaving; the buffers hold exactly the
unmatched remainder of each sequence; arrivals from anyone else raise `KeyError` and are skipped. -/
theorem zip2_sem (u1 u2 : NodeId) (hne : u1 ≠ u2) (s : NState) (hups : s.ups = [u1, u2])
    (hb : s.bufs = [(u1, []), (u2, [])]) (arrivals : List Arr) :
    (localRun (.zip []) s arrivals).2 = List.zipWith zipPair (seqOf u1 arrivals) (seqOf u2 arrivals) ∧
    (localRun (.zip []) s arrivals).1.bufs =
      [(u1, (seqOf u1 arrivals).drop (min (seqOf u1 arrivals).length (seqOf u2 arrivals).length)),
       (u2, (seqOf u2 arrivals).drop (min (seqOf u1 arrivals).length (seqOf u2 arrivals).length))] := by
  have := localRun_zip2 u1 u2 hne arrivals [] [] (Or.inl rfl) s hups hb
  simpa using And.intro this.1 this.2.1

/-- values only: the `j`-th output is the tuple (j-th value from `u1`, j-th value from `u2`) -/
theorem zip2_sem_vals (u1 u2 : NodeId) (hne : u1 ≠ u2) (s : NState) (hups : s.ups = [u1, u2])
    (hb : s.bufs = [(u1, []), (u2, [])]) (arrivals : List Arr) :
    (localRun (.zip []) s arrivals).2.map Prod.fst =
      List.zipWith (fun a b => Val.tup [a, b]) ((seqOf u1 arrivals).map Prod.fst) ((seqOf u2 arrivals).map Prod.fst) := by
  rw [(zip2_sem u1 u2 hne s hups hb arrivals).1, List.map_zipWith, List.zipWith_map]
  rfl

/-- Independence of the interleaving: two arrival lists that deliver the same sequence from each upstream
(in any interleaving, with any junk from non-upstreams in between) produce the same outputs and leave the
same buffers. -/
theorem zip2_interleaving_independent (u1 u2 : NodeId) (hne : u1 ≠ u2) (s : NState) (hups : s.ups = [u1, u2])
    (hb : s.bufs = [(u1, []), (u2, [])]) (arrivals arrivals' : List Arr)
    (h1 : seqOf u1 arrivals = seqOf u1 arrivals') (h2 : seqOf u2 arrivals = seqOf u2 arrivals') :
    (localRun (.zip []) s arrivals).2 = (localRun (.zip []) s arrivals').2 ∧
    (localRun (.zip []) s arrivals).1.bufs = (localRun (.zip []) s arrivals').1.bufs := by
  have a := zip2_sem u1 u2 hne s hups hb arrivals
  have b := zip2_sem u1 u2 hne s hups hb arrivals'
  rw [a.1, a.2, b.1, b.2, h1, h2]
  exact ⟨rfl, rfl⟩

/-! ## 9b. zip with any number of upstreams and literals -/

/-- `matched ups arrivals` = the length of the shortest per-upstream sequence (`minLen`); row `j` of the
transpose is `zipRow ups arrivals j` = the `j`-th payload of every upstream, in upstream order; a row is
emitted as the tuple of its values with the literals spliced in (`packLiterals`, = `zip.pack_literals`) and
the concatenated metadata (`zipEmit`).  The outputs are the rows `0 .. matched-1`; the buffers hold each
upstream's sequence minus its first `matched` elements.  Arrivals from non-upstreams (`KeyError`) are skipped. -/
theorem zip_sem (lits : List (Nat × Val)) (ups : List NodeId) (s : NState) (hups : s.ups = ups)
    (hb : s.bufs = ups.map (fun u => (u, []))) (arrivals : List Arr) :
    (localRun (.zip lits) s arrivals).2 =
      (List.range (matched ups arrivals)).map (fun j => zipEmit lits (zipRow ups arrivals j)) ∧
    (localRun (.zip lits) s arrivals).1.bufs =
      ups.map (fun u => (u, (seqOf u arrivals).drop (matched ups arrivals))) :=
  localRun_zip lits ups s hups hb arrivals

/-- the rows are complete: below `matched` every upstream contributes, so row `j` is exactly
`ups.map (j-th payload of u)` -/
theorem zip_rows_complete (ups : List NodeId) (arrivals : List Arr) (j : Nat) (hj : j < matched ups arrivals) :
    (zipRow ups arrivals j).map some = ups.map (fun u => (seqOf u arrivals)[j]?) := by
  have hall : ∀ l : List NodeId, (∀ u ∈ l, u ∈ ups) →
      (l.filterMap (fun u => (seqOf u arrivals)[j]?)).map some = l.map (fun u => (seqOf u arrivals)[j]?) := by
    intro l
    induction l with
    | nil => intro _; rfl
    | cons a t ih =>
      intro hl
      have hlt : j < (seqOf a arrivals).length :=
        Nat.lt_of_lt_of_le hj (matched_le ups arrivals a (hl a (by simp)))
      have hget : (seqOf a arrivals)[j]? = some ((seqOf a arrivals)[j]) := List.getElem?_eq_getElem hlt
      rw [List.filterMap_cons, hget, List.map_cons, List.map_cons, hget, ih (fun u hu => hl u (by simp [hu]))]
  exact hall ups (fun _ h => h)

/-- Independence of the interleaving, any number of upstreams: two arrival lists that deliver the same
sequence from every upstream produce the same outputs and leave the same buffers. -/
theorem zip_interleaving_independent (lits : List (Nat × Val)) (ups : List NodeId) (s : NState) (hups : s.ups = ups)
    (hb : s.bufs = ups.map (fun u => (u, []))) (arrivals arrivals' : List Arr)
    (hsame : ∀ u ∈ ups, seqOf u arrivals = seqOf u arrivals') :
    (localRun (.zip lits) s arrivals).2 = (localRun (.zip lits) s arrivals').2 ∧
    (localRun (.zip lits) s arrivals).1.bufs = (localRun (.zip lits) s arrivals').1.bufs := by
  have hm : matched ups arrivals = matched ups arrivals' := by
    unfold matched
    congr 1
    apply List.map_congr_left
    intro u hu
    rw [hsame u hu]
  have hrow : ∀ j, zipRow ups arrivals j = zipRow ups arrivals' j := by
    intro j
    apply filterMap_congr_mem
    intro u hu
    rw [hsame u hu]
  have a := zip_sem lits ups s hups hb arrivals
  have b := zip_sem lits ups s hups hb arrivals'
  rw [a.1, a.2, b.1, b.2, hm]
  refine ⟨?_, ?_⟩
  · apply List.map_congr_left
    intro j _
    rw [hrow j]
  · apply List.map_congr_left
    intro u hu
    rw [hsame u hu]

/-! ## 11a. combine_latest — "emit a new tuple of all of the most recent elements seen from any stream;
emit_on: only emit upon update of the streams listed" (core.py 1669-1747) -/

/-- Sequential specification over the interleaved arrival list.  For the arrival `a = (who, x, md)` after the
earlier arrivals `h`: a tuple is emitted iff `who` is an upstream, every upstream has delivered at least once
in `h ++ [a]` (`allDelivered`), and `who ∈ emit_on`; the tuple holds the latest value of every upstream, in
upstream order (`latestVal u (h ++ [a])`), with the corresponding metadata concatenated.  Arrivals from a
non-upstream raise `ValueError` and are skipped. -/
def combineLatestSpec (ups eo : List NodeId) (xs : List Arr) : List (Val × Meta) :=
  histRun (fun h a =>
    if a.1 ∈ ups ∧ allDelivered ups (h ++ [a]) ∧ a.1 ∈ eo then
      [(.tup (ups.map (latestVal · (h ++ [a]))), flatMd (ups.map (latestMd · (h ++ [a]))))]
    else []) [] xs

theorem combineLatest_sem (e : Option (List NodeId)) (ups eo : List NodeId) (hnd : ups.Nodup) (s : NState)
    (hups : s.ups = ups) (heo : s.emitOn = eo)
    (hlast : s.last = ups.map (fun _ => Val.none)) (hmd : s.lastMd = ups.map (fun _ => []))
    (hmiss : ∀ u, u ∈ s.missing ↔ u ∈ ups) (arrivals : List Arr) :
    (localRun (.combineLatest e) s arrivals).2 = combineLatestSpec ups eo arrivals := by
  have h := (localRun_hist (.combineLatest e) id
    (fun h s => s.ups = ups ∧ s.emitOn = eo ∧ s.last = ups.map (latestVal · h) ∧
      s.lastMd = ups.map (latestMd · h) ∧ ∀ u, u ∈ s.missing ↔ (u ∈ ups ∧ latestOf u h = none))
    (fun h a =>
      if a.1 ∈ ups ∧ allDelivered ups (h ++ [a]) ∧ a.1 ∈ eo then
        [(.tup (ups.map (latestVal · (h ++ [a]))), flatMd (ups.map (latestMd · (h ++ [a]))))]
      else [])
    (by
      intro h s a ⟨i1, i2, i3, i4, i5⟩
      rw [stepLoc_combineLatest, i1]
      by_cases hw : a.1 ∈ ups
      · rw [idxOf_of_mem ups a.1 hw]
        have hv := fun u => latestVal_snoc u h a
        have hm := fun u => latestMd_snoc u h a
        have hmiss' : ∀ u, u ∈ s.missing.filter (· ≠ a.1) ↔ (u ∈ ups ∧ latestOf u (h ++ [a]) = none) := by
          intro u
          simp only [List.mem_filter, i5 u, latestOf_snoc, decide_eq_true_eq]
          by_cases hu : u = a.1
          · simp [hu]
          · simp [hu]
        have hempty : (s.missing.filter (· ≠ a.1)).isEmpty ↔ allDelivered ups (h ++ [a]) := by
          rw [List.isEmpty_iff, List.eq_nil_iff_forall_not_mem]
          constructor
          · intro hall u hu
            cases hl : latestOf u (h ++ [a]) with
            | some _ => rfl
            | none => exact absurd ((hmiss' u).mpr ⟨hu, hl⟩) (hall u)
          · intro hall u hu
            have := (hmiss' u).mp hu
            have h2 := hall u this.1
            rw [this.2] at h2
            exact absurd h2 (by simp)
        simp only [i3, i4, map_set_idxOf ups hnd, ← hv, ← hm]
        refine ⟨⟨trivial, i2, trivial, trivial, hmiss'⟩, ?_⟩
        simp only [hempty, i2, List.contains_iff_mem, hw, true_and, List.map_id]
      · rw [idxOf_of_not_mem ups a.1 hw]
        have hl : ∀ u ∈ ups, latestOf u (h ++ [a]) = latestOf u h := by
          intro u hu
          have : u ≠ a.1 := fun h => hw (h ▸ hu)
          simp [latestOf_snoc, this]
        refine ⟨⟨i1, i2, ?_, ?_, ?_⟩, by simp [hw]⟩
        · rw [i3]; apply List.map_congr_left; intro u hu; simp [latestVal, hl u hu]
        · rw [i4]; apply List.map_congr_left; intro u hu; simp [latestMd, hl u hu]
        · intro u; rw [i5 u]
          constructor
          · intro ⟨a1, a2⟩; exact ⟨a1, by rw [hl u a1]; exact a2⟩
          · intro ⟨a1, a2⟩; exact ⟨a1, by rw [← hl u a1]; exact a2⟩)
    [] s arrivals ⟨hups, heo, by simp [hlast, latestVal, latestOf, seqOf], by simp [hmd, latestMd, latestOf, seqOf],
      by intro u; simp [hmiss u, latestOf, seqOf]⟩).2
  rw [List.map_id] at h
  rw [h, combineLatestSpec]


/-- The same, one arrival at a time: what the arrival `a` adds to the outputs after the history `h`. -/
theorem combineLatest_emits_iff (e : Option (List NodeId)) (ups eo : List NodeId) (hnd : ups.Nodup) (s : NState)
    (hups : s.ups = ups) (heo : s.emitOn = eo)
    (hlast : s.last = ups.map (fun _ => Val.none)) (hmd : s.lastMd = ups.map (fun _ => []))
    (hmiss : ∀ u, u ∈ s.missing ↔ u ∈ ups) (h : List Arr) (a : Arr) :
    (localRun (.combineLatest e) s (h ++ [a])).2 =
      (localRun (.combineLatest e) s h).2 ++
        if a.1 ∈ ups ∧ allDelivered ups (h ++ [a]) ∧ a.1 ∈ eo then
          [(.tup (ups.map (latestVal · (h ++ [a]))), flatMd (ups.map (latestMd · (h ++ [a]))))]
        else [] := by
  rw [combineLatest_sem e ups eo hnd s hups heo hlast hmd hmiss, combineLatest_sem e ups eo hnd s hups heo hlast hmd hmiss,
    combineLatestSpec, histRun_snoc]
  rfl

/-! ## 11b. zip_latest — "All elements from the lossless stream are emitted ... paired with the latest
elements from the other streams" (core.py 1967-2010) -/

/-- Sequential specification (`u0` = the lossless upstream, `rest` = the others).  Nothing is emitted until
every upstream has delivered.  The arrival that completes the set releases all lossless elements received so
far (`seqOf u0 (h ++ [a])`), each paired with the latest values of the other upstreams at that moment; from
then on every lossless arrival is emitted at once with the latest of the others, and arrivals of the other
upstreams emit nothing. -/
def zipLatestSpec (u0 : NodeId) (rest : List NodeId) (xs : List Arr) : List (Val × Meta) :=
  histRun (fun h a =>
    if a.1 ∈ u0 :: rest ∧ allDelivered (u0 :: rest) (h ++ [a]) then
      (if allDelivered (u0 :: rest) h then (if a.1 = u0 then [a.2] else []) else seqOf u0 (h ++ [a])).map
        (fun p => (.tup (p.1 :: rest.map (latestVal · (h ++ [a]))), flatMd (p.2 :: rest.map (latestMd · (h ++ [a])))))
    else []) [] xs

theorem zipLatest_sem (u0 : NodeId) (rest : List NodeId) (hnd : (u0 :: rest).Nodup) (s : NState)
    (hups : s.ups = u0 :: rest)
    (hlast : s.last = (u0 :: rest).map (fun _ => Val.none)) (hmd : s.lastMd = (u0 :: rest).map (fun _ => []))
    (hmiss : ∀ u, u ∈ s.missing ↔ u ∈ u0 :: rest) (hloss : s.lossless = []) (arrivals : List Arr) :
    (localRun .zipLatest s arrivals).2 = zipLatestSpec u0 rest arrivals := by
  have h := (localRun_hist .zipLatest id
    (fun h s => s.ups = u0 :: rest ∧ s.last = (u0 :: rest).map (latestVal · h) ∧
      s.lastMd = (u0 :: rest).map (latestMd · h) ∧
      (∀ u, u ∈ s.missing ↔ (u ∈ u0 :: rest ∧ latestOf u h = none)) ∧
      s.lossless = if allDelivered (u0 :: rest) h then [] else seqOf u0 h)
    (fun h a =>
      if a.1 ∈ u0 :: rest ∧ allDelivered (u0 :: rest) (h ++ [a]) then
        (if allDelivered (u0 :: rest) h then (if a.1 = u0 then [a.2] else []) else seqOf u0 (h ++ [a])).map
          (fun p => (.tup (p.1 :: rest.map (latestVal · (h ++ [a]))), flatMd (p.2 :: rest.map (latestMd · (h ++ [a])))))
      else [])
    (by
      intro h s a ⟨i1, i3, i4, i5, i6⟩
      rw [stepLoc_zipLatest, i1]
      by_cases hw : a.1 ∈ u0 :: rest
      · rw [idxOf_of_mem _ a.1 hw]
        have hv := fun u => latestVal_snoc u h a
        have hm := fun u => latestMd_snoc u h a
        have hmiss' : ∀ u, u ∈ s.missing.filter (· ≠ a.1) ↔ (u ∈ u0 :: rest ∧ latestOf u (h ++ [a]) = none) := by
          intro u
          simp only [List.mem_filter, i5 u, latestOf_snoc, decide_eq_true_eq]
          by_cases hu : u = a.1
          · simp [hu]
          · simp [hu]
        have hempty : (s.missing.filter (· ≠ a.1)).isEmpty ↔ allDelivered (u0 :: rest) (h ++ [a]) := by
          rw [List.isEmpty_iff, List.eq_nil_iff_forall_not_mem]
          constructor
          · intro hall u hu
            cases hl : latestOf u (h ++ [a]) with
            | some _ => rfl
            | none => exact absurd ((hmiss' u).mpr ⟨hu, hl⟩) (hall u)
          · intro hall u hu
            have := (hmiss' u).mp hu
            have h2 := hall u this.1
            rw [this.2] at h2
            exact absurd h2 (by simp)
        have hidx : (List.idxOf a.1 (u0 :: rest) = 0) ↔ a.1 = u0 := by
          by_cases h0 : u0 = a.1
          · simp [h0]
          · have : (u0 == a.1) = false := by simp [h0]
            have h0' : ¬ a.1 = u0 := fun h => h0 h.symm
            simp [List.idxOf_cons, this, h0']
        -- the lossless buffer after the append
        have hbuf : (if List.idxOf a.1 (u0 :: rest) = 0 then s.lossless ++ [a.2] else s.lossless) =
            if allDelivered (u0 :: rest) h then (if a.1 = u0 then [a.2] else []) else seqOf u0 (h ++ [a]) := by
          rw [i6]
          by_cases hd : allDelivered (u0 :: rest) h
          · simp [hd, hidx]
          · by_cases h0 : a.1 = u0
            · simp [hd, h0, seqOf]
            · simp [hd, hidx, h0, seqOf]
        have hlastL : ∀ p, (if allDelivered (u0 :: rest) h then (if a.1 = u0 then [a.2] else [])
            else seqOf u0 (h ++ [a])).getLast? = some p → latestOf u0 (h ++ [a]) = some p := by
          intro p
          by_cases hd : allDelivered (u0 :: rest) h
          · by_cases h0 : a.1 = u0
            · simp [hd, h0, latestOf_snoc]
            · simp [hd, h0]
          · simp only [hd, if_false, latestOf]; exact id
        simp only [hbuf, i3, i4, map_set_idxOf _ hnd, ← hv, ← hm, hempty]
        by_cases hd' : allDelivered (u0 :: rest) (h ++ [a])
        · simp only [hd', if_true, hw, and_self, outsOf_drain, finalLoc_drain, List.map_id]
          refine ⟨?_, ?_⟩
          · cases hgl : (if allDelivered (u0 :: rest) h then (if a.1 = u0 then [a.2] else [])
              else seqOf u0 (h ++ [a])).getLast? with
            | none =>
              refine ⟨rfl, rfl, rfl, hmiss', ?_⟩
              exact List.getLast?_eq_none_iff.mp hgl
            | some p =>
              have hp := hlastL p hgl
              refine ⟨rfl, ?_, ?_, hmiss', rfl⟩
              · simp [latestVal, hp]
              · simp [latestMd, hp]
          · simp
        · have hd : ¬ allDelivered (u0 :: rest) h := fun hd => hd' (allDelivered_mono _ h a hd)
          simp only [hd', if_false, hd, and_false, List.map_nil]
          exact ⟨⟨trivial, trivial, trivial, hmiss', trivial⟩, trivial⟩
      · rw [idxOf_of_not_mem _ a.1 hw]
        have hl : ∀ u ∈ u0 :: rest, latestOf u (h ++ [a]) = latestOf u h := by
          intro u hu
          have : u ≠ a.1 := fun h => hw (h ▸ hu)
          simp [latestOf_snoc, this]
        have hall : allDelivered (u0 :: rest) (h ++ [a]) ↔ allDelivered (u0 :: rest) h := by
          constructor
          · intro hd u hu; rw [← hl u hu]; exact hd u hu
          · intro hd u hu; rw [hl u hu]; exact hd u hu
        have hseq : seqOf u0 (h ++ [a]) = seqOf u0 h := by
          have : a.1 ≠ u0 := fun h => hw (by simp [h])
          simp [seqOf, this]
        refine ⟨⟨i1, ?_, ?_, ?_, ?_⟩, by simp [hw]⟩
        · rw [i3]; apply List.map_congr_left; intro u hu; simp [latestVal, hl u hu]
        · rw [i4]; apply List.map_congr_left; intro u hu; simp [latestMd, hl u hu]
        · intro u; rw [i5 u]
          constructor
          · intro ⟨a1, a2⟩; exact ⟨a1, by rw [hl u a1]; exact a2⟩
          · intro ⟨a1, a2⟩; exact ⟨a1, by rw [← hl u a1]; exact a2⟩
        · rw [i6]; simp only [hall, hseq])
    [] s arrivals ⟨hups, by simp [hlast, latestVal, latestOf, seqOf], by simp [hmd, latestMd, latestOf, seqOf],
      by intro u; simp [hmiss u, latestOf, seqOf], by simp [hloss, seqOf]⟩).2
  rw [List.map_id] at h
  rw [h, zipLatestSpec]


/-! ## Non-vacuity: concrete runs (evaluated by `decide`) agree with the specifications -/

/-- integer arrivals from upstream 0 without metadata -/
def intsFrom (u : NodeId) (l : List Int) : List Arr := l.map (fun i => (u, Val.int i, []))
/-- the same with a distinct metadata entry per element (tag = position) -/
def intsMd (l : List Int) : List Arr := l.zipIdx.map (fun p => (0, Val.int p.1, [{ tag := p.2, ref := some p.2 }]))
def vals (r : NState × List (Val × Meta)) : List Val := r.2.map Prod.fst
def is (l : List Int) : List Val := l.map Val.int

example : vals (localRun (.map .inc) {} (intsFrom 0 [1, 2] ++ [(0, .str "x", [])] ++ intsFrom 0 [5])) = is [2, 3, 6] := by decide
example : (localRun (.map .dbl) {} (intsMd [3, 4])).2 = [(.int 6, [⟨0, some 0⟩]), (.int 8, [⟨1, some 1⟩])] := by decide
example : ∀ a ∈ intsFrom 0 [1, 2, 3], Fn.inc.eval a.2.1 = .ok ((fun v => match v with | .int i => .int (i + 1) | v => v) a.2.1) := by
  intro a ha; simp [intsFrom] at ha; rcases ha with rfl | rfl | rfl <;> rfl
example : vals (localRun (.starmap .sumTup) {} [(0, .tup [.int 1, .int 2], []), (0, .int 3, []), (0, .tup [], [])]) = is [3, 0] := by decide
example : vals (localRun (.filter .isEven) {} (intsFrom 0 [0, 1, 2, 3, 4])) = is [0, 2, 4] := by decide
example : vals (localRun .flatten {} [(0, .lst (is [1, 2, 3]), []), (0, .tup [], []), (0, .int 9, []), (0, .str "ab", [])]) =
    is [1, 2, 3] ++ [.str "a", .str "b"] := by decide
example : (localRun .flatten {} [(0, .lst (is [1, 2]), [⟨7, none⟩])]).2 = [(.int 1, []), (.int 2, [⟨7, none⟩])] := by decide
example : vals (localRun (.pluck (.idx 1)) {} [(0, .lst (is [1, 2, 3]), []), (0, .tup (is [4]), []), (0, .tup (is [5, 6]), [])]) = is [2, 6] := by decide
example : vals (localRun (.pluck (.idxs [0, 2])) {} [(0, .lst (is [1, 2, 3]), []), (0, .tup (is [4, 5]), [])]) = [.tup (is [1, 3])] := by decide

-- accumulate: docstring examples (running total; count with start; returns_state), and with_state
example : vals (localRun (.accumulate .add none false false) {} (intsFrom 0 [0, 1, 2, 3, 4])) = is [0, 1, 3, 6, 10] := by decide
example : vals (localRun (.accumulate .cnt (some (.int 0)) false false) { acc := some (.int 0) } (intsFrom 0 [0, 0, 0])) = is [1, 2, 3] := by decide
example : vals (localRun (.accumulate .addRS (some (.int 0)) true true) { acc := some (.int 0) } (intsFrom 0 [1, 2, 3])) =
    [.tup (is [1, 1]), .tup (is [3, 12]), .tup (is [6, 33])] := by decide
example : vals (localRun (.accumulate (.failAdd 3 0) none false false) {} (intsFrom 0 [1, 2, 3, 4])) = is [1, 3, 7] := by decide
/-- the hypotheses of `accumulate_running_fold` hold for `add` on integer streams, with `P` = "is an integer" -/
example (l : List Int) (st x : Val) (hst : ∃ i, st = .int i) (hx : x ∈ (pays (intsFrom 0 l)).map Prod.fst) :
    accApply .add false st x =
      some ((fun a b => match a, b with | .int i, .int j => Val.int (i + j) | _, _ => .none) st x,
            (fun a b => match a, b with | .int i, .int j => Val.int (i + j) | _, _ => .none) st x) ∧
    ∃ i, (fun a b => match a, b with | .int i, .int j => Val.int (i + j) | _, _ => Val.none) st x = .int i := by
  obtain ⟨i, rfl⟩ := hst
  simp only [intsFrom, pays, List.map_map, List.mem_map] at hx
  obtain ⟨j, _, rfl⟩ := hx
  exact ⟨rfl, i + j, rfl⟩
example : runningFold (fun a b => match a, b with | .int i, .int j => Val.int (i + j) | _, _ => .none)
    (fun a b => match a, b with | .int i, .int j => Val.int (i + j) | _, _ => .none) false (.int 0) (is [1, 2, 3]) = is [1, 3, 6] := by decide

-- slice: "slice 1 none 2 on 0..4 gives [1,3]"; list[2:6:2]; end = 0 is no end
example : vals (localRun (.slice 1 none 2) {} (intsFrom 0 [0, 1, 2, 3, 4])) = is [1, 3] ∧ sliceSpec 1 none 2 [0, 1, 2, 3, 4] = [1, 3] := by decide
example : vals (localRun (.slice 2 (some 6) 2) {} (sliceReceives (some 6) (intsFrom 0 [0, 1, 2, 3, 4, 5, 6, 7, 8]))) = is [2, 4] ∧
    sliceSpec 2 (some 6) 2 (is [0, 1, 2, 3, 4, 5, 6, 7, 8]) = is [2, 4] := by decide
example : sliceSpec 0 (some 0) 3 [0, 1, 2, 3, 4, 5, 6] = [0, 3, 6] := by decide
example : Eff.detach ∈ (upd (.slice 0 (some 2) 1) (localRun (.slice 0 (some 2) 1) {} (intsFrom 0 [5])).1 0 (.int 6) []).effs :=
  (slice_detaches 0 (some 2) 1 {} rfl (intsFrom 0 [5]) 0 (.int 6) []).mpr ⟨2, rfl, by decide, by decide⟩

-- partition: "partition 2 on 5 elements gives two chunks and holds one"
example : vals (localRun (.partition 2 none) {} (intsFrom 0 [0, 1, 2, 3, 4])) = [.tup (is [0, 1]), .tup (is [2, 3])] ∧
    (localRun (.partition 2 none) {} (intsFrom 0 [0, 1, 2, 3, 4])).1.items = [(.none, .int 4, [])] := by decide
example : chunksSpec 2 [0, 1, 2, 3, 4] = [[0, 1], [2, 3]] ∧ leftoverSpec 2 [0, 1, 2, 3, 4] = [4] ∧ chunksSpec 1 [7, 8] = [[7], [8]] ∧
    chunksSpec 0 [7, 8] = [] := by decide
example : (localRun (.partition 2 none) {} (intsMd [5, 6])).2 = [(.tup (is [5, 6]), [⟨0, some 0⟩, ⟨1, some 1⟩])] := by decide
-- docstring: partition(2, key=lambda x: x % 2) on 0..3 gives (0, 2), (1, 3)
example : vals (localRun (.partition 2 (some (.modk 2))) {} (intsFrom 0 [0, 1, 2, 3, 4])) = [.tup (is [0, 2]), .tup (is [1, 3])] ∧
    partitionKeyedSpec 2 (partKey (.modk 2)) (pays (intsFrom 0 [0, 1, 2, 3, 4])) = [(.tup (is [0, 2]), []), (.tup (is [1, 3]), [])] := by decide

-- partition_unique: the docstring examples ([1,2,1,3,1,3,3,2], n=3: first -> (1,2,3),(1,3,2); last -> (2,1,3),(1,3,2))
example : vals (localRun (.partitionUnique 3 .id false) {} (intsFrom 0 [1, 2, 1, 3, 1, 3, 3, 2])) = [.tup (is [1, 2, 3]), .tup (is [1, 3, 2])] ∧
    (puSpecFrom 3 false (partKey .id) [] (pays (intsFrom 0 [1, 2, 1, 3, 1, 3, 3, 2]))).map Prod.fst = [.tup (is [1, 2, 3]), .tup (is [1, 3, 2])] := by decide
example : vals (localRun (.partitionUnique 3 .id true) {} (intsFrom 0 [1, 2, 1, 3, 1, 3, 3, 2])) = [.tup (is [2, 1, 3]), .tup (is [1, 3, 2])] ∧
    (puSpecFrom 3 true (partKey .id) [] (pays (intsFrom 0 [1, 2, 1, 3, 1, 3, 3, 2]))).map Prod.fst = [.tup (is [2, 1, 3]), .tup (is [1, 3, 2])] := by decide

-- sliding_window
example : vals (localRun (.slidingWindow 2 true) {} (intsFrom 0 [1, 2, 3])) = [.tup (is [1]), .tup (is [1, 2]), .tup (is [2, 3])] ∧
    windowsSpec 2 true (is [1, 2, 3]) = [.tup (is [1]), .tup (is [1, 2]), .tup (is [2, 3])] := by decide
example : vals (localRun (.slidingWindow 3 false) {} (intsFrom 0 [0, 1, 2, 3])) = [.tup (is [0, 1, 2]), .tup (is [1, 2, 3])] ∧
    windowsSpec 3 false (is [0, 1, 2, 3]) = [.tup (is [0, 1, 2]), .tup (is [1, 2, 3])] := by decide

-- unique: unbounded, and the docstring example for maxsize=1
example : vals (localRun (.unique none .id true) {} (intsFrom 0 [1, 2, 1, 3, 2])) = is [1, 2, 3] ∧
    (uniqueSpec (uniqKey .id true) (pays (intsFrom 0 [1, 2, 1, 3, 2]))).map Prod.fst = is [1, 2, 3] := by decide
example : vals (localRun (.unique (some 1) .id true) {} (intsFrom 0 [1, 1, 2, 2, 2, 1, 3])) = is [1, 2, 1, 3] ∧
    (uniqueLruSpec 1 (uniqKey .id true) (pays (intsFrom 0 [1, 1, 2, 2, 2, 1, 3]))).map Prod.fst = is [1, 2, 1, 3] := by decide
example : vals (localRun (.unique (some 2) (.modk 3) false) {} (intsFrom 0 [0, 1, 3, 2, 0, 4])) = is [0, 1, 2, 4] := by decide

-- an unhashable key (a list) raises in hashable mode and is skipped; in list mode it is a key like any other
example : vals (localRun (.unique none .id true) {} [(0, .lst (is [1]), []), (0, .int 1, []), (0, .lst (is [1]), [])]) = is [1] ∧
    vals (localRun (.unique none .id false) {} [(0, .lst (is [1]), []), (0, .int 1, []), (0, .lst (is [1]), [])]) = [.lst (is [1]), .int 1] := by decide
example : vals (localRun (.pluck (.idx 1)) {} [(0, .str "abc", [])]) = [.str "b"] := by decide

-- zip: two upstreams 7 and 8, two different interleavings of the same per-upstream sequences, junk from 9
def zipInit (ups : List NodeId) : NState := { ups := ups, bufs := ups.map (fun u => (u, [])) }
example : vals (localRun (.zip []) (zipInit [7, 8]) (intsFrom 7 [1, 2, 3] ++ intsFrom 8 [10, 20])) = [.tup (is [1, 10]), .tup (is [2, 20])] ∧
    vals (localRun (.zip []) (zipInit [7, 8]) (intsFrom 8 [10] ++ intsFrom 7 [1] ++ intsFrom 9 [0] ++ intsFrom 8 [20] ++ intsFrom 7 [2, 3])) =
      [.tup (is [1, 10]), .tup (is [2, 20])] ∧
    (localRun (.zip []) (zipInit [7, 8]) (intsFrom 7 [1, 2, 3] ++ intsFrom 8 [10, 20])).1.bufs = [(7, [(.int 3, [])]), (8, [])] := by decide
example : vals (localRun (.zip [(1, .str "lit")]) (zipInit [7, 8, 9]) (intsFrom 9 [5, 6] ++ intsFrom 7 [1] ++ intsFrom 8 [3, 4] ++ intsFrom 7 [2])) =
    [.tup [.int 1, .str "lit", .int 3, .int 5], .tup [.int 2, .str "lit", .int 4, .int 6]] ∧
    matched [7, 8, 9] (intsFrom 9 [5, 6] ++ intsFrom 7 [1] ++ intsFrom 8 [3, 4] ++ intsFrom 7 [2]) = 2 := by decide

-- collect: arrive, arrive, flush, arrive, flush, flush
example : (localRunEv .collect {} [.arr (0, .int 1, []), .arr (0, .int 2, []), .flush, .arr (0, .int 3, []), .flush, .flush]).2.map Prod.fst =
    [.tup (is [1, 2]), .tup (is [3]), .tup []] := by decide

-- combine_latest with upstreams 1, 2
def clInit (ups eo : List NodeId) : NState :=
  { ups := ups, emitOn := eo, last := ups.map (fun _ => Val.none), lastMd := ups.map (fun _ => []), missing := ups }
example : vals (localRun (.combineLatest none) (clInit [1, 2] [1, 2]) (intsFrom 1 [10, 11] ++ intsFrom 2 [20] ++ intsFrom 1 [12])) =
    [.tup (is [11, 20]), .tup (is [12, 20])] ∧
    (combineLatestSpec [1, 2] [1, 2] (intsFrom 1 [10, 11] ++ intsFrom 2 [20] ++ intsFrom 1 [12])).map Prod.fst =
      [.tup (is [11, 20]), .tup (is [12, 20])] := by decide
example : vals (localRun (.combineLatest (some [2])) (clInit [1, 2] [2]) (intsFrom 1 [10] ++ intsFrom 2 [20] ++ intsFrom 1 [12] ++ intsFrom 2 [21])) =
    [.tup (is [10, 20]), .tup (is [12, 21])] := by decide

-- zip_latest with lossless upstream 1 and upstream 2
def zlInit (ups : List NodeId) : NState :=
  { ups := ups, last := ups.map (fun _ => Val.none), lastMd := ups.map (fun _ => []), missing := ups }
example : vals (localRun .zipLatest (zlInit [1, 2]) (intsFrom 1 [10, 11] ++ intsFrom 2 [20] ++ intsFrom 2 [21] ++ intsFrom 1 [12])) =
    [.tup (is [10, 20]), .tup (is [11, 20]), .tup (is [12, 21])] ∧
    (zipLatestSpec 1 [2] (intsFrom 1 [10, 11] ++ intsFrom 2 [20] ++ intsFrom 2 [21] ++ intsFrom 1 [12])).map Prod.fst =
      [.tup (is [10, 20]), .tup (is [11, 20]), .tup (is [12, 21])] := by decide

-- the initial-state hypotheses of the join theorems are satisfied by the states a freshly built node has
example (arrivals : List Arr) := zip2_sem 7 8 (by decide) (zipInit [7, 8]) rfl rfl arrivals
example (arrivals : List Arr) := zip_sem [(1, .str "lit")] [7, 8, 9] (zipInit [7, 8, 9]) rfl rfl arrivals
example (arrivals : List Arr) :=
  combineLatest_sem none [1, 2] [1, 2] (by decide) (clInit [1, 2] [1, 2]) rfl rfl rfl rfl (fun _ => Iff.rfl) arrivals
example (arrivals : List Arr) :=
  zipLatest_sem 1 [2] (by decide) (zlInit [1, 2]) rfl rfl rfl (fun _ => Iff.rfl) rfl arrivals
example (arrivals : List Arr) := unique_lru_sem 1 (by decide) .id true {} rfl arrivals
example (arrivals : List Arr) := unique_sem (some 0) rfl .id false {} rfl arrivals

end StreamzVerif.Graph
