import StreamzVerif.Proofs.Propagate
/-
C01, graph level: the interpreter `emitAt / deliver / update / runEffs` (= `Stream._emit`, core.py 429-462)
computes the dataflow semantics.  For every graph `G`, every fuel, every start state `S` whose topology is a
DAG (`Acyclic`: every edge goes from a node to a later-created node — what the fluent API builds, and what
`slice` detaching itself preserves), every entry node, value and metadata, if the run ends normally
(`err = none`: no exception and fuel sufficed; `carried = none`: no exception captured by `partition`'s
coroutine) then

  * `run_projects`            every node's final state is its local `upd` folded over exactly the arrivals
                              the log shows at that node, in order;
  * `emits_are_local_outputs` every node's emissions are exactly the outputs of those local steps, in order
                              (plus the injected top-level emission at the entry node);
  * `emit_delivers_snapshot`, `edge_consistency`, `edge_no_loss_dup_reorder`
                              every emission is handed to every attached branch, siblings in attachment
                              order, nothing lost, duplicated or reordered along any edge;
  * `arrivals_above`          depth-first: everything caused by an emission at `n` happens strictly downstream;
  * `fuel_mono`, `dag_terminates`   fuel is harmless.

The per-kind list-level meanings of `localRun` are proved in `Proofs/NodeSem.lean` (other file).
-/
namespace StreamzVerif.Graph

variable (G : NodeId → Kind)

/-- The fluent API only ever builds DAGs in this sense, and the only topology change a run can make
(`slice._check_end` removing the node from its upstreams) keeps it one. -/
theorem acyclic_detach {S : State} (h : Acyclic S) (d : NodeId) : Acyclic (detachNode d S) :=
  h.detachNode d

/-- A successful run leaves the topology a DAG, and every downstream list is a sub-list (same order) of what it
was. -/
theorem acyclic_preserved {fuel : Nat} {n : NodeId} {v : Val} {md : Meta} {S : State}
    (he : (emitAt G fuel n v md S).err = none) (hc : (emitAt G fuel n v md S).carried = none) :
    (∀ u, ((emitAt G fuel n v md S).st.downs u).Sublist (S.downs u)) ∧
      (Acyclic S → Acyclic (emitAt G fuel n v md S).st) := by
  have hr := run_of_ok G fuel (.emit n v md) S ⟨he, hc⟩
  exact ⟨run_downs_sublist G hr, fun hA => hA.run G hr⟩

/-- More fuel never changes a run that did not run out of fuel: the driver's fixed large fuel is harmless. -/
theorem fuel_mono {f f' : Nat} {n : NodeId} {v : Val} {md : Meta} {S : State} (hle : f ≤ f')
    (h : (emitAt G f n v md S).err ≠ some .outOfFuel) : emitAt G f' n v md S = emitAt G f n v md S :=
  emitAt_fuel_mono G hle h

/-- Depth-first, no re-entrance: in a DAG the log of `_emit` at `n` is the `emit n` event followed only by
arrivals at nodes `> n` (coming from nodes `≥ n`) and emissions of nodes `> n`. -/
theorem arrivals_above {fuel : Nat} {n : NodeId} {v : Val} {md : Meta} {S : State} (hA : Acyclic S)
    (he : (emitAt G fuel n v md S).err = none) (hc : (emitAt G fuel n v md S).carried = none) :
    ∃ rest, (emitAt G fuel n v md S).log = Ev.emit n v md :: rest ∧
      (∀ d who v' md', Ev.arrive d who v' md' ∈ rest → n < d ∧ n ≤ who) ∧
      (∀ m v' md', Ev.emit m v' md' ∈ rest → n < m) := by
  obtain ⟨rest, h1, h2⟩ := run_bounds G (run_of_ok G fuel (.emit n v md) S ⟨he, hc⟩) hA
  exact ⟨rest, h1, fun d who v' md' hm => h2 _ hm, fun m v' md' hm => h2 _ hm⟩

/-- **Projection theorem.**  After a successful `_emit` every node's state is its own `upd` folded over exactly
the arrivals at that node, in log order (sinks: state never changes). -/
theorem run_projects {fuel : Nat} {n : NodeId} {v : Val} {md : Meta} {S : State} (hA : Acyclic S)
    (he : (emitAt G fuel n v md S).err = none) (hc : (emitAt G fuel n v md S).carried = none) (i : NodeId) :
    (emitAt G fuel n v md S).st.loc i = replay G i (S.loc i) (arrivalsAt i (emitAt G fuel n v md S).log) :=
  run_proj G (run_of_ok G fuel (.emit n v md) S ⟨he, hc⟩) hA i

/-- The same for one `downstream.update(x, who, metadata)` call: the arrival at `d` is the head of the log,
`d` is not re-entered, and every node (including `d`) ends in the replay of its arrivals. -/
theorem update_projects {fuel : Nat} {d who : NodeId} {v : Val} {md : Meta} {S : State} (hA : Acyclic S)
    (he : (update G fuel d who v md S).err = none) (hc : (update G fuel d who v md S).carried = none) :
    (∃ rest, (update G fuel d who v md S).log = Ev.arrive d who v md :: rest ∧ arrivalsAt d rest = []) ∧
    (update G fuel d who v md S).st.loc d = finalLoc (upd (G d) (S.loc d) who v md).effs (S.loc d) ∧
    ∀ i, (update G fuel d who v md S).st.loc i
      = replay G i (S.loc i) (arrivalsAt i (update G fuel d who v md S).log) := by
  have hr := run_of_ok G fuel (.update d who v md) S ⟨he, hc⟩
  obtain ⟨rest, h1, h2⟩ := run_bounds G hr hA
  have hp := run_proj G hr hA
  have h3 : arrivalsAt d rest = [] := h2.arrivalsAt_nil (Nat.lt_succ_self _)
  refine ⟨⟨rest, h1, h3⟩, ?_, hp⟩
  have := hp d
  simp only [interp] at this h1
  rw [this, h1, arrivalsAt_cons_arrive, if_pos rfl, h3]; rfl

/-- The body of an update (and `collect.flush`, `flushAt`): the node's own state is the last `.set`, every other
node replays its arrivals. -/
theorem runEffs_projects {fuel : Nat} {d : NodeId} {es : List Eff} {S : State} (hA : Acyclic S)
    (he : (runEffs G fuel d es S).err = none) (hc : (runEffs G fuel d es S).carried = none) :
    (runEffs G fuel d es S).st.loc d = finalLoc es (S.loc d) ∧
    ∀ i, i ≠ d → (runEffs G fuel d es S).st.loc i
      = replay G i (S.loc i) (arrivalsAt i (runEffs G fuel d es S).log) := by
  have hp := run_proj G (run_of_ok G fuel (.effs d es) S ⟨he, hc⟩) hA
  exact ⟨hp.2, hp.1⟩

/-- The emissions of node `i` in the log are, in order, the concatenation of the local outputs of its `upd`
over its arrivals (state threaded), preceded at the entry node by the injected emission. -/
theorem emits_are_local_outputs {fuel : Nat} {n : NodeId} {v : Val} {md : Meta} {S : State} (hA : Acyclic S)
    (he : (emitAt G fuel n v md S).err = none) (hc : (emitAt G fuel n v md S).carried = none) (i : NodeId) :
    emitsOf i (emitAt G fuel n v md S).log =
      (if n = i then [(v, md)] else []) ++
        localOuts G i (S.loc i) (arrivalsAt i (emitAt G fuel n v md S).log) :=
  run_emits G (run_of_ok G fuel (.emit n v md) S ⟨he, hc⟩) hA i

/-- Both at once, in terms of the graph-free local run `localRun` of `Proofs/NodeSem.lean`: state and emissions
of every node are those of the node run *in isolation* over its arrival list. -/
theorem run_is_localRun {fuel : Nat} {n : NodeId} {v : Val} {md : Meta} {S : State} (hA : Acyclic S)
    (he : (emitAt G fuel n v md S).err = none) (hc : (emitAt G fuel n v md S).carried = none) (i : NodeId) :
    ((emitAt G fuel n v md S).st.loc i, emitsOf i (emitAt G fuel n v md S).log) =
      ((localRun (G i) (S.loc i) (arrivalsAt i (emitAt G fuel n v md S).log)).1,
       (if n = i then [(v, md)] else []) ++
         (localRun (G i) (S.loc i) (arrivalsAt i (emitAt G fuel n v md S).log)).2) := by
  rw [localRun_eq, run_projects G hA he hc i, emits_are_local_outputs G hA he hc i]

/-- Every attached branch sees the emission, siblings in attachment order: what `_emit` at `n` hands out is
exactly the snapshot `list(self.downstreams)` taken when it starts, in that order, once each — whatever
topology changes (`slice` ending) happen meanwhile. -/
theorem emit_delivers_snapshot {fuel : Nat} {n : NodeId} {v : Val} {md : Meta} {S : State} (hA : Acyclic S)
    (he : (emitAt G fuel n v md S).err = none) (hc : (emitAt G fuel n v md S).carried = none) :
    arrivalsFrom n (emitAt G fuel n v md S).log = (S.downs n).map (fun d => (d, v, md)) :=
  run_deliv G (run_of_ok G fuel (.emit n v md) S ⟨he, hc⟩) hA

/-- **Edge consistency** (static topology: no node executes `.detach`).  For every node `u`, the arrivals that
originate at `u` are exactly: each emission of `u`, in order, handed to each member of `downs u` in attachment
order, before the next emission of `u` is handed to anyone. -/
theorem edge_consistency (hG : NoDetach G) {fuel : Nat} {n : NodeId} {v : Val} {md : Meta} {S : State}
    (hA : Acyclic S) (he : (emitAt G fuel n v md S).err = none) (hc : (emitAt G fuel n v md S).carried = none)
    (u : NodeId) :
    arrivalsFrom u (emitAt G fuel n v md S).log =
      (emitsOf u (emitAt G fuel n v md S).log).flatMap (fun e => (S.downs u).map (fun d => (d, e.1, e.2))) :=
  run_edges G hG (run_of_ok G fuel (.emit n v md) S ⟨he, hc⟩) hA u

/-- Per edge: along an edge `u → d` of a static topology exactly the sequence emitted by `u` travels — nothing
lost, nothing duplicated, nothing reordered (`d` attached once to `u`, as `OrderedWeakrefSet` guarantees). -/
theorem edge_no_loss_dup_reorder (hG : NoDetach G) {fuel : Nat} {n : NodeId} {v : Val} {md : Meta} {S : State}
    (hA : Acyclic S) (he : (emitAt G fuel n v md S).err = none) (hc : (emitAt G fuel n v md S).carried = none)
    (u d : NodeId) (hd : (S.downs u).count d = 1) :
    arriveFromTo u d (emitAt G fuel n v md S).log = emitsOf u (emitAt G fuel n v md S).log := by
  have := edge_consistency G hG hA he hc u
  rw [arriveFromTo_eq_filterMap, this]
  exact (flatMap_fanout_filterMap (S.downs u) d _).trans (by rw [hd]; exact flatMap_replicate_one _)

/-- ... and nothing at all travels where there is no edge. -/
theorem no_edge_no_arrival (hG : NoDetach G) {fuel : Nat} {n : NodeId} {v : Val} {md : Meta} {S : State}
    (hA : Acyclic S) (he : (emitAt G fuel n v md S).err = none) (hc : (emitAt G fuel n v md S).carried = none)
    (u d : NodeId) (hd : d ∉ S.downs u) :
    arriveFromTo u d (emitAt G fuel n v md S).log = [] := by
  have := edge_consistency G hG hA he hc u
  rw [arriveFromTo_eq_filterMap, this]
  refine (flatMap_fanout_filterMap (S.downs u) d _).trans ?_
  rw [List.count_eq_zero_of_not_mem hd]
  simp

/-- The static-topology hypothesis holds for every graph without an end-bounded `slice`
(`.detach` is produced by `slice._check_end` only). -/
theorem static_unless_bounded_slice (h : ∀ i a e c, G i = .slice a (some e) c → e = 0) : NoDetach G :=
  noDetach_of_slices G h

/-- **Edge consistency, general** (topology may shrink during the run: `slice` nodes ending).  What leaves `u`
is a sub-sequence, in the same order and without repetition, of "each emission of `u` handed to each initial
downstream of `u` in attachment order": deliveries are never duplicated, reordered or invented; the only
possible loss is to a branch that detached itself. -/
theorem edge_consistency_general {fuel : Nat} {n : NodeId} {v : Val} {md : Meta} {S : State}
    (hA : Acyclic S) (he : (emitAt G fuel n v md S).err = none) (hc : (emitAt G fuel n v md S).carried = none)
    (u : NodeId) :
    (arrivalsFrom u (emitAt G fuel n v md S).log).Sublist
      ((emitsOf u (emitAt G fuel n v md S).log).flatMap (fun e => (S.downs u).map (fun d => (d, e.1, e.2)))) :=
  run_edges_sub G (run_of_ok G fuel (.emit n v md) S ⟨he, hc⟩) hA u

/-- Per edge, general: what arrives at `d` from `u` is a sub-sequence of what `u` emitted (same order, no
duplicates) — a prefix-free statement that also covers a `slice` that has ended. -/
theorem edge_no_dup_reorder_general {fuel : Nat} {n : NodeId} {v : Val} {md : Meta} {S : State}
    (hA : Acyclic S) (he : (emitAt G fuel n v md S).err = none) (hc : (emitAt G fuel n v md S).carried = none)
    (u d : NodeId) (hd : (S.downs u).count d ≤ 1) :
    (arriveFromTo u d (emitAt G fuel n v md S).log).Sublist (emitsOf u (emitAt G fuel n v md S).log) := by
  have := (edge_consistency_general G hA he hc u).filterMap (fun x => if x.1 = d then some x.2 else none)
  rw [← arriveFromTo_eq_filterMap] at this
  refine this.trans ?_
  have h2 := flatMap_fanout_filterMap (S.downs u) d (emitsOf u (emitAt G fuel n v md S).log)
  unfold fanout at h2
  rw [h2]
  exact flatMap_replicate_sublist _ hd

/-- Nothing arrives that was not sent along an existing edge: every arrival `d ← who` in the log goes along an
edge of the initial topology and carries a value/metadata pair that `who` emitted in this log. -/
theorem arrival_has_cause {fuel : Nat} {n : NodeId} {v : Val} {md : Meta} {S : State}
    (hA : Acyclic S) (he : (emitAt G fuel n v md S).err = none) (hc : (emitAt G fuel n v md S).carried = none)
    {d who : NodeId} {v' : Val} {md' : Meta}
    (h : Ev.arrive d who v' md' ∈ (emitAt G fuel n v md S).log) :
    d ∈ S.downs who ∧ Ev.emit who v' md' ∈ (emitAt G fuel n v md S).log := by
  have h1 := (edge_consistency_general G hA he hc who).subset (mem_arrivalsFrom.2 h)
  simp only [List.mem_flatMap, List.mem_map] at h1
  obtain ⟨e, he1, d', hd', heq⟩ := h1
  cases heq
  exact ⟨hd', mem_emitsOf.1 he1⟩

/-- **Depth-first, siblings in attachment order.**  After the `emit n` event and the reference-count prologue,
the log of `_emit` at `n` is one contiguous segment per member of the downstream snapshot, in list order; the
segment of `d` starts with `arrive d n v md` and the rest of it consists of arrivals at nodes `> d` and
emissions of nodes `≥ d` only: everything the delivery to one sibling causes precedes the delivery to the
next (`SegsFor` spells this out). -/
theorem depth_first {fuel : Nat} {n : NodeId} {v : Val} {md : Meta} {S : State} (hA : Acyclic S)
    (he : (emitAt G fuel n v md S).err = none) (hc : (emitAt G fuel n v md S).carried = none) :
    ∃ segs : List (List Ev),
      (emitAt G fuel n v md S).log = Ev.emit n v md :: (emitPre S n md).2 ++ segs.flatten ∧
      SegsFor n v md (S.downs n) segs := by
  obtain ⟨l', h1, h2⟩ := run_emit_inv G (run_of_ok G fuel (.emit n v md) S ⟨he, hc⟩)
  obtain ⟨segs, h3, h4⟩ := run_df G h2 (hA.of_eq (by simp)) (fun d hd => hA n d hd)
  exact ⟨segs, by simp only [interp] at h1; rw [h1, h3], h4⟩

/-- On a DAG over finitely many nodes some fuel always suffices, for every value (whatever the node states
are and whatever the user functions raise) — and from that fuel on the result no longer depends on fuel.
So for DAGs the `err ≠ outOfFuel` part of the hypotheses above is discharged, not assumed. -/
theorem dag_terminates {N : Nat} {S : State} (hB : ∀ u d, d ∈ S.downs u → u < d ∧ d < N)
    (n : NodeId) (v : Val) (md : Meta) :
    ∃ f, (emitAt G f n v md S).err ≠ some .outOfFuel ∧
      ∀ f', f ≤ f' → emitAt G f' n v md S = emitAt G f n v md S := by
  obtain ⟨f, hf⟩ := (term_all G N (N - n) n (Nat.le_refl _)).1 S hB v md
  exact ⟨f, hf, fun f' hle => emitAt_fuel_mono G hle hf⟩

/-- The interpreter's successful runs are exactly the derivations of the big-step relation `Run`
(one rule per line of `_emit` / `update` / the effect programs): everything above is proved by rule induction
on `Run`, and this equivalence is what ties those inductions to the executable model the driver runs. -/
theorem run_iff {n : NodeId} {v : Val} {md : Meta} {S S' : State} {l : List Ev} {t : List Tok} :
    (∃ f, emitAt G f n v md S = { st := S', log := l, toks := t, err := none, carried := none }) ↔
      Run G (.emit n v md) S S' l t := by
  constructor
  · rintro ⟨f, hf⟩
    have := run_of_ok G f (.emit n v md) S (by simp only [interp]; rw [hf]; exact ⟨rfl, rfl⟩)
    simp only [interp] at this
    rw [hf] at this
    exact this
  · exact run_complete G

/-! ### Non-vacuity -/

/-- fan-out and fan-in: source 0 → map inc 1, source 0 → map dbl 2, zip(1, 2) = 3 → sink 4 -/
def exG : NodeId → Kind
  | 0 => .source
  | 1 => .map .inc
  | 2 => .map .dbl
  | 3 => .zip []
  | _ => .sink (.sync .id)

def exS : State :=
  { loc := fun i => if i = 3 then { ups := [1, 2], bufs := [(1, []), (2, [])] } else {}
    downs := fun i => match i with | 0 => [1, 2] | 1 => [3] | 2 => [3] | 3 => [4] | _ => [] }

theorem exS_acyclic : Acyclic exS := by
  intro u d h
  unfold exS at h
  simp only [] at h
  split at h <;> simp at h <;> (unfold NodeId at *; omega)

theorem exS_bounded : ∀ u d, d ∈ exS.downs u → u < d ∧ d < 5 := by
  intro u d h
  unfold exS at h
  simp only [] at h
  split at h <;> simp at h <;> (unfold NodeId at *; omega)

theorem exG_static : NoDetach exG := by
  apply noDetach_of_slices
  intro i a e c h
  unfold exG at h
  split at h <;> cases h

/-- the hypotheses of all theorems above hold on this run, with metadata carrying a reference counter -/
example : (emitAt exG 100 0 (.int 5) [⟨7, some 0⟩] exS).err = none ∧
    (emitAt exG 100 0 (.int 5) [⟨7, some 0⟩] exS).carried = none := by decide +kernel
/-- ... so the conclusions hold of it: -/
example (i : NodeId) : (emitAt exG 100 0 (.int 5) [] exS).st.loc i =
    replay exG i (exS.loc i) (arrivalsAt i (emitAt exG 100 0 (.int 5) [] exS).log) :=
  run_projects exG exS_acyclic (by decide +kernel) (by decide +kernel) i
example (u : NodeId) : arrivalsFrom u (emitAt exG 100 0 (.int 5) [] exS).log =
    (emitsOf u (emitAt exG 100 0 (.int 5) [] exS).log).flatMap
      (fun e => (exS.downs u).map (fun d => (d, e.1, e.2))) :=
  edge_consistency exG exG_static exS_acyclic (by decide +kernel) (by decide +kernel) u
/-- ... the sink receives the zipped pair exactly once, from the zip node -/
example : arrivalsAt 4 (emitAt exG 100 0 (.int 5) [] exS).log = [(3, .tup [.int 6, .int 10], [])] := by
  decide +kernel
/-- ... the zip node sees the two siblings' outputs in attachment order -/
example : arrivalsAt 3 (emitAt exG 100 0 (.int 5) [] exS).log = [(1, .int 6, []), (2, .int 10, [])] := by
  decide +kernel
example : arrivalsFrom 0 (emitAt exG 100 0 (.int 5) [] exS).log = [(1, .int 5, []), (2, .int 5, [])] := by
  decide +kernel
/-- ... and fuel 14 is already enough while 13 is not (so `fuel_mono`'s hypothesis is neither vacuous nor
trivially true) -/
example : (emitAt exG 14 0 (.int 5) [] exS).err = none ∧
    (emitAt exG 13 0 (.int 5) [] exS).err = some .outOfFuel := by decide +kernel

/-- topology change during a run: source 0 → slice(0, end = 1) 1 → sink 2, and source 0 → sink 3.  The slice
detaches itself while `_emit` at 0 is still looping; the snapshot is still served in full. -/
def exG2 : NodeId → Kind
  | 0 => .source
  | 1 => .slice 0 (some 1) 1
  | _ => .sink (.sync .id)

def exS2 : State :=
  { loc := fun i => if i = 1 then { ups := [0] } else {}
    downs := fun i => match i with | 0 => [1, 3] | 1 => [2] | _ => [] }

theorem exS2_acyclic : Acyclic exS2 := by
  intro u d h
  unfold exS2 at h
  simp only [] at h
  split at h <;> simp at h <;> (unfold NodeId at *; omega)

example : (emitAt exG2 100 0 (.int 5) [] exS2).err = none ∧
    (emitAt exG2 100 0 (.int 5) [] exS2).carried = none ∧
    (emitAt exG2 100 0 (.int 5) [] exS2).st.downs 0 = [3] ∧
    arrivalsFrom 0 (emitAt exG2 100 0 (.int 5) [] exS2).log = [(1, .int 5, []), (3, .int 5, [])] := by
  decide +kernel

/-- The DAG hypothesis of `run_projects` cannot be dropped: on the feedback loop
slice 0 → filter isEven 1 → map inc 2 → slice 0, the model's `slice` is re-entered while its own update is
running (`self._emit(x)` precedes `self.state += 1`), the outer update then overwrites the count written by the
inner one, and the final state (count 1) is *not* the replay of the two arrivals (count 2).  (In Python
`self.state += 1` re-reads the attribute; the model's `upd` computes every effect from the state before the
update.  The two agree exactly when a node is not re-entered — i.e. on DAGs.) -/
def exG3 : NodeId → Kind
  | 0 => .slice 0 none 1
  | 1 => .filter .isEven
  | _ => .map .inc

def exS3 : State :=
  { loc := fun _ => {}
    downs := fun i => match i with | 0 => [1] | 1 => [2] | 2 => [0] | _ => [] }

example : (update exG3 100 0 9 (.int 0) [] exS3).err = none ∧
    (update exG3 100 0 9 (.int 0) [] exS3).carried = none ∧
    ((update exG3 100 0 9 (.int 0) [] exS3).st.loc 0).cnt = 1 ∧
    (replay exG3 0 (exS3.loc 0) (arrivalsAt 0 (update exG3 100 0 9 (.int 0) [] exS3).log)).cnt = 2 := by
  decide +kernel

end StreamzVerif.Graph
