import StreamzVerif.Model.Graph
namespace StreamzVerif.Graph
theorem placeholder_c01 : True := trivial
end StreamzVerif.Graph
