import StreamzVerif.Proofs.Rolling
import StreamzVerif.Proofs.RollingNan
/-!
# C11 — rolling / cumulative / expanding / ewm results do not depend on batching

Property theorems only (helper lemmas in `Proofs/Rolling.lean`).  Every theorem quantifies over
*every* table and *every* composition of its rows into consecutive batches `bs` (a list of lists of
any lengths: empty batches and batches shorter than the window included); `bs.flatten` is the table.

* rolling: any row-count window `W` (including 0 and windows longer than the table), any time
  window `W` over any monotonic index, and **any** window reduction `agg` (so every pandas
  aggregation name, with whatever `min_periods`/NaN rule it has, is covered at once);
* cumulative: any binary operation `f` (`+`, `*`, `min`, `max`) with pandas' NaN skipping;
* expanding: `Sum`, `Count`, `Mean`, `Var(ddof)`; what is emitted for a batch is the reduction of
  everything seen so far (= pandas' expanding value at the batch's last row);
* ewm: what is emitted for a batch is pandas' `ewm(com).mean()` value at the batch's last row
  (nothing while no row has been seen), for NaN-free tables and `0 ≤ 1 - alpha`;
* ewm on tables WITH NaN cells (recorded finding `ewm-nan-unsupported`, section at the end): the defect has its
  own model (`ewmStepNan`: IEEE arithmetic of `EWMean.on_new`, cells `Option Rat`) and pandas its own
  specification (`ewmAtNan`); NaN is absorbing in streamz and skipped by pandas, the two agree exactly on the
  NaN-free tables, and a concrete witness separates them.
-/
namespace StreamzVerif.Rolling

/-! ### rolling -/

/-- Row-count window, per batch: the frame emitted for each batch is exactly the slice of the one-pass
pandas result at that batch's rows (`rollBatches … = ` one-pass result cut at the batch boundaries). -/
theorem rolling_count_per_batch {α β : Type} (W : Nat) (agg : List α → β) (bs : List (List α)) :
    (runAcc (rollStepCount W agg) [] bs).2 = rollBatches (selCount W) agg [] bs :=
  (runAcc_roll (selCount W) (carryCount W) agg (fun _ => True) (fun _ _ _ => trivial)
    (fun d acc b hc _ => carryCount_covers W d acc b hc) bs [] [] (covers_nil _ _) trivial).1

/-- Row-count window: the emitted frames, concatenated, are what pandas computes in one pass. -/
theorem rolling_count_batching_independent {α β : Type} (W : Nat) (agg : List α → β) (bs : List (List α)) :
    (runAcc (rollStepCount W agg) [] bs).2.flatten = rollWhole (selCount W) agg bs.flatten := by
  rw [rolling_count_per_batch, rollBatches_flatten]; rfl

/-- Time window, per batch, for every table whose index is monotonic (pandas rejects any other). -/
theorem rolling_time_per_batch {α β : Type} (time : α → Int) (W : Int) (agg : List α → β)
    (bs : List (List α)) (hs : Sorted time bs.flatten) :
    (runAcc (rollStepTime time W agg) [] bs).2 = rollBatches (selTime time W) agg [] bs :=
  (runAcc_roll (selTime time W) (carryTime time W) agg (Sorted time) (sorted_prefix time)
    (carryTime_covers time W) bs [] [] (covers_nil _ _) (by simpa using hs)).1

/-- Time window: the emitted frames, concatenated, are what pandas computes in one pass. -/
theorem rolling_time_batching_independent {α β : Type} (time : α → Int) (W : Int) (agg : List α → β)
    (bs : List (List α)) (hs : Sorted time bs.flatten) :
    (runAcc (rollStepTime time W agg) [] bs).2.flatten = rollWhole (selTime time W) agg bs.flatten := by
  rw [rolling_time_per_batch time W agg bs hs, rollBatches_flatten]; rfl

/-- The slices used above really are slices of the one-pass result: the part for a batch `b` that
follows the rows `d` is the one-pass result over `d ++ b` without its first `|d|` rows, and it has
one row per row of `b`. -/
theorem rolling_slice_is_one_pass {α β : Type} (sel : List α → List α) (agg : List α → β) (d b : List α) :
    rollFrom sel agg d b = (rollWhole sel agg (d ++ b)).drop d.length ∧
      (rollFrom sel agg d b).length = b.length :=
  ⟨(rollWhole_drop sel agg d b).symm, rollFrom_length sel agg d b⟩

/-- Carry-over for a row-count window `W > 0`: never more than `W` rows are kept, whatever the batch sizes. -/
theorem rolling_count_carry_bounded {α β : Type} (W : Nat) (hW : 0 < W) (agg : List α → β)
    (bs : List (List α)) (acc : List α) (hacc : acc.length ≤ W) :
    (runAcc (rollStepCount W agg) acc bs).1.length ≤ W := by
  induction bs generalizing acc with
  | nil => simpa [runAcc] using hacc
  | cons b bs ih =>
    simp only [runAcc]
    apply ih
    simp only [rollStepCount, rollStep, carryCount]
    rw [if_neg (by omega), lastN_length]
    omega

/-! ### cumsum / cumprod / cummin / cummax -/

/-- Per batch: each emitted frame is the slice of the one-pass cumulative result at the batch's rows. -/
theorem cumulative_per_batch {α : Type} (f : α → α → α) (bs : List (List (Option α))) :
    (runAcc (cumStep f) [] bs).2 = cumBatches f [] bs :=
  (runAcc_cum f bs [] [] (Or.inl ⟨rfl, rfl⟩)).1

/-- The emitted frames, concatenated, are what pandas computes in one pass — NaN anywhere,
in particular at batch boundaries, and empty batches anywhere. -/
theorem cumulative_batching_independent {α : Type} (f : α → α → α) (bs : List (List (Option α))) :
    (runAcc (cumStep f) [] bs).2.flatten = cumWhole f bs.flatten := by
  rw [cumulative_per_batch, cumBatches_flatten]; rfl

/-- The slices are slices of the one-pass result, one row per input row. -/
theorem cumulative_slice_is_one_pass {α : Type} (f : α → α → α) (d b : List (Option α)) :
    cumFrom f (runVal f none d) b = (cumWhole f (d ++ b)).drop d.length ∧
      (cumFrom f (runVal f none d) b).length = b.length :=
  ⟨(cumWhole_drop f d b).symm, cumFrom_length f _ b⟩

/-- The accumulator at the pinned commit (carry = last row of the result, NaN or not) violates the
property: `cumsum` of `[1,3,2,1,NaN | 1,1]` restarts after the batch that ends in NaN. -/
theorem cumulative_orig_restarts_after_nan :
    (runAcc (cumStepOrig (fun a b : Int => a + b)) []
        [[some 1, some 3, some 2, some 1, none], [some 1, some 1]]).2.flatten
      = [some 1, some 4, some 6, some 7, none, some 1, some 2] ∧
    cumWhole (fun a b : Int => a + b) [some 1, some 3, some 2, some 1, none, some 1, some 1]
      = [some 1, some 4, some 6, some 7, none, some 8, some 9] := by
  decide

/-- What does hold at the pinned commit: batching independence as long as no batch ends in NaN. -/
theorem cumulative_orig_partial {α : Type} (f : α → α → α) (bs : List (List (Option α)))
    (h : ∀ b ∈ bs, b.getLast? ≠ some none) :
    (runAcc (cumStepOrig f) [] bs).2.flatten = cumWhole f bs.flatten := by
  rw [runAcc_cumOrig f bs [] [] (Or.inl ⟨rfl, rfl⟩) h, cumBatches_flatten]; rfl

/-! ### expanding -/

/-- Generic: for any aggregation whose state after the rows `d` is `rep d` and whose `on_new`
returns `val` of everything seen, the value emitted for each batch is `val` of the table so far;
and the window (`dfs`, `diff_expanding`) keeps every row while the state is `rep` of the whole table. -/
theorem expanding_generic {α σ ρ : Type} (A : Agg α σ ρ) (rep : List α → σ) (val : List α → ρ)
    (h0 : rep [] = A.initial) (hstep : ∀ d b, A.onNew (rep d) b = (rep (d ++ b), val (d ++ b)))
    (bs : List (List α)) :
    (runAcc (expStep A) none bs).2 = (prefixes [] bs).map val ∧
      (∀ dfs st, (runAcc (expStep A) none bs).1 = some (dfs, st) →
        dfs.flatten = bs.flatten ∧ st = rep bs.flatten) := by
  have h := runAcc_exp A rep val h0 hstep bs [] none (Or.inl ⟨rfl, rfl⟩)
  refine ⟨h.1, fun dfs st hs => ?_⟩
  rcases h.2 with ⟨hn, _⟩ | ⟨dfs', hs', hf, _⟩
  · rw [hn] at hs; exact absurd hs (by simp)
  · rw [hs'] at hs
    simp only [List.nil_append, Option.some.injEq, Prod.mk.injEq] at hs hf
    exact ⟨hs.1 ▸ hf, hs.2.symm⟩

/-- `expanding().sum()`: after every batch the sum of the valid cells of everything seen
(pandas `expanding(min_periods=0).sum()` at the batch's last row). -/
theorem expanding_sum (bs : List (List (Option Rat))) :
    (runAcc (expStep aggSum) none bs).2 = (prefixes [] bs).map (fun t => sumR (valid t)) :=
  (expanding_generic aggSum (fun d => sumR (valid d)) (fun t => sumR (valid t)) rfl
    (by
      intro d b
      cases b with
      | nil => simp [aggSum]
      | cons x xs => simp [aggSum, valid_append, sumR_append]) bs).1

/-- `expanding().count()`. -/
theorem expanding_count (bs : List (List (Option Rat))) :
    (runAcc (expStep aggCount) none bs).2 = (prefixes [] bs).map (fun t => (valid t).length) :=
  (expanding_generic aggCount (fun d => (valid d).length) (fun t => (valid t).length) rfl
    (by intro d b; simp [aggCount, valid_append]) bs).1

/-- `expanding().mean()`: sum of the valid cells over their number, NaN when there is none. -/
theorem expanding_mean (bs : List (List (Option Rat))) :
    (runAcc (expStep aggMean) none bs).2 =
      (prefixes [] bs).map (fun t => meanOf (sumR (valid t)) (valid t).length) :=
  (expanding_generic aggMean (fun d => (sumR (valid d), (valid d).length))
    (fun t => meanOf (sumR (valid t)) (valid t).length) rfl
    (by
      intro d b
      cases b with
      | nil => simp [aggMean]
      | cons x xs => simp [aggMean, valid_append, sumR_append]) bs).1

/-- `expanding().var(ddof)`: the moment formula of `Var._compute_result` on the sums over the whole
table seen so far (Σx, Σx², n of the concatenation; its agreement with pandas' `var` is part of the
correspondence run, not of this theorem). -/
theorem expanding_var (ddof : Nat) (bs : List (List (Option Rat))) :
    (runAcc (expStep (aggVar ddof)) none bs).2 =
      (prefixes [] bs).map (fun t => varOf ddof (sumR (valid t)) (sumSqR (valid t)) (valid t).length) :=
  (expanding_generic (aggVar ddof) (fun d => (sumR (valid d), sumSqR (valid d), (valid d).length))
    (fun t => varOf ddof (sumR (valid t)) (sumSqR (valid t)) (valid t).length) rfl
    (by
      intro d b
      cases b with
      | nil => simp [aggVar]
      | cons x xs => simp [aggVar, valid_append, sumR_append, sumSqR_append]) bs).1

/-! ### ewm().mean() -/

/-- What `ewm(com).mean()` emits: one value per batch, and it is pandas' one-pass value at the last
row seen so far (`ewmAt`: the mean with weights `(1-alpha)^i`), nothing (an empty frame) while no
row has been seen — wherever the empty batches are. -/
theorem ewm_batching_independent (q : Rat) (hq : 0 ≤ q) (bs : List (List Rat)) :
    (runAcc (ewmStep q) none bs).2 = (prefixes [] bs).map (ewmAt q) :=
  (runAcc_ewm q hq bs [] none (Or.inl ⟨rfl, rfl⟩)).1

/-- The state after any batches is a function of the concatenated data alone
(`old_wt` = sum of the weights, `is_first` = no row consumed yet). -/
theorem ewm_state (q : Rat) (hq : 0 ≤ q) (bs : List (List Rat)) (dfs : List (List Rat)) (st : EwmSt)
    (h : (runAcc (ewmStep q) none bs).1 = some (dfs, st)) :
    st = ewmStateOf q bs.flatten ∧ dfs.flatten = bs.flatten := by
  rcases (runAcc_ewm q hq bs [] none (Or.inl ⟨rfl, rfl⟩)).2 with ⟨hn, _⟩ | ⟨dfs', hs', hf⟩
  · rw [hn] at h; exact absurd h (by simp)
  · rw [hs'] at h
    simp only [List.nil_append, Option.some.injEq, Prod.mk.injEq] at h hf
    exact ⟨h.2.symm, h.1 ▸ hf⟩

/-- `EWMean` at the pinned commit violates the property: after an empty first batch nothing is ever
emitted again (`is_first` cleared with no row consumed, `result` stuck at the empty frame). -/
theorem ewm_orig_stuck_after_empty_first :
    (runAcc (ewmStepOrig (1 / 2)) none [[], [1], [2, 3]]).2 = [none, none, none] ∧
    (prefixes [] [[], [1], [2, 3]]).map (ewmAt (1 / 2)) = [none, some 1, some (17 / 7)] := by
  decide +kernel

/-! ### ewm().mean() on tables with NaN cells: the recorded finding `ewm-nan-unsupported`

`ewmStepNan` is `EWMean` as it is in the tree run on cells that may be NaN (`none`); `ewmAtNan` is pandas'
`ewm(alpha).mean()` (adjust=True, ignore_na=False) on such a table.  The property (emitted = pandas in one
pass) holds on the NaN-free tables and fails as soon as a NaN cell is followed by anything pandas can
still average. -/

/-- On NaN-free tables the NaN-aware model IS the existing model `ewmStep` (outputs batch by batch), for
every `q` and every composition — so every theorem about `ewmStep` carries over. -/
theorem ewm_nan_free_agrees (q : Rat) (bs : List (List Rat)) :
    (runAcc (ewmStepNan q) none (bs.map (List.map some))).2 =
      (runAcc (ewmStep q) none bs).2.map (Option.map some) := by
  have hfill : (bs.map (List.map some)).map fillNan = bs := by
    induction bs with
    | nil => rfl
    | cons b bs ih => simp only [List.map_cons, fillNan_map_some, ih]
  have h := (runAcc_ewmNan_sim q (bs.map (List.map some)) [] none none (Or.inl ⟨rfl, rfl, rfl⟩)).1
  have hpre : prefixes [] (bs.map (List.map some)) = (prefixes [] bs).map (List.map some) :=
    prefixes_map some [] bs
  rw [h, hfill, hpre]
  have hlen : ((prefixes [] bs).map (List.map some)).length = (runAcc (ewmStep q) none bs).2.length := by
    simp [prefixes_length, runAcc_length]
  apply List.ext_getElem
  · simp [prefixes_length, runAcc_length]
  · intro i h1 h2
    simp only [List.getElem_zipWith, List.getElem_map, hasNan_map_some]
    congr 1

/-- … in particular batching independence on NaN-free tables, now stated on the NaN-aware model. -/
theorem ewm_nan_free_batching_independent (q : Rat) (hq : 0 ≤ q) (bs : List (List Rat)) :
    (runAcc (ewmStepNan q) none (bs.map (List.map some))).2 =
      (prefixes [] bs).map (fun t => (ewmAt q t).map some) := by
  rw [ewm_nan_free_agrees, ewm_batching_independent q hq, List.map_map]; rfl

/-- What the NaN-aware model emits on ANY table and ANY composition: nothing while no row has been seen,
NaN as soon as the rows seen so far hold one NaN cell, pandas' NaN-free value otherwise.  (So the defect does
not depend on the batching either: the emitted value is a function of the rows seen.) -/
theorem ewm_nan_model_characterised (q : Rat) (hq : 0 ≤ q) (bs : List (List (Option Rat))) :
    (runAcc (ewmStepNan q) none bs).2 = (prefixes [] bs).map (ewmStreamzNanAt q) := by
  have h := (runAcc_ewmNan_sim q bs [] none none (Or.inl ⟨rfl, rfl, rfl⟩)).1
  have hp : prefixes [] (bs.map fillNan) = (prefixes [] bs).map fillNan := prefixes_map _ [] bs
  rw [h, ewm_batching_independent q hq, hp, List.map_map, zipWith_map_right]
  apply List.map_congr_left
  intro t _
  exact ewmStreamzNanAt_eq q t

/-- `old_wt` and `is_first` do not see the NaN cells: after any batches they are what the NaN-free model has
after the same batches with every NaN replaced by a number (the weight is per frame, not per column). -/
theorem ewm_nan_weight_unaffected (q : Rat) (bs : List (List (Option Rat)))
    (dfsN : List (List (Option Rat))) (stN : EwmNanSt)
    (h : (runAcc (ewmStepNan q) none bs).1 = some (dfsN, stN)) :
    ∃ dfs st, (runAcc (ewmStep q) none (bs.map fillNan)).1 = some (dfs, st) ∧
      stN.oldWt = st.oldWt ∧ stN.isFirst = st.isFirst ∧ dfs = dfsN.map fillNan := by
  rcases (runAcc_ewmNan_sim q bs [] none none (Or.inl ⟨rfl, rfl, rfl⟩)).2 with ⟨hn, _, _⟩ | ⟨a, b, c, d, h1, h2, h3, h4⟩
  · rw [hn] at h; exact absurd h (by simp)
  · rw [h1] at h
    simp only [Option.some.injEq, Prod.mk.injEq] at h
    exact ⟨c, d, h2, h.2 ▸ h4.1, h.2 ▸ h4.2.1, h.1 ▸ h3⟩

/-- NaN is absorbing, for every `q`: once a batch holding a NaN cell has been folded in — after any batches
`bs₁` whatsoever — that batch and every later batch of every continuation `bs₂` emit NaN. -/
theorem ewm_nan_is_absorbing (q : Rat) (bs₁ : List (List (Option Rat))) (b : List (Option Rat))
    (hb : none ∈ b) (bs₂ : List (List (Option Rat))) :
    (runAcc (ewmStepNan q) none (bs₁ ++ b :: bs₂)).2.drop bs₁.length =
      List.replicate (bs₂.length + 1) (some none) := by
  have hb' : hasNan b = true := by
    simp only [hasNan, List.any_eq_true]; exact ⟨none, hb, rfl⟩
  have hinv := runAcc_ewmNan_inv q bs₁ none (by intro _ _ h; exact absurd h (by simp))
  have hp := ewmStepNan_poison q _ b hinv hb'
  have hs := runAcc_ewmNan_stuck q bs₂ _ hp.2
  have hl : bs₁.length = (runAcc (ewmStepNan q) none bs₁).2.length := (runAcc_length _ _ _).symm
  rw [runAcc_append, hl, List.drop_left]
  simp only [runAcc, hp.1, hs, List.replicate_succ]

/-- The same on states: from ANY state whose `result` is a NaN row, every batch sequence emits only NaN. -/
theorem ewm_nan_state_is_stuck (q : Rat) (dfs : List (List (Option Rat))) (st : EwmNanSt)
    (hf : st.isFirst = false) (hr : st.result = some none) (bs : List (List (Option Rat))) :
    (runAcc (ewmStepNan q) (some (dfs, st)) bs).2 = List.replicate bs.length (some none) :=
  runAcc_ewmNan_stuck q bs _ ⟨dfs, st, rfl, hf, hr⟩

/-- The pandas specification with NaN cells, restricted to NaN-free tables, is the existing `ewmAt`. -/
theorem ewm_nan_spec_nan_free (q : Rat) (xs : List Rat) :
    ewmAtNan q (xs.map some) = (ewmAt q xs).map some := by
  cases xs with
  | nil => rfl
  | cons x xs =>
    have hr : (List.map some (x :: xs)).reverse = (x :: xs).reverse.map some := by simp
    have hne : ((x :: xs).reverse.map some).isEmpty = false := by simp
    simp only [ewmAtNan, ewmAt, ewmValNan, hr, dropWhile_isNone_map_some, hne, ewmNumNan_map_some,
      ewmDenNan_map_some, List.length_reverse]
    simp

/-- For `q ≠ 0` the specification is the textbook weighted mean over the valid cells,
`Σ_{valid i ≤ t} q^(t-i) x_i / Σ_{valid i ≤ t} q^(t-i)`, NaN while there is no valid cell (`ewmAtNanRaw`). -/
theorem ewm_nan_spec_weighted_mean (q : Rat) (hq : q ≠ 0) (xs : List (Option Rat)) :
    ewmAtNan q xs = ewmAtNanRaw q xs := by
  have he := dropWhile_isNone_eq_nil xs.reverse
  rw [valid_reverse] at he
  simp only [ewmAtNan, ewmAtNanRaw, ewmValNan, he, List.isEmpty_reverse, ← ewm_ratio_dropWhile q hq]
  split
  · rfl
  · split <;> rfl

/-- Concrete witness of the recorded divergence, `x = [1, NaN, 3]`, alpha = 1/2, fed row by row:
streamz emits `1, NaN, NaN` (with `old_wt` 1, 3/2, 7/4: the weight keeps counting), pandas `1, 1, 13/5`;
fed as one batch streamz emits NaN where pandas has 13/5. -/
theorem ewm_nan_divergence_witness :
    (runAcc (ewmStepNan (1 / 2)) none [[some 1], [none], [some 3]]).2 = [some (some 1), some none, some none] ∧
    (prefixes [] [[some 1], [none], [some 3]]).map (ewmAtNan (1 / 2)) =
      [some (some 1), some (some 1), some (some (13 / 5))] ∧
    ((runAcc (ewmStepNan (1 / 2)) none [[some 1], [none], [some 3]]).1.map (·.2.oldWt)) = some (7 / 4) ∧
    (runAcc (ewmStepNan (1 / 2)) none [[some 1, none, some 3]]).2 = [some none] ∧
    ewmAtNan (1 / 2) [some 1, none, some 3] = some (some (13 / 5)) := by
  decide +kernel

/-- Hence the property fails for the NaN-aware model: it is NOT true that what is emitted batch by batch is
pandas' one-pass value at the rows seen so far (not even for a single batch, nor for one row per batch). -/
theorem ewm_nan_not_pandas :
    ¬ ∀ (q : Rat), 0 ≤ q → ∀ bs : List (List (Option Rat)),
        (runAcc (ewmStepNan q) none bs).2 = (prefixes [] bs).map (ewmAtNan q) := by
  intro h
  have h1 := h (1 / 2) (by decide +kernel) [[some 1, none, some 3]]
  exact absurd h1 (by decide +kernel)

/-- What does hold with NaN cells: the property up to (excluding) the first batch that holds a NaN cell —
`bs₁` NaN-free, then anything. -/
theorem ewm_nan_partial (q : Rat) (hq : 0 ≤ q) (bs₁ : List (List Rat)) (bs₂ : List (List (Option Rat))) :
    (runAcc (ewmStepNan q) none (bs₁.map (List.map some) ++ bs₂)).2.take bs₁.length =
      (prefixes [] (bs₁.map (List.map some))).map (ewmAtNan q) := by
  have hl : bs₁.length = (runAcc (ewmStepNan q) none (bs₁.map (List.map some))).2.length := by
    simp [runAcc_length]
  have hp : prefixes [] (bs₁.map (List.map some)) = (prefixes [] bs₁).map (List.map some) :=
    prefixes_map some [] bs₁
  rw [runAcc_append, hl, List.take_left, ewm_nan_free_batching_independent q hq, hp, List.map_map]
  apply List.map_congr_left
  intro t _
  exact (ewm_nan_spec_nan_free q t).symm

/-! ### Non-vacuity -/

-- rolling(2).sum-like reduction (`agg = id` shows the windows themselves), batches [1] [] [2,3,4] []
example : (runAcc (rollStepCount 2 (fun w : List Nat => w)) [] [[1], [], [2, 3, 4], []]).2
    = [[[1]], [], [[1, 2], [2, 3], [3, 4]], []] := by decide
example : rollWhole (selCount 2) (fun w : List Nat => w) [1, 2, 3, 4] = [[1], [1, 2], [2, 3], [3, 4]] := by decide
-- a sorted index with duplicates satisfies the hypothesis of the time-window theorems
example : Sorted (fun r : Row => r.t) ([[⟨0, some 1⟩, ⟨1, none⟩], [], [⟨1, some 2⟩, ⟨3, some 1⟩]] : List (List Row)).flatten := by
  simp [Sorted]
example : (runAcc (rollStepTime (fun r : Row => r.t) 2 (fun w => w.map (·.t))) []
    [[⟨0, some 1⟩, ⟨1, none⟩], [], [⟨1, some 2⟩, ⟨3, some 1⟩]]).2 = [[[0], [0, 1]], [], [[0, 1, 1], [3]]] := by decide
-- the fixed cumulative accumulator on the witness of the defect
example : (runAcc (cumStep (fun a b : Int => a + b)) []
    [[some 1, some 3, some 2, some 1, none], [some 1, some 1]]).2.flatten
      = [some 1, some 4, some 6, some 7, none, some 8, some 9] := by decide
-- ewm with com = 1 (q = 1/2) after an empty first batch
example : (runAcc (ewmStep (1 / 2)) none [[], [1], [2, 3]]).2 = [none, some 1, some (17 / 7)] := by
  decide +kernel
example : (0 : Rat) ≤ 1 / 2 := by decide +kernel
-- NaN-aware ewm: leading NaN, consecutive NaN, trailing NaN, an empty first batch (q = 1/2)
example : (runAcc (ewmStepNan (1 / 2)) none [[], [some 1, some 2], [none, none], [some 3]]).2
    = [none, some (some (5 / 3)), some none, some none] := by decide +kernel
example : (prefixes [] [[], [none], [none, some 1], [none, none], [some 2, none]]).map (ewmAtNan (1 / 2))
    = [none, some none, some (some 1), some (some 1), some (some (17 / 9))] := by decide +kernel
-- q = 0 (alpha = 1): a NaN row repeats the previous value in pandas; the raw quotient would read 0/0
example : ewmAtNan 0 [some 2, none] = some (some 2) ∧ ewmAtNanRaw 0 [some 2, none] = some (some 0) := by
  decide +kernel
-- the hypotheses of `ewm_nan_is_absorbing` / `ewm_nan_state_is_stuck` are met by a real run
example : (none : Option Rat) ∈ [some 1, none] := by decide
example : ∃ dfs st, (runAcc (ewmStepNan (1 / 2)) none [[some 1], [none]]).1 = some (dfs, st) ∧
    st.isFirst = false ∧ st.result = some none := ⟨_, _, rfl, by decide +kernel, by decide +kernel⟩

end StreamzVerif.Rolling
