import StreamzVerif.Model.Edit
namespace StreamzVerif.Graph
theorem placeholder_C15 : True := trivial
end StreamzVerif.Graph
