import StreamzVerif.Proofs.EditInv
/-
C15 — delivery follows the current topology under connect / disconnect / destroy / gc.

Model: `Model/Edit.lean` (`connect`, `disconnect`, `destroy`, per-kind `_add_upstream` / `_remove_upstream`,
liveness `alive`, the collector `collect`) on top of `Model/Graph.lean` (the interpreter `emitAt` = `Stream._emit`).
Histories: `Op` / `stepOp` / `runOps` (Proofs/EditInv.lean §F) — the very steps the correspondence driver takes,
failed edits included; `ValidHist` only asks that `connect` is applied to streams the program holds and never
creates a parallel edge.

  1. links          `links_consistent_*` (per operation), `links_consistent` (every history),
                    `disconnect_absent_noop`, `disconnect_raises_iff_absent`, `destroy_succeeds`,
                    `destroy_is_selection_of_all`, `destroy_empty_selection_noop`, `destroy_selection_is_disconnects`,
                    `links_consistent_destroy_selection`, `destroy_selection_succeeds`
  2. per-input state `zip_state_aligned`, `combine_state_aligned`, `state_aligned_history`
  3. delivery       `delivery_follows_current_edges`
  4. combining nodes `zip_remove_drops_only_that_buffer`, `zip_is_function_of_current_inputs`,
                    `zip_after_disconnect_partial`, `zip_all_nonempty_never_emits`, `zip_stuck_after_disconnect`
                    (the recorded defect `zip-disconnect-leaves-all-buffers-nonempty`), `combine_latest_after_edit`
  5. liveness       `collect_alive_only`, `alive_upward_closed`, `alive_iff_reachable`, `no_resurrection`,
                    `dead_branch_receives_nothing`, `sink_stays_active`

`A` in `Links A S` is the set of children for which the parents' (weak) downstream sets are required to be
complete; the strong direction (`d ∈ downs u → u ∈ ups d`) and absence of duplicates hold for all nodes.
-/
namespace StreamzVerif.Graph
open Edit

variable (G : NodeId → Kind)

/-! ## 1. Upstream and downstream links are mutually consistent -/

/-- The pipelines the correspondence driver builds (node `i` of kind `kinds[i]` over the upstream list
`upss[i]`, no parallel edges) start fully consistent, with aligned per-input state. -/
theorem links_consistent_init {kinds : List Kind} {upss : List (List NodeId)} (hlen : upss.length ≤ kinds.length)
    (hnd : ∀ l ∈ upss, l.Nodup) :
    Consistent (initState kinds upss) ∧ Aligned (fun i => kinds.getD i .source) (initState kinds upss) :=
  ⟨initState_consistent hlen hnd, initState_aligned hnd⟩

/-- `u.connect(d)` (no parallel edge): consistency is kept, `d` is appended to `u`'s children and `u` to `d`'s
parents, nothing else changes. -/
theorem links_consistent_connect {A : NodeId → Prop} {S : State} (h : Links A S) {u d : NodeId}
    (h1 : d ∉ S.downs u) (h2 : u ∉ (S.loc d).ups) :
    Links A (connect G u d S) ∧
      (∀ x, (connect G u d S).downs x = if x = u then S.downs u ++ [d] else S.downs x) ∧
      (∀ x, ((connect G u d S).loc x).ups = if x = d then (S.loc d).ups ++ [u] else (S.loc x).ups) :=
  ⟨h.of_connect G h1 h2, connect_downs_new G h1, connect_ups G u d S⟩

/-- A successful `u.disconnect(d)`: consistency is kept and the edge is gone on both sides, nothing else changes. -/
theorem links_consistent_disconnect {A : NodeId → Prop} {S : State} (h : Links A S) {u d : NodeId}
    (hok : (disconnect G u d S).err = none) :
    Links A (disconnect G u d S).st ∧
      d ∉ (disconnect G u d S).st.downs u ∧ u ∉ ((disconnect G u d S).st.loc d).ups ∧
      (∀ x, (disconnect G u d S).st.downs x = if x = u then (S.downs u).erase d else S.downs x) ∧
      (∀ x, ((disconnect G u d S).st.loc x).ups = if x = d then (S.loc d).ups.erase u else (S.loc x).ups) :=
  ⟨h.of_disconnect G hok, (h.of_disconnect_removed G hok).1, (h.of_disconnect_removed G hok).2,
    disconnect_ok_downs G hok, disconnect_ok_ups G hok⟩

/-- `u.disconnect(d)` for an edge that does not exist raises `KeyError` and leaves the state unchanged. -/
theorem disconnect_absent_noop {u d : NodeId} {S : State} (h : d ∉ S.downs u) :
    (disconnect G u d S).st = S ∧ (disconnect G u d S).err = some .keyError ∧ (disconnect G u d S).log = [] :=
  disconnect_absent G h

/-- On a consistent pipeline with aligned per-input state, `disconnect` raises exactly when the edge is absent
(in particular `zip` / `combine_latest._remove_upstream` never fail half-way). -/
theorem disconnect_raises_iff_absent {A : NodeId → Prop} {S : State} (ha : Aligned G S) (hl : Links A S)
    (u d : NodeId) : (disconnect G u d S).err ≠ none ↔ d ∉ S.downs u := by
  constructor
  · intro h hd; exact h (disconnect_ok_of_edge G ha hl hd)
  · intro hd h; rw [(disconnect_absent G hd).2.1] at h; cases h

/-- A successful `d.destroy()`: consistency is kept, `d` has no parents left and is nobody's child, every other
child list is unchanged. -/
theorem links_consistent_destroy {A : NodeId → Prop} {S : State} (h : Links A S) {d : NodeId}
    (hok : (destroy G d S).err = none) :
    Links A (destroy G d S).st ∧ ((destroy G d S).st.loc d).ups = [] ∧
      (∀ u, d ∉ (destroy G d S).st.downs u) ∧ (∀ x, (destroy G d S).st.downs x = (S.downs x).erase d) :=
  ⟨h.of_destroy G hok, (h.of_destroy_isolated G hok).1, (h.of_destroy_isolated G hok).2, destroy_downs G h hok⟩

/-- ... and it does succeed on consistent, aligned pipelines (for a node whose parents still list it). -/
theorem destroy_succeeds {A : NodeId → Prop} {S : State} (ha : Aligned G S) (hl : Links A S) {d : NodeId}
    (hd : A d) : (destroy G d S).err = none := destroy_ok G ha hl hd

/-! `d.destroy(streams=sel)` cuts exactly the selected incoming edges. -/

/-- `destroy()` is `destroy(streams=<all upstreams>)`. -/
theorem destroy_is_selection_of_all (d : NodeId) (S : State) : destroy G d S = destroySel G (S.loc d).ups d S := rfl

/-- An empty selection (`destroy(streams=[])`, `destroy(streams=())`) changes nothing, logs nothing, raises nothing. -/
theorem destroy_empty_selection_noop (d : NodeId) (S : State) :
    (destroySel G [] d S).st = S ∧ (destroySel G [] d S).log = [] ∧ (destroySel G [] d S).err = none :=
  ⟨rfl, rfl, rfl⟩

/-- `destroy(streams=u :: us)` is `u.disconnect(d)` followed by `destroy(streams=us)`; a failing disconnect
(an edge that does not exist: KeyError) ends it there. -/
theorem destroy_selection_is_disconnects (u : NodeId) (us : List NodeId) (d : NodeId) (S : State) :
    destroySel G (u :: us) d S =
      (match (disconnect G u d S).err with
       | some _ => disconnect G u d S
       | none => { st := (destroySel G us d (disconnect G u d S).st).st,
                   log := (disconnect G u d S).log ++ (destroySel G us d (disconnect G u d S).st).log,
                   err := (destroySel G us d (disconnect G u d S).st).err }) := by
  simp only [destroySel, destroyLoop]
  generalize (disconnect G u d S).err = e
  cases e <;> rfl

/-- A successful `d.destroy(streams=sel)`: consistency is kept; `d`'s parents are its old parents minus the selection;
no selected stream lists `d` as a child any more; every stream outside the selection keeps its child list; no other
node's parent list changes.  In particular delivery (`delivery_follows_current_edges`) follows exactly the remaining edges. -/
theorem links_consistent_destroy_selection {A : NodeId → Prop} {S : State} (h : Links A S) {d : NodeId}
    {sel : List NodeId} (hok : (destroySel G sel d S).err = none) :
    Links A (destroySel G sel d S).st ∧
      ((destroySel G sel d S).st.loc d).ups = sel.foldl List.erase (S.loc d).ups ∧
      (∀ x, x ≠ d → ((destroySel G sel d S).st.loc x).ups = (S.loc x).ups) ∧
      (∀ u ∈ sel, d ∉ (destroySel G sel d S).st.downs u) ∧
      (∀ x, x ∉ sel → (destroySel G sel d S).st.downs x = S.downs x) := by
  refine ⟨destroyLoop_inv G (Links A) d (fun _ _ hP he => hP.of_disconnect G he) _ S h hok, ?_, ?_, ?_, ?_⟩
  · have := destroyLoop_ups_erase G d sel S hok d
    rwa [if_pos rfl] at this
  · intro x hx
    have := destroyLoop_ups_erase G d sel S hok x
    rwa [if_neg hx] at this
  · exact fun u hu => h.destroyLoop_removed G d sel S hok u hu
  · exact fun x hx => destroyLoop_downs_other G d sel S hok x hx

/-- ... and it succeeds on consistent, aligned pipelines whenever the selection lists current parents of `d`, each once. -/
theorem destroy_selection_succeeds {A : NodeId → Prop} {S : State} (ha : Aligned G S) (hl : Links A S) {d : NodeId}
    (hd : A d) {sel : List NodeId} (hn : sel.Nodup) (hs : ∀ u ∈ sel, u ∈ (S.loc d).ups) :
    (destroySel G sel d S).err = none := by
  induction sel generalizing S with
  | nil => rfl
  | cons u us ih =>
    have hu : d ∈ S.downs u := hl.bwd u d hd (hs u List.mem_cons_self)
    have he := disconnect_ok_of_edge G ha hl hu
    have hrest : (destroySel G us d (disconnect G u d S).st).err = none := by
      refine ih (ha.of_disconnect G hl he) (hl.of_disconnect G he) (List.nodup_cons.1 hn).2 ?_
      intro v hv
      rw [disconnect_ok_ups G he, if_pos rfl]
      have hvu : v ≠ u := fun hvu => (List.nodup_cons.1 hn).1 (hvu ▸ hv)
      exact (List.mem_erase_of_ne hvu).2 (hs v (List.mem_cons_of_mem _ hv))
    rw [destroy_selection_is_disconnects, he]
    exact hrest

/-- Garbage collection: consistency is kept for the nodes that are alive; dead nodes vanish from their parents'
child lists but keep their own parent lists. -/
theorem links_consistent_collect {A : NodeId → Prop} {S : State} (h : Links A S) (nodes : List NodeId) (L : Live) :
    Links (fun d => A d ∧ alive nodes L S d = true) (collect nodes L S) ∧
      (∀ i, ((collect nodes L S).loc i).ups = (S.loc i).ups) :=
  ⟨h.of_collect nodes L, fun _ => rfl⟩

/-- What `slice._check_end` (the only topology change a run can make) does: `d` leaves the child list of exactly
its parents; `d`'s own parent list is not touched. -/
theorem detach_removes_exactly (d : NodeId) (S : State) :
    (∀ u, (detachNode d S).downs u = if u ∈ (S.loc d).ups then (S.downs u).filter (· ≠ d) else S.downs u) ∧
      (detachNode d S).loc = S.loc :=
  ⟨detachNode_downs_eq d S, detachNode_loc d S⟩

/-- Every `_emit` — completed, aborted by an exception, or out of fuel — leaves all parent lists untouched,
only shrinks child lists, keeps every edge into a node that is not an end-bounded `slice`, and so keeps the links
consistent for those nodes. -/
theorem links_consistent_emit {A : NodeId → Prop} {S : State} (h : Links A S) (f : Nat) (n : NodeId) (v : Val)
    (md : Meta) :
    Links (fun d => A d ∧ ¬ BoundedSlice (G d)) (emitAt G f n v md S).st ∧
      (∀ i, ((emitAt G f n v md S).st.loc i).ups = (S.loc i).ups) ∧
      (∀ u, ((emitAt G f n v md S).st.downs u).Sublist (S.downs u)) :=
  ⟨h.of_emitAt G f n v md, fun i => (emitAt_ups G f n v md S i).1, interp_downs_sublist G f (.emit n v md) S⟩

/-- Without end-bounded slices the full equivalence survives every run. -/
theorem links_consistent_emit_static (hG : NoBoundedSlice G) {S : State} (h : Consistent S) (f : Nat) (n : NodeId)
    (v : Val) (md : Meta) : Consistent (emitAt G f n v md S).st :=
  h.of_emitAt_static G hG f n v md

/-- **Every history.**  Start from a consistent pipeline with aligned per-input state whose attached nodes are
all alive; apply any sequence of connect / disconnect / destroy / drop-reference / emit operations (failed
edits and failed emissions included), where `connect` is only applied to held streams and never creates a
parallel edge.  Then: every child lists its parent; there are no duplicate links; and for every node that is
alive and not an end-bounded slice the two directions are equivalent. -/
theorem links_consistent (nodes : List NodeId) {ops : List Op} {h0 : HState} (hc : Consistent h0.S)
    (ha : Aligned G h0.S) (hd : ∀ u d, d ∈ h0.S.downs u → alive nodes h0.L h0.S d = true)
    (hv : ValidHist G nodes ops h0) :
    (∀ u d, d ∈ (runOps G nodes ops h0).S.downs u → u ∈ ((runOps G nodes ops h0).S.loc d).ups) ∧
    (∀ u d, alive nodes (runOps G nodes ops h0).L (runOps G nodes ops h0).S d = true → ¬ BoundedSlice (G d) →
      (d ∈ (runOps G nodes ops h0).S.downs u ↔ u ∈ ((runOps G nodes ops h0).S.loc d).ups)) ∧
    (∀ u, ((runOps G nodes ops h0).S.downs u).Nodup) ∧ (∀ d, ((runOps G nodes ops h0).S.loc d).ups.Nodup) := by
  have hi := (HInv.init G nodes hc ha hd).run G nodes hv
  exact ⟨hi.links.fwd, fun u d h1 h2 => hi.links.iff ⟨h1, h2⟩ u, hi.links.nodupDowns, hi.links.nodupUps⟩

/-! ## 2. Per-input state stays aligned with `upstreams` -/

/-- `zip`: the keys of `buffers` are the upstream list (same order).  Preserved by `_add_upstream` of a new
upstream, by a successful `_remove_upstream`, and by every state `update` writes. -/
theorem zip_state_aligned {lits : List (Nat × Val)} {s : NState} (h : ZipAligned s) (hn : s.ups.Nodup) :
    (∀ u, u ∉ s.ups → ZipAligned (addUpstream (.zip lits) s u)) ∧
    (∀ u s' md, removeUpstream (.zip lits) s u = .ok (s', md) → ZipAligned s' ∧ s'.ups = s.ups.erase u) ∧
    (∀ who v md s', Eff.set s' ∈ (upd (.zip lits) s who v md).effs → ZipAligned s' ∧ s'.ups = s.ups) :=
  ⟨fun _ hu => NodeAligned.addUpstream (k := .zip lits) h hu,
   fun _ _ _ hr => ⟨NodeAligned.removeUpstream (k := .zip lits) h hn hr, (removeUpstream_ok hr).2⟩,
   fun _ _ _ _ hs => ⟨upd_set_aligned (k := .zip lits) h hn hs, (upd_set_frame hs).1⟩⟩

/-- `combine_latest`: `last` and `metadata` are index-aligned with `upstreams`, `missing ⊆ upstreams` (all three
are the upstream list mapped / filtered through per-upstream components), and `emit_on` follows `upstreams`
when it was not given.  Preserved by `_add_upstream`, successful `_remove_upstream`, and `update`. -/
theorem combine_state_aligned {eo : Option (List NodeId)} {s : NState} (h : NodeAligned (.combineLatest eo) s)
    (hn : s.ups.Nodup) :
    CLAligned s ∧
    (∀ u, u ∉ s.ups → NodeAligned (.combineLatest eo) (addUpstream (.combineLatest eo) s u)) ∧
    (∀ u s' md, removeUpstream (.combineLatest eo) s u = .ok (s', md) →
      NodeAligned (.combineLatest eo) s' ∧ s'.ups = s.ups.erase u) ∧
    (∀ who v md s', Eff.set s' ∈ (upd (.combineLatest eo) s who v md).effs →
      NodeAligned (.combineLatest eo) s' ∧ s'.ups = s.ups) := by
  obtain ⟨c, hc⟩ := h.1
  exact ⟨hc.aligned hn, fun _ hu => h.addUpstream hu,
    fun _ _ _ hr => ⟨h.removeUpstream hn hr, (removeUpstream_ok hr).2⟩,
    fun _ _ _ _ hs => ⟨upd_set_aligned h hn hs, (upd_set_frame hs).1⟩⟩

/-- ... and therefore after every history every `zip` / `combine_latest` node of the pipeline is aligned. -/
theorem state_aligned_history (nodes : List NodeId) {ops : List Op} {h0 : HState} (hc : Consistent h0.S)
    (ha : Aligned G h0.S) (hd : ∀ u d, d ∈ h0.S.downs u → alive nodes h0.L h0.S d = true)
    (hv : ValidHist G nodes ops h0) (i : NodeId) :
    (∀ lits, G i = .zip lits →
      ((runOps G nodes ops h0).S.loc i).bufs.map (·.1) = ((runOps G nodes ops h0).S.loc i).ups) ∧
    (∀ eo, G i = .combineLatest eo → CLAligned ((runOps G nodes ops h0).S.loc i) ∧
      (eo = none → ((runOps G nodes ops h0).S.loc i).emitOn = ((runOps G nodes ops h0).S.loc i).ups)) := by
  have hi := (HInv.init G nodes hc ha hd).run G nodes hv
  have := hi.aligned i
  constructor
  · intro lits hk; rw [hk] at this; exact this
  · intro eo hk
    rw [hk] at this
    obtain ⟨⟨c, hc'⟩, he⟩ := this
    exact ⟨hc'.aligned (hi.links.nodupUps i), he⟩

/-! ## 3. Elements are delivered exactly along the edges that currently exist -/

/-- **After any history** (as in `links_consistent`, connecting only towards later-created nodes so that the
pipeline stays a DAG), a successful `_emit` at `n` hands the element to exactly the current child list of `n`,
in attachment order, once each; every node it reaches lists `n` as a parent and is alive; conversely every alive
node (not an end-bounded slice) that lists `n` as a parent is reached; and every arrival anywhere in the run goes
along a current edge whose two ends agree. -/
theorem delivery_follows_current_edges (nodes : List NodeId) {ops : List Op} {h0 : HState} (hc : Consistent h0.S)
    (ha : Aligned G h0.S) (hd : ∀ u d, d ∈ h0.S.downs u → alive nodes h0.L h0.S d = true)
    (hA : Acyclic h0.S) (hv : ValidHist G nodes ops h0) (hdag : ∀ op ∈ ops, OpDag op)
    {f : Nat} {n : NodeId} {v : Val} {md : Meta}
    (he : (emitAt G f n v md (runOps G nodes ops h0).S).err = none)
    (hcar : (emitAt G f n v md (runOps G nodes ops h0).S).carried = none) :
    arrivalsFrom n (emitAt G f n v md (runOps G nodes ops h0).S).log
        = ((runOps G nodes ops h0).S.downs n).map (fun d => (d, v, md)) ∧
    (∀ d, d ∈ (runOps G nodes ops h0).S.downs n →
      n ∈ ((runOps G nodes ops h0).S.loc d).ups ∧
        alive nodes (runOps G nodes ops h0).L (runOps G nodes ops h0).S d = true) ∧
    (∀ d, alive nodes (runOps G nodes ops h0).L (runOps G nodes ops h0).S d = true → ¬ BoundedSlice (G d) →
      n ∈ ((runOps G nodes ops h0).S.loc d).ups →
        (d, v, md) ∈ arrivalsFrom n (emitAt G f n v md (runOps G nodes ops h0).S).log) ∧
    (∀ d who v' md', Ev.arrive d who v' md' ∈ (emitAt G f n v md (runOps G nodes ops h0).S).log →
      d ∈ (runOps G nodes ops h0).S.downs who ∧ who ∈ ((runOps G nodes ops h0).S.loc d).ups) := by
  have hi := (HInv.init G nodes hc ha hd).run G nodes hv
  have hA' := acyclic_runOps G nodes (ops := ops) hA hdag
  have hsnap := emit_snapshot G hA' he hcar
  refine ⟨hsnap, fun d hd' => ⟨hi.links.fwd n d hd', hi.downsAlive n d hd'⟩, fun d h1 h2 h3 => ?_,
    fun d who v' md' hm => ?_⟩
  · rw [hsnap]
    exact List.mem_map.2 ⟨d, hi.links.bwd n d ⟨h1, h2⟩ h3, rfl⟩
  · have := arrival_edge G hA' he hcar hm
    exact ⟨this, hi.links.fwd who d this⟩

/-! ## 4. Combining nodes behave like a node over their current inputs -/

/-- `zip._remove_upstream(u)` drops exactly `u`'s deque (releasing what it held); every remaining upstream keeps
its buffered elements, in the same order: the result is the node over the remaining upstreams holding the same
buffers.  `_add_upstream` of a new upstream adds one empty deque at the end. -/
theorem zip_remove_drops_only_that_buffer {lits : List (Nat × Val)} {s : NState} (h : ZipAligned s)
    (hn : s.ups.Nodup) {u : NodeId} :
    (u ∈ s.ups → removeUpstream (.zip lits) s u =
      .ok ({ s with ups := s.ups.erase u, bufs := (s.ups.erase u).map (fun w => (w, zipBuf s w)) },
           flatMd ((zipBuf s u).map (·.2)))) ∧
    (u ∉ s.ups → removeUpstream (.zip lits) s u = .error .keyError ∧
      addUpstream (.zip lits) s u =
        { s with ups := s.ups ++ [u],
                 bufs := (s.ups ++ [u]).map (fun w => (w, if w = u then [] else zipBuf s w)) }) :=
  ⟨fun hu => zip_removeUpstream (h.rep hn) hn hu,
   fun hu => ⟨zip_removeUpstream_absent (h.rep hn) hu, zip_addUpstream (h.rep hn) hu⟩⟩

/-- **zip is a function of (current upstream list, per-upstream buffers)**: over any arrivals from current
upstreams, state and outputs are those of the pure `zipRun` on the buffers.  So after any edit the node behaves
exactly like a node built over its current inputs that holds, per input, what is currently buffered for it. -/
theorem zip_is_function_of_current_inputs {lits : List (Nat × Val)} {s : NState} (h : ZipAligned s)
    (hn : s.ups.Nodup) {as : List Arr} (hw : ∀ a ∈ as, a.1 ∈ s.ups) :
    localRun (.zip lits) s as =
      ({ s with bufs := s.ups.map (fun w => (w, (zipRun lits s.ups (zipBuf s) as).1 w)) },
       (zipRun lits s.ups (zipBuf s) as).2) :=
  zip_localRun (h.rep hn) hw

/-- **After a disconnect, if some remaining buffer is empty**, the node is indistinguishable from a *fresh* zip
over the remaining upstreams that is fed the backlog (any interleaving `backlog` of the buffered elements, per
upstream in order): the fresh node emits nothing while consuming the backlog, reaches exactly the node's state,
and from then on (`later`: any arrivals) produces the same outputs and states.
Partial: the hypothesis `hempty` cannot be dropped — see `zip_stuck_after_disconnect`. -/
theorem zip_after_disconnect_partial {lits : List (Nat × Val)} {s s' : NState} {md : Meta} (h : ZipAligned s)
    (hn : s.ups.Nodup) {u : NodeId} (hr : removeUpstream (.zip lits) s u = .ok (s', md))
    {w0 : NodeId} (hw0 : w0 ∈ s'.ups) (hempty : zipBuf s w0 = [])
    {backlog : List Arr} (hfrom : ∀ a ∈ backlog, a.1 ∈ s'.ups)
    (hproj : ∀ w ∈ s'.ups, proj w backlog = zipBuf s w) (later : List Arr) :
    localRun (.zip lits) (zipFresh s') backlog = (s', []) ∧
      localRun (.zip lits) (zipFresh s') (backlog ++ later) = localRun (.zip lits) s' later := by
  have hu := (removeUpstream_ok hr).1
  have hrep : ZipRep s' (zipBuf s) := by
    rw [zip_removeUpstream (h.rep hn) hn hu] at hr
    cases hr; rfl
  have hne : ∀ a ∈ backlog, a.1 ≠ w0 := by
    intro a ha e
    have h1 : a.2 ∈ proj w0 backlog := by
      unfold proj
      exact List.mem_filterMap.2 ⟨a, ha, by rw [if_pos e]⟩
    rw [hproj w0 hw0, hempty] at h1
    cases h1
  have key : localRun (.zip lits) (zipFresh s') backlog = (s', []) := by
    have hfrom' : ∀ a ∈ backlog, a.1 ∈ (zipFresh s').ups := hfrom
    rw [zip_localRun (zipFresh_rep s') hfrom']
    have hw0' : w0 ∈ (zipFresh s').ups := hw0
    rw [zipRun_waiting lits hw0' backlog hne (fun _ => []) rfl]
    have hb : (zipFresh s').ups.map (fun w => (w, ([] : List (Val × Meta)) ++ proj w backlog)) = s'.bufs := by
      have : s'.bufs = s'.ups.map (fun w => (w, zipBuf s w)) := hrep
      rw [this]
      exact List.map_congr_left (fun w hw => by rw [List.nil_append, hproj w hw])
    simp only [hb]
    rfl
  refine ⟨key, ?_⟩
  rw [localRun_append, key]
  simp

/-- **The stuck state, in general**: once every deque of a current upstream is non-empty, no arrival from a
current upstream ever makes the node emit — `update` only fires when the sender's deque *becomes* non-empty
(`len(L) == 1 and all(self.buffers.values())`). -/
theorem zip_all_nonempty_never_emits {lits : List (Nat × Val)} {s : NState} (h : ZipAligned s) (hn : s.ups.Nodup)
    (hfull : ∀ w ∈ s.ups, (zipBuf s w).isEmpty = false) {as : List Arr} (hw : ∀ a ∈ as, a.1 ∈ s.ups) :
    (localRun (.zip lits) s as).2 = [] := by
  rw [zip_localRun (h.rep hn) hw]
  exact (zipRun_stuck lits as hw _ hfull).1

/-- the witness: `zip` over upstreams 1, 2, 3 after `1` delivered `10` and `2` delivered `20` -/
def stuckS : NState :=
  { ups := [1, 2, 3], bufs := [(1, [(.int 10, [])]), (2, [(.int 20, [])]), (3, [])] }

/-- the same node after upstream 3 (the only one with an empty deque) was disconnected -/
def stuckS' : NState :=
  { ups := [1, 2], bufs := [(1, [(.int 10, [])]), (2, [(.int 20, [])])] }

/-- **Negation of "behaves like a node over its current inputs fed what they delivered"** (known finding
`zip-disconnect-leaves-all-buffers-nonempty`).  Removing upstream 3 succeeds and leaves both remaining deques
non-empty; from then on the node emits nothing, however many elements arrive from upstream 1, from upstream 2,
or from both in any order — whereas a fresh `zip` over [1, 2] fed the backlog emits the pair (10, 20) at once. -/
theorem zip_stuck_after_disconnect :
    (removeUpstream (.zip []) stuckS 3).toOption.map (·.1.bufs) = some stuckS'.bufs ∧
    (removeUpstream (.zip []) stuckS 3).toOption.map (·.1.ups) = some stuckS'.ups ∧
    (∀ as : List Arr, (∀ a ∈ as, a.1 ∈ stuckS'.ups) → (localRun (.zip []) stuckS' as).2 = []) ∧
    (localRun (.zip []) (zipFresh stuckS') [(1, .int 10, []), (2, .int 20, [])]).2
      = [(.tup [.int 10, .int 20], [])] := by
  refine ⟨by decide +kernel, by decide +kernel, fun as has => ?_, by decide +kernel⟩
  have hal : ZipAligned stuckS' := rfl
  have hn : stuckS'.ups.Nodup := by decide
  refine zip_all_nonempty_never_emits hal hn ?_ has
  intro w hw
  have : w = 1 ∨ w = 2 := by simpa [stuckS'] using hw
  rcases this with rfl | rfl <;> rfl

/-- `combine_latest` **is a function of (current upstream list, per-upstream latest value / metadata / missing
flag)**, and the edits touch exactly one component: `_remove_upstream(u)` yields the node over the remaining
upstreams with the *same* components (releasing `u`'s metadata); `_add_upstream` of a new upstream adds a
component that is empty and missing; over any arrivals from current upstreams, state and outputs are those of
the pure `clRun` on the components. -/
theorem combine_latest_after_edit {eo : Option (List NodeId)} {s : NState} {c : CLComp} (hr : CLRep s c)
    (hn : s.ups.Nodup) :
    (∀ u, u ∈ s.ups → removeUpstream (.combineLatest eo) s u =
      .ok ({ s with ups := s.ups.erase u,
                    last := (s.ups.erase u).map c.last,
                    lastMd := (s.ups.erase u).map c.md,
                    missing := (s.ups.erase u).filter c.miss,
                    emitOn := match eo with | none => s.ups.erase u | some _ => s.emitOn },
           c.md u)) ∧
    (∀ u, u ∉ s.ups → removeUpstream (.combineLatest eo) s u = .error .valueError ∧
      CLRep (addUpstream (.combineLatest eo) s u)
        { last := fun w => if w = u then Val.none else c.last w
          md := fun w => if w = u then [] else c.md w
          miss := fun w => decide (w = u) || c.miss w }) ∧
    (∀ as : List Arr, (∀ a ∈ as, a.1 ∈ s.ups) →
      localRun (.combineLatest eo) s as =
        ({ s with last := s.ups.map (clRun s.ups s.emitOn c as).1.last,
                  lastMd := s.ups.map (clRun s.ups s.emitOn c as).1.md,
                  missing := s.ups.filter (clRun s.ups s.emitOn c as).1.miss },
         (clRun s.ups s.emitOn c as).2)) :=
  ⟨fun _ hu => cl_removeUpstream hr hn hu,
   fun _ hu => ⟨cl_removeUpstream_absent hu, hr.addUpstream hu⟩,
   fun _ hw => cl_localRun hr hn hw⟩

/-! ## 5. Unreferenced branches stop receiving, sinks stay active until destroyed -/

/-- After a collection only alive nodes are anybody's child; liveness itself is not changed by collecting. -/
theorem collect_alive_only (nodes : List NodeId) (L : Live) (S : State) :
    (∀ u d, d ∈ (collect nodes L S).downs u → alive nodes L S d = true) ∧
      alive nodes L (collect nodes L S) = alive nodes L S :=
  ⟨fun u d hd => by rw [collect_downs] at hd; exact (List.mem_filter.1 hd).2, alive_collect nodes nodes L⟩

/-- `alive` really is a fixed point (`nodes.length` rounds suffice): it contains the roots — held nodes and
registered sinks — and is closed upwards: whatever an alive node of the program holds (its `upstreams`, the
streams of `emit_on`) is alive. -/
theorem alive_upward_closed (nodes : List NodeId) (L : Live) (S : State) :
    (∀ i, L.held i = true ∨ L.sinkReg i = true → alive nodes L S i = true) ∧
    (∀ c u, c ∈ nodes → alive nodes L S c = true → u ∈ (S.loc c).ups → alive nodes L S u = true) ∧
    (∀ i, aliveStep nodes S (alive nodes L S) i = alive nodes L S i) :=
  ⟨fun _ h => alive_of_root nodes h,
   fun _ _ hc ha hu => alive_closed nodes hc ha (keeps_iff.2 (.inl hu)),
   alive_stable nodes L S⟩

/-- ... and it is the *least* such set: a node is alive iff it is reachable upwards from a root.  In particular
a node that is neither held, nor a registered sink, nor kept by an alive node, is not alive. -/
theorem alive_iff_reachable (nodes : List NodeId) (L : Live) (S : State) (i : NodeId) :
    (alive nodes L S i = true ↔ Kept nodes L S i) ∧
    (alive nodes L S i = true → L.held i = true ∨ L.sinkReg i = true ∨
      ∃ c ∈ nodes, alive nodes L S c = true ∧ (i ∈ (S.loc c).ups ∨ i ∈ (S.loc c).emitOn)) :=
  ⟨alive_iff_kept nodes, fun h => by
    rcases alive_cases nodes h with h | h | ⟨c, hc, h1, h2⟩
    · exact .inl h
    · exact .inr (.inl h)
    · exact .inr (.inr ⟨c, hc, h1, keeps_iff.1 h2⟩)⟩

/-- No operation of a valid history resurrects a node: what is alive afterwards was alive before (so a branch
that died stays dead; `connect` cannot revive one because the program can only connect streams it holds). -/
theorem no_resurrection (nodes : List NodeId) {h : HState} (hi : HInv G nodes h) (op : Op) (hok : OpOk op h)
    {i : NodeId} (hal : alive nodes (stepOp G nodes op h).L (stepOp G nodes op h).S i = true) :
    alive nodes h.L h.S i = true ∧ HInv G nodes (stepOp G nodes op h) :=
  ⟨alive_step_le G nodes hi op hok hal, hi.step G nodes op hok⟩

/-- **A branch that is no longer referenced stops receiving data**: after any valid history, a node that is
not alive (not held, not a registered sink, not kept by an alive node) is nobody's child, and no `_emit`
anywhere in the pipeline produces an arrival at it. -/
theorem dead_branch_receives_nothing (nodes : List NodeId) {ops : List Op} {h0 : HState} (hc : Consistent h0.S)
    (ha : Aligned G h0.S) (hd : ∀ u d, d ∈ h0.S.downs u → alive nodes h0.L h0.S d = true)
    (hA : Acyclic h0.S) (hv : ValidHist G nodes ops h0) (hdag : ∀ op ∈ ops, OpDag op)
    {d : NodeId} (hdead : alive nodes (runOps G nodes ops h0).L (runOps G nodes ops h0).S d = false)
    {f : Nat} {n : NodeId} {v : Val} {md : Meta}
    (he : (emitAt G f n v md (runOps G nodes ops h0).S).err = none)
    (hcar : (emitAt G f n v md (runOps G nodes ops h0).S).carried = none) :
    (∀ u, d ∉ (runOps G nodes ops h0).S.downs u) ∧
    ∀ who v' md', Ev.arrive d who v' md' ∉ (emitAt G f n v md (runOps G nodes ops h0).S).log := by
  have hi := (HInv.init G nodes hc ha hd).run G nodes hv
  have hA' := acyclic_runOps G nodes (ops := ops) hA hdag
  have hno : ∀ u, d ∉ (runOps G nodes ops h0).S.downs u := by
    intro u hu
    rw [hi.downsAlive u d hu] at hdead
    cases hdead
  exact ⟨hno, fun who v' md' hm => hno who (arrival_edge G hA' he hcar hm)⟩

/-- A sink stays registered — hence alive, hence attached to all its parents, hence served by every emission of
each of them — until a `destroy` of that very sink occurs in the history, whether or not the program still
holds a reference to it. -/
theorem sink_stays_active (nodes : List NodeId) {ops : List Op} {h0 : HState} (hc : Consistent h0.S)
    (ha : Aligned G h0.S) (hd : ∀ u d, d ∈ h0.S.downs u → alive nodes h0.L h0.S d = true)
    (hA : Acyclic h0.S) (hv : ValidHist G nodes ops h0) (hdag : ∀ op ∈ ops, OpDag op)
    {d : NodeId} {m : SinkMode} (hk : G d = .sink m) (hreg : h0.L.sinkReg d = true)
    (hnd : Op.destroy d ∉ ops) :
    alive nodes (runOps G nodes ops h0).L (runOps G nodes ops h0).S d = true ∧
    ∀ n, n ∈ ((runOps G nodes ops h0).S.loc d).ups →
      d ∈ (runOps G nodes ops h0).S.downs n ∧
      ∀ f v md, (emitAt G f n v md (runOps G nodes ops h0).S).err = none →
        (emitAt G f n v md (runOps G nodes ops h0).S).carried = none →
        (d, v, md) ∈ arrivalsFrom n (emitAt G f n v md (runOps G nodes ops h0).S).log := by
  have hi := (HInv.init G nodes hc ha hd).run G nodes hv
  have hA' := acyclic_runOps G nodes (ops := ops) hA hdag
  have hreg' : (runOps G nodes ops h0).L.sinkReg d = true := by rw [sinkReg_runOps G nodes ops h0 d hnd]; exact hreg
  have hal := alive_of_root nodes (S := (runOps G nodes ops h0).S) (.inr hreg')
  have hnb : ¬ BoundedSlice (G d) := by
    rintro ⟨a, e, c, h1, _⟩; rw [hk] at h1; cases h1
  refine ⟨hal, fun n hn => ?_⟩
  have hmem := hi.links.bwd n d ⟨hal, hnb⟩ hn
  refine ⟨hmem, fun f v md he hcar => ?_⟩
  rw [emit_snapshot G hA' he hcar]
  exact List.mem_map.2 ⟨d, hmem, rfl⟩

/-! ## Non-vacuity: a concrete 4-node pipeline

`source 0`, `source 1`, `zip(0, 1) = 2`, `sink 3` below the zip; the program holds all four, the sink is
registered in `_global_sinks`. -/

def c15Kinds : List Kind := [.source, .source, .zip [], .sink (.sync .id)]
def c15Upss : List (List NodeId) := [[], [], [0, 1], [2]]
def c15G : NodeId → Kind := fun i => c15Kinds.getD i .source
def c15Nodes : List NodeId := [0, 1, 2, 3]
def c15H0 : HState :=
  { S := initState c15Kinds c15Upss, L := { held := fun _ => true, sinkReg := fun i => i == 3 } }

theorem c15_consistent : Consistent c15H0.S := (links_consistent_init (by decide) (by decide)).1
theorem c15_aligned : Aligned c15G c15H0.S := (links_consistent_init (by decide) (by decide)).2
theorem c15_downsAlive : ∀ u d, d ∈ c15H0.S.downs u → alive c15Nodes c15H0.L c15H0.S d = true :=
  fun _ _ _ => alive_of_root c15Nodes (.inl rfl)
theorem c15_acyclic : Acyclic c15H0.S := by
  intro u d h
  have h' := (initState_downs c15Kinds c15Upss u d).1 h
  obtain ⟨hlt, hu⟩ := h'
  have hd : d = 0 ∨ d = 1 ∨ d = 2 ∨ d = 3 := by
    simp only [c15Kinds, List.length_cons, List.length_nil] at hlt; unfold NodeId at *; omega
  rcases hd with rfl | rfl | rfl | rfl <;> simp [c15Upss] at hu <;> (unfold NodeId at *; omega)

/-- data flows, then the pipeline is edited: the element of source 0 is buffered in the zip; source 1 is
disconnected (per-input state exists for the *other* input); a second disconnect fails; source 1 is connected
again; all of it a valid history. -/
def c15Ops : List Op :=
  [.emit 50 0 (.int 10) [], .disconnect 1 2, .disconnect 1 2, .connect 1 2]

theorem c15_valid : ValidHist c15G c15Nodes c15Ops c15H0 :=
  ⟨trivial, trivial, trivial, ⟨by decide +kernel, by decide +kernel, by decide +kernel, by decide +kernel⟩, trivial⟩

theorem c15_dag : ∀ op ∈ c15Ops, OpDag op := by
  intro op h
  simp only [c15Ops, List.mem_cons, List.not_mem_nil, or_false] at h
  rcases h with rfl | rfl | rfl | rfl <;> simp [OpDag]

/-- the second `disconnect` is the absent-edge no-op of `disconnect_absent_noop` -/
example : (disconnect c15G 1 2 (runOps c15G c15Nodes (c15Ops.take 2) c15H0).S).err = some .keyError := by
  decide +kernel
/-- ... the first one succeeded, after data had flowed -/
example : (disconnect c15G 1 2 (runOps c15G c15Nodes (c15Ops.take 1) c15H0).S).err = none ∧
    ((runOps c15G c15Nodes (c15Ops.take 1) c15H0).S.loc 2).bufs = [(0, [(.int 10, [])]), (1, [])] := by
  decide +kernel
/-- the links after the history: 1 was re-attached (so it is now the *last* parent of the zip) -/
example : (runOps c15G c15Nodes c15Ops c15H0).S.downs 0 = [2] ∧
    (runOps c15G c15Nodes c15Ops c15H0).S.downs 1 = [2] ∧
    ((runOps c15G c15Nodes c15Ops c15H0).S.loc 2).ups = [0, 1] ∧
    ((runOps c15G c15Nodes c15Ops c15H0).S.loc 2).bufs = [(0, [(.int 10, [])]), (1, [])] := by
  decide +kernel
/-- the conclusions of the history theorems hold of it -/
example := links_consistent c15G c15Nodes c15_consistent c15_aligned c15_downsAlive c15_valid
example : (emitAt c15G 50 1 (.int 20) [] (runOps c15G c15Nodes c15Ops c15H0).S).err = none ∧
    (emitAt c15G 50 1 (.int 20) [] (runOps c15G c15Nodes c15Ops c15H0).S).carried = none := by decide +kernel
example := delivery_follows_current_edges c15G c15Nodes c15_consistent c15_aligned c15_downsAlive c15_acyclic
  c15_valid c15_dag (f := 50) (n := 1) (v := .int 20) (md := []) (by decide +kernel) (by decide +kernel)
/-- ... and the sink gets the pair: the zip behaved like a zip over (0, 1) holding 10 for input 0 -/
example : arrivalsAt 3 (emitAt c15G 50 1 (.int 20) [] (runOps c15G c15Nodes c15Ops c15H0).S).log
    = [(2, .tup [.int 10, .int 20], [])] := by decide +kernel

/-- `destroy(streams=[1])` on the zip of the example pipeline: succeeds, the zip keeps parent 0 only, source 1 loses its child,
source 0 keeps it; `destroy(streams=[])` leaves everything as it is (hypotheses of `links_consistent_destroy_selection` /
`destroy_selection_succeeds` are satisfiable) -/
example : (destroySel c15G [1] 2 c15H0.S).err = none ∧ ((destroySel c15G [1] 2 c15H0.S).st.loc 2).ups = [0] ∧
    (destroySel c15G [1] 2 c15H0.S).st.downs 0 = [2] ∧ (destroySel c15G [1] 2 c15H0.S).st.downs 1 = [] ∧
    ((destroySel c15G [] 2 c15H0.S).st.loc 2).ups = [0, 1] := by decide +kernel

/-- The recorded defect at pipeline level: after `emit 0 10; disconnect 1 2` the zip is a zip over source 0
alone whose only deque is non-empty; nothing source 0 emits afterwards ever reaches the sink. -/
example :
    let S := (runOps c15G c15Nodes [.emit 50 0 (.int 10) [], .disconnect 1 2, .emit 50 0 (.int 11) []] c15H0).S
    ((S.loc 2).ups = [0] ∧ (S.loc 2).bufs = [(0, [(.int 10, []), (.int 11, [])])]) ∧
    (emitAt c15G 50 0 (.int 12) [] S).err = none ∧ arrivalsAt 3 (emitAt c15G 50 0 (.int 12) [] S).log = [] := by
  decide +kernel

/-- liveness: the program destroys the sink and forgets sink and zip — the whole branch below the sources dies,
the sources (still held) lose their child, and an emission reaches nobody -/
def c15Forget : List Op := [.destroy 3, .drop 3, .drop 2]

example :
    let h := runOps c15G c15Nodes c15Forget c15H0
    (alive c15Nodes h.L h.S 2 = false ∧ alive c15Nodes h.L h.S 3 = false ∧ alive c15Nodes h.L h.S 0 = true) ∧
    h.S.downs 0 = [] ∧ h.S.downs 1 = [] ∧ (h.S.loc 2).ups = [0, 1] ∧
    (emitAt c15G 50 0 (.int 1) [] h.S).err = none ∧ arrivalsFrom 0 (emitAt c15G 50 0 (.int 1) [] h.S).log = [] := by
  decide +kernel

/-- ... whereas an undestroyed sink keeps the whole branch alive although nobody holds it
(`sink_stays_active`: its hypotheses are satisfiable) -/
example :
    let h := runOps c15G c15Nodes [.drop 3, .drop 2] c15H0
    (alive c15Nodes h.L h.S 2 = true ∧ alive c15Nodes h.L h.S 3 = true) ∧ h.S.downs 0 = [2] ∧ h.S.downs 2 = [3] := by
  decide +kernel
example := sink_stays_active c15G c15Nodes (ops := [.drop 3, .drop 2]) c15_consistent c15_aligned c15_downsAlive
  c15_acyclic ⟨trivial, trivial, trivial⟩ (by intro op h; simp at h; rcases h with rfl | rfl <;> simp [OpDag])
  (d := 3) (m := .sync .id) rfl rfl (by intro h; simp at h)

/-- `zip_after_disconnect_partial` is not vacuous: zip over 1, 2, 3 holding 10 for input 1, nothing for 2 and 3;
disconnect 3; the backlog is the single arrival (1, 10) -/
example : removeUpstream (.zip [])
      { ups := [1, 2, 3], bufs := [(1, [(.int 10, [])]), (2, []), (3, [])] } 3 =
    .ok ({ ups := [1, 2], bufs := [(1, [(.int 10, [])]), (2, [])] }, []) ∧
    proj 1 [(1, .int 10, [])] = [(.int 10, [])] ∧ proj 2 [(1, .int 10, [])] = [] := by
  refine ⟨rfl, by decide +kernel, by decide +kernel⟩

/-- `combine_latest_after_edit`: a node over (0, 1) that has 5 from input 0 and nothing from input 1 -/
example : CLRep { ups := [0, 1], last := [.int 5, .none], lastMd := [[], []], missing := [1], emitOn := [0, 1] }
    { last := fun w => if w = 0 then .int 5 else .none, md := fun _ => [], miss := fun w => w == 1 } :=
  ⟨rfl, rfl, rfl⟩

end StreamzVerif.Graph
