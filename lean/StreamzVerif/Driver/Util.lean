import Lean.Data.Json
/-! Line-protocol plumbing shared by the model drivers (not part of any proof). -/
namespace StreamzVerif.Driver
open Lean

def getStr (j : Json) (k : String) : Option String := (j.getObjValAs? String k).toOption
def getInt (j : Json) (k : String) : Option Int := (j.getObjValAs? Int k).toOption
def getNat (j : Json) (k : String) : Option Nat := (j.getObjValAs? Nat k).toOption
def getBool (j : Json) (k : String) : Option Bool := (j.getObjValAs? Bool k).toOption
def getArr (j : Json) (k : String) : Option (Array Json) :=
  match j.getObjVal? k with
  | .ok (.arr a) => some a
  | _ => none
def getNatList (j : Json) (k : String) : Option (List Nat) := (j.getObjValAs? (List Nat) k).toOption
def getIntList (j : Json) (k : String) : Option (List Int) := (j.getObjValAs? (List Int) k).toOption

def badOp (why : String) : Json := Json.mkObj [("bad-op", Json.str why)]

/-- Generic read-eval-print loop: `step` consumes one parsed line and the state,
returns new state and the answer.  A line that is not JSON answers `bad-op`. -/
partial def loop {σ : Type} (h : IO.FS.Stream) (out : IO.FS.Stream) (step : σ → Json → σ × Json) (s : σ) : IO Unit := do
  let line ← h.getLine
  if line.isEmpty then return ()
  match Json.parse line with
  | .error e =>
    out.putStrLn (badOp ("parse: " ++ e)).compress
    loop h out step s
  | .ok j =>
    let (s', ans) := step s j
    out.putStrLn ans.compress
    loop h out step s'

def runLoop {σ : Type} (step : σ → Json → σ × Json) (init : σ) : IO Unit := do
  let stdin ← IO.getStdin
  let stdout ← IO.getStdout
  loop stdin stdout step init
  stdout.flush

end StreamzVerif.Driver
