import StreamzVerif.Model.TextFile
/-! Helper lemmas for C17 (from_textfile / filenames). Core Lean only. -/
namespace StreamzVerif.TextFile

theorem split_nil_delim (t : Text) : split [] t = [t] := by
  unfold split; simp

theorem split_of_cut_none {d t : Text} (h : cut d t = none) : split d t = [t] := by
  unfold split
  split
  · rfl
  · split
    · rfl
    · next b a hc => rw [h] at hc; cases hc

theorem split_of_cut_some {d t b a : Text} (hd : d ≠ []) (h : cut d t = some (b, a)) :
    split d t = b :: split d a := by
  rw [split]
  simp only [hd, ↓reduceDIte]
  split
  · next hc => rw [h] at hc; cases hc
  · next b' a' hc => rw [h] at hc; cases hc; rfl

theorem split_ne_nil (d t : Text) : split d t ≠ [] := by
  by_cases hd : d = []
  · subst hd; simp [split_nil_delim]
  · cases hc : cut d t with
    | none => simp [split_of_cut_none hc]
    | some p => obtain ⟨b, a⟩ := p; simp [split_of_cut_some hd hc]

/-- The first occurrence of `d` in `a` is still the first occurrence in `a ++ x`. -/
theorem cut_append {d a b r : Text} (x : Text) (h : cut d a = some (b, r)) :
    cut d (a ++ x) = some (b, r ++ x) := by
  induction a generalizing b r with
  | nil => simp [cut] at h
  | cons c t ih =>
    unfold cut at h
    split at h
    · next hp =>
      simp only [Option.some.injEq, Prod.mk.injEq] at h
      obtain ⟨rfl, rfl⟩ := h
      have hpre := List.isPrefixOf_iff_prefix.mp hp
      have hp' : d.isPrefixOf (c :: (t ++ x)) = true := by
        apply List.isPrefixOf_iff_prefix.mpr
        have : c :: (t ++ x) = (c :: t) ++ x := rfl
        rw [this]
        exact List.IsPrefix.trans hpre (List.prefix_append _ _)
      have hlen : d.length ≤ (c :: t).length := List.IsPrefix.length_le hpre
      show cut d (c :: (t ++ x)) = _
      unfold cut
      simp only [hp', ↓reduceIte, Option.some.injEq, Prod.mk.injEq, true_and]
      have : c :: (t ++ x) = (c :: t) ++ x := rfl
      rw [this, List.drop_append_of_le_length hlen]
    · next hnp =>
      split at h
      · simp at h
      · next b' a' hc =>
        simp only [Option.some.injEq, Prod.mk.injEq] at h
        obtain ⟨rfl, rfl⟩ := h
        have hs := cut_sound hc
        have hlen : d.length ≤ (c :: t).length := by
          rw [hs]; simp; omega
        have hnp' : ¬ d.isPrefixOf (c :: (t ++ x)) = true := by
          intro hq
          apply hnp
          have hq' := List.isPrefixOf_iff_prefix.mp hq
          apply List.isPrefixOf_iff_prefix.mpr
          have e : c :: (t ++ x) = (c :: t) ++ x := rfl
          rw [e] at hq'
          exact List.prefix_of_prefix_length_le hq' (List.prefix_append _ _) hlen
        show cut d (c :: (t ++ x)) = _
        unfold cut
        simp only [hnp', Bool.false_eq_true, ↓reduceIte, ih hc]

/-- Central chunking lemma: splitting `a ++ x` is splitting `a`, keeping all but
the last part, and continuing with `last ++ x`. -/
theorem split_append (d : Text) (hd : d ≠ []) (a x : Text) :
    split d (a ++ x) =
      (split d a).dropLast ++ split d ((split d a).getLast?.getD [] ++ x) := by
  generalize hn : a.length = n
  induction n using Nat.strongRecOn generalizing a with
  | _ n ih =>
    cases hc : cut d a with
    | none =>
      simp [split_of_cut_none hc]
    | some p =>
      obtain ⟨b, r⟩ := p
      have hlt := cut_length hd hc
      rw [split_of_cut_some hd hc, split_of_cut_some hd (cut_append x hc)]
      rw [ih r.length (by omega) r rfl]
      have hne := split_ne_nil d r
      rw [List.dropLast_cons_of_ne_nil hne]
      simp only [List.cons_append, List.cons.injEq, true_and]
      congr 3
      cases hs : split d r with
      | nil => exact absurd hs hne
      | cons y ys => simp [List.getLast?_cons_cons]

end StreamzVerif.TextFile
