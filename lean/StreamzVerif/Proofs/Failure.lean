import StreamzVerif.Proofs.Propagate
/-
C16 helper lemmas: failures on the dataflow model (`Model/Graph.lean`).

  A. node level: a failing `upd` performs no `.set` and no `.emit` (`upd_err_effs`), `survivors`
  B. interpreter level: frame equations for failing / succeeding sub-calls, reference-count events are not
     `raised` events, the log of a failing run ends with the `raised` event, without coroutine kinds a `raised`
     event is the error of the whole run
  C. reference counts on unbuffered graphs
-/
namespace StreamzVerif.Graph

/-! ### A. Node level -/

/-- kinds whose `update` takes a reference on the arriving metadata before doing anything else
(`self._retain_refs(metadata)` is the first statement of their `update`) -/
def retainsFirst : Kind → Bool
  | .partition .. | .partitionUnique .. | .slidingWindow .. | .collect | .zip _ | .combineLatest _
  | .zipLatest => true
  | _ => false

/-- Every failing `update` body, of every kind: the only thing it did before raising is the initial retain
(if the kind has one).  No `.set`, no `.emit`, no `.release`, no `.detach`. -/
theorem upd_err_effs {k : Kind} {s : NState} {who : NodeId} {v : Val} {md : Meta} {e : Err}
    (h : (upd k s who v md).err = some e) :
    (upd k s who v md).effs = if retainsFirst k then [.retain md] else [] := by
  cases k with
  | pluck p =>
    cases p <;> simp only [upd, raise, retainsFirst] at h ⊢ <;> split at h <;> simp_all
  | partition n key =>
    cases key <;> simp only [upd, raise, retainsFirst] at h ⊢ <;> (repeat' split at h) <;> simp_all
  | _ =>
    simp only [upd, raise, retainsFirst] at h ⊢
    repeat' split at h
    all_goals simp_all

theorem upd_err_finalLoc {k : Kind} {s : NState} {who : NodeId} {v : Val} {md : Meta} {e : Err}
    (h : (upd k s who v md).err = some e) : finalLoc (upd k s who v md).effs s = s := by
  rw [upd_err_effs h]; split <;> rfl

theorem upd_err_outsOf {k : Kind} {s : NState} {who : NodeId} {v : Val} {md : Meta} {e : Err}
    (h : (upd k s who v md).err = some e) : outsOf (upd k s who v md).effs = [] := by
  rw [upd_err_effs h]; split <;> rfl

/-- the arrival `a` makes the node's own code raise in state `s` -/
def failsAt (k : Kind) (s : NState) (a : Arr) : Bool := (upd k s a.1 a.2.1 a.2.2).err.isSome

theorem stepLoc_of_fails {k : Kind} {s : NState} {a : Arr} (h : failsAt k s a = true) :
    stepLoc k s a = (s, []) := by
  unfold failsAt at h
  obtain ⟨e, he⟩ := Option.isSome_iff_exists.1 h
  simp only [stepLoc, upd_err_finalLoc he, upd_err_outsOf he]

/-- the arrivals on which the node's code did not raise (the state is threaded: whether an arrival fails may
depend on the state, e.g. `accumulate`) -/
def survivors (k : Kind) : NState → List Arr → List Arr
  | _, [] => []
  | s, a :: as => if failsAt k s a then survivors k s as else a :: survivors k (stepLoc k s a).1 as

/-- none of the arrivals fails when the node is run over the list -/
def NoFail (k : Kind) : NState → List Arr → Prop
  | _, [] => True
  | s, a :: as => failsAt k s a = false ∧ NoFail k (stepLoc k s a).1 as

theorem localRun_survivors (k : Kind) (s : NState) (as : List Arr) :
    localRun k s as = localRun k s (survivors k s as) := by
  induction as generalizing s with
  | nil => rfl
  | cons a as ih =>
    unfold survivors
    by_cases h : failsAt k s a = true
    · rw [if_pos h]
      simp only [localRun, stepLoc_of_fails h, List.nil_append]
      exact ih s
    · rw [if_neg h]
      simp only [localRun]
      rw [ih]

theorem survivors_noFail (k : Kind) (s : NState) (as : List Arr) : NoFail k s (survivors k s as) := by
  induction as generalizing s with
  | nil => trivial
  | cons a as ih =>
    unfold survivors
    by_cases h : failsAt k s a = true
    · rw [if_pos h]; exact ih s
    · rw [if_neg h]; exact ⟨by simpa using h, ih _⟩

theorem survivors_of_noFail (k : Kind) (s : NState) (as : List Arr) (h : NoFail k s as) :
    survivors k s as = as := by
  induction as generalizing s with
  | nil => rfl
  | cons a as ih =>
    obtain ⟨h1, h2⟩ := h
    unfold survivors
    rw [h1]; simp only [Bool.false_eq_true, if_false]; rw [ih _ h2]

/-- When failing is a property `bad` of the arrival alone on all states satisfying an invariant `I` of the
node, the survivors are the list with the `bad` arrivals filtered out. -/
theorem survivors_eq_filter (k : Kind) (I : NState → Prop) (bad : Arr → Bool)
    (hstep : ∀ s a, I s → I (stepLoc k s a).1)
    (hbad : ∀ s a, I s → failsAt k s a = bad a) (s : NState) (hs : I s) (as : List Arr) :
    survivors k s as = as.filter (fun a => !bad a) := by
  induction as generalizing s with
  | nil => rfl
  | cons a as ih =>
    unfold survivors
    rw [hbad s a hs]
    cases hb : bad a with
    | true => simp [hb, ih s hs]
    | false => simp [hb, ih _ (hstep s a hs)]

/-! ### B. Interpreter level -/

variable (G : NodeId → Kind)

/-- reference-count events -/
def Ev.isRc : Ev → Prop
  | .retain .. => True
  | .release _ => True
  | .fire _ => True
  | _ => False

def RcL (l : List Ev) : Prop := ∀ e ∈ l, e.isRc

theorem RcL.nil : RcL [] := fun _ h => by simp at h

theorem retainMd_rc (k : Nat) (md : Meta) (S : State) : RcL (retainMd k md S).2 := by
  induction md generalizing S with
  | nil => exact RcL.nil
  | cons m ms ih =>
    unfold retainMd
    split
    · exact ih S
    · intro e he
      simp only [List.mem_cons] at he
      rcases he with rfl | he
      · trivial
      · exact ih _ e he

theorem releaseMd_rc (md : Meta) (S : State) : RcL (releaseMd md S).2 := by
  induction md generalizing S with
  | nil => exact RcL.nil
  | cons m ms ih =>
    unfold releaseMd
    split
    · exact ih S
    · intro e he
      simp only [List.mem_cons] at he
      rcases he with rfl | he
      · trivial
      · split at he
        · simp only [List.mem_cons] at he
          rcases he with rfl | he
          · trivial
          · exact ih _ e he
        · exact ih _ e he

theorem emitPre_rc (S : State) (n : NodeId) (md : Meta) : RcL (emitPre S n md).2 := by
  unfold emitPre; split
  · exact RcL.nil
  · exact retainMd_rc _ _ _

theorem etrPost_rc (md : Meta) (toks : List Tok) (S : State) : RcL (etrPost md toks S).2 := by
  unfold etrPost; split
  · exact releaseMd_rc _ _
  · exact RcL.nil

theorem RcL.not_raised {l : List Ev} (h : RcL l) (d : NodeId) (e : Err) : Ev.raised d e ∉ l :=
  fun hm => h _ hm

/-! frame equations, split by the outcome of the sub-call -/

theorem deliver_cons_err {f : Nat} {d : NodeId} {ds : List NodeId} {n : NodeId} {v : Val} {md : Meta}
    {S : State} {e : Err} (h : (update G f d n v md S).err = some e) :
    deliver G (f + 1) (d :: ds) n v md S = update G f d n v md S := by
  rw [deliver_cons]; simp only [h]

theorem deliver_cons_ok {f : Nat} {d : NodeId} {ds : List NodeId} {n : NodeId} {v : Val} {md : Meta}
    {S : State} (h : (update G f d n v md S).err = none) :
    deliver G (f + 1) (d :: ds) n v md S =
      { st := (deliver G f ds n v md (releaseMd md (update G f d n v md S).st).1).st
        log := (update G f d n v md S).log ++ (releaseMd md (update G f d n v md S).st).2
                ++ (deliver G f ds n v md (releaseMd md (update G f d n v md S).st).1).log
        toks := (update G f d n v md S).toks
                ++ (deliver G f ds n v md (releaseMd md (update G f d n v md S).st).1).toks
        err := (deliver G f ds n v md (releaseMd md (update G f d n v md S).st).1).err
        carried := (update G f d n v md S).carried
                <|> (deliver G f ds n v md (releaseMd md (update G f d n v md S).st).1).carried } := by
  rw [deliver_cons]; simp only [h]

theorem runEffs_emit_err {f : Nat} {d : NodeId} {v : Val} {md : Meta} {es : List Eff} {S : State} {e : Err}
    (h : (emitAt G f d v md S).err = some e) :
    runEffs G (f + 1) d (.emit v md :: es) S = emitAt G f d v md S := by
  rw [runEffs_cons]; simp only [h]

theorem runEffs_emit_ok {f : Nat} {d : NodeId} {v : Val} {md : Meta} {es : List Eff} {S : State}
    (h : (emitAt G f d v md S).err = none) :
    runEffs G (f + 1) d (.emit v md :: es) S =
      { st := (runEffs G f d es (emitAt G f d v md S).st).st
        log := (emitAt G f d v md S).log ++ (runEffs G f d es (emitAt G f d v md S).st).log
        toks := (emitAt G f d v md S).toks ++ (runEffs G f d es (emitAt G f d v md S).st).toks
        err := (runEffs G f d es (emitAt G f d v md S).st).err
        carried := (emitAt G f d v md S).carried <|> (runEffs G f d es (emitAt G f d v md S).st).carried } := by
  rw [runEffs_cons]; simp only [h]

theorem runEffs_etr_err {f : Nat} {d : NodeId} {v : Val} {md : Meta} {es : List Eff} {S : State} {e : Err}
    (h : (emitAt G f d v md S).err = some e) :
    runEffs G (f + 1) d (.emitThenRelease v md :: es) S = emitAt G f d v md S := by
  rw [runEffs_cons]; simp only [h]

theorem runEffs_etr_carried {f : Nat} {d : NodeId} {v : Val} {md : Meta} {es : List Eff} {S : State} {e : Err}
    (h : (emitAt G f d v md S).err = none) (hc : (emitAt G f d v md S).carried = some e) :
    runEffs G (f + 1) d (.emitThenRelease v md :: es) S = emitAt G f d v md S := by
  rw [runEffs_cons]; simp only [h, hc]

theorem runEffs_etr_ok {f : Nat} {d : NodeId} {v : Val} {md : Meta} {es : List Eff} {S : State}
    (h : (emitAt G f d v md S).err = none) (hc : (emitAt G f d v md S).carried = none) :
    runEffs G (f + 1) d (.emitThenRelease v md :: es) S =
      { st := (runEffs G f d es (etrPost md (emitAt G f d v md S).toks (emitAt G f d v md S).st).1).st
        log := (emitAt G f d v md S).log ++ (etrPost md (emitAt G f d v md S).toks (emitAt G f d v md S).st).2
                ++ (runEffs G f d es (etrPost md (emitAt G f d v md S).toks (emitAt G f d v md S).st).1).log
        toks := (emitAt G f d v md S).toks
                ++ (runEffs G f d es (etrPost md (emitAt G f d v md S).toks (emitAt G f d v md S).st).1).toks
        err := (runEffs G f d es (etrPost md (emitAt G f d v md S).toks (emitAt G f d v md S).st).1).err
        carried :=
          (runEffs G f d es (etrPost md (emitAt G f d v md S).toks (emitAt G f d v md S).st).1).carried } := by
  rw [runEffs_cons]; simp only [h, hc]

/-- the exception an `update` frame sees before the coroutine wrapper: from the body's emissions, else its own -/
def updErr0 (u : UpdRes) (r : Res) : Option Err :=
  match r.err with
  | some e => some e
  | none => u.err

/-- the `raised` event an `update` frame appends: only when its own code raised -/
def updTail (d : NodeId) (u : UpdRes) (r : Res) : List Ev :=
  match r.err with
  | some _ => []
  | none => match u.err with
    | some e => [Ev.raised d e]
    | none => []

theorem updWrap_log (k : Kind) (d who : NodeId) (v : Val) (md : Meta) (u : UpdRes) (r : Res) :
    (updWrap k d who v md u r).log = Ev.arrive d who v md :: r.log ++ updTail d u r := by
  unfold updWrap updTail
  cases r.err <;> cases u.err <;> simp only [] <;> split <;> (try split) <;> simp

theorem updWrap_err_plain {k : Kind} (hk : isCoroutine k = false) (d who : NodeId) (v : Val) (md : Meta)
    (u : UpdRes) (r : Res) : (updWrap k d who v md u r).err = updErr0 u r := by
  unfold updWrap updErr0
  cases r.err <;> cases u.err <;> simp [hk]

theorem updWrap_carried_plain {k : Kind} (hk : isCoroutine k = false) (d who : NodeId) (v : Val) (md : Meta)
    (u : UpdRes) (r : Res) : (updWrap k d who v md u r).carried = r.carried := by
  unfold updWrap
  cases r.err <;> cases u.err <;> simp [hk]

theorem updWrap_err_co {k : Kind} (hk : isCoroutine k = true) (d who : NodeId) (v : Val) (md : Meta)
    (u : UpdRes) (r : Res) :
    (updWrap k d who v md u r).err = (if updErr0 u r = some .outOfFuel then some .outOfFuel else none) := by
  unfold updWrap updErr0
  cases hr : r.err with
  | some e => cases e <;> simp [hk]
  | none =>
    cases hu : u.err with
    | some e => cases e <;> simp [hk]
    | none => simp [hk]

theorem updWrap_carried_co {k : Kind} (hk : isCoroutine k = true) (d who : NodeId) (v : Val) (md : Meta)
    (u : UpdRes) (r : Res) :
    (updWrap k d who v md u r).carried =
      (match updErr0 u r with
       | some .outOfFuel => r.carried
       | some e => some e
       | none => r.carried) := by
  unfold updWrap updErr0
  cases hr : r.err with
  | some e => cases e <;> simp [hk]
  | none =>
    cases hu : u.err with
    | some e => cases e <;> simp [hk]
    | none => simp [hk]

theorem interp_zero_log (c : Call) (S : State) : (interp G 0 c S).log = [] := by
  cases c <;> simp only [interp]
  · rw [emitAt.eq_1]; rfl
  · rw [deliver.eq_1]; rfl
  · rw [update.eq_1]; rfl
  · rw [runEffs.eq_1]; rfl

theorem interp_zero_err (c : Call) (S : State) : (interp G 0 c S).err = some .outOfFuel := by
  cases c <;> simp only [interp]
  · rw [emitAt.eq_1]; rfl
  · rw [deliver.eq_1]; rfl
  · rw [update.eq_1]; rfl
  · rw [runEffs.eq_1]; rfl

theorem interp_zero_carried (c : Call) (S : State) : (interp G 0 c S).carried = none := by
  cases c <;> simp only [interp]
  · rw [emitAt.eq_1]; rfl
  · rw [deliver.eq_1]; rfl
  · rw [update.eq_1]; rfl
  · rw [runEffs.eq_1]; rfl

/-- the body of a failing `update` (nothing, or the initial retain) touches no node state and no edge, and logs
reference-count events only -/
theorem runEffs_failing_body (f : Nat) (d : NodeId) (b : Bool) (md : Meta) (S : State) :
    (runEffs G f d (if b then [.retain md] else []) S).st.loc = S.loc ∧
    (runEffs G f d (if b then [.retain md] else []) S).st.downs = S.downs ∧
    RcL (runEffs G f d (if b then [.retain md] else []) S).log := by
  cases f with
  | zero => rw [runEffs.eq_1]; exact ⟨rfl, rfl, RcL.nil⟩
  | succ f =>
    cases b with
    | false => simp only [Bool.false_eq_true, if_false]; rw [runEffs_nil]; exact ⟨rfl, rfl, RcL.nil⟩
    | true =>
      simp only [if_true]
      rw [runEffs_cons]
      cases f with
      | zero =>
        simp only []; rw [runEffs.eq_1]
        refine ⟨by simp [Res.fail], by simp [Res.fail], ?_⟩
        simpa [Res.fail] using retainMd_rc 1 md S
      | succ f =>
        simp only []; rw [runEffs_nil]
        refine ⟨by simp, by simp, ?_⟩
        simpa using retainMd_rc 1 md S

/-- Where and why a run failed: the log ends with `arrive d who v' md'`, reference-count events, `raised d e`;
`d` is a synchronous sink whose function fails on `v'`, or a node whose own `update` body fails on that arrival
*in the state `d` has at the end of the run*. -/
def FailSite (r : Res) (e : Err) : Prop :=
  ∃ (d who : NodeId) (v' : Val) (md' : Meta) (pre q : List Ev),
    r.log = pre ++ Ev.arrive d who v' md' :: q ++ [Ev.raised d e] ∧ RcL q ∧
    ((∃ fn, G d = .sink (.sync fn) ∧ fn.eval v' = .error e) ∨
     ((∀ m, G d ≠ .sink m) ∧ (upd (G d) (r.st.loc d) who v' md').err = some e))

theorem FailSite.prepend {r r' : Res} {e : Err} (h : FailSite G r e) (l0 : List Ev)
    (hst : r'.st = r.st) (hlog : r'.log = l0 ++ r.log) : FailSite G r' e := by
  obtain ⟨d, who, v', md', pre, q, h1, h2, h3⟩ := h
  refine ⟨d, who, v', md', l0 ++ pre, q, ?_, h2, ?_⟩
  · rw [hlog, h1]; simp
  · rw [hst]; exact h3

theorem failSite_all (f : Nat) : ∀ (c : Call) (S : State) (e : Err),
    (interp G f c S).err = some e → e ≠ .outOfFuel → FailSite G (interp G f c S) e := by
  induction f with
  | zero =>
    intro c S e h hne
    rw [interp_zero_err] at h; cases h; exact absurd rfl hne
  | succ f ih =>
    intro c S e h hne
    cases c with
    | emit n v md =>
      simp only [interp] at h ⊢
      rw [emitAt_succ] at h ⊢
      simp only [] at h
      exact (ih (.deliver (S.downs n) n v md) _ e h hne).prepend G (Ev.emit n v md :: (emitPre S n md).2) rfl
        (by simp [interp])
    | deliver ds n v md =>
      simp only [interp] at h ⊢
      cases ds with
      | nil => rw [deliver_nil] at h; cases h
      | cons d ds =>
        cases h1 : (update G f d n v md S).err with
        | some e1 =>
          rw [deliver_cons_err G h1] at h ⊢
          exact ih (.update d n v md) S e h hne
        | none =>
          rw [deliver_cons_ok G h1] at h ⊢
          simp only [] at h
          exact (ih (.deliver ds n v md) _ e h hne).prepend G
            ((update G f d n v md S).log ++ (releaseMd md (update G f d n v md S).st).2) rfl (by simp [interp])
    | update d who v md =>
      simp only [interp] at h ⊢
      by_cases hs : ∃ m, G d = .sink m
      · obtain ⟨m, hm⟩ := hs
        rw [update_sink G _ _ _ _ _ _ m hm] at h ⊢
        cases m with
        | async => simp [sinkRes] at h
        | sync fn =>
          unfold sinkRes at h ⊢
          simp only [] at h ⊢
          cases hf : fn.eval v with
          | ok y => rw [hf] at h; simp at h
          | error e1 =>
            rw [hf] at h
            simp only [Res.fail] at h ⊢
            cases h
            exact ⟨d, who, v, md, [], [], by simp, RcL.nil, Or.inl ⟨fn, hm, hf⟩⟩
      · have hs' : ∀ m, G d ≠ .sink m := fun m hm => hs ⟨m, hm⟩
        rw [update_other G _ _ _ _ _ _ hs'] at h ⊢
        cases hk : isCoroutine (G d) with
        | true =>
          rw [updWrap_err_co hk] at h
          split at h
          · cases h; exact absurd rfl hne
          · cases h
        | false =>
          rw [updWrap_err_plain hk] at h
          unfold updErr0 at h
          cases hr : (runEffs G f d (upd (G d) (S.loc d) who v md).effs S).err with
          | some e1 =>
            rw [hr] at h; simp only [] at h; cases h
            refine (ih (.effs d _) S e hr hne).prepend G [Ev.arrive d who v md] (updWrap_st _ _ _ _ _ _ _) ?_
            rw [updWrap_log]; simp [updTail, hr, interp]
          | none =>
            rw [hr] at h; simp only [] at h
            have hb := runEffs_failing_body G f d (retainsFirst (G d)) md S
            rw [← upd_err_effs h] at hb
            refine ⟨d, who, v, md, [], _, ?_, hb.2.2, Or.inr ⟨hs', ?_⟩⟩
            · rw [updWrap_log]; simp [updTail, hr, h]
            · rw [updWrap_st, hb.1]; exact h
    | effs d es =>
      simp only [interp] at h ⊢
      cases es with
      | nil => rw [runEffs_nil] at h; cases h
      | cons ef es =>
        cases ef with
        | retain md' =>
          rw [runEffs_cons] at h ⊢
          exact (ih (.effs d es) _ e h hne).prepend G (retainMd 1 md' S).2 rfl (by simp [interp])
        | release md' =>
          rw [runEffs_cons] at h ⊢
          exact (ih (.effs d es) _ e h hne).prepend G (releaseMd md' S).2 rfl (by simp [interp])
        | set s' =>
          rw [runEffs_cons] at h ⊢
          exact ih (.effs d es) _ e h hne
        | detach =>
          rw [runEffs_cons] at h ⊢
          exact ih (.effs d es) _ e h hne
        | emit v' md' =>
          cases h1 : (emitAt G f d v' md' S).err with
          | some e1 =>
            rw [runEffs_emit_err G h1] at h ⊢
            exact ih (.emit d v' md') S e h hne
          | none =>
            rw [runEffs_emit_ok G h1] at h ⊢
            simp only [] at h
            exact (ih (.effs d es) _ e h hne).prepend G (emitAt G f d v' md' S).log rfl (by simp [interp])
        | emitThenRelease v' md' =>
          cases h1 : (emitAt G f d v' md' S).err with
          | some e1 =>
            rw [runEffs_etr_err G h1] at h ⊢
            exact ih (.emit d v' md') S e h hne
          | none =>
            cases h2 : (emitAt G f d v' md' S).carried with
            | some e2 =>
              rw [runEffs_etr_carried G h1 h2] at h
              rw [h1] at h; cases h
            | none =>
              rw [runEffs_etr_ok G h1 h2] at h ⊢
              simp only [] at h
              exact (ih (.effs d es) _ e h hne).prepend G
                ((emitAt G f d v' md' S).log ++ (etrPost md' (emitAt G f d v' md' S).toks (emitAt G f d v' md' S).st).2)
                rfl (by simp [interp])

/-- no node is of a coroutine kind (`partition`): the directly connected pipelines of C16 -/
def NoCoroutine : Prop := ∀ i, isCoroutine (G i) = false

theorem sinkRes_carried_none (m : SinkMode) (d who : NodeId) (v : Val) (md : Meta) (S : State) :
    (sinkRes m d who v md S).carried = none := by
  unfold sinkRes
  cases m with
  | sync fn => simp only []; split <;> rfl
  | async => rfl

theorem sinkRes_raised (m : SinkMode) (d who : NodeId) (v : Val) (md : Meta) (S : State) (d' : NodeId)
    (e : Err) (h : Ev.raised d' e ∈ (sinkRes m d who v md S).log) :
    (sinkRes m d who v md S).err = some e := by
  unfold sinkRes at h ⊢
  cases m with
  | sync fn =>
    simp only [] at h ⊢
    cases hf : fn.eval v with
    | ok y => rw [hf] at h; simp at h
    | error e1 =>
      rw [hf] at h
      simp only [Res.fail, List.mem_cons, List.not_mem_nil, or_false] at h ⊢
      rcases h with h | h
      · cases h
      · cases h; rfl
  | async =>
    simp only [] at h
    rcases List.mem_append.1 h with h | h
    · simp at h
    · split at h
      · simp at h
      · exact absurd h ((retainMd_rc _ _ _).not_raised _ _)

/-- Without coroutine kinds nothing captures an exception: `carried` stays empty and a `raised` event anywhere
in the log is the error the call returns. -/
theorem raised_err_all (hG : NoCoroutine G) (f : Nat) : ∀ (c : Call) (S : State),
    (interp G f c S).carried = none ∧
    ∀ d e, Ev.raised d e ∈ (interp G f c S).log → (interp G f c S).err = some e := by
  induction f with
  | zero =>
    intro c S
    refine ⟨interp_zero_carried G c S, fun d e h => ?_⟩
    rw [interp_zero_log] at h; cases h
  | succ f ih =>
    intro c S
    cases c with
    | emit n v md =>
      simp only [interp]
      rw [emitAt_succ]
      obtain ⟨i1, i2⟩ := ih (.deliver (S.downs n) n v md) (emitPre S n md).1
      refine ⟨i1, fun d e h => ?_⟩
      simp only [List.cons_append, List.mem_cons, List.mem_append] at h
      rcases h with h | h | h
      · cases h
      · exact absurd h ((emitPre_rc _ _ _).not_raised _ _)
      · exact i2 d e h
    | deliver ds n v md =>
      simp only [interp]
      cases ds with
      | nil => rw [deliver_nil]; exact ⟨rfl, fun d e h => by cases h⟩
      | cons d ds =>
        obtain ⟨i1, i2⟩ := ih (.update d n v md) S
        simp only [interp] at i1 i2
        cases h1 : (update G f d n v md S).err with
        | some e1 => rw [deliver_cons_err G h1]; exact ⟨i1, i2⟩
        | none =>
          rw [deliver_cons_ok G h1]
          obtain ⟨j1, j2⟩ := ih (.deliver ds n v md) (releaseMd md (update G f d n v md S).st).1
          simp only [interp] at j1 j2
          refine ⟨by simp [i1, j1], fun d' e h => ?_⟩
          simp only [List.mem_append] at h
          rcases h with (h | h) | h
          · have := i2 d' e h; rw [h1] at this; cases this
          · exact absurd h ((releaseMd_rc _ _).not_raised _ _)
          · exact j2 d' e h
    | update d who v md =>
      simp only [interp]
      by_cases hs : ∃ m, G d = .sink m
      · obtain ⟨m, hm⟩ := hs
        rw [update_sink G _ _ _ _ _ _ m hm]
        exact ⟨sinkRes_carried_none _ _ _ _ _ _, sinkRes_raised _ _ _ _ _ _⟩
      · have hs' : ∀ m, G d ≠ .sink m := fun m hm => hs ⟨m, hm⟩
        rw [update_other G _ _ _ _ _ _ hs']
        obtain ⟨i1, i2⟩ := ih (.effs d (upd (G d) (S.loc d) who v md).effs) S
        simp only [interp] at i1 i2
        refine ⟨by rw [updWrap_carried_plain (hG d)]; exact i1, fun d' e h => ?_⟩
        rw [updWrap_err_plain (hG d)]
        rw [updWrap_log] at h
        simp only [List.cons_append, List.mem_cons, List.mem_append] at h
        rcases h with h | h | h
        · cases h
        · simp only [updErr0, i2 d' e h]
        · unfold updTail at h
          unfold updErr0
          cases hr : (runEffs G f d (upd (G d) (S.loc d) who v md).effs S).err with
          | some e1 => rw [hr] at h; cases h
          | none =>
            rw [hr] at h
            simp only [] at h ⊢
            cases hu : (upd (G d) (S.loc d) who v md).err with
            | none => rw [hu] at h; cases h
            | some e2 =>
              rw [hu] at h
              simp only [List.mem_cons, List.not_mem_nil, or_false] at h
              cases h; rfl
    | effs d es =>
      simp only [interp]
      cases es with
      | nil => rw [runEffs_nil]; exact ⟨rfl, fun d e h => by cases h⟩
      | cons ef es =>
        cases ef with
        | retain md' =>
          rw [runEffs_cons]
          obtain ⟨i1, i2⟩ := ih (.effs d es) (retainMd 1 md' S).1
          refine ⟨i1, fun d' e h => ?_⟩
          simp only [List.mem_append] at h
          rcases h with h | h
          · exact absurd h ((retainMd_rc _ _ _).not_raised _ _)
          · exact i2 d' e h
        | release md' =>
          rw [runEffs_cons]
          obtain ⟨i1, i2⟩ := ih (.effs d es) (releaseMd md' S).1
          refine ⟨i1, fun d' e h => ?_⟩
          simp only [List.mem_append] at h
          rcases h with h | h
          · exact absurd h ((releaseMd_rc _ _).not_raised _ _)
          · exact i2 d' e h
        | set s' => rw [runEffs_cons]; exact ih (.effs d es) _
        | detach => rw [runEffs_cons]; exact ih (.effs d es) _
        | emit v' md' =>
          obtain ⟨i1, i2⟩ := ih (.emit d v' md') S
          simp only [interp] at i1 i2
          cases h1 : (emitAt G f d v' md' S).err with
          | some e1 => rw [runEffs_emit_err G h1]; exact ⟨i1, i2⟩
          | none =>
            rw [runEffs_emit_ok G h1]
            obtain ⟨j1, j2⟩ := ih (.effs d es) (emitAt G f d v' md' S).st
            simp only [interp] at j1 j2
            refine ⟨by simp [i1, j1], fun d' e h => ?_⟩
            simp only [List.mem_append] at h
            rcases h with h | h
            · have := i2 d' e h; rw [h1] at this; cases this
            · exact j2 d' e h
        | emitThenRelease v' md' =>
          obtain ⟨i1, i2⟩ := ih (.emit d v' md') S
          simp only [interp] at i1 i2
          cases h1 : (emitAt G f d v' md' S).err with
          | some e1 => rw [runEffs_etr_err G h1]; exact ⟨i1, i2⟩
          | none =>
            rw [runEffs_etr_ok G h1 i1]
            obtain ⟨j1, j2⟩ := ih (.effs d es)
              (etrPost md' (emitAt G f d v' md' S).toks (emitAt G f d v' md' S).st).1
            simp only [interp] at j1 j2
            refine ⟨j1, fun d' e h => ?_⟩
            simp only [List.mem_append] at h
            rcases h with (h | h) | h
            · have := i2 d' e h; rw [h1] at this; cases this
            · exact absurd h ((etrPost_rc _ _ _).not_raised _ _)
            · exact j2 d' e h

theorem FailSite.raised_mem {r : Res} {e : Err} (h : FailSite G r e) : ∃ d, Ev.raised d e ∈ r.log := by
  obtain ⟨d, who, v', md', pre, q, h1, _, _⟩ := h
  exact ⟨d, by rw [h1]; simp⟩

theorem FailSite.raised_last {r : Res} {e : Err} (h : FailSite G r e) :
    ∃ d l, r.log = l ++ [Ev.raised d e] := by
  obtain ⟨d, who, v', md', pre, q, h1, _, _⟩ := h
  exact ⟨d, pre ++ Ev.arrive d who v' md' :: q, by simp [h1]⟩

theorem sinkRes_raised_none (m : SinkMode) (d who : NodeId) (v : Val) (md : Meta) (S : State) (d' : NodeId)
    (e : Err) (h : Ev.raised d' e ∈ (sinkRes m d who v md S).log) :
    (sinkRes m d who v md S).err ≠ none := by
  rw [sinkRes_raised m d who v md S d' e h]; simp

/-- With coroutine kinds (`partition`): a `raised` event in the log is never lost — the call either raises or
returns an awaitable that carries an exception; and whatever the awaitable carries was raised by some node. -/
theorem raised_err_or_carried_all (f : Nat) : ∀ (c : Call) (S : State),
    (∀ d e, Ev.raised d e ∈ (interp G f c S).log →
      (interp G f c S).err ≠ none ∨ (interp G f c S).carried ≠ none) ∧
    (∀ e, (interp G f c S).carried = some e → e ≠ .outOfFuel ∧ ∃ d, Ev.raised d e ∈ (interp G f c S).log) := by
  induction f with
  | zero =>
    intro c S
    refine ⟨fun d e h => ?_, fun e h => ?_⟩
    · rw [interp_zero_log] at h; cases h
    · rw [interp_zero_carried] at h; cases h
  | succ f ih =>
    intro c S
    cases c with
    | emit n v md =>
      simp only [interp]
      rw [emitAt_succ]
      obtain ⟨i1, i2⟩ := ih (.deliver (S.downs n) n v md) (emitPre S n md).1
      simp only [interp] at i1 i2
      refine ⟨fun d e h => ?_, fun e h => ?_⟩
      · simp only [List.cons_append, List.mem_cons, List.mem_append] at h
        rcases h with h | h | h
        · cases h
        · exact absurd h ((emitPre_rc _ _ _).not_raised _ _)
        · exact i1 d e h
      · obtain ⟨k1, d, k2⟩ := i2 e h
        exact ⟨k1, d, by simp [k2]⟩
    | deliver ds n v md =>
      simp only [interp]
      cases ds with
      | nil =>
        rw [deliver_nil]
        exact ⟨fun d e h => (by cases h), fun e h => (by cases h)⟩
      | cons d ds =>
        obtain ⟨i1, i2⟩ := ih (.update d n v md) S
        simp only [interp] at i1 i2
        cases h1 : (update G f d n v md S).err with
        | some e1 => rw [deliver_cons_err G h1]; exact ⟨i1, i2⟩
        | none =>
          rw [deliver_cons_ok G h1]
          obtain ⟨j1, j2⟩ := ih (.deliver ds n v md) (releaseMd md (update G f d n v md S).st).1
          simp only [interp] at j1 j2
          refine ⟨fun d' e h => ?_, fun e h => ?_⟩
          · simp only [List.mem_append] at h
            rcases h with (h | h) | h
            · rcases i1 d' e h with k | k
              · exact absurd h1 k
              · right
                cases hc : (update G f d n v md S).carried with
                | none => exact absurd hc k
                | some e2 => simp
            · exact absurd h ((releaseMd_rc _ _).not_raised _ _)
            · rcases j1 d' e h with k | k
              · exact Or.inl k
              · right
                cases hc : (update G f d n v md S).carried with
                | none => simpa using k
                | some e2 => simp
          · simp only [] at h
            cases hc : (update G f d n v md S).carried with
            | some e2 =>
              rw [hc] at h
              have h : e2 = e := by simpa using h
              subst h
              obtain ⟨k1, d', k2⟩ := i2 e2 hc
              exact ⟨k1, d', by simp [k2]⟩
            | none =>
              rw [hc] at h
              have h : (deliver G f ds n v md (releaseMd md (update G f d n v md S).st).1).carried = some e := by
                simpa using h
              obtain ⟨k1, d', k2⟩ := j2 e h
              exact ⟨k1, d', by simp [k2]⟩
    | update d who v md =>
      simp only [interp]
      by_cases hs : ∃ m, G d = .sink m
      · obtain ⟨m, hm⟩ := hs
        rw [update_sink G _ _ _ _ _ _ m hm]
        refine ⟨fun d' e h => Or.inl (sinkRes_raised_none _ _ _ _ _ _ d' e h), fun e h => ?_⟩
        rw [sinkRes_carried_none] at h; cases h
      · have hs' : ∀ m, G d ≠ .sink m := fun m hm => hs ⟨m, hm⟩
        rw [update_other G _ _ _ _ _ _ hs']
        obtain ⟨i1, i2⟩ := ih (.effs d (upd (G d) (S.loc d) who v md).effs) S
        simp only [interp] at i1 i2
        have hu := upd_err_ne_oof (G d) (S.loc d) who v md
        cases hk : isCoroutine (G d) with
        | false =>
          rw [updWrap_err_plain hk, updWrap_carried_plain hk, updWrap_log]
          refine ⟨fun d' e h => ?_, fun e h => ?_⟩
          · simp only [List.cons_append, List.mem_cons, List.mem_append] at h
            rcases h with h | h | h
            · cases h
            · rcases i1 d' e h with k | k
              · left; unfold updErr0
                cases hr : (runEffs G f d (upd (G d) (S.loc d) who v md).effs S).err with
                | none => exact absurd hr k
                | some e1 => simp
              · exact Or.inr k
            · left
              unfold updTail at h
              unfold updErr0
              cases hr : (runEffs G f d (upd (G d) (S.loc d) who v md).effs S).err with
              | some e1 => simp
              | none =>
                rw [hr] at h
                simp only [] at h ⊢
                cases hue : (upd (G d) (S.loc d) who v md).err with
                | none => rw [hue] at h; cases h
                | some e2 => simp
          · obtain ⟨k1, d', k2⟩ := i2 e h
            exact ⟨k1, d', by simp [k2]⟩
        | true =>
          rw [updWrap_err_co hk, updWrap_carried_co hk, updWrap_log]
          -- what the frame saw before the wrapper
          cases hr : (runEffs G f d (upd (G d) (S.loc d) who v md).effs S).err with
          | some e1 =>
            have h0 : updErr0 (upd (G d) (S.loc d) who v md)
                (runEffs G f d (upd (G d) (S.loc d) who v md).effs S) = some e1 := by
              simp [updErr0, hr]
            rw [h0]
            by_cases he1 : e1 = .outOfFuel
            · subst he1
              refine ⟨fun d' e h => Or.inl (by simp), fun e h => ?_⟩
              simp only [] at h
              obtain ⟨k1, d', k2⟩ := i2 e h
              exact ⟨k1, d', by simp [k2]⟩
            · refine ⟨fun d' e h => Or.inr ?_, fun e h => ?_⟩
              · cases e1 <;> simp at he1 ⊢
              · have h : e1 = e := by cases e1 <;> simp at he1 h ⊢ <;> exact h
                subst h
                obtain ⟨d', k2⟩ := (failSite_all G f (.effs d _) S e1 hr he1).raised_mem
                simp only [interp] at k2
                exact ⟨he1, d', by simp [k2]⟩
          | none =>
            cases hue : (upd (G d) (S.loc d) who v md).err with
            | some e2 =>
              have h0 : updErr0 (upd (G d) (S.loc d) who v md)
                  (runEffs G f d (upd (G d) (S.loc d) who v md).effs S) = some e2 := by
                simp [updErr0, hr, hue]
              have he2 : e2 ≠ .outOfFuel := fun hc => hu (by rw [hue, hc])
              rw [h0]
              refine ⟨fun d' e h => Or.inr ?_, fun e h => ?_⟩
              · cases e2 <;> simp at he2 ⊢
              · have h : e2 = e := by cases e2 <;> simp at he2 h ⊢ <;> exact h
                subst h
                exact ⟨he2, d, by simp [updTail, hr, hue]⟩
            | none =>
              have h0 : updErr0 (upd (G d) (S.loc d) who v md)
                  (runEffs G f d (upd (G d) (S.loc d) who v md).effs S) = none := by
                simp [updErr0, hr, hue]
              rw [h0]
              refine ⟨fun d' e h => ?_, fun e h => ?_⟩
              · simp only [List.cons_append, List.mem_cons, List.mem_append] at h
                rcases h with h | h | h
                · cases h
                · rcases i1 d' e h with k | k
                  · exact absurd hr k
                  · exact Or.inr k
                · simp [updTail, hr, hue] at h
              · simp only [] at h
                obtain ⟨k1, d', k2⟩ := i2 e h
                exact ⟨k1, d', by simp [k2]⟩
    | effs d es =>
      simp only [interp]
      cases es with
      | nil => rw [runEffs_nil]; exact ⟨fun d e h => (by cases h), fun e h => (by cases h)⟩
      | cons ef es =>
        cases ef with
        | retain md' =>
          rw [runEffs_cons]
          obtain ⟨i1, i2⟩ := ih (.effs d es) (retainMd 1 md' S).1
          simp only [interp] at i1 i2
          refine ⟨fun d' e h => ?_, fun e h => ?_⟩
          · simp only [List.mem_append] at h
            rcases h with h | h
            · exact absurd h ((retainMd_rc _ _ _).not_raised _ _)
            · exact i1 d' e h
          · obtain ⟨k1, d', k2⟩ := i2 e h
            exact ⟨k1, d', by simp [k2]⟩
        | release md' =>
          rw [runEffs_cons]
          obtain ⟨i1, i2⟩ := ih (.effs d es) (releaseMd md' S).1
          simp only [interp] at i1 i2
          refine ⟨fun d' e h => ?_, fun e h => ?_⟩
          · simp only [List.mem_append] at h
            rcases h with h | h
            · exact absurd h ((releaseMd_rc _ _).not_raised _ _)
            · exact i1 d' e h
          · obtain ⟨k1, d', k2⟩ := i2 e h
            exact ⟨k1, d', by simp [k2]⟩
        | set s' => rw [runEffs_cons]; exact ih (.effs d es) _
        | detach => rw [runEffs_cons]; exact ih (.effs d es) _
        | emit v' md' =>
          obtain ⟨i1, i2⟩ := ih (.emit d v' md') S
          simp only [interp] at i1 i2
          cases h1 : (emitAt G f d v' md' S).err with
          | some e1 => rw [runEffs_emit_err G h1]; exact ⟨i1, i2⟩
          | none =>
            rw [runEffs_emit_ok G h1]
            obtain ⟨j1, j2⟩ := ih (.effs d es) (emitAt G f d v' md' S).st
            simp only [interp] at j1 j2
            refine ⟨fun d' e h => ?_, fun e h => ?_⟩
            · simp only [List.mem_append] at h
              rcases h with h | h
              · rcases i1 d' e h with k | k
                · exact absurd h1 k
                · right
                  cases hc : (emitAt G f d v' md' S).carried with
                  | none => exact absurd hc k
                  | some e2 => simp
              · rcases j1 d' e h with k | k
                · exact Or.inl k
                · right
                  cases hc : (emitAt G f d v' md' S).carried with
                  | none => simpa using k
                  | some e2 => simp
            · simp only [] at h
              cases hc : (emitAt G f d v' md' S).carried with
              | some e2 =>
                rw [hc] at h
                have h : e2 = e := by simpa using h
                subst h
                obtain ⟨k1, d', k2⟩ := i2 e2 hc
                exact ⟨k1, d', by simp [k2]⟩
              | none =>
                rw [hc] at h
                have h : (runEffs G f d es (emitAt G f d v' md' S).st).carried = some e := by simpa using h
                obtain ⟨k1, d', k2⟩ := j2 e h
                exact ⟨k1, d', by simp [k2]⟩
        | emitThenRelease v' md' =>
          obtain ⟨i1, i2⟩ := ih (.emit d v' md') S
          simp only [interp] at i1 i2
          cases h1 : (emitAt G f d v' md' S).err with
          | some e1 => rw [runEffs_etr_err G h1]; exact ⟨i1, i2⟩
          | none =>
            cases hc : (emitAt G f d v' md' S).carried with
            | some e2 => rw [runEffs_etr_carried G h1 hc]; exact ⟨i1, i2⟩
            | none =>
              rw [runEffs_etr_ok G h1 hc]
              obtain ⟨j1, j2⟩ := ih (.effs d es)
                (etrPost md' (emitAt G f d v' md' S).toks (emitAt G f d v' md' S).st).1
              simp only [interp] at j1 j2
              refine ⟨fun d' e h => ?_, fun e h => ?_⟩
              · simp only [List.mem_append] at h
                rcases h with (h | h) | h
                · rcases i1 d' e h with k | k
                  · exact absurd h1 k
                  · exact absurd hc k
                · exact absurd h ((etrPost_rc _ _ _).not_raised _ _)
                · exact j1 d' e h
              · obtain ⟨k1, d', k2⟩ := j2 e h
                exact ⟨k1, d', by simp [k2]⟩

/-! ### C. Reference counts on unbuffered graphs -/

/-- how many entries of `md` carry the counter `r` -/
def mult (r : Nat) : Meta → Nat
  | [] => 0
  | m :: ms => (if m.ref = some r then 1 else 0) + mult r ms

/-- what the unfinished asynchronous consumers hold of `r` -/
def pendSum (r : Nat) : List (Tok × NodeId × Meta) → Nat
  | [] => 0
  | p :: ps => mult r p.2.2 + pendSum r ps

/-- the value of counter `r` minus what unfinished asynchronous consumers hold: what emission frames hold -/
def held (r : Nat) (S : State) : Int := S.count r - (pendSum r S.pending : Nat)

theorem pendSum_append (r : Nat) (a b : List (Tok × NodeId × Meta)) :
    pendSum r (a ++ b) = pendSum r a + pendSum r b := by
  induction a with
  | nil => simp [pendSum]
  | cons x xs ih => simp [pendSum, ih]; omega

theorem retainMd_count (r : Nat) (k : Nat) (md : Meta) (S : State) :
    (retainMd k md S).1.count r = S.count r + ((k * mult r md : Nat) : Int) := by
  induction md generalizing S with
  | nil => simp [retainMd, mult]
  | cons m ms ih =>
    unfold retainMd mult
    cases hm : m.ref with
    | none => simp only []; rw [ih]; simp
    | some r' =>
      simp only []
      rw [ih]
      by_cases hr : r = r'
      · subst hr; simp [Nat.mul_add]; omega
      · have : ¬ r' = r := fun h => hr h.symm
        simp [hr, this]

theorem retainMd_pending (k : Nat) (md : Meta) (S : State) : (retainMd k md S).1.pending = S.pending := by
  induction md generalizing S with
  | nil => rfl
  | cons m ms ih =>
    unfold retainMd
    split
    · exact ih S
    · simp only []; rw [ih]

theorem retainMd_waiters (k : Nat) (md : Meta) (S : State) : (retainMd k md S).1.waiters = S.waiters := by
  induction md generalizing S with
  | nil => rfl
  | cons m ms ih =>
    unfold retainMd
    split
    · exact ih S
    · simp only []; rw [ih]

theorem retainMd_nextTok (k : Nat) (md : Meta) (S : State) : (retainMd k md S).1.nextTok = S.nextTok := by
  induction md generalizing S with
  | nil => rfl
  | cons m ms ih =>
    unfold retainMd
    split
    · exact ih S
    · simp only []; rw [ih]

theorem retainMd_nofire (r : Nat) (k : Nat) (md : Meta) (S : State) : Ev.fire r ∉ (retainMd k md S).2 := by
  induction md generalizing S with
  | nil => simp [retainMd]
  | cons m ms ih =>
    unfold retainMd
    split
    · exact ih S
    · simp only [List.mem_cons, not_or]
      exact ⟨fun h => (by cases h), ih _⟩

theorem releaseMd_count (r : Nat) (md : Meta) (S : State) :
    (releaseMd md S).1.count r = S.count r - (mult r md : Nat) := by
  induction md generalizing S with
  | nil => simp [releaseMd, mult]
  | cons m ms ih =>
    unfold releaseMd mult
    cases hm : m.ref with
    | none => simp only []; rw [ih]; simp
    | some r' =>
      simp only []
      rw [ih]
      by_cases hr : r = r'
      · subst hr; simp; omega
      · have : ¬ r' = r := fun h => hr h.symm
        simp [hr, this]

theorem releaseMd_pending (md : Meta) (S : State) : (releaseMd md S).1.pending = S.pending := by
  induction md generalizing S with
  | nil => rfl
  | cons m ms ih =>
    unfold releaseMd
    split
    · exact ih S
    · simp only []; rw [ih]

theorem releaseMd_waiters (md : Meta) (S : State) : (releaseMd md S).1.waiters = S.waiters := by
  induction md generalizing S with
  | nil => rfl
  | cons m ms ih =>
    unfold releaseMd
    split
    · exact ih S
    · simp only []; rw [ih]

theorem releaseMd_doneToks (md : Meta) (S : State) : (releaseMd md S).1.doneToks = S.doneToks := by
  induction md generalizing S with
  | nil => rfl
  | cons m ms ih =>
    unfold releaseMd
    split
    · exact ih S
    · simp only []; rw [ih]

/-- the callback of `r` is not scheduled by a release that leaves the counter positive -/
theorem releaseMd_nofire (r : Nat) (md : Meta) (S : State) (h : S.count r - (mult r md : Nat) ≥ 1) :
    Ev.fire r ∉ (releaseMd md S).2 := by
  induction md generalizing S with
  | nil => simp [releaseMd]
  | cons m ms ih =>
    unfold releaseMd
    unfold mult at h
    cases hm : m.ref with
    | none =>
      simp only []
      rw [hm] at h
      exact ih S (by simpa using h)
    | some r' =>
      simp only []
      rw [hm] at h
      by_cases hr : r' = r
      · subst hr
        simp only [if_true] at h
        have ih' := ih { S with count := fun q => if q = r' then S.count r' - 1 else S.count q }
          (by simp; omega)
        simp only [List.mem_cons, not_or]
        refine ⟨fun hc => (by cases hc), ?_⟩
        split
        · next hle => exfalso; omega
        · exact ih'
      · have hr' : ¬ (some r' = some r) := fun hc => hr (by cases hc; rfl)
        simp only [hr', if_false, Nat.zero_add] at h
        have hr2 : ¬ r = r' := fun h => hr h.symm
        have ih' := ih { S with count := fun q => if q = r' then S.count r' - 1 else S.count q }
          (by simp [hr2]; exact h)
        simp only [List.mem_cons, not_or]
        refine ⟨fun hc => (by cases hc), ?_⟩
        split
        · simp only [List.mem_cons, not_or]
          exact ⟨fun hc => (by cases hc; exact hr rfl), ih'⟩
        · exact ih'

/-- kinds that never store an element's metadata (and so never retain / release on their own):
the "directly connected (non-buffered)" nodes -/
def unbufferedKind : Kind → Bool
  | .source | .union | .map _ | .starmap _ | .filter _ | .accumulate .. | .slice .. | .unique ..
  | .flatten | .pluck _ | .sink _ => true
  | _ => false

def Unbuffered : Prop := ∀ i, unbufferedKind (G i) = true

def plainEff : Eff → Bool
  | .set _ | .detach | .emit .. => true
  | _ => false

theorem emitAllButLast_plain (l : List Val) (md : Meta) : ∀ ef ∈ emitAllButLast l md, plainEff ef = true := by
  induction l with
  | nil => intro ef h; simp [emitAllButLast] at h
  | cons x t ih =>
    cases t with
    | nil => intro ef h; simp [emitAllButLast] at h; subst h; rfl
    | cons y t =>
      intro ef h
      simp only [emitAllButLast, List.mem_cons] at h
      rcases h with rfl | h
      · rfl
      · exact ih ef (by simpa [emitAllButLast] using h)

theorem upd_plain_all {k : Kind} (hk : unbufferedKind k = true) (s : NState) (who : NodeId) (v : Val)
    (md : Meta) : (upd k s who v md).effs.all plainEff = true := by
  cases k with
  | flatten =>
    simp only [upd, raise]
    split
    · rfl
    · exact List.all_eq_true.2 (emitAllButLast_plain _ _)
  | pluck p => cases p <;> simp only [upd, raise] <;> split <;> rfl
  | partition _ _ => cases hk
  | partitionUnique _ _ _ => cases hk
  | slidingWindow _ _ => cases hk
  | collect => cases hk
  | zip _ => cases hk
  | combineLatest _ => cases hk
  | zipLatest => cases hk
  | slice a b c =>
    simp only [upd, List.all_append]
    repeat' split
    all_goals rfl
  | _ =>
    simp only [upd, raise]
    repeat' split
    all_goals rfl

theorem upd_plain {k : Kind} (hk : unbufferedKind k = true) (s : NState) (who : NodeId) (v : Val) (md : Meta) :
    ∀ ef ∈ (upd k s who v md).effs, plainEff ef = true :=
  List.all_eq_true.1 (upd_plain_all hk s who v md)

theorem setLoc_count (S : State) (i : NodeId) (s : NState) : (S.setLoc i s).count = S.count := rfl
theorem setLoc_pending (S : State) (i : NodeId) (s : NState) : (S.setLoc i s).pending = S.pending := rfl
theorem setLoc_waiters (S : State) (i : NodeId) (s : NState) : (S.setLoc i s).waiters = S.waiters := rfl

theorem detach_fold_rest (d : NodeId) (us : List NodeId) (S : State) :
    (us.foldl (fun S u => S.setDowns u ((S.downs u).filter (· ≠ d))) S).count = S.count ∧
    (us.foldl (fun S u => S.setDowns u ((S.downs u).filter (· ≠ d))) S).pending = S.pending ∧
    (us.foldl (fun S u => S.setDowns u ((S.downs u).filter (· ≠ d))) S).waiters = S.waiters := by
  induction us generalizing S with
  | nil => exact ⟨rfl, rfl, rfl⟩
  | cons u us ih =>
    rw [List.foldl_cons]
    obtain ⟨a, b, c⟩ := ih (S.setDowns u ((S.downs u).filter (· ≠ d)))
    exact ⟨a, b, c⟩

theorem detachNode_count (d : NodeId) (S : State) : (detachNode d S).count = S.count :=
  (detach_fold_rest d _ S).1
theorem detachNode_pending (d : NodeId) (S : State) : (detachNode d S).pending = S.pending :=
  (detach_fold_rest d _ S).2.1
theorem detachNode_waiters (d : NodeId) (S : State) : (detachNode d S).waiters = S.waiters :=
  (detach_fold_rest d _ S).2.2

theorem held_congr {r : Nat} {S S' : State} (h1 : S'.count = S.count) (h2 : S'.pending = S.pending) :
    held r S' = held r S := by unfold held; rw [h1, h2]

theorem emitPre_count (r : Nat) (S : State) (n : NodeId) (md : Meta) :
    (emitPre S n md).1.count r = S.count r + (((S.downs n).length * mult r md : Nat) : Int) := by
  unfold emitPre
  split
  · next h =>
    have : md = [] := by simpa using h
    subst this; simp [mult]
  · exact retainMd_count _ _ _ _

theorem emitPre_pending (S : State) (n : NodeId) (md : Meta) : (emitPre S n md).1.pending = S.pending := by
  unfold emitPre; split
  · rfl
  · exact retainMd_pending _ _ _

theorem emitPre_waiters (S : State) (n : NodeId) (md : Meta) : (emitPre S n md).1.waiters = S.waiters := by
  unfold emitPre; split
  · rfl
  · exact retainMd_waiters _ _ _

theorem emitPre_nofire (r : Nat) (S : State) (n : NodeId) (md : Meta) : Ev.fire r ∉ (emitPre S n md).2 := by
  unfold emitPre; split
  · simp
  · exact retainMd_nofire _ _ _ _

theorem held_le_count (r : Nat) (S : State) : held r S ≤ S.count r := by unfold held; omega

theorem sinkRes_held (r : Nat) (m : SinkMode) (d who : NodeId) (v : Val) (md : Meta) (S : State) :
    (sinkRes m d who v md S).st.waiters = S.waiters ∧ held r (sinkRes m d who v md S).st = held r S ∧
    Ev.fire r ∉ (sinkRes m d who v md S).log := by
  unfold sinkRes
  cases m with
  | sync fn =>
    simp only []
    split
    · exact ⟨rfl, rfl, by simp⟩
    · exact ⟨rfl, rfl, by simp [Res.fail]⟩
  | async =>
    simp only []
    by_cases hmd : md.isEmpty = true
    · have : md = [] := by simpa using hmd
      subst this
      refine ⟨rfl, ?_, by simp⟩
      simp [held, pendSum_append, pendSum, mult]
    · simp only [hmd, Bool.false_eq_true, if_false]
      refine ⟨retainMd_waiters _ _ _, ?_, ?_⟩
      · simp only [held, retainMd_count, retainMd_pending, pendSum_append, pendSum]
        simp; omega
      · simp only [List.mem_append, List.mem_cons, List.not_mem_nil, or_false, not_or]
        exact ⟨⟨fun h => (by cases h), fun h => (by cases h)⟩, retainMd_nofire _ _ _ _⟩

def CallPlain : Call → Prop
  | .effs _ es => ∀ ef ∈ es, plainEff ef = true
  | _ => True

/-- what every call — successful, failing or out of fuel — guarantees about counter `r` on an unbuffered graph -/
def MonoP (r : Nat) : Call → State → Res → Prop
  | .deliver ds _ _ md, S, res =>
      res.st.waiters = S.waiters ∧
      held r res.st + ((mult r md * ds.length : Nat) : Int) ≥ held r S ∧
      (held r S ≥ ((mult r md * ds.length : Nat) : Int) + 1 → Ev.fire r ∉ res.log)
  | _, S, res =>
      res.st.waiters = S.waiters ∧ held r res.st ≥ held r S ∧ (held r S ≥ 1 → Ev.fire r ∉ res.log)

theorem interp_zero_st' (c : Call) (S : State) : (interp G 0 c S).st = S := interp_zero_st G c S

theorem mono_all (hG : Unbuffered G) (r : Nat) (f : Nat) : ∀ (c : Call) (S : State), CallPlain c →
    MonoP r c S (interp G f c S) := by
  induction f with
  | zero =>
    intro c S _
    have h1 := interp_zero_st G c S
    have h2 := interp_zero_log G c S
    cases c <;> simp only [MonoP] <;> rw [h1, h2] <;> exact ⟨rfl, by omega, fun _ => by simp⟩
  | succ f ih =>
    intro c S hc
    cases c with
    | emit n v md =>
      simp only [MonoP, interp]
      rw [emitAt_succ]
      have i := ih (.deliver (S.downs n) n v md) (emitPre S n md).1 trivial
      simp only [MonoP, interp] at i
      obtain ⟨i0, i1, i2⟩ := i
      have hh : held r (emitPre S n md).1 = held r S + (((S.downs n).length * mult r md : Nat) : Int) := by
        simp only [held, emitPre_count, emitPre_pending]; omega
      have hm : (S.downs n).length * mult r md = mult r md * (S.downs n).length := Nat.mul_comm _ _
      refine ⟨by rw [i0, emitPre_waiters], by simp only []; omega, fun h1 => ?_⟩
      simp only [List.cons_append, List.mem_cons, List.mem_append, not_or]
      exact ⟨fun h => (by cases h), emitPre_nofire _ _ _ _, i2 (by omega)⟩
    | deliver ds n v md =>
      simp only [MonoP, interp]
      cases ds with
      | nil => rw [deliver_nil]; exact ⟨rfl, by simp, fun _ => by simp⟩
      | cons d ds =>
        have i := ih (.update d n v md) S trivial
        simp only [MonoP, interp] at i
        obtain ⟨i0, i1, i2⟩ := i
        have hlen : mult r md * (d :: ds).length = mult r md * ds.length + mult r md := by
          simp [Nat.mul_add]
        cases h1 : (update G f d n v md S).err with
        | some e1 =>
          rw [deliver_cons_err G h1]
          exact ⟨i0, by omega, fun h => i2 (by omega)⟩
        | none =>
          rw [deliver_cons_ok G h1]
          have j := ih (.deliver ds n v md) (releaseMd md (update G f d n v md S).st).1 trivial
          simp only [MonoP, interp] at j
          obtain ⟨j0, j1, j2⟩ := j
          have hh : held r (releaseMd md (update G f d n v md S).st).1 =
              held r (update G f d n v md S).st - (mult r md : Nat) := by
            simp only [held, releaseMd_count, releaseMd_pending]; omega
          have hc := held_le_count r (update G f d n v md S).st
          refine ⟨by simp only []; rw [j0, releaseMd_waiters, i0], by simp only []; omega, fun h => ?_⟩
          simp only [List.mem_append, not_or]
          exact ⟨⟨i2 (by omega), releaseMd_nofire r md _ (by omega)⟩, j2 (by omega)⟩
    | update d who v md =>
      simp only [MonoP, interp]
      by_cases hs : ∃ m, G d = .sink m
      · obtain ⟨m, hm⟩ := hs
        rw [update_sink G _ _ _ _ _ _ m hm]
        obtain ⟨a, b, c⟩ := sinkRes_held r m d who v md S
        exact ⟨a, by omega, fun _ => c⟩
      · have hs' : ∀ m, G d ≠ .sink m := fun m hm => hs ⟨m, hm⟩
        rw [update_other G _ _ _ _ _ _ hs']
        have i := ih (.effs d (upd (G d) (S.loc d) who v md).effs) S (upd_plain (hG d) _ _ _ _)
        simp only [MonoP, interp] at i
        obtain ⟨i0, i1, i2⟩ := i
        rw [updWrap_st, updWrap_log]
        refine ⟨i0, i1, fun h => ?_⟩
        simp only [List.cons_append, List.mem_cons, List.mem_append, not_or]
        refine ⟨fun h' => (by cases h'), i2 h, ?_⟩
        unfold updTail
        split
        · simp
        · split <;> simp
    | effs d es =>
      simp only [MonoP, interp]
      cases es with
      | nil => rw [runEffs_nil]; exact ⟨rfl, by simp, fun _ => by simp⟩
      | cons ef es =>
        have hc' : CallPlain (.effs d es) := fun x hx => hc x (by simp [hx])
        have hef : plainEff ef = true := hc ef (by simp)
        cases ef with
        | retain md' => cases hef
        | release md' => cases hef
        | emitThenRelease v' md' => cases hef
        | set s' =>
          rw [runEffs_cons]
          have i := ih (.effs d es) (S.setLoc d s') hc'
          simp only [MonoP, interp] at i
          rw [held_congr (setLoc_count S d s') (setLoc_pending S d s'), setLoc_waiters] at i
          exact i
        | detach =>
          rw [runEffs_cons]
          have i := ih (.effs d es) (detachNode d S) hc'
          simp only [MonoP, interp] at i
          rw [held_congr (detachNode_count d S) (detachNode_pending d S), detachNode_waiters] at i
          exact i
        | emit v' md' =>
          have i := ih (.emit d v' md') S trivial
          simp only [MonoP, interp] at i
          obtain ⟨i0, i1, i2⟩ := i
          cases h1 : (emitAt G f d v' md' S).err with
          | some e1 => rw [runEffs_emit_err G h1]; exact ⟨i0, i1, i2⟩
          | none =>
            rw [runEffs_emit_ok G h1]
            have j := ih (.effs d es) (emitAt G f d v' md' S).st hc'
            simp only [MonoP, interp] at j
            obtain ⟨j0, j1, j2⟩ := j
            refine ⟨by simp only []; rw [j0, i0], by simp only []; omega, fun h => ?_⟩
            simp only [List.mem_append, not_or]
            exact ⟨i2 h, j2 (by omega)⟩

/-- a `deliver` loop that is aborted by an exception has released at most `len ds - 1` times -/
theorem deliver_abort (hG : Unbuffered G) (r : Nat) (n : NodeId) (v : Val) (md : Meta) :
    ∀ (ds : List NodeId) (f : Nat) (S : State) (e : Err),
      (deliver G f ds n v md S).err = some e → e ≠ .outOfFuel →
      held r (deliver G f ds n v md S).st + ((mult r md * ds.length : Nat) : Int)
        ≥ held r S + (mult r md : Nat) ∧
      (held r S + (mult r md : Nat) ≥ ((mult r md * ds.length : Nat) : Int) + 1 →
        Ev.fire r ∉ (deliver G f ds n v md S).log) := by
  intro ds
  induction ds with
  | nil =>
    intro f S e h hne
    cases f with
    | zero => rw [deliver.eq_1] at h; cases h; exact absurd rfl hne
    | succ f => rw [deliver_nil] at h; cases h
  | cons d ds ih =>
    intro f S e h hne
    cases f with
    | zero => rw [deliver.eq_1] at h; cases h; exact absurd rfl hne
    | succ f =>
      have i := mono_all G hG r f (.update d n v md) S trivial
      simp only [MonoP, interp] at i
      obtain ⟨_, i1, i2⟩ := i
      have hlen : mult r md * (d :: ds).length = mult r md * ds.length + mult r md := by
        simp [Nat.mul_add]
      cases h1 : (update G f d n v md S).err with
      | some e1 =>
        rw [deliver_cons_err G h1]
        exact ⟨by omega, fun h => i2 (by omega)⟩
      | none =>
        rw [deliver_cons_ok G h1] at h ⊢
        simp only [] at h
        obtain ⟨j1, j2⟩ := ih f (releaseMd md (update G f d n v md S).st).1 e h hne
        have hh : held r (releaseMd md (update G f d n v md S).st).1 =
            held r (update G f d n v md S).st - (mult r md : Nat) := by
          simp only [held, releaseMd_count, releaseMd_pending]; omega
        have hc := held_le_count r (update G f d n v md S).st
        have hpos : mult r md ≤ mult r md * ds.length := by
          cases ds with
          | nil =>
            exfalso
            cases f with
            | zero => rw [deliver.eq_1] at h; cases h; exact hne rfl
            | succ f => rw [deliver_nil] at h; cases h
          | cons d' ds' => exact Nat.le_mul_of_pos_right _ (by simp)
        refine ⟨by simp only []; omega, fun h => ?_⟩
        simp only [List.mem_append, not_or]
        exact ⟨⟨i2 (by omega), releaseMd_nofire r md _ (by omega)⟩, j2 (by omega)⟩

/-- an `_emit` that is aborted by an exception keeps at least one reference on each counter of its metadata -/
theorem emitAt_abort (hG : Unbuffered G) (r : Nat) (f : Nat) (n : NodeId) (v : Val) (md : Meta) (S : State)
    (e : Err) (h : (emitAt G f n v md S).err = some e) (hne : e ≠ .outOfFuel) :
    held r (emitAt G f n v md S).st ≥ held r S + (mult r md : Nat) ∧
    (held r S + (mult r md : Nat) ≥ 1 → Ev.fire r ∉ (emitAt G f n v md S).log) := by
  cases f with
  | zero => rw [emitAt.eq_1] at h; cases h; exact absurd rfl hne
  | succ f =>
    rw [emitAt_succ] at h ⊢
    simp only [] at h
    obtain ⟨j1, j2⟩ := deliver_abort G hG r n v md (S.downs n) f (emitPre S n md).1 e h hne
    have hh : held r (emitPre S n md).1 = held r S + (((S.downs n).length * mult r md : Nat) : Int) := by
      simp only [held, emitPre_count, emitPre_pending]; omega
    have hm : (S.downs n).length * mult r md = mult r md * (S.downs n).length := Nat.mul_comm _ _
    refine ⟨by simp only []; omega, fun h1 => ?_⟩
    simp only [List.cons_append, List.mem_cons, List.mem_append, not_or]
    exact ⟨fun h => (by cases h), emitPre_nofire _ _ _ _, j2 (by omega)⟩

/-! asynchronous consumers finishing / failing -/

theorem pendSum_filter_le (r : Nat) (p : Tok × NodeId × Meta → Bool) (l : List (Tok × NodeId × Meta)) :
    pendSum r (l.filter p) ≤ pendSum r l := by
  induction l with
  | nil => simp [pendSum]
  | cons x xs ih =>
    rw [List.filter_cons]
    split
    · simp only [pendSum]; omega
    · simp only [pendSum]; omega

/-- removing a consumer's entry frees at least what that entry held -/
theorem pendSum_remove (r : Nat) (tok : Tok) (l : List (Tok × NodeId × Meta)) (x : Tok × NodeId × Meta)
    (h : l.find? (·.1 = tok) = some x) :
    pendSum r (l.filter (·.1 ≠ tok)) + mult r x.2.2 ≤ pendSum r l := by
  induction l with
  | nil => simp at h
  | cons y ys ih =>
    rw [List.find?_cons] at h
    rw [List.filter_cons]
    by_cases hy : y.1 = tok
    · simp only [hy, decide_true] at h
      cases h
      have := pendSum_filter_le r (·.1 ≠ tok) ys
      simp only [hy, ne_eq, not_true_eq_false, decide_false, Bool.false_eq_true, if_false, pendSum]
      simp only [ne_eq] at this
      omega
    · simp only [hy, decide_false] at h
      have := ih h
      simp only [ne_eq, hy, not_false_eq_true, decide_true, if_true, pendSum]
      simp only [ne_eq] at this
      omega

/-- `r` is safe in `S`: emission frames that will never finish hold at least one reference
(`count r ≥ 1 + what pending consumers hold`), and no suspended `_flush` is going to release `r` -/
def Safe (r : Nat) (S : State) : Prop :=
  held r S ≥ 1 ∧ ∀ w ∈ S.waiters, mult r w.2 = 0

theorem wakeWaiters_safe (r : Nat) (ws : List (List Tok × Meta)) (S : State)
    (hws : ∀ w ∈ ws, mult r w.2 = 0) (hc : S.count r ≥ 1) :
    (wakeWaiters ws S).1.count r = S.count r ∧ (wakeWaiters ws S).1.pending = S.pending ∧
    (∀ w ∈ (wakeWaiters ws S).1.waiters, mult r w.2 = 0) ∧ Ev.fire r ∉ (wakeWaiters ws S).2 := by
  induction ws generalizing S with
  | nil => simp [wakeWaiters]
  | cons w ws ih =>
    obtain ⟨toks, md⟩ := w
    have hmd : mult r md = 0 := hws (toks, md) (by simp)
    have hws' : ∀ w ∈ ws, mult r w.2 = 0 := fun w hw => hws w (by simp [hw])
    unfold wakeWaiters
    split
    · have hcnt : (releaseMd md S).1.count r = S.count r := by rw [releaseMd_count, hmd]; simp
      obtain ⟨a, b, c, d⟩ := ih (releaseMd md S).1 hws' (by rw [hcnt]; exact hc)
      refine ⟨by simp only []; rw [a, hcnt], by simp only []; rw [b, releaseMd_pending], c, ?_⟩
      simp only [List.mem_append, not_or]
      exact ⟨releaseMd_nofire r md S (by rw [hmd]; simpa using hc), d⟩
    · obtain ⟨a, b, c, d⟩ := ih S hws' hc
      refine ⟨a, b, ?_, d⟩
      intro w hw
      simp only [List.mem_cons] at hw
      rcases hw with rfl | hw
      · exact hmd
      · exact c w hw

theorem sinkDone_safe (r : Nat) (tok : Tok) (S S' : State) (l : List Ev) (hS : Safe r S)
    (h : sinkDone tok S = some (S', l)) : Safe r S' ∧ Ev.fire r ∉ l := by
  unfold sinkDone at h
  obtain ⟨hh, hw⟩ := hS
  cases hf : S.pending.find? (·.1 = tok) with
  | none => rw [hf] at h; cases h
  | some x =>
    obtain ⟨t, dd, md⟩ := x
    rw [hf] at h
    simp only [Option.some.injEq, Prod.mk.injEq] at h
    obtain ⟨rfl, rfl⟩ := h
    have hp := pendSum_remove r tok S.pending _ hf
    simp only [] at hp
    -- state after the release
    let S1 : State := { S with pending := S.pending.filter (·.1 ≠ tok), doneToks := tok :: S.doneToks }
    have hc1 : S1.count r = S.count r := rfl
    have hc2 : (releaseMd md S1).1.count r = S.count r - (mult r md : Nat) := by rw [releaseMd_count]
    have hpd : (releaseMd md S1).1.pending = S.pending.filter (·.1 ≠ tok) := by rw [releaseMd_pending]
    have hwt : (releaseMd md S1).1.waiters = S.waiters := by rw [releaseMd_waiters]
    unfold held at hh
    have hge : (releaseMd md S1).1.count r ≥ 1 := by rw [hc2]; omega
    obtain ⟨a, b, c, d⟩ := wakeWaiters_safe r (releaseMd md S1).1.waiters (releaseMd md S1).1
      (by rw [hwt]; exact hw) hge
    refine ⟨⟨?_, c⟩, ?_⟩
    · unfold held
      rw [a, b, hc2, hpd]; omega
    · simp only [List.cons_append, List.mem_cons, List.mem_append, not_or]
      exact ⟨fun h => (by cases h), releaseMd_nofire r md S1 (by rw [hc1]; omega), d⟩

theorem sinkFail_safe (r : Nat) (tok : Tok) (S S' : State) (hS : Safe r S) (h : sinkFail tok S = some S') :
    Safe r S' := by
  unfold sinkFail at h
  obtain ⟨hh, hw⟩ := hS
  cases hf : S.pending.find? (·.1 = tok) with
  | none => rw [hf] at h; cases h
  | some x =>
    rw [hf] at h
    simp only [Option.some.injEq] at h
    subst h
    have hp := pendSum_filter_le r (·.1 ≠ tok) S.pending
    refine ⟨?_, fun w hw' => hw w (List.mem_filter.1 hw').1⟩
    unfold held at hh ⊢
    simp only []
    omega

/-- what the environment can do after a run: push another element in anywhere (with any metadata), let an
asynchronous consumer finish, let it fail -/
inductive Op
  | emit (fuel : Nat) (n : NodeId) (v : Val) (md : Meta)
  | done (tok : Tok)
  | fail (tok : Tok)

def Op.run : Op → State → Option (State × List Ev)
  | .emit f n v md, S => some ((emitAt G f n v md S).st, (emitAt G f n v md S).log)
  | .done tok, S => sinkDone tok S
  | .fail tok, S => (sinkFail tok S).map (fun S' => (S', []))

/-- run a sequence of operations (stopping with `none` at an operation on an unknown token), logs concatenated -/
def runOps : List Op → State → Option (State × List Ev)
  | [], S => some (S, [])
  | o :: os, S =>
    match o.run G S with
    | none => none
    | some (S1, l1) =>
      match runOps os S1 with
      | none => none
      | some (S2, l2) => some (S2, l1 ++ l2)

theorem op_safe (hG : Unbuffered G) (r : Nat) (o : Op) (S S' : State) (l : List Ev) (hS : Safe r S)
    (h : o.run G S = some (S', l)) : Safe r S' ∧ Ev.fire r ∉ l := by
  cases o with
  | emit f n v md =>
    simp only [Op.run, Option.some.injEq, Prod.mk.injEq] at h
    obtain ⟨rfl, rfl⟩ := h
    have i := mono_all G hG r f (.emit n v md) S trivial
    simp only [MonoP, interp] at i
    obtain ⟨i0, i1, i2⟩ := i
    exact ⟨⟨by have := hS.1; omega, by rw [i0]; exact hS.2⟩, i2 hS.1⟩
  | done tok => exact sinkDone_safe r tok S S' l hS h
  | fail tok =>
    simp only [Op.run, Option.map_eq_some_iff, Prod.mk.injEq] at h
    obtain ⟨S'', h1, rfl, rfl⟩ := h
    exact ⟨sinkFail_safe r tok S S'' hS h1, by simp⟩

theorem runOps_safe (hG : Unbuffered G) (r : Nat) (os : List Op) (S S' : State) (l : List Ev) (hS : Safe r S)
    (h : runOps G os S = some (S', l)) : Safe r S' ∧ Ev.fire r ∉ l := by
  induction os generalizing S l with
  | nil =>
    simp only [runOps, Option.some.injEq, Prod.mk.injEq] at h
    obtain ⟨rfl, rfl⟩ := h
    exact ⟨hS, by simp⟩
  | cons o os ih =>
    unfold runOps at h
    cases h1 : o.run G S with
    | none => rw [h1] at h; cases h
    | some p1 =>
      obtain ⟨S1, l1⟩ := p1
      rw [h1] at h
      simp only [] at h
      obtain ⟨a, b⟩ := op_safe G hG r o S S1 l1 hS h1
      cases h2 : runOps G os S1 with
      | none => rw [h2] at h; cases h
      | some p2 =>
        obtain ⟨S2, l2⟩ := p2
        rw [h2] at h
        simp only [Option.some.injEq, Prod.mk.injEq] at h
        obtain ⟨rfl, rfl⟩ := h
        obtain ⟨c, d⟩ := ih S1 l2 a h2
        exact ⟨c, by simp only [List.mem_append, not_or]; exact ⟨b, d⟩⟩

/-- A failing `update` call — the node's own code raised on this arrival — leaves every node's state and every
edge as they were (only a reference count may have gone up). -/
theorem update_own_failure_frame (f : Nat) (d who : NodeId) (v : Val) (md : Meta) (S : State) (e : Err)
    (hs : ∀ m, G d ≠ .sink m) (h : (upd (G d) (S.loc d) who v md).err = some e) :
    (update G f d who v md S).st.loc = S.loc ∧ (update G f d who v md S).st.downs = S.downs := by
  cases f with
  | zero => rw [update.eq_1]; exact ⟨rfl, rfl⟩
  | succ f =>
    rw [update_other G _ _ _ _ _ _ hs, updWrap_st, upd_err_effs h]
    exact ⟨(runEffs_failing_body G f d _ md S).1, (runEffs_failing_body G f d _ md S).2.1⟩

theorem update_sync_sink_frame (f : Nat) (d who : NodeId) (v : Val) (md : Meta) (S : State) (fn : Fn)
    (hs : G d = .sink (.sync fn)) : (update G f d who v md S).st = S := by
  cases f with
  | zero => rw [update.eq_1]; rfl
  | succ f =>
    rw [update_sink G _ _ _ _ _ _ _ hs]
    unfold sinkRes
    simp only []
    split <;> rfl


/-! ### D. Projection at the failing node (DAGs, no coroutine kind) -/

theorem RcL.quiet {l : List Ev} (h : RcL l) : QuietL l := by
  intro e he
  have := h e he
  cases e <;> simp_all [Ev.isRc, Ev.quiet]

/-- every arrival in the log is at a node `> m` -/
def ArrAbove (m : Nat) (l : List Ev) : Prop := ∀ d who v md, Ev.arrive d who v md ∈ l → m < d

theorem ArrAbove.nil (m : Nat) : ArrAbove m [] := fun _ _ _ _ h => by cases h
theorem ArrAbove.append {m : Nat} {a b : List Ev} (ha : ArrAbove m a) (hb : ArrAbove m b) :
    ArrAbove m (a ++ b) := by
  intro d who v md h
  rcases List.mem_append.1 h with h | h
  · exact ha d who v md h
  · exact hb d who v md h
theorem QuietL.arrAbove {l : List Ev} (h : QuietL l) (m : Nat) : ArrAbove m l := by
  intro d who v md hm
  exact absurd (h _ hm) (by simp [Ev.quiet])
theorem ArrAbove.mono {m m' : Nat} {l : List Ev} (h : ArrAbove m l) (hm : m' ≤ m) : ArrAbove m' l :=
  fun d who v md hd => Nat.lt_of_le_of_lt hm (h d who v md hd)

/-- where the arrivals of a call are, whatever its outcome -/
def AboveP : Call → List Ev → Prop
  | .emit n _ _, l => ArrAbove n l
  | .deliver ds _ _ _, l => ∀ m, (∀ d ∈ ds, m < d) → ArrAbove m l
  | .update d _ _ _, l => ∀ m, m < d → ArrAbove m l
  | .effs d _, l => ArrAbove d l

theorem sinkRes_arrAbove (m : SinkMode) (d who : NodeId) (v : Val) (md : Meta) (S : State) (k : Nat)
    (hk : k < d) : ArrAbove k (sinkRes m d who v md S).log := by
  intro d' who' v' md' h
  unfold sinkRes at h
  cases m with
  | sync fn =>
    simp only [] at h
    split at h
    · simp at h; rw [h.1]; exact hk
    · simp [Res.fail] at h; rw [h.1]; exact hk
  | async =>
    simp only [List.mem_append, List.mem_cons, List.not_mem_nil, or_false] at h
    rcases h with (h | h) | h
    · cases h; exact hk
    · cases h
    · split at h
      · cases h
      · exact absurd ((retainMd_rc _ _ _).quiet _ h) (by simp [Ev.quiet])

theorem above_all (f : Nat) : ∀ (c : Call) (S : State), Acyclic S → AboveP c (interp G f c S).log := by
  induction f with
  | zero =>
    intro c S _
    rw [interp_zero_log]
    cases c <;> simp only [AboveP] <;> intros <;> exact ArrAbove.nil _
  | succ f ih =>
    intro c S hA
    cases c with
    | emit n v md =>
      simp only [AboveP, interp]
      rw [emitAt_succ]
      have i := ih (.deliver (S.downs n) n v md) (emitPre S n md).1 (hA.of_eq (by simp))
      simp only [AboveP, interp] at i
      have i' := i n (fun d hd => hA n d hd)
      intro d who v' md' h
      simp only [List.cons_append, List.mem_cons, List.mem_append] at h
      rcases h with h | h | h
      · cases h
      · exact (emitPre_quiet S n md).arrAbove n d who v' md' h
      · exact i' d who v' md' h
    | deliver ds n v md =>
      simp only [AboveP, interp]
      intro m hm
      cases ds with
      | nil => rw [deliver_nil]; exact ArrAbove.nil _
      | cons d ds =>
        have i := ih (.update d n v md) S hA
        simp only [AboveP, interp] at i
        have i' := i m (hm d (by simp))
        cases h1 : (update G f d n v md S).err with
        | some e1 => rw [deliver_cons_err G h1]; exact i'
        | none =>
          rw [deliver_cons_ok G h1]
          have hA2 : Acyclic (releaseMd md (update G f d n v md S).st).1 :=
            (hA.of_sublist (interp_downs_sublist G f (.update d n v md) S)).of_eq (by simp [interp])
          have j := ih (.deliver ds n v md) _ hA2
          simp only [AboveP, interp] at j
          exact (i'.append ((releaseMd_quiet _ _).arrAbove m)).append (j m (fun x hx => hm x (by simp [hx])))
    | update d who v md =>
      simp only [AboveP, interp]
      intro m hm
      by_cases hs : ∃ k, G d = .sink k
      · obtain ⟨k, hk⟩ := hs
        rw [update_sink G _ _ _ _ _ _ k hk]
        exact sinkRes_arrAbove k d who v md S m hm
      · have hs' : ∀ k, G d ≠ .sink k := fun k hk => hs ⟨k, hk⟩
        rw [update_other G _ _ _ _ _ _ hs']
        have i := ih (.effs d (upd (G d) (S.loc d) who v md).effs) S hA
        simp only [AboveP, interp] at i
        rw [updWrap_log]
        intro d' who' v' md' h
        simp only [List.cons_append, List.mem_cons, List.mem_append] at h
        rcases h with h | h | h
        · cases h; exact hm
        · exact Nat.lt_trans hm (i d' who' v' md' h)
        · unfold updTail at h
          split at h
          · cases h
          · split at h
            · simp at h
            · cases h
    | effs d es =>
      simp only [AboveP, interp]
      cases es with
      | nil => rw [runEffs_nil]; exact ArrAbove.nil _
      | cons ef es =>
        cases ef with
        | retain md' =>
          rw [runEffs_cons]
          have i := ih (.effs d es) (retainMd 1 md' S).1 (hA.of_eq (by simp))
          simp only [AboveP, interp] at i
          exact ((retainMd_quiet _ _ _).arrAbove d).append i
        | release md' =>
          rw [runEffs_cons]
          have i := ih (.effs d es) (releaseMd md' S).1 (hA.of_eq (by simp))
          simp only [AboveP, interp] at i
          exact ((releaseMd_quiet _ _).arrAbove d).append i
        | set s' =>
          rw [runEffs_cons]
          exact ih (.effs d es) (S.setLoc d s') (hA.of_eq (by simp))
        | detach =>
          rw [runEffs_cons]
          exact ih (.effs d es) (detachNode d S) (hA.detachNode d)
        | emit v' md' =>
          have i := ih (.emit d v' md') S hA
          simp only [AboveP, interp] at i
          cases h1 : (emitAt G f d v' md' S).err with
          | some e1 => rw [runEffs_emit_err G h1]; exact i
          | none =>
            rw [runEffs_emit_ok G h1]
            have hA2 : Acyclic (emitAt G f d v' md' S).st :=
              hA.of_sublist (interp_downs_sublist G f (.emit d v' md') S)
            have j := ih (.effs d es) _ hA2
            simp only [AboveP, interp] at j
            exact i.append j
        | emitThenRelease v' md' =>
          have i := ih (.emit d v' md') S hA
          simp only [AboveP, interp] at i
          cases h1 : (emitAt G f d v' md' S).err with
          | some e1 => rw [runEffs_etr_err G h1]; exact i
          | none =>
            cases h2 : (emitAt G f d v' md' S).carried with
            | some e2 => rw [runEffs_etr_carried G h1 h2]; exact i
            | none =>
              rw [runEffs_etr_ok G h1 h2]
              have hA2 : Acyclic (etrPost md' (emitAt G f d v' md' S).toks (emitAt G f d v' md' S).st).1 :=
                (hA.of_sublist (interp_downs_sublist G f (.emit d v' md') S)).of_eq (by simp [interp])
              have j := ih (.effs d es) _ hA2
              simp only [AboveP, interp] at j
              exact (i.append ((etrPost_quiet _ _ _).arrAbove d)).append j

theorem arrive_mem_of_arrivalsAt {d : NodeId} {l : List Ev} {as : List Arr} {x : Arr}
    (h : arrivalsAt d l = as ++ [x]) : Ev.arrive d x.1 x.2.1 x.2.2 ∈ l := by
  have hx : x ∈ arrivalsAt d l := by rw [h]; simp
  unfold arrivalsAt at hx
  obtain ⟨ev, hev, hf⟩ := List.mem_filterMap.1 hx
  cases ev with
  | arrive d' who v md =>
    simp only [] at hf
    split at hf
    · next hd => subst hd; cases hf; exact hev
    · cases hf
  | _ => simp at hf

/-- The failing node of an aborted call, in projection form: the node `d` that raised had, when its code ran,
processed exactly its earlier arrivals `as` of this call (state = `replay … as`), its last arrival is the one
it failed on, and it is still in that state at the end. -/
def AbortP (S : State) (res : Res) (e : Err) : Prop :=
  ∃ (d who : NodeId) (v' : Val) (md' : Meta) (as : List Arr),
    arrivalsAt d res.log = as ++ [(who, v', md')] ∧
    res.st.loc d = replay G d (S.loc d) as ∧
    Ev.raised d e ∈ res.log ∧
    ((∃ fn, G d = .sink (.sync fn) ∧ fn.eval v' = .error e) ∨
     ((∀ m, G d ≠ .sink m) ∧ (upd (G d) (res.st.loc d) who v' md').err = some e))

/-- a successful first part followed by an aborted second part -/
theorem AbortP.after {S S1 : State} {r2 res : Res} {e : Err} {l1 : List Ev}
    (h : AbortP G S1 r2 e)
    (hproj : ∀ i, S1.loc i = replay G i (S.loc i) (arrivalsAt i l1))
    (hst : res.st = r2.st) (hlog : res.log = l1 ++ r2.log) : AbortP G S res e := by
  obtain ⟨d, who, v', md', as, h1, h2, h3, h4⟩ := h
  refine ⟨d, who, v', md', arrivalsAt d l1 ++ as, ?_, ?_, ?_, ?_⟩
  · rw [hlog, arrivalsAt_append, h1, List.append_assoc]
  · rw [hst, h2, hproj d, replay_append]
  · rw [hlog]; exact List.mem_append_right _ h3
  · rw [hst]; exact h4

theorem abort_proj_all (hG : NoCoroutine G) (f : Nat) : ∀ (c : Call) (S : State) (e : Err), Acyclic S →
    (interp G f c S).err = some e → e ≠ .outOfFuel → AbortP G S (interp G f c S) e := by
  induction f with
  | zero =>
    intro c S e _ h hne
    rw [interp_zero_err] at h; cases h; exact absurd rfl hne
  | succ f ih =>
    intro c S e hA h hne
    cases c with
    | emit n v md =>
      simp only [interp] at h ⊢
      rw [emitAt_succ] at h ⊢
      simp only [] at h
      have i := ih (.deliver (S.downs n) n v md) (emitPre S n md).1 e (hA.of_eq (by simp)) h hne
      refine i.after G (l1 := Ev.emit n v md :: (emitPre S n md).2) (fun i => ?_) rfl (by simp [interp])
      rw [arrivalsAt_cons_emit, (emitPre_quiet S n md).arrivalsAt i]; simp
    | deliver ds n v md =>
      simp only [interp] at h ⊢
      cases ds with
      | nil => rw [deliver_nil] at h; cases h
      | cons d ds =>
        cases h1 : (update G f d n v md S).err with
        | some e1 =>
          rw [deliver_cons_err G h1] at h ⊢
          exact ih (.update d n v md) S e hA h hne
        | none =>
          rw [deliver_cons_ok G h1] at h ⊢
          simp only [] at h
          have hok : (interp G f (.update d n v md) S).Ok :=
            ⟨h1, (raised_err_all G hG f (.update d n v md) S).1⟩
          have hr := run_of_ok G f (.update d n v md) S hok
          have hp := run_proj G hr hA
          simp only [interp] at hr hp
          have hA2 : Acyclic (releaseMd md (update G f d n v md S).st).1 := (hA.run G hr).of_eq (by simp)
          have i := ih (.deliver ds n v md) _ e hA2 h hne
          refine i.after G (l1 := (update G f d n v md S).log ++ (releaseMd md (update G f d n v md S).st).2)
            (fun i => ?_) rfl (by simp [interp])
          rw [arrivalsAt_append, (releaseMd_quiet _ _).arrivalsAt i, List.append_nil, releaseMd_loc]
          exact hp i
    | update d who v md =>
      simp only [interp] at h ⊢
      by_cases hs : ∃ m, G d = .sink m
      · obtain ⟨m, hm⟩ := hs
        rw [update_sink G _ _ _ _ _ _ m hm] at h ⊢
        cases m with
        | async => simp [sinkRes] at h
        | sync fn =>
          unfold sinkRes at h ⊢
          simp only [] at h ⊢
          cases hf : fn.eval v with
          | ok y => rw [hf] at h; simp at h
          | error e1 =>
            rw [hf] at h
            simp only [Res.fail] at h ⊢
            cases h
            exact ⟨d, who, v, md, [], by simp [arrivalsAt], rfl, by simp, Or.inl ⟨fn, hm, hf⟩⟩
      · have hs' : ∀ m, G d ≠ .sink m := fun m hm => hs ⟨m, hm⟩
        rw [update_other G _ _ _ _ _ _ hs'] at h ⊢
        rw [updWrap_err_plain (hG d)] at h
        unfold updErr0 at h
        cases hr : (runEffs G f d (upd (G d) (S.loc d) who v md).effs S).err with
        | some e1 =>
          rw [hr] at h; simp only [] at h; cases h
          have i := ih (.effs d _) S e hA hr hne
          simp only [interp] at i
          obtain ⟨d', who', v', md', as, h1, h2, h3, h4⟩ := i
          have hab := above_all G f (.effs d (upd (G d) (S.loc d) who v md).effs) S hA
          simp only [AboveP, interp] at hab
          have hdd : d < d' := hab d' _ _ _ (arrive_mem_of_arrivalsAt h1)
          have hne' : ¬ d = d' := Nat.ne_of_lt hdd
          refine ⟨d', who', v', md', as, ?_, ?_, ?_, ?_⟩
          · rw [updWrap_log, List.cons_append, arrivalsAt_cons_arrive, if_neg hne', arrivalsAt_append, h1]
            simp [updTail, hr, arrivalsAt]
          · rw [updWrap_st]; exact h2
          · rw [updWrap_log]; simp [h3]
          · rw [updWrap_st]; exact h4
        | none =>
          rw [hr] at h; simp only [] at h
          have hb := runEffs_failing_body G f d (retainsFirst (G d)) md S
          rw [← upd_err_effs h] at hb
          refine ⟨d, who, v, md, [], ?_, ?_, ?_, Or.inr ⟨hs', ?_⟩⟩
          · rw [updWrap_log, List.cons_append, arrivalsAt_cons_arrive, if_pos rfl, arrivalsAt_append,
              hb.2.2.quiet.arrivalsAt]
            simp [updTail, hr, h, arrivalsAt]
          · rw [updWrap_st, hb.1]; rfl
          · rw [updWrap_log]; simp [updTail, hr, h]
          · rw [updWrap_st, hb.1]; exact h
    | effs d es =>
      simp only [interp] at h ⊢
      cases es with
      | nil => rw [runEffs_nil] at h; cases h
      | cons ef es =>
        cases ef with
        | retain md' =>
          rw [runEffs_cons] at h ⊢
          have i := ih (.effs d es) (retainMd 1 md' S).1 e (hA.of_eq (by simp)) h hne
          refine i.after G (l1 := (retainMd 1 md' S).2) (fun i => ?_) rfl (by simp [interp])
          rw [(retainMd_quiet _ _ _).arrivalsAt i]; simp
        | release md' =>
          rw [runEffs_cons] at h ⊢
          have i := ih (.effs d es) (releaseMd md' S).1 e (hA.of_eq (by simp)) h hne
          refine i.after G (l1 := (releaseMd md' S).2) (fun i => ?_) rfl (by simp [interp])
          rw [(releaseMd_quiet _ _).arrivalsAt i]; simp
        | set s' =>
          rw [runEffs_cons] at h ⊢
          simp only [] at h ⊢
          have hA2 : Acyclic (S.setLoc d s') := hA.of_eq (by simp)
          have i := ih (.effs d es) (S.setLoc d s') e hA2 h hne
          simp only [interp] at i
          obtain ⟨d', who', v', md', as, h1, h2, h3, h4⟩ := i
          have hab := above_all G f (.effs d es) (S.setLoc d s') hA2
          simp only [AboveP, interp] at hab
          have hdd : d < d' := hab d' _ _ _ (arrive_mem_of_arrivalsAt h1)
          refine ⟨d', who', v', md', as, h1, ?_, h3, h4⟩
          rw [h2, setLoc_other S s' (Nat.ne_of_gt hdd)]
        | detach =>
          rw [runEffs_cons] at h ⊢
          simp only [] at h ⊢
          have i := ih (.effs d es) (detachNode d S) e (hA.detachNode d) h hne
          simp only [interp] at i
          obtain ⟨d', who', v', md', as, h1, h2, h3, h4⟩ := i
          exact ⟨d', who', v', md', as, h1, by rw [h2, detachNode_loc], h3, h4⟩
        | emit v' md' =>
          cases h1 : (emitAt G f d v' md' S).err with
          | some e1 =>
            rw [runEffs_emit_err G h1] at h ⊢
            exact ih (.emit d v' md') S e hA h hne
          | none =>
            rw [runEffs_emit_ok G h1] at h ⊢
            simp only [] at h
            have hok : (interp G f (.emit d v' md') S).Ok :=
              ⟨h1, (raised_err_all G hG f (.emit d v' md') S).1⟩
            have hr := run_of_ok G f (.emit d v' md') S hok
            have hp := run_proj G hr hA
            simp only [interp] at hr hp
            have i := ih (.effs d es) _ e (hA.run G hr) h hne
            exact i.after G (l1 := (emitAt G f d v' md' S).log) hp rfl (by simp [interp])
        | emitThenRelease v' md' =>
          cases h1 : (emitAt G f d v' md' S).err with
          | some e1 =>
            rw [runEffs_etr_err G h1] at h ⊢
            exact ih (.emit d v' md') S e hA h hne
          | none =>
            have h2 := (raised_err_all G hG f (.emit d v' md') S).1
            simp only [interp] at h2
            rw [runEffs_etr_ok G h1 h2] at h ⊢
            simp only [] at h
            have hr := run_of_ok G f (.emit d v' md') S ⟨h1, h2⟩
            have hp := run_proj G hr hA
            simp only [interp] at hr hp
            have hA2 : Acyclic (etrPost md' (emitAt G f d v' md' S).toks (emitAt G f d v' md' S).st).1 :=
              (hA.run G hr).of_eq (by simp)
            have i := ih (.effs d es) _ e hA2 h hne
            refine i.after G
              (l1 := (emitAt G f d v' md' S).log ++ (etrPost md' (emitAt G f d v' md' S).toks (emitAt G f d v' md' S).st).2)
              (fun i => ?_) rfl (by simp [interp])
            rw [arrivalsAt_append, (etrPost_quiet _ _ _).arrivalsAt i, List.append_nil, etrPost_loc]
            exact hp i

/-! Boolean log tests for the `decide`d examples (`Ev` has no `DecidableEq`) -/

def hasFire (r : Nat) (l : List Ev) : Bool := l.any fun | .fire q => q == r | _ => false

def isRaised (d : NodeId) (e : Err) : Ev → Bool
  | .raised d' e' => d' == d && e' == e
  | _ => false

theorem mem_of_any_isRaised {d : NodeId} {e : Err} {l : List Ev} (h : l.any (isRaised d e) = true) :
    Ev.raised d e ∈ l := by
  obtain ⟨x, hx, hp⟩ := List.any_eq_true.1 h
  cases x <;> simp [isRaised] at hp
  obtain ⟨rfl, rfl⟩ := hp
  exact hx

end StreamzVerif.Graph
