import StreamzVerif.Proofs.Propagate
/-
Composition layer of C01: connects the graph-level theorems (`Proofs/Propagate.lean`: the interpreter hands each
node exactly what its upstreams emitted) with the per-kind list-level theorems (`Props/C01Sem.lean`: what a node
run in isolation outputs for an arrival list).

  1. `emitMany`: a whole input history (top-level emissions interleaved over entry points), `RunSeq` its
     big-step relation, and the graph-level facts lifted to histories
  2. one edge: if `u` is the only upstream of `d`, the arrivals at `d` are the emissions of `u`
  3. chains: the arrivals at each node of a linear chain are the composed local runs applied to the input
  4. fan-out and the `zip` diamond
-/
namespace StreamzVerif.Graph

variable (G : NodeId → Kind)

/-! ### 1. Input histories -/

/-- one top-level emission: (entry node, value, metadata) -/
abbrev Inp := NodeId × Val × Meta

/-- `source.emit(x)` called for each element of an input history in turn, stopping at the first exception. -/
def emitMany (fuel : Nat) : List Inp → State → Res
  | [], S => { st := S }
  | (n, v, md) :: rest, S =>
    let r1 := emitAt G fuel n v md S
    match r1.err with
    | some _ => r1
    | none =>
      let r2 := emitMany fuel rest r1.st
      { st := r2.st, log := r1.log ++ r2.log, toks := r1.toks ++ r2.toks, err := r2.err,
        carried := r1.carried <|> r2.carried }

/-- what the history injects at node `i` -/
def entriesAt (i : NodeId) (ins : List Inp) : List (Val × Meta) :=
  ins.filterMap fun a => if a.1 = i then some a.2 else none

@[simp] theorem entriesAt_nil (i : NodeId) : entriesAt i [] = [] := rfl
theorem entriesAt_cons (i : NodeId) (a : Inp) (ins : List Inp) :
    entriesAt i (a :: ins) = (if a.1 = i then [a.2] else []) ++ entriesAt i ins := by
  unfold entriesAt
  rw [List.filterMap_cons]
  split <;> simp_all

/-- successful histories: every call is a `Run` derivation, states threaded, logs concatenated -/
inductive RunSeq : List Inp → State → State → List Ev → Prop
  | nil {S} : RunSeq [] S S []
  | cons {n v md rest S S1 l1 t1 S2 l2} :
      Run G (.emit n v md) S S1 l1 t1 → RunSeq rest S1 S2 l2 → RunSeq ((n, v, md) :: rest) S S2 (l1 ++ l2)

theorem runSeq_of_ok (fuel : Nat) : ∀ (ins : List Inp) (S : State), (emitMany G fuel ins S).Ok →
    RunSeq G ins S (emitMany G fuel ins S).st (emitMany G fuel ins S).log := by
  intro ins
  induction ins with
  | nil => intro S _; exact RunSeq.nil
  | cons a rest ih =>
    intro S h
    obtain ⟨n, v, md⟩ := a
    simp only [emitMany] at h ⊢
    cases h1 : (emitAt G fuel n v md S).err with
    | some e => exact absurd h.err (by simp [h1])
    | none =>
      simp only [h1] at h ⊢
      have hc := h.carried
      simp only [] at hc
      have hc1 : (emitAt G fuel n v md S).carried = none := by
        cases hx : (emitAt G fuel n v md S).carried with
        | none => rfl
        | some e => rw [hx] at hc; simp at hc
      have hc2 : (emitMany G fuel rest (emitAt G fuel n v md S).st).carried = none := by
        rw [hc1] at hc; simpa using hc
      exact RunSeq.cons (run_of_ok G fuel (.emit n v md) S ⟨h1, hc1⟩) (ih _ ⟨h.err, hc2⟩)

theorem runSeq_downs_sublist {ins : List Inp} {S S' : State} {l : List Ev} (h : RunSeq G ins S S' l) :
    ∀ u, (S'.downs u).Sublist (S.downs u) := by
  induction h with
  | nil => intro u; exact List.Sublist.refl _
  | cons h1 _ ih => intro u; exact (ih u).trans (run_downs_sublist G h1 u)

theorem Acyclic.runSeq {ins : List Inp} {S S' : State} {l : List Ev} (hA : Acyclic S)
    (h : RunSeq G ins S S' l) : Acyclic S' := hA.of_sublist (runSeq_downs_sublist G h)

theorem runSeq_proj {ins : List Inp} {S S' : State} {l : List Ev} (h : RunSeq G ins S S' l) :
    Acyclic S → ∀ i, S'.loc i = replay G i (S.loc i) (arrivalsAt i l) := by
  induction h with
  | nil => intro _ i; rfl
  | cons h1 _ ih =>
    intro hA i
    rw [arrivalsAt_append, replay_append, ← run_proj G h1 hA i]
    exact ih (hA.run G h1) i

theorem perm_swap_mid {α : Type} (a b c d : List α) : ((a ++ b) ++ (c ++ d)).Perm ((a ++ c) ++ (b ++ d)) := by
  rw [List.append_assoc, List.append_assoc]
  refine List.Perm.append_left a ?_
  rw [← List.append_assoc, ← List.append_assoc]
  exact List.Perm.append_right d List.perm_append_comm

/-- Emissions of a node over a whole history: a node that is not an entry point emits exactly its local
outputs; a node nothing arrives at emits exactly what was injected; in general the two are interleaved. -/
theorem runSeq_emits {ins : List Inp} {S S' : State} {l : List Ev} (h : RunSeq G ins S S' l) :
    Acyclic S → ∀ i,
      (entriesAt i ins = [] → emitsOf i l = localOuts G i (S.loc i) (arrivalsAt i l)) ∧
      (arrivalsAt i l = [] → emitsOf i l = entriesAt i ins) ∧
      (emitsOf i l).Perm (entriesAt i ins ++ localOuts G i (S.loc i) (arrivalsAt i l)) := by
  induction h with
  | nil => intro _ i; exact ⟨fun _ => rfl, fun _ => rfl, List.Perm.refl _⟩
  | @cons n v md rest S S1 l1 t1 S2 l2 h1 _ ih =>
    intro hA i
    obtain ⟨ih1, ih2, ih3⟩ := ih (hA.run G h1) i
    have e1 : emitsOf i l1 = (if n = i then [(v, md)] else []) ++ localOuts G i (S.loc i) (arrivalsAt i l1) :=
      run_emits G h1 hA i
    have p1 : S1.loc i = replay G i (S.loc i) (arrivalsAt i l1) := run_proj G h1 hA i
    rw [p1] at ih1 ih3
    have hc : entriesAt i ((n, v, md) :: rest) = (if n = i then [(v, md)] else []) ++ entriesAt i rest :=
      entriesAt_cons i (n, v, md) rest
    refine ⟨fun he => ?_, fun ha => ?_, ?_⟩
    · rw [hc] at he
      have he1 : (if n = i then [(v, md)] else []) = [] := (List.append_eq_nil_iff.1 he).1
      have he2 : entriesAt i rest = [] := (List.append_eq_nil_iff.1 he).2
      rw [emitsOf_append, arrivalsAt_append, localOuts_append, e1, he1, ih1 he2]; rfl
    · rw [arrivalsAt_append] at ha
      have ha1 := (List.append_eq_nil_iff.1 ha).1
      have ha2 := (List.append_eq_nil_iff.1 ha).2
      rw [emitsOf_append, e1, ha1, ih2 ha2, hc]; simp
    · rw [emitsOf_append, arrivalsAt_append, localOuts_append, e1, hc]
      exact (List.Perm.append_left _ ih3).trans (perm_swap_mid _ _ _ _)

theorem runSeq_static (hG : NoDetach G) {ins : List Inp} {S S' : State} {l : List Ev}
    (h : RunSeq G ins S S' l) : S'.downs = S.downs := by
  induction h with
  | nil => rfl
  | cons h1 _ ih => exact ih.trans (run_static G hG h1)

/-- Edge consistency over a whole history (static topology). -/
theorem runSeq_edges (hG : NoDetach G) {ins : List Inp} {S S' : State} {l : List Ev}
    (h : RunSeq G ins S S' l) :
    Acyclic S → ∀ u, arrivalsFrom u l = (emitsOf u l).flatMap (fanout (S.downs u)) := by
  induction h with
  | nil => intro _ u; rfl
  | cons h1 _ ih =>
    intro hA u
    have e1 : arrivalsFrom u _ = _ := run_edges G hG h1 hA u
    have e2 := ih (hA.run G h1) u
    rw [run_static G hG h1] at e2
    rw [arrivalsFrom_append, emitsOf_append, List.flatMap_append, e1, e2]

/-! ### 2. One edge -/

theorem mem_arrivalsAt {d who : NodeId} {v : Val} {md : Meta} {l : List Ev} :
    (who, v, md) ∈ arrivalsAt d l ↔ Ev.arrive d who v md ∈ l := by
  induction l with
  | nil => simp
  | cons ev l ih =>
    have hc : ev :: l = [ev] ++ l := rfl
    rw [hc, arrivalsAt_append, List.mem_append, List.mem_append, ih]
    refine or_congr ?_ Iff.rfl
    cases ev with
    | arrive d' who' v' md' =>
      by_cases h : d' = d
      · subst h; simp [arrivalsAt]
      · simp [arrivalsAt, h]; intro h2; exact absurd h2.symm h
    | _ => simp [arrivalsAt]

/-- the (value, metadata) payloads from `u`, tagged with their origin -/
def tag (u : NodeId) (es : List (Val × Meta)) : List Arr := es.map fun e => (u, e.1, e.2)

@[simp] theorem pays_tag (u : NodeId) (es : List (Val × Meta)) : pays (tag u es) = es := by
  induction es with
  | nil => rfl
  | cons e es ih => simp only [tag, List.map_cons, pays_cons] at ih ⊢; rw [ih]
@[simp] theorem tag_nil (u : NodeId) : tag u [] = [] := rfl
theorem seqOf_tag_self (u : NodeId) (es : List (Val × Meta)) : seqOf u (tag u es) = es := by
  induction es with
  | nil => rfl
  | cons e es ih =>
    have : tag u (e :: es) = (u, e) :: tag u es := rfl
    rw [this, seqOf_cons_self, ih]
theorem tag_mem {u : NodeId} {es : List (Val × Meta)} {a : Arr} (h : a ∈ tag u es) : a.2 ∈ es ∧ a.1 = u := by
  simp only [tag, List.mem_map] at h
  obtain ⟨e, he, rfl⟩ := h
  exact ⟨he, rfl⟩

theorem seqOf_arrivalsAt (u d : NodeId) (l : List Ev) : seqOf u (arrivalsAt d l) = arriveFromTo u d l := by
  induction l with
  | nil => rfl
  | cons ev l ih =>
    have hc : ev :: l = [ev] ++ l := rfl
    rw [hc, arrivalsAt_append, seqOf_append, arriveFromTo_append, ih]
    congr 1
    cases ev with
    | arrive d' who v md =>
      by_cases h1 : d' = d <;> by_cases h2 : who = u <;> simp [arrivalsAt, arriveFromTo, seqOf, h1, h2]
    | _ => simp [arrivalsAt, arriveFromTo, seqOf]

theorem arrivalsAt_of_single_origin (u d : NodeId) (l : List Ev)
    (h : ∀ who v md, Ev.arrive d who v md ∈ l → who = u) :
    arrivalsAt d l = tag u (arriveFromTo u d l) := by
  induction l with
  | nil => rfl
  | cons ev l ih =>
    have hc : ev :: l = [ev] ++ l := rfl
    have ih' := ih (fun who v md hm => h who v md (by simp [hm]))
    rw [hc, arrivalsAt_append, arriveFromTo_append, ih']
    unfold tag
    rw [List.map_append]
    congr 1
    cases ev with
    | arrive d' who v md =>
      by_cases h1 : d' = d
      · subst h1
        have := h who v md (by simp)
        subst this
        simp [arrivalsAt, arriveFromTo]
      · simp [arrivalsAt, arriveFromTo, h1]
    | _ => simp [arrivalsAt, arriveFromTo]

/-- Along an edge `u → d` attached once, over a whole history, exactly the emissions of `u` travel. -/
theorem runSeq_edge (hG : NoDetach G) {ins : List Inp} {S S' : State} {l : List Ev}
    (h : RunSeq G ins S S' l) (hA : Acyclic S) (u d : NodeId) (hd : (S.downs u).count d = 1) :
    arriveFromTo u d l = emitsOf u l := by
  rw [arriveFromTo_eq_filterMap, runSeq_edges G hG h hA u]
  exact (flatMap_fanout_filterMap (S.downs u) d _).trans (by rw [hd]; exact flatMap_replicate_one _)

/-- every arrival travels along an edge of the (static) topology -/
theorem runSeq_arrive_mem (hG : NoDetach G) {ins : List Inp} {S S' : State} {l : List Ev}
    (h : RunSeq G ins S S' l) (hA : Acyclic S) {d who : NodeId} {v : Val} {md : Meta}
    (hm : Ev.arrive d who v md ∈ l) : d ∈ S.downs who := by
  have h1 := mem_arrivalsFrom.2 hm
  rw [runSeq_edges G hG h hA who] at h1
  simp only [List.mem_flatMap, fanout, List.mem_map] at h1
  obtain ⟨e, _, d', hd', heq⟩ := h1
  cases heq
  exact hd'

/-- **One edge.**  If `u` is the only upstream of `d` (and `d` is attached to it once), the arrival list of `d`
over the whole history is the emission list of `u`, element for element (values and metadata). -/
theorem runSeq_single_upstream (hG : NoDetach G) {ins : List Inp} {S S' : State} {l : List Ev}
    (h : RunSeq G ins S S' l) (hA : Acyclic S) (u d : NodeId) (hd : (S.downs u).count d = 1)
    (honly : ∀ w, d ∈ S.downs w → w = u) :
    arrivalsAt d l = tag u (emitsOf u l) := by
  rw [arrivalsAt_of_single_origin u d l
    (fun who v md hm => honly who (runSeq_arrive_mem G hG h hA hm)), runSeq_edge G hG h hA u d hd]


theorem arrivalsAt_nil_of_no_upstream {ins : List Inp} {S S' : State} {l : List Ev} (hG : NoDetach G)
    (h : RunSeq G ins S S' l) (hA : Acyclic S) (d : NodeId) (hd : ∀ w, d ∉ S.downs w) :
    arrivalsAt d l = [] := by
  apply List.eq_nil_iff_forall_not_mem.2
  intro a ha
  obtain ⟨who, v, md⟩ := a
  exact hd who (runSeq_arrive_mem G hG h hA (mem_arrivalsAt.1 ha))

theorem entriesAt_tag_self (u : NodeId) (xs : List (Val × Meta)) : entriesAt u (tag u xs) = xs := by
  induction xs with
  | nil => rfl
  | cons x xs ih =>
    have : tag u (x :: xs) = (u, x) :: tag u xs := rfl
    rw [this, entriesAt_cons, ih]; simp
theorem entriesAt_tag_ne {u i : NodeId} (h : u ≠ i) (xs : List (Val × Meta)) : entriesAt i (tag u xs) = [] := by
  induction xs with
  | nil => rfl
  | cons x xs ih =>
    have : tag u (x :: xs) = (u, x) :: tag u xs := rfl
    rw [this, entriesAt_cons, ih]; simp [h]

/-- History injected at the single entry point `a` (a node without upstreams): `a` emits exactly the input
list, every other node emits exactly the outputs of its local run over its arrival list. -/
theorem runSeq_single_entry (hG : NoDetach G) {a : NodeId} {xs : List (Val × Meta)} {S S' : State}
    {l : List Ev} (h : RunSeq G (tag a xs) S S' l) (hA : Acyclic S) (ha : ∀ w, a ∉ S.downs w) :
    emitsOf a l = xs ∧
    ∀ i, i ≠ a → emitsOf i l = (localRun (G i) (S.loc i) (arrivalsAt i l)).2 := by
  refine ⟨?_, fun i hi => ?_⟩
  · rw [((runSeq_emits G h hA a).2.1 (arrivalsAt_nil_of_no_upstream G hG h hA a ha)), entriesAt_tag_self]
  · rw [localRun_eq]
    exact (runSeq_emits G h hA i).1 (entriesAt_tag_ne (fun e => hi e.symm) xs)

/-! ### 3. Linear chains -/

/-- `c 0 → c 1 → … → c m` is a linear chain embedded in the topology: each `c j` (`j < m`) has the single
downstream `c (j+1)`, whose only upstream it is; nothing flows into `c 0`. -/
structure IsChain (S : State) (c : Nat → NodeId) (m : Nat) : Prop where
  next : ∀ j, j < m → S.downs (c j) = [c (j + 1)]
  only : ∀ j w, j < m → c (j + 1) ∈ S.downs w → w = c j
  head : ∀ w, c 0 ∉ S.downs w

/-- the composed local runs: what node `c j` of the chain emits for the input list `xs` -/
def chainOut (S : State) (c : Nat → NodeId) (xs : List (Val × Meta)) : Nat → List (Val × Meta)
  | 0 => xs
  | j + 1 => (localRun (G (c (j + 1))) (S.loc (c (j + 1))) (tag (c j) (chainOut S c xs j))).2

theorem IsChain.ne_head {S : State} {c : Nat → NodeId} {m : Nat} (hc : IsChain S c m) {j : Nat} (hj : j < m) :
    c (j + 1) ≠ c 0 := by
  intro e
  have : c (j + 1) ∈ S.downs (c j) := by rw [hc.next j hj]; simp
  rw [e] at this
  exact hc.head _ this

theorem runSeq_chain (hG : NoDetach G) {c : Nat → NodeId} {m : Nat} {xs : List (Val × Meta)} {S S' : State}
    {l : List Ev} (h : RunSeq G (tag (c 0) xs) S S' l) (hA : Acyclic S) (hc : IsChain S c m) :
    ∀ j, j ≤ m → emitsOf (c j) l = chainOut G S c xs j ∧
      (∀ k, j = k + 1 → arrivalsAt (c j) l = tag (c k) (chainOut G S c xs k)) := by
  obtain ⟨h0, hrest⟩ := runSeq_single_entry G hG h hA hc.head
  intro j
  induction j with
  | zero => intro _; exact ⟨h0, fun k hk => by omega⟩
  | succ j ih =>
    intro hj
    have hj' : j < m := by omega
    obtain ⟨ihe, _⟩ := ih (by omega)
    have harr : arrivalsAt (c (j + 1)) l = tag (c j) (chainOut G S c xs j) := by
      rw [runSeq_single_upstream G hG h hA (c j) (c (j + 1)) (by rw [hc.next j hj']; simp)
        (fun w hw => hc.only j w hj' hw), ihe]
    refine ⟨?_, fun k hk => ?_⟩
    · rw [hrest _ (hc.ne_head hj'), harr]; rfl
    · have : k = j := by omega
      subst this; exact harr

/-! ### 4. Fan-out and the zip diamond -/

/-- A node with the two downstreams `[d1, d2]` (each fed by it alone): both see every emission, the same
sequence; and in the global log the deliveries from `u` are, emission by emission, first `d1` then `d2`. -/
theorem runSeq_fanout2 (hG : NoDetach G) {ins : List Inp} {S S' : State} {l : List Ev}
    (h : RunSeq G ins S S' l) (hA : Acyclic S) {u d1 d2 : NodeId} (hne : d1 ≠ d2)
    (hd : S.downs u = [d1, d2]) (h1 : ∀ w, d1 ∈ S.downs w → w = u) (h2 : ∀ w, d2 ∈ S.downs w → w = u) :
    arrivalsAt d1 l = tag u (emitsOf u l) ∧ arrivalsAt d2 l = tag u (emitsOf u l) ∧
    arrivalsFrom u l = (emitsOf u l).flatMap (fun e => [(d1, e.1, e.2), (d2, e.1, e.2)]) := by
  have hne' : ¬ (d2 == d1) = true := by simpa using fun e : d2 = d1 => hne e.symm
  have hne'' : ¬ (d1 == d2) = true := by simpa using hne
  refine ⟨runSeq_single_upstream G hG h hA u d1 (by rw [hd]; simp [List.count_cons, hne']) h1,
    runSeq_single_upstream G hG h hA u d2 (by rw [hd]; simp [List.count_cons, hne'']) h2, ?_⟩
  rw [runSeq_edges G hG h hA u, hd]; rfl

/-- the diamond `a → b`, `a → c`, `b → z`, `c → z` with no other edges into `a, b, c, z` -/
structure IsDiamond (S : State) (a b c z : NodeId) : Prop where
  ne : b ≠ c
  da : S.downs a = [b, c]
  db : S.downs b = [z]
  dc : S.downs c = [z]
  ua : ∀ w, a ∉ S.downs w
  ub : ∀ w, b ∈ S.downs w → w = a
  uc : ∀ w, c ∈ S.downs w → w = a

theorem zipWith_map_same {α β γ δ : Type} (h : β → γ → δ) (f : α → β) (g : α → γ) (xs : List α) :
    List.zipWith h (xs.map f) (xs.map g) = xs.map (fun x => h (f x) (g x)) := by
  induction xs with
  | nil => rfl
  | cons x xs ih => simp [ih]

/-- Through a diamond both branches receive the whole input, and the join receives from each branch exactly what
that branch emits (whatever the interleaving of the two in its arrival list). -/
theorem runSeq_diamond (hG : NoDetach G) {a b c z : NodeId} {xs : List (Val × Meta)} {S S' : State}
    {l : List Ev} (h : RunSeq G (tag a xs) S S' l) (hA : Acyclic S) (hD : IsDiamond S a b c z) :
    arrivalsAt b l = tag a xs ∧ arrivalsAt c l = tag a xs ∧
    seqOf b (arrivalsAt z l) = (localRun (G b) (S.loc b) (tag a xs)).2 ∧
    seqOf c (arrivalsAt z l) = (localRun (G c) (S.loc c) (tag a xs)).2 ∧
    emitsOf z l = (localRun (G z) (S.loc z) (arrivalsAt z l)).2 := by
  obtain ⟨h0, hrest⟩ := runSeq_single_entry G hG h hA hD.ua
  obtain ⟨f1, f2, _⟩ := runSeq_fanout2 G hG h hA hD.ne hD.da hD.ub hD.uc
  rw [h0] at f1 f2
  have hba : b ≠ a := fun e => hD.ua a (by rw [hD.da, ← e]; simp)
  have hca : c ≠ a := fun e => hD.ua a (by rw [hD.da, ← e]; simp)
  have hza : z ≠ a := fun e => hD.ua b (by rw [hD.db, ← e]; simp)
  refine ⟨f1, f2, ?_, ?_, hrest z hza⟩
  · rw [seqOf_arrivalsAt, runSeq_edge G hG h hA b z (by rw [hD.db]; simp), hrest b hba, f1]
  · rw [seqOf_arrivalsAt, runSeq_edge G hG h hA c z (by rw [hD.dc]; simp), hrest c hca, f2]

end StreamzVerif.Graph
