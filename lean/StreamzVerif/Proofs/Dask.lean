import StreamzVerif.Model.Dask
/-!
Helper lemmas for C20: naturality of the inherited kinds in the element type,
per-kind erasure of the re-implemented kinds, stable sort of an already sorted
sequence.
-/
namespace StreamzVerif.Dask

theorem eraseL_eq {V : Type} (mk : List V → V) (l : List (DVal V)) :
    DVal.eraseL mk l = l.map (DVal.erase mk) := by
  induction l with
  | nil => simp [DVal.eraseL]
  | cons x xs ih => simp [DVal.eraseL, ih]

theorem erase_tup {V : Type} (mk : List V → V) (l : List (DVal V)) :
    DVal.erase mk (.tup l) = mk (l.map (DVal.erase mk)) := by
  simp [DVal.erase, eraseL_eq]

@[simp] theorem El.map_md {α β : Type} (h : α → β) (x : El α) : (x.map h).md = x.md := rfl
@[simp] theorem El.map_v {α β : Type} (h : α → β) (x : El α) : (x.map h).v = h x.v := rfl

theorem flatMap_md_map {α β : Type} (h : α → β) (l : List (El α)) :
    (l.map (El.map h)).flatMap (·.md) = l.flatMap (·.md) := by
  induction l with
  | nil => rfl
  | cons x xs ih => simp [List.flatMap_cons, ih]

theorem map_v_map {α β : Type} (h : α → β) (l : List (El α)) :
    (l.map (El.map h)).map (·.v) = (l.map (·.v)).map h := by
  induction l with
  | nil => rfl
  | cons x xs ih => simp [ih]

theorem held_map {α β : Type} (h : α → β) (s : NState α) : held (s.map h) = held s := by
  simp only [held, NState.map, ← List.map_append, flatMap_md_map]

theorem takeLast_map {α β : Type} (h : α → β) (n : Nat) (l : List α) :
    takeLast n (l.map h) = (takeLast n l).map h := by
  simp [takeLast, List.map_drop]

theorem takeLast_length_map {α β : Type} (h : α → β) (n : Nat) (l : List α) :
    (takeLast n (l.map h)).length = (takeLast n l).length := by
  simp [takeLast]

/-! ### The inherited kinds are natural in the element type

`h` is any map of elements that commutes with the tuple constructors; with
`h = erase`, `mkA = DVal.tup` this says: `zip`, `partition`, `sliding_window`
running over futures do exactly what they do over the values. -/

section natural
variable {α β : Type} (h : α → β) (mkA : List α → α) (mkB : List β → β)
  (hT : ∀ l, h (mkA l) = mkB (l.map h))
include hT

theorem zipUpd_nat (side : Bool) (st : NState α) (x : El α) :
    zipUpd mkB side (st.map h) (x.map h) =
      ((zipUpd mkA side st x).1.map h, (zipUpd mkA side st x).2.map (El.map h)) := by
  obtain ⟨a, b, w⟩ := st
  cases side <;> simp only [zipUpd, NState.map, Bool.false_eq_true, ↓reduceIte]
  · -- direct upstream
    by_cases hl : (a ++ [x]).length = 1
    · have hl' : (List.map (El.map h) a ++ [El.map h x]).length = 1 := by simpa using hl
      rw [if_pos hl', if_pos hl]
      cases a with
      | nil =>
        cases b with
        | nil => simp
        | cons q bs => simp [El.map, hT]
      | cons p as => simp at hl
    · have hl' : ¬ (List.map (El.map h) a ++ [El.map h x]).length = 1 := by simpa using hl
      rw [if_neg hl', if_neg hl]; simp
  · by_cases hl : (b ++ [x]).length = 1
    · have hl' : (List.map (El.map h) b ++ [El.map h x]).length = 1 := by simpa using hl
      rw [if_pos hl', if_pos hl]
      cases b with
      | nil =>
        cases a with
        | nil => simp
        | cons p as => simp [El.map, hT]
      | cons q bs => simp at hl
    · have hl' : ¬ (List.map (El.map h) b ++ [El.map h x]).length = 1 := by simpa using hl
      rw [if_neg hl', if_neg hl]; simp

theorem partitionStep_nat (n : Nat) (st : NState α) (x : El α) :
    partitionStep mkB n (st.map h) (x.map h) =
      ((partitionStep mkA n st x).1.map h, (partitionStep mkA n st x).2.map (El.map h)) := by
  obtain ⟨a, b, w⟩ := st
  simp only [partitionStep, NState.map]
  have e1 : List.map (El.map h) a ++ [El.map h x] = (a ++ [x]).map (El.map h) := by simp
  simp only [e1]
  by_cases hl : (a ++ [x]).length = n
  · have hl' : ((a ++ [x]).map (El.map h)).length = n := by simpa using hl
    rw [if_pos hl', if_pos hl]
    simp only [List.map_cons, List.map_nil, Prod.mk.injEq, List.cons.injEq, and_true, true_and]
    simp only [El.map, flatMap_md_map, hT]
    congr 1
    rw [← map_v_map]
  · have hl' : ¬ ((a ++ [x]).map (El.map h)).length = n := by simpa using hl
    rw [if_neg hl', if_neg hl]; simp

theorem windowStep_nat (n : Nat) (part : Bool) (st : NState α) (x : El α) :
    windowStep mkB n part (st.map h) (x.map h) =
      ((windowStep mkA n part st x).1.map h, (windowStep mkA n part st x).2.map (El.map h)) := by
  obtain ⟨a, b, w⟩ := st
  simp only [windowStep, NState.map]
  have e1 : List.map (El.map h) a ++ [El.map h x] = (a ++ [x]).map (El.map h) := by simp
  have e2 : List.map h w ++ [(El.map h x).v] = (w ++ [x.v]).map h := by simp
  simp only [e1, e2, takeLast_map, List.length_map]
  by_cases hc : part = true ∨ (takeLast n (w ++ [x.v])).length = n
  · rw [if_pos hc, if_pos hc]
    by_cases hm : (takeLast n (a ++ [x])).length = n
    · simp [hm, El.map, flatMap_md_map, hT, List.map_tail]
    · simp [hm, El.map, flatMap_md_map, hT]
  · rw [if_neg hc, if_neg hc]; simp

end natural

/-! ### Per-kind erasure -/

/-- erase an element / a node state of the Dask segment -/
abbrev eraseEl {V : Type} (mk : List V → V) (x : El (DVal V)) : El V := x.map (DVal.erase mk)
abbrev eraseSt {V : Type} (mk : List V → V) (s : DState V) : NState V := s.st.map (DVal.erase mk)

theorem dinit_erase {V : Type} (mk : List V → V) (k : Kind V) : eraseSt mk (dinit k) = linit k := by
  cases k with
  | accumulate f s => cases s <;> simp [dinit, linit, eraseSt, NState.map, El.map, DVal.erase]
  | accumulateRS f s => cases s <;> simp [dinit, linit, eraseSt, NState.map, El.map, DVal.erase]
  | _ => simp [dinit, linit, eraseSt, NState.map]

/-- **Per-kind simulation.** Whatever completion times the cluster assigns
(`τ`), one `update` of a DaskStream node, with the future wrappers forgotten, is
the `update` of the local node on the erased state and element. -/
theorem dstep_erase {V : Type} (mk : List V → V) (τ : Nat → Nat) (k : Kind V) (s : DState V)
    (x : El (DVal V)) :
    lstep mk k (eraseSt mk s) (eraseEl mk x) =
      (eraseSt mk (dstep mk τ k s x).1, (dstep mk τ k s x).2.map (eraseEl mk)) := by
  have hT : ∀ l, DVal.erase mk (DVal.tup l) = mk (l.map (DVal.erase mk)) := erase_tup mk
  cases k with
  | map f => simp [lstep, dstep, eraseSt, eraseEl, El.map, DVal.erase]
  | starmap f => simp [lstep, dstep, eraseSt, eraseEl, El.map, DVal.erase]
  | accumulate f st0 =>
    obtain ⟨⟨a, b, w⟩, c⟩ := s
    cases a with
    | nil => simp [lstep, dstep, eraseSt, eraseEl, El.map, NState.map]
    | cons q qs => simp [lstep, dstep, eraseSt, eraseEl, El.map, NState.map, DVal.erase]
  | accumulateRS f st0 =>
    obtain ⟨⟨a, b, w⟩, c⟩ := s
    cases a with
    | nil => simp [lstep, dstep, eraseSt, eraseEl, El.map, NState.map]
    | cons q qs => simp [lstep, dstep, eraseSt, eraseEl, El.map, NState.map, DVal.erase]
  | zipMap g =>
    simp only [lstep, dstep, eraseSt, eraseEl]
    have y : El.map (DVal.erase mk) { x with v := DVal.fut (g (DVal.erase mk x.v)) (τ s.cnt) }
        = { El.map (DVal.erase mk) x with v := g (El.map (DVal.erase mk) x).v } := by
      simp [El.map, DVal.erase]
    rw [← y, zipUpd_nat (DVal.erase mk) DVal.tup mk hT]
    simp only []
    rw [zipUpd_nat (DVal.erase mk) DVal.tup mk hT]
    simp
  | unionMap g => simp [lstep, dstep, eraseSt, eraseEl, El.map, DVal.erase]
  | buffer n => simp [lstep, dstep, eraseSt, eraseEl]
  | partition n =>
    simp only [lstep, dstep, eraseSt, eraseEl]
    rw [partitionStep_nat (DVal.erase mk) DVal.tup mk hT]
  | slidingWindow n p =>
    simp only [lstep, dstep, eraseSt, eraseEl]
    rw [windowStep_nat (DVal.erase mk) DVal.tup mk hT]

theorem dnode_erase {V : Type} (mk : List V → V) (τ : Nat → Nat) (k : Kind V) (s : DState V)
    (xs : List (El (DVal V))) :
    lnode mk k (eraseSt mk s) (xs.map (eraseEl mk)) =
      (eraseSt mk (dnode mk τ k s xs).1, (dnode mk τ k s xs).2.map (eraseEl mk)) := by
  induction xs generalizing s with
  | nil => simp [lnode, dnode]
  | cons x xs ih =>
    simp only [List.map_cons, lnode, dnode]
    rw [dstep_erase mk τ k s x]
    simp only []
    rw [ih]
    simp

theorem dseg_erase {V : Type} (mk : List V → V) (T : Nat → Nat → Nat) (i : Nat) (ks : List (Kind V))
    (xs : List (El (DVal V))) :
    lseg mk ks (xs.map (eraseEl mk)) =
      ((dseg mk T i ks xs).1.map (eraseSt mk), (dseg mk T i ks xs).2.map (eraseEl mk)) := by
  induction ks generalizing xs i with
  | nil => simp [lseg, dseg]
  | cons k ks ih =>
    simp only [lseg, dseg]
    rw [← dinit_erase mk k, dnode_erase mk (T i) k (dinit k) xs]
    simp only []
    rw [ih (i + 1)]
    simp

/-! ### Stable sort of an already ordered sequence -/

/-- keys non-decreasing along the list (adjacent pairs) -/
def Mono {γ : Type} (key : γ → Nat) : List γ → Prop
  | [] => True
  | [_] => True
  | a :: b :: rest => key a ≤ key b ∧ Mono key (b :: rest)

theorem Mono.tail {γ : Type} {key : γ → Nat} {a : γ} {l : List γ} (hm : Mono key (a :: l)) : Mono key l := by
  cases l with
  | nil => trivial
  | cons b rest => exact hm.2

theorem sortBy_of_mono {γ : Type} (key : γ → Nat) (l : List γ) (hm : Mono key l) : sortBy key l = l := by
  induction l with
  | nil => rfl
  | cons a l ih =>
    simp only [sortBy]
    rw [ih hm.tail]
    cases l with
    | nil => rfl
    | cons b rest => simp [insBy, hm.1]

theorem oneAtATime_mono {β : Type} (arrs : List (Arr β)) (h : OneAtATime arrs) : Mono Arr.fin arrs := by
  induction arrs with
  | nil => trivial
  | cons a l ih =>
    cases l with
    | nil => trivial
    | cons b rest =>
      refine ⟨?_, ih h.2⟩
      have := h.1
      simp only [Arr.fin] at this ⊢
      omega

theorem lockedFins_mono {β : Type} (prev : Nat) (arrs : List (Arr β)) :
    Mono (·.1) (lockedFins prev arrs) ∧ ∀ q ∈ (lockedFins prev arrs).head?, prev ≤ q.1 := by
  induction arrs generalizing prev with
  | nil => simp [lockedFins, Mono]
  | cons a l ih =>
    simp only [lockedFins]
    have := ih (max (max a.at_ prev) a.ready)
    constructor
    · cases hl : lockedFins (max (max a.at_ prev) a.ready) l with
      | nil => trivial
      | cons q rest =>
        rw [hl] at this
        exact ⟨by simpa using this.2, this.1⟩
    · simp; omega

theorem lockedFins_map_snd {β : Type} (prev : Nat) (arrs : List (Arr β)) :
    (lockedFins prev arrs).map (·.2) = arrs.map (·.x) := by
  induction arrs generalizing prev with
  | nil => rfl
  | cons a l ih => simp [lockedFins, ih]

/-! ### Shapes of the scatter / gather arrival lists -/

theorem scatterArrs_map_x {V : Type} (mk : List V → V) (p σ : Nat → Nat) (i : Nat) (xs : List (El V)) :
    ((scatterArrs p σ i xs).map (·.x)).map (eraseEl mk) = xs := by
  induction xs generalizing i with
  | nil => rfl
  | cons x xs ih =>
    simp only [scatterArrs, List.map_cons, ih]
    simp [El.map, DVal.erase]

theorem gatherArrs_map_x {V : Type} (mk : List V → V) (g : Nat → Nat) (i : Nat) (ys : List (El (DVal V))) :
    (gatherArrs mk g i ys).map (·.x) = ys.map (eraseEl mk) := by
  induction ys generalizing i with
  | nil => rfl
  | cons y ys ih => simp [gatherArrs, ih]

end StreamzVerif.Dask
