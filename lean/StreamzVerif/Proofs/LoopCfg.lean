import StreamzVerif.Model.LoopCfg
/-!
Helper lemmas for C19: the percolation (`inform`) never runs out of fuel, never
changes a label that is already there, and — when it returns normally — leaves
every node it labelled surrounded by equally labelled neighbours.
-/
namespace StreamzVerif.LoopCfg

set_option linter.unusedSectionVars false
section inform
variable {α : Type} [DecidableEq α]

@[simp] theorem setAt_same (lab : Nat → Option α) (i : Nat) (v : Option α) : setAt lab i v i = v := by
  simp [setAt]

theorem setAt_other (lab : Nat → Option α) {i j : Nat} (v : Option α) (h : j ≠ i) :
    setAt lab i v j = lab j := by
  simp [setAt, h]

theorem setAt_setAt (lab : Nat → Option α) (i : Nat) (a b : Option α) :
    setAt (setAt lab i a) i b = setAt lab i b := by
  funext j; simp only [setAt]; split <;> rfl

/-- Labels that exist are never changed, whatever the outcome. -/
theorem inform_keep (nb : Nat → List Nat) (v : α) :
    ∀ (fuel : Nat) (stack : List Nat) (lab : Nat → Option α) (i : Nat) (x : α),
      lab i = some x → (inform nb v fuel stack lab).1 i = some x := by
  intro fuel
  induction fuel with
  | zero =>
    intro stack lab i x h
    cases stack <;> simpa [inform] using h
  | succ f ih =>
    intro stack lab i x h
    cases stack with
    | nil => simpa [inform] using h
    | cons k rest =>
      simp only [inform]
      cases hk : lab k with
      | some y =>
        simp only
        split
        · exact ih rest lab i x h
        · exact h
      | none =>
        simp only
        apply ih
        have : i ≠ k := by intro e; rw [e, hk] at h; cases h
        rw [setAt_other _ _ this]; exact h

/-- A label that is new is `v`, whatever the outcome. -/
theorem inform_new (nb : Nat → List Nat) (v : α) :
    ∀ (fuel : Nat) (stack : List Nat) (lab : Nat → Option α) (i : Nat),
      lab i = none → (inform nb v fuel stack lab).1 i = none ∨ (inform nb v fuel stack lab).1 i = some v := by
  intro fuel
  induction fuel with
  | zero =>
    intro stack lab i h
    cases stack <;> (left; simpa [inform] using h)
  | succ f ih =>
    intro stack lab i h
    cases stack with
    | nil => left; simpa [inform] using h
    | cons k rest =>
      simp only [inform]
      cases hk : lab k with
      | some y =>
        simp only
        split
        · exact ih rest lab i h
        · left; exact h
      | none =>
        simp only
        by_cases e : i = k
        · right
          apply inform_keep
          rw [e]; simp
        · apply ih
          rw [setAt_other _ _ e]; exact h

/-- Normal return: everything on the stack ends labelled `v`, and every node that was
unlabelled and is now labelled has all its neighbours labelled `v`. -/
theorem inform_ok (nb : Nat → List Nat) (v : α) :
    ∀ (fuel : Nat) (stack : List Nat) (lab : Nat → Option α),
      (inform nb v fuel stack lab).2 = .ok →
      (∀ i ∈ stack, (inform nb v fuel stack lab).1 i = some v) ∧
      (∀ i, lab i = none → (inform nb v fuel stack lab).1 i = some v →
        ∀ j ∈ nb i, (inform nb v fuel stack lab).1 j = some v) := by
  intro fuel
  induction fuel with
  | zero =>
    intro stack lab h
    cases stack with
    | nil =>
      refine ⟨by simp, ?_⟩
      intro i hn hs
      simp [inform, hn] at hs
    | cons k rest => simp [inform] at h
  | succ f ih =>
    intro stack lab h
    cases stack with
    | nil =>
      refine ⟨by simp, ?_⟩
      intro i hn hs
      simp [inform, hn] at hs
    | cons k rest =>
      simp only [inform] at h ⊢
      cases hk : lab k with
      | some y =>
        simp only [hk] at h ⊢
        split at h
        · next hy =>
          rw [if_pos hy]
          obtain ⟨h1, h2⟩ := ih rest lab h
          refine ⟨?_, h2⟩
          intro i hi
          rcases List.mem_cons.mp hi with e | hi
          · rw [e]; apply inform_keep; rw [hk, hy]
          · exact h1 i hi
        · cases h
      | none =>
        simp only [hk] at h ⊢
        obtain ⟨h1, h2⟩ := ih (nb k ++ rest) (setAt lab k (some v)) h
        refine ⟨?_, ?_⟩
        · intro i hi
          rcases List.mem_cons.mp hi with e | hi
          · rw [e]; apply inform_keep; simp
          · exact h1 i (List.mem_append_right _ hi)
        · intro i hn hs j hj
          by_cases e : i = k
          · subst e
            exact h1 j (List.mem_append_left _ hj)
          · exact h2 i (by rw [setAt_other _ _ e]; exact hn) hs j hj

/-- Sum of the degrees of the still unlabelled nodes `< k`: the termination measure. -/
def noneDeg (nb : Nat → List Nat) (lab : Nat → Option α) : Nat → Nat
  | 0 => 0
  | k + 1 => noneDeg nb lab k + (if (lab k).isNone then (nb k).length else 0)

theorem noneDeg_le (nb : Nat → List Nat) (lab : Nat → Option α) (k : Nat) :
    noneDeg nb lab k ≤ degTotal nb k := by
  induction k with
  | zero => simp [noneDeg, degTotal]
  | succ k ih =>
    simp only [noneDeg, degTotal]
    split <;> omega

theorem noneDeg_setAt (nb : Nat → List Nat) (lab : Nat → Option α) (i : Nat) (v : α)
    (h : lab i = none) (k : Nat) :
    noneDeg nb (setAt lab i (some v)) k + (if i < k then (nb i).length else 0) = noneDeg nb lab k := by
  induction k with
  | zero => simp [noneDeg]
  | succ k ih =>
    simp only [noneDeg]
    by_cases e : k = i
    · subst e
      simp [h] at ih ⊢
      omega
    · rw [setAt_other _ _ e]
      by_cases hik : i < k
      · have h1 : i < k + 1 := by omega
        simp only [hik, h1, if_true] at ih ⊢
        omega
      · have h1 : ¬ i < k + 1 := by omega
        simp only [hik, h1, if_false] at ih ⊢
        omega

/-- With fuel above the measure the percolation never reports `outOfFuel`. -/
theorem inform_fuel (nb : Nat → List Nat) (v : α) (N : Nat) (hN : ∀ i, N ≤ i → nb i = []) :
    ∀ (fuel : Nat) (stack : List Nat) (lab : Nat → Option α),
      stack.length + noneDeg nb lab N < fuel → (inform nb v fuel stack lab).2 ≠ .outOfFuel := by
  intro fuel
  induction fuel with
  | zero => intro stack lab h; omega
  | succ f ih =>
    intro stack lab h
    cases stack with
    | nil => simp [inform]
    | cons k rest =>
      simp only [inform]
      cases hk : lab k with
      | some y =>
        simp only
        split
        · apply ih
          simp only [List.length_cons] at h
          omega
        · simp
      | none =>
        simp only
        apply ih
        have hs := noneDeg_setAt nb lab k v hk N
        simp only [List.length_cons, List.length_append] at h ⊢
        by_cases hkN : k < N
        · simp only [hkN, if_true] at hs; omega
        · have : nb k = [] := hN k (by omega)
          simp only [this, List.length_nil] at hs ⊢
          omega

end inform

/-! ### The graph seen while node `w.size` is under construction -/

theorem downsOf_size_le (w : World) {i : Nat} (h : w.size ≤ i) : w.downsOf i = [] := by
  simp [World.downsOf]; omega

theorem upsOf_size_le (w : World) {i : Nat} (h : w.size ≤ i) : w.upsOf i = [] := by
  simp only [World.upsOf, World.size] at *
  simp [List.getD, List.getElem?_eq_none h]

theorem nbDuring_new (w : World) (a : Args) : nbDuring w a w.size = a.ups := by
  simp [nbDuring, downsOf_size_le w (Nat.le_refl _)]

theorem nbDuring_beyond (w : World) (a : Args) {i : Nat} (h : w.size + 1 ≤ i) : nbDuring w a i = [] := by
  have h1 : i ≠ w.size := by omega
  simp [nbDuring, h1, downsOf_size_le w (by omega : w.size ≤ i), upsOf_size_le w (by omega : w.size ≤ i)]

theorem mem_nbDuring_ups (w : World) (a : Args) {d u : Nat} (hd : d ≠ w.size) (h : u ∈ w.upsOf d) :
    u ∈ nbDuring w a d := by
  simp [nbDuring, hd, h]

theorem mem_nbDuring_downs (w : World) (a : Args) {d u : Nat} (hu : u < w.size) (hd : d < w.size)
    (h : u ∈ w.upsOf d) : d ∈ nbDuring w a u := by
  have : u ≠ w.size := by omega
  simp [nbDuring, this, World.downsOf, hu, hd, h]

/-- The percolations started by `construct` never run out of fuel. -/
theorem inform_fuelFor {α : Type} [DecidableEq α] (w : World) (a : Args) (v : α) (lab : Nat → Option α) :
    (inform (nbDuring w a) v (fuelFor w a) [w.size] lab).2 ≠ .outOfFuel := by
  apply inform_fuel (nbDuring w a) v (w.size + 1) (fun i h => nbDuring_beyond w a h)
  have := noneDeg_le (nbDuring w a) lab (w.size + 1)
  simp only [fuelFor, List.length_cons, List.length_nil]
  omega

/-! ### Percolation started at the fresh node -/

/-- What a normally returning percolation of `v` from the fresh node `n` guarantees:
`lab` are the labels before (the entry at `n` is irrelevant: it is reset first), `lab'` after. -/
structure Perc {α : Type} (nb : Nat → List Nat) (n : Nat) (v : α) (lab lab' : Nat → Option α) : Prop where
  self : lab' n = some v
  nbrs : ∀ j ∈ nb n, lab' j = some v
  keep : ∀ i x, i ≠ n → lab i = some x → lab' i = some x
  fresh : ∀ i, i ≠ n → lab i = none → lab' i = none ∨ (lab' i = some v ∧ ∀ j ∈ nb i, lab' j = some v)

theorem perc_of_inform {α : Type} [DecidableEq α] (nb : Nat → List Nat) (v : α) (fuel n : Nat)
    (lab : Nat → Option α) (h : (inform nb v fuel [n] (setAt lab n none)).2 = .ok) :
    Perc nb n v lab (inform nb v fuel [n] (setAt lab n none)).1 := by
  obtain ⟨h1, h2⟩ := inform_ok nb v fuel [n] (setAt lab n none) h
  have hself := h1 n (by simp)
  refine ⟨hself, h2 n (by simp) hself, ?_, ?_⟩
  · intro i x hi hx
    apply inform_keep
    rw [setAt_other _ _ hi]; exact hx
  · intro i hi hn
    have hn' : setAt lab n none i = none := by rw [setAt_other _ _ hi]; exact hn
    rcases inform_new nb v fuel [n] _ i hn' with h0 | hv
    · left; exact h0
    · right; exact ⟨hv, h2 i hn' hv⟩

theorem findSome?_congr {β : Type} (f g : Nat → Option β) (l : List Nat) (h : ∀ u ∈ l, f u = g u) :
    l.findSome? f = l.findSome? g := by
  induction l with
  | nil => rfl
  | cons x xs ih =>
    simp only [List.findSome?_cons]
    rw [h x (by simp), ih (fun u hu => h u (by simp [hu]))]

theorem any_congr (f g : Nat → Bool) (l : List Nat) (h : ∀ u ∈ l, f u = g u) : l.any f = l.any g := by
  induction l with
  | nil => rfl
  | cons x xs ih =>
    simp only [List.any_cons]
    rw [h x (by simp), ih (fun u hu => h u (by simp [hu]))]

/-! ### `_set_loop` / `_set_asynchronous` -/

theorem setLoop_some (nb : Nat → List Nat) (fuel : Nat) (ups : List Nat) (n : Nat) (l : Loop)
    (lab : Nat → Option Loop) :
    setLoop nb fuel ups n (some l) lab = inform nb l fuel [n] (setAt lab n none) := rfl

theorem setLoop_none (nb : Nat → List Nat) (fuel : Nat) (ups : List Nat) (n : Nat)
    (lab : Nat → Option Loop) (hv : ∀ u ∈ ups, u ≠ n) :
    setLoop nb fuel ups n none lab = (setAt lab n (ups.findSome? lab), .ok) := by
  simp only [setLoop, setAt_setAt]
  rw [findSome?_congr (setAt lab n none) lab ups (fun u hu => setAt_other _ _ (hv u hu))]

theorem setAsyn_some (nb : Nat → List Nat) (fuel : Nat) (ups : List Nat) (n : Nat) (b : Bool)
    (lab : Nat → Option Bool) :
    setAsyn nb fuel ups n (some b) lab = inform nb b fuel [n] (setAt lab n none) := rfl

theorem setAsyn_none (nb : Nat → List Nat) (fuel : Nat) (ups : List Nat) (n : Nat)
    (lab : Nat → Option Bool) (hv : ∀ u ∈ ups, u ≠ n) :
    setAsyn nb fuel ups n none lab =
      (setAt lab n (if ups.any (fun u => lab u == some true) then some true else none), .ok) := by
  simp only [setAsyn, setAt_setAt]
  rw [any_congr (fun u => setAt lab n none u == some true) (fun u => lab u == some true) ups
    (fun u hu => by simp only [setAt_other _ _ (hv u hu)])]

theorem setLoop_keep (nb : Nat → List Nat) (fuel : Nat) (ups : List Nat) (n : Nat) (arg : Option Loop)
    (lab : Nat → Option Loop) (i : Nat) (x : Loop) (hi : i ≠ n) (h : lab i = some x) :
    (setLoop nb fuel ups n arg lab).1 i = some x := by
  cases arg with
  | some l =>
    rw [setLoop_some]; apply inform_keep; rw [setAt_other _ _ hi]; exact h
  | none =>
    simp only [setLoop]; rw [setAt_other _ _ hi, setAt_other _ _ hi]; exact h

theorem setAsyn_keep (nb : Nat → List Nat) (fuel : Nat) (ups : List Nat) (n : Nat) (arg : Option Bool)
    (lab : Nat → Option Bool) (i : Nat) (x : Bool) (hi : i ≠ n) (h : lab i = some x) :
    (setAsyn nb fuel ups n arg lab).1 i = some x := by
  cases arg with
  | some l =>
    rw [setAsyn_some]; apply inform_keep; rw [setAt_other _ _ hi]; exact h
  | none =>
    simp only [setAsyn]; rw [setAt_other _ _ hi, setAt_other _ _ hi]; exact h

theorem setLoop_total (w : World) (a : Args) (arg : Option Loop) (lab : Nat → Option Loop) :
    (setLoop (nbDuring w a) (fuelFor w a) a.ups w.size arg lab).2 ≠ .outOfFuel := by
  cases arg with
  | some l => rw [setLoop_some]; exact inform_fuelFor w a l _
  | none => simp [setLoop]

theorem setAsyn_total (w : World) (a : Args) (arg : Option Bool) (lab : Nat → Option Bool) :
    (setAsyn (nbDuring w a) (fuelFor w a) a.ups w.size arg lab).2 ≠ .outOfFuel := by
  cases arg with
  | some l => rw [setAsyn_some]; exact inform_fuelFor w a l _
  | none => simp [setAsyn]

/-! ### The steps of `construct` -/

theorem step1_total (w : World) (a : Args) : (step1 w a).2 ≠ .outOfFuel := setAsyn_total w a _ _
theorem step2_total (w : World) (a : Args) : (step2 w a).2 ≠ .outOfFuel := setLoop_total w a _ _

theorem step3_total (w : World) (a : Args) : (step3 w a).2 ≠ .outOfFuel := by
  unfold step3
  split
  · exact setAsyn_total w a _ _
  · simp

theorem step4_total (w : World) (a : Args) : (step4 w a).1.2 ≠ .outOfFuel := by
  unfold step4
  split
  · exact setLoop_total w a _ _
  · simp

/-- `construct` returned normally: all four steps did, and the new world is this one. -/
theorem construct_ok {w : World} {a : Args} (h : (construct w a).2 = .ok) :
    (step1 w a).2 = .ok ∧ (step2 w a).2 = .ok ∧ (step3 w a).2 = .ok ∧ (step4 w a).1.2 = .ok ∧
    (construct w a).1 = { w with ups := w.ups ++ [a.ups], asyn := (step3 w a).1,
                                 loop := (step4 w a).1.1, bg := (step4 w a).2 } := by
  unfold construct at h ⊢
  by_cases h1 : (step1 w a).2 = .ok
  · by_cases h2 : (step2 w a).2 = .ok
    · by_cases h3 : (step3 w a).2 = .ok
      · by_cases h4 : (step4 w a).1.2 = .ok
        · simp [h1, h2, h3, h4]
        · simp [h1, h2, h3, h4] at h
      · simp [h1, h2, h3] at h
    · simp [h1, h2] at h
  · simp [h1] at h

theorem construct_ok' {w : World} {a : Args} (h : (construct w a).2 = .ok) :
    (construct w a).1.ups = w.ups ++ [a.ups] ∧ (construct w a).1.loop = (step4 w a).1.1 ∧
    (construct w a).1.asyn = (step3 w a).1 ∧ (construct w a).1.bg = (step4 w a).2 := by
  obtain ⟨_, _, _, _, hw⟩ := construct_ok h
  rw [hw]; exact ⟨rfl, rfl, rfl, rfl⟩

/-- The labels of the world `construct` returns, whatever the outcome. -/
theorem construct_fields (w : World) (a : Args) :
    ((construct w a).1.loop = w.loop ∨ (construct w a).1.loop = (step2 w a).1 ∨
      (construct w a).1.loop = (step4 w a).1.1) ∧
    ((construct w a).1.asyn = (step1 w a).1 ∨ (construct w a).1.asyn = (step3 w a).1) ∧
    ((construct w a).1.bg = w.bg ∨ ((step3 w a).2 = .ok ∧ (step1 w a).2 = .ok ∧ (construct w a).1.bg = (step4 w a).2)) ∧
    (construct w a).1.dask = w.dask ∧ (construct w a).1.legacy = w.legacy := by
  unfold construct
  by_cases h1 : (step1 w a).2 = .ok
  · by_cases h2 : (step2 w a).2 = .ok
    · by_cases h3 : (step3 w a).2 = .ok
      · by_cases h4 : (step4 w a).1.2 = .ok <;> simp [h1, h2, h3, h4]
      · simp [h1, h2, h3]
    · simp [h1, h2]
  · simp [h1]

theorem step4_keep (w : World) (a : Args) (i : Nat) (x : Loop) (hi : i ≠ w.size)
    (h : (step2 w a).1 i = some x) : (step4 w a).1.1 i = some x := by
  unfold step4
  split
  · exact setLoop_keep _ _ _ _ _ _ i x hi h
  · exact h

theorem step3_keep (w : World) (a : Args) (i : Nat) (x : Bool) (hi : i ≠ w.size)
    (h : (step1 w a).1 i = some x) : (step3 w a).1 i = some x := by
  unfold step3
  split
  · exact setAsyn_keep _ _ _ _ _ _ i x hi h
  · exact h

theorem Perc.congr {α : Type} {nb : Nat → List Nat} {n : Nat} {v : α} {lab₁ lab₂ lab' : Nat → Option α}
    (h : ∀ i, i ≠ n → lab₁ i = lab₂ i) (hp : Perc nb n v lab₁ lab') : Perc nb n v lab₂ lab' :=
  ⟨hp.self, hp.nbrs, fun i x hi hx => hp.keep i x hi (by rw [h i hi]; exact hx),
   fun i hi hn => hp.fresh i hi (by rw [h i hi]; exact hn)⟩

theorem getD_snoc (L : List (List Nat)) (x : List Nat) (d : Nat) :
    (L ++ [x]).getD d [] = if d = L.length then x else L.getD d [] := by
  simp only [List.getD_eq_getElem?_getD]
  by_cases h1 : d < L.length
  · have : d ≠ L.length := by omega
    simp [List.getElem?_append_left h1, this]
  · by_cases h2 : d = L.length
    · subst h2; simp
    · have h3 : L.length < d := by omega
      rw [List.getElem?_eq_none (by simp; omega), List.getElem?_eq_none (by omega)]
      simp [h2]

/-- How the loop labels of a successfully constructed world arise from the old ones: either by a
percolation from the new node, or only the new node was labelled (with the first loop found
among its upstreams, possibly none). -/
theorem construct_loop_cases {w : World} {a : Args} (hv : ∀ u ∈ a.ups, u ≠ w.size)
    (hok : (construct w a).2 = .ok) :
    (∃ l, Perc (nbDuring w a) w.size l w.loop (construct w a).1.loop ∧
        (a.loop = some l ∨ (a.loop = none ∧ a.ups.findSome? w.loop = none ∧
          ∃ b, (construct w a).1.asyn w.size = some b ∧ l = (getIoLoop b w.dask w.bg).1 ∧
            (construct w a).1.bg = (getIoLoop b w.dask w.bg).2))) ∨
    (a.loop = none ∧ (construct w a).1.loop = setAt w.loop w.size (a.ups.findSome? w.loop) ∧
      (construct w a).1.bg = w.bg ∧
      (a.ups.findSome? w.loop = none → (construct w a).1.asyn w.size = none)) := by
  obtain ⟨_, h2, _, h4, _⟩ := construct_ok hok
  obtain ⟨_, eloop, easyn, ebg⟩ := construct_ok' hok
  rw [eloop, easyn, ebg]
  cases hl : a.loop with
  | some l =>
    left
    have hp : Perc (nbDuring w a) w.size l w.loop (step2 w a).1 := by
      unfold step2 at h2 ⊢; rw [hl, setLoop_some] at h2 ⊢
      exact perc_of_inform _ _ _ _ _ h2
    have e4 : (step4 w a).1.1 = (step2 w a).1 := by simp only [step4, hp.self]
    exact ⟨l, by rw [e4]; exact hp, Or.inl rfl⟩
  | none =>
    have e2 : (step2 w a) = (setAt w.loop w.size (a.ups.findSome? w.loop), .ok) := by
      unfold step2; rw [hl, setLoop_none _ _ _ _ _ hv]
    cases hfs : a.ups.findSome? w.loop with
    | some l =>
      right
      refine ⟨rfl, ?_, ?_, by simp⟩ <;> simp only [step4, e2, hfs, setAt_same]
    | none =>
      cases h3n : (step3 w a).1 w.size with
      | none =>
        right
        refine ⟨rfl, ?_, ?_, fun _ => rfl⟩ <;> simp only [step4, e2, hfs, setAt_same, h3n]
      | some b =>
        left
        have e4 : (step4 w a) = (setLoop (nbDuring w a) (fuelFor w a) a.ups w.size
            (some (getIoLoop b w.dask w.bg).1) (step2 w a).1, (getIoLoop b w.dask w.bg).2) := by
          simp only [step4, e2, hfs, setAt_same, h3n]
        rw [e4, setLoop_some] at h4
        have hp := perc_of_inform _ _ _ _ _ h4
        refine ⟨(getIoLoop b w.dask w.bg).1, ?_, Or.inr ⟨rfl, rfl, b, rfl, rfl, ?_⟩⟩
        · rw [e4, setLoop_some]
          refine Perc.congr (fun i hi => ?_) hp
          rw [e2]; exact setAt_other _ _ hi
        · rw [e4]

/-- The same for the mode labels (repaired step 3). -/
theorem construct_asyn_cases {w : World} {a : Args} (hf : w.legacy = false) (hv : ∀ u ∈ a.ups, u ≠ w.size)
    (hok : (construct w a).2 = .ok) :
    (∃ b, Perc (nbDuring w a) w.size b w.asyn (construct w a).1.asyn ∧
        (a.asyn = some b ∨ (a.asyn = none ∧ b = false ∧ a.ensure = true ∧
          a.ups.any (fun u => w.asyn u == some true) = false))) ∨
    (a.asyn = none ∧ (construct w a).1.asyn =
        setAt w.asyn w.size (if a.ups.any (fun u => w.asyn u == some true) then some true else none) ∧
      (a.ups.any (fun u => w.asyn u == some true) = false → a.ensure = true → (step2 w a).1 w.size ≠ none)) := by
  obtain ⟨h1, _, h3, _, _⟩ := construct_ok hok
  obtain ⟨_, _, easyn, _⟩ := construct_ok' hok
  rw [easyn]
  cases ha : a.asyn with
  | some b =>
    left
    have hp : Perc (nbDuring w a) w.size b w.asyn (step1 w a).1 := by
      unfold step1 at h1 ⊢; rw [ha, setAsyn_some] at h1 ⊢
      exact perc_of_inform _ _ _ _ _ h1
    have e3 : step3 w a = ((step1 w a).1, .ok) := by
      simp [step3, forceSync, hf, hp.self]
    exact ⟨b, by rw [e3]; exact hp, Or.inl rfl⟩
  | none =>
    have e1 : (step1 w a) = (setAt w.asyn w.size
        (if a.ups.any (fun u => w.asyn u == some true) then some true else none), .ok) := by
      unfold step1; rw [ha, setAsyn_none _ _ _ _ _ hv]
    by_cases hfs : forceSync w a ((step2 w a).1 w.size) ((step1 w a).1 w.size) = true
    · left
      have e3 : step3 w a = setAsyn (nbDuring w a) (fuelFor w a) a.ups w.size (some false) (step1 w a).1 := by
        simp [step3, hfs]
      rw [e3, setAsyn_some] at h3
      have hp := perc_of_inform _ _ _ _ _ h3
      have hfs' := hfs
      simp only [forceSync, hf, Bool.false_or, Bool.and_eq_true, e1, setAt_same] at hfs'
      refine ⟨false, ?_, Or.inr ⟨rfl, rfl, hfs'.1.1, ?_⟩⟩
      · rw [e3, setAsyn_some]
        refine Perc.congr (fun i hi => ?_) hp
        rw [e1]; exact setAt_other _ _ hi
      · cases hany : a.ups.any (fun u => w.asyn u == some true)
        · rfl
        · rw [hany] at hfs'; simp at hfs'
    · right
      have e3 : step3 w a = ((step1 w a).1, .ok) := by
        simp [step3, hfs]
      refine ⟨rfl, by rw [e3, e1], ?_⟩
      intro hany hens hnone
      apply hfs
      simp [forceSync, hf, e1, hany, hens, hnone]

theorem valid_ne {w : World} {a : Args} (hv : ∀ u ∈ a.ups, u < w.size) : ∀ u ∈ a.ups, u ≠ w.size :=
  fun u hu => Nat.ne_of_lt (hv u hu)

theorem upsOf_new {w : World} {a : Args} (hok : (construct w a).2 = .ok) (d : Nat) :
    (construct w a).1.upsOf d = if d = w.size then a.ups else w.upsOf d := by
  simp only [World.upsOf, (construct_ok' hok).1, getD_snoc]; rfl

end StreamzVerif.LoopCfg
