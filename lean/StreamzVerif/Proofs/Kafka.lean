import StreamzVerif.Model.Kafka
/-!
# Helper lemmas for the FromKafkaBatched model (C09)

* projection of a global step onto one partition (`localStep`, `step_get_some`);
* shape predicates on the emitted ranges (`Chain`, `Tiles`) and their list lemmas;
* the well-formedness invariant `WF` and its preservation by every action;
* a generic induction principle over runs (`run_rel`) with a poll counter;
* the segment invariants behind the C09 theorems (`First`, `CommInv`, `ALO`, `Red`).
-/
namespace StreamzVerif.Kafka

/-! ## Projection onto one partition -/
/-- What action `a`, applied in global state `s`, does to the record of partition `j`. -/
def localStep (cfg : Cfg) (s : St) (j : Nat) (a : Act) (q : Part) : Part :=
  match a with
  | .produce p k => if p = j then producePart k q else q
  | .addPartitions _ => q
  | .truncate p k => if p = j then truncPart k q else q
  | .poll => pollPart cfg.maxBatch s.resetLatest (if cfg.refresh then discoverPart q else q)
  | .complete p i => if p = j then completePart i q else q
  | .fail p i => if p = j then failPart i q else q
  | .restart => restartPart (decide (j < cfg.npartCfg.getD s.parts.length)) q

theorem step_get_some (cfg : Cfg) (s : St) (a : Act) (j : Nat) (q : Part) (h : s.parts[j]? = some q) :
    (step cfg s a).parts[j]? = some (localStep cfg s j a q) := by
  cases a <;> simp [step, localStep, List.getElem?_modify, List.getElem?_append, h]
  have := (List.getElem?_eq_some_iff.mp h).1
  omega

theorem step_get_none (cfg : Cfg) (s : St) (a : Act) (j : Nat) (q' : Part) (h : s.parts[j]? = none)
    (h' : (step cfg s a).parts[j]? = some q') : q' = freshPart := by
  cases a <;> simp [step, List.getElem?_modify, List.getElem?_append, h] at h'
  have := h'.2
  simp [List.getElem?_replicate] at this
  exact this.2.symm

/-! ## Shapes of the emitted ranges -/

def rng (b : Batch) : Int × Int := (b.lo, b.hi)
def Part.ranges (q : Part) : List (Int × Int) := q.batches.map rng

theorem map_rng_modify (l : List Batch) (i : Nat) :
    (l.modify i (fun b => { b with done := true })).map rng = l.map rng := by
  induction l generalizing i with
  | nil => simp
  | cons x xs ih =>
    cases i with
    | zero => simp [List.modify, rng]
    | succ n => simp [List.modify_succ_cons, ih]

theorem map_rng_modify_failed (l : List Batch) (i : Nat) :
    (l.modify i (fun b => { b with failed := true })).map rng = l.map rng := by
  induction l generalizing i with
  | nil => simp
  | cons x xs ih =>
    cases i with
    | zero => simp [List.modify, rng]
    | succ n => simp [List.modify_succ_cons, ih]

theorem fail_low (i : Nat) (q : Part) : (failPart i q).low = q.low := by
  unfold failPart; split; split; rfl; rfl; rfl
theorem fail_high (i : Nat) (q : Part) : (failPart i q).high = q.high := by
  unfold failPart; split; split; rfl; rfl; rfl
theorem fail_pos (i : Nat) (q : Part) : (failPart i q).pos = q.pos := by
  unfold failPart; split; split; rfl; rfl; rfl
theorem fail_known (i : Nat) (q : Part) : (failPart i q).known = q.known := by
  unfold failPart; split; split; rfl; rfl; rfl
theorem fail_committed (i : Nat) (q : Part) : (failPart i q).committed = q.committed := by
  unfold failPart; split; split; rfl; rfl; rfl
theorem fail_ranges (i : Nat) (q : Part) : (failPart i q).ranges = q.ranges := by
  unfold failPart
  split
  · split
    · rfl
    · simp [Part.ranges, map_rng_modify_failed]
  · rfl
theorem fail_length (i : Nat) (q : Part) : (failPart i q).batches.length = q.batches.length := by
  unfold failPart; split; split; rfl; simp; rfl
theorem fail_nil (i : Nat) (q : Part) : (failPart i q).batches = [] ↔ q.batches = [] := by
  have := fail_length i q
  constructor
  · intro h; rw [h] at this; exact List.eq_nil_of_length_eq_zero this.symm
  · intro h; rw [h] at this; exact List.eq_nil_of_length_eq_zero this
/-- Marking a batch as failed changes neither its range nor its `done` flag. -/
theorem fail_get (i : Nat) (q : Part) (k : Nat) :
    (failPart i q).batches[k]? = (q.batches[k]?).map (fun b =>
      if i = k ∧ b.done = false then { b with failed := true } else b) := by
  unfold failPart
  cases hi : q.batches[i]? with
  | none =>
    simp only
    cases hk : q.batches[k]? with
    | none => rfl
    | some b =>
      by_cases hik : i = k
      · subst hik; rw [hi] at hk; cases hk
      · simp [hik]
  | some bi =>
    simp only
    split
    · rename_i hd
      cases hk : q.batches[k]? with
      | none => rfl
      | some b =>
        by_cases hik : i = k
        · subst hik; rw [hi] at hk; cases hk; simp [hd]
        · simp [hik]
    · rename_i hd
      simp only [List.getElem?_modify]
      cases hk : q.batches[k]? with
      | none => rfl
      | some b =>
        by_cases hik : i = k
        · subst hik; rw [hi] at hk; cases hk; simp [hd]
        · simp [hik]

theorem fail_get_some {i : Nat} {q : Part} {k : Nat} {b' : Batch} (h : (failPart i q).batches[k]? = some b') :
    ∃ b, q.batches[k]? = some b ∧ b'.lo = b.lo ∧ b'.hi = b.hi ∧ b'.done = b.done := by
  rw [fail_get] at h
  cases hk : q.batches[k]? with
  | none => rw [hk] at h; simp at h
  | some b =>
    rw [hk] at h
    simp only [Option.map_some, Option.some.injEq] at h
    refine ⟨b, rfl, ?_⟩
    subst h
    split <;> simp

def Chain (low : Int) : List (Int × Int) → Prop
  | [] => True
  | [_] => True
  | r1 :: r2 :: rest => (r1.2 + 1 ≤ r2.1 ∧ (r2.1 = r1.2 + 1 ∨ r2.1 ≤ low)) ∧ Chain low (r2 :: rest)

theorem chain_mono {low low' : Int} (h : low ≤ low') : ∀ {l}, Chain low l → Chain low' l
  | [], _ => trivial
  | [_], _ => trivial
  | r1 :: r2 :: rest, hc => by
    obtain ⟨⟨h1, h2⟩, h3⟩ := hc
    exact ⟨⟨h1, by omega⟩, chain_mono h h3⟩

theorem chain_snoc {low : Int} {r : Int × Int} : ∀ {l}, Chain low l →
    (∀ x, l.getLast? = some x → x.2 + 1 ≤ r.1 ∧ (r.1 = x.2 + 1 ∨ r.1 ≤ low)) → Chain low (l ++ [r])
  | [], _, _ => trivial
  | [x], _, h => ⟨h x rfl, trivial⟩
  | r1 :: r2 :: rest, hc, h => by
    obtain ⟨h1, h3⟩ := hc
    refine ⟨h1, ?_⟩
    have := chain_snoc (l := r2 :: rest) h3 (by intro x hx; apply h; simpa [List.getLast?_cons_cons] using hx)
    simpa using this

structure WF (mb : Nat) (q : Part) : Prop where
  low0 : 0 ≤ q.low
  lowhigh : q.low ≤ q.high
  comm : q.committed = NONE ∨ (0 ≤ q.committed ∧ q.committed ≤ q.high)
  pos : q.pos = NONE ∨ (0 ≤ q.pos ∧ q.pos ≤ q.high)
  unk : q.known = false → q.batches = []
  bounds : ∀ r ∈ q.ranges, 0 ≤ r.1 ∧ r.1 ≤ r.2 ∧ r.2 < q.high ∧ r.2 - r.1 + 1 ≤ mb
  last : ∀ r, q.ranges.getLast? = some r → r.2 + 1 = q.pos
  chain : Chain q.low q.ranges
  /-- a batch whose handling raised is never done -/
  nf : ∀ b ∈ q.batches, b.failed = true → b.done = false

theorem wf_fresh (mb : Nat) : WF mb freshPart := by
  refine ⟨?_, ?_, ?_, ?_, ?_, ?_, ?_, ?_, ?_⟩ <;> simp [freshPart, Part.ranges, Chain]

theorem wf_produce {mb : Nat} {q : Part} (k : Nat) (h : WF mb q) : WF mb (producePart k q) := by
  obtain ⟨h1, h2, h3, h4, h5, h6, h7, h8, h9⟩ := h
  refine ⟨h1, ?_, ?_, ?_, h5, ?_, h7, h8, h9⟩
  · simp [producePart]; omega
  · simp [producePart]; omega
  · simp [producePart]; omega
  · intro r hr; have := h6 r hr; simp [producePart]; omega

theorem wf_trunc {mb : Nat} {q : Part} (k : Nat) (h : WF mb q) : WF mb (truncPart k q) := by
  obtain ⟨h1, h2, h3, h4, h5, h6, h7, h8, h9⟩ := h
  refine ⟨?_, ?_, h3, h4, h5, h6, h7, ?_, h9⟩
  · simp [truncPart]; omega
  · simp [truncPart]; omega
  · exact chain_mono (by simp [truncPart]; omega) h8

theorem wf_discover {mb : Nat} {q : Part} (h : WF mb q) : WF mb (discoverPart q) := by
  unfold discoverPart
  split
  · exact h
  · rename_i hk
    have hb := h.unk (by simpa using hk)
    obtain ⟨h1, h2, h3, h4, h5, h6, h7, h8, h9⟩ := h
    refine ⟨h1, h2, h3, h3, ?_, ?_, ?_, ?_, ?_⟩ <;> simp [Part.ranges, hb, Chain]

theorem wf_restart {mb : Nat} {q : Part} (kn : Bool) (h : WF mb q) : WF mb (restartPart kn q) := by
  obtain ⟨h1, h2, h3, h4, h5, h6, h7, h8, h9⟩ := h
  refine ⟨h1, h2, h3, h3, ?_, ?_, ?_, ?_, ?_⟩ <;> simp [restartPart, Part.ranges, Chain]

theorem wf_complete {mb : Nat} {q : Part} (i : Nat) (h : WF mb q) : WF mb (completePart i q) := by
  unfold completePart
  split
  · rename_i b hb
    split
    · exact h
    · rename_i hdf
      obtain ⟨h1, h2, h3, h4, h5, h6, h7, h8, h9⟩ := h
      have hm : rng b ∈ q.ranges := List.mem_map_of_mem (List.mem_of_getElem? hb)
      have := h6 _ hm
      simp [rng] at this
      refine ⟨h1, h2, ?_, h4, ?_, ?_, ?_, ?_, ?_⟩
      · right; simp; omega
      · intro hk; have := h5 hk; simp [this] at hb
      · simpa [Part.ranges, map_rng_modify] using h6
      · simpa [Part.ranges, map_rng_modify] using h7
      · simpa [Part.ranges, map_rng_modify] using h8
      · intro b' hb' hf'
        obtain ⟨k, hk⟩ := List.getElem?_of_mem hb'
        simp only [List.getElem?_modify] at hk
        cases hqk : q.batches[k]? with
        | none => rw [hqk] at hk; simp at hk
        | some bk =>
          rw [hqk] at hk
          by_cases hik : i = k
          · subst hik; rw [hb] at hqk; cases hqk
            simp at hk; subst hk
            simp at hf'; simp [hf'] at hdf
          · simp [hik] at hk; subst hk
            exact h9 _ (List.mem_of_getElem? hqk) hf'
  · exact h

/-- `positions[p]` after the `latest` rule of lines 565-568. -/
def pos1 (rl : Bool) (q : Part) : Int := if rl = true ∧ q.pos = NONE then q.high else q.pos
/-- `lowest` of line 570. -/
def lowest (rl : Bool) (q : Part) : Int := max (pos1 rl q) q.low
/-- `high` after the clamp of lines 571-572. -/
def clampHigh (mb : Nat) (rl : Bool) (q : Part) : Int := min q.high (lowest rl q + mb)

/-- Proof-friendly restatement of `pollPart` for a known partition. -/
theorem pollPart_known (mb : Nat) (rl : Bool) (q : Part) (hk : q.known = true) :
    pollPart mb rl q =
      if lowest rl q < clampHigh mb rl q then
        { q with pos := clampHigh mb rl q,
                 batches := q.batches ++ [{ lo := lowest rl q, hi := clampHigh mb rl q - 1, done := false, failed := false }] }
      else { q with pos := pos1 rl q } := by
  have e1 : (if (rl && q.pos == NONE) = true then q.high else q.pos) = pos1 rl q := by
    simp [pos1]
  unfold pollPart
  simp only [hk, Bool.not_true, Bool.false_eq_true, ↓reduceIte, e1]
  have e2 : (if q.high > max (pos1 rl q) q.low + ↑mb then max (pos1 rl q) q.low + ↑mb else q.high) = clampHigh mb rl q := by
    unfold clampHigh lowest; split <;> omega
  rw [e2]
  rfl

theorem pollPart_unknown (mb : Nat) (rl : Bool) (q : Part) (hk : q.known = false) : pollPart mb rl q = q := by
  simp [pollPart, hk]

theorem wf_poll {mb : Nat} {q : Part} (rl : Bool) (h : WF mb q) : WF mb (pollPart mb rl q) := by
  cases hk : q.known with
  | false => rw [pollPart_unknown _ _ _ hk]; exact h
  | true =>
    rw [pollPart_known _ _ _ hk]
    obtain ⟨h1, h2, h3, h4, h5, h6, h7, h8, h9⟩ := h
    have hp1 : pos1 rl q = NONE ∨ (0 ≤ pos1 rl q ∧ pos1 rl q ≤ q.high) := by
      unfold pos1; split <;> omega
    have hl : lowest rl q = max (pos1 rl q) q.low := rfl
    have hc : clampHigh mb rl q = min q.high (lowest rl q + mb) := rfl
    have hN : NONE = -1001 := rfl
    split
    · rename_i hlt
      refine ⟨h1, h2, h3, ?_, ?_, ?_, ?_, ?_, ?_⟩
      rotate_right
      · intro b hb hf
        simp only [List.mem_append, List.mem_singleton] at hb
        rcases hb with hb | hb
        · exact h9 b hb hf
        · subst hb; rfl
      · right; simp only; omega
      · simp [hk]
      · intro r hr
        simp only [Part.ranges, List.map_append, List.mem_append, List.map_cons, List.map_nil, List.mem_singleton] at hr
        rcases hr with hr | hr
        · exact h6 r hr
        · subst hr; simp only [rng]; omega
      · intro r hr
        simp [Part.ranges, rng] at hr
        subst hr; simp
      · simp only [Part.ranges, List.map_append, List.map_cons, List.map_nil]
        apply chain_snoc h8
        intro x hx
        have hx7 := h7 x hx
        have hxm : x ∈ q.ranges := List.mem_of_getLast? hx
        have := h6 x hxm
        have hpos : pos1 rl q = q.pos := by unfold pos1; split <;> omega
        simp only [rng]
        omega
    · exact ⟨h1, h2, h3, hp1, h5, h6, by
        intro r hr
        have hx7 := h7 r hr
        have := h6 r (List.mem_of_getLast? hr)
        have hpos : pos1 rl q = q.pos := by unfold pos1; split <;> omega
        simp only [hpos]; exact hx7, h8, h9⟩

theorem wf_fail {mb : Nat} {q : Part} (i : Nat) (h : WF mb q) : WF mb (failPart i q) := by
  obtain ⟨h1, h2, h3, h4, h5, h6, h7, h8, h9⟩ := h
  refine ⟨by rw [fail_low]; exact h1, by rw [fail_low, fail_high]; exact h2,
    by rw [fail_committed, fail_high]; exact h3, by rw [fail_pos, fail_high]; exact h4, ?_,
    by rw [fail_ranges, fail_high]; exact h6, by rw [fail_ranges, fail_pos]; exact h7,
    by rw [fail_ranges, fail_low]; exact h8, ?_⟩
  · intro hk; rw [fail_known] at hk; rw [fail_nil]; exact h5 hk
  · intro b' hb' hf'
    obtain ⟨k, hk⟩ := List.getElem?_of_mem hb'
    rw [fail_get] at hk
    cases hqk : q.batches[k]? with
    | none => rw [hqk] at hk; simp at hk
    | some bk =>
      rw [hqk] at hk
      simp only [Option.map_some, Option.some.injEq] at hk
      split at hk
      · rename_i hc; subst hk; exact hc.2
      · subst hk; exact h9 _ (List.mem_of_getElem? hqk) hf'

theorem wf_localStep {cfg : Cfg} {q : Part} (s : St) (j : Nat) (a : Act) (h : WF cfg.maxBatch q) :
    WF cfg.maxBatch (localStep cfg s j a q) := by
  cases a with
  | produce p k => simp only [localStep]; split; exact wf_produce k h; exact h
  | addPartitions m => exact h
  | truncate p k => simp only [localStep]; split; exact wf_trunc k h; exact h
  | poll => simp only [localStep]; split; exact wf_poll _ (wf_discover h); exact wf_poll _ h
  | complete p i => simp only [localStep]; split; exact wf_complete i h; exact h
  | fail p i => simp only [localStep]; split; exact wf_fail i h; exact h
  | restart => exact wf_restart _ h

/-- Every partition record of the state is well-formed. -/
def StWF (cfg : Cfg) (s : St) : Prop := ∀ (j : Nat) (q : Part), s.parts[j]? = some q → WF cfg.maxBatch q

theorem stwf_step {cfg : Cfg} {s : St} (a : Act) (h : StWF cfg s) : StWF cfg (step cfg s a) := by
  intro j q' hq'
  cases hj : s.parts[j]? with
  | some q =>
    rw [step_get_some cfg s a j q hj] at hq'
    cases hq'
    exact wf_localStep s j a (h j q hj)
  | none =>
    rw [step_get_none cfg s a j q' hj hq']
    exact wf_fresh _

theorem stwf_run {cfg : Cfg} (acts : List Act) {s : St} (h : StWF cfg s) : StWF cfg (run cfg s acts) := by
  induction acts generalizing s with
  | nil => exact h
  | cons a as ih => exact ih (stwf_step a h)

theorem stwf_init (cfg : Cfg) (n : Nat) : StWF cfg (init n) := by
  intro j q hq
  simp [init, List.getElem?_replicate] at hq
  rw [← hq.2]; exact wf_fresh _

/-! ## Runs restricted by a side condition, with a poll counter -/

/-- `ok` holds of every action of the run in the state where it is applied. -/
def AllowedRun (cfg : Cfg) (ok : St → Act → Prop) : St → List Act → Prop
  | _, [] => True
  | s, a :: as => ok s a ∧ AllowedRun cfg ok (step cfg s a) as

def isPoll : Act → Nat
  | .poll => 1
  | _ => 0

def countPolls (acts : List Act) : Nat := (acts.map isPoll).sum

theorem run_rel (cfg : Cfg) (j : Nat) (ok : St → Act → Prop) (R : Nat → St → Part → Prop)
    (hstep : ∀ k s a q, s.parts[j]? = some q → R k s q → ok s a →
      R (k + isPoll a) (step cfg s a) (localStep cfg s j a q)) :
    ∀ (acts : List Act) (k : Nat) (s : St) (q : Part), s.parts[j]? = some q → R k s q → AllowedRun cfg ok s acts →
      ∃ q', (run cfg s acts).parts[j]? = some q' ∧ R (k + countPolls acts) (run cfg s acts) q' := by
  intro acts
  induction acts with
  | nil => intro k s q hq hr _; exact ⟨q, hq, by simpa [countPolls, run] using hr⟩
  | cons a as ih =>
    intro k s q hq hr hal
    obtain ⟨h1, h2⟩ := hal
    have := ih (k + isPoll a) (step cfg s a) _ (step_get_some cfg s a j q hq) (hstep k s a q hq hr h1) h2
    obtain ⟨q', hq', hr'⟩ := this
    refine ⟨q', hq', ?_⟩
    have e : k + countPolls (a :: as) = k + isPoll a + countPolls as := by
      simp [countPolls]; omega
    rw [e]; exact hr'

theorem allowed_of_forall (cfg : Cfg) (ok : Act → Prop) : ∀ (acts : List Act) (s : St), (∀ a ∈ acts, ok a) →
    AllowedRun cfg (fun _ a => ok a) s acts
  | [], _, _ => trivial
  | a :: as, s, h => ⟨h a (by simp), allowed_of_forall cfg ok as _ (fun b hb => h b (by simp [hb]))⟩

theorem allowed_and (cfg : Cfg) (ok1 ok2 : St → Act → Prop) : ∀ (acts : List Act) (s : St),
    AllowedRun cfg ok1 s acts → AllowedRun cfg ok2 s acts → AllowedRun cfg (fun s a => ok1 s a ∧ ok2 s a) s acts
  | [], _, _, _ => trivial
  | _ :: as, _, h1, h2 => ⟨⟨h1.1, h2.1⟩, allowed_and cfg ok1 ok2 as _ h1.2 h2.2⟩

/-! ## Tilings -/

/-- `Tiles c rs e`: the ranges `rs` are `[c, h₀], [h₀+1, h₁], …` and end just before `e`. -/
def Tiles : Int → List (Int × Int) → Int → Prop
  | c, [], e => c = e
  | c, r :: rs, e => r.1 = c ∧ Tiles (r.2 + 1) rs e

theorem tiles_snoc {h : Int} : ∀ {c : Int} {l : List (Int × Int)} {m : Int}, Tiles c l m → Tiles c (l ++ [(m, h)]) (h + 1)
  | _, [], _, ht => by simp [Tiles] at ht ⊢; exact ht.symm
  | _, r :: rs, _, ht => ⟨ht.1, tiles_snoc ht.2⟩

theorem tiles_le : ∀ {c : Int} {l : List (Int × Int)} {e : Int}, Tiles c l e → (∀ r ∈ l, r.1 ≤ r.2) → c ≤ e
  | _, [], _, ht, _ => by simp [Tiles] at ht; omega
  | _, r :: rs, _, ht, hb => by
    have := tiles_le ht.2 (fun x hx => hb x (by simp [hx]))
    have := hb r (by simp)
    have := ht.1
    omega

theorem tiles_cover {o : Int} : ∀ {c : Int} {l : List (Int × Int)} {e : Int}, Tiles c l e → c ≤ o → o < e →
    ∃ r ∈ l, r.1 ≤ o ∧ o ≤ r.2
  | _, [], _, ht, h1, h2 => by simp [Tiles] at ht; omega
  | _, r :: rs, _, ht, h1, h2 => by
    by_cases h : o ≤ r.2
    · exact ⟨r, by simp, by have := ht.1; omega, h⟩
    · obtain ⟨x, hx, hx'⟩ := tiles_cover ht.2 (by omega) h2
      exact ⟨x, by simp [hx], hx'⟩

theorem tiles_take_succ : ∀ {c : Int} {l : List (Int × Int)} {e : Int} {n : Nat} {r : Int × Int},
    Tiles c l e → l[n]? = some r → Tiles c (l.take (n + 1)) (r.2 + 1)
  | _, [], _, _, _, _, h => by simp at h
  | _, x :: xs, _, 0, r, ht, h => by
    simp at h; subst h; simp [Tiles]; exact ht.1
  | _, x :: xs, _, n + 1, r, ht, h => by
    simp at h
    simp only [List.take_succ_cons]
    exact ⟨ht.1, tiles_take_succ ht.2 h⟩

theorem tiles_get_succ : ∀ {c : Int} {l : List (Int × Int)} {e : Int} {i : Nat} {r1 r2 : Int × Int},
    Tiles c l e → l[i]? = some r1 → l[i + 1]? = some r2 → r2.1 = r1.2 + 1
  | _, [], _, _, _, _, _, h, _ => by simp at h
  | _, [x], _, _, _, _, _, _, h => by simp at h
  | _, x :: y :: xs, _, 0, r1, r2, ht, h1, h2 => by
    simp at h1 h2; subst h1; subst h2; exact ht.2.1
  | _, x :: y :: xs, _, i + 1, r1, r2, ht, h1, h2 => by
    simp at h1 h2
    exact tiles_get_succ (l := y :: xs) ht.2 (by simpa using h1) (by simpa using h2)

/-! ## Consequences of `Chain` -/

theorem chain_head_lt {low : Int} : ∀ {r1 : Int × Int} {rest : List (Int × Int)}, Chain low (r1 :: rest) →
    (∀ r ∈ rest, r.1 ≤ r.2) → ∀ r ∈ rest, r1.2 < r.1
  | _, [], _, _, r, hr => by simp at hr
  | r1, r2 :: rest, hc, hb, r, hr => by
    obtain ⟨⟨h1, _⟩, h3⟩ := hc
    simp at hr
    rcases hr with hr | hr
    · subst hr; omega
    · have := chain_head_lt h3 (fun x hx => hb x (by simp [hx])) r hr
      have := hb r2 (by simp)
      omega

theorem chain_tail {low : Int} : ∀ {r1 : Int × Int} {rest : List (Int × Int)}, Chain low (r1 :: rest) → Chain low rest
  | _, [], _ => trivial
  | _, _ :: _, hc => hc.2

theorem chain_lt {low : Int} : ∀ {l : List (Int × Int)} {i k : Nat} {r1 r2 : Int × Int}, Chain low l →
    (∀ r ∈ l, r.1 ≤ r.2) → l[i]? = some r1 → l[k]? = some r2 → i < k → r1.2 < r2.1
  | [], _, _, _, _, _, _, h, _, _ => by simp at h
  | x :: xs, 0, k + 1, r1, r2, hc, hb, h1, h2, _ => by
    simp at h1 h2; subst h1
    exact chain_head_lt hc (fun r hr => hb r (by simp [hr])) r2 (List.mem_of_getElem? h2)
  | x :: xs, i + 1, k + 1, r1, r2, hc, hb, h1, h2, hlt => by
    simp at h1 h2
    exact chain_lt (chain_tail hc) (fun r hr => hb r (by simp [hr])) h1 h2 (by omega)
  | x :: xs, _, 0, _, _, _, _, _, _, hlt => by omega

theorem chain_get_succ {low : Int} : ∀ {l : List (Int × Int)} {i : Nat} {r1 r2 : Int × Int}, Chain low l →
    l[i]? = some r1 → l[i + 1]? = some r2 → r1.2 + 1 ≤ r2.1 ∧ (r2.1 = r1.2 + 1 ∨ r2.1 ≤ low)
  | [], _, _, _, _, h, _ => by simp at h
  | [x], _, _, _, _, _, h => by simp at h
  | x :: y :: xs, 0, r1, r2, hc, h1, h2 => by
    simp at h1 h2; subst h1; subst h2; exact hc.1
  | x :: y :: xs, i + 1, r1, r2, hc, h1, h2 => by
    simp at h1 h2
    exact chain_get_succ (l := y :: xs) hc.2 (by simpa using h1) (by simpa using h2)


/-! ## Where the first range of an incarnation begins -/

theorem completePart_nil (i : Nat) (q : Part) (h : q.batches = []) : completePart i q = q := by
  simp [completePart, h]

theorem ranges_complete (i : Nat) (q : Part) : (completePart i q).ranges = q.ranges := by
  unfold completePart
  split
  · split
    · rfl
    · simp [Part.ranges, map_rng_modify]
  · rfl

theorem complete_known (i : Nat) (q : Part) : (completePart i q).known = q.known := by
  unfold completePart; split; split; rfl; rfl; rfl
theorem complete_pos (i : Nat) (q : Part) : (completePart i q).pos = q.pos := by
  unfold completePart; split; split; rfl; rfl; rfl
theorem complete_low (i : Nat) (q : Part) : (completePart i q).low = q.low := by
  unfold completePart; split; split; rfl; rfl; rfl
theorem complete_high (i : Nat) (q : Part) : (completePart i q).high = q.high := by
  unfold completePart; split; split; rfl; rfl; rfl

/-- Known partition: while nothing was emitted the position is `st`; the first range begins at
`max st (low watermark then)`, which is recorded as "`= st`, or above `st` but not above today's low watermark". -/
def FirstK (st L1 : Int) (q : Part) : Prop :=
  q.known = true ∧ (q.ranges = [] → q.pos = st) ∧
  (∀ r0, q.ranges.head? = some r0 → (r0.1 = st ∨ (st < r0.1 ∧ r0.1 ≤ q.low)) ∧ L1 ≤ r0.1) ∧ L1 ≤ q.low

def First (st L1 : Int) (q : Part) : Prop :=
  (q.known = false ∧ q.committed = st ∧ q.batches = [] ∧ L1 ≤ q.low) ∨ FirstK st L1 q

theorem firstK_poll {mb : Nat} {rl : Bool} {st L1 : Int} {q : Part}
    (hrl : st ≠ NONE ∨ rl = false) (h : FirstK st L1 q) : FirstK st L1 (pollPart mb rl q) := by
  obtain ⟨hk, h1, h2, h3⟩ := h
  rw [pollPart_known _ _ _ hk]
  have hl : lowest rl q = max (pos1 rl q) q.low := rfl
  split
  · refine ⟨hk, ?_, ?_, h3⟩
    · intro he; simp [Part.ranges] at he
    · intro r0 hr0
      cases hr : q.ranges with
      | nil =>
        have hp := h1 hr
        have hb : q.batches = [] := by simpa [Part.ranges] using hr
        simp [Part.ranges, hb, rng] at hr0
        subst hr0
        have hp1 : pos1 rl q = st := by
          unfold pos1; rw [hp]; split
          · rename_i hc; rcases hrl with h | h
            · exact absurd hc.2 h
            · rw [h] at hc; simp at hc
          · rfl
        simp only
        omega
      | cons x xs =>
        have : (q.ranges ++ [(lowest rl q, clampHigh mb rl q - 1)]).head? = some r0 := by
          simpa [Part.ranges, rng] using hr0
        rw [hr] at this
        simp at this
        have := h2 r0 (by rw [hr]; simp [this])
        simpa using this
  · refine ⟨hk, ?_, h2, h3⟩
    intro he
    have hp := h1 he
    simp only
    unfold pos1; rw [hp]; split
    · rename_i hc; rcases hrl with h | h
      · exact absurd hc.2 h
      · rw [h] at hc; simp at hc
    · rfl

theorem first_localStep {cfg : Cfg} {st L1 : Int} {q : Part} (s : St) (j : Nat) (a : Act)
    (hw : WF cfg.maxBatch q) (hrl : st ≠ NONE ∨ s.resetLatest = false) (ha : a ≠ .restart)
    (h : First st L1 q) : First st L1 (localStep cfg s j a q) := by
  have hdisc : First st L1 (discoverPart q) := by
    unfold discoverPart
    split
    · exact h
    · rename_i hk
      rcases h with ⟨_, h2, h3, h4⟩ | h
      · right
        exact ⟨rfl, fun _ => h2, by simp [Part.ranges, h3], h4⟩
      · exact absurd h.1 hk
  have hpoll : ∀ q', First st L1 q' → First st L1 (pollPart cfg.maxBatch s.resetLatest q') := by
    intro q' h'
    rcases h' with h' | h'
    · rw [pollPart_unknown _ _ _ h'.1]; exact Or.inl h'
    · exact Or.inr (firstK_poll hrl h')
  cases a with
  | produce p k =>
    simp only [localStep]; split
    · rcases h with h | ⟨h0, h1, h2, h3⟩
      · exact Or.inl h
      · exact Or.inr ⟨h0, h1, h2, h3⟩
    · exact h
  | addPartitions m => exact h
  | truncate p k =>
    simp only [localStep]; split
    · have hle : q.low ≤ (truncPart k q).low := by have := hw.lowhigh; simp [truncPart]; omega
      rcases h with ⟨h0, h1, h2, h3⟩ | ⟨h0, h1, h2, h3⟩
      · exact Or.inl ⟨h0, h1, h2, by omega⟩
      · refine Or.inr ⟨h0, h1, ?_, by omega⟩
        intro r0 hr0
        have := h2 r0 hr0
        omega
    · exact h
  | poll =>
    simp only [localStep]; split
    · exact hpoll _ hdisc
    · exact hpoll _ h
  | complete p i =>
    simp only [localStep]; split
    · rcases h with ⟨h0, h1, h2, h3⟩ | ⟨h0, h1, h2, h3⟩
      · rw [completePart_nil i q h2]; exact Or.inl ⟨h0, h1, h2, h3⟩
      · right
        refine ⟨by rw [complete_known]; exact h0, ?_, ?_, by rw [complete_low]; exact h3⟩
        · rw [ranges_complete, complete_pos]; exact h1
        · rw [ranges_complete, complete_low]; exact h2
    · exact h
  | fail p i =>
    simp only [localStep]; split
    · rcases h with ⟨h0, h1, h2, h3⟩ | ⟨h0, h1, h2, h3⟩
      · exact Or.inl ⟨by rw [fail_known]; exact h0, by rw [fail_committed]; exact h1, (fail_nil i q).mpr h2,
          by rw [fail_low]; exact h3⟩
      · exact Or.inr ⟨by rw [fail_known]; exact h0, by rw [fail_ranges, fail_pos]; exact h1,
          by rw [fail_ranges, fail_low]; exact h2, by rw [fail_low]; exact h3⟩
    · exact h
  | restart => exact absurd rfl ha


/-! ## The committed offset only moves to `hi + 1` of a completed batch -/

/-- Relative to the committed offset `c0` read at (re)start. -/
def CommInv (c0 : Int) (q : Part) : Prop :=
  q.committed = c0 ∨ ∃ b ∈ q.batches, b.done = true ∧ q.committed = b.hi + 1

theorem mem_modify_done {l : List Batch} {i : Nat} {b : Batch} (hb : b ∈ l) (hd : b.done = true) :
    b ∈ l.modify i (fun b => { b with done := true }) := by
  obtain ⟨k, hk⟩ := List.getElem?_of_mem hb
  apply List.mem_of_getElem? (i := k)
  rw [List.getElem?_modify, hk]
  by_cases h : i = k
  · simp [h]; cases b; simp_all
  · simp [h]

theorem get_modify_done {l : List Batch} {i : Nat} {b : Batch} (hb : l[i]? = some b) :
    ({ b with done := true } : Batch) ∈ l.modify i (fun b => { b with done := true }) := by
  apply List.mem_of_getElem? (i := i)
  rw [List.getElem?_modify, hb]; simp

theorem comminv_localStep {cfg : Cfg} {c0 : Int} {q : Part} (s : St) (j : Nat) (a : Act) (ha : a ≠ .restart)
    (h : CommInv c0 q) : CommInv c0 (localStep cfg s j a q) := by
  have hpoll : ∀ rl q', CommInv c0 q' → CommInv c0 (pollPart cfg.maxBatch rl q') := by
    intro rl q' h'
    cases hk : q'.known with
    | false => rw [pollPart_unknown _ _ _ hk]; exact h'
    | true =>
      rw [pollPart_known _ _ _ hk]
      split
      · rcases h' with h' | ⟨b, hb, hd, hc⟩
        · exact Or.inl h'
        · exact Or.inr ⟨b, by simp [hb], hd, hc⟩
      · exact h'
  have hdisc : CommInv c0 (discoverPart q) := by
    unfold discoverPart; split; exact h; exact h
  cases a with
  | produce p k => simp only [localStep]; split; exact h; exact h
  | addPartitions m => exact h
  | truncate p k => simp only [localStep]; split; exact h; exact h
  | poll => simp only [localStep]; split; exact hpoll _ _ hdisc; exact hpoll _ _ h
  | complete p i =>
    simp only [localStep]; split
    · unfold completePart
      split
      · rename_i b hb
        split
        · exact h
        · exact Or.inr ⟨_, get_modify_done hb, rfl, rfl⟩
      · exact h
    · exact h
  | fail p i =>
    simp only [localStep]; split
    · rcases h with h | ⟨b, hb, hd, hc⟩
      · exact Or.inl (by rw [fail_committed]; exact h)
      · obtain ⟨k, hk⟩ := List.getElem?_of_mem hb
        refine Or.inr ⟨b, ?_, hd, by rw [fail_committed]; exact hc⟩
        apply List.mem_of_getElem? (i := k)
        rw [fail_get, hk]; simp [hd]
    · exact h
  | restart => exact absurd rfl ha

/-- Step level: whatever changes the committed offset of partition `j` is the completion of a
batch of `j` that was in flight and not yet done, and the new value is that batch's `hi + 1`. -/
theorem committed_change (cfg : Cfg) (s : St) (a : Act) (j : Nat) (q q' : Part)
    (hq : s.parts[j]? = some q) (hq' : (step cfg s a).parts[j]? = some q') (hne : q'.committed ≠ q.committed) :
    ∃ i b, a = .complete j i ∧ q.batches[i]? = some b ∧ b.done = false ∧ b.failed = false ∧
      q'.committed = b.hi + 1 := by
  rw [step_get_some cfg s a j q hq] at hq'
  cases hq'
  have hpoll : ∀ rl q0, (pollPart cfg.maxBatch rl q0).committed = q0.committed := by
    intro rl q0
    cases hk : q0.known with
    | false => rw [pollPart_unknown _ _ _ hk]
    | true => rw [pollPart_known _ _ _ hk]; split <;> rfl
  have hdisc : (discoverPart q).committed = q.committed := by unfold discoverPart; split <;> rfl
  cases a with
  | produce p k => simp only [localStep] at hne; split at hne <;> simp [producePart] at hne
  | addPartitions m => simp [localStep] at hne
  | truncate p k => simp only [localStep] at hne; split at hne <;> simp [truncPart] at hne
  | poll =>
    simp only [localStep] at hne; split at hne
    · rw [hpoll, hdisc] at hne; exact absurd rfl hne
    · rw [hpoll] at hne; exact absurd rfl hne
  | complete p i =>
    simp only [localStep] at hne ⊢
    split at hne
    · rename_i hp
      subst hp
      simp only [↓reduceIte]
      unfold completePart at hne ⊢
      split at hne
      · rename_i b hb
        split at hne
        · exact absurd rfl hne
        · rename_i hd
          have hd' : b.done = false ∧ b.failed = false := by simpa using hd
          refine ⟨i, b, rfl, hb, hd'.1, hd'.2, ?_⟩
          simp [hd'.1, hd'.2]
      · exact absurd rfl hne
    · exact absurd rfl hne
  | fail p i =>
    simp only [localStep] at hne; split at hne
    · rw [fail_committed] at hne; exact absurd rfl hne
    · exact absurd rfl hne
  | restart => simp [localStep, restartPart] at hne


/-! ## Incarnation segments without retention truncation: the ranges tile -/

/-- No truncation since the (re)start, low watermark `L`, no position, committed offset or range start is below `L`. -/
structure Seg (L : Int) (q : Part) : Prop where
  low : q.low = L
  pos : q.pos = NONE ∨ L ≤ q.pos
  comm : q.committed = NONE ∨ L ≤ q.committed
  ge : ∀ r ∈ q.ranges, L ≤ r.1
  tiles : ∀ r0, q.ranges.head? = some r0 → Tiles r0.1 q.ranges q.pos

theorem seg_poll {mb : Nat} {rl : Bool} {L : Int} {q : Part} (hw : WF mb q) (h : Seg L q) :
    Seg L (pollPart mb rl q) := by
  cases hk : q.known with
  | false => rw [pollPart_unknown _ _ _ hk]; exact h
  | true =>
    rw [pollPart_known _ _ _ hk]
    obtain ⟨s1, s2, s3, s4, s5⟩ := h
    have hl : lowest rl q = max (pos1 rl q) q.low := rfl
    have hc : clampHigh mb rl q = min q.high (lowest rl q + mb) := rfl
    have hN : NONE = -1001 := rfl
    have hlh := hw.lowhigh
    have hp1 : pos1 rl q = NONE ∨ L ≤ pos1 rl q := by unfold pos1; split <;> omega
    split
    · rename_i hlt
      refine ⟨s1, Or.inr (by simp only; omega), s3, ?_, ?_⟩
      · intro r hr
        simp only [Part.ranges, List.map_append, List.mem_append, List.map_cons, List.map_nil, List.mem_singleton] at hr
        rcases hr with hr | hr
        · exact s4 r hr
        · subst hr; simp only [rng]; omega
      · intro r0 hr0
        cases hr : q.ranges with
        | nil =>
          have hb : q.batches = [] := by simpa [Part.ranges] using hr
          simp [Part.ranges, hb, rng] at hr0
          subst hr0
          simp [Part.ranges, hb, rng, Tiles]
        | cons x xs =>
          have e : ({ q with pos := clampHigh mb rl q, batches := q.batches ++ [{ lo := lowest rl q, hi := clampHigh mb rl q - 1, done := false, failed := false }] } : Part).ranges
              = q.ranges ++ [(lowest rl q, clampHigh mb rl q - 1)] := by simp [Part.ranges, rng]
          rw [e] at hr0 ⊢
          rw [hr] at hr0
          simp at hr0
          subst hr0
          have ht := s5 x (by rw [hr]; rfl)
          -- the last emitted range ends just before the position
          obtain ⟨y, hy⟩ : ∃ y, q.ranges.getLast? = some y := by
            rw [hr]; exact ⟨_, List.getLast?_eq_some_getLast (by simp)⟩
          have hlast := hw.last y hy
          have hyb := hw.bounds y (List.mem_of_getLast? hy)
          have hpos : pos1 rl q = q.pos := by unfold pos1; split <;> omega
          have hlow : lowest rl q = q.pos := by omega
          have := tiles_snoc (h := clampHigh mb rl q - 1) ht
          rw [hlow]
          simpa using this
    · refine ⟨s1, hp1, s3, s4, ?_⟩
      intro r0 hr0
      have ht := s5 r0 hr0
      obtain ⟨y, hy⟩ : ∃ y, q.ranges.getLast? = some y := by
        cases hr : q.ranges with
        | nil =>
          have hr0' : q.ranges.head? = some r0 := hr0
          rw [hr] at hr0'; simp at hr0'
        | cons x xs => exact ⟨_, List.getLast?_eq_some_getLast (by simp)⟩
      have hlast := hw.last y hy
      have hyb := hw.bounds y (List.mem_of_getLast? hy)
      have hpos : pos1 rl q = q.pos := by unfold pos1; split <;> omega
      simp only [hpos]; exact ht

theorem seg_localStep {cfg : Cfg} {L : Int} {q : Part} (s : St) (j : Nat) (a : Act)
    (hw : WF cfg.maxBatch q) (ha : a ≠ .restart) (ht : ∀ p k, a ≠ .truncate p k)
    (h : Seg L q) : Seg L (localStep cfg s j a q) := by
  have hdisc : Seg L (discoverPart q) := by
    unfold discoverPart
    split
    · exact h
    · rename_i hk
      have hb := hw.unk (by simpa using hk)
      exact ⟨h.low, h.comm, h.comm, by simp [Part.ranges, hb], by simp [Part.ranges, hb]⟩
  cases a with
  | produce p k =>
    simp only [localStep]; split
    · exact ⟨h.low, h.pos, h.comm, h.ge, h.tiles⟩
    · exact h
  | addPartitions m => exact h
  | truncate p k => exact absurd rfl (ht p k)
  | poll =>
    simp only [localStep]; split
    · exact seg_poll (wf_discover hw) hdisc
    · exact seg_poll hw h
  | complete p i =>
    simp only [localStep]; split
    · refine ⟨by rw [complete_low]; exact h.low, by rw [complete_pos]; exact h.pos, ?_,
        by rw [ranges_complete]; exact h.ge, by rw [ranges_complete, complete_pos]; exact h.tiles⟩
      unfold completePart
      split
      · rename_i b hb
        split
        · exact h.comm
        · have hm : rng b ∈ q.ranges := List.mem_map_of_mem (List.mem_of_getElem? hb)
          have h1 := h.ge _ hm
          have h2 := hw.bounds _ hm
          simp only [rng] at h1 h2
          right; simp only; omega
      · exact h.comm
    · exact h
  | fail p i =>
    simp only [localStep]; split
    · exact ⟨by rw [fail_low]; exact h.low, by rw [fail_pos]; exact h.pos, by rw [fail_committed]; exact h.comm,
        by rw [fail_ranges]; exact h.ge, by rw [fail_ranges, fail_pos]; exact h.tiles⟩
    · exact h
  | restart => exact absurd rfl ha


/-! ## In-order completion: the done batches are a prefix and the committed offset is its end -/

/-- The side condition "batches of a partition complete in order": when batch `i` of `p`
completes, every earlier batch of `p` (this incarnation) is already done. -/
def okInOrder (s : St) : Act → Prop
  | .complete p i => ∀ q, s.parts[p]? = some q → ∀ k b, k < i → q.batches[k]? = some b → b.done = true
  | _ => True

/-- `c0` = committed offset read at (re)start. -/
def ALO (c0 : Int) (q : Part) : Prop :=
  (q.batches = [] → q.committed = c0) ∧
  ∃ n, n ≤ q.batches.length ∧
    (∀ k b, q.batches[k]? = some b → (b.done = true ↔ k < n)) ∧
    (n = 0 → q.committed = c0) ∧
    (∀ m r, n = m + 1 → q.ranges[m]? = some r → q.committed = r.2 + 1)

theorem alo_poll {mb : Nat} {rl : Bool} {c0 : Int} {q : Part} (h : ALO c0 q) : ALO c0 (pollPart mb rl q) := by
  cases hk : q.known with
  | false => rw [pollPart_unknown _ _ _ hk]; exact h
  | true =>
    rw [pollPart_known _ _ _ hk]
    split
    · obtain ⟨_, n, hn, hd, h0, hm⟩ := h
      refine ⟨by simp, n, by simp; omega, ?_, h0, ?_⟩
      · intro k b hb
        simp only [List.getElem?_append] at hb
        split at hb
        · exact hd k b hb
        · rename_i hlen
          have : k - q.batches.length = 0 := by
            cases hx : k - q.batches.length with
            | zero => rfl
            | succ t => rw [hx] at hb; simp at hb
          rw [this] at hb
          simp at hb; subst hb
          simp; omega
      · intro m r hnm hr
        apply hm m r hnm
        simp only [Part.ranges, List.map_append, List.getElem?_append] at hr
        split at hr
        · exact hr
        · rename_i hlen; simp at hlen; omega
    · exact h

theorem alo_complete {c0 : Int} {q : Part} (i : Nat)
    (hord : ∀ k b, k < i → q.batches[k]? = some b → b.done = true)
    (h : ALO c0 q) : ALO c0 (completePart i q) := by
  unfold completePart
  split
  · rename_i b hb
    split
    · exact h
    · rename_i hnd0
      have hnd : ¬ b.done = true := fun hx => hnd0 (by simp [hx])
      obtain ⟨_, n, hn, hd, h0, hm⟩ := h
      have hilt : i < q.batches.length := (List.getElem?_eq_some_iff.mp hb).1
      -- the completed batch is the first one that is not done
      have hin : i = n := by
        have h1 : ¬ i < n := fun hlt => hnd ((hd i b hb).mpr hlt)
        by_cases h2 : n < i
        · have hnlt : n < q.batches.length := by omega
          obtain ⟨bn, hbn⟩ : ∃ bn, q.batches[n]? = some bn := ⟨_, List.getElem?_eq_getElem hnlt⟩
          have := (hd n bn hbn).mp (hord n bn h2 hbn)
          omega
        · omega
      subst hin
      refine ⟨?_, i + 1, (by simp; omega), ?_, (fun h => absurd h (by omega)), ?_⟩
      · intro he
        have := congrArg List.length he
        simp only [List.length_modify, List.length_nil] at this; omega
      · intro k b' hb'
        simp only [List.getElem?_modify] at hb'
        cases hqk : q.batches[k]? with
        | none => rw [hqk] at hb'; simp at hb'
        | some bk =>
          rw [hqk] at hb'
          by_cases hik : i = k
          · subst hik; simp at hb'; subst hb'; simp
          · simp [hik] at hb'; subst hb'
            have := hd k bk hqk
            rw [this]; omega
      · intro m r hnm hr
        have : m = i := by omega
        subst this
        simp only [Part.ranges, map_rng_modify] at hr
        simp only [List.getElem?_map, hb, Option.map_some, Option.some.injEq] at hr
        subst hr; rfl
  · exact h

theorem alo_fail {c0 : Int} {q : Part} (i : Nat) (h : ALO c0 q) : ALO c0 (failPart i q) := by
  obtain ⟨h1, n, hn, hd, h0, hm⟩ := h
  refine ⟨fun he => by rw [fail_committed]; exact h1 ((fail_nil i q).mp he), n,
    by rw [fail_length]; exact hn, ?_, fun hz => by rw [fail_committed]; exact h0 hz, ?_⟩
  · intro k b' hb'
    obtain ⟨b, hb, _, _, hdn⟩ := fail_get_some hb'
    rw [hdn]; exact hd k b hb
  · intro m r hnm hr
    rw [fail_ranges] at hr; rw [fail_committed]; exact hm m r hnm hr

theorem alo_localStep {cfg : Cfg} {c0 : Int} {q : Part} (s : St) (j : Nat) (a : Act)
    (hq : s.parts[j]? = some q) (ha : a ≠ .restart) (hord : okInOrder s a)
    (h : ALO c0 q) : ALO c0 (localStep cfg s j a q) := by
  cases a with
  | produce p k => simp only [localStep]; split; exact h; exact h
  | addPartitions m => exact h
  | truncate p k => simp only [localStep]; split; exact h; exact h
  | poll =>
    simp only [localStep]; split
    · apply alo_poll; unfold discoverPart; split; exact h; exact h
    · exact alo_poll h
  | complete p i =>
    simp only [localStep]; split
    · rename_i hp; subst hp
      exact alo_complete i (fun k b hk hb => hord q hq k b hk hb) h
    · exact h
  | fail p i => simp only [localStep]; split; exact alo_fail i h; exact h
  | restart => exact absurd rfl ha

/-- What `ALO` buys: an offset at or after the start of the first range that is below the
committed offset lies in a done batch. -/
theorem alo_covered {c0 L : Int} {q : Part} (hs : Seg L q) (h : ALO c0 q)
    (b0 : Batch) (hb0 : q.batches.head? = some b0) (hc0 : c0 = NONE ∨ c0 ≤ b0.lo)
    (o : Int) (ho : b0.lo ≤ o) (hno : ¬ ∃ b ∈ q.batches, b.done = true ∧ b.lo ≤ o ∧ o ≤ b.hi) :
    q.committed = NONE ∨ q.committed ≤ o := by
  obtain ⟨_, n, hn, hd, h0, hm⟩ := h
  cases n with
  | zero => have := h0 rfl; omega
  | succ m =>
    have hmlt : m < q.ranges.length := by simp [Part.ranges]; omega
    obtain ⟨r, hr⟩ : ∃ r, q.ranges[m]? = some r := ⟨_, List.getElem?_eq_getElem hmlt⟩
    have hc := hm m r rfl hr
    by_cases hlt : o < q.committed
    · exfalso
      apply hno
      have hh : q.ranges.head? = some (rng b0) := by simp [Part.ranges, hb0]
      have ht := hs.tiles _ hh
      have ht' := tiles_take_succ ht hr
      obtain ⟨x, hx, hx1, hx2⟩ := tiles_cover (o := o) ht' (by simpa [rng] using ho) (by omega)
      obtain ⟨k, hk⟩ := List.getElem?_of_mem hx
      have hklt : k < m + 1 := by
        have := (List.getElem?_eq_some_iff.mp hk).1
        simp at this; omega
      rw [List.getElem?_take_of_lt hklt] at hk
      simp only [Part.ranges, List.getElem?_map] at hk
      cases hbk : q.batches[k]? with
      | none => rw [hbk] at hk; simp at hk
      | some bk =>
        rw [hbk] at hk; simp at hk; subst hk
        exact ⟨bk, List.mem_of_getElem? hbk, (hd k bk hbk).mpr hklt, hx1, hx2⟩
    · right; omega


/-! ## After a restart the polls tile `[c, …)` from the resume point `c` and make progress -/

/-- `k` polls advance by at most `k * max_batch_size`. -/
def adv (k mb : Nat) : Int := ((k * mb : Nat) : Int)
theorem adv_zero (mb : Nat) : adv 0 mb = 0 := by simp [adv]
theorem adv_succ (k mb : Nat) : adv (k + 1) mb = adv k mb + mb := by
  simp [adv, Nat.succ_mul]

/-- A start value `x` of `positions[p]` that makes the first range begin at `c`. -/
def SC (c L : Int) (rl : Bool) (x : Int) : Prop := x = c ∨ (x = NONE ∧ c = L ∧ rl = false)

structure Red (cfg : Cfg) (c L H0 : Int) (k : Nat) (rl : Bool) (q : Part) : Prop where
  low : q.low = L
  lc : L ≤ c
  h0 : H0 ≤ q.high
  unk : q.known = false → k = 0 ∧ cfg.refresh = true ∧ q.batches = [] ∧ SC c L rl q.committed
  empty : q.known = true → q.batches = [] → SC c L rl q.pos ∧ (k = 0 ∨ H0 ≤ c)
  tiles : ∀ r0, q.ranges.head? = some r0 →
    r0.1 = c ∧ Tiles c q.ranges q.pos ∧ (H0 ≤ q.pos ∨ c + adv k cfg.maxBatch ≤ q.pos)

theorem sc_weaken {c L : Int} {rl : Bool} {x : Int} (h : SC c L rl x) : SC c L false x := by
  rcases h with h | ⟨h1, h2, _⟩
  · exact Or.inl h
  · exact Or.inr ⟨h1, h2, rfl⟩

theorem red_pollK {cfg : Cfg} {c L H0 : Int} {k : Nat} {rl : Bool} {q : Part} (hmb : 0 < cfg.maxBatch)
    (hw : WF cfg.maxBatch q) (hk : q.known = true) (h : Red cfg c L H0 k rl q) :
    Red cfg c L H0 (k + 1) false (pollPart cfg.maxBatch rl q) := by
  rw [pollPart_known _ _ _ hk]
  obtain ⟨r1, r2, r3, _, r5, r6⟩ := h
  have hl : lowest rl q = max (pos1 rl q) q.low := rfl
  have hc : clampHigh cfg.maxBatch rl q = min q.high (lowest rl q + cfg.maxBatch) := rfl
  have hN : NONE = -1001 := rfl
  have hl0 := hw.low0
  have hadv := adv_succ k cfg.maxBatch
  have hmb' : (0 : Int) < cfg.maxBatch := by omega
  cases hr : q.ranges with
  | nil =>
    have hb : q.batches = [] := by simpa [Part.ranges] using hr
    obtain ⟨hsc, hk0⟩ := r5 hk hb
    have hp1 : SC c L false (pos1 rl q) ∧ lowest rl q = c := by
      rcases hsc with h | ⟨h1, h2, h3⟩
      · have : pos1 rl q = c := by unfold pos1; split <;> omega
        exact ⟨Or.inl this, by omega⟩
      · have : pos1 rl q = NONE := by unfold pos1; rw [h3]; simp [h1]
        exact ⟨Or.inr ⟨this, h2, rfl⟩, by omega⟩
    split
    · rename_i hlt
      refine ⟨r1, r2, r3, by simp [hk], by simp, ?_⟩
      intro r0 hr0
      simp [Part.ranges, hb, rng] at hr0
      subst hr0
      refine ⟨hp1.2, ?_, ?_⟩
      · simp [Part.ranges, hb, rng, Tiles]; exact hp1.2
      · simp only
        rcases hk0 with h | h
        · subst h; rw [adv_succ, adv_zero]; omega
        · omega
    · rename_i hlt
      refine ⟨r1, r2, r3, by simp [hk], ?_, ?_⟩
      · intro _ _; exact ⟨hp1.1, Or.inr (by omega)⟩
      · intro r0 hr0
        have : q.ranges.head? = some r0 := hr0
        rw [hr] at this; simp at this
  | cons x xs =>
    have hx := r6 x (by rw [hr]; rfl)
    obtain ⟨y, hy⟩ : ∃ y, q.ranges.getLast? = some y := by
      rw [hr]; exact ⟨_, List.getLast?_eq_some_getLast (by simp)⟩
    have hlast := hw.last y hy
    have hyb := hw.bounds y (List.mem_of_getLast? hy)
    have hcp := tiles_le hx.2.1 (fun r hr => (hw.bounds r hr).2.1)
    have hpos : pos1 rl q = q.pos := by unfold pos1; split <;> omega
    have hlow : lowest rl q = q.pos := by omega
    have hbne : q.batches ≠ [] := by
      intro he; simp [Part.ranges, he] at hr
    split
    · rename_i hlt
      refine ⟨r1, r2, r3, by simp [hk], fun _ he => absurd he (by simp), ?_⟩
      intro r0 hr0
      have e : ({ q with pos := clampHigh cfg.maxBatch rl q, batches := q.batches ++ [{ lo := lowest rl q, hi := clampHigh cfg.maxBatch rl q - 1, done := false, failed := false }] } : Part).ranges
          = q.ranges ++ [(lowest rl q, clampHigh cfg.maxBatch rl q - 1)] := by simp [Part.ranges, rng]
      rw [e] at hr0 ⊢
      rw [hr] at hr0; simp at hr0; subst hr0
      refine ⟨hx.1, ?_, ?_⟩
      · have := tiles_snoc (h := clampHigh cfg.maxBatch rl q - 1) hx.2.1
        rw [hlow]; simpa using this
      · simp only; omega
    · rename_i hlt
      refine ⟨r1, r2, r3, by simp [hk], fun _ he => absurd he hbne, ?_⟩
      intro r0 hr0
      have h0 : q.ranges.head? = some r0 := hr0
      have := r6 r0 h0
      refine ⟨this.1, ?_, Or.inl (by simp only; omega)⟩
      simp only [hpos]; exact this.2.1


theorem step_resetLatest (cfg : Cfg) (s : St) (a : Act) (ha : a ≠ .restart) :
    (step cfg s a).resetLatest = (if a = .poll then false else s.resetLatest) := by
  cases a <;> simp [step] at ha ⊢

theorem red_localStep {cfg : Cfg} {c L H0 : Int} {k : Nat} {q : Part} (hmb : 0 < cfg.maxBatch)
    (s : St) (j : Nat) (a : Act) (hw : WF cfg.maxBatch q) (ha : a ≠ .restart) (ht : ∀ p n, a ≠ .truncate p n)
    (h : Red cfg c L H0 k s.resetLatest q) :
    Red cfg c L H0 (k + isPoll a) (step cfg s a).resetLatest (localStep cfg s j a q) := by
  rw [step_resetLatest cfg s a ha]
  cases a with
  | produce p n =>
    simp only [localStep, isPoll, Nat.add_zero, reduceCtorEq, ↓reduceIte]; split
    · exact ⟨h.low, h.lc, by have := h.h0; simp [producePart]; omega, h.unk, h.empty, h.tiles⟩
    · exact h
  | addPartitions m => simpa [localStep, isPoll] using h
  | truncate p n => exact absurd rfl (ht p n)
  | poll =>
    simp only [localStep, isPoll, ↓reduceIte]
    cases hk : q.known with
    | true =>
      have : (if cfg.refresh = true then discoverPart q else q) = q := by
        split
        · simp [discoverPart, hk]
        · rfl
      rw [this]
      exact red_pollK hmb hw hk h
    | false =>
      obtain ⟨hk0, hrf, hb, hsc⟩ := h.unk hk
      simp only [hrf, ↓reduceIte]
      have hd : discoverPart q = { q with known := true, pos := q.committed } := by
        simp [discoverPart, hk]
      have hwd := wf_discover hw
      rw [hd] at hwd ⊢
      apply red_pollK hmb hwd rfl
      refine ⟨h.low, h.lc, h.h0, by simp, ?_, ?_⟩
      · intro _ _; exact ⟨hsc, Or.inl hk0⟩
      · intro r0 hr0; simp [Part.ranges, hb] at hr0
  | complete p i =>
    simp only [localStep, isPoll, Nat.add_zero, reduceCtorEq, ↓reduceIte]; split
    · cases hb : q.batches with
      | nil => rw [completePart_nil i q hb]; exact h
      | cons x xs =>
        have hkn : q.known = true := by
          cases hk : q.known with
          | true => rfl
          | false => have := hw.unk hk; rw [hb] at this; simp at this
        refine ⟨by rw [complete_low]; exact h.low, h.lc, by rw [complete_high]; exact h.h0, ?_, ?_, ?_⟩
        · rw [complete_known, hkn]; simp
        · intro _ he
          have : (completePart i q).ranges = [] := by simp [Part.ranges, he]
          rw [ranges_complete] at this
          simp [Part.ranges, hb] at this
        · rw [ranges_complete, complete_pos]; exact h.tiles
    · exact h
  | fail p i =>
    simp only [localStep, isPoll, Nat.add_zero, reduceCtorEq, ↓reduceIte]; split
    · refine ⟨by rw [fail_low]; exact h.low, h.lc, by rw [fail_high]; exact h.h0, ?_, ?_,
        by rw [fail_ranges, fail_pos]; exact h.tiles⟩
      · intro hk; rw [fail_known] at hk
        obtain ⟨a1, a2, a3, a4⟩ := h.unk hk
        exact ⟨a1, a2, (fail_nil i q).mpr a3, by rw [fail_committed]; exact a4⟩
      · intro hk he; rw [fail_known] at hk; rw [fail_pos]
        exact h.empty hk ((fail_nil i q).mp he)
    · exact h
  | restart => exact absurd rfl ha

/-- What `Red` buys after `k` polls. -/
theorem red_covered {cfg : Cfg} {c L H0 : Int} {k : Nat} {rl : Bool} {q : Part} (h : Red cfg c L H0 k rl q)
    (o : Int) (h1 : c ≤ o) (h2 : o < H0) (h3 : o < c + adv k cfg.maxBatch) :
    ∃ r ∈ q.ranges, r.1 ≤ o ∧ o ≤ r.2 := by
  have hz := adv_zero cfg.maxBatch
  cases hr : q.ranges with
  | nil =>
    have hb : q.batches = [] := by simpa [Part.ranges] using hr
    exfalso
    cases hk : q.known with
    | false => have := (h.unk hk).1; subst this; omega
    | true =>
      rcases (h.empty hk hb).2 with h0 | h0
      · subst h0; omega
      · omega
  | cons x xs =>
    obtain ⟨_, ht, hp⟩ := h.tiles x (by rw [hr]; rfl)
    rw [← hr]
    exact tiles_cover ht h1 (by omega)


/-! ## Segments: the invariants established for a restart-free run after a restart -/

theorem restart_get {cfg : Cfg} {s : St} {j : Nat} {q1 : Part} (h : (step cfg s .restart).parts[j]? = some q1) :
    ∃ q, s.parts[j]? = some q ∧ q1 = restartPart (decide (j < cfg.npartCfg.getD s.parts.length)) q := by
  cases hj : s.parts[j]? with
  | none => simp [step, List.getElem?_mapIdx, hj] at h
  | some q =>
    rw [step_get_some cfg s .restart j q hj] at h
    exact ⟨q, rfl, by simpa [localStep] using h.symm⟩

def NoRestart (acts : List Act) : Prop := ∀ a ∈ acts, a ≠ Act.restart
def NoTruncate (acts : List Act) : Prop := ∀ a ∈ acts, ∀ p k, a ≠ Act.truncate p k
/-- Batches of every partition complete in order along the run of `acts` from `s`. -/
def InOrder (cfg : Cfg) (s : St) (acts : List Act) : Prop := AllowedRun cfg okInOrder s acts

/-- Executable version of `okInOrder`, for concrete examples. -/
def okInOrderB (s : St) : Act → Bool
  | .complete p i =>
    match s.parts[p]? with
    | some q => (q.batches.take i).all (·.done)
    | none => true
  | _ => true

def inOrderB (cfg : Cfg) : St → List Act → Bool
  | _, [] => true
  | s, a :: as => okInOrderB s a && inOrderB cfg (step cfg s a) as

theorem okInOrder_of_B {s : St} {a : Act} (h : okInOrderB s a = true) : okInOrder s a := by
  cases a with
  | complete p i =>
    intro q hq k b hk hb
    simp only [okInOrderB, hq, List.all_eq_true] at h
    apply h b
    apply List.mem_of_getElem? (i := k)
    rw [List.getElem?_take_of_lt hk]; exact hb
  | _ => trivial

theorem inOrder_of_B (cfg : Cfg) : ∀ (acts : List Act) (s : St), inOrderB cfg s acts = true → InOrder cfg s acts
  | [], _, _ => trivial
  | a :: as, s, h => by
    simp only [inOrderB, Bool.and_eq_true] at h
    exact ⟨okInOrder_of_B h.1, inOrder_of_B cfg as _ h.2⟩

/-- Executable versions of `NoRestart` / `NoTruncate`, for concrete examples. -/
def noRestartB (acts : List Act) : Bool := acts.all (fun a => match a with | .restart => false | _ => true)
def noTruncateB (acts : List Act) : Bool := acts.all (fun a => match a with | .truncate _ _ => false | _ => true)

theorem noRestart_of_B {acts : List Act} (h : noRestartB acts = true) : NoRestart acts := by
  intro a ha he
  subst he
  simp only [noRestartB, List.all_eq_true] at h
  have := h _ ha
  simp at this

theorem noTruncate_of_B {acts : List Act} (h : noTruncateB acts = true) : NoTruncate acts := by
  intro a ha p k he
  subst he
  simp only [noTruncateB, List.all_eq_true] at h
  have := h _ ha
  simp at this

/-- A partition is *at a start*: nothing emitted yet and its position is the committed offset.
True right after a restart and of a partition that was just created on the broker. -/
def AtStart (q : Part) : Prop := q.batches = [] ∧ q.pos = q.committed

theorem atStart_restart {cfg : Cfg} {s : St} {j : Nat} {q1 : Part}
    (h : (step cfg s .restart).parts[j]? = some q1) : AtStart q1 := by
  obtain ⟨q, _, hq1⟩ := restart_get h
  subst hq1; exact ⟨rfl, rfl⟩

theorem atStart_fresh : AtStart freshPart := ⟨rfl, rfl⟩

/-- Invariants of a restart-free run that begins in a state `s1` where partition `j` is at a start
(truncation allowed). -/
theorem segment_general {cfg : Cfg} {s1 : St} (hs1 : StWF cfg s1) {acts : List Act} (hnr : NoRestart acts)
    {j : Nat} {q1 : Part} (h1 : s1.parts[j]? = some q1) (hst : AtStart q1) :
    ∃ q2, (run cfg s1 acts).parts[j]? = some q2 ∧ WF cfg.maxBatch q2 ∧ CommInv q1.committed q2 ∧
      ((q1.committed ≠ NONE ∨ s1.resetLatest = false) → First q1.committed q1.low q2) := by
  have hw1 : WF cfg.maxBatch q1 := hs1 j q1 h1
  have := run_rel cfg j (fun _ a => a ≠ .restart)
    (fun _ s' q' => WF cfg.maxBatch q' ∧ CommInv q1.committed q' ∧
      ((q1.committed ≠ NONE ∨ s1.resetLatest = false) → (q1.committed ≠ NONE ∨ s'.resetLatest = false) ∧ First q1.committed q1.low q'))
    (by
      intro k s' a q' hq' ⟨hw, hci, hf⟩ ha
      refine ⟨wf_localStep s' j a hw, comminv_localStep s' j a ha hci, ?_⟩
      intro hyp
      obtain ⟨hrl, hfirst⟩ := hf hyp
      refine ⟨?_, first_localStep s' j a hw hrl ha hfirst⟩
      rcases hrl with h | h
      · exact Or.inl h
      · right; rw [step_resetLatest cfg s' a ha]; split; rfl; exact h)
    acts 0 s1 q1 h1
    (by
      refine ⟨hw1, Or.inl rfl, ?_⟩
      intro hyp
      refine ⟨hyp, ?_⟩
      cases hkn : q1.known with
      | false => exact Or.inl ⟨hkn, rfl, hst.1, Int.le_refl _⟩
      | true => exact Or.inr ⟨hkn, fun _ => hst.2, by simp [Part.ranges, hst.1], Int.le_refl _⟩)
    (allowed_of_forall cfg _ acts _ hnr)
  obtain ⟨q2, hq2, hw2, hc2, hf2⟩ := this
  exact ⟨q2, hq2, hw2, hc2, fun hyp => (hf2 hyp).2⟩

/-- Invariants of a restart-free, truncation-free run from a state where partition `j` is at a start
and its start offset is still retained. -/
theorem segment_notrunc {cfg : Cfg} {s1 : St} (hs1 : StWF cfg s1) {acts : List Act} (hnr : NoRestart acts)
    (hnt : NoTruncate acts) {j : Nat} {q1 : Part} (h1 : s1.parts[j]? = some q1) (hst : AtStart q1)
    (hret : q1.committed = NONE ∨ q1.low ≤ q1.committed) :
    ∃ q2, (run cfg s1 acts).parts[j]? = some q2 ∧ WF cfg.maxBatch q2 ∧ Seg q1.low q2 ∧
      (InOrder cfg s1 acts → ALO q1.committed q2) := by
  have hw1 : WF cfg.maxBatch q1 := hs1 j q1 h1
  have hseg1 : Seg q1.low q1 :=
    ⟨rfl, by rw [hst.2]; exact hret, hret, by simp [Part.ranges, hst.1], by simp [Part.ranges, hst.1]⟩
  have hal : AllowedRun cfg (fun _ a => a ≠ .restart ∧ ∀ p k, a ≠ .truncate p k) s1 acts :=
    allowed_of_forall cfg _ acts _ (fun a ha => ⟨hnr a ha, hnt a ha⟩)
  have base := run_rel cfg j (fun _ a => a ≠ .restart ∧ ∀ p k, a ≠ .truncate p k)
    (fun _ _ q' => WF cfg.maxBatch q' ∧ Seg q1.low q')
    (by
      intro k s' a q' hq' ⟨hw, hsg⟩ ⟨ha, ht⟩
      exact ⟨wf_localStep s' j a hw, seg_localStep s' j a hw ha ht hsg⟩)
    acts 0 s1 q1 h1 ⟨hw1, hseg1⟩ hal
  obtain ⟨q2, hq2, hw2, hsg2⟩ := base
  refine ⟨q2, hq2, hw2, hsg2, ?_⟩
  intro hio
  have := run_rel cfg j (fun s' a => (a ≠ .restart ∧ ∀ p k, a ≠ .truncate p k) ∧ okInOrder s' a)
    (fun _ _ q' => ALO q1.committed q')
    (by
      intro k s' a q' hq' hal' ⟨⟨ha, _⟩, ho⟩
      exact alo_localStep s' j a hq' ha ho hal')
    acts 0 s1 q1 h1
    ⟨fun _ => rfl, 0, Nat.zero_le _, by simp [hst.1], fun _ => rfl, by intro m r h; omega⟩
    (allowed_and cfg _ _ acts _ hal hio)
  obtain ⟨q2', hq2', hal2⟩ := this
  rw [hq2] at hq2'; cases hq2'
  exact hal2

end StreamzVerif.Kafka
