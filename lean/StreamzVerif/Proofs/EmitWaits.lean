import StreamzVerif.Proofs.Propagate
/-
C03 clause 1 on the dataflow model: which awaitables an emission hands back.

`Stream._emit` (core.py 429-462) returns the flattened list of what every `downstream.update` returned; a node's
`update` returns what its own `_emit` calls returned (`UpdRes.passRet`), an asynchronous sink returns one
awaitable per invocation (`Ev.sinkStart d tok v md`, token `tok`).  This file proves by rule induction over
`Run` (Proofs/Propagate.lean) that, when every node kind is *transparent* (an update that emits passes the
result on), the tokens returned by a call are exactly the tokens of the `sinkStart` events it logged, in order;
that the tokens are fresh; and that a run never completes a consumer itself.

Structure
  1. `hasEmit`, `Transparent`, one lemma per kind (`transparent_*`), `all_kinds_transparent`
  2. `sinkStartToks` and its algebra; reference counting / waiters log no `sinkStart`
  3. `run_noemit_toks` (an update body without emission returns nothing), `run_toks` (the main rule induction)
  4. frame facts about tokens: `run_doneToks`, `run_tok_range`
  5. `flushAt` (collect) drops the tokens
  6. `AwaitDone`, `sinkDones`, `sinkDones_doneToks`
-/
namespace StreamzVerif.Graph

/-! ### 1. Transparent kinds -/

/-- the body performs at least one `_emit` -/
def hasEmit : List Eff → Bool
  | [] => false
  | .emit _ _ :: _ => true
  | .emitThenRelease _ _ :: _ => true
  | _ :: es => hasEmit es

/-- `update` of kind `k` returns what its `_emit` calls returned whenever it emits at all. -/
def Transparent (k : Kind) : Prop :=
  ∀ (s : NState) (who : NodeId) (x : Val) (md : Meta),
    hasEmit (upd k s who x md).effs = true → (upd k s who x md).passRet = true

@[simp] theorem hasEmit_nil : hasEmit [] = false := rfl
@[simp] theorem hasEmit_emit (v : Val) (md : Meta) (es : List Eff) : hasEmit (.emit v md :: es) = true := rfl
@[simp] theorem hasEmit_etr (v : Val) (md : Meta) (es : List Eff) :
    hasEmit (.emitThenRelease v md :: es) = true := rfl
@[simp] theorem hasEmit_retain (md : Meta) (es : List Eff) : hasEmit (.retain md :: es) = hasEmit es := rfl
@[simp] theorem hasEmit_release (md : Meta) (es : List Eff) : hasEmit (.release md :: es) = hasEmit es := rfl
@[simp] theorem hasEmit_set (s : NState) (es : List Eff) : hasEmit (.set s :: es) = hasEmit es := rfl
@[simp] theorem hasEmit_detach (es : List Eff) : hasEmit (.detach :: es) = hasEmit es := rfl

theorem hasEmit_append (a b : List Eff) : hasEmit (a ++ b) = (hasEmit a || hasEmit b) := by
  induction a with
  | nil => simp
  | cons e a ih => cases e <;> simp [ih]

theorem raise_passRet (e : Err) (effs : List Eff) : (raise e effs).passRet = true := rfl

theorem transparent_source : Transparent .source := fun _ _ _ _ _ => rfl
theorem transparent_union : Transparent .union := fun _ _ _ _ _ => rfl
theorem transparent_sink (m : SinkMode) : Transparent (.sink m) := fun _ _ _ _ _ => rfl

theorem transparent_map (f : Fn) : Transparent (.map f) := by
  intro s who x md _
  simp only [upd]; split <;> rfl

theorem transparent_starmap (f : Fn) : Transparent (.starmap f) := by
  intro s who x md _
  simp only [upd]; split
  · split <;> rfl
  · rfl

/-- `filter` passes the result on exactly when it emits (predicate true); a dropped element returns nothing. -/
theorem transparent_filter (p : Fn) : Transparent (.filter p) := by
  intro s who x md h
  simp only [upd] at h ⊢
  split
  · next b hb =>
    rw [hb] at h
    by_cases ht : b.truthy = true
    · simp [ht]
    · simp [ht] at h
  · rfl

theorem transparent_accumulate (f : Fn2) (st : Option Val) (rs ws : Bool) : Transparent (.accumulate f st rs ws) := by
  intro s who x md _
  simp only [upd]
  repeat' split
  all_goals rfl

theorem transparent_slice (a : Nat) (e : Option Nat) (c : Nat) : Transparent (.slice a e c) :=
  fun _ _ _ _ _ => rfl

theorem transparent_partition (n : Nat) (key : Option Fn) : Transparent (.partition n key) := by
  intro s who x md _
  simp only [upd]
  repeat' split
  all_goals rfl

theorem transparent_partitionUnique (n : Nat) (key : Fn) (kl : Bool) : Transparent (.partitionUnique n key kl) := by
  intro s who x md h
  cases hp : (upd (.partitionUnique n key kl) s who x md).passRet with
  | true => rfl
  | false =>
    exfalso
    simp only [upd] at h hp
    cases hk : key.eval x with
    | error e => simp [hk, raise] at hp
    | ok ky =>
      simp only [hk] at h hp
      by_cases hh : (!ky.hashable) = true
      · simp [hh, raise] at hp
      · cases kl <;> cases hf : List.find? (fun it => decide (it.fst = ky)) s.items <;>
          simp [hh, hf] at h hp <;> split at hp <;> simp_all <;> (split at h <;> simp at h)

theorem transparent_slidingWindow (n : Nat) (part : Bool) : Transparent (.slidingWindow n part) := by
  intro s who x md h
  simp only [upd] at h ⊢
  split
  · rfl
  · next hn => rw [if_neg hn] at h; simp at h

theorem transparent_unique (m : Option Nat) (key : Fn) (hsh : Bool) : Transparent (.unique m key hsh) := by
  intro s who x md h
  simp only [upd] at h ⊢
  split
  · rfl
  · next y hy =>
    rw [hy] at h; simp only [] at h
    split
    · rfl
    · next hh =>
      rw [if_neg hh] at h
      split
      · next hit => rw [if_pos hit] at h; simp at h
      · rfl

theorem transparent_flatten : Transparent .flatten := by
  intro s who x md _
  simp only [upd]; split <;> rfl

theorem transparent_pluck (p : Pick) : Transparent (.pluck p) := by
  intro s who x md _
  cases p with
  | idx i => simp only [upd]; split <;> rfl
  | idxs l => simp only [upd]; split <;> rfl

/-- `collect.update` never emits: nothing to pass on (its emissions happen in `flush`, see `flushAt_toks`). -/
theorem transparent_collect : Transparent .collect := by
  intro s who x md h
  simp [upd] at h

theorem transparent_zip (lits : List (Nat × Val)) : Transparent (.zip lits) := by
  intro s who x md h
  simp only [upd] at h ⊢
  split
  · rfl
  · next L hL =>
    rw [hL] at h; simp only [] at h
    split
    · rfl
    · next hn => rw [if_neg hn] at h; simp at h

theorem transparent_combineLatest (eo : Option (List NodeId)) : Transparent (.combineLatest eo) := by
  intro s who x md h
  simp only [upd] at h ⊢
  split
  · rfl
  · next idx hi =>
    rw [hi] at h; simp only [] at h
    split
    · rfl
    · next hn =>
      rw [if_neg hn] at h
      simp only [hasEmit_append, hasEmit_retain, hasEmit_nil, hasEmit_set, Bool.or_false, Bool.false_or] at h
      exfalso; revert h; split <;> simp

theorem transparent_zipLatest : Transparent .zipLatest := by
  intro s who x md h
  simp only [upd] at h ⊢
  split
  · rfl
  · next idx hi =>
    rw [hi] at h; simp only [] at h
    split
    · rfl
    · next hn =>
      rw [if_neg hn] at h
      simp only [hasEmit_append, hasEmit_retain, hasEmit_nil, hasEmit_set, Bool.or_false, Bool.false_or] at h
      exfalso; revert h; split <;> simp

/-- Every kind of the synchronous model is transparent: no `update` swallows the awaitables of an emission it
makes (the defect of `slice`, repaired in 50b9d2a, was exactly a violation of this). -/
theorem all_kinds_transparent (k : Kind) : Transparent k := by
  cases k with
  | source => exact transparent_source
  | union => exact transparent_union
  | map f => exact transparent_map f
  | starmap f => exact transparent_starmap f
  | filter p => exact transparent_filter p
  | accumulate f st rs ws => exact transparent_accumulate f st rs ws
  | slice a e c => exact transparent_slice a e c
  | partition n key => exact transparent_partition n key
  | partitionUnique n key kl => exact transparent_partitionUnique n key kl
  | slidingWindow n part => exact transparent_slidingWindow n part
  | unique m key hsh => exact transparent_unique m key hsh
  | flatten => exact transparent_flatten
  | pluck p => exact transparent_pluck p
  | collect => exact transparent_collect
  | zip lits => exact transparent_zip lits
  | combineLatest eo => exact transparent_combineLatest eo
  | zipLatest => exact transparent_zipLatest
  | sink m => exact transparent_sink m

/-! ### 2. Tokens of the consumer invocations in a log -/

def sinkStartToks (l : List Ev) : List Tok :=
  l.filterMap fun
    | .sinkStart _ t _ _ => some t
    | _ => none

@[simp] theorem sinkStartToks_nil : sinkStartToks [] = [] := rfl
@[simp] theorem sinkStartToks_append (a b : List Ev) :
    sinkStartToks (a ++ b) = sinkStartToks a ++ sinkStartToks b := by simp [sinkStartToks]
@[simp] theorem sinkStartToks_cons_start (d : NodeId) (t : Tok) (v : Val) (md : Meta) (l : List Ev) :
    sinkStartToks (.sinkStart d t v md :: l) = t :: sinkStartToks l := rfl
@[simp] theorem sinkStartToks_cons_emit (n : NodeId) (v : Val) (md : Meta) (l : List Ev) :
    sinkStartToks (.emit n v md :: l) = sinkStartToks l := rfl
@[simp] theorem sinkStartToks_cons_arrive (d who : NodeId) (v : Val) (md : Meta) (l : List Ev) :
    sinkStartToks (.arrive d who v md :: l) = sinkStartToks l := rfl
@[simp] theorem sinkStartToks_cons_retain (r k : Nat) (l : List Ev) :
    sinkStartToks (.retain r k :: l) = sinkStartToks l := rfl
@[simp] theorem sinkStartToks_cons_release (r : Nat) (l : List Ev) :
    sinkStartToks (.release r :: l) = sinkStartToks l := rfl
@[simp] theorem sinkStartToks_cons_fire (r : Nat) (l : List Ev) :
    sinkStartToks (.fire r :: l) = sinkStartToks l := rfl
@[simp] theorem sinkStartToks_cons_raised (n : NodeId) (e : Err) (l : List Ev) :
    sinkStartToks (.raised n e :: l) = sinkStartToks l := rfl

theorem mem_sinkStartToks {t : Tok} {l : List Ev} :
    t ∈ sinkStartToks l ↔ ∃ d v md, Ev.sinkStart d t v md ∈ l := by
  induction l with
  | nil => simp
  | cons e l ih =>
    cases e <;> simp_all [sinkStartToks]
    case sinkStart d t' v md =>
      constructor
      · rintro (h | ⟨d', v', md', h⟩)
        · exact ⟨d, v, md, Or.inl ⟨rfl, h, rfl, rfl⟩⟩
        · exact ⟨d', v', md', Or.inr h⟩
      · rintro ⟨d', v', md', (⟨_, h, _, _⟩ | h)⟩
        · exact Or.inl h
        · exact Or.inr ⟨d', v', md', h⟩

@[simp] theorem retainMd_noStart (k : Nat) (md : Meta) (S : State) : sinkStartToks (retainMd k md S).2 = [] := by
  induction md generalizing S with
  | nil => rfl
  | cons m ms ih =>
    rw [retainMd]
    split
    · exact ih S
    · simp only [sinkStartToks_cons_retain]; exact ih _

@[simp] theorem releaseMd_noStart (md : Meta) (S : State) : sinkStartToks (releaseMd md S).2 = [] := by
  induction md generalizing S with
  | nil => rfl
  | cons m ms ih =>
    rw [releaseMd]
    split
    · exact ih S
    · simp only [sinkStartToks_cons_release]
      split
      · simp only [sinkStartToks_cons_fire]; exact ih _
      · exact ih _

@[simp] theorem emitPre_noStart (S : State) (n : NodeId) (md : Meta) : sinkStartToks (emitPre S n md).2 = [] := by
  unfold emitPre; split <;> simp

@[simp] theorem etrPost_noStart (md : Meta) (toks : List Tok) (S : State) :
    sinkStartToks (etrPost md toks S).2 = [] := by
  unfold etrPost; split <;> simp

/-- an asynchronous sink returns exactly the token of the invocation it started; a synchronous one none -/
theorem sinkRes_toks (m : SinkMode) (d who : NodeId) (v : Val) (md : Meta) (S : State) :
    (sinkRes m d who v md S).toks = sinkStartToks (sinkRes m d who v md S).log := by
  unfold sinkRes
  cases m with
  | sync fn => simp only []; split <;> rfl
  | async =>
    simp only [sinkStartToks_append, sinkStartToks_cons_arrive, sinkStartToks_cons_start, sinkStartToks_nil]
    split <;> simp

variable (G : NodeId → Kind)

/-! ### 3. The rule inductions -/

/-- An update body that performs no `_emit` returns no awaitables. -/
theorem run_noemit_toks {c : Call} {S S' : State} {l : List Ev} {t : List Tok} (h : Run G c S S' l t) :
    ∀ d es, c = .effs d es → hasEmit es = false → t = [] := by
  induction h with
  | emit _ _ => intro d es hc; cases hc
  | dnil => intro d es hc; cases hc
  | dcons _ _ _ _ => intro d es hc; cases hc
  | sink _ _ => intro d es hc; cases hc
  | upd _ _ _ _ => intro d es hc; cases hc
  | enil => intro _ _ _ _; rfl
  | eretain _ ih => intro d es hc he; cases hc; exact ih _ _ rfl (by simpa using he)
  | erelease _ ih => intro d es hc he; cases hc; exact ih _ _ rfl (by simpa using he)
  | eset _ ih => intro d es hc he; cases hc; exact ih _ _ rfl (by simpa using he)
  | edetach _ ih => intro d es hc he; cases hc; exact ih _ _ rfl (by simpa using he)
  | eemit _ _ _ _ => intro d es hc he; cases hc; simp at he
  | eetr _ _ _ _ => intro d es hc he; cases hc; simp at he

/-- **The awaitables a call returns are the tokens of the consumer invocations it started**, in order, for
`_emit`, the downstream loop, one `update` and an update body alike. -/
theorem run_toks (hT : ∀ i, Transparent (G i)) {c : Call} {S S' : State} {l : List Ev} {t : List Tok}
    (h : Run G c S S' l t) : t = sinkStartToks l := by
  induction h with
  | emit _ ih => simpa using ih
  | dnil => rfl
  | dcons _ _ ih1 ih2 => simp [ih1, ih2]
  | sink _ _ => exact sinkRes_toks _ _ _ _ _ _
  | @upd d who v md S S' l t hs hu hr ih =>
    simp only [sinkStartToks_cons_arrive]
    by_cases hp : (upd (G d) (S.loc d) who v md).passRet = true
    · rw [if_pos hp]; exact ih
    · rw [if_neg hp]
      have hne : hasEmit (upd (G d) (S.loc d) who v md).effs = false := by
        cases hh : hasEmit (upd (G d) (S.loc d) who v md).effs with
        | false => rfl
        | true => exact absurd (hT d _ _ _ _ hh) hp
      rw [← ih]
      exact (run_noemit_toks G hr _ _ rfl hne).symm
  | enil => rfl
  | eretain _ ih => simpa using ih
  | erelease _ ih => simpa using ih
  | eset _ ih => exact ih
  | edetach _ ih => exact ih
  | eemit _ _ ih1 ih2 => simp [ih1, ih2]
  | eetr _ _ ih1 ih2 => simp [ih1, ih2]

/-! ### 4. Tokens are fresh, and a run finishes no consumer -/

@[simp] theorem retainMd_nextTok (k : Nat) (md : Meta) (S : State) : (retainMd k md S).1.nextTok = S.nextTok := by
  induction md generalizing S with
  | nil => rfl
  | cons m ms ih => rw [retainMd]; split; exact ih S; simp [ih]
@[simp] theorem retainMd_doneToks (k : Nat) (md : Meta) (S : State) : (retainMd k md S).1.doneToks = S.doneToks := by
  induction md generalizing S with
  | nil => rfl
  | cons m ms ih => rw [retainMd]; split; exact ih S; simp [ih]
@[simp] theorem releaseMd_nextTok (md : Meta) (S : State) : (releaseMd md S).1.nextTok = S.nextTok := by
  induction md generalizing S with
  | nil => rfl
  | cons m ms ih => rw [releaseMd]; split; exact ih S; simp [ih]
@[simp] theorem releaseMd_doneToks (md : Meta) (S : State) : (releaseMd md S).1.doneToks = S.doneToks := by
  induction md generalizing S with
  | nil => rfl
  | cons m ms ih => rw [releaseMd]; split; exact ih S; simp [ih]

@[simp] theorem emitPre_nextTok (S : State) (n : NodeId) (md : Meta) : (emitPre S n md).1.nextTok = S.nextTok := by
  unfold emitPre; split <;> simp
@[simp] theorem emitPre_doneToks (S : State) (n : NodeId) (md : Meta) : (emitPre S n md).1.doneToks = S.doneToks := by
  unfold emitPre; split <;> simp
@[simp] theorem etrPost_nextTok (md : Meta) (toks : List Tok) (S : State) :
    (etrPost md toks S).1.nextTok = S.nextTok := by
  unfold etrPost; split <;> simp
@[simp] theorem etrPost_doneToks (md : Meta) (toks : List Tok) (S : State) :
    (etrPost md toks S).1.doneToks = S.doneToks := by
  unfold etrPost; split <;> simp
@[simp] theorem setLoc_nextTok (S : State) (i : NodeId) (s : NState) : (S.setLoc i s).nextTok = S.nextTok := rfl
@[simp] theorem setLoc_doneToks (S : State) (i : NodeId) (s : NState) : (S.setLoc i s).doneToks = S.doneToks := rfl
@[simp] theorem setDowns_nextTok (S : State) (i : NodeId) (l : List NodeId) : (S.setDowns i l).nextTok = S.nextTok := rfl
@[simp] theorem setDowns_doneToks (S : State) (i : NodeId) (l : List NodeId) :
    (S.setDowns i l).doneToks = S.doneToks := rfl

theorem detach_fold_tok (d : NodeId) (us : List NodeId) (S : State) :
    (us.foldl (fun S u => S.setDowns u ((S.downs u).filter (· ≠ d))) S).nextTok = S.nextTok ∧
    (us.foldl (fun S u => S.setDowns u ((S.downs u).filter (· ≠ d))) S).doneToks = S.doneToks := by
  induction us generalizing S with
  | nil => exact ⟨rfl, rfl⟩
  | cons u us ih =>
    simp only [List.foldl_cons]
    obtain ⟨h1, h2⟩ := ih (S.setDowns u ((S.downs u).filter (· ≠ d)))
    exact ⟨h1, h2⟩
@[simp] theorem detachNode_nextTok (d : NodeId) (S : State) : (detachNode d S).nextTok = S.nextTok :=
  (detach_fold_tok d _ S).1
@[simp] theorem detachNode_doneToks (d : NodeId) (S : State) : (detachNode d S).doneToks = S.doneToks :=
  (detach_fold_tok d _ S).2

theorem sinkRes_doneToks (m : SinkMode) (d who : NodeId) (v : Val) (md : Meta) (S : State) :
    (sinkRes m d who v md S).st.doneToks = S.doneToks := by
  unfold sinkRes
  cases m with
  | sync fn => simp only []; split <;> rfl
  | async => simp only []; split <;> simp

theorem sinkRes_tok_range (m : SinkMode) (d who : NodeId) (v : Val) (md : Meta) (S : State) :
    S.nextTok ≤ (sinkRes m d who v md S).st.nextTok ∧
      ∀ t ∈ (sinkRes m d who v md S).toks, S.nextTok ≤ t ∧ t < (sinkRes m d who v md S).st.nextTok := by
  unfold sinkRes
  cases m with
  | sync fn => simp only []; split <;> simp [Res.fail]
  | async => simp

/-- Nothing inside `_emit` ever marks a consumer invocation as finished (only the environment does, through
`sinkDone`). -/
theorem run_doneToks {c : Call} {S S' : State} {l : List Ev} {t : List Tok} (h : Run G c S S' l t) :
    S'.doneToks = S.doneToks := by
  induction h with
  | emit _ ih => simpa using ih
  | dnil => rfl
  | dcons _ _ ih1 ih2 => rw [ih2]; simpa using ih1
  | sink _ _ => exact sinkRes_doneToks _ _ _ _ _ _
  | upd _ _ _ ih => exact ih
  | enil => rfl
  | eretain _ ih => simpa using ih
  | erelease _ ih => simpa using ih
  | eset _ ih => simpa using ih
  | edetach _ ih => simpa using ih
  | eemit _ _ ih1 ih2 => rw [ih2, ih1]
  | eetr _ _ ih1 ih2 => rw [ih2]; simpa using ih1

/-- The tokens a call returns were allocated by it: they lie in `[S.nextTok, S'.nextTok)`. -/
theorem run_tok_range {c : Call} {S S' : State} {l : List Ev} {t : List Tok} (h : Run G c S S' l t) :
    S.nextTok ≤ S'.nextTok ∧ ∀ x ∈ t, S.nextTok ≤ x ∧ x < S'.nextTok := by
  induction h with
  | emit _ ih => simpa using ih
  | dnil => exact ⟨Nat.le_refl _, fun x hx => by simp at hx⟩
  | dcons _ _ ih1 ih2 =>
    simp only [releaseMd_nextTok] at ih2
    refine ⟨Nat.le_trans ih1.1 ih2.1, fun x hx => ?_⟩
    rcases List.mem_append.1 hx with hx | hx
    · have := ih1.2 x hx; unfold Tok at *; omega
    · have := ih2.2 x hx; unfold Tok at *; omega
  | sink _ _ => exact sinkRes_tok_range _ _ _ _ _ _
  | upd _ _ _ ih =>
    refine ⟨ih.1, fun x hx => ?_⟩
    split at hx
    · exact ih.2 x hx
    · simp at hx
  | enil => exact ⟨Nat.le_refl _, fun x hx => by simp at hx⟩
  | eretain _ ih => simpa using ih
  | erelease _ ih => simpa using ih
  | eset _ ih => simpa using ih
  | edetach _ ih => simpa using ih
  | eemit _ _ ih1 ih2 =>
    refine ⟨Nat.le_trans ih1.1 ih2.1, fun x hx => ?_⟩
    rcases List.mem_append.1 hx with hx | hx
    · have := ih1.2 x hx; unfold Tok at *; omega
    · have := ih2.2 x hx; unfold Tok at *; omega
  | eetr _ _ ih1 ih2 =>
    simp only [etrPost_nextTok] at ih2
    refine ⟨Nat.le_trans ih1.1 ih2.1, fun x hx => ?_⟩
    rcases List.mem_append.1 hx with hx | hx
    · have := ih1.2 x hx; unfold Tok at *; omega
    · have := ih2.2 x hx; unfold Tok at *; omega

/-! ### 5. `collect`: a buffering node is a backpressure boundary -/

theorem flushAt_toks (fuel : Nat) (d : NodeId) (S : State) : (flushAt G fuel d S).toks = [] := rfl

/-! ### 6. The emit awaitable and the environment finishing consumers -/

/-- The emit awaitable built from the tokens `toks` is done in state `S`. -/
def AwaitDone (S : State) (toks : List Tok) : Prop := ∀ t ∈ toks, t ∈ S.doneToks

/-- consumer invocations are finished one at a time by the environment -/
def sinkDones : List Tok → State → Option State
  | [], S => some S
  | t :: ts, S =>
    match sinkDone t S with
    | some (S1, _) => sinkDones ts S1
    | none => none

theorem wakeWaiters_doneToks (ws : List (List Tok × Meta)) (S : State) :
    (wakeWaiters ws S).1.doneToks = S.doneToks := by
  induction ws generalizing S with
  | nil => rfl
  | cons w ws ih =>
    obtain ⟨toks, md⟩ := w
    rw [wakeWaiters]
    split
    · simp [ih]
    · simp [ih]

/-- `sinkDone t` marks exactly `t` as finished. -/
theorem sinkDone_doneToks {t : Tok} {S S' : State} {l : List Ev} (h : sinkDone t S = some (S', l)) :
    S'.doneToks = t :: S.doneToks := by
  unfold sinkDone at h
  split at h
  · cases h
  · simp only [Option.some.injEq, Prod.mk.injEq] at h
    rw [← h.1, wakeWaiters_doneToks, releaseMd_doneToks]

theorem sinkDones_doneToks {ts : List Tok} {S S' : State} (h : sinkDones ts S = some S') :
    ∀ t, t ∈ S'.doneToks ↔ t ∈ ts ∨ t ∈ S.doneToks := by
  induction ts generalizing S with
  | nil => simp only [sinkDones, Option.some.injEq] at h; subst h; simp
  | cons a ts ih =>
    simp only [sinkDones] at h
    split at h
    · next S1 l1 h1 =>
      intro t
      rw [ih h, sinkDone_doneToks h1]
      simp only [List.mem_cons]
      constructor
      · rintro (h | h | h)
        · exact Or.inl (Or.inr h)
        · exact Or.inl (Or.inl h)
        · exact Or.inr h
      · rintro ((h | h) | h)
        · exact Or.inr (Or.inl h)
        · exact Or.inl h
        · exact Or.inr (Or.inr h)
    · cases h

end StreamzVerif.Graph
