import StreamzVerif.Model.MapAsyncFine
/-! Invariants and helper lemmas for the fine-grained `map_async` model (Model/MapAsyncFine.lean): insert path
`.locked`, worker life cycle `.current`. -/
set_option linter.unusedSimpArgs false
set_option linter.unusedVariables false
set_option linter.unnecessarySimpa false
namespace StreamzVerif.MapAsyncFine

variable {α : Type}

@[simp] theorem fresh_nil : fresh [] = [] := rfl
@[simp] theorem fresh_insFirst (j : Nat) (r : List H) : fresh (.insFirst j :: r) = j :: fresh r := rfl
@[simp] theorem fresh_insWake (j : Nat) (r : List H) : fresh (.insWake j :: r) = fresh r := rfl
@[simp] theorem fresh_insPoll (j : Nat) (r : List H) : fresh (.insPoll j :: r) = fresh r := rfl
@[simp] theorem fresh_ack (j : Nat) (r : List H) : fresh (.ack j :: r) = fresh r := rfl
@[simp] theorem fresh_worker (j : Nat) (r : List H) : fresh (.worker j :: r) = fresh r := rfl
@[simp] theorem fresh_waitCb (j : Nat) (r : List H) : fresh (.waitCb j :: r) = fresh r := rfl
@[simp] theorem fresh_jobFirst (j : Nat) (r : List H) : fresh (.jobFirst j :: r) = fresh r := rfl
@[simp] theorem fresh_jobWake (j : Nat) (r : List H) : fresh (.jobWake j :: r) = fresh r := rfl
@[simp] theorem fresh_gatherCb (j : Nat) (r : List H) : fresh (.gatherCb j :: r) = fresh r := rfl
@[simp] theorem fresh_append (a b : List H) : fresh (a ++ b) = fresh a ++ fresh b := by
  induction a with
  | nil => rfl
  | cons h t ih => cases h <;> simp [ih]
@[simp] theorem fresh_map_worker (l : List Nat) : fresh (l.map H.worker) = [] := by
  induction l with
  | nil => rfl
  | cons h t ih => simp [ih]
@[simp] theorem wakes_nil : wakes [] = [] := rfl
@[simp] theorem wakes_insFirst (j : Nat) (r : List H) : wakes (.insFirst j :: r) = wakes r := rfl
@[simp] theorem wakes_insWake (j : Nat) (r : List H) : wakes (.insWake j :: r) = j :: wakes r := rfl
@[simp] theorem wakes_insPoll (j : Nat) (r : List H) : wakes (.insPoll j :: r) = wakes r := rfl
@[simp] theorem wakes_ack (j : Nat) (r : List H) : wakes (.ack j :: r) = wakes r := rfl
@[simp] theorem wakes_worker (j : Nat) (r : List H) : wakes (.worker j :: r) = wakes r := rfl
@[simp] theorem wakes_waitCb (j : Nat) (r : List H) : wakes (.waitCb j :: r) = wakes r := rfl
@[simp] theorem wakes_jobFirst (j : Nat) (r : List H) : wakes (.jobFirst j :: r) = wakes r := rfl
@[simp] theorem wakes_jobWake (j : Nat) (r : List H) : wakes (.jobWake j :: r) = wakes r := rfl
@[simp] theorem wakes_gatherCb (j : Nat) (r : List H) : wakes (.gatherCb j :: r) = wakes r := rfl
@[simp] theorem wakes_append (a b : List H) : wakes (a ++ b) = wakes a ++ wakes b := by
  induction a with
  | nil => rfl
  | cons h t ih => cases h <;> simp [ih]
@[simp] theorem wakes_map_worker (l : List Nat) : wakes (l.map H.worker) = [] := by
  induction l with
  | nil => rfl
  | cons h t ih => simp [ih]
@[simp] theorem polls_nil : polls [] = [] := rfl
@[simp] theorem polls_insFirst (j : Nat) (r : List H) : polls (.insFirst j :: r) = polls r := rfl
@[simp] theorem polls_insWake (j : Nat) (r : List H) : polls (.insWake j :: r) = polls r := rfl
@[simp] theorem polls_insPoll (j : Nat) (r : List H) : polls (.insPoll j :: r) = j :: polls r := rfl
@[simp] theorem polls_ack (j : Nat) (r : List H) : polls (.ack j :: r) = polls r := rfl
@[simp] theorem polls_worker (j : Nat) (r : List H) : polls (.worker j :: r) = polls r := rfl
@[simp] theorem polls_waitCb (j : Nat) (r : List H) : polls (.waitCb j :: r) = polls r := rfl
@[simp] theorem polls_jobFirst (j : Nat) (r : List H) : polls (.jobFirst j :: r) = polls r := rfl
@[simp] theorem polls_jobWake (j : Nat) (r : List H) : polls (.jobWake j :: r) = polls r := rfl
@[simp] theorem polls_gatherCb (j : Nat) (r : List H) : polls (.gatherCb j :: r) = polls r := rfl
@[simp] theorem polls_append (a b : List H) : polls (a ++ b) = polls a ++ polls b := by
  induction a with
  | nil => rfl
  | cons h t ih => cases h <;> simp [ih]
@[simp] theorem polls_map_worker (l : List Nat) : polls (l.map H.worker) = [] := by
  induction l with
  | nil => rfl
  | cons h t ih => simp [ih]
@[simp] theorem waitCbs_nil : waitCbs [] = [] := rfl
@[simp] theorem waitCbs_insFirst (j : Nat) (r : List H) : waitCbs (.insFirst j :: r) = waitCbs r := rfl
@[simp] theorem waitCbs_insWake (j : Nat) (r : List H) : waitCbs (.insWake j :: r) = waitCbs r := rfl
@[simp] theorem waitCbs_insPoll (j : Nat) (r : List H) : waitCbs (.insPoll j :: r) = waitCbs r := rfl
@[simp] theorem waitCbs_ack (j : Nat) (r : List H) : waitCbs (.ack j :: r) = waitCbs r := rfl
@[simp] theorem waitCbs_worker (j : Nat) (r : List H) : waitCbs (.worker j :: r) = waitCbs r := rfl
@[simp] theorem waitCbs_waitCb (j : Nat) (r : List H) : waitCbs (.waitCb j :: r) = j :: waitCbs r := rfl
@[simp] theorem waitCbs_jobFirst (j : Nat) (r : List H) : waitCbs (.jobFirst j :: r) = waitCbs r := rfl
@[simp] theorem waitCbs_jobWake (j : Nat) (r : List H) : waitCbs (.jobWake j :: r) = waitCbs r := rfl
@[simp] theorem waitCbs_gatherCb (j : Nat) (r : List H) : waitCbs (.gatherCb j :: r) = waitCbs r := rfl
@[simp] theorem waitCbs_append (a b : List H) : waitCbs (a ++ b) = waitCbs a ++ waitCbs b := by
  induction a with
  | nil => rfl
  | cons h t ih => cases h <;> simp [ih]
@[simp] theorem waitCbs_map_worker (l : List Nat) : waitCbs (l.map H.worker) = [] := by
  induction l with
  | nil => rfl
  | cons h t ih => simp [ih]

theorem full_iff {γ : Type} (p : Nat) (q : List γ) : full p q = true ↔ p ≠ 0 ∧ p ≤ q.length := by
  simp [full]

theorem filter_unwoken (l : List (Nat × Bool)) (h : ∀ e ∈ l, e.2 = false) : l.filter (fun e => e.2) = [] := by
  rw [List.filter_eq_nil_iff]
  intro e he
  simp [h e he]

/-! ### the worker list -/

theorem stOf_def (s : FSt α) (w : Nat) : stOf s w = stL s.workers w := rfl
theorem stopOf_def (s : FSt α) (w : Nat) : stopOf s w = stopL s.workers w := rfl

theorem stL_lt (l : List Wk) (w : Nat) (h : stL l w ≠ .finished) : w < l.length := by
  unfold stL at h
  cases hg : l[w]? with
  | none => simp [hg] at h
  | some k => exact (List.getElem?_eq_some_iff.mp hg).1

@[simp] theorem stL_modify_st (l : List Wk) (w v : Nat) (x : W) :
    stL (l.modify w (fun k => { k with st := x })) v = if v = w ∧ w < l.length then x else stL l v := by
  unfold stL
  rw [List.getElem?_modify]
  by_cases hvw : v = w
  · subst hvw
    cases hg : l[v]? with
    | none =>
      have : ¬ v < l.length := by
        intro hlt; rw [List.getElem?_eq_getElem hlt] at hg; simp at hg
      simp [hg, this]
    | some k =>
      have : v < l.length := (List.getElem?_eq_some_iff.mp hg).1
      simp [hg, this]
  · have : ¬ w = v := fun h => hvw h.symm
    cases hg : l[v]? <;> simp [hg, hvw, this]

@[simp] theorem stL_modify_stop (l : List Wk) (w v : Nat) :
    stL (l.modify w (fun k => { k with stop := true })) v = stL l v := by
  unfold stL
  rw [List.getElem?_modify]
  cases hg : l[v]? with
  | none => simp [hg]
  | some k => by_cases h : w = v <;> simp [hg, h]

@[simp] theorem stopL_modify_st (l : List Wk) (w v : Nat) (x : W) :
    stopL (l.modify w (fun k => { k with st := x })) v = stopL l v := by
  unfold stopL
  rw [List.getElem?_modify]
  cases hg : l[v]? with
  | none => simp [hg]
  | some k => by_cases h : w = v <;> simp [hg, h]

theorem stL_append_lt (l : List Wk) (k : Wk) (v : Nat) (h : v < l.length) : stL (l ++ [k]) v = stL l v := by
  unfold stL; rw [List.getElem?_append_left h]

theorem stL_append_eq (l : List Wk) (k : Wk) : stL (l ++ [k]) l.length = k.st := by
  unfold stL; simp

theorem stL_ge (l : List Wk) (v : Nat) (h : l.length ≤ v) : stL l v = .finished := by
  unfold stL
  have : l[v]? = none := by simp [h]
  simp [this]

/-! ### `findSome?` over `range` -/

theorem findSome_range_congr {γ : Type} (f g : Nat → Option γ) (n : Nat) (h : ∀ v, v < n → f v = g v) :
    (List.range n).findSome? f = (List.range n).findSome? g := by
  induction n with
  | zero => rfl
  | succ n ih =>
    rw [List.range_succ, List.findSome?_append, List.findSome?_append, ih (fun v hv => h v (by omega))]
    simp [h n (by omega)]

theorem findSome_range_none {γ : Type} (f : Nat → Option γ) (n : Nat) (h : ∀ v, v < n → f v = none) :
    (List.range n).findSome? f = none := by
  rw [List.findSome?_eq_none_iff]
  intro x hx
  exact h x (by simpa using hx)

theorem findSome_range_single {γ : Type} (f : Nat → Option γ) (n w : Nat) (hw : w < n)
    (h : ∀ v, v < n → v ≠ w → f v = none) : (List.range n).findSome? f = f w := by
  induction n with
  | zero => omega
  | succ n ih =>
    rw [List.range_succ, List.findSome?_append]
    by_cases hwn : w = n
    · subst hwn
      rw [findSome_range_none f w (fun v hv => h v (by omega) (by omega))]
      simp
    · rw [ih (by omega) (fun v hv hne => h v (by omega) hne)]
      cases hf : f w with
      | some x => simp
      | none => simp [h n (by omega) (fun e => hwn e.symm)]

def aprojL (l : List Wk) : WP := ((List.range l.length).findSome? (fun w => projA (stL l w))).getD .idle

theorem aproj_def (s : FSt α) : aproj s = aprojL s.workers := rfl

theorem aprojL_congr (l l' : List Wk) (hl : l'.length = l.length)
    (h : ∀ v, v < l.length → projA (stL l' v) = projA (stL l v)) : aprojL l' = aprojL l := by
  unfold aprojL
  rw [hl, findSome_range_congr _ _ _ h]

theorem aprojL_single (l : List Wk) (w : Nat) (hw : w < l.length)
    (h : ∀ v, v < l.length → v ≠ w → projA (stL l v) = none) : aprojL l = (projA (stL l w)).getD .idle := by
  unfold aprojL
  rw [findSome_range_single _ _ w hw h]

theorem aprojL_modify (l : List Wk) (w : Nat) (x : W) (hw : w < l.length)
    (h : ∀ v, v < l.length → v ≠ w → projA (stL l v) = none) :
    aprojL (l.modify w (fun k => { k with st := x })) = (projA x).getD .idle := by
  rw [aprojL_single _ w (by simpa using hw)]
  · simp [hw]
  · intro v hv hne
    simp at hv
    simp [hne, h v hv hne]

theorem aprojL_append (l : List Wk) (k : Wk) (hk : projA k.st = none) : aprojL (l ++ [k]) = aprojL l := by
  unfold aprojL
  simp only [List.length_append, List.length_singleton]
  rw [List.range_succ, List.findSome?_append]
  rw [findSome_range_congr _ (fun w => projA (stL l w)) _ (fun v hv => by rw [stL_append_lt l k v hv])]
  simp [stL_append_eq, hk]

/-! ### the worker invariant: a chain of finished workers, at most one past its predecessor wait, the rest waiting -/

structure WInv (s : FSt α) : Prop where
  /-- a worker that is past its predecessor wait (active or finished) has only finished workers before it -/
  chain : ∀ w, w < s.workers.length → (stL s.workers w).isPre = false → ∀ v, v < w → stL s.workers v = .finished
  /-- `asyncio.wait([previous])` returns only after `previous` has finished -/
  woken : ∀ w, stL s.workers w = .waitPrev true → 1 ≤ w ∧ stL s.workers (w - 1) = .finished
  /-- ... its `_on_completion` callback is queued only by the predecessor's completion -/
  cbs : ∀ w, w ∈ waitCbs s.ready → 1 ≤ w ∧ w < s.workers.length ∧ stL s.workers (w - 1) = .finished

theorem winv_init : WInv (init α) := by
  constructor <;> simp [init, stL]

/-- workers untouched, no new `_on_completion` handle -/
theorem winv_frame (s s' : FSt α) (h : WInv s) (hw : s'.workers = s.workers)
    (hc : ∀ u, u ∈ waitCbs s'.ready → u ∈ waitCbs s.ready) : WInv s' := by
  constructor
  · rw [hw]; exact h.chain
  · rw [hw]; exact h.woken
  · rw [hw]; intro u hu; exact h.cbs u (hc u hu)

/-- worker `w` (not finished) moves to state `x` -/
theorem winv_setSt (s s' : FSt α) (w : Nat) (x : W) (h : WInv s) (hlt : w < s.workers.length)
    (hnf : stL s.workers w ≠ .finished)
    (hpre : x.isPre = false → ∀ v, v < w → stL s.workers v = .finished)
    (hwk : x = .waitPrev true → 1 ≤ w ∧ stL s.workers (w - 1) = .finished)
    (hw : s'.workers = s.workers.modify w (fun k => { k with st := x }))
    (hc : ∀ u, u ∈ waitCbs s'.ready → u ∈ waitCbs s.ready ∨ (x = .finished ∧ u = w + 1 ∧ w + 1 < s.workers.length)) :
    WInv s' := by
  constructor
  · intro w' hw' hp v hv
    rw [hw] at hw' hp ⊢
    simp at hw'
    simp only [stL_modify_st, hlt, and_true] at hp ⊢
    by_cases e : w' = w
    · subst e
      simp at hp
      have hvw : v ≠ w' := by omega
      simp [hvw]
      exact hpre hp v hv
    · simp [e] at hp
      have hall := h.chain w' hw' hp
      by_cases e2 : v = w
      · subst e2
        exact absurd (hall v hv) hnf
      · simp [e2]; exact hall v hv
  · intro w' hw'
    rw [hw] at hw' ⊢
    simp only [stL_modify_st, hlt, and_true] at hw' ⊢
    by_cases e : w' = w
    · subst e
      simp at hw'
      obtain ⟨h1, h2⟩ := hwk hw'
      have : w' - 1 ≠ w' := by omega
      simp [this]
      exact ⟨h1, h2⟩
    · simp [e] at hw'
      obtain ⟨h1, h2⟩ := h.woken w' hw'
      by_cases e2 : w' - 1 = w
      · rw [e2] at h2; exact absurd h2 hnf
      · simp [e2]; exact ⟨h1, h2⟩
  · intro u hu
    rw [hw]
    simp only [stL_modify_st, hlt, and_true]
    rcases hc u hu with hu' | ⟨hx, hu', hlt'⟩
    · obtain ⟨h1, h3, h2⟩ := h.cbs u hu'
      by_cases e2 : u - 1 = w
      · rw [e2] at h2; exact absurd h2 hnf
      · simp [e2]; exact ⟨h1, h3, h2⟩
    · subst hu'
      simp [hx, hlt']

theorem winv_setStop (s s' : FSt α) (w : Nat) (h : WInv s)
    (hw : s'.workers = s.workers.modify w (fun k => { k with stop := true }))
    (hc : ∀ u, u ∈ waitCbs s'.ready → u ∈ waitCbs s.ready) : WInv s' := by
  constructor
  · intro w' hw'
    rw [hw] at hw' ⊢
    simp at hw'
    simpa using h.chain w' hw'
  · rw [hw]; simpa using h.woken
  · rw [hw]; intro u hu; simpa using h.cbs u (hc u hu)

/-- a new worker (first step queued) is appended -/
theorem winv_append (s s' : FSt α) (h : WInv s) (hw : s'.workers = s.workers ++ [({} : Wk)])
    (hc : ∀ u, u ∈ waitCbs s'.ready → u ∈ waitCbs s.ready) : WInv s' := by
  constructor
  · intro w' hw' hp v hv
    rw [hw] at hw' hp ⊢
    simp at hw'
    by_cases e : w' = s.workers.length
    · subst e
      rw [stL_append_eq] at hp
      simp [W.isPre] at hp
    · have hlt : w' < s.workers.length := by omega
      rw [stL_append_lt _ _ _ hlt] at hp
      rw [stL_append_lt _ _ _ (by omega)]
      exact h.chain w' hlt hp v hv
  · intro w' hw'
    rw [hw] at hw' ⊢
    by_cases hlt : w' < s.workers.length
    · rw [stL_append_lt _ _ _ hlt] at hw'
      obtain ⟨h1, h2⟩ := h.woken w' hw'
      exact ⟨h1, by rw [stL_append_lt _ _ _ (by omega)]; exact h2⟩
    · by_cases e : w' = s.workers.length
      · subst e; rw [stL_append_eq] at hw'; cases hw'
      · rw [stL_ge _ _ (by simp; omega)] at hw'; cases hw'
  · intro u hu
    rw [hw]
    obtain ⟨h1, h3, h2⟩ := h.cbs u (hc u hu)
    exact ⟨h1, by simp; omega, by rw [stL_append_lt _ _ _ (by omega)]; exact h2⟩

/-! ### consequences of the chain -/

theorem projA_pre (x : W) (h : x.isPre = true) : projA x = none := by
  cases x <;> simp [W.isPre, projA] at h ⊢

/-- all predecessors finished as soon as the immediate one is -/
theorem preds_of_prev (s : FSt α) (h : WInv s) (w : Nat) (hw : 1 ≤ w) (hlt : w - 1 < s.workers.length)
    (hp : stL s.workers (w - 1) = .finished) : ∀ v, v < w → stL s.workers v = .finished := by
  intro v hv
  by_cases e : v = w - 1
  · rw [e]; exact hp
  · exact h.chain (w - 1) hlt (by rw [hp]; rfl) v (by omega)

/-- while worker `w` is not finished and everything before it is, nobody else holds a task -/
theorem others_none (s : FSt α) (h : WInv s) (w : Nat) (hnf : stL s.workers w ≠ .finished)
    (hp : ∀ v, v < w → stL s.workers v = .finished) :
    ∀ v, v < s.workers.length → v ≠ w → projA (stL s.workers v) = none := by
  intro v hv hne
  by_cases hvw : v < w
  · rw [hp v hvw]; rfl
  · by_cases hpre : (stL s.workers v).isPre = true
    · exact projA_pre _ hpre
    · have := h.chain v hv (by simpa using hpre) w (by omega)
      exact absurd this hnf

/-! ### field lemmas of the building blocks -/

theorem wakeGetter_facts (s : FSt α) (l : List Nat) :
    (wakeGetter s l).started = s.started ∧ (wakeGetter s l).ins = s.ins ∧ (wakeGetter s l).holder = s.holder ∧
    (wakeGetter s l).lockq = s.lockq ∧ (wakeGetter s l).queue = s.queue ∧ (wakeGetter s l).outs = s.outs ∧
    (wakeGetter s l).jobs = s.jobs ∧ (wakeGetter s l).workTask = s.workTask ∧
    fresh (wakeGetter s l).ready = fresh s.ready ∧ wakes (wakeGetter s l).ready = wakes s.ready ∧
    polls (wakeGetter s l).ready = polls s.ready ∧ waitCbs (wakeGetter s l).ready = waitCbs s.ready ∧
    (wakeGetter s l).workers.length = s.workers.length ∧
    (∀ v, projA (stL (wakeGetter s l).workers v) = projA (stL s.workers v)) ∧
    (WInv s → WInv (wakeGetter s l)) := by
  induction l with
  | nil => simp [wakeGetter]; intro h; exact winv_frame s _ h rfl (fun u hu => hu)
  | cons g rest ih =>
    unfold wakeGetter
    by_cases hg : stOf s g = .getting true
    · simp only [hg, if_true]
      rw [stOf_def] at hg
      have hlt : g < s.workers.length := stL_lt _ _ (by rw [hg]; intro h; cases h)
      refine ⟨rfl, rfl, rfl, rfl, rfl, rfl, rfl, rfl, by simp [setSt], by simp [setSt], by simp [setSt], by simp [setSt],
        by simp [setSt], ?_, ?_⟩
      · intro v
        simp only [setSt, stL_modify_st, hlt, and_true]
        by_cases e : v = g
        · subst e; simp [hg, projA]
        · simp [e]
      · intro h
        apply winv_setSt s _ g (.getting false) h hlt (by rw [hg]; intro h; cases h)
        · intro _; exact h.chain g hlt (by rw [hg]; rfl)
        · intro hx; cases hx
        · rfl
        · intro u hu; left; simpa [setSt] using hu
    · simp only [hg, if_false]; exact ih

theorem insertNow_facts (s : FSt α) (j : Nat) :
    (insertNow s j).started = s.started ++ [j] ∧ (insertNow s j).ins = s.ins ∧ (insertNow s j).holder = s.holder ∧
    (insertNow s j).lockq = s.lockq ∧ (insertNow s j).queue = s.queue ++ [j] ∧ (insertNow s j).outs = s.outs ∧
    fresh (insertNow s j).ready = fresh s.ready ∧ wakes (insertNow s j).ready = wakes s.ready ∧
    polls (insertNow s j).ready = polls s.ready ∧ waitCbs (insertNow s j).ready = waitCbs s.ready ∧
    aproj (insertNow s j) = aproj s ∧ (WInv s → WInv (insertNow s j)) := by
  unfold insertNow
  obtain ⟨h1, h2, h3, h4, h5, h6, _, _, h9, h10, h11, h12, h13, h14, h15⟩ :=
    wakeGetter_facts { s with started := s.started ++ [j], jobs := s.jobs ++ [(j, JSt.created)], queue := s.queue ++ [j],
                              ready := s.ready ++ [H.jobFirst j] } s.getters
  refine ⟨h1, h2, h3, h4, h5, h6, by simpa using h9, by simpa using h10, by simpa using h11, by simpa using h12, ?_, ?_⟩
  · rw [aproj_def, aproj_def]
    exact aprojL_congr _ _ h13 (fun v _ => h14 v)
  · intro h
    exact h15 (winv_frame s _ h rfl (fun u hu => by simpa using hu))

@[simp] theorem insertNow_started (s : FSt α) (j : Nat) : (insertNow s j).started = s.started ++ [j] := (insertNow_facts s j).1
@[simp] theorem insertNow_ins (s : FSt α) (j : Nat) : (insertNow s j).ins = s.ins := (insertNow_facts s j).2.1
@[simp] theorem insertNow_holder (s : FSt α) (j : Nat) : (insertNow s j).holder = s.holder := (insertNow_facts s j).2.2.1
@[simp] theorem insertNow_lockq (s : FSt α) (j : Nat) : (insertNow s j).lockq = s.lockq := (insertNow_facts s j).2.2.2.1
@[simp] theorem insertNow_queue (s : FSt α) (j : Nat) : (insertNow s j).queue = s.queue ++ [j] := (insertNow_facts s j).2.2.2.2.1
@[simp] theorem insertNow_outs (s : FSt α) (j : Nat) : (insertNow s j).outs = s.outs := (insertNow_facts s j).2.2.2.2.2.1
@[simp] theorem insertNow_fresh (s : FSt α) (j : Nat) : fresh (insertNow s j).ready = fresh s.ready := (insertNow_facts s j).2.2.2.2.2.2.1
@[simp] theorem insertNow_wakes (s : FSt α) (j : Nat) : wakes (insertNow s j).ready = wakes s.ready := (insertNow_facts s j).2.2.2.2.2.2.2.1
@[simp] theorem insertNow_polls (s : FSt α) (j : Nat) : polls (insertNow s j).ready = polls s.ready := (insertNow_facts s j).2.2.2.2.2.2.2.2.1
@[simp] theorem insertNow_waitCbs (s : FSt α) (j : Nat) : waitCbs (insertNow s j).ready = waitCbs s.ready := (insertNow_facts s j).2.2.2.2.2.2.2.2.2.1
@[simp] theorem insertNow_aproj (s : FSt α) (j : Nat) : aproj (insertNow s j) = aproj s := (insertNow_facts s j).2.2.2.2.2.2.2.2.2.2.1
theorem insertNow_winv (s : FSt α) (j : Nat) (h : WInv s) : WInv (insertNow s j) := (insertNow_facts s j).2.2.2.2.2.2.2.2.2.2.2 h

theorem releaseLock_cases (s : FSt α) (h : ∀ e ∈ s.lockq, e.2 = false) :
    (s.lockq = [] ∧ releaseLock s = { s with holder := none }) ∨
    (∃ k rest, s.lockq = (k, false) :: rest ∧
      releaseLock s = { s with holder := none, lockq := (k, true) :: rest, ready := s.ready ++ [.insWake k] }) := by
  unfold releaseLock
  cases hq : s.lockq with
  | nil => left; simp
  | cons e rest =>
    obtain ⟨k, b⟩ := e
    have hb : b = false := by have := h (k, b) (by simp [hq]); simpa using this
    subst hb
    right; exact ⟨k, rest, rfl, by simp⟩

theorem releaseLock_view (t : FSt α) : (releaseLock t).started = t.started ∧ (releaseLock t).ins = t.ins ∧
    (releaseLock t).queue = t.queue ∧ (releaseLock t).workers = t.workers ∧ (releaseLock t).outs = t.outs ∧
    waitCbs (releaseLock t).ready = waitCbs t.ready := by
  unfold releaseLock; split <;> simp

/-! ### the lock invariant (insert path) -/

structure LInv (c : Cfg) (s : FSt α) : Prop where
  /-- started jobs, then the lock holder, the lock's waiters, the insert jobs that have not run yet: arrival order -/
  order : s.started ++ s.holder.toList ++ s.lockq.map Prod.fst ++ fresh s.ready = List.range s.ins.length
  idx : s.ins.map Prod.fst = List.range s.ins.length
  bound : c.p ≠ 0 → s.queue.length ≤ c.p
  /-- queued `insWake` handles = resolved futures in `_waiters` -/
  wk : wakes s.ready = (s.lockq.filter (fun e => e.2)).map Prod.fst
  /-- only the first waiter is ever woken -/
  tailUnwoken : ∀ e ∈ s.lockq.tail, e.2 = false
  /-- ... and nobody while the lock is held -/
  heldUnwoken : s.holder ≠ none → ∀ e ∈ s.lockq, e.2 = false
  /-- the only poller is the holder, its handle is queued exactly once -/
  pl : polls s.ready = s.holder.toList
  /-- no lost wake-up on the lock: a free lock with waiters has woken the first of them -/
  freeWoken : s.holder = none → s.lockq ≠ [] → ∃ k rest, s.lockq = (k, true) :: rest

theorem linv_init (c : Cfg) : LInv c (init α) := by
  constructor <;> simp [init]

/-- what a transition that is not an insert step may do as far as the insert path is concerned -/
structure LFrame (s s' : FSt α) : Prop where
  started : s'.started = s.started
  holder : s'.holder = s.holder
  lockq : s'.lockq = s.lockq
  ins : s'.ins = s.ins
  fresh : fresh s'.ready = fresh s.ready
  wakes : wakes s'.ready = wakes s.ready
  polls : polls s'.ready = polls s.ready
  queue : s'.queue = s.queue ∨ ∃ j, s.queue = j :: s'.queue

theorem linv_frame (c : Cfg) (s s' : FSt α) (h : LInv c s) (f : LFrame s s') : LInv c s' := by
  constructor
  · rw [f.started, f.holder, f.lockq, f.ins, f.fresh]; exact h.order
  · rw [f.ins]; exact h.idx
  · intro hp
    have := h.bound hp
    rcases f.queue with hq | ⟨j, hq⟩
    · rw [hq]; exact this
    · rw [hq] at this; simp at this; omega
  · rw [f.wakes, f.lockq]; exact h.wk
  · rw [f.lockq]; exact h.tailUnwoken
  · rw [f.holder, f.lockq]; exact h.heldUnwoken
  · rw [f.polls, f.holder]; exact h.pl
  · rw [f.holder, f.lockq]; exact h.freeWoken

theorem lframe_trans (s s' s'' : FSt α) (f : LFrame s s') (g : LFrame s' s'') (hq : s'.queue = s.queue) : LFrame s s'' := by
  constructor
  · rw [g.started, f.started]
  · rw [g.holder, f.holder]
  · rw [g.lockq, f.lockq]
  · rw [g.ins, f.ins]
  · rw [g.fresh, f.fresh]
  · rw [g.wakes, f.wakes]
  · rw [g.polls, f.polls]
  · rw [← hq]; exact g.queue

theorem linv_slotWait (c : Cfg) (hv : c.variant = .locked) (s : FSt α) (j : Nat)
    (order : s.started ++ [j] ++ s.lockq.map Prod.fst ++ fresh s.ready = List.range s.ins.length)
    (idx : s.ins.map Prod.fst = List.range s.ins.length)
    (bound : c.p ≠ 0 → s.queue.length ≤ c.p)
    (nowake : wakes s.ready = [])
    (unwoken : ∀ e ∈ s.lockq, e.2 = false)
    (nopoll : polls s.ready = []) : LInv c (slotWait c s j) := by
  unfold slotWait
  by_cases hf : full c.p s.queue = true
  · simp only [hf, if_true, hv]
    constructor
    · simpa using order
    · simpa using idx
    · simpa using bound
    · simp [nowake, filter_unwoken _ unwoken]
    · intro e he; exact unwoken e (List.mem_of_mem_tail he)
    · intro _; simpa using unwoken
    · simp [nopoll]
    · simp
  · simp only [hf, hv]
    have hnf : c.p = 0 ∨ s.queue.length < c.p := by
      rw [full_iff] at hf; omega
    have hu' : ∀ e ∈ (insertNow s j).lockq, e.2 = false := by simpa using unwoken
    rcases releaseLock_cases (insertNow s j) hu' with ⟨hq, hr⟩ | ⟨k, rest, hq, hr⟩
    · simp only [Bool.false_eq_true, if_false, hr, finishInsert]
      simp at hq
      constructor
      · simpa [hq] using order
      · simpa using idx
      · intro hp; have := bound hp; simp; omega
      · simp [nowake, hq]
      · simp [hq]
      · simp
      · simp [nopoll]
      · simp [hq]
    · simp only [Bool.false_eq_true, if_false, hr, finishInsert]
      simp at hq
      have hrest : ∀ e ∈ rest, e.2 = false := fun e he => unwoken e (by simp [hq, he])
      constructor
      · simpa [hq] using order
      · simpa using idx
      · intro hp; have := bound hp; simp; omega
      · simp [nowake, filter_unwoken _ hrest]
      · simpa using hrest
      · simp
      · simp [nopoll]
      · intro _ _; exact ⟨k, rest, rfl⟩

/-! ### the effect of a step on the abstract view (arrivals, work queue, what the consumer side is doing, emissions,
started jobs) -/

/-- effect of `loopTop` / `getNext` (on queue `q`, emissions `o`) -/
def GN (q o : List Nat) (s' : FSt α) : Prop :=
  (s'.queue = q ∧ aproj s' = .idle ∧ s'.outs = o) ∨
  (∃ j rest, q = j :: rest ∧ s'.queue = rest ∧
    ((aproj s' = .awaiting j ∧ s'.outs = o) ∨ (aproj s' = .emitting j ∧ s'.outs = o ++ [j])))

inductive Eff (p : Nat) (s s' : FSt α) : Prop where
  | arrive (x : α) : s'.ins = s.ins ++ [(s.ins.length, x)] → s'.queue = s.queue → aproj s' = aproj s →
      s'.outs = s.outs → s'.started = s.started → Eff p s s'
  | silent : s'.ins = s.ins → s'.queue = s.queue → aproj s' = aproj s →
      s'.outs = s.outs → s'.started = s.started → Eff p s s'
  | admission (j : Nat) : s'.ins = s.ins → s'.queue = s.queue ++ [j] → aproj s' = aproj s →
      s'.outs = s.outs → s'.started = s.started ++ [j] → full p s.queue = false → Eff p s s'
  | get : s'.ins = s.ins → s'.started = s.started → aproj s = .idle → GN s.queue s.outs s' → Eff p s s'
  | emit (j : Nat) : s'.ins = s.ins → s'.started = s.started → aproj s = .awaiting j → s'.queue = s.queue →
      aproj s' = .emitting j → s'.outs = s.outs ++ [j] → Eff p s s'
  | release (j : Nat) : s'.ins = s.ins → s'.started = s.started → aproj s = .emitting j →
      GN s.queue s.outs s' → Eff p s s'

/-- a step that touches neither the workers nor the data -/
theorem eff_silent_of_workers (p : Nat) (s s' : FSt α) (h1 : s'.ins = s.ins) (h2 : s'.queue = s.queue)
    (hw : s'.workers = s.workers) (h4 : s'.outs = s.outs) (h5 : s'.started = s.started) : Eff p s s' :=
  Eff.silent h1 h2 (by rw [aproj_def, aproj_def, hw]) h4 h5

/-! ### one step of a worker -/

theorem lframe_setSt (s : FSt α) (w : Nat) (x : W) : LFrame s (setSt s w x) := by
  constructor <;> simp [setSt]

theorem getNext_facts (p : Nat) (s : FSt α) (w : Nat) (hW : WInv s) (hlt : w < s.workers.length)
    (hnf : stL s.workers w ≠ .finished) (hp : ∀ v, v < w → stL s.workers v = .finished) :
    LFrame s (getNext s w) ∧ WInv (getNext s w) ∧ GN s.queue s.outs (getNext s w) := by
  have hoth := others_none s hW w hnf hp
  unfold getNext
  cases hq : s.queue with
  | nil =>
    simp only
    refine ⟨by constructor <;> simp [setSt], ?_, ?_⟩
    · exact winv_setSt s _ w (.getting true) hW hlt hnf (fun _ => hp) (by intro h; cases h) rfl
        (fun u hu => Or.inl (by simpa [setSt] using hu))
    · left
      refine ⟨by simp [setSt, hq], ?_, by simp [setSt]⟩
      rw [aproj_def]; simp only [setSt]
      rw [aprojL_modify _ w _ hlt hoth]; rfl
  | cons j rest =>
    simp only
    split
    · refine ⟨by constructor <;> simp [emitNow, setSt, hq], ?_, ?_⟩
      · exact winv_setSt s _ w (.emitting j true) hW hlt hnf (fun _ => hp) (by intro h; cases h) rfl
          (fun u hu => Or.inl (by simpa [emitNow, setSt] using hu))
      · right
        refine ⟨j, rest, rfl, by simp [emitNow, setSt], Or.inr ⟨?_, by simp [emitNow, setSt]⟩⟩
        rw [aproj_def]; simp only [emitNow, setSt]
        rw [aprojL_modify _ w _ hlt hoth]; rfl
    · refine ⟨by constructor <;> simp [setSt, hq], ?_, ?_⟩
      · exact winv_setSt s _ w (.awaiting j) hW hlt hnf (fun _ => hp) (by intro h; cases h) rfl
          (fun u hu => Or.inl (by simpa [setSt] using hu))
      · right
        refine ⟨j, rest, rfl, by simp [setSt], Or.inl ⟨?_, by simp [setSt]⟩⟩
        rw [aproj_def]; simp only [setSt]
        rw [aprojL_modify _ w _ hlt hoth]; rfl

theorem finishWorker_facts (s : FSt α) (w : Nat) (hW : WInv s) (hlt : w < s.workers.length)
    (hnf : stL s.workers w ≠ .finished) (hp : ∀ v, v < w → stL s.workers v = .finished) :
    LFrame s (finishWorker s w) ∧ WInv (finishWorker s w) ∧ GN s.queue s.outs (finishWorker s w) := by
  have hoth := others_none s hW w hnf hp
  have hap : aprojL (s.workers.modify w (fun k => { k with st := W.finished })) = .idle := by
    rw [aprojL_modify _ w _ hlt hoth]; rfl
  unfold finishWorker
  simp only
  split
  · rename_i hsucc
    rw [stOf_def] at hsucc
    have hlt' : w + 1 < s.workers.length := stL_lt _ _ (by rw [hsucc]; intro h; cases h)
    refine ⟨by constructor <;> simp [setSt], ?_, ?_⟩
    · apply winv_setSt s _ w .finished hW hlt hnf (fun _ => hp) (by intro h; cases h) rfl
      intro u hu
      simp [setSt] at hu
      rcases hu with hu | hu
      · exact Or.inl hu
      · exact Or.inr ⟨rfl, hu, hlt'⟩
    · left; exact ⟨by simp [setSt], by rw [aproj_def]; simpa [setSt] using hap, by simp [setSt]⟩
  · refine ⟨lframe_setSt s w _, ?_, ?_⟩
    · exact winv_setSt s _ w .finished hW hlt hnf (fun _ => hp) (by intro h; cases h) rfl
        (fun u hu => Or.inl (by simpa [setSt] using hu))
    · left; exact ⟨by simp [setSt], by rw [aproj_def]; simpa [setSt] using hap, by simp [setSt]⟩

theorem loopTop_facts (p : Nat) (s : FSt α) (w : Nat) (hW : WInv s) (hlt : w < s.workers.length)
    (hnf : stL s.workers w ≠ .finished) (hp : ∀ v, v < w → stL s.workers v = .finished) :
    LFrame s (loopTop s w) ∧ WInv (loopTop s w) ∧ GN s.queue s.outs (loopTop s w) := by
  unfold loopTop
  split
  · exact finishWorker_facts s w hW hlt hnf hp
  · exact getNext_facts p s w hW hlt hnf hp

theorem eff_of_ready (p : Nat) (s s' : FSt α) (r : List H) (h : Eff p { s with ready := r } s') : Eff p s s' := by
  cases h with
  | arrive x h1 h2 h3 h4 h5 => exact Eff.arrive x h1 h2 h3 h4 h5
  | silent h1 h2 h3 h4 h5 => exact Eff.silent h1 h2 h3 h4 h5
  | admission j h1 h2 h3 h4 h5 h6 => exact Eff.admission j h1 h2 h3 h4 h5 h6
  | get h1 h2 h3 h4 => exact Eff.get h1 h2 h3 h4
  | emit j h1 h2 h3 h4 h5 h6 => exact Eff.emit j h1 h2 h3 h4 h5 h6
  | release j h1 h2 h3 h4 => exact Eff.release j h1 h2 h3 h4

theorem runWorker_facts (c : Cfg) (hl : c.life = .current) (s s' : FSt α) (w : Nat) (hW : WInv s)
    (hr : runWorker c s w = some s') : LFrame s s' ∧ WInv s' ∧ Eff c.p s s' := by
  unfold runWorker at hr
  cases hg : s.workers[w]? with
  | none => simp [hg] at hr
  | some k =>
    have hlt : w < s.workers.length := (List.getElem?_eq_some_iff.mp hg).1
    have hst : stL s.workers w = k.st := by simp [stL, hg]
    simp only [hg] at hr
    cases hk : k.st with
    | starting =>
      rw [hk] at hst
      have hnf : stL s.workers w ≠ .finished := by rw [hst]; intro h; cases h
      simp only [hk] at hr
      by_cases hwait : c.life = .current ∧ w ≠ 0 ∧ stOf s (w - 1) ≠ .finished
      · rw [if_pos hwait] at hr
        simp only [Option.some.injEq] at hr
        subst hr
        refine ⟨lframe_setSt s w _, ?_, ?_⟩
        · exact winv_setSt s _ w (.waitPrev false) hW hlt hnf (by intro h; cases h) (by intro h; cases h) rfl
            (fun u hu => Or.inl (by simpa [setSt] using hu))
        · refine Eff.silent (by simp [setSt]) (by simp [setSt]) ?_ (by simp [setSt]) (by simp [setSt])
          rw [aproj_def, aproj_def]
          apply aprojL_congr _ _ (by simp [setSt])
          intro v _
          simp only [setSt, stL_modify_st, hlt, and_true]
          by_cases e : v = w
          · subst e; simp [hst, projA]
          · simp [e]
      · rw [if_neg hwait] at hr
        simp only [Option.some.injEq] at hr
        subst hr
        have hp : ∀ v, v < w → stL s.workers v = .finished := by
          by_cases h0 : w = 0
          · intro v hv; omega
          · have hfin : stL s.workers (w - 1) = .finished := by
              have : ¬ (stOf s (w - 1) ≠ .finished) := fun hne => hwait ⟨hl, h0, hne⟩
              simpa [stOf_def] using this
            exact preds_of_prev s hW w (by omega) (by omega) hfin
        obtain ⟨f1, f2, f3⟩ := loopTop_facts c.p s w hW hlt hnf hp
        refine ⟨f1, f2, Eff.get f1.ins f1.started ?_ f3⟩
        rw [aproj_def, aprojL_single _ w hlt (others_none s hW w hnf hp), hst]; rfl
    | waitPrev b =>
      rw [hk] at hst
      have hnf : stL s.workers w ≠ .finished := by rw [hst]; intro h; cases h
      cases b with
      | false => simp [hk] at hr
      | true =>
        simp only [hk, Option.some.injEq] at hr
        subst hr
        obtain ⟨hw1, hfin⟩ := hW.woken w hst
        have hp := preds_of_prev s hW w hw1 (by omega) hfin
        obtain ⟨f1, f2, f3⟩ := loopTop_facts c.p s w hW hlt hnf hp
        refine ⟨f1, f2, Eff.get f1.ins f1.started ?_ f3⟩
        rw [aproj_def, aprojL_single _ w hlt (others_none s hW w hnf hp), hst]; rfl
    | getting b =>
      rw [hk] at hst
      have hnf : stL s.workers w ≠ .finished := by rw [hst]; intro h; cases h
      simp only [hk, Option.some.injEq] at hr
      subst hr
      have hp := hW.chain w hlt (by rw [hst]; rfl)
      obtain ⟨f1, f2, f3⟩ := getNext_facts c.p s w hW hlt hnf hp
      refine ⟨f1, f2, Eff.get f1.ins f1.started ?_ f3⟩
      rw [aproj_def, aprojL_single _ w hlt (others_none s hW w hnf hp), hst]; rfl
    | awaiting j =>
      rw [hk] at hst
      have hnf : stL s.workers w ≠ .finished := by rw [hst]; intro h; cases h
      simp only [hk, Option.some.injEq] at hr
      subst hr
      have hp := hW.chain w hlt (by rw [hst]; rfl)
      have hoth := others_none s hW w hnf hp
      refine ⟨by constructor <;> simp [emitNow, setSt], ?_, ?_⟩
      · exact winv_setSt s _ w (.emitting j true) hW hlt hnf (fun _ => hp) (by intro h; cases h) rfl
          (fun u hu => Or.inl (by simpa [emitNow, setSt] using hu))
      · refine Eff.emit j rfl rfl ?_ rfl ?_ (by simp [emitNow, setSt])
        · rw [aproj_def, aprojL_single _ w hlt hoth, hst]; rfl
        · rw [aproj_def]; simp only [emitNow, setSt]
          rw [aprojL_modify _ w _ hlt hoth]; rfl
    | emitting j b =>
      rw [hk] at hst
      have hnf : stL s.workers w ≠ .finished := by rw [hst]; intro h; cases h
      simp only [hk, Option.some.injEq] at hr
      subst hr
      have hp := hW.chain w hlt (by rw [hst]; rfl)
      have hW1 : WInv ({ s with fin := s.fin ++ [j] } : FSt α) := winv_frame s _ hW rfl (fun u hu => hu)
      obtain ⟨f1, f2, f3⟩ := loopTop_facts c.p ({ s with fin := s.fin ++ [j] } : FSt α) w hW1 hlt hnf hp
      refine ⟨⟨f1.started, f1.holder, f1.lockq, f1.ins, f1.fresh, f1.wakes, f1.polls, f1.queue⟩, f2,
        Eff.release j f1.ins f1.started ?_ f3⟩
      rw [aproj_def, aprojL_single _ w hlt (others_none s hW w hnf hp), hst]; rfl
    | finished => simp [hk] at hr

/-! ### insert steps, worker creation, the whole step -/

theorem slotWait_view (c : Cfg) (hv : c.variant = .locked) (s : FSt α) (j : Nat) (hW : WInv s) :
    WInv (slotWait c s j) ∧ (slotWait c s j).ins = s.ins ∧ aproj (slotWait c s j) = aproj s ∧
    (slotWait c s j).outs = s.outs ∧
    (((slotWait c s j).queue = s.queue ∧ (slotWait c s j).started = s.started) ∨
     ((slotWait c s j).queue = s.queue ++ [j] ∧ (slotWait c s j).started = s.started ++ [j] ∧
        full c.p s.queue = false)) := by
  unfold slotWait
  by_cases hf : full c.p s.queue = true
  · rw [if_pos hf]
    exact ⟨winv_frame s _ hW rfl (fun u hu => by simpa using hu), rfl, rfl, rfl, Or.inl ⟨rfl, rfl⟩⟩
  · have hv' := releaseLock_view (insertNow s j)
    simp only [hv, hf, Bool.false_eq_true, if_false, finishInsert]
    refine ⟨?_, by simp [hv'.2.1], ?_, by simp [hv'.2.2.2.2.1], Or.inr ⟨by simp [hv'.2.2.1], by simp [hv'.1], by simpa using hf⟩⟩
    · apply winv_frame (insertNow s j) _ (insertNow_winv s j hW) (by simp [hv'.2.2.2.1])
      intro u hu
      simpa [hv'.2.2.2.2.2] using hu
    · rw [aproj_def]
      simp only [hv'.2.2.2.1]
      rw [← aproj_def, insertNow_aproj]

theorem eff_of_slotWait (c : Cfg) (hv : c.variant = .locked) (s0 t : FSt α) (j : Nat) (hW : WInv t)
    (t1 : t.ins = s0.ins) (t2 : t.queue = s0.queue) (t3 : t.workers = s0.workers) (t4 : t.outs = s0.outs)
    (t5 : t.started = s0.started) : WInv (slotWait c t j) ∧ Eff c.p s0 (slotWait c t j) := by
  obtain ⟨h0, h1, h2, h3, h4⟩ := slotWait_view c hv t j hW
  have ha : aproj t = aproj s0 := by rw [aproj_def, aproj_def, t3]
  refine ⟨h0, ?_⟩
  rcases h4 with ⟨h4, h5⟩ | ⟨h4, h5, h6⟩
  · exact Eff.silent (by rw [h1, t1]) (by rw [h4, t2]) (by rw [h2, ha]) (by rw [h3, t4]) (by rw [h5, t5])
  · exact Eff.admission j (by rw [h1, t1]) (by rw [h4, t2]) (by rw [h2, ha]) (by rw [h3, t4]) (by rw [h5, t5])
      (by rw [← t2]; exact h6)

theorem createWorker_facts (p : Nat) (s : FSt α) (hW : WInv s) :
    LFrame s (createWorker s) ∧ WInv (createWorker s) ∧ aproj (createWorker s) = aproj s ∧
    (createWorker s).outs = s.outs := by
  refine ⟨by constructor <;> simp [createWorker], ?_, ?_, rfl⟩
  · exact winv_append s _ hW rfl (fun u hu => by simpa [createWorker] using hu)
  · rw [aproj_def, aproj_def]
    exact aprojL_append s.workers {} rfl

theorem firstBusy_spec (s : FSt α) (w j : Nat) (h : firstBusy s = some (w, j)) :
    w < s.workers.length ∧ stL s.workers w = .emitting j true := by
  unfold firstBusy at h
  obtain ⟨v, hv, hf⟩ := List.exists_of_findSome?_eq_some h
  simp at hv
  rw [stOf_def] at hf
  split at hf
  · rename_i j' hst
    simp at hf
    obtain ⟨e1, e2⟩ := hf
    subst e1; subst e2
    exact ⟨hv, hst⟩
  · simp at hf

theorem step_facts (c : Cfg) (hv : c.variant = .locked) (hl : c.life = .current) (s s' : FSt α) (a : FAct α)
    (hL : LInv c s) (hW : WInv s) (hs : step c s a = some s') : LInv c s' ∧ WInv s' ∧ Eff c.p s s' := by
  cases a with
  | arrive x =>
    simp only [step, Option.some.injEq] at hs
    subst hs
    have key : ∀ s1 : FSt α, LInv c s1 → WInv s1 → aproj s1 = aproj s → s1.ins = s.ins → s1.queue = s.queue →
        s1.outs = s.outs → s1.started = s.started →
        (LInv c { s1 with ins := s1.ins ++ [(s1.ins.length, x)], ready := s1.ready ++ [H.insFirst s1.ins.length] } ∧
         WInv { s1 with ins := s1.ins ++ [(s1.ins.length, x)], ready := s1.ready ++ [H.insFirst s1.ins.length] } ∧
         Eff c.p s { s1 with ins := s1.ins ++ [(s1.ins.length, x)], ready := s1.ready ++ [H.insFirst s1.ins.length] }) := by
      intro s1 h1 w1 e1 e2 e3 e4 e5
      refine ⟨?_, winv_frame s1 _ w1 rfl (fun u hu => by simpa using hu), ?_⟩
      · constructor
        · simp [List.range_succ, ← h1.order]
        · simp [List.range_succ, h1.idx]
        · simpa using h1.bound
        · simpa using h1.wk
        · simpa using h1.tailUnwoken
        · simpa using h1.heldUnwoken
        · simpa using h1.pl
        · simpa using h1.freeWoken
      · exact Eff.arrive x (by simp [e2]) e3 (by rw [← e1]; rfl) e4 e5
    cases hw : s.workTask with
    | none =>
      obtain ⟨f1, f2, f3, f4⟩ := createWorker_facts c.p s hW
      simp only
      exact key _ (linv_frame c s _ hL f1) f2 f3 f1.ins rfl f4 f1.started
    | some w0 => simp only; exact key s hL hW rfl rfl rfl rfl rfl
  | tick =>
    simp only [step] at hs
    cases hr : s.ready with
    | nil => simp [hr] at hs
    | cons hd rest =>
      rw [hr] at hs
      simp only at hs
      have horder := hL.order
      have hwk := hL.wk
      have hpl := hL.pl
      rw [hr] at horder hwk hpl
      -- removing a handle that is neither an insert step nor an `_on_completion` callback
      have pop : fresh rest = fresh s.ready → wakes rest = wakes s.ready → polls rest = polls s.ready →
          waitCbs rest = waitCbs s.ready →
          LInv c { s with ready := rest } ∧ WInv { s with ready := rest } := by
        intro e1 e2 e3 e4
        exact ⟨linv_frame c s _ hL ⟨rfl, rfl, rfl, rfl, e1, e2, e3, Or.inl rfl⟩,
          winv_frame s _ hW rfl (fun u hu => by rw [← e4]; exact hu)⟩
      have hW0 : WInv { s with ready := rest } := by
        refine winv_frame s _ hW rfl ?_
        intro u hu
        rw [hr]
        cases hd <;> simp [hu]
      cases hd with
      | insFirst j =>
        simp only [runH, hv, Option.some.injEq] at hs
        subst hs
        simp at horder hwk hpl
        unfold tryLock
        by_cases hfree : s.holder = none ∧ s.lockq = []
        · rw [if_pos hfree]
          obtain ⟨w1, e1⟩ := eff_of_slotWait c hv s { s with ready := rest } j hW0 rfl rfl rfl rfl rfl
          refine ⟨?_, w1, e1⟩
          apply linv_slotWait c hv
          · simpa [hfree.1, hfree.2] using horder
          · simpa using hL.idx
          · simpa using hL.bound
          · simpa [hfree.2] using hwk
          · simp [hfree.2]
          · simpa [hfree.1] using hpl
        · rw [if_neg hfree]
          refine ⟨?_, winv_frame _ _ hW0 rfl (fun u hu => hu), eff_silent_of_workers c.p s _ rfl rfl rfl rfl rfl⟩
          constructor
          · simpa using horder
          · simpa using hL.idx
          · simpa using hL.bound
          · simpa [List.filter_append] using hwk
          · intro e he
            cases hq : s.lockq with
            | nil => simp [hq] at he
            | cons a t =>
              simp [hq] at he
              rcases he with he | he
              · exact hL.tailUnwoken e (by simp [hq, he])
              · simp [he]
          · intro hh e he
            simp at he
            rcases he with he | he
            · exact hL.heldUnwoken hh e he
            · simp [he]
          · simpa using hpl
          · intro hh _
            have hne : s.lockq ≠ [] := fun hq => hfree ⟨hh, hq⟩
            obtain ⟨k, r, hq⟩ := hL.freeWoken hh hne
            exact ⟨k, r ++ [(j, false)], by simp [hq]⟩
      | insWake j =>
        simp only [runH, Option.some.injEq] at hs
        subst hs
        simp at horder hwk hpl
        have hh : s.holder = none := by
          cases hho : s.holder with
          | none => rfl
          | some x =>
            have := filter_unwoken _ (hL.heldUnwoken (by simp [hho]))
            rw [this] at hwk; simp at hwk
        have hne : s.lockq ≠ [] := by
          intro hq; rw [hq] at hwk; simp at hwk
        obtain ⟨k, r, hq⟩ := hL.freeWoken hh hne
        have hr' : ∀ e ∈ r, e.2 = false := fun e he => hL.tailUnwoken e (by simp [hq, he])
        rw [hq] at hwk
        simp [filter_unwoken _ hr'] at hwk
        obtain ⟨hjk, hw0⟩ := hwk
        subst hjk
        obtain ⟨w1, e1⟩ := eff_of_slotWait c hv s
          { s with ready := rest, lockq := s.lockq.eraseP (fun e => e.1 == j) } j
          (winv_frame _ _ hW0 rfl (fun u hu => hu)) rfl rfl rfl rfl rfl
        refine ⟨?_, w1, e1⟩
        apply linv_slotWait c hv
        · simpa [hh, hq] using horder
        · simpa using hL.idx
        · simpa using hL.bound
        · simpa using hw0
        · simpa [hq] using hr'
        · simpa [hh] using hpl
      | insPoll j =>
        simp only [runH, Option.some.injEq] at hs
        subst hs
        simp at horder hwk hpl
        have hh : s.holder = some j ∧ polls rest = [] := by
          cases hho : s.holder with
          | none => rw [hho] at hpl; simp at hpl
          | some x => rw [hho] at hpl; simp at hpl; simp [hpl.1, hpl.2]
        have hu := hL.heldUnwoken (by simp [hh.1])
        obtain ⟨w1, e1⟩ := eff_of_slotWait c hv s { s with ready := rest } j hW0 rfl rfl rfl rfl rfl
        refine ⟨?_, w1, e1⟩
        apply linv_slotWait c hv
        · simpa [hh.1] using horder
        · simpa using hL.idx
        · simpa using hL.bound
        · simpa [filter_unwoken _ hu] using hwk
        · simpa using hu
        · simpa using hh.2
      | ack j =>
        simp only [runH, Option.some.injEq] at hs
        subst hs
        obtain ⟨l0, _⟩ := pop (by simp [hr]) (by simp [hr]) (by simp [hr]) (by simp [hr])
        exact ⟨linv_frame c _ _ l0 ⟨rfl, rfl, rfl, rfl, rfl, rfl, rfl, Or.inl rfl⟩,
          winv_frame _ _ hW0 rfl (fun u hu => hu), eff_silent_of_workers c.p s _ rfl rfl rfl rfl rfl⟩
      | worker w =>
        simp only [runH] at hs
        obtain ⟨l0, _⟩ := pop (by simp [hr]) (by simp [hr]) (by simp [hr]) (by simp [hr])
        obtain ⟨f1, f2, f3⟩ := runWorker_facts c hl _ s' w hW0 hs
        exact ⟨linv_frame c _ _ l0 f1, f2, eff_of_ready c.p s s' rest f3⟩
      | waitCb w =>
        simp only [runH] at hs
        split at hs
        · rename_i hst
          simp only [Option.some.injEq] at hs
          subst hs
          rw [stOf_def] at hst
          simp only at hst
          have hlt : w < s.workers.length := stL_lt _ _ (by rw [hst]; intro h; cases h)
          have hcb := hW.cbs w (by rw [hr]; simp)
          have l0 : LInv c { s with ready := rest } :=
            linv_frame c s _ hL ⟨rfl, rfl, rfl, rfl, by simp [hr], by simp [hr], by simp [hr], Or.inl rfl⟩
          refine ⟨linv_frame c _ _ l0 (by constructor <;> simp [setSt]), ?_, ?_⟩
          · apply winv_setSt s _ w (.waitPrev true) hW hlt (by rw [hst]; intro h; cases h) (by intro h; cases h)
              (fun _ => ⟨hcb.1, hcb.2.2⟩) (by simp [setSt])
            intro u hu
            left
            simp [setSt] at hu
            rw [hr]; simp [hu]
          · refine Eff.silent (by simp [setSt]) (by simp [setSt]) ?_ (by simp [setSt]) (by simp [setSt])
            rw [aproj_def, aproj_def]
            apply aprojL_congr _ _ (by simp [setSt])
            intro v _
            simp only [setSt, stL_modify_st, hlt, and_true]
            by_cases e : v = w
            · subst e; simp [hst, projA]
            · simp [e]
        · simp at hs
      | jobFirst j =>
        obtain ⟨l0, _⟩ := pop (by simp [hr]) (by simp [hr]) (by simp [hr]) (by simp [hr])
        simp only [runH] at hs
        split at hs
        · simp at hs; subst hs
          exact ⟨linv_frame c _ _ l0 ⟨rfl, rfl, rfl, rfl, rfl, rfl, rfl, Or.inl rfl⟩,
            winv_frame _ _ hW0 rfl (fun u hu => hu), eff_silent_of_workers c.p s _ rfl rfl rfl rfl rfl⟩
        · simp at hs; subst hs
          exact ⟨linv_frame c _ _ l0 (by constructor <;> simp [finishJob]),
            winv_frame _ _ hW0 rfl (fun u hu => by simpa [finishJob] using hu),
            eff_silent_of_workers c.p s _ rfl rfl rfl rfl rfl⟩
        · simp at hs
      | jobWake j =>
        obtain ⟨l0, _⟩ := pop (by simp [hr]) (by simp [hr]) (by simp [hr]) (by simp [hr])
        simp only [runH, Option.some.injEq] at hs
        subst hs
        exact ⟨linv_frame c _ _ l0 (by constructor <;> simp [finishJob]),
          winv_frame _ _ hW0 rfl (fun u hu => by simpa [finishJob] using hu),
          eff_silent_of_workers c.p s _ rfl rfl rfl rfl rfl⟩
      | gatherCb w =>
        obtain ⟨l0, _⟩ := pop (by simp [hr]) (by simp [hr]) (by simp [hr]) (by simp [hr])
        simp only [runH, Option.some.injEq] at hs
        subst hs
        exact ⟨linv_frame c _ _ l0 (by constructor <;> simp),
          winv_frame _ _ hW0 rfl (fun u hu => by simpa using hu),
          eff_silent_of_workers c.p s _ rfl rfl rfl rfl rfl⟩
  | jobDone j =>
    simp only [step] at hs
    split at hs
    · simp at hs; subst hs
      exact ⟨linv_frame c _ _ hL ⟨rfl, rfl, rfl, rfl, rfl, rfl, rfl, Or.inl rfl⟩,
        winv_frame _ _ hW rfl (fun u hu => hu), eff_silent_of_workers c.p s _ rfl rfl rfl rfl rfl⟩
    · simp at hs; subst hs
      exact ⟨linv_frame c _ _ hL (by constructor <;> simp),
        winv_frame _ _ hW rfl (fun u hu => by simpa using hu), eff_silent_of_workers c.p s _ rfl rfl rfl rfl rfl⟩
    · simp at hs
  | downDone =>
    simp only [step] at hs
    cases hb : firstBusy s with
    | none => simp [hb] at hs
    | some wj =>
      obtain ⟨w, j⟩ := wj
      simp [hb] at hs
      subst hs
      obtain ⟨hlt, hst⟩ := firstBusy_spec s w j hb
      have hnf : stL s.workers w ≠ .finished := by rw [hst]; intro h; cases h
      refine ⟨linv_frame c _ _ hL (by constructor <;> simp [setSt]), ?_, ?_⟩
      · apply winv_setSt s _ w (.emitting j false) hW hlt hnf (fun _ => hW.chain w hlt (by rw [hst]; rfl))
          (by intro h; cases h) (by simp [setSt])
        intro u hu; left; simpa [setSt] using hu
      · refine Eff.silent (by simp [setSt]) (by simp [setSt]) ?_ (by simp [setSt]) (by simp [setSt])
        rw [aproj_def, aproj_def]
        apply aprojL_congr _ _ (by simp [setSt])
        intro v _
        simp only [setSt, stL_modify_st, hlt, and_true]
        by_cases e : v = w
        · subst e; simp [hst, projA]
        · simp [e]
  | start =>
    simp only [step, startNode, hl, Option.some.injEq] at hs
    subst hs
    have hcreate : LInv c (createWorker s) ∧ WInv (createWorker s) ∧ Eff c.p s (createWorker s) := by
      obtain ⟨f1, f2, f3, f4⟩ := createWorker_facts c.p s hW
      exact ⟨linv_frame c s _ hL f1, f2, Eff.silent f1.ins rfl f3 f4 f1.started⟩
    cases hw : s.workTask with
    | none => simpa [hw] using hcreate
    | some w0 =>
      simp only
      split
      · exact hcreate
      · exact ⟨hL, hW, eff_silent_of_workers c.p s s rfl rfl rfl rfl rfl⟩
  | stop =>
    simp only [step] at hs
    cases hw : s.workTask with
    | none => simp [hw] at hs
    | some w0 =>
      simp [hw] at hs
      subst hs
      refine ⟨linv_frame c _ _ hL (by constructor <;> simp [setStop]),
        winv_setStop s _ w0 hW (by simp [setStop]) (fun u hu => by simpa [setStop] using hu), ?_⟩
      refine Eff.silent (by simp [setStop]) (by simp [setStop]) ?_ (by simp [setStop]) (by simp [setStop])
      rw [aproj_def, aproj_def]
      apply aprojL_congr _ _ (by simp [setStop])
      intro v _
      simp [setStop]

/-! ### FIFO through the consumer side, and the bundle -/

/-- started = emitted ++ taken out of the queue and not emitted yet ++ work queue -/
def Fifo (s : FSt α) : Prop := s.started = s.outs ++ apre s ++ s.queue

theorem fifo_gn (s s' : FSt α) (h : s.started = s.outs ++ s.queue) (h2 : s'.started = s.started)
    (g : GN s.queue s.outs s') : Fifo s' := by
  unfold Fifo
  rcases g with ⟨g1, g2, g3⟩ | ⟨j, rest, g1, g2, g3 | g3⟩
  · simp [apre, g1, g2, g3, h2, h]
  · simp [apre, g2, g3.1, g3.2, h2, h, g1]
  · simp [apre, g2, g3.1, g3.2, h2, h, g1]

theorem fifo_step (p : Nat) (s s' : FSt α) (h : Fifo s) (e : Eff p s s') : Fifo s' := by
  unfold Fifo at h
  cases e with
  | arrive x h1 h2 h3 h4 h5 => unfold Fifo; simp only [apre, h2, h3, h4, h5]; exact h
  | silent h1 h2 h3 h4 h5 => unfold Fifo; simp only [apre, h2, h3, h4, h5]; exact h
  | admission j h1 h2 h3 h4 h5 h6 =>
    unfold Fifo; simp only [apre, h2, h3, h4, h5]
    simp only [apre] at h; rw [h]; simp
  | get h1 h2 h3 h4 => exact fifo_gn s s' (by simpa [apre, h3] using h) h2 h4
  | emit j h1 h2 h3 h4 h5 h6 =>
    unfold Fifo; simp only [apre, h2, h4, h5, h6]
    simp only [apre, h3] at h; rw [h]; simp
  | release j h1 h2 h3 h4 => exact fifo_gn s s' (by simpa [apre, h3] using h) h2 h4

structure Inv (c : Cfg) (s : FSt α) : Prop where
  l : LInv c s
  w : WInv s
  fifo : Fifo s

theorem inv_init (c : Cfg) : Inv c (init α) :=
  ⟨linv_init c, winv_init, by simp [Fifo, init, apre, aproj]⟩

theorem inv_step (c : Cfg) (hv : c.variant = .locked) (hl : c.life = .current) (s s' : FSt α) (a : FAct α)
    (h : Inv c s) (hs : step c s a = some s') : Inv c s' := by
  obtain ⟨f1, f2, f3⟩ := step_facts c hv hl s s' a h.l h.w hs
  exact ⟨f1, f2, fifo_step c.p s s' h.fifo f3⟩

theorem inv_run (c : Cfg) (hv : c.variant = .locked) (hl : c.life = .current) (acts : List (FAct α)) (s s' : FSt α)
    (h : Inv c s) (hr : run c s acts = some s') : Inv c s' := by
  induction acts generalizing s with
  | nil => simp [run] at hr; subst hr; exact h
  | cons a rest ih =>
    simp only [run] at hr
    cases hs : step c s a with
    | none => simp [hs] at hr
    | some s1 => rw [hs] at hr; exact ih s1 (inv_step c hv hl s s1 a h hs) hr

theorem run_append (c : Cfg) (a b : List (FAct α)) (s : FSt α) :
    run c s (a ++ b) = (run c s a).bind (fun s' => run c s' b) := by
  induction a generalizing s with
  | nil => simp [run]
  | cons x xs ih =>
    simp only [List.cons_append, run]
    cases step c s x with
    | none => simp
    | some s1 => simp [ih]

/-- a list that is an initial part of `range n` is itself a `range` -/
theorem prefix_range (l m : List Nat) (n : Nat) (h : l ++ m = List.range n) : l = List.range l.length := by
  have hlen : l.length + m.length = n := by simpa using congrArg List.length h
  have h1 := congrArg (List.take l.length) h
  have h2 : l = List.range (min l.length n) := by simpa [List.take_range] using h1
  have h3 : min l.length n = l.length := by omega
  rw [h3] at h2
  exact h2

theorem inv_order' (c : Cfg) (s : FSt α) (h : LInv c s) : s.started ++ waitingIds s = List.range s.ins.length := by
  have := h.order
  simpa [waitingIds, List.append_assoc] using this

/-- at most one worker is past its predecessor wait and not finished -/
theorem active_unique (s : FSt α) (h : WInv s) (w v : Nat) (hw : (stL s.workers w).isActive = true)
    (hv : (stL s.workers v).isActive = true) : w = v := by
  have hwl : w < s.workers.length := stL_lt _ _ (by intro e; rw [e] at hw; simp [W.isActive] at hw)
  have hvl : v < s.workers.length := stL_lt _ _ (by intro e; rw [e] at hv; simp [W.isActive] at hv)
  have np : ∀ x : W, x.isActive = true → x.isPre = false := by intro x hx; cases x <;> simp [W.isActive, W.isPre] at hx ⊢
  rcases Nat.lt_trichotomy w v with hlt | heq | hgt
  · have := h.chain v hvl (np _ hv) w hlt
    rw [this] at hw; simp [W.isActive] at hw
  · exact heq
  · have := h.chain w hwl (np _ hw) v hgt
    rw [this] at hv; simp [W.isActive] at hv

end StreamzVerif.MapAsyncFine
