import StreamzVerif.Model.MapAsyncFine
/-! Invariant and helper lemmas for the fine-grained `map_async` model (Model/MapAsyncFine.lean), variant `.locked`. -/
set_option linter.unusedSimpArgs false
set_option linter.unusedVariables false
set_option linter.unnecessarySimpa false
namespace StreamzVerif.MapAsyncFine

variable {α : Type}

@[simp] theorem fresh_nil : fresh [] = [] := rfl
@[simp] theorem fresh_insFirst (j : Nat) (r : List H) : fresh ((.insFirst j) :: r) = j :: fresh r := rfl
@[simp] theorem fresh_insWake (j : Nat) (r : List H) : fresh ((.insWake j) :: r) = fresh r := rfl
@[simp] theorem fresh_insPoll (j : Nat) (r : List H) : fresh ((.insPoll j) :: r) = fresh r := rfl
@[simp] theorem fresh_ack (j : Nat) (r : List H) : fresh ((.ack j) :: r) = fresh r := rfl
@[simp] theorem fresh_worker (r : List H) : fresh (.worker :: r) = fresh r := rfl
@[simp] theorem fresh_jobFirst (j : Nat) (r : List H) : fresh ((.jobFirst j) :: r) = fresh r := rfl
@[simp] theorem fresh_jobWake (j : Nat) (r : List H) : fresh ((.jobWake j) :: r) = fresh r := rfl
@[simp] theorem fresh_gatherCb (r : List H) : fresh (.gatherCb :: r) = fresh r := rfl
@[simp] theorem fresh_append (a b : List H) : fresh (a ++ b) = fresh a ++ fresh b := by
  induction a with
  | nil => rfl
  | cons h t ih => cases h <;> simp [ih]
@[simp] theorem wakes_nil : wakes [] = [] := rfl
@[simp] theorem wakes_insFirst (j : Nat) (r : List H) : wakes ((.insFirst j) :: r) = wakes r := rfl
@[simp] theorem wakes_insWake (j : Nat) (r : List H) : wakes ((.insWake j) :: r) = j :: wakes r := rfl
@[simp] theorem wakes_insPoll (j : Nat) (r : List H) : wakes ((.insPoll j) :: r) = wakes r := rfl
@[simp] theorem wakes_ack (j : Nat) (r : List H) : wakes ((.ack j) :: r) = wakes r := rfl
@[simp] theorem wakes_worker (r : List H) : wakes (.worker :: r) = wakes r := rfl
@[simp] theorem wakes_jobFirst (j : Nat) (r : List H) : wakes ((.jobFirst j) :: r) = wakes r := rfl
@[simp] theorem wakes_jobWake (j : Nat) (r : List H) : wakes ((.jobWake j) :: r) = wakes r := rfl
@[simp] theorem wakes_gatherCb (r : List H) : wakes (.gatherCb :: r) = wakes r := rfl
@[simp] theorem wakes_append (a b : List H) : wakes (a ++ b) = wakes a ++ wakes b := by
  induction a with
  | nil => rfl
  | cons h t ih => cases h <;> simp [ih]
@[simp] theorem polls_nil : polls [] = [] := rfl
@[simp] theorem polls_insFirst (j : Nat) (r : List H) : polls ((.insFirst j) :: r) = polls r := rfl
@[simp] theorem polls_insWake (j : Nat) (r : List H) : polls ((.insWake j) :: r) = polls r := rfl
@[simp] theorem polls_insPoll (j : Nat) (r : List H) : polls ((.insPoll j) :: r) = j :: polls r := rfl
@[simp] theorem polls_ack (j : Nat) (r : List H) : polls ((.ack j) :: r) = polls r := rfl
@[simp] theorem polls_worker (r : List H) : polls (.worker :: r) = polls r := rfl
@[simp] theorem polls_jobFirst (j : Nat) (r : List H) : polls ((.jobFirst j) :: r) = polls r := rfl
@[simp] theorem polls_jobWake (j : Nat) (r : List H) : polls ((.jobWake j) :: r) = polls r := rfl
@[simp] theorem polls_gatherCb (r : List H) : polls (.gatherCb :: r) = polls r := rfl
@[simp] theorem polls_append (a b : List H) : polls (a ++ b) = polls a ++ polls b := by
  induction a with
  | nil => rfl
  | cons h t ih => cases h <;> simp [ih]

@[simp] theorem pre_absent : W.absent.pre = [] := rfl
@[simp] theorem pre_starting : W.starting.pre = [] := rfl
@[simp] theorem pre_getting (b : Bool) : (W.getting b).pre = [] := rfl
@[simp] theorem pre_awaiting (j : Nat) : (W.awaiting j).pre = [j] := rfl
@[simp] theorem pre_emitting (j : Nat) (b : Bool) : (W.emitting j b).pre = [] := rfl

theorem full_iff {γ : Type} (p : Nat) (q : List γ) : full p q = true ↔ p ≠ 0 ∧ p ≤ q.length := by
  simp [full]

theorem filter_unwoken (l : List (Nat × Bool)) (h : ∀ e ∈ l, e.2 = false) : l.filter (fun e => e.2) = [] := by
  rw [List.filter_eq_nil_iff]
  intro e he
  simp [h e he]

/-! ### field lemmas of the building blocks -/

@[simp] theorem insertNow_started (s : FSt α) (j : Nat) : (insertNow s j).started = s.started ++ [j] := by
  unfold insertNow; split <;> rfl
@[simp] theorem insertNow_queue (s : FSt α) (j : Nat) : (insertNow s j).queue = s.queue ++ [j] := by
  unfold insertNow; split <;> rfl
@[simp] theorem insertNow_ins (s : FSt α) (j : Nat) : (insertNow s j).ins = s.ins := by
  unfold insertNow; split <;> rfl
@[simp] theorem insertNow_holder (s : FSt α) (j : Nat) : (insertNow s j).holder = s.holder := by
  unfold insertNow; split <;> rfl
@[simp] theorem insertNow_lockq (s : FSt α) (j : Nat) : (insertNow s j).lockq = s.lockq := by
  unfold insertNow; split <;> rfl
@[simp] theorem insertNow_outs (s : FSt α) (j : Nat) : (insertNow s j).outs = s.outs := by
  unfold insertNow; split <;> rfl
@[simp] theorem insertNow_fin (s : FSt α) (j : Nat) : (insertNow s j).fin = s.fin := by
  unfold insertNow; split <;> rfl
@[simp] theorem insertNow_acked (s : FSt α) (j : Nat) : (insertNow s j).acked = s.acked := by
  unfold insertNow; split <;> rfl
@[simp] theorem insertNow_jobs (s : FSt α) (j : Nat) : (insertNow s j).jobs = s.jobs ++ [(j, .created)] := by
  unfold insertNow; split <;> rfl
@[simp] theorem insertNow_pre (s : FSt α) (j : Nat) : (insertNow s j).worker.pre = s.worker.pre := by
  unfold insertNow; split <;> simp_all
@[simp] theorem insertNow_fresh (s : FSt α) (j : Nat) : fresh (insertNow s j).ready = fresh s.ready := by
  unfold insertNow; split <;> simp
@[simp] theorem insertNow_wakes (s : FSt α) (j : Nat) : wakes (insertNow s j).ready = wakes s.ready := by
  unfold insertNow; split <;> simp
@[simp] theorem insertNow_polls (s : FSt α) (j : Nat) : polls (insertNow s j).ready = polls s.ready := by
  unfold insertNow; split <;> simp
theorem insertNow_not_getting (s : FSt α) (j : Nat) : (insertNow s j).worker ≠ .getting true := by
  unfold insertNow; split
  · simp
  · rename_i h; simpa using h

theorem releaseLock_cases (s : FSt α) (h : ∀ e ∈ s.lockq, e.2 = false) :
    (s.lockq = [] ∧ releaseLock s = { s with holder := none }) ∨
    (∃ k rest, s.lockq = (k, false) :: rest ∧
      releaseLock s = { s with holder := none, lockq := (k, true) :: rest, ready := s.ready ++ [.insWake k] }) := by
  unfold releaseLock
  cases hq : s.lockq with
  | nil => left; simp
  | cons e rest =>
    obtain ⟨k, b⟩ := e
    have hb : b = false := by have := h (k, b) (by simp [hq]); simpa using this
    subst hb
    right; exact ⟨k, rest, rfl, by simp⟩

/-! ### the invariant -/

structure Inv (c : Cfg) (s : FSt α) : Prop where
  /-- started jobs, then the lock holder, the lock's waiters, the insert jobs that have not run yet: arrival order -/
  order : s.started ++ s.holder.toList ++ s.lockq.map Prod.fst ++ fresh s.ready = List.range s.ins.length
  idx : s.ins.map Prod.fst = List.range s.ins.length
  /-- started = emitted ++ taken by the worker ++ work queue -/
  fifo : s.started = s.outs ++ s.worker.pre ++ s.queue
  bound : c.p ≠ 0 → s.queue.length ≤ c.p
  /-- queued `insWake` handles = resolved futures in `_waiters` -/
  wk : wakes s.ready = (s.lockq.filter (fun e => e.2)).map Prod.fst
  /-- only the first waiter is ever woken -/
  tailUnwoken : ∀ e ∈ s.lockq.tail, e.2 = false
  /-- ... and nobody while the lock is held -/
  heldUnwoken : s.holder ≠ none → ∀ e ∈ s.lockq, e.2 = false
  /-- the only poller is the holder, its handle is queued exactly once -/
  pl : polls s.ready = s.holder.toList
  /-- no lost wake-up on the lock: a free lock with waiters has woken the first of them -/
  freeWoken : s.holder = none → s.lockq ≠ [] → ∃ k rest, s.lockq = (k, true) :: rest
  /-- no lost wake-up on the queue: the worker's getter is registered only while the queue is empty -/
  getter : s.worker = .getting true → s.queue = []

theorem inv_init (c : Cfg) : Inv c (init α) := by
  constructor <;> simp [init]

theorem inv_slotWait (c : Cfg) (hv : c.variant = .locked) (s : FSt α) (j : Nat)
    (order : s.started ++ [j] ++ s.lockq.map Prod.fst ++ fresh s.ready = List.range s.ins.length)
    (idx : s.ins.map Prod.fst = List.range s.ins.length)
    (fifo : s.started = s.outs ++ s.worker.pre ++ s.queue)
    (bound : c.p ≠ 0 → s.queue.length ≤ c.p)
    (nowake : wakes s.ready = [])
    (unwoken : ∀ e ∈ s.lockq, e.2 = false)
    (nopoll : polls s.ready = [])
    (getter : s.worker = .getting true → s.queue = []) : Inv c (slotWait c s j) := by
  unfold slotWait
  by_cases hf : full c.p s.queue = true
  · simp only [hf, if_true, hv]
    constructor
    · simpa using order
    · simpa using idx
    · simpa using fifo
    · simpa using bound
    · simp [nowake, filter_unwoken _ unwoken]
    · intro e he; exact unwoken e (List.mem_of_mem_tail he)
    · intro _; simpa using unwoken
    · simp [nopoll]
    · simp
    · simpa using getter
  · simp only [hf, hv]
    have hnf : c.p = 0 ∨ s.queue.length < c.p := by
      rw [full_iff] at hf; omega
    have hu' : ∀ e ∈ (insertNow s j).lockq, e.2 = false := by simpa using unwoken
    rcases releaseLock_cases (insertNow s j) hu' with ⟨hq, hr⟩ | ⟨k, rest, hq, hr⟩
    · simp only [Bool.false_eq_true, if_false, hr, finishInsert]
      simp at hq
      constructor
      · simpa [hq] using order
      · simpa using idx
      · simp [fifo]
      · intro hp; have := bound hp; simp; omega
      · simp [nowake, hq]
      · simp [hq]
      · simp
      · simp [nopoll]
      · simp [hq]
      · intro h; exact absurd h (insertNow_not_getting s j)
    · simp only [Bool.false_eq_true, if_false, hr, finishInsert]
      simp at hq
      have hrest : ∀ e ∈ rest, e.2 = false := fun e he => unwoken e (by simp [hq, he])
      constructor
      · simpa [hq] using order
      · simpa using idx
      · simp [fifo]
      · intro hp; have := bound hp; simp; omega
      · simp [nowake, filter_unwoken _ hrest]
      · simpa using hrest
      · simp
      · simp [nopoll]
      · intro _ _; exact ⟨k, rest, rfl⟩
      · intro h; exact absurd h (insertNow_not_getting s j)

/-- a change of the job table, of `fin`/`acked`, and handles appended to the ready queue that are neither insert
steps nor wake-ups nor polls do not touch the invariant -/
theorem inv_frame (c : Cfg) (s s' : FSt α) (h : Inv c s)
    (h1 : s'.started = s.started) (h2 : s'.holder = s.holder) (h3 : s'.lockq = s.lockq) (h4 : s'.ins = s.ins)
    (h5 : s'.outs = s.outs) (h6 : s'.worker = s.worker) (h7 : s'.queue = s.queue)
    (h8 : fresh s'.ready = fresh s.ready) (h9 : wakes s'.ready = wakes s.ready) (h10 : polls s'.ready = polls s.ready) :
    Inv c s' := by
  constructor
  · rw [h1, h2, h3, h4, h8]; exact h.order
  · rw [h4]; exact h.idx
  · rw [h1, h5, h6, h7]; exact h.fifo
  · rw [h7]; exact h.bound
  · rw [h9, h3]; exact h.wk
  · rw [h3]; exact h.tailUnwoken
  · rw [h2, h3]; exact h.heldUnwoken
  · rw [h10, h2]; exact h.pl
  · rw [h2, h3]; exact h.freeWoken
  · rw [h6, h7]; exact h.getter

theorem inv_emitNow (c : Cfg) (s : FSt α) (j : Nat) (h : Inv c s) (hw : s.worker = .awaiting j) : Inv c (emitNow s j) := by
  have hf := h.fifo
  rw [hw] at hf
  constructor
  · simpa [emitNow] using h.order
  · simpa [emitNow] using h.idx
  · simp [emitNow, hf]
  · simpa [emitNow] using h.bound
  · simpa [emitNow] using h.wk
  · simpa [emitNow] using h.tailUnwoken
  · simpa [emitNow] using h.heldUnwoken
  · simpa [emitNow] using h.pl
  · simpa [emitNow] using h.freeWoken
  · simp [emitNow]

theorem inv_getNext (c : Cfg) (s : FSt α) (h : Inv c s) (hpre : s.worker.pre = []) : Inv c (getNext s) := by
  have hf := h.fifo
  rw [hpre] at hf
  unfold getNext
  cases hq : s.queue with
  | nil =>
    simp only
    constructor
    · simpa using h.order
    · simpa using h.idx
    · simp [hf, hq]
    · simp
    · simpa using h.wk
    · simpa using h.tailUnwoken
    · simpa using h.heldUnwoken
    · simpa using h.pl
    · simpa using h.freeWoken
    · simp
  | cons j rest =>
    simp only
    have hb : c.p ≠ 0 → rest.length ≤ c.p := by
      intro hp; have := h.bound hp; rw [hq] at this; simp at this; omega
    split
    · constructor
      · simpa [emitNow] using h.order
      · simpa [emitNow] using h.idx
      · simp [emitNow, hf, hq]
      · simpa [emitNow] using hb
      · simpa [emitNow] using h.wk
      · simpa [emitNow] using h.tailUnwoken
      · simpa [emitNow] using h.heldUnwoken
      · simpa [emitNow] using h.pl
      · simpa [emitNow] using h.freeWoken
      · simp [emitNow]
    · constructor
      · simpa using h.order
      · simpa using h.idx
      · simp [hf, hq]
      · simpa using hb
      · simpa using h.wk
      · simpa using h.tailUnwoken
      · simpa using h.heldUnwoken
      · simpa using h.pl
      · simpa using h.freeWoken
      · simp

theorem inv_finishJob (c : Cfg) (s : FSt α) (j : Nat) (h : Inv c s) : Inv c (finishJob s j) := by
  unfold finishJob
  split <;> exact inv_frame c s _ h rfl rfl rfl rfl rfl rfl rfl (by simp) (by simp) (by simp)

theorem inv_runH (c : Cfg) (hv : c.variant = .locked) (s : FSt α) (hd : H) (rest : List H) (s' : FSt α)
    (h : Inv c s) (hr : s.ready = hd :: rest) (hs : runH c { s with ready := rest } hd = some s') : Inv c s' := by
  have horder := h.order
  have hwk := h.wk
  have hpl := h.pl
  rw [hr] at horder hwk hpl
  cases hd with
  | insFirst j =>
    simp only [runH, hv, Option.some.injEq] at hs
    subst hs
    simp at horder hwk hpl
    unfold tryLock
    by_cases hfree : s.holder = none ∧ s.lockq = []
    · simp only [hfree, and_self, if_true]
      apply inv_slotWait c hv
      · simpa [hfree.1, hfree.2] using horder
      · simpa using h.idx
      · simpa using h.fifo
      · simpa using h.bound
      · simpa [hfree.2] using hwk
      · simp [hfree.2]
      · simpa [hfree.1] using hpl
      · simpa using h.getter
    · have hfree' : ¬(s.holder = none ∧ s.lockq = []) := hfree
      simp only [hfree', if_false]
      constructor
      · simpa using horder
      · simpa using h.idx
      · simpa using h.fifo
      · simpa using h.bound
      · simpa [List.filter_append] using hwk
      · intro e he
        cases hq : s.lockq with
        | nil => simp [hq] at he
        | cons a t =>
          simp [hq] at he
          rcases he with he | he
          · exact h.tailUnwoken e (by simp [hq, he])
          · simp [he]
      · intro hh e he
        simp at he
        rcases he with he | he
        · exact h.heldUnwoken hh e he
        · simp [he]
      · simpa using hpl
      · intro hh _
        have hne : s.lockq ≠ [] := fun hq => hfree ⟨hh, hq⟩
        obtain ⟨k, r, hq⟩ := h.freeWoken hh hne
        exact ⟨k, r ++ [(j, false)], by simp [hq]⟩
      · simpa using h.getter
  | insWake j =>
    simp only [runH, Option.some.injEq] at hs
    subst hs
    simp at horder hwk hpl
    -- the lock is free and `j` is the woken first waiter
    have hh : s.holder = none := by
      cases hho : s.holder with
      | none => rfl
      | some x =>
        have := filter_unwoken _ (h.heldUnwoken (by simp [hho]))
        rw [this] at hwk; simp at hwk
    have hne : s.lockq ≠ [] := by
      intro hq; rw [hq] at hwk; simp at hwk
    obtain ⟨k, r, hq⟩ := h.freeWoken hh hne
    have hr' : ∀ e ∈ r, e.2 = false := fun e he => h.tailUnwoken e (by simp [hq, he])
    rw [hq] at hwk
    simp [filter_unwoken _ hr'] at hwk
    obtain ⟨hjk, hw0⟩ := hwk
    subst hjk
    apply inv_slotWait c hv
    · simpa [hh, hq] using horder
    · simpa using h.idx
    · simpa using h.fifo
    · simpa using h.bound
    · simpa using hw0
    · simpa [hq] using hr'
    · simpa [hh] using hpl
    · simpa using h.getter
  | insPoll j =>
    simp only [runH, Option.some.injEq] at hs
    subst hs
    simp at horder hwk hpl
    have hh : s.holder = some j ∧ polls rest = [] := by
      cases hho : s.holder with
      | none => rw [hho] at hpl; simp at hpl
      | some x => rw [hho] at hpl; simp at hpl; simp [hpl.1, hpl.2]
    have hu := h.heldUnwoken (by simp [hh.1])
    apply inv_slotWait c hv
    · simpa [hh.1] using horder
    · simpa using h.idx
    · simpa using h.fifo
    · simpa using h.bound
    · simpa [filter_unwoken _ hu] using hwk
    · simpa using hu
    · simpa using hh.2
    · simpa using h.getter
  | ack j =>
    simp only [runH, Option.some.injEq] at hs
    subst hs
    exact inv_frame c s _ h rfl rfl rfl rfl rfl rfl rfl (by simp [hr]) (by simp [hr]) (by simp [hr])
  | worker =>
    have h0 : Inv c { s with ready := rest } :=
      inv_frame c s _ h rfl rfl rfl rfl rfl rfl rfl (by simp [hr]) (by simp [hr]) (by simp [hr])
    generalize ({ s with ready := rest } : FSt α) = s0 at hs h0
    simp only [runH] at hs
    cases hw : s0.worker with
    | absent => simp [hw] at hs
    | starting => simp [hw] at hs; subst hs; exact inv_getNext c _ h0 (by simp [hw])
    | getting b => simp [hw] at hs; subst hs; exact inv_getNext c _ h0 (by simp [hw])
    | awaiting j => simp [hw] at hs; subst hs; exact inv_emitNow c _ j h0 hw
    | emitting j b =>
      simp [hw] at hs; subst hs
      apply inv_getNext c _ _ (by simp [hw])
      exact inv_frame c _ _ h0 rfl rfl rfl rfl rfl (by simp [hw]) rfl rfl rfl rfl
  | jobFirst j =>
    have h0 : Inv c { s with ready := rest } :=
      inv_frame c s _ h rfl rfl rfl rfl rfl rfl rfl (by simp [hr]) (by simp [hr]) (by simp [hr])
    simp only [runH] at hs
    split at hs
    · simp at hs; subst hs
      exact inv_frame c _ _ h0 rfl rfl rfl rfl rfl rfl rfl rfl rfl rfl
    · simp at hs; subst hs; exact inv_finishJob c _ j h0
    · simp at hs
  | jobWake j =>
    have h0 : Inv c { s with ready := rest } :=
      inv_frame c s _ h rfl rfl rfl rfl rfl rfl rfl (by simp [hr]) (by simp [hr]) (by simp [hr])
    simp only [runH, Option.some.injEq] at hs
    subst hs; exact inv_finishJob c _ j h0
  | gatherCb =>
    simp only [runH, Option.some.injEq] at hs
    subst hs
    exact inv_frame c s _ h rfl rfl rfl rfl rfl rfl rfl (by simp [hr]) (by simp [hr]) (by simp [hr])

theorem inv_step (c : Cfg) (hv : c.variant = .locked) (s s' : FSt α) (a : FAct α) (h : Inv c s)
    (hs : step c s a = some s') : Inv c s' := by
  cases a with
  | arrive x =>
    simp only [step, Option.some.injEq] at hs
    subst hs
    have key : ∀ s1 : FSt α, Inv c s1 →
        Inv c { s1 with ins := s1.ins ++ [(s1.ins.length, x)], ready := s1.ready ++ [H.insFirst s1.ins.length] } := by
      intro s1 h1
      constructor
      · simp [List.range_succ, ← h1.order]
      · simp [List.range_succ, h1.idx]
      · simpa using h1.fifo
      · simpa using h1.bound
      · simpa using h1.wk
      · simpa using h1.tailUnwoken
      · simpa using h1.heldUnwoken
      · simpa using h1.pl
      · simpa using h1.freeWoken
      · simpa using h1.getter
    cases hw : s.worker with
    | absent =>
      simp only
      have h1 : Inv c { s with worker := W.starting, ready := s.ready ++ [H.worker] } := by
        constructor
        · simpa using h.order
        · simpa using h.idx
        · simpa [hw] using h.fifo
        · simpa using h.bound
        · simpa using h.wk
        · simpa using h.tailUnwoken
        · simpa using h.heldUnwoken
        · simpa using h.pl
        · simpa using h.freeWoken
        · simp
      exact key _ h1
    | starting => exact key _ h
    | getting b => exact key _ h
    | awaiting j => exact key _ h
    | emitting j b => exact key _ h
  | tick =>
    simp only [step] at hs
    cases hr : s.ready with
    | nil => simp [hr] at hs
    | cons hd rest => rw [hr] at hs; exact inv_runH c hv s hd rest s' h hr hs
  | jobDone j =>
    simp only [step] at hs
    split at hs
    · simp at hs; subst hs
      exact inv_frame c _ _ h rfl rfl rfl rfl rfl rfl rfl rfl rfl rfl
    · simp at hs; subst hs
      exact inv_frame c _ _ h rfl rfl rfl rfl rfl rfl rfl (by simp) (by simp) (by simp)
    · simp at hs
  | downDone =>
    simp only [step] at hs
    split at hs
    · rename_i j hw
      simp at hs; subst hs
      constructor
      · simpa using h.order
      · simpa using h.idx
      · simpa [hw] using h.fifo
      · simpa using h.bound
      · simpa using h.wk
      · simpa using h.tailUnwoken
      · simpa using h.heldUnwoken
      · simpa using h.pl
      · simpa using h.freeWoken
      · simp
    · simp at hs

theorem inv_run (c : Cfg) (hv : c.variant = .locked) (acts : List (FAct α)) (s s' : FSt α) (h : Inv c s)
    (hr : run c s acts = some s') : Inv c s' := by
  induction acts generalizing s with
  | nil => simp [run] at hr; subst hr; exact h
  | cons a rest ih =>
    simp only [run] at hr
    cases hs : step c s a with
    | none => simp [hs] at hr
    | some s1 => rw [hs] at hr; exact ih s1 (inv_step c hv s s1 a h hs) hr

theorem run_append (c : Cfg) (a b : List (FAct α)) (s : FSt α) :
    run c s (a ++ b) = (run c s a).bind (fun s' => run c s' b) := by
  induction a generalizing s with
  | nil => simp [run]
  | cons x xs ih =>
    simp only [List.cons_append, run]
    cases step c s x with
    | none => simp
    | some s1 => simp [ih]

/-- a list that is an initial part of `range n` is itself a `range` -/
theorem prefix_range (l m : List Nat) (n : Nat) (h : l ++ m = List.range n) : l = List.range l.length := by
  have hlen : l.length + m.length = n := by simpa using congrArg List.length h
  have h1 := congrArg (List.take l.length) h
  have h2 : l = List.range (min l.length n) := by simpa [List.take_range] using h1
  have h3 : min l.length n = l.length := by omega
  rw [h3] at h2
  exact h2

/-! ### what one step does to `started` and the work queue (no invariant needed) -/

/-- `s'` starts no job: `started` unchanged, the work queue unchanged or its head taken by the worker -/
def Quiet (s s' : FSt α) : Prop :=
  s'.started = s.started ∧ s'.ins = s.ins ∧ (s'.queue = s.queue ∨ ∃ j, s.queue = j :: s'.queue)

/-- `s'` starts exactly job `j`, which enters a work queue that was not full -/
def Admits (p : Nat) (s s' : FSt α) (j : Nat) : Prop :=
  s'.started = s.started ++ [j] ∧ s'.ins = s.ins ∧ s'.queue = s.queue ++ [j] ∧ full p s.queue = false

theorem slotWait_effect (c : Cfg) (hv : c.variant = .locked) (s : FSt α) (j : Nat) :
    Quiet s (slotWait c s j) ∨ Admits c.p s (slotWait c s j) j := by
  unfold slotWait
  by_cases hf : full c.p s.queue = true
  · left; simp [hf, Quiet]
  · right
    simp only [hf, hv, Bool.false_eq_true, if_false, finishInsert]
    have hq : ∀ t : FSt α, (releaseLock t).started = t.started ∧ (releaseLock t).ins = t.ins ∧
        (releaseLock t).queue = t.queue := by
      intro t; unfold releaseLock; split <;> simp
    refine ⟨?_, ?_, ?_, by simpa using hf⟩
    · simp [(hq _).1]
    · simp [(hq _).2.1]
    · simp [(hq _).2.2]

theorem getNext_effect (s : FSt α) : Quiet s (getNext s) := by
  unfold getNext
  cases hq : s.queue with
  | nil => simp [Quiet, hq]
  | cons j rest =>
    simp only
    split <;> simp [Quiet, emitNow, hq]

theorem finishJob_effect (s : FSt α) (j : Nat) : Quiet s (finishJob s j) := by
  unfold finishJob; split <;> simp [Quiet]

theorem quiet_of_ready (s t : FSt α) (rest : List H) (h : Quiet { s with ready := rest } t) : Quiet s t := h

theorem step_effect (c : Cfg) (hv : c.variant = .locked) (s s' : FSt α) (a : FAct α) (hs : step c s a = some s') :
    (∃ x, a = .arrive x ∧ s'.started = s.started ∧ s'.queue = s.queue ∧ s'.ins = s.ins ++ [(s.ins.length, x)]) ∨
    Quiet s s' ∨ ∃ j, Admits c.p s s' j := by
  cases a with
  | arrive x =>
    left
    simp only [step, Option.some.injEq] at hs
    subst hs
    refine ⟨x, rfl, ?_⟩
    cases s.worker <;> simp
  | jobDone j =>
    right; left
    simp only [step] at hs
    split at hs <;> simp at hs <;> subst hs <;> simp [Quiet]
  | downDone =>
    right; left
    simp only [step] at hs
    split at hs <;> simp at hs
    subst hs; simp [Quiet]
  | tick =>
    right
    simp only [step] at hs
    cases hr : s.ready with
    | nil => simp [hr] at hs
    | cons hd rest =>
      rw [hr] at hs
      simp only at hs
      generalize hs0 : ({ s with ready := rest } : FSt α) = s0 at hs
      have e1 : s0.started = s.started := by subst hs0; rfl
      have e2 : s0.queue = s.queue := by subst hs0; rfl
      have e3 : s0.ins = s.ins := by subst hs0; rfl
      have lift : (Quiet s0 s' ∨ ∃ j, Admits c.p s0 s' j) → (Quiet s s' ∨ ∃ j, Admits c.p s s' j) := by
        simp only [Quiet, Admits, e1, e2, e3]; exact id
      apply lift
      cases hd with
      | insFirst j =>
        simp only [runH, hv, Option.some.injEq] at hs
        subst hs
        unfold tryLock
        split
        · rcases slotWait_effect c hv s0 j with h | h
          · exact Or.inl h
          · exact Or.inr ⟨j, h⟩
        · left; simp [Quiet]
      | insWake j =>
        simp only [runH, Option.some.injEq] at hs
        subst hs
        rcases slotWait_effect c hv { s0 with lockq := s0.lockq.eraseP (fun e => e.1 == j) } j with h | h
        · exact Or.inl h
        · exact Or.inr ⟨j, h⟩
      | insPoll j =>
        simp only [runH, Option.some.injEq] at hs
        subst hs
        rcases slotWait_effect c hv s0 j with h | h
        · exact Or.inl h
        · exact Or.inr ⟨j, h⟩
      | ack j =>
        simp only [runH, Option.some.injEq] at hs
        subst hs; left; simp [Quiet]
      | worker =>
        left
        simp only [runH] at hs
        cases hw : s0.worker with
        | absent => simp [hw] at hs
        | starting => simp [hw] at hs; subst hs; exact getNext_effect s0
        | getting b => simp [hw] at hs; subst hs; exact getNext_effect s0
        | awaiting j => simp [hw] at hs; subst hs; simp [Quiet, emitNow]
        | emitting j b =>
          simp [hw] at hs; subst hs
          exact getNext_effect { s0 with fin := s0.fin ++ [j] }
      | jobFirst j =>
        left
        simp only [runH] at hs
        split at hs
        · simp at hs; subst hs; simp [Quiet]
        · simp at hs; subst hs; exact finishJob_effect s0 j
        · simp at hs
      | jobWake j =>
        left
        simp only [runH, Option.some.injEq] at hs
        subst hs; exact finishJob_effect s0 j
      | gatherCb =>
        left
        simp only [runH, Option.some.injEq] at hs
        subst hs; simp [Quiet]

end StreamzVerif.MapAsyncFine
