import StreamzVerif.Model.Resume
/-! Helper lemmas for `Props/C12.lean`. -/
namespace StreamzVerif.Resume

variable {σ β ρ : Type}

theorem run_append (step : σ → β → σ × ρ) (s : σ) (l m : List β) :
    run step s (l ++ m) =
      ((run step (run step s l).1 m).1, (run step s l).2 ++ (run step (run step s l).1 m).2) := by
  induction l generalizing s with
  | nil => simp [run]
  | cons b bs ih => simp [run, ih]

theorem run_length (step : σ → β → σ × ρ) (s : σ) (l : List β) :
    (run step s l).2.length = l.length := by
  induction l generalizing s with
  | nil => simp [run]
  | cons b bs ih => simp [run, ih]

theorem runWS_length (step : σ → β → σ × ρ) (s : σ) (l : List β) :
    (runWS step s l).length = l.length := by
  induction l generalizing s with
  | nil => simp [runWS]
  | cons b bs ih => simp [runWS, ih]

theorem runWS_map_snd (step : σ → β → σ × ρ) (s : σ) (l : List β) :
    (runWS step s l).map (·.2) = (run step s l).2 := by
  induction l generalizing s with
  | nil => simp [runWS, run]
  | cons b bs ih => simp [runWS, run, ih]

theorem runWS_append (step : σ → β → σ × ρ) (s : σ) (l m : List β) :
    runWS step s (l ++ m) = runWS step s l ++ runWS step (stateAfter step s l) m := by
  induction l generalizing s with
  | nil => simp [runWS, stateAfter, run]
  | cons b bs ih => simp [runWS, stateAfter, run, ih]

theorem stateAfter_append (step : σ → β → σ × ρ) (s : σ) (l m : List β) :
    stateAfter step s (l ++ m) = stateAfter step (stateAfter step s l) m := by
  simp [stateAfter, run_append]

theorem lastState_runWS (step : σ → β → σ × ρ) (s : σ) (l : List β) :
    lastState s (runWS step s l) = stateAfter step s l := by
  induction l generalizing s with
  | nil => simp [lastState, runWS, stateAfter, run]
  | cons b bs ih =>
    have h := ih (step s b).1
    cases hb : bs with
    | nil => simp [lastState, runWS, stateAfter, run]
    | cons c cs =>
      subst hb
      simp only [lastState, runWS, stateAfter, run] at h ⊢
      rw [List.getLast?_cons_cons]
      exact h

/-- The tuple emitted for the batch with index `k` carries the state after `k + 1` batches. -/
theorem runWS_getElem? (step : σ → β → σ × ρ) (s : σ) (l : List β) (k : Nat) (st : σ) (r : ρ)
    (h : (runWS step s l)[k]? = some (st, r)) : st = stateAfter step s (l.take (k + 1)) := by
  induction l generalizing s k with
  | nil => simp [runWS] at h
  | cons b bs ih =>
    cases k with
    | zero =>
      simp only [runWS, List.getElem?_cons_zero, Option.some.injEq] at h
      simp [stateAfter, run, h]
    | succ k =>
      simp only [runWS, List.getElem?_cons_succ] at h
      have := ih (step s b).1 k h
      simpa [stateAfter, run] using this

theorem runOpt_append (step : σ → β → Option (σ × ρ)) (s : σ) (l m : List β) :
    runOpt step s (l ++ m) =
      (runOpt step s l).bind (fun a => (runOpt step a.1 m).map (fun c => (c.1, a.2 ++ c.2))) := by
  induction l generalizing s with
  | nil =>
    simp only [List.nil_append, runOpt, Option.bind_some, List.nil_append]
    cases runOpt step s m <;> simp
  | cons b bs ih =>
    simp only [List.cons_append, runOpt]
    cases hb : step s b with
    | none => simp
    | some r =>
      simp only [ih]
      cases h1 : runOpt step r.1 bs with
      | none => simp
      | some a =>
        simp only [Option.bind_some]
        cases h2 : runOpt step a.1 m with
        | none => simp
        | some c => simp

end StreamzVerif.Resume
