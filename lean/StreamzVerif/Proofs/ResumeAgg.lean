import StreamzVerif.Proofs.Resume
import StreamzVerif.Model.Agg
/-! Bridge between the generic `Resume.run` and `runFrom` / `stateFrom` of the C06 model. -/
namespace StreamzVerif.Resume
open StreamzVerif.Agg

theorem agg_run_eq {β σ ρ : Type} (A : Aggregation β σ ρ) (acc : Option σ) (bs : List β) :
    run (node A) acc bs = (stateFrom A acc bs, runFrom A acc bs) := by
  induction bs generalizing acc with
  | nil => simp [run, stateFrom, runFrom]
  | cons b bs ih => simp [run, stateFrom, runFrom, ih]

end StreamzVerif.Resume
